#!/bin/bash
# build.sh: (re)build everything the checks need from /repo's current working tree.
# Incremental: gen writes Gen/*.v only when their content changes.
set -e
export GOFLAGS=-mod=mod GOPROXY=off GOSUMDB=off GOTOOLCHAIN=local
cd "$(dirname "$0")"
V=$(pwd)
mkdir -p build build/ocaml
exec 9>build/.lock
flock 9
# 1. translator
if [ ! -x build/gen ] || [ -n "$(find gen -newer build/gen -name '*.go')" ]; then
  (cd gen && go build -o "$V/build/gen" .)
fi
./build/gen /repo coq/Gen || { echo "TRANSLATOR-MISS" >&2; exit 3; }
# 2. Coq project (full .vo build)
(cd coq && { [ -f Makefile ] && [ Makefile -nt _CoqProject ] || coq_makefile -f _CoqProject -o Makefile >/dev/null; } && timeout 3000 make -j16 2>&1 | grep -v '^COQ\|^make' > "$V/build/coq.log" ; test ${PIPESTATUS[0]} -eq 0) || { cat build/coq.log >&2; echo "COQ-BUILD-FAILED" >&2; exit 4; }
# 3. extraction + OCaml driver
if [ ! -x build/driver ] || [ -n "$(find coq -name '*.vo' -newer build/driver)" ] || [ ocaml/driver.ml -nt build/driver ] || [ coq/Extract/Extract.v -nt build/driver ]; then
  (cd coq/Extract && timeout 600 coqc -Q .. PQL Extract.v >/dev/null) || { echo "EXTRACTION-FAILED" >&2; exit 5; }
  cp coq/Extract/model.ml coq/Extract/model.mli ocaml/driver.ml build/ocaml/
  (cd build/ocaml && ocamlfind ocamlopt -O3 -w -a model.mli model.ml driver.ml -o ../driver 2>/dev/null || ocamlfind ocamlopt -w -a model.mli model.ml driver.ml -o ../driver)
fi
# 4. harness against the working tree
(cd harness && cp /repo/go.sum . && go build -o "$V/build/harness" .)
# 5. the command-line tool itself
(cd /repo && go build -o "$V/build/pql-bin" ./cmd/pql)
echo BUILD-OK
