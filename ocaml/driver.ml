(* driver: runs the extracted Coq model on the harness inputs.
   usage: driver <stage> < inputs > model.obs *)
open Model

let rec pos_of_int (i : int) : positive =
  if i = 1 then XH else if i land 1 = 0 then XO (pos_of_int (i lsr 1)) else XI (pos_of_int (i lsr 1))
let n_of_int (i : int) : n = if i = 0 then N0 else Npos (pos_of_int i)
let rec int_of_pos = function XH -> 1 | XO p -> 2 * int_of_pos p | XI p -> 2 * int_of_pos p + 1
let int_of_n = function N0 -> 0 | Npos p -> int_of_pos p
let rec nat_of_int (i : int) : nat = if i = 0 then O else S (nat_of_int (i - 1))
let rec int_of_nat = function O -> 0 | S n -> 1 + int_of_nat n

let hexval c = match c with
  | '0'..'9' -> Char.code c - 48 | 'a'..'f' -> Char.code c - 87 | 'A'..'F' -> Char.code c - 55
  | _ -> failwith "bad hex"
let unhex (s : Stdlib.String.t) : n list =
  let l = String.length s / 2 in
  List.init l (fun i -> n_of_int (hexval s.[2*i] * 16 + hexval s.[2*i+1]))
let to_string (l : n list) : Stdlib.String.t =
  let b = Buffer.create 64 in
  List.iter (fun c -> Buffer.add_char b (Char.chr (int_of_n c))) l; Buffer.contents b
let of_string (s : Stdlib.String.t) : n list = List.init (String.length s) (fun i -> n_of_int (Char.code s.[i]))

let stages : (Stdlib.String.t * (Stdlib.String.t list -> n list)) list = [
  "scan", (fun f -> show_tokens (scan (unhex (List.nth f 0))));
  "split", (fun f -> show_pieces (split_statements (unhex (List.nth f 0))));
  "parse", (fun f -> show_parse (unhex (List.nth f 0)));
  "spans", (fun f -> show_spans (unhex (List.nth f 0)));
  "gram", (fun f -> show_gram (unhex (List.nth f 0)));
  "glue", (fun f -> show_glue (unhex (List.nth f 0)));
  "walk", (fun f ->
     let m = (match f with _ :: m :: _ -> (try int_of_string m with _ -> -1) | _ -> -1) in
     show_walk (if m < 0 then None else Some (nat_of_int m)) (unhex (List.nth f 0)));
  "lit", (fun f -> show_lit (unhex (List.nth f 0)));
  "cli", (fun f ->
     let readerr = (match f with _ :: m :: _ -> m = "filedir" | _ -> false) in
     show_cli_gen readerr (unhex (List.nth f 0)));
  (* reread: source, parameter pairs, and last the SQL text the implementation produced *)
  "reread", (fun f ->
     let rec pairs = function k :: v :: (_ :: _ as r) -> (unhex k, unhex v) :: pairs r | _ -> [] in
     let sql = unhex (List.nth f (List.length f - 1)) in
     reread (pairs (List.tl f)) (unhex (List.hd f)) sql);
  "compile", (fun f ->
     let rec pairs = function k :: v :: r -> (unhex k, unhex v) :: pairs r | _ -> [] in
     show_compile (pairs (List.tl f)) (unhex (List.hd f)));
]

let () =
  let stage = Sys.argv.(1) in
  let fn = try List.assoc stage stages with Not_found -> (prerr_endline ("unknown stage " ^ stage); exit 2) in
  (try
    while true do
      let line = input_line stdin in
      let fields = String.split_on_char '\t' line in
      print_string (to_string (fn fields)); print_char '\n'
    done
  with End_of_file -> ())
