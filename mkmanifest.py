#!/usr/bin/env python3
"""Regenerates MANIFEST.json from props.py and manifest_text.py (level texts per property)."""
import json, os, sys
V = os.path.dirname(os.path.abspath(__file__))
sys.path.insert(0, V)
from props import PROPS
from manifest_text import TEXT, NOT_APPLICABLE
ids = [json.loads(l)["id"] for l in open(os.path.join(V, "properties.jsonl"))]
checks = []
for pid in ids:
    if pid not in PROPS or pid not in TEXT:
        continue
    t = TEXT[pid]
    checks.append(dict(
        property_id=pid,
        quick_cmd="./check %s --tier quick" % pid,
        thorough_cmd="./check %s --tier thorough" % pid,
        evidence_file="/verif/evidence/%s.json" % pid,
        replay_cmd_template="./check %s --replay {path}" % pid,
        engine="coq-model+correspondence",
        level_claimed=dict(category="proof", text=t["text"], design_ref=t.get("design_ref", "DESIGN.md section 5, " + pid)),
        level_note=t["note"],
        technique=t.get("technique", "machine-checked proof in Coq 8.16.1 over a Gallina model; model tied to the source by generated tables and differential execution of the extracted model")))
na = [dict(property_id=p, reason=NOT_APPLICABLE.get(p, "check not built yet in this session; claimed in DESIGN.md")) for p in ids if p not in [c["property_id"] for c in checks]]
m = dict(version=1, setup_cmd="./check --setup",
         hooks=dict(guard="verif", enable="none needed: every observable is reachable through exported API and the built binary (go build -tags verif is reserved)",
                    baseline_off_cmd="cd /repo && GOFLAGS=-mod=mod GOPROXY=off GOSUMDB=off GOTOOLCHAIN=local go test -count=1 ./...",
                    source_commits=[], add_only=True),
         engines=[dict(name="coq-model+correspondence", path="/verif/check", serves_properties=[c["property_id"] for c in checks],
                       kind_free_text="Coq 8.16.1 proofs over a Gallina model (coq/), tables regenerated from /repo by gen/, extracted model run against the implementation by harness/ + ocaml/driver.ml")],
         checks=checks, not_applicable=na,
         notes="fix: commits made to /repo for genuine defects are listed in known_findings.json (fixed entries) and DESIGN.md section 4")
json.dump(m, open(os.path.join(V, "MANIFEST.json"), "w"), indent=1)
print("claimed:", [c["property_id"] for c in checks])
