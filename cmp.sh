#!/bin/bash
# cmp.sh <family> <stage> <seed> <n>: run impl and model, show first disagreements
cd /verif/build
./harness gen $1 $3 $4 > c.in
./harness run $2 < c.in > c.impl
./driver $2 < c.in > c.model
paste c.in c.impl c.model | awk -F'\t' '$2!=$3' > c.diff
echo "cases=$(wc -l < c.in) diffs=$(wc -l < c.diff) ok=$(grep -c '^OK' c.impl) err=$(grep -c '^ERR' c.impl)"
head -${5:-5} c.diff | while IFS=$'\t' read a b c; do echo "IN:    $(echo $a | xxd -r -p | tr '\n' '~')"; echo "IMPL:  ${b:0:600}"; echo "MODEL: ${c:0:600}"; done
