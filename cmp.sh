#!/bin/bash
# cmp.sh <family> <stage> <seed> <n> [show]: run impl and model, show first disagreements
cd /verif/build
./harness gen $1 $3 $4 > c.in
./harness run $2 < c.in > c.impl
./driver $2 < c.in > c.model
paste c.in c.impl c.model | awk -F'\t' '{ if ($(NF-1)!=$NF) print }' > c.diff
echo "cases=$(wc -l < c.in) diffs=$(wc -l < c.diff) ok=$(grep -c '^OK' c.impl) err=$(grep -c '^ERR' c.impl) other=$(grep -vc '^OK\|^ERR' c.impl)"
dec() { if [[ "$1" == OK\ * && "$2" == compile ]]; then echo "OK $(echo ${1#OK } | xxd -r -p | tr '\n' '~')"; else echo "${1:0:400}"; fi; }
head -${5:-5} c.diff | while IFS= read -r line; do
  nf=$(echo "$line" | awk -F'\t' '{print NF}')
  a=$(echo "$line" | cut -f1); b=$(echo "$line" | cut -f$((nf-1))); c=$(echo "$line" | cut -f$nf)
  echo "IN:    $(echo $a | xxd -r -p | tr '\n' '~')   [$a]"; echo "IMPL:  $(dec "$b" $2)"; echo "MODEL: $(dec "$c" $2)"; done
