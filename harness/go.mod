module verif/harness

go 1.21.6

toolchain go1.23.5

require github.com/runreveal/pql v0.0.0

require golang.org/x/exp v0.0.0-20240213143201-ec583247a57a // indirect

replace github.com/runreveal/pql => /repo
