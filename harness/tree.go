package main

import (
	"fmt"
	"reflect"
	"regexp"
	"strings"

	"github.com/runreveal/pql/parser"
)

var spanType = reflect.TypeOf(parser.Span{})
var kindType = reflect.TypeOf(parser.TokenKind(0))
var nodeIface = reflect.TypeOf((*parser.Node)(nil)).Elem()

// showValue prints a syntax tree canonically: nodes as (TypeName f1 f2 ...) with the
// exported fields in declaration order.
func showValue(sb *strings.Builder, v reflect.Value) { showValueShift(sb, v, 0) }

// showValueShift is showValue with every valid span moved by off.
func showValueShift(sb *strings.Builder, v reflect.Value, off int) {
	switch v.Kind() {
	case reflect.Interface:
		if v.IsNil() {
			sb.WriteString("nil")
			return
		}
		showValueShift(sb, v.Elem(), off)
	case reflect.Ptr:
		if v.IsNil() {
			sb.WriteString("nil")
			return
		}
		showValueShift(sb, v.Elem(), off)
	case reflect.Struct:
		if v.Type() == spanType {
			sp := v.Interface().(parser.Span)
			if sp.IsValid() {
				fmt.Fprintf(sb, "%d:%d", sp.Start+off, sp.End+off)
			} else {
				fmt.Fprintf(sb, "%d:%d", sp.Start, sp.End)
			}
			return
		}
		sb.WriteString("(" + v.Type().Name())
		for i := 0; i < v.NumField(); i++ {
			if !v.Type().Field(i).IsExported() {
				continue
			}
			sb.WriteByte(' ')
			showValueShift(sb, v.Field(i), off)
		}
		sb.WriteByte(')')
	case reflect.Slice:
		sb.WriteByte('[')
		for i := 0; i < v.Len(); i++ {
			if i > 0 {
				sb.WriteByte(' ')
			}
			showValueShift(sb, v.Index(i), off)
		}
		sb.WriteByte(']')
	case reflect.String:
		sb.WriteString("x" + hx(v.String()))
	case reflect.Bool:
		if v.Bool() {
			sb.WriteByte('t')
		} else {
			sb.WriteByte('f')
		}
	case reflect.Int:
		fmt.Fprintf(sb, "%d", v.Int())
	default:
		panic("showValue: unexpected kind " + v.Kind().String())
	}
}

var posPrefix = regexp.MustCompile(`^(\d+:\d+): `)

// errPositions projects an error returned by Parse/Compile to the list of line:col
// prefixes of its lines ("-" for a line without one).
func errPositions(err error) string {
	msg := err.Error()
	msg = strings.TrimPrefix(msg, "parse pipeline query language: ")
	var out []string
	for _, line := range strings.Split(msg, "\n") {
		if m := posPrefix.FindStringSubmatch(line); m != nil {
			out = append(out, m[1])
		} else {
			out = append(out, "-")
		}
	}
	return strings.Join(out, ",")
}

func showParse(src string) string {
	stmts, err := parser.Parse(src)
	if err != nil {
		return "ERR " + errPositions(err)
	}
	var sb strings.Builder
	sb.WriteString("OK")
	for _, s := range stmts {
		sb.WriteByte(' ')
		showValue(&sb, reflect.ValueOf(s))
	}
	return sb.String()
}

// collectSpans appends Span() of every node in pre-order (fields in declaration order).
func collectSpans(out *[]string, v reflect.Value) {
	switch v.Kind() {
	case reflect.Interface, reflect.Ptr:
		if v.IsNil() {
			return
		}
		if v.Kind() == reflect.Ptr && v.Type().Implements(nodeIface) {
			sp := v.Interface().(parser.Node).Span()
			*out = append(*out, fmt.Sprintf("%d:%d", sp.Start, sp.End))
		}
		collectSpans(out, v.Elem())
	case reflect.Struct:
		if v.Type() == spanType {
			return
		}
		for i := 0; i < v.NumField(); i++ {
			if v.Type().Field(i).IsExported() {
				collectSpans(out, v.Field(i))
			}
		}
	case reflect.Slice:
		for i := 0; i < v.Len(); i++ {
			collectSpans(out, v.Index(i))
		}
	}
}

func showSpans(src string) string {
	stmts, err := parser.Parse(src)
	if err != nil {
		return "ERR"
	}
	var out []string
	for _, s := range stmts {
		collectSpans(&out, reflect.ValueOf(s))
	}
	return "OK " + strings.Join(out, " ")
}

func init() {
	stages["parse"] = func(f []string) string { return showParse(unhx(f[0])) }
	stages["spans"] = func(f []string) string { return showSpans(unhx(f[0])) }
	// gram: the model side answers OK only when the accepted program is a program of the grammar
	// (coq/Spec/Grammar.v: gprog); the implementation side says whether Parse accepted
	stages["gram"] = func(f []string) string {
		if _, err := parser.Parse(unhx(f[0])); err != nil {
			return "ERR"
		}
		return "OK"
	}
}
