package main

// Specification-side oracles for the lexer properties (C09, C15), evaluated on the
// implementation's own outputs.  They are written from the property text, not from the
// model: a reference tokenizer built from regular expressions with longest match.

import (
	"fmt"
	"math/big"
	"reflect"
	"regexp"
	"strings"
	"unicode"
	"unicode/utf8"

	"github.com/runreveal/pql/parser"
)

var oracles = map[string]func(fields []string) string{}

func init() {
	stages["oracle-C09"] = func(f []string) string { return oracleC09(unhx(f[0])) }
	stages["oracle-C15"] = func(f []string) string { return oracleC15(unhx(f[0])) }
}

type refTok struct {
	kind       parser.TokenKind
	start, end int
	value      string
}

var (
	reIdent  = regexp.MustCompile("^[A-Za-z_$][A-Za-z0-9_]*")
	reQuoted = regexp.MustCompile("^`(?:[^`\n]|``)*`")
	reStr1   = regexp.MustCompile(`^'(?:[^'\\` + "\n" + `]|\\[^` + "\n" + `])*'`)
	reStr2   = regexp.MustCompile(`^"(?:[^"\\` + "\n" + `]|\\[^` + "\n" + `])*"`)
	reHex    = regexp.MustCompile("^0[xX][0-9a-fA-F]+")
	reDec    = regexp.MustCompile(`^(?:[0-9]+(?:\.[0-9]*)?|\.[0-9]+)(?:[eE][+-]?[0-9]+)?`)
)

func init() {
	for _, re := range []*regexp.Regexp{reIdent, reQuoted, reStr1, reStr2, reHex, reDec} {
		re.Longest()
	}
}

var refKeywords = map[string]parser.TokenKind{"and": parser.TokenAnd, "or": parser.TokenOr, "in": parser.TokenIn, "by": parser.TokenBy}

var twoCharOps = map[string]parser.TokenKind{"==": parser.TokenEq, "=~": parser.TokenCaseInsensitiveEq, "!=": parser.TokenNE, "!~": parser.TokenCaseInsensitiveNE, "<=": parser.TokenLE, ">=": parser.TokenGE}
var oneCharOps = map[byte]parser.TokenKind{'|': parser.TokenPipe, '.': parser.TokenDot, ',': parser.TokenComma, '+': parser.TokenPlus, '-': parser.TokenMinus, '*': parser.TokenStar, '/': parser.TokenSlash, '%': parser.TokenMod, '=': parser.TokenAssign, '<': parser.TokenLT, '>': parser.TokenGT, '(': parser.TokenLParen, ')': parser.TokenRParen, '[': parser.TokenLBracket, ']': parser.TokenRBracket, ';': parser.TokenSemi}

func lineEnd(s string, from int) int {
	if i := strings.IndexByte(s[from:], '\n'); i >= 0 {
		return from + i
	}
	return len(s)
}

// decodeString: the value of a string literal's body: \n and \t, otherwise the escaped
// character itself; all other bytes unchanged.
func decodeString(body string) string {
	var sb strings.Builder
	for i := 0; i < len(body); {
		if body[i] == '\\' && i+1 < len(body) {
			_, w := utf8.DecodeRuneInString(body[i+1:])
			switch body[i+1] {
			case 'n':
				sb.WriteByte('\n')
			case 't':
				sb.WriteByte('\t')
			default:
				sb.WriteString(body[i+1 : i+1+w])
			}
			i += 1 + w
			continue
		}
		sb.WriteByte(body[i])
		i++
	}
	return sb.String()
}

// normalDecimal: the decimal spelling without redundant leading zeros.
func normalDecimal(text string) string {
	t := strings.TrimLeft(text, "0")
	if t == "" || t[0] == '.' || t[0] == 'e' || t[0] == 'E' {
		t = "0" + t
	}
	return t
}

func ratOf(s string) *big.Rat {
	// mantissa [e exponent]
	m, e := s, ""
	if i := strings.IndexAny(s, "eE"); i >= 0 {
		m, e = s[:i], s[i+1:]
	}
	if strings.HasPrefix(m, ".") {
		m = "0" + m
	}
	if strings.HasSuffix(m, ".") {
		m += "0"
	}
	r, ok := new(big.Rat).SetString(m)
	if !ok {
		return nil
	}
	if e != "" {
		x, ok := new(big.Int).SetString(e, 10)
		if !ok || !x.IsInt64() || x.Int64() > 5000 || x.Int64() < -5000 {
			return nil // too large to compare exactly here
		}
		p := new(big.Int).Exp(big.NewInt(10), new(big.Int).Abs(x), nil)
		if x.Sign() >= 0 {
			r.Mul(r, new(big.Rat).SetInt(p))
		} else {
			r.Quo(r, new(big.Rat).SetInt(p))
		}
	}
	return r
}

// refScan is the reference tokenizer.
func refScan(s string) []refTok {
	var out []refTok
	for p := 0; p < len(s); {
		c, w := utf8.DecodeRuneInString(s[p:])
		rest := s[p:]
		switch {
		case unicode.IsSpace(c):
			p += w
		case strings.HasPrefix(rest, "//"):
			p = lineEnd(s, p)
			if p < len(s) {
				p++
			}
		case reIdent.MatchString(rest):
			m := reIdent.FindString(rest)
			if k, ok := refKeywords[m]; ok {
				out = append(out, refTok{k, p, p + len(m), ""})
			} else {
				out = append(out, refTok{parser.TokenIdentifier, p, p + len(m), m})
			}
			p += len(m)
		case rest[0] == '`':
			// the closing backtick is the first one that is not doubled (on the same line)
			if m := quotedLexeme(rest); m != "" {
				out = append(out, refTok{parser.TokenQuotedIdentifier, p, p + len(m), strings.ReplaceAll(m[1:len(m)-1], "``", "`")})
				p += len(m)
			} else {
				e := lineEnd(s, p)
				out = append(out, refTok{parser.TokenError, p, e, ""})
				p = e
			}
		case rest[0] == '\'' || rest[0] == '"':
			re := reStr1
			if rest[0] == '"' {
				re = reStr2
			}
			if m := re.FindString(rest); m != "" {
				out = append(out, refTok{parser.TokenString, p, p + len(m), decodeString(m[1 : len(m)-1])})
				p += len(m)
			} else {
				e := lineEnd(s, p)
				out = append(out, refTok{parser.TokenError, p, e, ""})
				p = e
			}
		case reHex.MatchString(rest):
			m := reHex.FindString(rest)
			v, _ := new(big.Int).SetString(m[2:], 16)
			if v.BitLen() > 64 {
				out = append(out, refTok{parser.TokenError, p, p + len(m), ""})
			} else {
				out = append(out, refTok{parser.TokenNumber, p, p + len(m), v.String()})
			}
			p += len(m)
		case len(rest) >= 2 && rest[0] == '0' && (rest[1] == 'x' || rest[1] == 'X'):
			out = append(out, refTok{parser.TokenError, p, p + 2, ""})
			p += 2
		case reDec.MatchString(rest):
			m := reDec.FindString(rest)
			out = append(out, refTok{parser.TokenNumber, p, p + len(m), normalDecimal(m)})
			p += len(m)
		default:
			if len(rest) >= 2 {
				if k, ok := twoCharOps[rest[:2]]; ok {
					out = append(out, refTok{k, p, p + 2, ""})
					p += 2
					continue
				}
			}
			if k, ok := oneCharOps[rest[0]]; ok {
				out = append(out, refTok{k, p, p + 1, ""})
				p++
				continue
			}
			out = append(out, refTok{parser.TokenError, p, p + w, ""})
			p += w
		}
	}
	return out
}

func blankOnly(gap string) bool {
	for i := 0; i < len(gap); {
		c, w := utf8.DecodeRuneInString(gap[i:])
		switch {
		case unicode.IsSpace(c):
			i += w
		case strings.HasPrefix(gap[i:], "//"):
			e := strings.IndexByte(gap[i:], '\n')
			if e < 0 {
				return true
			}
			i += e + 1
		default:
			return false
		}
	}
	return true
}

func oracleC09(s string) string {
	toks := parser.Scan(s)
	// 1. partition
	prev := 0
	for i, t := range toks {
		if t.Span.Start < prev || t.Span.End < t.Span.Start || t.Span.End > len(s) {
			return fmt.Sprintf("FAIL partition: token %d has span %v after offset %d in a source of %d bytes", i, t.Span, prev, len(s))
		}
		if t.Span.End == t.Span.Start {
			return fmt.Sprintf("FAIL partition: token %d is empty at %d", i, t.Span.Start)
		}
		if !blankOnly(s[prev:t.Span.Start]) {
			return fmt.Sprintf("FAIL gap: bytes %d..%d before token %d are not blank", prev, t.Span.Start, i)
		}
		prev = t.Span.End
	}
	if !blankOnly(s[prev:]) {
		return fmt.Sprintf("FAIL gap: bytes %d.. after the last token are not blank", prev)
	}
	// 2. kinds, values, longest match: against the reference tokenizer
	ref := refScan(s)
	if len(ref) != len(toks) {
		return fmt.Sprintf("FAIL tokens: implementation has %d tokens, reference tokenizer %d", len(toks), len(ref))
	}
	for i, t := range toks {
		r := ref[i]
		if t.Kind != r.kind || t.Span.Start != r.start || t.Span.End != r.end {
			return fmt.Sprintf("FAIL token %d: implementation %v %v, reference %v [%d,%d)", i, t.Kind, t.Span, r.kind, r.start, r.end)
		}
		if t.Kind != parser.TokenError && t.Value != r.value {
			return fmt.Sprintf("FAIL value of token %d (%v): implementation %q, reference %q", i, t.Kind, t.Value, r.value)
		}
		// 3. rescan the token's own text
		text := s[t.Span.Start:t.Span.End]
		again := parser.Scan(text)
		if len(again) != 1 || again[0].Kind != t.Kind || again[0].Span.Start != 0 || again[0].Span.End != len(text) || (t.Kind != parser.TokenError && again[0].Value != t.Value) {
			return fmt.Sprintf("FAIL rescan of token %d %q", i, text)
		}
		// 4. numbers: value is a decimal spelling of the same numeric value; accessors agree
		if t.Kind == parser.TokenNumber {
			lit := &parser.BasicLit{Kind: t.Kind, Value: t.Value, ValueSpan: t.Span}
			isFloat := strings.ContainsAny(t.Value, ".eE")
			if lit.IsFloat() != isFloat || lit.IsInteger() != !isFloat {
				return fmt.Sprintf("FAIL accessors of %q: IsFloat=%v IsInteger=%v", text, lit.IsFloat(), lit.IsInteger())
			}
			if !strings.HasPrefix(strings.ToLower(text), "0x") {
				a, b := ratOf(text), ratOf(t.Value)
				if a != nil && b != nil && a.Cmp(b) != 0 {
					return fmt.Sprintf("FAIL number value: %q normalised to %q", text, t.Value)
				}
				if isFloatSpelling(text) != isFloat {
					return fmt.Sprintf("FAIL number class: %q normalised to %q", text, t.Value)
				}
			}
			if !isFloat {
				v, ok := new(big.Int).SetString(t.Value, 10)
				if !ok {
					return fmt.Sprintf("FAIL integer value %q is not decimal", t.Value)
				}
				want := uint64(0)
				if v.IsUint64() {
					want = v.Uint64()
				}
				if lit.Uint64() != want {
					return fmt.Sprintf("FAIL Uint64 of %q: %d, expected %d", t.Value, lit.Uint64(), want)
				}
				// Float64 of an integer literal is the nearest float64 of its value, however large
				if f, _ := new(big.Rat).SetInt(v).Float64(); lit.Float64() != f {
					return fmt.Sprintf("FAIL Float64 of %q: %v, expected %v", t.Value, lit.Float64(), f)
				}
			} else if r := ratOf(t.Value); r != nil {
				// Float64 is strconv.ParseFloat: compared where the value is exactly representable
				f, exact := r.Float64()
				if exact && lit.Float64() != f {
					return fmt.Sprintf("FAIL Float64 of %q: %v, expected %v", t.Value, lit.Float64(), f)
				}
			}
		}
	}
	return "ok"
}

func isFloatSpelling(text string) bool { return strings.ContainsAny(text, ".eE") }

// C15: statement splitting agrees with the lexer and loses nothing.
func oracleC15(s string) string {
	pieces := parser.SplitStatements(s)
	toks := parser.Scan(s)
	if strings.Join(pieces, ";") != s {
		return "FAIL join: pieces joined with ';' differ from the source"
	}
	nsemi := 0
	for _, t := range toks {
		if t.Kind == parser.TokenSemi {
			nsemi++
		}
	}
	if len(pieces) != nsemi+1 {
		return fmt.Sprintf("FAIL count: %d pieces for %d semicolon tokens", len(pieces), nsemi)
	}
	off := 0
	ti := 0
	nonEmpty := 0
	var pieceTrees []string
	for i, p := range pieces {
		pt := parser.Scan(p)
		if len(pt) > 0 {
			nonEmpty++
		}
		for j, t := range pt {
			if t.Kind == parser.TokenSemi {
				return fmt.Sprintf("FAIL no-semi: piece %d contains a semicolon token", i)
			}
			if ti >= len(toks) {
				return fmt.Sprintf("FAIL locality: piece %d has more tokens than the source", i)
			}
			w := toks[ti]
			ti++
			if w.Kind != t.Kind || w.Span.Start != t.Span.Start+off || w.Span.End != t.Span.End+off || (t.Kind != parser.TokenError && w.Value != t.Value) {
				return fmt.Sprintf("FAIL locality: token %d of piece %d is %v%v alone but %v%v in context", j, i, t.Kind, t.Span, w.Kind, w.Span)
			}
		}
		if i < len(pieces)-1 {
			if ti >= len(toks) || toks[ti].Kind != parser.TokenSemi || toks[ti].Span.Start != off+len(p) {
				return fmt.Sprintf("FAIL locality: after piece %d the source does not continue with its semicolon token", i)
			}
			ti++
		}
		if len(pt) > 0 {
			if st, err := parser.Parse(p); err == nil && len(st) == 1 {
				pieceTrees = append(pieceTrees, showShifted(st[0], off))
			} else {
				pieceTrees = append(pieceTrees, "")
			}
		}
		off += len(p) + 1
	}
	if ti != len(toks) {
		return "FAIL locality: the source has tokens that no piece has"
	}
	if st, err := parser.Parse(s); err == nil {
		if len(st) != nonEmpty {
			return fmt.Sprintf("FAIL parse: %d statements for %d non-empty pieces", len(st), nonEmpty)
		}
		for i := range st {
			if got := showShifted(st[i], 0); got != pieceTrees[i] {
				return fmt.Sprintf("FAIL parse: statement %d differs from its piece parsed alone", i)
			}
		}
	}
	return "ok"
}

// showShifted prints a tree with every valid span moved by off.
func showShifted(n any, off int) string {
	var sb strings.Builder
	showValueShift(&sb, reflect.ValueOf(n), off)
	return sb.String()
}

func quotedLexeme(rest string) string {
	for i := 1; i < len(rest); i++ {
		switch rest[i] {
		case '\n':
			return ""
		case '`':
			if i+1 < len(rest) && rest[i+1] == '`' {
				i++
				continue
			}
			return rest[:i+1]
		}
	}
	return ""
}
