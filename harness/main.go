// harness: generators and implementation runners for the correspondence check.
//
//	harness gen <family> <seed> <n>      writes one case per line to stdout
//	harness run <stage>                  reads cases from stdin, writes one observation per line
//
// Every random choice derives from the one seed.  Observations are canonical text
// lines that the OCaml driver (running the extracted Coq model) reproduces byte for byte.
package main

import (
	"bufio"
	"encoding/hex"
	"fmt"
	"os"
	"strconv"
	"strings"
)

func usage() {
	fmt.Fprintln(os.Stderr, "usage: harness gen <family> <seed> <n> | harness run <stage>")
	os.Exit(2)
}

func main() {
	if len(os.Args) < 3 {
		usage()
	}
	switch os.Args[1] {
	case "gen":
		if len(os.Args) != 5 {
			usage()
		}
		seed, err1 := strconv.ParseInt(os.Args[3], 10, 64)
		n, err2 := strconv.Atoi(os.Args[4])
		if err1 != nil || err2 != nil {
			usage()
		}
		w := bufio.NewWriterSize(os.Stdout, 1<<20)
		defer w.Flush()
		generate(os.Args[2], seed, n, func(fields ...string) {
			for i, f := range fields {
				if i > 0 {
					w.WriteByte('\t')
				}
				w.WriteString(f)
			}
			w.WriteByte('\n')
		})
	case "run":
		runStage(os.Args[2], os.Args[3:])
	default:
		usage()
	}
}

func hx(s string) string { return hex.EncodeToString([]byte(s)) }

func unhx(s string) string {
	b, err := hex.DecodeString(s)
	if err != nil {
		fmt.Fprintf(os.Stderr, "bad hex %q\n", s)
		os.Exit(2)
	}
	return string(b)
}

func runStage(stage string, args []string) {
	fn, ok := stages[stage]
	if !ok {
		fmt.Fprintf(os.Stderr, "unknown stage %q\n", stage)
		os.Exit(2)
	}
	in := bufio.NewScanner(os.Stdin)
	in.Buffer(make([]byte, 1<<20), 1<<28)
	w := bufio.NewWriterSize(os.Stdout, 1<<20)
	defer w.Flush()
	for in.Scan() {
		fields := strings.Split(in.Text(), "\t")
		w.WriteString(guard(func() string { return fn(fields) }))
		w.WriteByte('\n')
	}
}
