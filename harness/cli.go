package main

import (
	"bytes"
	"fmt"
	"os"
	"os/exec"
	"path/filepath"
	"strings"
	"time"
)

// The cli stage runs the built cmd/pql binary (path in $PQL_BIN) on a script.
// fields: script hex, delivery ("stdin" | "dash" | "file" | "files" | "dashfile" | "filedash" | "ofile").
func showCli(f []string) string {
	bin := os.Getenv("PQL_BIN")
	script := unhx(f[0])
	mode := "stdin"
	if len(f) > 1 {
		mode = f[1]
	}
	dir, err := os.MkdirTemp("", "pqlcli")
	if err != nil {
		return "HARNESS-ERROR " + err.Error()
	}
	defer os.RemoveAll(dir)
	var args []string
	var stdin []byte
	outFile := ""
	switch mode {
	case "stdin":
		stdin = []byte(script)
	case "file", "ofile":
		p := filepath.Join(dir, "in.pql")
		os.WriteFile(p, []byte(script), 0o644)
		args = append(args, p)
		if mode == "ofile" {
			outFile = filepath.Join(dir, "out.sql")
			// the output file already exists and holds older, longer content
			os.WriteFile(outFile, []byte(strings.Repeat("-- stale output of an earlier run\n", 200)), 0o644)
			args = append([]string{"-o", outFile}, args...)
		}
	case "dash":
		stdin = []byte(script)
		args = append(args, "-")
	case "dashfile", "filedash":
		// one half on standard input (named "-"), the other in a file
		n := len(script) / 2
		fp := filepath.Join(dir, "second.pql")
		if mode == "dashfile" {
			stdin = []byte(script[:n])
			os.WriteFile(fp, []byte(script[n:]), 0o644)
			args = append(args, "-", fp)
		} else {
			os.WriteFile(fp, []byte(script[:n]), 0o644)
			stdin = []byte(script[n:])
			args = append(args, fp, "-")
		}
	case "filedir":
		// the script in a file, then an operand that opens but cannot be read (a directory)
		fp := filepath.Join(dir, "first.pql")
		os.WriteFile(fp, []byte(script), 0o644)
		dp := filepath.Join(dir, "sub")
		os.Mkdir(dp, 0o755)
		args = append(args, fp, dp)
	case "files":
		// cut the script into three files at arbitrary byte positions
		n := len(script)
		cuts := []int{0, n / 3, 2 * n / 3, n}
		for i := 0; i < 3; i++ {
			p := filepath.Join(dir, fmt.Sprintf("in%d.pql", i))
			os.WriteFile(p, []byte(script[cuts[i]:cuts[i+1]]), 0o644)
			args = append(args, p)
		}
	}
	cmd := exec.Command(bin, args...)
	cmd.Stdin = bytes.NewReader(stdin)
	var stdout, stderr bytes.Buffer
	cmd.Stdout = &stdout
	cmd.Stderr = &stderr
	done := make(chan error, 1)
	if err := cmd.Start(); err != nil {
		return "HARNESS-ERROR " + err.Error()
	}
	go func() { done <- cmd.Wait() }()
	select {
	case err = <-done:
	case <-time.After(10 * time.Second):
		cmd.Process.Kill()
		return "HANG"
	}
	exit := 0
	if err != nil {
		if ee, ok := err.(*exec.ExitError); ok {
			exit = ee.ExitCode()
			if exit != 1 {
				return fmt.Sprintf("CRASH exit=%d %s", exit, firstLine(stderr.String()))
			}
		} else {
			return "HARNESS-ERROR " + err.Error()
		}
	}
	out := stdout.Bytes()
	if outFile != "" {
		out, _ = os.ReadFile(outFile)
	}
	// a failure is always reported on stderr, success never writes to it
	if (exit != 0) != (stderr.Len() > 0) {
		return fmt.Sprintf("STDERR-MISMATCH exit=%d stderr=%q", exit, firstLine(stderr.String()))
	}
	return fmt.Sprintf("%d %s", exit, hx(string(out)))
}

func firstLine(s string) string {
	if i := strings.IndexByte(s, '\n'); i >= 0 {
		return s[:i]
	}
	return s
}

func init() {
	stages["cli"] = showCli
}
