package main

import (
	"fmt"
	"strings"

	"github.com/runreveal/pql/parser"
)

// pgen generates PQL program text from the grammar, with random layout.
type pgen struct {
	r *rng
	// hostile makes literal/identifier contents come from the hostile pool (C04).
	hostile bool
	// noLayout uses single spaces only.
	noLayout bool
	// lets holds names bound by let statements of the current program.
	lets []string
}

var colNames = []string{"a", "b", "c", "k", "x", "n", "Kind", "name"}
var tableNames = []string{"T", "U", "Events", "`my table`", "B", "`let`", "`by`", "Let", "``", "`cpu%`", "`a//b`", "`my.table`", "__subquery0", "__subquery1"}
var unknownFuncs = []string{"f", "strlen", "min", "max", "sum", "avg", "dcount", "g", "IsNull", "StrCat", "ToLower", "Now", "Iff", "IsNotNull", "Count"}
var builtinFuncs = []struct {
	name  string
	arity int
}{{"not", 1}, {"isnull", 1}, {"isnotnull", 1}, {"tolower", 1}, {"toupper", 1}, {"countif", 1}, {"now", 0}, {"count", 0}, {"iff", 3}, {"iif", 3}, {"strcat", -1}}
var binOps = []string{"or", "and", "==", "!=", "<", "<=", ">", ">=", "=~", "!~", "+", "-", "*", "/", "%"}
var numberLits = []string{"0", "1", "2", "42", "007", "1.5", ".5", "0.25", "1e3", "1E-2", "2.5e+3", "0x1f", "0XFF", "0x0", "18446744073709551615", "00", "1E3", "5E0", "1.0E3", "0xFFFFFFFFFFFFFFFF", "0x8000000000000000", "0x10000000000000000", "0x1ffffffffffffffff", "0X7fffffffffffffff"}
var stringLits = []string{"'s'", "\"d\"", "'a b'", "''", "'it\\'s'", "\"q\\\"q\"", "'tab\\t'", "'nl\\n'", "'back\\\\slash'", "'semi;colon'", "'// no comment'", "'\xc3\xa9'", "\"it's\"", "'https://h/p'", "\"a//b\"", "'100%'", "'%s'"}
var hostileContents = []string{"'", "\"", "`", "\\", "\\\\", "x\\", "--", "/*", "*/", ";", "\x00", "\xff", "a'b", "a\"b", "' OR 1=1 --", "', (select 1) as y, '", "\n", "\t", "é", "a\\'b", "}", "{p}", "x' , (select 1) as y, '", "\\'", "'';", "a''b", "\"\"", " ", "", "cpu%", "%s%d%v", "100%!", "a//b", "http://h", "x\u00a0y", "z\u200bw", "\u2028"}

func (g *pgen) sep() string {
	if g.noLayout {
		return " "
	}
	switch g.r.intn(12) {
	case 0:
		return "\n"
	case 1:
		return "\t"
	case 2:
		return " // c\n"
	case 3:
		return "  "
	case 4:
		return "\n\n  "
	case 5:
		return " //\n"
	case 6:
		if g.r.chance(1, 3) {
			return "\r\n"
		}
		return " "
	default:
		return " "
	}
}

// osep is a separator that may be empty (between punctuation and anything).
func (g *pgen) osep() string {
	if g.noLayout || g.r.chance(1, 2) {
		return ""
	}
	return g.sep()
}

// pqlString renders content as a PQL string literal.
func pqlString(r *rng, content string) string {
	q := byte('\'')
	if r.chance(1, 3) {
		q = '"'
	}
	var sb strings.Builder
	sb.WriteByte(q)
	for _, b := range []byte(content) {
		switch {
		case b == q || b == '\\':
			sb.WriteByte('\\')
			sb.WriteByte(b)
		case b == '\n':
			sb.WriteString("\\n")
		case b == '\t' && r.chance(1, 2):
			sb.WriteString("\\t")
		default:
			sb.WriteByte(b)
		}
	}
	sb.WriteByte(q)
	return sb.String()
}

// pqlQuotedIdent renders content as a backtick identifier (newlines cannot be written).
func pqlQuotedIdent(content string) string {
	content = strings.ReplaceAll(content, "\n", " ")
	return "`" + strings.ReplaceAll(content, "`", "``") + "`"
}

func (g *pgen) name() string {
	if g.hostile && g.r.chance(1, 2) {
		return pqlQuotedIdent(pick(g.r, hostileContents) + pick(g.r, []string{"", "z", pick(g.r, hostileContents)}))
	}
	if g.r.chance(1, 8) {
		return pick(g.r, []string{"`q c`", "`a``b`", "`by`", "`x.y`", "`$left`", "`let`", "`true`", "`null`", "`false`", "`and`", "`p1`", "`count`", "`a``b``c`", "``````", "`user id`", "``"})
	}
	if g.r.chance(1, 16) {
		// case variants of keywords and built-in names are plain identifiers
		return pick(g.r, []string{"By", "IN", "Or", "AND", "In", "BY", "Let", "Null", "TRUE", "False", "Asc", "NULLS"})
	}
	if len(g.lets) > 0 && g.r.chance(1, 10) {
		// a quoted name is a column even when a let or parameter of that name exists
		return "`" + pick(g.r, g.lets) + "`"
	}
	if len(g.lets) > 0 && g.r.chance(1, 4) {
		return pick(g.r, g.lets)
	}
	if g.r.chance(1, 12) {
		return pick(g.r, []string{"true", "false", "null", "asc", "desc", "nulls", "kind", "on", "with", "let", "count", "where", "first", "p1", "p2"})
	}
	return pick(g.r, colNames)
}

func (g *pgen) number() string { return pick(g.r, numberLits) }

func (g *pgen) str() string {
	if g.hostile && g.r.chance(2, 3) {
		return pqlString(g.r, pick(g.r, hostileContents)+pick(g.r, []string{"", "z", pick(g.r, hostileContents)}))
	}
	return pick(g.r, stringLits)
}

func (g *pgen) atom(join bool) string {
	switch g.r.intn(10) {
	case 0, 1, 2:
		return g.name()
	case 3:
		return g.number()
	case 4:
		return g.str()
	case 5:
		if join {
			return pick(g.r, []string{"$left", "$right"}) + g.osep() + "." + g.osep() + g.name()
		}
		if g.r.chance(1, 6) {
			return pick(g.r, []string{"$left", "$right"}) + "." + g.name()
		}
		if g.r.chance(1, 8) {
			return g.name() + "." + pick(g.r, []string{"$left", "$right"})
		}
		q := g.name() + g.osep() + "." + g.osep() + g.name()
		for g.r.chance(1, 3) { // longer dotted names: a.b.c, a.b.c.d, ...
			q += g.osep() + "." + g.osep() + g.name()
		}
		return q
	case 6:
		return g.number()
	default:
		return g.name()
	}
}

func (g *pgen) expr(depth int, join bool) string {
	if depth <= 0 {
		return g.atom(join)
	}
	switch g.r.intn(16) {
	case 0, 1, 2:
		return g.atom(join)
	case 3, 4, 5, 6, 7:
		return g.expr(depth-1, join) + g.sep() + pick(g.r, binOps) + g.sep() + g.expr(depth-1, join)
	case 8:
		return "(" + g.osep() + g.expr(depth-1, join) + g.osep() + ")"
	case 9:
		if g.r.chance(1, 4) {
			k := 1 + g.r.intn(3)
			return pick(g.r, []string{"-", "+"}) + strings.Repeat("(", k) + pick(g.r, []string{"-", "+", ""}) + g.expr(depth-1, join) + strings.Repeat(")", k)
		}
		return pick(g.r, []string{"-", "+", "-", "- "}) + g.expr(depth-1, join)
	case 10:
		return g.expr(depth-1, join) + g.osep() + "[" + g.osep() + g.expr(depth-1, join) + g.osep() + "]"
	case 11:
		n := 1 + g.r.intn(3)
		if g.r.chance(1, 25) {
			n = 30 + g.r.intn(40) // a long list
		}
		var vs []string
		for i := 0; i < n; i++ {
			vs = append(vs, g.expr(depth-1, join))
		}
		return g.expr(depth-1, join) + g.sep() + "in" + g.osep() + "(" + g.osep() + strings.Join(vs, g.osep()+","+g.osep()) + g.osep() + ")"
	case 12, 13:
		b := pick(g.r, builtinFuncs)
		n := b.arity
		if n < 0 {
			n = 1 + g.r.intn(3)
		}
		if g.r.chance(1, 8) {
			n = g.r.intn(5) // possibly wrong arity
		}
		return g.call(b.name, n, depth, join)
	case 14:
		if g.r.chance(1, 12) {
			// a quoted name cannot be called: rejected
			return g.call(pick(g.r, []string{"`f`", "`a;b`", "`f) OR (1=1`", "`not`"}), g.r.intn(3), depth, join)
		}
		return g.call(pick(g.r, unknownFuncs), g.r.intn(3), depth, join)
	default:
		return "(" + g.expr(depth-1, join) + ")" + g.sep() + pick(g.r, binOps) + g.sep() + "(" + g.expr(depth-1, join) + ")"
	}
}

func (g *pgen) call(name string, n, depth int, join bool) string {
	var as []string
	for i := 0; i < n; i++ {
		as = append(as, g.expr(depth-1, join))
	}
	trailing := ""
	if n > 0 && g.r.chance(1, 10) {
		trailing = ","
	}
	return name + g.osep() + "(" + g.osep() + strings.Join(as, g.osep()+","+g.osep()) + trailing + g.osep() + ")"
}

func (g *pgen) sortTerm(depth int) string {
	s := g.expr(depth, false)
	switch g.r.intn(4) {
	case 0:
		s += g.sep() + "asc"
	case 1:
		s += g.sep() + "desc"
	}
	switch g.r.intn(6) {
	case 0:
		s += g.sep() + "nulls" + g.sep() + "first"
	case 1:
		s += g.sep() + "nulls" + g.sep() + "last"
	case 2:
		if g.r.chance(1, 6) {
			s += g.sep() + "nulls" + g.sep() + pick(g.r, []string{"\"first\"", "`last`", "'last'", "First"})
		}
	}
	return s
}

func (g *pgen) rowCount() string {
	switch g.r.intn(10) {
	case 0:
		return g.expr(1, false)
	case 1:
		return pick(g.r, []string{"1.5", "'s'", "-1", "n", "0x10", "(3)", "1E3", "5E0", "1e3", "1.0E3", "2E+1", "0x1E", "(n)", "((10))", "(n + 1)", "0xbeef", "0XE", "0xe0", "(2.5)", "1+2", "(3) + 1"})
	default:
		return pick(g.r, []string{"1", "2", "3", "10", "0", "007", "0x1f", "18446744073709551615", "18446744073709551616", "99999999999999999999"})
	}
}

func (g *pgen) list(n int, f func() string) string {
	var xs []string
	for i := 0; i < n; i++ {
		xs = append(xs, f())
	}
	return strings.Join(xs, g.osep()+","+g.osep())
}

func (g *pgen) operator(depth, joinDepth int) string {
	k := g.r.intn(14)
	if joinDepth <= 0 && k == 12 {
		k = 0
	}
	switch k {
	case 0, 1:
		return pick(g.r, []string{"where", "filter"}) + g.sep() + g.expr(depth, false)
	case 2:
		return "project" + g.sep() + g.list(1+g.r.intn(3), func() string {
			if g.r.chance(1, 2) {
				return g.name() + g.osep() + "=" + g.osep() + g.expr(depth, false)
			}
			return g.name()
		})
	case 3:
		return "extend" + g.sep() + g.list(1+g.r.intn(2), func() string {
			if g.r.chance(2, 3) {
				return g.name() + g.osep() + "=" + g.osep() + g.expr(depth, false)
			}
			return g.expr(depth, false)
		})
	case 4:
		col := func() string {
			if g.r.chance(1, 2) {
				return g.name() + g.osep() + "=" + g.osep() + g.expr(depth, false)
			}
			return g.expr(depth, false)
		}
		s := "summarize" + g.sep()
		nc := g.r.intn(3)
		s += g.list(nc, col)
		if nc > 0 && g.r.chance(1, 10) {
			s += ","
		}
		if nc == 0 || g.r.chance(1, 2) {
			s += g.sep() + "by" + g.sep() + g.list(1+g.r.intn(2), col)
		}
		return s
	case 5, 6:
		return pick(g.r, []string{"sort", "order"}) + g.sep() + "by" + g.sep() + g.list(1+g.r.intn(3), func() string { return g.sortTerm(depth) })
	case 7, 8:
		return pick(g.r, []string{"take", "limit"}) + g.sep() + g.rowCount()
	case 9:
		return "top" + g.sep() + g.rowCount() + g.sep() + "by" + g.sep() + g.sortTerm(depth)
	case 10:
		return "count"
	case 11:
		if g.r.chance(1, 3) {
			return "as" + g.sep() + pick(g.r, []string{"X", "X", "Y", "__subquery0", "__subquery1", "__subquery2", "__subquery3", "`x\"y`", "`a%b`"})
		}
		return "as" + g.sep() + g.name()
	case 12:
		s := "join" + g.sep()
		switch g.r.intn(6) {
		case 0:
			s += "kind" + g.osep() + "=" + g.osep() + "inner" + g.sep()
		case 1:
			s += "kind" + g.osep() + "=" + g.osep() + "leftouter" + g.sep()
		case 2:
			s += "kind" + g.osep() + "=" + g.osep() + "innerunique" + g.sep()
		case 3:
			if g.r.chance(1, 4) {
				s += "kind" + g.osep() + "=" + g.osep() + "rightouter" + g.sep()
			}
		}
		s += "(" + g.osep() + g.tabular(depth, joinDepth-1, g.r.intn(3)) + g.osep() + ")" + g.sep() + "on" + g.sep()
		s += g.list(1+g.r.intn(2), func() string {
			switch g.r.intn(4) {
			case 0:
				return g.name()
			case 1:
				c := g.name()
				return "$left." + c + g.sep() + "==" + g.sep() + "$right." + c
			case 2:
				return "$left." + g.name() + g.sep() + pick(g.r, []string{"==", "<", "!="}) + g.sep() + "$right." + g.name()
			default:
				return g.expr(depth, true)
			}
		})
		return s
	default:
		s := "render" + g.sep() + pick(g.r, []string{"barchart", "piechart", "`time chart`", "table"})
		if g.hostile && g.r.chance(1, 2) {
			s = "render" + g.sep() + g.name()
		}
		if g.r.chance(1, 2) {
			s += g.sep() + "with" + g.osep() + "(" + g.osep() + g.list(1+g.r.intn(2), func() string {
				v := pick(g.r, []string{"'My Title'", "stacked", "1", "a.b", "\"x\"", "-1", "-lo", "+(100)", "-f(1)", "a + 1", "strcat('a', b)", "(x)", "hidden", "m['k']", "not(a)", "1.5e3", "0x1e"})
				if g.hostile {
					v = pick(g.r, []string{g.str(), g.name(), g.number()})
				}
				return pick(g.r, []string{"title", "kind", "xtitle", "legend", "ymin", "ysplit", g.name()}) + g.osep() + "=" + g.osep() + v
			}) + g.osep() + ")"
		}
		return s
	}
}

func (g *pgen) table() string {
	if g.hostile && g.r.chance(1, 3) {
		return g.name()
	}
	return pick(g.r, tableNames)
}

func (g *pgen) tabular(depth, joinDepth, nops int) string {
	s := g.table()
	for i := 0; i < nops; i++ {
		s += g.sep() + "|" + g.osep() + g.operator(depth, joinDepth)
	}
	return s
}

func (g *pgen) letStmt(depth int) string {
	n := pick(g.r, []string{"x", "n", "lim", "a", "p1", "true"})
	var v string
	switch g.r.intn(8) {
	case 0:
		v = "-" + g.number()
	case 1:
		v = g.number() + " + " + g.number()
	case 2:
		if len(g.lets) > 0 {
			v = pick(g.r, g.lets)
		} else {
			v = g.number()
		}
	case 3:
		v = g.str()
	case 4:
		v = g.expr(depth, false) // may refer to columns: rejected
	case 5:
		v = pick(g.r, []string{"p1", "p2", "now()", "strcat('a', 'b')", "-(-1)", "(1)", "not(true)", "null"})
	default:
		v = g.number()
	}
	g.lets = append(g.lets, n)
	return "let" + g.sep() + n + g.osep() + "=" + g.osep() + v
}

// program: lets, one query, sometimes more.
func (g *pgen) program(depth int) string {
	g.lets = nil
	var parts []string
	nl := 0
	if g.r.chance(1, 3) {
		nl = 1 + g.r.intn(3)
	}
	for i := 0; i < nl; i++ {
		parts = append(parts, g.letStmt(depth))
	}
	parts = append(parts, g.tabular(depth, 2, g.r.intn(5)))
	if g.r.chance(1, 12) {
		parts = append(parts, g.letStmt(1))
	}
	if g.r.chance(1, 20) {
		parts = append(parts, g.tabular(1, 0, 1))
	}
	s := strings.Join(parts, g.osep()+";"+g.osep())
	switch g.r.intn(6) {
	case 0:
		s += ";"
	case 1:
		s += " ;; "
	case 2:
		s = ";" + s
	}
	return s
}

// mutate applies token-level corruptions to a program.
func mutate(r *rng, src string) string {
	toks := parser.Scan(src)
	if len(toks) == 0 {
		return src
	}
	lex := make([]string, len(toks))
	for i, t := range toks {
		lex[i] = src[t.Span.Start:t.Span.End]
	}
	extra := []string{"(", ")", "[", "]", ",", "|", ";", "=", "==", "by", "in", "and", "+", "-", "!", "'", "`", "0x", "1", "a", ".", "//", "\"", "@", "on", "asc", "nulls", "with", "kind"}
	nm := 1 + r.intn(2)
	for m := 0; m < nm && len(lex) > 0; m++ {
		i := r.intn(len(lex))
		switch r.intn(7) {
		case 6: // turn a word into a string or a quoted identifier of the same spelling (or back)
			w := strings.Trim(lex[i], "`'\"")
			if w != "" {
				lex[i] = pick(r, []string{"`" + w + "`", "'" + w + "'", "\"" + w + "\"", w})
			}
		case 0: // delete
			lex = append(lex[:i], lex[i+1:]...)
		case 1: // insert
			lex = append(lex[:i], append([]string{pick(r, extra)}, lex[i:]...)...)
		case 2: // duplicate
			lex = append(lex[:i], append([]string{lex[i]}, lex[i:]...)...)
		case 3: // transpose
			if i+1 < len(lex) {
				lex[i], lex[i+1] = lex[i+1], lex[i]
			}
		case 4: // truncate
			lex = lex[:i]
		case 5: // replace
			lex[i] = pick(r, extra)
		}
	}
	return strings.Join(lex, " ")
}

func init() {
	families["prog"] = func(r *rng, n int, emit emitFn) {
		g := &pgen{r: r}
		for i := 0; i < n; i++ {
			emit(hx(g.program(1 + r.intn(3))))
		}
	}
	families["prog-flat"] = func(r *rng, n int, emit emitFn) {
		g := &pgen{r: r, noLayout: true}
		for i := 0; i < n; i++ {
			emit(hx(g.program(1 + r.intn(3))))
		}
	}
	families["prog-hostile"] = func(r *rng, n int, emit emitFn) {
		g := &pgen{r: r, hostile: true, noLayout: true}
		for i := 0; i < n; i++ {
			emit(hx(g.program(1 + r.intn(2))))
		}
	}
	families["prog-mut"] = func(r *rng, n int, emit emitFn) {
		g := &pgen{r: r, noLayout: true}
		for i := 0; i < n; i++ {
			emit(hx(mutate(r, g.program(1+r.intn(2)))))
		}
	}
	families["expr"] = func(r *rng, n int, emit emitFn) {
		g := &pgen{r: r, noLayout: true}
		for i := 0; i < n; i++ {
			g.lets = nil
			emit(hx("T | where " + g.expr(1+r.intn(4), false)))
		}
	}
	families["deep"] = func(r *rng, n int, emit emitFn) {
		// balanced nestings are placed in every expression position (the cost of a position may
		// depend on what the compiler does with it: naming an unnamed column, error positions, ...)
		contexts := []string{"T | where %s", "T | extend %s", "T | extend x = %s", "T | summarize %s", "T | summarize count() by %s", "T | summarize x = %s by k",
			"T | project x = %s", "T | sort by %s desc", "T | take %s", "T | top 3 by %s", "T | top %s by a", "T | join (U) on %s", "let v = %s; T | where v",
			"T | render c with (p = %s)", "T | where a in (%s)", "T | where f(1, %s)", "T | join (U | extend %s) on k", "T; U | extend %s", "T | extend %s; U", "T | where a | extend %s, b | count"}
		for i := 0; i < n; i++ {
			d := 1 + r.intn(200)
			var s string
			switch r.intn(14) {
			case 8:
				s = "T" + strings.Repeat(" | join (T", d)
			case 9:
				s = "T | where " + strings.Repeat("f(", d)
			case 10:
				s = "T | where a" + strings.Repeat(" in (a", d)
			case 11:
				s = "T" + strings.Repeat(" | join kind=inner (T | where a[", d)
			case 12:
				s = "T | where " + strings.Repeat("a + -(", d)
			case 3:
				s = "T" + strings.Repeat(" | join (U", d) + strings.Repeat(") on k", d)
			case 6:
				s = "T | where " + strings.Repeat("(", d) + strings.Repeat("]", d)
			default:
				var e string
				switch r.intn(9) {
				case 0:
					e = strings.Repeat("(", d) + "a" + strings.Repeat(")", d)
				case 1:
					e = strings.Repeat("-", d) + "a"
				case 2:
					e = strings.Repeat("f(", d) + "a" + strings.Repeat(")", d)
				case 3:
					e = "a" + strings.Repeat("[a", d) + strings.Repeat("]", d)
				case 4:
					e = "a" + strings.Repeat(" + a", d)
				case 5:
					e = strings.Repeat("f(1, g(", d) + "a" + strings.Repeat("))", d)
				case 6:
					e = strings.Repeat("not(", d) + "a" + strings.Repeat(")", d)
				case 7:
					e = strings.Repeat("strcat(a, ", d) + "a" + strings.Repeat(")", d)
				default:
					e = "a" + strings.Repeat(" in (a", d) + strings.Repeat(")", d)
				}
				s = fmt.Sprintf(pick(r, contexts), e)
			}
			emit(hx(s))
		}
	}
	// wide: flat programs with very many uses of bound names, constants and columns (a per-use leak
	// or cost in the compiler shows only past some hundreds of uses within one call)
	families["wide"] = func(r *rng, n int, emit emitFn) {
		for i := 0; i < n; i++ {
			w := pick(r, []string{"40", "300", "1100", "1500"})
			var wn int
			fmt.Sscan(w, &wn)
			wn += r.intn(7)
			atom := pick(r, []string{"p", "p", "true", "null", "a", "q", "7", "'s'"})
			var parts []string
			var s string
			switch r.intn(6) {
			case 0:
				for j := 0; j < wn; j++ {
					parts = append(parts, fmt.Sprintf("c%d = %s", j, atom))
				}
				s = "T | project " + strings.Join(parts, ", ") + " | take 5"
			case 1:
				for j := 0; j < wn; j++ {
					parts = append(parts, atom)
				}
				s = "T | where " + strings.Join(parts, " + ") + " > 0"
			case 2:
				for j := 0; j < wn; j++ {
					parts = append(parts, atom)
				}
				s = "T | where a in (" + strings.Join(parts, ", ") + ")"
			case 3:
				for j := 0; j < wn; j++ {
					parts = append(parts, fmt.Sprintf("c%d = %s", j, atom))
				}
				s = "T | extend " + strings.Join(parts, ", ")
			case 4:
				for j := 0; j < wn/4+1; j++ {
					parts = append(parts, "where a == "+atom)
				}
				s = "T | " + strings.Join(parts, " | ")
			default:
				for j := 0; j < wn; j++ {
					parts = append(parts, atom)
				}
				s = "T | where strcat(" + strings.Join(parts, ", ") + ") == 's' | join (U) on " + strings.Join(parts[:1+wn/8], ", ")
			}
			emit(hx(pick(r, []string{"let p = 0; let q = p; ", "let p = 'v'; ", ""}) + s))
		}
	}
	// letchain: every let uses the previous binding twice, so the substituted SQL doubles per statement.
	// Each case is a pair: the program with k lets and the same program with one more.
	families["letchain"] = func(r *rng, n int, emit emitFn) {
		shapes := []string{"%s + %s", "%s * %s", "strcat(%s, %s)", "iff(%s > 0, %s, 0)", "(%s) - %s"}
		uses := []string{"T | where x == %s", "T | extend y = %s", "T | take 1 | project z = %s", "T | join (U) on $left.k == %s"}
		for i := 0; i < n; i++ {
			shape := shapes[i%len(shapes)]
			use := uses[(i/len(shapes))%len(uses)]
			k := 10 + r.intn(5)
			build := func(k int) string {
				var sb strings.Builder
				sb.WriteString("let a0 = 1;\n")
				for j := 1; j <= k; j++ {
					prev := fmt.Sprintf("a%d", j-1)
					fmt.Fprintf(&sb, "let a%d = "+shape+";\n", j, prev, prev)
				}
				fmt.Fprintf(&sb, use, fmt.Sprintf("a%d", k))
				return sb.String()
			}
			emit(hx(build(k)), hx(build(k+1)))
		}
	}
	families["eof"] = func(r *rng, n int, emit emitFn) {
		// programs whose last token is incomplete, or complete but directly followed by a closer
		heads := []string{"T | where a > ", "T | take ", "T | extend x = a + ", "let n = ", "T | where f(a, ", "T | project b, c = ", "T | where (x > ", "T | sort by "}
		tails := []string{"1e-", "2.5E+", "1e", "1E", "0x", "0X", "'abc", "\"abc", "`abc", "1.", ".", "1e+5", "a.", "a[", "-", "$", "!", "=", "// c", "1e5;", "1e5)", "0x1f]", "'s';", "1e5))", "1e5;;", ".5e", "0x1g", "1e5 ", "1e5\n", "a.b(", "a.b.c(; T | count", "a.b( + 1, m"}
		for i := 0; i < n; i++ {
			emit(hx(pick(r, heads) + pick(r, tails)))
		}
	}
	// dangle: every token boundary of one statement per construct gets one of a set of short
	// fragments inserted (a name and '=', a lone comma, a second operand, an opening bracket, ...):
	// the places where a parser that treats "nothing here" and "something wrong here" alike
	// silently drops input.  Exhaustive; n is ignored.
	families["dangle"] = func(r *rng, n int, emit emitFn) {
		templates := []string{
			"T | where a == 1", "T | where a in (1, 2) and b", "T | where f(a, b)[0] > -c.d", "T | extend x = a + 1, b, y = f(c)",
			"T | summarize count(), n = sum(a) by k, m = b", "T | summarize n = count()", "T | summarize by k", "T | summarize count(), by k",
			"T | project a, b = c + 1", "T | sort by a desc nulls first, b asc", "T | order by a", "T | take 5", "T | limit n", "T | top 3 by a desc nulls last",
			"T | count", "T | as x", "T | render piechart with (title = 'x', k = v)", "T | render table",
			"T | join kind = inner (U | where b) on a, $left.x == $right.y", "T | join (U) on k | count", "let n = 1; T | take n", "let s = 'x'; let m = s; T | where m",
			"T | where (a or b) and not(c)", "T | where a =~ 'x' or b !~ \"y\"", "T | where a[1] == `q r`.z", "T | where -a < +b * 2 % 3", "T | where iff(a, b, c) != strcat(d, e)", "T | where a == 1; ; U | count",
		}
		frags := []string{"n =", "=", ",", ", ,", "x", "x y", "1", "'s'", "(", ")", "()", "(x)", "[", "]", "[0]", ".", ". x", "by", "by k", "on", "on k", "in", "in (1)", "and", "or b", "+", "- *", "!", "==", "== 1", "|", "| count", ";", "asc", "desc", "nulls", "nulls first", "with", "with (a = 1)", "kind = inner", "$left", "`q`", "0x", "1e", "// c\n", "let", "let z = 1;"}
		for _, t := range templates {
			toks := parser.Scan(t)
			cuts := []int{0}
			for _, tk := range toks {
				cuts = append(cuts, tk.Span.End)
			}
			for _, c := range cuts {
				for _, f := range frags {
					emit(hx(t[:c] + " " + f + " " + t[c:]))
				}
			}
		}
	}
	families["prog-params"] = func(r *rng, n int, emit emitFn) {
		g := &pgen{r: r, noLayout: true}
		for i := 0; i < n; i++ {
			fields := []string{hx(g.program(1 + r.intn(3)))}
			for _, k := range []string{"p1", "p2", "a", "true", "x", "Kind", "k", "user id", " a", "a ", "\tk", "P1", ""} {
				if r.chance(1, 2) {
					fields = append(fields, hx(k), hx(pick(r, []string{"{p:String}", "$1", "?", "42", "'lit'", "-5", "1 + 2", "(1 + 2)", "\"col\"", "NULL", ""})))
				}
			}
			emit(fields...)
		}
	}
	_ = fmt.Sprintf
}

func init() {
	families["walk"] = func(r *rng, n int, emit emitFn) {
		g := &pgen{r: r, noLayout: true}
		for i := 0; i < n; {
			src := g.program(1 + r.intn(3))
			emit(hx(src), "-1")
			i++
			k := 1 + r.intn(4)
			for j := 0; j < k && i < n; j++ {
				emit(hx(src), fmt.Sprint(r.intn(40)))
				i++
			}
		}
	}
	// walk-mut: corrupted programs (a parser that wrongly accepts one hands Walk a tree with holes)
	families["walk-mut"] = func(r *rng, n int, emit emitFn) {
		g := &pgen{r: r, noLayout: true}
		dangling := []string{"T | where a + * b", "T | where a == - * 2", "T | where a or and b", "T | where a - / b", "T | join (U) on $left.a == * $right.b",
			"T | extend x = a + * b, c", "T | sort by a + * b desc", "T | summarize count() by a or and b", "T | where f(a + * b)", "T | where a in (b + * c)", "T | top 3 by a < * b", "T | where (a and == b)",
			"T | project a + b", "T | project f(x), y", "T | project a.b, c", "T | project m['k']", "T | project -a", "T | project (a)", "T | summarize n = by k", "T | extend = 1",
			"T | render", "T | render 'barchart'", "T | join (U) on", "T | take (n)", "T | take ((10))", "T | top (n + 1) by x", "`let` | count", "T | where a.`b c` == 1"}
		for i := 0; i < n; i++ {
			var src string
			if r.chance(1, 6) {
				src = pick(r, dangling)
			} else {
				src = mutate(r, g.program(1+r.intn(3)))
			}
			m := "-1"
			if r.chance(1, 2) {
				m = fmt.Sprint(r.intn(30))
			}
			emit(hx(src), m)
		}
	}
	families["lit"] = func(r *rng, n int, emit emitFn) {
		digits := "0123456789"
		for i := 0; i < n; i++ {
			var s string
			switch r.intn(9) {
			case 0:
				s = pick(r, numberLits)
			case 1:
				s = pick(r, stringLits)
			case 2: // long decimal around 2^64
				s = pick(r, []string{"18446744073709551615", "18446744073709551616", "18446744073709551614", "99999999999999999999", "000018446744073709551615", "9223372036854775808"})
			case 3:
				s = "0x" + strings.Repeat("0", r.intn(4))
				for j := 0; j < 1+r.intn(17); j++ {
					s += string("0123456789abcdefABCDEF"[r.intn(22)])
				}
			case 4:
				for j := 0; j < 1+r.intn(22); j++ {
					s += string(digits[r.intn(10)])
				}
			case 5:
				for j := 0; j < r.intn(4); j++ {
					s += string(digits[r.intn(10)])
				}
				s += "."
				for j := 0; j < r.intn(4); j++ {
					s += string(digits[r.intn(10)])
				}
			case 6:
				s = pick(r, []string{"1", "0", "12", "1.5", ".5", "00"}) + pick(r, []string{"e", "E"}) + pick(r, []string{"", "+", "-"}) + pick(r, []string{"", "0", "5", "12"})
			case 7:
				// a backslash directly before a byte that is not ASCII (invalid, truncated or valid multi-byte),
				// after zero to three ordinary bytes
				q := pick(r, []string{"'", "\""})
				s = q + pick(r, []string{"", "a", "ab", "abc", "\\n", "\xc3\xa9"}) + "\\" +
					pick(r, []string{"\xff", "\x80", "\xc0", "\xc3", "\xe2\x82", "\xc3\xa9", "\xe2\x82\xac", "\xf0\x9f\x98\x80", "\xed\xa0\x80", "x4", "x", "u00e9"}) +
					pick(r, []string{"", "cd", "\xff", "\\t"}) + pick(r, []string{q, q, ""})
			default:
				s = randBytes(r)
			}
			emit(hx(s))
		}
	}
	families["script"] = func(r *rng, n int, emit emitFn) {
		g := &pgen{r: r}
		for i := 0; i < n; i++ {
			g.lets = nil
			var sb strings.Builder
			k := r.intn(6)
			for j := 0; j < k; j++ {
				var st string
				switch r.intn(10) {
				case 0, 1:
					st = g.letStmt(1)
				case 2:
					st = "let " + pick(r, []string{"x = a", "= 1", "y", "z = (", "w = 'unterminated"})
				case 6:
					// a history of lets over a small pool of names: values use earlier names, names are
					// redefined after other lets captured them, a query uses all of them
					pool := []string{"lo", "hi", "n", "x"}
					var hs []string
					var defined []string
					for h := 0; h < 2+r.intn(4); h++ {
						nm := pick(r, pool)
						val := pick(r, []string{"1", "10", "100", "'s'", "-5"})
						if len(defined) > 0 && r.chance(2, 3) {
							val = pick(r, defined) + pick(r, []string{" + 10", "", " * 2", " + " + pick(r, defined)})
						}
						hs = append(hs, "let "+nm+" = "+val)
						defined = append(defined, nm)
					}
					hs = append(hs, "T | where a == "+pick(r, defined)+" and b == "+pick(r, defined)+" | take "+pick(r, defined))
					st = strings.Join(hs, pick(r, []string{"; ", ";\n", ";\n\n"}))
				case 3:
					st = pick(r, []string{"T | where (", "T | bogus", "T | where $left.a", "T | take 1.5", "| count", "T | where iff(1)", "let", "T T", "'"})
				case 4:
					st = pick(r, []string{"", " ", "// comment only", "\n", "// c\n"})
				case 5:
					st = "T | where a == x and b == n" // uses lets if defined, columns otherwise
					if r.chance(1, 3) {
						// things that only look like comments, lets or separators
						st = pick(r, []string{"`let` | where x > 1", "T | where Source == \"http://example.com/feed\"", "T | where a == 'x;y' // c; d",
							"T | where u == 'http://h/p'; U | count", "Let | count", "T | where s == \"a;//b\" | take 1", "`let` x = 1", "let `let` = 2"})
					}
				default:
					st = g.tabular(1+r.intn(2), 1, r.intn(4))
				}
				// spread the statement over lines at blanks
				if r.chance(1, 3) {
					st = strings.ReplaceAll(st, " ", pick(r, []string{"\n", " \n ", "\r\n", " // c\n"}))
				}
				sb.WriteString(st)
				last := j == k-1
				if !last || r.chance(1, 2) {
					sb.WriteString(pick(r, []string{";", ";\n", "; ", ";\n\n", " ;\r\n", ";;", "; // c\n"}))
				}
			}
			if r.chance(1, 2) {
				sb.WriteString("\n")
			}
			s := sb.String()
			if r.chance(1, 40) {
				// a very long line somewhere
				long := "// " + strings.Repeat("x", 65530+r.intn(20)) + "\n"
				p := 0
				if len(s) > 0 {
					p = r.intn(len(s) + 1)
				}
				for p < len(s) && p > 0 && s[p-1] != '\n' {
					p++
				}
				if p > len(s) {
					p = len(s)
				}
				s = s[:p] + long + s[p:]
			}
			emit(hx(s), pick(r, []string{"stdin", "stdin", "file", "files", "ofile", "dash", "dashfile", "filedash", "filedir"}))
		}
	}
}

// ---- structured families for the tabular properties

var pipeOps = []string{
	"where a > 1", "project a, b", "extend c = a + 1", "summarize n = count() by a", "sort by a", "sort by b asc",
	"take 2", "top 2 by b", "count", "as X", "render table",
}

var pipeArgs = map[string][]string{
	"where":     {"where a > 1", "filter b == 'x'", "where isnull(a)", "where a in (1, 2) and not(b =~ 'X')", "where true", "where 1"},
	"project":   {"project a, b", "project b", "project x = a + b, a", "project a = b", "project `q c` = a"},
	"extend":    {"extend c = a + 1", "extend a * 2", "extend c = 1, d = 'k'", "extend n = strcat(b, 'x')", "extend strcat('https://h/', b), `q c`"},
	"summarize": {"summarize n = count() by a", "summarize by a", "summarize count()", "summarize s = sum(a), m = max(b) by b, k = a % 2", "summarize countif(a > 1) by b", "summarize sum(a), by b", "summarize count() by strcat('a//b', b), strcat(\"//\", a)"},
	"sort":      {"sort by a", "order by b asc", "sort by a desc, b asc nulls last", "sort by a nulls first", "sort by a + b desc", "sort by a asc, b", "sort by a nulls first, b desc", "order by a asc, b, k desc nulls first", "sort by b, a asc, k"},
	"take":      {"take 2", "limit 1", "take 0", "take 0x3", "take 007", "take 10", "take 9", "limit 100", "take 20", "take 18446744073709551616"},
	"top":       {"top 2 by b", "top 1 by a asc", "top 3 by a desc nulls first", "top 0 by b", "top 2 by b nulls first", "top 2 by a asc nulls last", "top 18446744073709551616 by a"},
	"count":     {"count"},
	"as":        {"as X", "as `my name`", "as a", "as __subquery1", "as __subquery2", "as X"},
	"render":    {"render table", "render barchart with (title = 'x')", "render piechart with (kind = stacked, a = 1)", "render linechart with (ymin = -lo, legend = hidden, t = strcat('a', b))"},
}

var pipeKinds = []string{"where", "project", "extend", "summarize", "sort", "take", "top", "count", "as", "render"}

func init() {
	families["pipes-exh-2"] = func(r *rng, n int, emit emitFn) { pipesExh(2, emit) }
	families["pipes-exh-3"] = func(r *rng, n int, emit emitFn) { pipesExh(3, emit) }
	families["pipes-exh-4"] = func(r *rng, n int, emit emitFn) { pipesExh(4, emit) }
	families["pipes"] = func(r *rng, n int, emit emitFn) {
		for i := 0; i < n; i++ {
			if r.chance(1, 25) {
				// an `as` name bound twice, also one that looks like the generated name of the subquery that reuses it
				k := r.intn(4)
				nm := pick(r, []string{"X", fmt.Sprintf("__subquery%d", k+1), fmt.Sprintf("__subquery%d", k), fmt.Sprintf("__subquery%d", k+2)})
				s := "T" + strings.Repeat(" | where a > 1", k) + " | as " + nm + pick(r, []string{"", " | take 2", " | join (U) on a"}) + " | as " + nm + pick(r, []string{" | count", "", " | project a"})
				emit(hx(s))
				continue
			}
			k := 1 + r.intn(8)
			s := pick(r, []string{"T", "U", "`my table`"})
			for j := 0; j < k; j++ {
				s += " | " + pick(r, pipeArgs[pick(r, pipeKinds)])
			}
			emit(hx(s))
		}
	}
	families["joins"] = func(r *rng, n int, emit emitFn) {
		for i := 0; i < n; i++ {
			// some of the names the conditions mention are bound by lets (a bound name is a value, not a key,
			// at every nesting depth)
			pre := pick(r, []string{"", "", "let n = 1; ", "let n = 1; let k = 'v'; ", "let lim = 5; let n = lim; "})
			emit(hx(pre + genJoin(r, 2)))
		}
	}
	families["lets"] = func(r *rng, n int, emit emitFn) {
		g := &pgen{r: r, noLayout: true}
		for i := 0; i < n; i++ {
			fields := []string{hx(genLets(r, g))}
			for _, k := range []string{"p1", "p2", "a", "true", "x", "n", "null", "Lim", "LIM", "P1"} {
				if r.chance(1, 3) {
					fields = append(fields, hx(k), hx(pick(r, []string{"{p:String}", "$1", "42", "'lit'", "(1 + 2)", "\"col\"", "NULL"})))
				}
			}
			emit(fields...)
		}
	}
	families["rules"] = func(r *rng, n int, emit emitFn) {
		g := &pgen{r: r, noLayout: true}
		for i := 0; i < n; i++ {
			emit(hx(genRuleCase(r, g)))
		}
	}
}

func pipesExh(depth int, emit emitFn) {
	var rec func(prefix string, d int)
	rec = func(prefix string, d int) {
		emit(hx(prefix))
		if d == depth {
			return
		}
		for _, op := range pipeOps {
			rec(prefix+" | "+op, d+1)
		}
	}
	rec("T", 0)
}

func genPipeline(r *rng, maxOps int) string {
	k := r.intn(maxOps + 1)
	var ops []string
	for j := 0; j < k; j++ {
		ops = append(ops, pick(r, pipeArgs[pick(r, pipeKinds)]))
	}
	return strings.Join(ops, " | ")
}

func genJoin(r *rng, depth int) string {
	left := pick(r, []string{"T", "U"})
	if p := genPipeline(r, 2); p != "" {
		left += " | " + p
	}
	nj := 1 + r.intn(2)
	for j := 0; j < nj; j++ {
		kind := pick(r, []string{"", "", "kind=inner ", "kind=leftouter ", "kind=innerunique ", "kind = inner "})
		right := pick(r, []string{"B", "U", "T"})
		if depth > 0 && r.chance(1, 4) {
			right = genJoin(r, depth-1)
		} else if p := genPipeline(r, 2); p != "" {
			right += " | " + p
		}
		cond := pick(r, []string{"a", "k", "$left.a == $right.a", "$left.a == $right.b", "a, b", "a, $left.b < $right.b", "$left.a == $right.a and $left.b != $right.b",
			"($left.a) == $right.a", "$left.a == $right.a, $right.b > 1", "`a`", "true", "$left.a + 1 == $right.b", "tolower($left.a) == $right.b", "$left.a =~ $right.a",
			"a, b, $left.k < $right.k", "k, a, b, c", "$left.a == $right.a, $left.b == $right.b, $left.c == $right.c", "a, not($left.b == $left.c), b",
			"n", "$left.a == n", "a, $right.b > n", "n == $left.a, k", "$left.a == $right.a, lim"})
		left += " | join " + kind + "(" + right + ") on " + cond
		if p := genPipeline(r, 2); p != "" && r.chance(1, 2) {
			left += " | " + p
		}
	}
	return left
}

func genLets(r *rng, g *pgen) string {
	names := []string{"x", "n", "a", "p1", "true", "lim", "Lim", "LIM", "X", "null", "false"}
	vals := []string{"1", "-5", "'s'", "1 + 2", "x", "n", "p1", "p2", "now()", "strcat('a', x)", "-(-1)", "(2)", "not(true)", "null", "a", "-x", "x * 2", "`q`", "b.c", "1.5", "0x10", "lim + 1", "lIm", "true", "false", "N", "iff(x, 1, 2)", "'a//b'"}
	var parts []string
	nl := r.intn(4)
	for i := 0; i < nl; i++ {
		parts = append(parts, "let "+pick(r, names)+" = "+pick(r, vals))
	}
	if r.chance(1, 8) {
		// several spellings of one name that differ only in case, and a value that uses yet another
		vs := []string{"cutoff", "Cutoff", "CUTOFF", "cutOff"}
		a, b, c := pick(r, vs), pick(r, vs), pick(r, vs)
		parts = append(parts, "let "+a+" = 1", "let "+b+" = 2", "let v = "+c+" + 1")
	}
	use := pick(r, names)
	q := pick(r, []string{
		"T | where a == " + use, "T | where -" + use + " < 1", "T | where " + use + "[1] == 2", "T | where " + use + " in (1, " + use + ")",
		"T | take " + use, "T | top " + use + " by a", "T | project " + use, "T | project z = " + use + " * 2", "T | extend " + use + " = 1",
		"T | summarize s = sum(" + use + ") by " + use, "T | sort by " + use, "T | join (U) on " + use, "T | join (U) on $left.a == " + use,
		"T | join (U | where b == " + use + ") on a", "T | where `" + use + "` == 1", "T | where q." + use + " == 1", "T | where " + use + "(1) == 1",
		use + " | count", "T | as " + use, "T | where not(" + use + ")", "T | where " + use + " - " + use + " == -" + use,
	})
	parts = append(parts, q)
	if r.chance(1, 4) {
		parts = append(parts, "let "+pick(r, names)+" = "+pick(r, vals))
	}
	return strings.Join(parts, "; ")
}

// genRuleCase: a grammar program with exactly one documented rule violation planted (or none).
func genRuleCase(r *rng, g *pgen) string {
	g.lets = nil
	e := func() string { return g.expr(1+r.intn(2), false) }
	wrap := func(bad string) string {
		// put the offending expression at some depth inside a harmless one
		switch r.intn(5) {
		case 0:
			return bad
		case 1:
			return "f(" + bad + ")"
		case 2:
			return "(" + bad + ") and a > 1"
		case 3:
			return "a in (1, " + bad + ")"
		default:
			return "iff(a > 1, " + bad + ", 0)"
		}
	}
	bad := ""
	switch r.intn(9) {
	case 0:
		b := pick(r, builtinFuncs)
		n := r.intn(5)
		bad = g.call(b.name, n, 1, false)
	case 1:
		bad = pick(r, []string{"$left.a", "$right.b", "$left", "$right.a + 1"})
	case 2:
		return "let v = " + pick(r, []string{"a", "`q`", "b.c", "x + 1", "f(a)", "1 + 2", "-3", "now()", "v"}) + "; T | where a == v"
	case 3:
		return pick(r, []string{"let x = 1", "let x = 1; let y = 2", "T | count; U | count", "T; U", "let x = 1; T; let y = 2; U", "", ";", "T | count;"})
	case 4:
		return "T | join kind=" + pick(r, []string{"inner", "leftouter", "innerunique", "rightouter", "full", "Inner"}) + " (U) on a"
	case 5:
		return "T | " + pick(r, []string{"take", "limit", "top"}) + " " + pick(r, []string{"1", "1.5", "'s'", "1e3", "0x10", "n", "1 + 1", "-1"}) + pick(r, []string{"", " by a"})
	default:
		bad = e()
	}
	pos := r.intn(8)
	switch pos {
	case 0:
		return "T | where " + wrap(bad)
	case 1:
		return "T | project z = " + wrap(bad)
	case 2:
		return "T | extend " + wrap(bad)
	case 3:
		return "T | summarize s = sum(a) by " + wrap(bad)
	case 4:
		return "T | sort by " + wrap(bad) + " asc"
	case 5:
		return "T | join (U | where " + wrap(bad) + ") on a"
	case 6:
		return "T | join (U) on " + wrap(bad)
	default:
		return "let q = 1; T | top 2 by " + wrap(bad)
	}
}

// ---- exhaustive small families aimed at operand wrapping (C01, C06) and join conditions (C03)
func init() {
	families["signs"] = func(r *rng, n int, emit emitFn) {
		// all expressions of the grammar S ::= atom | -S | +S | (S) | S[i] | f(S) | not(S) | S*a | a-S up to depth 4
		atoms := []string{"a", "1", "n"}
		var level [][]string
		level = append(level, atoms)
		for d := 1; d <= 4; d++ {
			prev := level[d-1]
			var cur []string
			for _, s := range prev {
				cur = append(cur, "-"+s, "("+s+")")
				if d <= 3 {
					cur = append(cur, "+"+s, s+"[1]", "f("+s+")", "not("+s+")", s+" * a", "a - "+s, "isnull("+s+")")
				}
			}
			level = append(level, cur)
		}
		seen := map[string]bool{}
		for _, lv := range level {
			for _, s := range lv {
				if seen[s] {
					continue
				}
				seen[s] = true
				emit(hx("T | where " + s))
				if len(s) < 14 {
					emit(hx("let n = " + s + "; T | where -n + n[0] == n"))
					emit(hx("T | extend y = " + s + " | take 1"))
				}
			}
		}
	}
	families["joinconds"] = func(r *rng, n int, emit emitFn) {
		atoms := []string{"$left.a", "$left.b", "$right.a", "$right.b", "1", "x", "k"}
		ops := []string{"==", "!=", "<", "=~", "+"}
		var simple []string
		for _, a := range atoms {
			for _, b := range atoms {
				for _, op := range ops {
					simple = append(simple, a+" "+op+" "+b)
				}
			}
		}
		wrappers := []func(string) string{
			func(s string) string { return s },
			func(s string) string { return "not(" + s + ")" },
			func(s string) string { return "(" + s + ")" },
			func(s string) string { return s + " and $left.a == $right.a" },
			func(s string) string { return "$left.k == $right.k, " + s },
			func(s string) string { return "iff(" + s + ", 1, 0) == 1" },
			func(s string) string { return "(" + s + ") == ($left.b == $right.b)" },
		}
		for _, s := range simple {
			for wi, w := range wrappers {
				if wi > 1 && !strings.Contains(s, "==") {
					continue
				}
				emit(hx("let x = 5; A | join (B) on " + w(s)))
			}
		}
		for _, k := range []string{"k", "`k`", "true", "x", "a, b", "$left", "k, $left.a == $right.b, k"} {
			for _, kind := range []string{"", "kind=inner ", "kind=leftouter ", "kind=innerunique "} {
				emit(hx("let x = 5; A | where c > 1 | join " + kind + "(B | take 2) on " + k + " | count"))
			}
		}
	}
}
