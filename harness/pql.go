package main

import "github.com/runreveal/pql"

// pqlCompile compiles with the given parameters.  Without parameters it alternates (by the
// source's length) between the package-level Compile and a CompileOptions value whose
// Parameters map is nil: the two must behave alike.
func pqlCompile(params map[string]string, src string) (string, error) {
	if params == nil {
		if len(src)%2 == 1 {
			return (&pql.CompileOptions{}).Compile(src)
		}
		return pql.Compile(src)
	}
	return (&pql.CompileOptions{Parameters: params}).Compile(src)
}
