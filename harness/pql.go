package main

import "github.com/runreveal/pql"

func pqlCompile(params map[string]string, src string) (string, error) {
	if params == nil {
		return pql.Compile(src)
	}
	return (&pql.CompileOptions{Parameters: params}).Compile(src)
}
