package main

// Specification-side oracles for the parser properties (C07, C08, C10, C11), evaluated on
// the implementation's own outputs.  Written from the property texts.

import (
	"fmt"
	"reflect"
	"strings"

	"github.com/runreveal/pql/parser"
)

type sig struct {
	kind  parser.TokenKind
	value string
	span  parser.Span
}

func (s sig) String() string { return fmt.Sprintf("%v%q", s.kind, s.value) }

// flattener re-prints a syntax tree as the token sequence the grammar prescribes for it.
// Tokens whose position the tree records carry that span; commas, dots and `by`/keywords
// the tree does not locate carry an invalid span.
type flattener struct {
	out []sig
	// optionalComma marks positions (index into out) where a comma may additionally appear
	// in the source: directly before the ')' of a call and directly before `by` in summarize.
	optionalComma map[int]bool
}

var noSpan = parser.Span{Start: -1, End: -1}

func (f *flattener) tok(k parser.TokenKind, v string, sp parser.Span) {
	f.out = append(f.out, sig{k, v, sp})
}
func (f *flattener) word(w string, sp parser.Span) { f.tok(parser.TokenIdentifier, w, sp) }
func (f *flattener) ident(id *parser.Ident) {
	if id.Quoted {
		f.tok(parser.TokenQuotedIdentifier, id.Name, id.NameSpan)
	} else {
		f.tok(parser.TokenIdentifier, id.Name, id.NameSpan)
	}
}
func (f *flattener) comma() { f.tok(parser.TokenComma, "", noSpan) }

func (f *flattener) exprs(xs []parser.Expr) {
	for i, x := range xs {
		if i > 0 {
			f.comma()
		}
		f.expr(x)
	}
}

func (f *flattener) expr(x parser.Expr) {
	switch x := x.(type) {
	case *parser.QualifiedIdent:
		for i, p := range x.Parts {
			if i > 0 {
				f.tok(parser.TokenDot, "", noSpan)
			}
			f.ident(p)
		}
	case *parser.BasicLit:
		f.tok(x.Kind, x.Value, x.ValueSpan)
	case *parser.UnaryExpr:
		f.tok(x.Op, "", x.OpSpan)
		f.expr(x.X)
	case *parser.BinaryExpr:
		f.expr(x.X)
		f.tok(x.Op, "", x.OpSpan)
		f.expr(x.Y)
	case *parser.InExpr:
		f.expr(x.X)
		f.tok(parser.TokenIn, "", x.In)
		f.tok(parser.TokenLParen, "", x.Lparen)
		f.exprs(x.Vals)
		f.tok(parser.TokenRParen, "", x.Rparen)
	case *parser.ParenExpr:
		f.tok(parser.TokenLParen, "", x.Lparen)
		f.expr(x.X)
		f.tok(parser.TokenRParen, "", x.Rparen)
	case *parser.CallExpr:
		f.ident(x.Func)
		f.tok(parser.TokenLParen, "", x.Lparen)
		f.exprs(x.Args)
		if len(x.Args) > 0 {
			f.optionalComma[len(f.out)] = true
		}
		f.tok(parser.TokenRParen, "", x.Rparen)
	case *parser.IndexExpr:
		f.expr(x.X)
		f.tok(parser.TokenLBracket, "", x.Lbrack)
		f.expr(x.Index)
		f.tok(parser.TokenRBracket, "", x.Rbrack)
	default:
		panic(fmt.Sprintf("flatten: unexpected expression %T", x))
	}
}

func (f *flattener) sortTerm(t *parser.SortTerm) {
	f.expr(t.X)
	if t.AscDescSpan.IsValid() {
		if t.Asc {
			f.word("asc", t.AscDescSpan)
		} else {
			f.word("desc", t.AscDescSpan)
		}
	}
	if t.NullsSpan.IsValid() {
		f.word("nulls", noSpan)
		if t.NullsFirst {
			f.word("first", noSpan)
		} else {
			f.word("last", noSpan)
		}
	}
}

func (f *flattener) namedCol(name *parser.Ident, assign parser.Span, x parser.Expr) {
	if name != nil {
		f.ident(name)
		f.tok(parser.TokenAssign, "", assign)
	}
	f.expr(x)
}

func (f *flattener) tabular(t *parser.TabularExpr, src string) {
	f.ident(t.Source.(*parser.TableRef).Table)
	for _, op := range t.Operators {
		switch op := op.(type) {
		case *parser.CountOperator:
			f.tok(parser.TokenPipe, "", op.Pipe)
			f.word(src[op.Keyword.Start:op.Keyword.End], op.Keyword)
		case *parser.WhereOperator:
			f.tok(parser.TokenPipe, "", op.Pipe)
			f.word(src[op.Keyword.Start:op.Keyword.End], op.Keyword)
			f.expr(op.Predicate)
		case *parser.SortOperator:
			f.tok(parser.TokenPipe, "", op.Pipe)
			// the keyword span covers `sort ... by`
			f.word("sort|order", noSpan)
			f.tok(parser.TokenBy, "", noSpan)
			for i, t := range op.Terms {
				if i > 0 {
					f.comma()
				}
				f.sortTerm(t)
			}
		case *parser.TakeOperator:
			f.tok(parser.TokenPipe, "", op.Pipe)
			f.word(src[op.Keyword.Start:op.Keyword.End], op.Keyword)
			f.expr(op.RowCount)
		case *parser.TopOperator:
			f.tok(parser.TokenPipe, "", op.Pipe)
			f.word("top", op.Keyword)
			f.expr(op.RowCount)
			f.tok(parser.TokenBy, "", op.By)
			f.sortTerm(op.Col)
		case *parser.ProjectOperator:
			f.tok(parser.TokenPipe, "", op.Pipe)
			f.word("project", op.Keyword)
			for i, c := range op.Cols {
				if i > 0 {
					f.comma()
				}
				f.ident(c.Name)
				if c.X != nil {
					f.tok(parser.TokenAssign, "", c.Assign)
					f.expr(c.X)
				}
			}
		case *parser.ExtendOperator:
			f.tok(parser.TokenPipe, "", op.Pipe)
			f.word("extend", op.Keyword)
			for i, c := range op.Cols {
				if i > 0 {
					f.comma()
				}
				f.namedCol(c.Name, c.Assign, c.X)
			}
		case *parser.SummarizeOperator:
			f.tok(parser.TokenPipe, "", op.Pipe)
			f.word("summarize", op.Keyword)
			for i, c := range op.Cols {
				if i > 0 {
					f.comma()
				}
				f.namedCol(c.Name, c.Assign, c.X)
			}
			if op.By.IsValid() {
				if len(op.Cols) > 0 {
					f.optionalComma[len(f.out)] = true
				}
				f.tok(parser.TokenBy, "", op.By)
				for i, c := range op.GroupBy {
					if i > 0 {
						f.comma()
					}
					f.namedCol(c.Name, c.Assign, c.X)
				}
			}
		case *parser.JoinOperator:
			f.tok(parser.TokenPipe, "", op.Pipe)
			f.word("join", op.Keyword)
			if op.Flavor != nil {
				f.word("kind", op.Kind)
				f.tok(parser.TokenAssign, "", op.KindAssign)
				f.ident(op.Flavor)
			}
			f.tok(parser.TokenLParen, "", op.Lparen)
			f.tabular(op.Right, src)
			f.tok(parser.TokenRParen, "", op.Rparen)
			f.word("on", op.On)
			f.exprs(op.Conditions)
		case *parser.AsOperator:
			f.tok(parser.TokenPipe, "", op.Pipe)
			f.word("as", op.Keyword)
			f.ident(op.Name)
		case *parser.RenderOperator:
			f.tok(parser.TokenPipe, "", op.Pipe)
			f.word("render", op.Keyword)
			f.ident(op.ChartType)
			if op.With.IsValid() {
				f.word("with", op.With)
				f.tok(parser.TokenLParen, "", op.Lparen)
				for i, p := range op.Props {
					if i > 0 {
						f.comma()
					}
					f.ident(p.Name)
					f.tok(parser.TokenAssign, "", p.Assign)
					f.expr(p.Value)
				}
				f.tok(parser.TokenRParen, "", op.Rparen)
			}
		default:
			panic(fmt.Sprintf("flatten: unexpected operator %T", op))
		}
	}
}

func (f *flattener) statement(s parser.Statement, src string) {
	switch s := s.(type) {
	case *parser.LetStatement:
		f.word("let", s.Keyword)
		f.ident(s.Name)
		f.tok(parser.TokenAssign, "", s.Assign)
		f.expr(s.X)
	case *parser.TabularExpr:
		f.tabular(s, src)
	default:
		panic(fmt.Sprintf("flatten: unexpected statement %T", s))
	}
}

func sameToken(want sig, got parser.Token) bool {
	if want.kind != got.Kind {
		return false
	}
	if want.kind == parser.TokenIdentifier && strings.Contains(want.value, "|") {
		for _, alt := range strings.Split(want.value, "|") {
			if alt == got.Value {
				return true
			}
		}
		return false
	}
	return want.value == got.Value
}

// oracleC08: if parsing succeeds, the source's tokens are the re-printed tree's tokens, in
// order; only a comma directly before the ')' of a call or before `by` in summarize, and
// semicolons of empty statements, may be missing from the tree.
func oracleC08(src string) string {
	stmts, err := parser.Parse(src)
	toks := parser.Scan(src)
	if err != nil {
		return "ok"
	}
	for _, t := range toks {
		if t.Kind == parser.TokenError {
			return fmt.Sprintf("FAIL accepted a source with an error token at %v", t.Span)
		}
	}
	f := &flattener{optionalComma: map[int]bool{}}
	var stmtStart []int
	for _, s := range stmts {
		stmtStart = append(stmtStart, len(f.out))
		f.statement(s, src)
	}
	// walk the source tokens against the flattened tree
	i := 0 // index in f.out
	nextStmt := 0
	for ti := 0; ti < len(toks); ti++ {
		t := toks[ti]
		if t.Kind == parser.TokenSemi {
			// a semicolon may only stand between statements (or next to an empty one)
			if nextStmt < len(stmtStart) && i > stmtStart[nextStmt] && (nextStmt+1 >= len(stmtStart) || i < stmtStart[nextStmt+1]) && i != len(f.out) {
				return fmt.Sprintf("FAIL semicolon at %v inside statement %d", t.Span, nextStmt)
			}
			for nextStmt < len(stmtStart) && stmtStart[nextStmt] < i {
				nextStmt++
			}
			continue
		}
		if i < len(f.out) && sameToken(f.out[i], t) && (!f.out[i].span.IsValid() || (f.out[i].span.Start <= t.Span.Start && t.Span.End <= f.out[i].span.End)) {
			i++
			continue
		}
		if t.Kind == parser.TokenComma && f.optionalComma[i] {
			// one optional comma; it must be directly followed by the ')' or `by`
			if ti+1 < len(toks) && i < len(f.out) && sameToken(f.out[i], toks[ti+1]) {
				continue
			}
		}
		want := "end of program"
		if i < len(f.out) {
			want = f.out[i].String()
		}
		return fmt.Sprintf("FAIL token %d %v%q at %v is not accounted for in the tree (tree continues with %s)", ti, t.Kind, t.Value, t.Span, want)
	}
	if i != len(f.out) {
		return fmt.Sprintf("FAIL the tree has %d tokens the source lacks, first %s", len(f.out)-i, f.out[i])
	}
	// two statements need a semicolon between them
	for k := 1; k < len(stmts); k++ {
		a, b := stmts[k-1].Span(), stmts[k].Span()
		sep := false
		for _, t := range toks {
			if t.Kind == parser.TokenSemi && a.End <= t.Span.Start && t.Span.End <= b.Start {
				sep = true
			}
		}
		if !sep {
			return fmt.Sprintf("FAIL statements %d and %d are not separated by a semicolon", k-1, k)
		}
	}
	return "ok"
}

// ---------------------------------------------------------------------------- C10

type nodeInfo struct {
	node   parser.Node
	v      reflect.Value
	parent int
}

// allNodes lists every node reachable through exported fields, in pre-order.
func allNodes(root any) []nodeInfo {
	var out []nodeInfo
	var rec func(v reflect.Value, parent int)
	rec = func(v reflect.Value, parent int) {
		switch v.Kind() {
		case reflect.Interface:
			if !v.IsNil() {
				rec(v.Elem(), parent)
			}
		case reflect.Ptr:
			if v.IsNil() {
				return
			}
			me := parent
			if n, ok := v.Interface().(parser.Node); ok {
				out = append(out, nodeInfo{n, v, parent})
				me = len(out) - 1
			}
			e := v.Elem()
			if e.Kind() == reflect.Struct && e.Type() != spanType {
				for i := 0; i < e.NumField(); i++ {
					if e.Type().Field(i).IsExported() {
						rec(e.Field(i), me)
					}
				}
			}
		case reflect.Slice:
			for i := 0; i < v.Len(); i++ {
				rec(v.Index(i), parent)
			}
		}
	}
	rec(reflect.ValueOf(root), -1)
	return out
}

// refLineCol: 1-based line and column of byte offset pos; columns count runes, tabs advance
// to the next multiple of 8 plus one (the convention of the error messages).
func refLineCol(src string, pos int) (int, int) {
	line, col := 1, 1
	for _, c := range src[:pos] {
		switch c {
		case '\n':
			line++
			col = 1
		case '\t':
			col += 8 - (col-1)%8
		default:
			col++
		}
	}
	return line, col
}

// checkErrPositions: every line:column prefix of an error designates a token boundary of the
// source or its end.
func checkErrPositions(src string, toks []parser.Token, err error) string {
	allowed := map[string]bool{}
	add := func(pos int) {
		if pos >= 0 && pos <= len(src) {
			l, c := refLineCol(src, pos)
			allowed[fmt.Sprintf("%d:%d", l, c)] = true
		}
	}
	add(len(src))
	for _, t := range toks {
		add(t.Span.Start)
		add(t.Span.End)
	}
	for _, p := range strings.Split(errPositions(err), ",") {
		if p == "-" {
			continue
		}
		if !allowed[p] {
			return fmt.Sprintf("FAIL error position %s is not the line:column of any token boundary of the source", p)
		}
	}
	return ""
}

func oracleC10(src string) string {
	if m := oracleC10Tree(src); m != "ok" {
		return m
	}
	if _, perr := parser.Parse(src); perr == nil {
		if _, cerr := pqlCompile(nil, src); cerr != nil {
			if m := checkErrPositions(src, parser.Scan(src), cerr); m != "" {
				return strings.Replace(m, "FAIL error", "FAIL compile error", 1)
			}
		}
	}
	return "ok"
}

func oracleC10Tree(src string) string {
	stmts, err := parser.Parse(src)
	toks := parser.Scan(src)
	starts, ends := map[int]bool{}, map[int]bool{}
	byStart := map[int]parser.Token{}
	for _, t := range toks {
		starts[t.Span.Start] = true
		ends[t.Span.End] = true
		byStart[t.Span.Start] = t
	}
	checkSpan := func(what string, sp parser.Span, mustBeTokens bool) string {
		if !sp.IsValid() {
			return ""
		}
		if sp.End > len(src) {
			return fmt.Sprintf("FAIL %s span %v lies outside the source (%d bytes)", what, sp, len(src))
		}
		if mustBeTokens && (!starts[sp.Start] || !ends[sp.End]) {
			return fmt.Sprintf("FAIL %s span %v does not start and end on token boundaries", what, sp)
		}
		return ""
	}
	if err != nil {
		// failed parse: every reported span is invalid or inside the source; positions point into the source
		for _, s := range stmts {
			for _, ni := range allNodes(s) {
				e := ni.v.Elem()
				for i := 0; i < e.NumField(); i++ {
					if e.Field(i).Type() == spanType && e.Type().Field(i).IsExported() {
						if m := checkSpan(e.Type().Name()+"."+e.Type().Field(i).Name, e.Field(i).Interface().(parser.Span), false); m != "" {
							return m
						}
					}
				}
			}
		}
		if m := checkErrPositions(src, toks, err); m != "" {
			return m
		}
		return "ok"
	}
	for _, s := range stmts {
		nodes := allNodes(s)
		for idx, ni := range nodes {
			e := ni.v.Elem()
			tn := e.Type().Name()
			// every recorded span lies on token boundaries
			for i := 0; i < e.NumField(); i++ {
				if e.Field(i).Type() == spanType && e.Type().Field(i).IsExported() {
					if m := checkSpan(tn+"."+e.Type().Field(i).Name, e.Field(i).Interface().(parser.Span), true); m != "" {
						return m
					}
				}
			}
			switch n := ni.node.(type) {
			case *parser.Ident:
				if !n.NameSpan.IsValid() {
					return fmt.Sprintf("FAIL identifier %q has no span", n.Name)
				}
				t, ok := byStart[n.NameSpan.Start]
				if !ok || t.Span != n.NameSpan || t.Value != n.Name || (t.Kind == parser.TokenQuotedIdentifier) != n.Quoted || (t.Kind != parser.TokenIdentifier && t.Kind != parser.TokenQuotedIdentifier) {
					return fmt.Sprintf("FAIL identifier %q: span %v is not its token", n.Name, n.NameSpan)
				}
			case *parser.BasicLit:
				t, ok := byStart[n.ValueSpan.Start]
				if !ok || t.Span != n.ValueSpan || t.Value != n.Value || t.Kind != n.Kind {
					return fmt.Sprintf("FAIL literal %q: span %v is not its token", n.Value, n.ValueSpan)
				}
			case *parser.BinaryExpr:
				if t, ok := byStart[n.OpSpan.Start]; !ok || t.Span != n.OpSpan || t.Kind != n.Op {
					return fmt.Sprintf("FAIL binary operator span %v is not the operator token", n.OpSpan)
				}
			case *parser.UnaryExpr:
				if t, ok := byStart[n.OpSpan.Start]; !ok || t.Span != n.OpSpan || t.Kind != n.Op {
					return fmt.Sprintf("FAIL unary operator span %v is not the operator token", n.OpSpan)
				}
			}
			// Span() = extent from the first to the last token of the node
			f := &flattener{optionalComma: map[int]bool{}}
			func() {
				defer func() { recover() }()
				switch n := ni.node.(type) {
				case parser.Statement:
					f.statement(n, src)
				case parser.Expr:
					f.expr(n)
				case *parser.Ident:
					f.ident(n)
				case *parser.SortTerm:
					f.sortTerm(n)
				}
			}()
			sp := ni.node.Span()
			if len(f.out) > 0 {
				lo, hi := -1, -1
				for _, s := range f.out {
					if s.span.IsValid() {
						if lo < 0 || s.span.Start < lo {
							lo = s.span.Start
						}
						if s.span.End > hi {
							hi = s.span.End
						}
					}
				}
				first, last := f.out[0], f.out[len(f.out)-1]
				if first.span.IsValid() && last.span.IsValid() && (sp.Start != first.span.Start || sp.End != last.span.End) {
					return fmt.Sprintf("FAIL %s.Span() = %v but its tokens extend over [%d,%d)", tn, sp, first.span.Start, last.span.End)
				}
				if lo >= 0 && (sp.Start > lo || sp.End < hi) {
					return fmt.Sprintf("FAIL %s.Span() = %v does not cover its parts [%d,%d)", tn, sp, lo, hi)
				}
			}
			if m := checkSpan(tn+".Span()", sp, true); m != "" {
				return m
			}
			if !sp.IsValid() {
				return fmt.Sprintf("FAIL %s.Span() is invalid in a successful parse", tn)
			}
			// contained in the parent, after the previous sibling
			if ni.parent >= 0 {
				ps := nodes[ni.parent].node.Span()
				if sp.Start < ps.Start || sp.End > ps.End {
					return fmt.Sprintf("FAIL %s span %v is not inside its parent's span %v", tn, sp, ps)
				}
				for j := idx - 1; j > ni.parent; j-- {
					if nodes[j].parent == ni.parent {
						if nodes[j].node.Span().End > sp.Start {
							return fmt.Sprintf("FAIL %s span %v does not follow its left sibling's span %v", tn, sp, nodes[j].node.Span())
						}
						break
					}
				}
			}
		}
	}
	return "ok"
}

// ---------------------------------------------------------------------------- C11

func isExprOrIdent(n parser.Node) bool {
	if _, ok := n.(parser.Expr); ok {
		return true
	}
	_, ok := n.(*parser.Ident)
	return ok
}

func oracleC11(src string, mask int) string {
	stmts, err := parser.Parse(src)
	if err != nil {
		return "ok"
	}
	for _, s := range stmts {
		nodes := allNodes(s)
		// reachable identifier / expression nodes, minus function names and join kinds
		excluded := map[parser.Node]bool{}
		index := map[parser.Node]int{}
		for i, ni := range nodes {
			index[ni.node] = i
			switch n := ni.node.(type) {
			case *parser.CallExpr:
				excluded[n.Func] = true
			case *parser.JoinOperator:
				if n.Flavor != nil {
					excluded[n.Flavor] = true
				}
			}
		}
		var visits []parser.Node
		var pruned parser.Node
		calls := 0
		fail := ""
		// history: a walk over another program that its visitor abandons by panicking (the caller
		// recovers) must leave nothing behind for the walk that follows
		abandonWalk()
		func() {
			defer func() {
				if r := recover(); r != nil {
					fail = fmt.Sprintf("FAIL Walk panicked: %v", r)
				}
			}()
			parser.Walk(s, func(n parser.Node) bool {
				i := calls
				calls++
				if n == nil || reflect.ValueOf(n).IsNil() {
					fail = "FAIL visitor called with a nil node"
					return true
				}
				visits = append(visits, n)
				if i == mask {
					pruned = n
					return false
				}
				return true
			})
		}()
		if fail != "" {
			return fail
		}
		seen := map[parser.Node]int{}
		for vi, n := range visits {
			if _, dup := seen[n]; dup {
				return fmt.Sprintf("FAIL %T at %v visited twice", n, n.Span())
			}
			seen[n] = vi
			if _, ok := index[n]; !ok {
				return fmt.Sprintf("FAIL visited a node %T that is not reachable from the statement", n)
			}
		}
		isDesc := func(i int, anc int) bool {
			for p := nodes[i].parent; p >= 0; p = nodes[p].parent {
				if p == anc {
					return true
				}
			}
			return false
		}
		for i, ni := range nodes {
			vi, visited := seen[ni.node]
			underPruned := pruned != nil && isDesc(i, index[pruned])
			if underPruned {
				if visited {
					return fmt.Sprintf("FAIL %T at %v visited although its ancestor returned false", ni.node, ni.node.Span())
				}
				continue
			}
			if isExprOrIdent(ni.node) && !excluded[ni.node] && !visited {
				return fmt.Sprintf("FAIL %T at %v is never visited", ni.node, ni.node.Span())
			}
			if excluded[ni.node] && visited {
				return fmt.Sprintf("FAIL %T at %v (function name / join kind) is visited", ni.node, ni.node.Span())
			}
			if visited {
				// parents first
				for p := ni.parent; p >= 0; p = nodes[p].parent {
					if pv, ok := seen[nodes[p].node]; ok && pv > vi {
						return fmt.Sprintf("FAIL %T at %v visited before its ancestor %T", ni.node, ni.node.Span(), nodes[p].node)
					}
				}
			}
		}
	}
	return "ok"
}

var abandonedProgram []parser.Statement

// abandonWalk starts a walk over a fixed other program and gives it up after a few visits.
func abandonWalk() {
	if abandonedProgram == nil {
		abandonedProgram, _ = parser.Parse("Stale | where s1 == s2 + s3 | join (Other | where s4) on s5 | extend s6 = f(s7, s8)")
	}
	for _, st := range abandonedProgram {
		func() {
			defer func() { _ = recover() }()
			k := 0
			parser.Walk(st, func(n parser.Node) bool {
				k++
				if k == 3 {
					panic("abandoned")
				}
				return true
			})
		}()
	}
}

func init() {
	stages["oracle-C08"] = func(f []string) string { return oracleC08(unhx(f[0])) }
	stages["oracle-C10"] = func(f []string) string { return oracleC10(unhx(f[0])) }
	stages["oracle-C11"] = func(f []string) string {
		mask := -1
		if len(f) > 1 {
			fmt.Sscanf(f[1], "%d", &mask)
		}
		return oracleC11(unhx(f[0]), mask)
	}
}
