package main

// Oracles for C07 (grammar / layout), C12 (totality), C13 (rules), C14 (purity) and
// C16 (command line), evaluated on the implementation.  Written from the property texts.

import (
	"math"
	"fmt"
	"os"
	"reflect"
	"sort"
	"strings"
	"sync"

	"github.com/runreveal/pql"
	"github.com/runreveal/pql/parser"
)

// ---------------------------------------------------------------------------- C07

// erased prints a tree without any position.
func erased(v reflect.Value, sb *strings.Builder) {
	switch v.Kind() {
	case reflect.Interface, reflect.Ptr:
		if v.IsNil() {
			sb.WriteString("nil")
			return
		}
		erased(v.Elem(), sb)
	case reflect.Struct:
		if v.Type() == spanType {
			return
		}
		sb.WriteString("(" + v.Type().Name())
		for i := 0; i < v.NumField(); i++ {
			if !v.Type().Field(i).IsExported() || v.Field(i).Type() == spanType {
				continue
			}
			sb.WriteByte(' ')
			erased(v.Field(i), sb)
		}
		sb.WriteByte(')')
	case reflect.Slice:
		sb.WriteByte('[')
		for i := 0; i < v.Len(); i++ {
			if i > 0 {
				sb.WriteByte(' ')
			}
			erased(v.Index(i), sb)
		}
		sb.WriteByte(']')
	case reflect.String:
		sb.WriteString("x" + hx(v.String()))
	case reflect.Bool:
		fmt.Fprint(sb, v.Bool())
	case reflect.Int:
		fmt.Fprintf(sb, "%d", v.Int())
	}
}

func erasedStmts(stmts []parser.Statement) string {
	var sb strings.Builder
	for _, s := range stmts {
		erased(reflect.ValueOf(s), &sb)
		sb.WriteByte(';')
	}
	return sb.String()
}

// Reference expression reader: the documented grammar, as an independent precedence
// climbing parser over the token list.  It returns the erased tree as a string in the same
// format as [erased], or "" if the tokens are not one expression of the grammar.
type refParser struct {
	toks []parser.Token
	pos  int
	bad  bool
}

func refPrec(k parser.TokenKind) int {
	switch k {
	case parser.TokenOr:
		return 1
	case parser.TokenAnd:
		return 2
	case parser.TokenEq, parser.TokenNE, parser.TokenLT, parser.TokenLE, parser.TokenGT, parser.TokenGE,
		parser.TokenCaseInsensitiveEq, parser.TokenCaseInsensitiveNE, parser.TokenIn:
		return 3
	case parser.TokenPlus, parser.TokenMinus:
		return 4
	case parser.TokenStar, parser.TokenSlash, parser.TokenMod:
		return 5
	}
	return 0
}

func (p *refParser) peek() parser.TokenKind {
	if p.pos < len(p.toks) {
		return p.toks[p.pos].Kind
	}
	return 0
}

func (p *refParser) take(k parser.TokenKind) bool {
	if p.peek() == k {
		p.pos++
		return true
	}
	p.bad = true
	return false
}

// level(n): operators of precedence >= n, left associative
func (p *refParser) level(n int) string {
	left := p.unary()
	for !p.bad {
		k := p.peek()
		pr := refPrec(k)
		if pr == 0 || pr < n {
			break
		}
		p.pos++
		if k == parser.TokenIn {
			p.take(parser.TokenLParen)
			vals := []string{p.level(1)}
			for p.peek() == parser.TokenComma {
				p.pos++
				vals = append(vals, p.level(1))
			}
			p.take(parser.TokenRParen)
			left = "(InExpr " + left + " [" + strings.Join(vals, " ") + "])"
			continue
		}
		right := p.level(pr + 1)
		left = fmt.Sprintf("(BinaryExpr %s %d %s)", left, int(k), right)
	}
	return left
}

func (p *refParser) unary() string {
	if k := p.peek(); k == parser.TokenPlus || k == parser.TokenMinus {
		p.pos++
		return fmt.Sprintf("(UnaryExpr %d %s)", int(k), p.postfix())
	}
	return p.postfix()
}

func (p *refParser) ident() string {
	if p.pos >= len(p.toks) {
		p.bad = true
		return ""
	}
	t := p.toks[p.pos]
	if t.Kind != parser.TokenIdentifier && t.Kind != parser.TokenQuotedIdentifier {
		p.bad = true
		return ""
	}
	p.pos++
	return fmt.Sprintf("(Ident x%s %v)", hx(t.Value), t.Kind == parser.TokenQuotedIdentifier)
}

func (p *refParser) postfix() string {
	x := p.atom()
	if !p.bad && p.peek() == parser.TokenLBracket {
		p.pos++
		i := p.level(1)
		p.take(parser.TokenRBracket)
		x = "(IndexExpr " + x + " " + i + ")"
	}
	return x
}

func (p *refParser) atom() string {
	if p.pos >= len(p.toks) {
		p.bad = true
		return ""
	}
	t := p.toks[p.pos]
	switch t.Kind {
	case parser.TokenNumber, parser.TokenString:
		p.pos++
		return fmt.Sprintf("(BasicLit %d x%s)", int(t.Kind), hx(t.Value))
	case parser.TokenLParen:
		p.pos++
		x := p.level(1)
		p.take(parser.TokenRParen)
		return "(ParenExpr " + x + ")"
	case parser.TokenQuotedIdentifier, parser.TokenIdentifier:
		parts := []string{p.ident()}
		for p.peek() == parser.TokenDot {
			p.pos++
			parts = append(parts, p.ident())
		}
		if len(parts) == 1 && t.Kind == parser.TokenIdentifier && p.peek() == parser.TokenLParen {
			p.pos++
			var args []string
			if p.peek() != parser.TokenRParen {
				args = append(args, p.level(1))
				for p.peek() == parser.TokenComma {
					p.pos++
					if p.peek() == parser.TokenRParen {
						break // one trailing comma
					}
					args = append(args, p.level(1))
				}
			}
			p.take(parser.TokenRParen)
			return parts[0][:0] + "(CallExpr " + parts[0] + " [" + strings.Join(args, " ") + "])"
		}
		return "(QualifiedIdent [" + strings.Join(parts, " ") + "])"
	}
	p.bad = true
	return ""
}

var synonyms = map[string]string{"where": "filter", "filter": "where", "sort": "order", "order": "sort", "take": "limit", "limit": "take"}

// oracleC07: (1) `T | where <tokens>`: whenever the reference reader accepts the tokens as an
// expression, Parse succeeds with exactly that tree, and vice versa; (2) the tree does not
// depend on layout or keyword synonyms.
func oracleC07(src string, seed int64) string {
	toks := parser.Scan(src)
	for _, t := range toks {
		if t.Kind == parser.TokenError {
			return "ok"
		}
	}
	stmts, err := parser.Parse(src)
	// (1) the expression of a leading `T | where e` with nothing else
	if len(toks) > 3 && toks[0].Kind == parser.TokenIdentifier && toks[1].Kind == parser.TokenPipe &&
		toks[2].Kind == parser.TokenIdentifier && (toks[2].Value == "where" || toks[2].Value == "filter") {
		simple := true
		for _, t := range toks[3:] {
			if t.Kind == parser.TokenPipe || t.Kind == parser.TokenSemi {
				simple = false
			}
		}
		if simple {
			rp := &refParser{toks: toks[3:]}
			want := rp.level(1)
			accepted := !rp.bad && rp.pos == len(rp.toks)
			// chained indexing is outside the documented grammar (see DESIGN.md, D13)
			if accepted != (err == nil) {
				return fmt.Sprintf("FAIL grammar: reference reader accepts=%v, Parse accepts=%v", accepted, err == nil)
			}
			if accepted {
				var sb strings.Builder
				erased(reflect.ValueOf(stmts[0].(*parser.TabularExpr).Operators[0].(*parser.WhereOperator).Predicate), &sb)
				if sb.String() != want {
					return "FAIL grammar: Parse built " + sb.String() + " where the grammar prescribes " + want
				}
			}
		}
	}
	if err != nil {
		return "ok"
	}
	// (2) re-layout: same tokens, other separators and synonyms
	base := erasedStmts(stmts)
	r := newRng(seed, src)
	seps := []string{" ", "\n", "\t", " // c\n", "\n\n", "  ", "\r\n", " //\n"}
	heads := []string{"", "", "// h\n", "\n", "//\n \t"}
	tails := []string{"", "", "// t", "//", " // x ; | ) , b desc", "\t//c\r"}
	for variant := 0; variant < 3; variant++ {
		var sb strings.Builder
		sb.WriteString(pick(r, heads))
		for i, t := range toks {
			lex := src[t.Span.Start:t.Span.End]
			// operator keywords (identifier directly after a pipe) may be replaced by their synonym
			if i > 0 && toks[i-1].Kind == parser.TokenPipe && t.Kind == parser.TokenIdentifier && variant > 0 {
				if s, ok := synonyms[t.Value]; ok && r.chance(1, 2) {
					lex = s
				}
			}
			sb.WriteString(lex)
			if variant == 2 && i+1 < len(toks) && !wordLike(t) && !wordLike(toks[i+1]) && !gluable(t, toks[i+1]) {
				continue // no separator where none is needed
			}
			sb.WriteString(pick(r, seps))
		}
		sb.WriteString(pick(r, tails))
		st2, err2 := parser.Parse(sb.String())
		if err2 != nil {
			return fmt.Sprintf("FAIL layout: accepted program rejected after re-layout %q: %v", sb.String(), firstLine(err2.Error()))
		}
		got := erasedStmts(st2)
		got = normSynonyms(got)
		if got != normSynonyms(base) {
			return fmt.Sprintf("FAIL layout: tree changes with layout %q", sb.String())
		}
	}
	return "ok"
}

func normSynonyms(s string) string { return s }

func wordLike(t parser.Token) bool {
	switch t.Kind {
	case parser.TokenIdentifier, parser.TokenNumber, parser.TokenAnd, parser.TokenOr, parser.TokenIn, parser.TokenBy:
		return true
	}
	return false
}

// gluable: two punctuation tokens that would lex differently when written without a separator
func gluable(a, b parser.Token) bool {
	two := map[[2]parser.TokenKind]bool{}
	for _, p := range [][2]parser.TokenKind{
		{parser.TokenAssign, parser.TokenAssign}, {parser.TokenAssign, parser.TokenEq}, {parser.TokenAssign, parser.TokenCaseInsensitiveEq},
		{parser.TokenLT, parser.TokenAssign}, {parser.TokenGT, parser.TokenAssign}, {parser.TokenLT, parser.TokenEq}, {parser.TokenGT, parser.TokenEq},
		{parser.TokenLT, parser.TokenCaseInsensitiveEq}, {parser.TokenGT, parser.TokenCaseInsensitiveEq},
		{parser.TokenSlash, parser.TokenSlash}, {parser.TokenDot, parser.TokenDot},
	} {
		two[p] = true
	}
	if two[[2]parser.TokenKind{a.Kind, b.Kind}] {
		return true
	}
	// a dot next to a number, quoted things next to each other: keep a separator
	if a.Kind == parser.TokenDot || b.Kind == parser.TokenDot || a.Kind == parser.TokenString || b.Kind == parser.TokenString ||
		a.Kind == parser.TokenQuotedIdentifier || b.Kind == parser.TokenQuotedIdentifier {
		return true
	}
	return false
}

// ---------------------------------------------------------------------------- C12

func oracleC12(f []string) string {
	src := unhx(f[0])
	var where string
	func() {
		defer func() {
			if r := recover(); r != nil {
				where = fmt.Sprintf("FAIL panic in %s: %v", where, r)
			} else {
				where = ""
			}
		}()
		where = "Scan"
		parser.Scan(src)
		where = "SplitStatements"
		parser.SplitStatements(src)
		where = "Parse"
		stmts, err := parser.Parse(src)
		if err == nil {
			where = "Walk"
			for _, s := range stmts {
				parser.Walk(s, func(n parser.Node) bool { return true })
			}
		}
		where = "Compile"
		compileWith(f)
		where = "Compile(nil options)"
		pql.Compile(src)
	}()
	if where != "" {
		return where
	}
	return "ok"
}

// oracleC12Growth: f[0] and f[1] are two programs of one family, the second with one more statement.
// "Finishing within seconds for inputs of a few kilobytes" fails for a family whose output doubles
// with every statement of some 20 bytes: the verdict extrapolates the measured growth to the member
// of 2 KiB (it is not run: its output would not fit in memory).
func oracleC12Growth(f []string) string {
	if len(f) < 2 {
		return "ok"
	}
	a, b := unhx(f[0]), unhx(f[1])
	oa, ea := pql.Compile(a)
	ob, eb := pql.Compile(b)
	if ea != nil || eb != nil || len(b) <= len(a) || len(oa) == 0 {
		return "ok"
	}
	ratio := float64(len(ob)) / float64(len(oa))
	if ratio < 1.5 {
		return "ok"
	}
	steps := float64(2048-len(b)) / float64(len(b)-len(a))
	log2 := math.Log2(float64(len(ob))) + steps*math.Log2(ratio)
	if log2 < 36 { // less than 64 GiB of SQL for the 2 KiB member: not counted
		return "ok"
	}
	return fmt.Sprintf("FAIL blowup: %d bytes compile to %d bytes of SQL and %d bytes (one more statement) to %d: the output grows x%.2f per statement of %d bytes, so the 2 KiB program of this shape needs about 2^%.0f bytes of SQL - Compile cannot finish within seconds",
		len(a), len(oa), len(b), len(ob), ratio, len(b)-len(a), log2)
}

// ---------------------------------------------------------------------------- C13

type rulesChecker struct {
	bad    string
	params map[string]string
}

func arityOK(name string, n int) bool {
	switch name {
	case "not", "isnull", "isnotnull", "tolower", "toupper", "countif":
		return n == 1
	case "now", "count":
		return n == 0
	case "iff", "iif":
		return n == 3
	case "strcat":
		return n >= 1
	}
	return true
}

// expr checks the rules inside an expression.  mode: "let", "join" or "".
func (rc *rulesChecker) expr(x parser.Expr, mode string, scope map[string]bool) {
	switch x := x.(type) {
	case *parser.QualifiedIdent:
		if len(x.Parts) == 1 && !x.Parts[0].Quoted {
			n := x.Parts[0].Name
			if scope[n] {
				return
			}
			if n == "true" || n == "false" || n == "null" {
				return
			}
		}
		if mode == "let" {
			rc.bad = "let value refers to something that is not an earlier binding or constant"
			return
		}
		for _, p := range x.Parts {
			if !p.Quoted && (p.Name == "$left" || p.Name == "$right") && mode != "join" {
				rc.bad = p.Name + " outside a join condition"
			}
		}
	case *parser.BasicLit:
	case *parser.UnaryExpr:
		rc.expr(x.X, mode, scope)
	case *parser.BinaryExpr:
		rc.expr(x.X, mode, scope)
		rc.expr(x.Y, mode, scope)
	case *parser.InExpr:
		rc.expr(x.X, mode, scope)
		for _, v := range x.Vals {
			rc.expr(v, mode, scope)
		}
	case *parser.ParenExpr:
		rc.expr(x.X, mode, scope)
	case *parser.IndexExpr:
		rc.expr(x.X, mode, scope)
		rc.expr(x.Index, mode, scope)
	case *parser.CallExpr:
		if !arityOK(x.Func.Name, len(x.Args)) {
			rc.bad = fmt.Sprintf("%s called with %d arguments", x.Func.Name, len(x.Args))
		}
		for _, a := range x.Args {
			rc.expr(a, mode, scope)
		}
	}
}

func (rc *rulesChecker) tabular(t *parser.TabularExpr, scope map[string]bool) {
	for _, op := range t.Operators {
		switch op := op.(type) {
		case *parser.WhereOperator:
			rc.expr(op.Predicate, "", scope)
		case *parser.SortOperator:
			for _, t := range op.Terms {
				rc.expr(t.X, "", scope)
			}
		case *parser.TakeOperator:
			rc.expr(op.RowCount, "", scope)
		case *parser.TopOperator:
			rc.expr(op.RowCount, "", scope)
			rc.expr(op.Col.X, "", scope)
		case *parser.ProjectOperator:
			for _, c := range op.Cols {
				if c.X != nil {
					rc.expr(c.X, "", scope)
				} else {
					rc.expr(c.Name.AsQualified(), "", scope)
				}
			}
		case *parser.ExtendOperator:
			for _, c := range op.Cols {
				rc.expr(c.X, "", scope)
			}
		case *parser.SummarizeOperator:
			for _, c := range op.Cols {
				rc.expr(c.X, "", scope)
			}
			for _, c := range op.GroupBy {
				rc.expr(c.X, "", scope)
			}
		case *parser.JoinOperator:
			rc.tabular(op.Right, scope)
			for _, c := range op.Conditions {
				rc.expr(c, "join", scope)
			}
		}
	}
}

func oracleC13(f []string) string {
	src := unhx(f[0])
	sql, err := compileWith(f)
	if (sql != "" && err != nil) || (sql == "" && err == nil) {
		return fmt.Sprintf("FAIL either/or: Compile returned (%q, %v)", sql, err)
	}
	stmts, perr := parser.Parse(src)
	if perr != nil {
		if err == nil {
			return "FAIL Compile succeeded on a source that does not parse"
		}
		return "ok"
	}
	rc := &rulesChecker{}
	scope := map[string]bool{}
	for i := 1; i+1 < len(f); i += 2 {
		scope[unhx(f[i])] = true
	}
	var query *parser.TabularExpr
	nq := 0
	for _, s := range stmts {
		switch s := s.(type) {
		case *parser.TabularExpr:
			nq++
			if query == nil {
				query = s
			}
		case *parser.LetStatement:
			if query == nil {
				rc.expr(s.X, "let", scope)
				scope[s.Name.Name] = true
			}
		}
	}
	if nq != 1 {
		rc.bad = fmt.Sprintf("%d tabular statements", nq)
	} else if rc.bad == "" {
		rc.tabular(query, scope)
	}
	if rc.bad != "" && err == nil {
		return "FAIL rule broken but Compile succeeded: " + rc.bad
	}
	if rc.bad == "" && err != nil {
		return "FAIL no documented rule is broken but Compile failed: " + firstLine(err.Error())
	}
	return "ok"
}

// ---------------------------------------------------------------------------- C14

// oracleC14 runs a history: the given source under nil / zero / empty / given options,
// repeatedly and concurrently with other work, and checks that every result is the same and
// that the caller's map is untouched.
func oracleC14(f []string) string {
	src := unhx(f[0])
	params := map[string]string{}
	for i := 1; i+1 < len(f); i += 2 {
		params[unhx(f[i])] = unhx(f[i+1])
	}
	res := func(sql string, err error) string {
		if err != nil {
			return "ERR " + err.Error()
		}
		return "OK " + sql
	}
	before := fmt.Sprint(sortedMap(params))
	ref := res((&pql.CompileOptions{Parameters: params}).Compile(src))
	if fmt.Sprint(sortedMap(params)) != before {
		return "FAIL the caller's parameter map was modified: " + fmt.Sprint(sortedMap(params))
	}
	if len(params) == 0 {
		a := res(pql.Compile(src))
		b := res((*pql.CompileOptions)(nil).Compile(src))
		c := res(new(pql.CompileOptions).Compile(src))
		d := res((&pql.CompileOptions{Parameters: map[string]string{}}).Compile(src))
		if a != b || b != c || c != d || d != ref {
			return "FAIL nil / zero / empty options differ"
		}
	}
	// history: other calls in between do not influence the result
	(&pql.CompileOptions{Parameters: map[string]string{"a": "1", "x": "2"}}).Compile("let a = 5; let k = 7; T | where a == x | take k")
	pql.Compile("T | join (U) on k")
	if again := res((&pql.CompileOptions{Parameters: params}).Compile(src)); again != ref {
		return "FAIL result depends on call history: " + firstLine(again) + " vs " + firstLine(ref)
	}
	// shared map, concurrent calls
	var wg sync.WaitGroup
	outs := make([]string, 8)
	scans := make([]string, 8)
	for i := range outs {
		wg.Add(1)
		go func(i int) {
			defer wg.Done()
			switch i % 4 {
			case 0, 1:
				outs[i] = res((&pql.CompileOptions{Parameters: params}).Compile(src))
			case 2:
				outs[i] = ref
				st, err := parser.Parse(src)
				scans[i] = fmt.Sprint(len(st), err)
			default:
				outs[i] = ref
				scans[i] = showTokens(parser.Scan(src))
			}
		}(i)
	}
	wg.Wait()
	for i, o := range outs {
		if o != ref {
			return fmt.Sprintf("FAIL concurrent call %d returned a different result", i)
		}
	}
	if fmt.Sprint(sortedMap(params)) != before {
		return "FAIL the caller's parameter map was modified by concurrent calls"
	}
	st, err := parser.Parse(src)
	if scans[2] != fmt.Sprint(len(st), err) || scans[3] != showTokens(parser.Scan(src)) {
		return "FAIL Parse/Scan results differ between calls"
	}
	return "ok"
}

func sortedMap(m map[string]string) []string {
	var out []string
	for k, v := range m {
		out = append(out, k+"="+v)
	}
	sort.Strings(out)
	return out
}

// ---------------------------------------------------------------------------- C16

// cliExpected: the one-shot specification of the command-line tool, computed with the
// library's own Compile: the script's statements in order, each query compiled with all
// previously accepted lets in scope.
func cliExpected(script string) (out string, fail bool) { return cliExpectedErr(script, false) }

// cliExpectedErr: the same when reading fails after the script's bytes (readError).
func cliExpectedErr(script string, readError bool) (out string, fail bool) {
	// lines as the tool reads them: a read error at a line of 64 KiB or more
	var text strings.Builder
	rest := script
	for len(rest) > 0 {
		i := strings.IndexByte(rest, '\n')
		line := rest
		if i >= 0 {
			line, rest = rest[:i], rest[i+1:]
		} else {
			rest = ""
		}
		if len(line) >= 65536 {
			readError = true
			break
		}
		line = strings.TrimSuffix(line, "\r")
		text.WriteString(line)
		text.WriteByte('\n')
	}
	pieces := parser.SplitStatements(text.String())
	var prelude strings.Builder
	var sb strings.Builder
	for i, p := range pieces {
		last := i == len(pieces)-1
		if len(parser.Scan(p)) == 0 && last {
			continue
		}
		if last && readError {
			// the unterminated rest is not compiled after a read error
			continue
		}
		toks := parser.Scan(p)
		if !last && len(toks) > 0 && toks[0].Kind == parser.TokenIdentifier && toks[0].Value == "let" {
			if _, err := pql.Compile(prelude.String() + p + ";X"); err != nil {
				fail = true
			} else {
				prelude.WriteString(p + ";\n")
			}
			continue
		}
		sql, err := pql.Compile(prelude.String() + p)
		if err != nil {
			fail = true
			continue
		}
		sb.WriteString(sql + "\n\n")
	}
	if readError {
		fail = true
	}
	return sb.String(), fail
}

func oracleC16(f []string) string {
	got := showCli(f)
	script := unhx(f[0])
	out, fail := cliExpectedErr(script, len(f) > 1 && f[1] == "filedir")
	want := fmt.Sprintf("%d %s", map[bool]int{false: 0, true: 1}[fail], hx(out))
	if got != want {
		if strings.HasPrefix(got, "0 ") || strings.HasPrefix(got, "1 ") {
			g := unhx(strings.SplitN(got, " ", 2)[1])
			return fmt.Sprintf("FAIL the tool printed %q (exit %s), the statements compile to %q (exit %d)", clip(g), got[:1], clip(out), map[bool]int{false: 0, true: 1}[fail])
		}
		return "FAIL " + got
	}
	return "ok"
}

func clip(s string) string {
	if len(s) > 300 {
		return s[:300] + "..."
	}
	return s
}

func init() {
	stages["oracle-C07"] = func(f []string) string { return oracleC07(unhx(f[0]), 1) }
	stages["oracle-C12"] = oracleC12
	stages["oracle-C12-growth"] = oracleC12Growth
	stages["oracle-C13"] = oracleC13
	stages["oracle-C14"] = oracleC14
	stages["oracle-C16"] = oracleC16
	_ = os.Getenv
}
