package main

import (
	"fmt"
	"os"
	"strings"
)

// rng is splitmix64: deterministic across Go versions.
type rng struct{ s uint64 }

func newRng(seed int64, salt string) *rng {
	r := &rng{uint64(seed)*0x9E3779B97F4A7C15 + 0x1234567}
	for _, b := range []byte(salt) {
		r.s = r.s*1099511628211 ^ uint64(b)
	}
	r.next()
	return r
}

func (r *rng) next() uint64 {
	r.s += 0x9E3779B97F4A7C15
	z := r.s
	z = (z ^ (z >> 30)) * 0xBF58476D1CE4E5B9
	z = (z ^ (z >> 27)) * 0x94D049BB133111EB
	return z ^ (z >> 31)
}

func (r *rng) intn(n int) int {
	if n <= 0 {
		return 0
	}
	return int(r.next() % uint64(n))
}

func (r *rng) chance(num, den int) bool { return r.intn(den) < num }

func pick[T any](r *rng, xs []T) T { return xs[r.intn(len(xs))] }

// alphabet: one or two members of every character class the lexer distinguishes.
var alphabet = []string{
	"a", "e", "x", "E", "f", "0", "1", "9", "_", "$", ".", " ", "\n", "\t", "'", "\"", "`", "\\",
	";", "/", "=", "!", "~", "<", ">", "-", "+", "*", "%", "(", ")", "[", "]", "|", ",", "n", "t",
	"\x00", "\xff", "\xc3\xa9", "\xe2\x80\xa8", "\xe2", "\xc2\xa0", "\xf0\x9f\x98\x80", "#", "\r",
	"\xef\xbb\xbf", "\xc2\x85", "\xe2\x80\x83", "\xe3\x80\x80", "\v", "\f",
}

// smallAlphabet is used for exhaustive enumeration.
var smallAlphabet = []string{
	"a", "e", "x", "0", "1", ".", " ", "\n", "'", "\"", "`", "\\", ";", "/", "=", "!", "~", "<",
	"-", "+", "(", "[", "]", ")", "|", ",", "\xff", "\xc3\xa9", "\xe2\x80\xa8", "\xe2", "n", "_", "\xef\xbb\xbf",
}

type emitFn func(fields ...string)

func generate(family string, seed int64, n int, emit emitFn) {
	switch {
	case strings.HasPrefix(family, "bytes-exh-"):
		var k int
		fmt.Sscanf(family, "bytes-exh-%d", &k)
		var rec func(prefix string, depth int)
		rec = func(prefix string, depth int) {
			emit(hx(prefix))
			if depth == k {
				return
			}
			for _, a := range smallAlphabet {
				rec(prefix+a, depth+1)
			}
		}
		rec("", 0)
	case family == "bytes-rand":
		r := newRng(seed, family)
		for i := 0; i < n; i++ {
			emit(hx(randBytes(r)))
		}
	case family == "semis":
		r := newRng(seed, family)
		for i := 0; i < n; i++ {
			emit(hx(randSemis(r)))
		}
	default:
		if g, ok := families[family]; ok {
			g(newRng(seed, family), n, emit)
			return
		}
		fmt.Fprintf(os.Stderr, "unknown family %q\n", family)
		os.Exit(2)
	}
}

var families = map[string]func(r *rng, n int, emit emitFn){}

func randBytes(r *rng) string {
	var sb strings.Builder
	l := r.intn(12)
	switch r.intn(20) {
	case 0:
		l = r.intn(200)
	case 1:
		l = r.intn(2000)
	}
	for i := 0; i < l; i++ {
		switch r.intn(10) {
		case 0:
			sb.WriteByte(byte(r.intn(256)))
		case 1:
			sb.WriteString(pick(r, lexFragments))
		default:
			sb.WriteString(pick(r, alphabet))
		}
	}
	return sb.String()
}

// lexFragments: lexemes and near-lexemes that exercise look-ahead and back-up.
var lexFragments = []string{
	"0x", "0X1f", "0xg", "0xFFFFFFFFFFFFFFFF", "0x10000000000000000", "0x00000000000000000001", "1e", "1e+", "1e+5", "1E-7", "1e5e", "0e0", "0e", "00.5", "0.", ".5", "..", "1..2", "1.2.3", "007",
	"==", "=~", "!=", "!~", "<=", ">=", "//", "// c\n", "//", "/", "'a'", "\"b\"", "'a\\'b'", "'a\\n'", "'\\", "'a\n", "`q`", "`a``b`", "`a\n", "``", "```", "and", "or", "in", "by", "andy", "let", "$left", "a.b",
	"18446744073709551615", "18446744073709551616", "1.5e300", "\xef\xbb\xbf", "\xef\xbb\xbfT", ";\xef\xbb\xbf", "\xc2\xa0", "\xc2\x85", "// c", "//", "0x0ffffffffffffffff", "0x00000000000000001", "\xe2\x80", "'\\\xe2\x80\xa8'", "'\xff\\t\xff'",
}

var sampleStatements = []string{
	"T | where a == 'x;y'", "let x = 1", "T | project `a;b`", "T // c;\n| count", "T | where a == \"q;\"", "X", "T | take 0x1f", "T | where a =~ 'b' and c in (1, 2)",
	"T | where s == 'unterminated", "T | extend z = 1e", "T | where a < 0x", "T | where x /", "T | where x !", "T | where `un", "", " ", "\n", "// only comment", "T | where a == 1 // trailing", "T | where f(a", "T | where (a", "T | where a[1", "T | where x in (1", "T | join (U", "b) | count", "T | where strcat('a', 'b'",
	"\xef\xbb\xbfT | count", "\xef\xbb\xbf", "T\xc2\xa0| count", "T | project `a;b`, `c`", "T | where a == 1 // trailing ; comment", "T|where`x`==`y;`",
}

func randSemis(r *rng) string {
	var sb strings.Builder
	k := 1 + r.intn(5)
	for i := 0; i < k; i++ {
		s := pick(r, sampleStatements)
		if r.chance(1, 3) {
			// cut inside the statement at a random byte and put a semicolon there
			p := r.intn(len(s) + 1)
			s = s[:p] + ";" + s[p:]
		}
		if r.chance(1, 4) {
			s = randBytes(r)
		}
		sb.WriteString(s)
		if i < k-1 || r.chance(1, 2) {
			sb.WriteString(pick(r, []string{";", ";", ";\n", " ; ", ";;"}))
		}
	}
	return sb.String()
}
