package main

import (
	"fmt"
	"reflect"
	"strings"
	"time"

	"github.com/runreveal/pql/parser"
)

var stages = map[string]func(fields []string) string{}

func init() {
	stages["scan"] = func(f []string) string { return showTokens(parser.Scan(unhx(f[0]))) }
	stages["split"] = func(f []string) string { return showPieces(parser.SplitStatements(unhx(f[0]))) }
}

var watchdog = 5 * time.Second

// guard runs fn under a watchdog and turns a panic into "PANIC" and a timeout into "HANG".
func guard(fn func() string) string {
	ch := make(chan string, 1)
	go func() {
		defer func() {
			if r := recover(); r != nil {
				ch <- "PANIC"
			}
		}()
		ch <- fn()
	}()
	select {
	case s := <-ch:
		return s
	case <-time.After(watchdog):
		return "HANG"
	}
}

func showTokens(toks []parser.Token) string {
	var sb strings.Builder
	for i, t := range toks {
		if i > 0 {
			sb.WriteByte(' ')
		}
		if t.Kind == parser.TokenError {
			fmt.Fprintf(&sb, "%d:%d:%d:", int(t.Kind), t.Span.Start, t.Span.End)
		} else {
			fmt.Fprintf(&sb, "%d:%d:%d:%s", int(t.Kind), t.Span.Start, t.Span.End, hx(t.Value))
		}
	}
	return sb.String()
}

func showPieces(ps []string) string {
	var sb strings.Builder
	for i, p := range ps {
		if i > 0 {
			sb.WriteByte(' ')
		}
		sb.WriteString("p" + hx(p))
	}
	return sb.String()
}

func compileWith(f []string) (string, error) {
	src := unhx(f[0])
	if len(f) < 3 {
		return pqlCompile(nil, src)
	}
	params := map[string]string{}
	for i := 1; i+1 < len(f); i += 2 {
		params[unhx(f[i])] = unhx(f[i+1])
	}
	return pqlCompile(params, src)
}

func showCompile(f []string) string {
	sql, err := compileWith(f)
	if err != nil {
		return "ERR " + errPositions(err)
	}
	return "OK " + hx(sql)
}

func init() {
	stages["compile"] = showCompile
	// glue: the model side answers OK only when the compiled pieces pass glue_ok (coq/Proofs/SqlGlue.v:
	// neighbouring characters inside and across pieces cannot merge into another token); the
	// implementation side says whether Compile (no parameters) succeeded
	stages["glue"] = func(f []string) string {
		return guard(func() string {
			if _, err := compileWith(f[:1]); err != nil {
				return "ERR"
			}
			return "OK"
		})
	}
}

func showWalk(f []string) string {
	src := unhx(f[0])
	mask := -1
	if len(f) > 1 {
		fmt.Sscanf(f[1], "%d", &mask)
	}
	stmts, err := parser.Parse(src)
	if err != nil {
		return "ERR"
	}
	var sb strings.Builder
	sb.WriteString("OK")
	for _, st := range stmts {
		sb.WriteString(" |")
		calls := 0
		parser.Walk(st, func(n parser.Node) bool {
			i := calls
			calls++
			if n == nil || reflect.ValueOf(n).IsNil() {
				sb.WriteString(" NIL")
				return i != mask
			}
			sp := n.Span()
			fmt.Fprintf(&sb, " %s:%d:%d", reflect.TypeOf(n).Elem().Name(), sp.Start, sp.End)
			return i != mask
		})
	}
	return sb.String()
}

func showLit(f []string) string {
	toks := parser.Scan(unhx(f[0]))
	if len(toks) != 1 || (toks[0].Kind != parser.TokenNumber && toks[0].Kind != parser.TokenString) {
		return "-"
	}
	lit := &parser.BasicLit{Kind: toks[0].Kind, Value: toks[0].Value, ValueSpan: toks[0].Span}
	b := func(x bool) string {
		if x {
			return "t"
		}
		return "f"
	}
	u := "-"
	if !lit.IsFloat() {
		u = fmt.Sprint(lit.Uint64())
	}
	return b(lit.IsInteger()) + " " + b(lit.IsFloat()) + " " + u
}

func init() {
	stages["walk"] = showWalk
	stages["lit"] = showLit
}

// resulttext: the complete observable result of Compile, Parse and Scan (error texts included),
// used to compare fresh processes with each other (C14).
func init() {
	stages["resulttext"] = func(f []string) string {
		sql, err := compileWith(f)
		_, perr := parser.Parse(unhx(f[0]))
		return hx(fmt.Sprintf("%q|%v|%v|%s", sql, err, perr, showTokens(parser.Scan(unhx(f[0])))))
	}
}
