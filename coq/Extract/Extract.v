(** Extraction of the executable model and specification to OCaml.
    [ExtrOcamlBasic] only: bool, option, unit, list, prod, sumbool, sumor map to
    OCaml natives; nat, positive, N, Z stay the extracted inductive types. *)
From Coq Require Import ExtrOcamlBasic.
From PQL Require Import Model.Show Spec.Expected Spec.Grammar Proofs.SqlGlue.
Extraction Language OCaml.
Extraction "model.ml" scan split_statements show_tokens show_pieces show_parse show_spans show_compile show_walk show_lit show_cli show_cli_gen reread show_gram show_glue.
