(** * Lexer: executable model of parser/lex.go (Scan, SplitStatements) and of
      the BasicLit accessors of parser/ast.go.  No proofs here. *)
From PQL Require Export Model.Base Gen.Tables.

(** Token kinds ([kind]) and the keyword table come from [Gen.Tables],
    regenerated from parser/lex.go on every run. *)

Record token := mkTok { tkind : kind; tstart : nat; tend : nat; tvalue : str }.

(** Result of scanning one lexical item at the head of the remaining input:
    [Tok k v n]  a token of kind [k], value [v], covering the first [n] bytes;
    [Skip n]     white space or a comment covering the first [n] bytes. *)
Inductive item := Tok (k : kind) (v : str) (n : nat) | Skip (n : nat).

Definition item_len (i : item) : nat := match i with Tok _ _ n => n | Skip n => n end.

(** ** identifiers *)
Definition lex_ident (l : str) : item :=
  match l with
  | [] => Skip 0
  | c :: r =>
    let v := c :: take_while is_ident_char r in
    match keyword_kind v with
    | Some k => Tok k [] (length v)
    | None => Tok KIdentifier v (length v)
    end
  end.

(** ** backtick-quoted identifiers.
    [quoted_body l] scans after the opening backtick: returns
    [Some (raw, n)] (raw content between the backticks, n bytes consumed
    including the closing backtick) or [None n] on error after n bytes
    (EOF, or a newline which is not consumed). *)
Fixpoint quoted_body (fuel : nat) (l : str) : option str * nat :=
  match fuel with
  | O => (None, 0%nat)
  | Datatypes.S f =>
    match l with
    | [] => (None, 0%nat)
    | c :: r =>
      if c =? 96 then
        match r with
        | c2 :: r2 =>
          if c2 =? 96 then
            let '(o, n) := quoted_body f r2 in
            (option_map (fun v => 96 :: 96 :: v) o, Datatypes.S (Datatypes.S n))
          else (Some [], 1%nat)
        | [] => (Some [], 1%nat)
        end
      else if c =? 10 then (None, 0%nat)
      else
        let '(o, n) := quoted_body f r in
        (option_map (cons c) o, Datatypes.S n)
    end
  end.

(** [strings.ReplaceAll(raw, "``", "`")] *)
Fixpoint undouble (fuel : nat) (l : str) : str :=
  match fuel with
  | O => l
  | Datatypes.S f =>
    match l with
    | c :: r =>
      if c =? 96 then
        match r with
        | c2 :: r2 => if c2 =? 96 then 96 :: undouble f r2 else c :: undouble f r
        | [] => [c]
        end
      else c :: undouble f r
    | [] => []
    end
  end.

Definition lex_quoted (l : str) : item :=
  match l with
  | _ :: r =>
    match quoted_body (length l) r with
    | (Some raw, n) => Tok KQuotedIdentifier (undouble (length raw) raw) (1 + n)
    | (None, n) => Tok KError [] (1 + n)
    end
  | [] => Skip 0
  end.

(** ** numbers *)
(** [numberExponent]: number of bytes of a well-formed exponent at the head
    of [l], or 0 when there is none. *)
Definition exponent_len (l : str) : nat :=
  match l with
  | e :: r =>
    if (e =? 101) || (e =? 69) then
      match r with
      | sg :: r' =>
        if (sg =? 43) || (sg =? 45) then
          match r' with
          | d :: _ => if is_digit d then (2 + length (take_while is_digit r'))%nat else 0%nat
          | [] => 0%nat
          end
        else if is_digit sg then (1 + length (take_while is_digit r))%nat
        else 0%nat
      | [] => 0%nat
      end
    else 0%nat
  | [] => 0%nat
  end.

(** The "subsequent decimal digits" loop: bytes consumed from [l], given
    whether a decimal point has been seen (exponent included). *)
Fixpoint digits_len (has_dot : bool) (l : str) : nat :=
  match l with
  | [] => 0%nat
  | c :: r =>
    if (c =? 46) && negb has_dot then Datatypes.S (digits_len true r)
    else if is_digit c then Datatypes.S (digits_len has_dot r)
    else exponent_len l
  end.

(** [normalizeNumberValue] *)
Definition normalize_number (s : str) : str :=
  match drop_while (fun c => c =? 48) s with
  | [] => [48]
  | c :: r => if (c =? 46) || (c =? 101) || (c =? 69) then 48 :: c :: r else c :: r
  end.

Definition hex_digit_val (c : N) : N :=
  if is_digit c then c - 48 else if in_range 97 102 c then c - 87 else c - 55.

Definition hex_value (ds : str) : N :=
  fold_left (fun acc c => acc * 16 + hex_digit_val c) ds 0.

Definition two64 : N := 18446744073709551616.

Definition lex_number (l : str) : item :=
  match l with
  | [] => Skip 0
  | c :: r =>
    if c =? 48 then
      match r with
      | [] => Tok KNumber [48] 1
      | c1 :: r1 =>
        if c1 =? 46 then
          let n := (2 + digits_len true r1)%nat in Tok KNumber (normalize_number (firstn n l)) n
        else if (c1 =? 101) || (c1 =? 69) then
          let n := (1 + exponent_len r)%nat in Tok KNumber (normalize_number (firstn n l)) n
        else if (c1 =? 120) || (c1 =? 88) then
          let ds := take_while is_hex_digit r1 in
          match ds with
          | [] => Tok KError [] 2
          | _ =>
            let n := (2 + length ds)%nat in
            let v := hex_value ds in
            if v <? two64 then Tok KNumber (N_to_dec v) n else Tok KError [] n
          end
        else if is_digit c1 then
          let n := (2 + digits_len false r1)%nat in Tok KNumber (normalize_number (firstn n l)) n
        else
          let n := (1 + digits_len false r)%nat in Tok KNumber (normalize_number (firstn n l)) n
      end
    else if c =? 46 then
      match r with
      | d :: r1 =>
        if is_digit d then
          let n := (2 + digits_len true r1)%nat in Tok KNumber (normalize_number (firstn n l)) n
        else Tok KDot [] 1
      | [] => Tok KDot [] 1
      end
    else
      let n := (1 + digits_len false r)%nat in Tok KNumber (normalize_number (firstn n l)) n
  end.

(** ** strings.
    [string_body q esc l]: scan after the opening quote [q]; [esc] says whether
    an escape has been met already (from then on runes are re-encoded, as the
    Go [strings.Builder] path does).  Returns the value (or [None] on error)
    and the bytes consumed.  Structural on a fuel equal to the length. *)
Fixpoint string_body (fuel : nat) (q : N) (esc : bool) (l : str) : option str * nat :=
  match fuel with
  | O => (None, 0%nat)
  | Datatypes.S f =>
    match l with
    | [] => (None, 0%nat)
    | _ =>
      let '(c, w) := decode l in
      if c =? q then (Some [], w)
      else if c =? 10 then (None, 0%nat)
      else if c =? 92 then
        let l1 := skipn w l in
        match l1 with
        | [] => (None, w)
        | _ =>
          let '(c2, w2) := decode l1 in
          if c2 =? 10 then (None, w)
          else
            let out := if c2 =? 110 then [10] else if c2 =? 116 then [9] else firstn w2 l1 in
            let '(o, n) := string_body f q true (skipn w2 l1) in
            (option_map (app out) o, w + w2 + n)%nat
        end
      else
        let out := firstn w l in
        let '(o, n) := string_body f q esc (skipn w l) in
        (option_map (app out) o, w + n)%nat
    end
  end.

Definition lex_string (l : str) : item :=
  match l with
  | q :: r =>
    match string_body (Datatypes.S (length r)) q false r with
    | (Some v, n) => Tok KString v (1 + n)
    | (None, n) => Tok KError [] (1 + n)
    end
  | [] => Skip 0
  end.

(** ** comments: bytes up to and including the next newline. *)
Fixpoint comment_len (l : str) : nat :=
  match l with
  | [] => 0%nat
  | c :: r => if c =? 10 then 1%nat else Datatypes.S (comment_len r)
  end.

(** ** main dispatch of [Scan] on the first rune *)
Definition lex1 (l : str) : item :=
  match l with
  | [] => Skip 0
  | b :: r =>
    let '(c, w) := decode l in
    if is_space c then Skip w
    else if is_ident_start c then lex_ident l
    else if is_digit c || (c =? 46) then lex_number l
    else if c =? 44 then Tok KComma [] 1
    else if (c =? 34) || (c =? 39) then lex_string l
    else if c =? 96 then lex_quoted l
    else if c =? 124 then Tok KPipe [] 1
    else if c =? 40 then Tok KLParen [] 1
    else if c =? 41 then Tok KRParen [] 1
    else if c =? 91 then Tok KLBracket [] 1
    else if c =? 93 then Tok KRBracket [] 1
    else if c =? 61 then
      match r with
      | c2 :: _ => if c2 =? 61 then Tok KEq [] 2 else if c2 =? 126 then Tok KCaseInsensitiveEq [] 2 else Tok KAssign [] 1
      | [] => Tok KAssign [] 1
      end
    else if c =? 33 then
      match r with
      | c2 :: _ => if c2 =? 61 then Tok KNE [] 2 else if c2 =? 126 then Tok KCaseInsensitiveNE [] 2 else Tok KError [] 1
      | [] => Tok KError [] 1
      end
    else if c =? 43 then Tok KPlus [] 1
    else if c =? 45 then Tok KMinus [] 1
    else if c =? 42 then Tok KStar [] 1
    else if c =? 47 then
      match r with
      | c2 :: r' => if c2 =? 47 then Skip (2 + comment_len r') else Tok KSlash [] 1
      | [] => Tok KSlash [] 1
      end
    else if c =? 37 then Tok KMod [] 1
    else if c =? 60 then
      match r with
      | c2 :: _ => if c2 =? 61 then Tok KLE [] 2 else Tok KLT [] 1
      | [] => Tok KLT [] 1
      end
    else if c =? 62 then
      match r with
      | c2 :: _ => if c2 =? 61 then Tok KGE [] 2 else Tok KGT [] 1
      | [] => Tok KGT [] 1
      end
    else if c =? 59 then Tok KSemi [] 1
    else Tok KError [] w
  end.

(** ** the scan loop *)
Fixpoint scan_from (fuel : nat) (off : nat) (l : str) : list token :=
  match fuel with
  | O => []
  | Datatypes.S f =>
    match l with
    | [] => []
    | _ =>
      match lex1 l with
      | Tok k v n => mkTok k off (n + off) v :: scan_from f (n + off) (skipn n l)
      | Skip n => scan_from f (n + off) (skipn n l)
      end
    end
  end.

Definition scan (s : str) : list token := scan_from (Datatypes.S (length s)) 0 s.

(** ** SplitStatements *)
Definition slice (s : str) (a b : nat) : str := firstn (b - a) (skipn a s).

Fixpoint split_at_semis (s : str) (start : nat) (ts : list token) : list str :=
  match ts with
  | [] => [skipn start s]
  | t :: r =>
    match tkind t with
    | KSemi => slice s start (tstart t) :: split_at_semis s (tend t) r
    | _ => split_at_semis s start r
    end
  end.

Definition split_statements (s : str) : list str := split_at_semis s 0 (scan s).

(** ** BasicLit accessors (parser/ast.go) *)
Definition contains_any (cs : list N) (s : str) : bool :=
  existsb (fun c => existsb (N.eqb c) cs) s.

Definition lit_is_float (k : kind) (v : str) : bool :=
  match k with KNumber => contains_any [46; 101; 69] v | _ => false end.
Definition lit_is_integer (k : kind) (v : str) : bool :=
  match k with KNumber => negb (lit_is_float k v) | _ => false end.

Definition dec_value (ds : str) : N := fold_left (fun acc c => acc * 10 + (c - 48)) ds 0.

(** [Uint64] on integer literals: [strconv.ParseUint(v, 10, 64)], 0 on overflow
    or malformed input.  (The float branch goes through [Float64]; not modelled.) *)
Definition lit_uint64 (k : kind) (v : str) : option N :=
  match k with
  | KNumber =>
    if lit_is_float k v then None
    else if forallb is_digit v && negb (match v with [] => true | _ => false end)
    then (if dec_value v <? two64 then Some (dec_value v) else Some 0)
    else Some 0
  | _ => Some 0
  end.
