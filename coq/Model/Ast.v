(** * Ast: the syntax tree of parser/ast.go, for successfully parsed programs.
    Pointer fields that may legitimately be nil in a successful parse are [option]s. *)
From PQL Require Export Model.Lexer Gen.AstTables.

(** A span is [None] for [nullSpan()] and [Some (start, end)] otherwise. *)
Definition span := option (nat * nat).

Definition span_valid (s : span) : bool :=
  match s with Some (a, b) => Nat.leb a b | None => false end.

(** [unionSpans] *)
Definition union2 (u s : span) : span :=
  match s with
  | None => u
  | Some (a, b) =>
    if Nat.leb a b then
      match u with
      | Some (ua, ub) => if Nat.leb ua ub then Some (Nat.min ua a, Nat.max ub b) else s
      | None => s
      end
    else u
  end.
Definition union_spans (ss : list span) : span := fold_left union2 ss None.

Record ident := mkIdent { iname : str; ispan : span; iquoted : bool }.

Inductive expr :=
| EQual (parts : list ident)
| EBin (x : expr) (opspan : span) (op : kind) (y : expr)
| EUnary (opspan : span) (op : kind) (x : expr)
| EIn (x : expr) (inspan lparen : span) (vals : list expr) (rparen : span)
| EParen (lparen : span) (x : expr) (rparen : span)
| ELit (vspan : span) (k : kind) (v : str)
| ECall (f : ident) (lparen : span) (args : list expr) (rparen : span)
| EIndex (x : expr) (lbrack : span) (idx : expr) (rbrack : span).

Record sort_term := mkSortTerm
  { st_x : expr; st_asc : bool; st_ascspan : span; st_nullsfirst : bool; st_nullsspan : span }.
Record proj_col := mkProjCol { pc_name : ident; pc_assign : span; pc_x : option expr }.
(** ExtendColumn and SummarizeColumn have the same shape. *)
Record ext_col := mkExtCol { ec_name : option ident; ec_assign : span; ec_x : expr }.
Record render_prop := mkRenderProp { rp_name : ident; rp_assign : span; rp_value : expr }.

(** A tabular expression is a source table and a list of operators; the right-hand side of
    a join is one again (kept as its two components so that [operator] is a plain nested
    inductive). *)
Inductive operator :=
| OCount (pipe kw : span)
| OWhere (pipe kw : span) (pred : expr)
| OSort (pipe kw : span) (terms : list sort_term)
| OTake (pipe kw : span) (n : expr)
| OTop (pipe kw : span) (n : expr) (by_ : span) (col : sort_term)
| OProject (pipe kw : span) (cols : list proj_col)
| OExtend (pipe kw : span) (cols : list ext_col)
| OSummarize (pipe kw : span) (cols : list ext_col) (by_ : span) (groupby : list ext_col)
| OJoin (pipe kw kindspan kindassign : span) (flavor : option ident) (lparen : span)
        (rsrc : ident) (rops : list operator) (rparen onspan : span) (conds : list expr)
| OAs (pipe kw : span) (name : ident)
| ORender (pipe kw : span) (chart : ident) (with_ lparen : span) (props : list render_prop) (rparen : span).

Record tabular := mkTab { tsrc : ident; tops : list operator }.

Inductive stmt :=
| SLet (kw : span) (name : ident) (assign : span) (x : expr)
| STab (t : tabular).

(** Node kind of an operator (for the generated tables). *)
Definition op_nkind (o : operator) : nkind :=
  match o with
  | OCount _ _ => N_CountOperator
  | OWhere _ _ _ => N_WhereOperator
  | OSort _ _ _ => N_SortOperator
  | OTake _ _ _ => N_TakeOperator
  | OTop _ _ _ _ _ => N_TopOperator
  | OProject _ _ _ => N_ProjectOperator
  | OExtend _ _ _ => N_ExtendOperator
  | OSummarize _ _ _ _ _ => N_SummarizeOperator
  | OJoin _ _ _ _ _ _ _ _ _ _ _ => N_JoinOperator
  | OAs _ _ _ => N_AsOperator
  | ORender _ _ _ _ _ _ _ => N_RenderOperator
  end.

(** ** Generic view of the tree: every node as its kind plus its fields in the declaration
    order of the Go struct.  Used by the span table, the Walk machine and the printer. *)
Inductive gfield :=
| GSpan (s : span)
| GStr (s : str)
| GBool (b : bool)
| GKind (k : kind)
| GNode (n : option gnode)
| GSlice (ns : list gnode)
with gnode := GN (k : nkind) (fs : list (fname * gfield)).

Definition g_ident (i : ident) : gnode :=
  GN N_Ident [(F_Name, GStr (iname i)); (F_NameSpan, GSpan (ispan i)); (F_Quoted, GBool (iquoted i))].

Fixpoint g_expr (e : expr) : gnode :=
  match e with
  | EQual ps => GN N_QualifiedIdent [(F_Parts, GSlice (map g_ident ps))]
  | EBin x os op y => GN N_BinaryExpr
      [(F_X, GNode (Some (g_expr x))); (F_OpSpan, GSpan os); (F_Op, GKind op); (F_Y, GNode (Some (g_expr y)))]
  | EUnary os op x => GN N_UnaryExpr [(F_OpSpan, GSpan os); (F_Op, GKind op); (F_X, GNode (Some (g_expr x)))]
  | EIn x i lp vs rp => GN N_InExpr
      [(F_X, GNode (Some (g_expr x))); (F_In, GSpan i); (F_Lparen, GSpan lp);
       (F_Vals, GSlice (map g_expr vs)); (F_Rparen, GSpan rp)]
  | EParen lp x rp => GN N_ParenExpr [(F_Lparen, GSpan lp); (F_X, GNode (Some (g_expr x))); (F_Rparen, GSpan rp)]
  | ELit vs k v => GN N_BasicLit [(F_ValueSpan, GSpan vs); (F_Kind, GKind k); (F_Value, GStr v)]
  | ECall f lp args rp => GN N_CallExpr
      [(F_Func, GNode (Some (g_ident f))); (F_Lparen, GSpan lp); (F_Args, GSlice (map g_expr args)); (F_Rparen, GSpan rp)]
  | EIndex x lb i rb => GN N_IndexExpr
      [(F_X, GNode (Some (g_expr x))); (F_Lbrack, GSpan lb); (F_Index, GNode (Some (g_expr i))); (F_Rbrack, GSpan rb)]
  end.

Definition g_sort_term (t : sort_term) : gnode :=
  GN N_SortTerm [(F_X, GNode (Some (g_expr (st_x t)))); (F_Asc, GBool (st_asc t)); (F_AscDescSpan, GSpan (st_ascspan t));
                 (F_NullsFirst, GBool (st_nullsfirst t)); (F_NullsSpan, GSpan (st_nullsspan t))].
Definition g_proj_col (c : proj_col) : gnode :=
  GN N_ProjectColumn [(F_Name, GNode (Some (g_ident (pc_name c)))); (F_Assign, GSpan (pc_assign c));
                      (F_X, GNode (option_map g_expr (pc_x c)))].
Definition g_ext_col (k : nkind) (c : ext_col) : gnode :=
  GN k [(F_Name, GNode (option_map g_ident (ec_name c))); (F_Assign, GSpan (ec_assign c));
        (F_X, GNode (Some (g_expr (ec_x c))))].
Definition g_render_prop (p : render_prop) : gnode :=
  GN N_RenderProperty [(F_Name, GNode (Some (g_ident (rp_name p)))); (F_Assign, GSpan (rp_assign p));
                       (F_Value, GNode (Some (g_expr (rp_value p))))].

Definition g_table_ref (i : ident) : gnode := GN N_TableRef [(F_Table, GNode (Some (g_ident i)))].

Fixpoint g_op (o : operator) : gnode :=
  match o with
  | OCount p k => GN N_CountOperator [(F_Pipe, GSpan p); (F_Keyword, GSpan k)]
  | OWhere p k x => GN N_WhereOperator [(F_Pipe, GSpan p); (F_Keyword, GSpan k); (F_Predicate, GNode (Some (g_expr x)))]
  | OSort p k ts => GN N_SortOperator [(F_Pipe, GSpan p); (F_Keyword, GSpan k); (F_Terms, GSlice (map g_sort_term ts))]
  | OTake p k n => GN N_TakeOperator [(F_Pipe, GSpan p); (F_Keyword, GSpan k); (F_RowCount, GNode (Some (g_expr n)))]
  | OTop p k n b c => GN N_TopOperator
      [(F_Pipe, GSpan p); (F_Keyword, GSpan k); (F_RowCount, GNode (Some (g_expr n))); (F_By, GSpan b);
       (F_Col, GNode (Some (g_sort_term c)))]
  | OProject p k cs => GN N_ProjectOperator [(F_Pipe, GSpan p); (F_Keyword, GSpan k); (F_Cols, GSlice (map g_proj_col cs))]
  | OExtend p k cs => GN N_ExtendOperator
      [(F_Pipe, GSpan p); (F_Keyword, GSpan k); (F_Cols, GSlice (map (g_ext_col N_ExtendColumn) cs))]
  | OSummarize p k cs b gs => GN N_SummarizeOperator
      [(F_Pipe, GSpan p); (F_Keyword, GSpan k); (F_Cols, GSlice (map (g_ext_col N_SummarizeColumn) cs));
       (F_By, GSpan b); (F_GroupBy, GSlice (map (g_ext_col N_SummarizeColumn) gs))]
  | OJoin p k ks ka fl lp rsrc rops rp on conds => GN N_JoinOperator
      [(F_Pipe, GSpan p); (F_Keyword, GSpan k); (F_Kind, GSpan ks); (F_KindAssign, GSpan ka);
       (F_Flavor, GNode (option_map g_ident fl)); (F_Lparen, GSpan lp);
       (F_Right, GNode (Some (GN N_TabularExpr
           [(F_Source, GNode (Some (g_table_ref rsrc))); (F_Operators, GSlice (map g_op rops))])));
       (F_Rparen, GSpan rp); (F_On, GSpan on); (F_Conditions, GSlice (map g_expr conds))]
  | OAs p k n => GN N_AsOperator [(F_Pipe, GSpan p); (F_Keyword, GSpan k); (F_Name, GNode (Some (g_ident n)))]
  | ORender p k c w lp ps rp => GN N_RenderOperator
      [(F_Pipe, GSpan p); (F_Keyword, GSpan k); (F_ChartType, GNode (Some (g_ident c))); (F_With, GSpan w);
       (F_Lparen, GSpan lp); (F_Props, GSlice (map g_render_prop ps)); (F_Rparen, GSpan rp)]
  end.

Definition g_tabular (t : tabular) : gnode :=
  GN N_TabularExpr [(F_Source, GNode (Some (g_table_ref (tsrc t)))); (F_Operators, GSlice (map g_op (tops t)))].

Definition g_stmt (s : stmt) : gnode :=
  match s with
  | SLet kw n a x => GN N_LetStatement
      [(F_Keyword, GSpan kw); (F_Name, GNode (Some (g_ident n))); (F_Assign, GSpan a); (F_X, GNode (Some (g_expr x)))]
  | STab t => g_tabular t
  end.

(** ** Span() computed from the generated [span_parts] table. *)
Fixpoint assoc_f (fs : list (fname * gfield)) (f : fname) : option gfield :=
  match fs with
  | [] => None
  | (g, v) :: r => if fname_eqb g f then Some v else assoc_f r f
  end.

Definition spart_field (p : spart) : fname :=
  match p with SP_Span f => f | SP_Node f => f | SP_Slice f => f end.

Fixpoint assoc_span (fs : list (fname * span)) (f : fname) : span :=
  match fs with
  | [] => None
  | (g, v) :: r => if fname_eqb g f then v else assoc_span r f
  end.

(** The span contributed by a field: the span itself, [nodeSpan] of a child (null when
    absent), [nodeSliceSpan] of a slice. *)
Fixpoint gspan (n : gnode) : span :=
  match n with
  | GN k fs =>
    let fss := map (fun fv => match fv with (f, v) => (f, fspan v) end) fs in
    union_spans (map (fun p => assoc_span fss (spart_field p)) (span_parts k))
  end
with fspan (v : gfield) : span :=
  match v with
  | GSpan s => s
  | GNode (Some c) => gspan c
  | GNode None => None
  | GSlice cs => union_spans (filter span_valid (map gspan cs))
  | _ => None
  end.
