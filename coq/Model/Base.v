(** * Base: bytes, strings, UTF-8, character classes.
    Executable definitions only (no proofs live here). *)
From Coq Require Export List NArith ZArith Bool Arith.
Export ListNotations.
Open Scope N_scope.

(** Bytes and runes are [N]; strings are [list N]. *)
Definition str := list N.

Definition in_range (lo hi c : N) : bool := (lo <=? c) && (c <=? hi).

Definition is_alpha (c : N) : bool := in_range 97 122 c || in_range 65 90 c.
Definition is_digit (c : N) : bool := in_range 48 57 c.
Definition is_hex_digit (c : N) : bool :=
  is_digit c || in_range 97 102 c || in_range 65 70 c.
Definition is_ident_start (c : N) : bool := is_alpha c || (c =? 95) || (c =? 36).
Definition is_ident_char (c : N) : bool := is_alpha c || is_digit c || (c =? 95).

(** [unicode.IsSpace] (Go): the White_Space property. *)
Definition is_space (c : N) : bool :=
  in_range 9 13 c || (c =? 32) || (c =? 133) || (c =? 160) || (c =? 5760)
  || in_range 8192 8202 c || (c =? 8232) || (c =? 8233) || (c =? 8239)
  || (c =? 8287) || (c =? 12288).

Definition rune_error : N := 65533.

Definition is_cont (b : N) : bool := in_range 128 191 b.

(** [utf8.DecodeRuneInString]: rune and width (>= 1) of the first rune of a
    non-empty string; invalid or truncated encodings give (U+FFFD, 1). *)
Definition decode (l : str) : N * nat :=
  match l with
  | [] => (rune_error, 0%nat)
  | b0 :: r =>
    if b0 <? 128 then (b0, 1%nat)
    else if in_range 194 223 b0 then
      match r with
      | b1 :: _ => if is_cont b1 then ((b0 - 192) * 64 + (b1 - 128), 2%nat)
                   else (rune_error, 1%nat)
      | _ => (rune_error, 1%nat)
      end
    else if in_range 224 239 b0 then
      match r with
      | b1 :: b2 :: _ =>
        let lo := if b0 =? 224 then 160 else 128 in
        let hi := if b0 =? 237 then 159 else 191 in
        if in_range lo hi b1 && is_cont b2
        then ((b0 - 224) * 4096 + (b1 - 128) * 64 + (b2 - 128), 3%nat)
        else (rune_error, 1%nat)
      | _ => (rune_error, 1%nat)
      end
    else if in_range 240 244 b0 then
      match r with
      | b1 :: b2 :: b3 :: _ =>
        let lo := if b0 =? 240 then 144 else 128 in
        let hi := if b0 =? 244 then 143 else 191 in
        if in_range lo hi b1 && is_cont b2 && is_cont b3
        then ((b0 - 240) * 262144 + (b1 - 128) * 4096 + (b2 - 128) * 64 + (b3 - 128), 4%nat)
        else (rune_error, 1%nat)
      | _ => (rune_error, 1%nat)
      end
    else (rune_error, 1%nat)
  end.

(** [utf8.AppendRune] for a rune produced by [decode]
    (always a valid scalar value or U+FFFD). *)
Definition encode (c : N) : str :=
  if c <? 128 then [c]
  else if c <? 2048 then [192 + c / 64; 128 + c mod 64]
  else if c <? 65536 then [224 + c / 4096; 128 + (c / 64) mod 64; 128 + c mod 64]
  else [240 + c / 262144; 128 + (c / 4096) mod 64; 128 + (c / 64) mod 64; 128 + c mod 64].

(** String helpers. *)
Fixpoint str_eqb (a b : str) : bool :=
  match a, b with
  | [], [] => true
  | x :: a', y :: b' => (x =? y) && str_eqb a' b'
  | _, _ => false
  end.

Fixpoint take_while (p : N -> bool) (l : str) : str :=
  match l with
  | [] => []
  | c :: r => if p c then c :: take_while p r else []
  end.

Fixpoint drop_while (p : N -> bool) (l : str) : str :=
  match l with
  | [] => []
  | c :: r => if p c then drop_while p r else l
  end.

(** ASCII literals, written as character codes via a tiny helper on Coq strings. *)
From Coq Require Import Ascii String.
Fixpoint s2l (s : string) : str :=
  match s with
  | EmptyString => []
  | String a r => N_of_ascii a :: s2l r
  end.
Definition L (s : string) : str := s2l s.
Arguments L s%string.
Open Scope list_scope.

(** Decimal printing of an [N] (as [strconv.FormatUint(n, 10)]). *)
Fixpoint dec_digits (fuel : nat) (n : N) (acc : str) : str :=
  match fuel with
  | O => acc
  | Datatypes.S f =>
    let acc' := (48 + n mod 10) :: acc in
    if n / 10 =? 0 then acc' else dec_digits f (n / 10) acc'
  end.
Definition N_to_dec (n : N) : str := dec_digits (Datatypes.S (N.to_nat (N.log2 n))) n [].

Definition nat_to_dec (n : nat) : str := N_to_dec (N.of_nat n).
