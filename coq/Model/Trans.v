(** * Trans: the SQL expression tree the writer intends for a PQL expression (structure, no text). *)
From PQL Require Export Model.Compile Spec.Sem.
From Coq Require Import String.
Local Open Scope list_scope.
Local Notation length := List.length (only parsing).

Definition w_lower : str := Eval vm_compute in L "lower".
Definition w_LOWER : str := Eval vm_compute in L "LOWER".
Definition w_UPPER : str := Eval vm_compute in L "UPPER".
Definition w_concat : str := Eval vm_compute in L "||".
Definition w_now : str := Eval vm_compute in L "CURRENT_TIMESTAMP".
Definition w_plus : str := Eval vm_compute in L "+".
Definition w_minus : str := Eval vm_compute in L "-".

Section Trans.
Variable is_bound : str -> bool.    (* the scope: names of parameters and earlier lets *)
Variable join_mode : bool.

Fixpoint trans (e : expr) {struct e} : sexpr :=
  match e with
  | EParen _ x _ => trans x
  | EQual [p] =>
    if negb (iquoted p) && is_bound (iname p) then XBound (iname p)
    else if negb (iquoted p) then
      match assoc_str builtin_idents (iname p) with
      | Some w => XWord w
      | None => XCol [iname p]
      end
    else XCol [iname p]
  | EQual ps => XCol (map iname ps)
  | ELit _ KNumber v => XNum v
  | ELit _ _ v => XStr v
  | EUnary _ op x => XUn (match op with KMinus => w_minus | _ => w_plus end) (trans x)
  | EBin x _ op y =>
    match op with
    | KEq =>
      if join_mode && ((mentions w_left x || mentions w_left y) && (mentions w_right x || mentions w_right y))
      then XBin w_eq (trans x) (trans y)
      else XCall w_coalesce [XBin w_eq (trans x) (trans y); XWord w_FALSE]
    | KNE => XCall w_coalesce [XBin w_ne (trans x) (trans y); XWord w_FALSE]
    | KCaseInsensitiveEq => XBin w_eq (XCall w_lower [trans x]) (XCall w_lower [trans y])
    | KCaseInsensitiveNE => XBin w_ne (XCall w_lower [trans x]) (XCall w_lower [trans y])
    | _ => match binop_sql op with
           | Some sqlop => XBin sqlop (trans x) (trans y)
           | None => XWord w_NULL
           end
    end
  | EIn x _ _ vs _ => XIn (trans x) (map trans vs)
  | EIndex x _ i _ => XIndex (trans x) (trans i)
  | ECall f _ args _ =>
    let targs := map trans args in
    match known_func (iname f) with
    | Some (W_writeNotFunction, _) => match targs with [a] => XNot a | _ => XWord w_NULL end
    | Some (W_writeNowFunction, _) => XWord w_now
    | Some (W_writeIsNullFunction, _) => match targs with [a] => XIsNull false a | _ => XWord w_NULL end
    | Some (W_writeIsNotNullFunction, _) => match targs with [a] => XIsNull true a | _ => XWord w_NULL end
    | Some (W_writeStrcatFunction, _) =>
      match targs with a :: r => fold_left (fun acc b => XBin w_concat acc b) r a | [] => XWord w_NULL end
    | Some (W_writeCountFunction, _) => XCall w_count []
    | Some (W_writeCountIfFunction, _) => match targs with [a] => XCountIf a | _ => XWord w_NULL end
    | Some (W_writeIfFunction, _) =>
      match targs with [c; t; e'] => XCase (XCall w_coalesce [c; XWord w_FALSE]) t e' | _ => XWord w_NULL end
    | Some (W_writeToLowerFunction, _) => match targs with [a] => XCall w_LOWER [a] | _ => XWord w_NULL end
    | Some (W_writeToUpperFunction, _) => match targs with [a] => XCall w_UPPER [a] | _ => XWord w_NULL end
    | None => XCall (iname f) targs
    end
  end.

End Trans.
