(** * Show: canonical text of observables, printed inside the model so that the
    OCaml driver only has to write bytes. *)
From PQL Require Export Model.Lexer.

Definition hex_digit (n : N) : N := if n <? 10 then 48 + n else 87 + n.
Definition hex_of (s : str) : str :=
  flat_map (fun b => [hex_digit (b / 16); hex_digit (b mod 16)]) s.

Definition Z_to_dec (z : Z) : str :=
  match z with
  | Z0 => [48]
  | Zpos p => N_to_dec (Npos p)
  | Zneg p => 45 :: N_to_dec (Npos p)
  end.

Fixpoint join_with (sep : str) (ls : list str) : str :=
  match ls with
  | [] => []
  | [x] => x
  | x :: r => x ++ sep ++ join_with sep r
  end.

Definition show_token (t : token) : str :=
  Z_to_dec (kind_code (tkind t)) ++ [58] ++ nat_to_dec (tstart t) ++ [58] ++ nat_to_dec (tend t) ++ [58]
  ++ match tkind t with KError => [] | _ => hex_of (tvalue t) end.

Definition show_tokens (ts : list token) : str := join_with [32] (map show_token ts).

Definition show_pieces (ps : list str) : str := join_with [32] (map (fun p => 112 :: hex_of p) ps).

(** ** trees *)
From PQL Require Export Model.Parser.

Definition show_span (s : span) : str :=
  match s with
  | Some (a, b) => nat_to_dec a ++ [58] ++ nat_to_dec b
  | None => [45; 49; 58; 45; 49]
  end.

Fixpoint show_gnode (n : gnode) : str :=
  match n with
  | GN k fs => [40] ++ nkind_name k ++ flat_map (fun fv => match fv with (_, v) => 32 :: show_gfield v end) fs ++ [41]
  end
with show_gfield (v : gfield) : str :=
  match v with
  | GSpan s => show_span s
  | GStr s => 120 :: hex_of s
  | GBool b => if b then [116] else [102]
  | GKind k => Z_to_dec (kind_code k)
  | GNode (Some c) => show_gnode c
  | GNode None => [110; 105; 108]
  | GSlice cs => [91] ++ join_with [32] (map show_gnode cs) ++ [93]
  end.

Definition show_pos (s : str) (e : perr) : str :=
  match epos e with
  | Some p => let '(l, c) := linecol s p in nat_to_dec l ++ [58] ++ nat_to_dec c
  | None => [45]
  end.

Definition show_parse (s : str) : str :=
  match parse s with
  | ParseOk ss => [79; 75] ++ flat_map (fun st => 32 :: show_gnode (g_stmt st)) ss
  | ParseErr e => [69; 82; 82; 32] ++ join_with [44] (map (show_pos s) e)
  | ParseOutOfFuel => [70; 85; 69; 76]
  | ParseInternal => [73; 78; 84; 69; 82; 78; 65; 76]
  end.

(** Span() of every node, in pre-order, for successfully parsed programs. *)
Fixpoint all_spans (n : gnode) : list span :=
  match n with
  | GN k fs => gspan n :: flat_map (fun fv => match fv with (_, v) => field_spans v end) fs
  end
with field_spans (v : gfield) : list span :=
  match v with
  | GNode (Some c) => all_spans c
  | GSlice cs => flat_map all_spans cs
  | _ => []
  end.

Definition show_spans (s : str) : str :=
  match parse s with
  | ParseOk ss => [79; 75; 32] ++ join_with [32] (map show_span (flat_map (fun st => all_spans (g_stmt st)) ss))
  | _ => [69; 82; 82]
  end.

(** ** Compile *)
From PQL Require Export Model.Compile.

Definition show_compile (params : list (str * str)) (s : str) : str :=
  match compile params s with
  | COk ps => [79; 75; 32] ++ hex_of (render ps)
  | CParseErr e => [69; 82; 82; 32] ++ join_with [44] (map (show_pos s) e)
  | CErr p => [69; 82; 82; 32] ++ show_pos s (mkErr p false false)
  | CFuel => [70; 85; 69; 76]
  | CInternal => [73; 78; 84; 69; 82; 78; 65; 76]
  end.

(** ** Walk *)
From PQL Require Export Model.Walk Model.Cli.

Definition show_visit (v : visit) : str :=
  match v with
  | VNode (GN k _ as n) => nkind_name k ++ [58] ++ show_span (gspan n)
  | VNil => [78; 73; 76]
  end.

(** [mask]: the visitor returns false on its mask-th call (none if [None]) *)
Definition mask_visitor (mask : option nat) (i : nat) (_ : gnode) : bool :=
  match mask with Some m => negb (Nat.eqb i m) | None => true end.

Definition show_walk (mask : option nat) (s : str) : str :=
  match parse s with
  | ParseOk ss =>
    let rs := map (fun st => walk (mask_visitor mask) (g_stmt st)) ss in
    if existsb (fun r => match r with WOk _ => false | _ => true end) rs then
      (if existsb (fun r => match r with WFuel => true | _ => false end) rs then [70; 85; 69; 76] else [80; 65; 78; 73; 67])
    else [79; 75] ++ flat_map (fun r => match r with WOk vs => [32; 124] ++ flat_map (fun v => 32 :: show_visit v) vs | _ => [] end) rs
  | _ => [69; 82; 82]
  end.

(** ** literal accessors *)
Definition show_bool (b : bool) : str := if b then [116] else [102].
Definition show_lit (s : str) : str :=
  match scan s with
  | [t] =>
    match tkind t with
    | KNumber | KString =>
      show_bool (lit_is_integer (tkind t) (tvalue t)) ++ [32] ++ show_bool (lit_is_float (tkind t) (tvalue t)) ++ [32]
      ++ match lit_uint64 (tkind t) (tvalue t) with Some n => N_to_dec n | None => [45] end
    | _ => [45]
    end
  | _ => [45]
  end.

(** ** command line *)
(** [bufio.ScanLines] with the 64 KiB token limit: lines without their line end (one
    trailing CR stripped), a final unterminated line if non-empty, [ReadError] at the first
    line whose content reaches the limit. *)
Fixpoint take_line (l : str) : str * option str :=
  match l with
  | [] => ([], None)
  | c :: r => if c =? 10 then ([], Some r) else let '(a, b) := take_line r in (c :: a, b)
  end.

Fixpoint strip_cr (l : str) : str :=
  match l with
  | [] => []
  | c :: r => match r with [] => if c =? 13 then [] else [c] | _ => c :: strip_cr r end
  end.

Fixpoint events_of (fuel : nat) (script : str) : list event :=
  match fuel with
  | O => []
  | S f =>
    match script with
    | [] => []
    | _ =>
      let '(line, rest) := take_line script in
      if (65536 <=? N.of_nat (length line))%N then [ReadError]
      else Line (strip_cr line) :: match rest with Some r => events_of f r | None => [] end
    end
  end.

(** [read_error]: the input ends with a read error after the script's bytes (an operand that
    opens but cannot be read); the scanner still delivers the bytes read so far *)
Definition show_cli_gen (read_error : bool) (script : str) : str :=
  let o := run (events_of (S (length script)) script ++ (if read_error then [ReadError] else [])) in
  (if o_fail o then [49] else [48]) ++ [32] ++ hex_of (o_stdout o).
Definition show_cli (script : str) : str := show_cli_gen false script.
