(** * Show: canonical text of observables, printed inside the model so that the
    OCaml driver only has to write bytes. *)
From PQL Require Export Model.Lexer.

Definition hex_digit (n : N) : N := if n <? 10 then 48 + n else 87 + n.
Definition hex_of (s : str) : str :=
  flat_map (fun b => [hex_digit (b / 16); hex_digit (b mod 16)]) s.

Definition Z_to_dec (z : Z) : str :=
  match z with
  | Z0 => [48]
  | Zpos p => N_to_dec (Npos p)
  | Zneg p => 45 :: N_to_dec (Npos p)
  end.

Fixpoint join_with (sep : str) (ls : list str) : str :=
  match ls with
  | [] => []
  | [x] => x
  | x :: r => x ++ sep ++ join_with sep r
  end.

Definition show_token (t : token) : str :=
  Z_to_dec (kind_code (tkind t)) ++ [58] ++ nat_to_dec (tstart t) ++ [58] ++ nat_to_dec (tend t) ++ [58]
  ++ match tkind t with KError => [] | _ => hex_of (tvalue t) end.

Definition show_tokens (ts : list token) : str := join_with [32] (map show_token ts).

Definition show_pieces (ps : list str) : str := join_with [32] (map (fun p => 112 :: hex_of p) ps).

(** ** trees *)
From PQL Require Export Model.Parser.

Definition show_span (s : span) : str :=
  match s with
  | Some (a, b) => nat_to_dec a ++ [58] ++ nat_to_dec b
  | None => [45; 49; 58; 45; 49]
  end.

Fixpoint show_gnode (n : gnode) : str :=
  match n with
  | GN k fs => [40] ++ nkind_name k ++ flat_map (fun fv => match fv with (_, v) => 32 :: show_gfield v end) fs ++ [41]
  end
with show_gfield (v : gfield) : str :=
  match v with
  | GSpan s => show_span s
  | GStr s => 120 :: hex_of s
  | GBool b => if b then [116] else [102]
  | GKind k => Z_to_dec (kind_code k)
  | GNode (Some c) => show_gnode c
  | GNode None => [110; 105; 108]
  | GSlice cs => [91] ++ join_with [32] (map show_gnode cs) ++ [93]
  end.

Definition show_pos (s : str) (e : perr) : str :=
  match epos e with
  | Some p => let '(l, c) := linecol s p in nat_to_dec l ++ [58] ++ nat_to_dec c
  | None => [45]
  end.

Definition show_parse (s : str) : str :=
  match parse s with
  | ParseOk ss => [79; 75] ++ flat_map (fun st => 32 :: show_gnode (g_stmt st)) ss
  | ParseErr e => [69; 82; 82; 32] ++ join_with [44] (map (show_pos s) e)
  | ParseOutOfFuel => [70; 85; 69; 76]
  | ParseInternal => [73; 78; 84; 69; 82; 78; 65; 76]
  end.

(** Span() of every node, in pre-order, for successfully parsed programs. *)
Fixpoint all_spans (n : gnode) : list span :=
  match n with
  | GN k fs => gspan n :: flat_map (fun fv => match fv with (_, v) => field_spans v end) fs
  end
with field_spans (v : gfield) : list span :=
  match v with
  | GNode (Some c) => all_spans c
  | GSlice cs => flat_map all_spans cs
  | _ => []
  end.

Definition show_spans (s : str) : str :=
  match parse s with
  | ParseOk ss => [79; 75; 32] ++ join_with [32] (map show_span (flat_map (fun st => all_spans (g_stmt st)) ss))
  | _ => [69; 82; 82]
  end.

(** ** Compile *)
From PQL Require Export Model.Compile.

Definition show_compile (params : list (str * str)) (s : str) : str :=
  match compile params s with
  | COk ps => [79; 75; 32] ++ hex_of (render ps)
  | CParseErr e => [69; 82; 82; 32] ++ join_with [44] (map (show_pos s) e)
  | CErr p => [69; 82; 82; 32] ++ show_pos s (mkErr p false false)
  | CFuel => [70; 85; 69; 76]
  | CInternal => [73; 78; 84; 69; 82; 78; 65; 76]
  end.
