(** * Show: canonical text of observables, printed inside the model so that the
    OCaml driver only has to write bytes. *)
From PQL Require Export Model.Lexer.

Definition hex_digit (n : N) : N := if n <? 10 then 48 + n else 87 + n.
Definition hex_of (s : str) : str :=
  flat_map (fun b => [hex_digit (b / 16); hex_digit (b mod 16)]) s.

Definition Z_to_dec (z : Z) : str :=
  match z with
  | Z0 => [48]
  | Zpos p => N_to_dec (Npos p)
  | Zneg p => 45 :: N_to_dec (Npos p)
  end.

Fixpoint join_with (sep : str) (ls : list str) : str :=
  match ls with
  | [] => []
  | [x] => x
  | x :: r => x ++ sep ++ join_with sep r
  end.

Definition show_token (t : token) : str :=
  Z_to_dec (kind_code (tkind t)) ++ [58] ++ nat_to_dec (tstart t) ++ [58] ++ nat_to_dec (tend t) ++ [58]
  ++ match tkind t with KError => [] | _ => hex_of (tvalue t) end.

Definition show_tokens (ts : list token) : str := join_with [32] (map show_token ts).

Definition show_pieces (ps : list str) : str := join_with [32] (map (fun p => 112 :: hex_of p) ps).
