(** * Cli: the line loop of cmd/pql/main.go [run], over a sequence of input events. *)
From PQL Require Export Model.Compile.
From Coq Require Import String.
Local Open Scope list_scope.
Local Notation length := List.length (only parsing).

(** what [bufio.Scanner] delivers: a line (without its line end), or a read error
    (a line above the scanner's token limit), after which nothing more is read *)
Inductive event := Line (l : str) | ReadError.

Record cli_state := mkCli
  { pending : str;        (* sb: text read and not yet terminated by a semicolon *)
    prelude : str;        (* letStatements *)
    failed : bool;        (* finalError != nil *)
    out : str;            (* bytes written to the output *)
    nlogged : nat }.      (* calls of logError *)

Definition compile_ok (src : str) : option str :=
  match compile [] src with COk ps => Some (render ps) | _ => None end.

Definition w_let : str := Eval vm_compute in L "let".
Definition semi_x : str := Eval vm_compute in L ";X".
Definition semi_nl : str := [59; 10].

Definition is_let_piece (stmt : str) : bool :=
  match scan stmt with
  | t :: _ => kind_eqb (tkind t) KIdentifier && str_eqb (tvalue t) w_let
  | [] => false
  end.

(** one complete (semicolon-terminated) piece *)
Definition do_piece (st : cli_state) (stmt : str) : cli_state :=
  if is_let_piece stmt then
    match compile_ok (prelude st ++ stmt ++ semi_x) with
    | Some _ => mkCli (pending st) (prelude st ++ stmt ++ semi_nl) (failed st) (out st) (nlogged st)
    | None => mkCli (pending st) (prelude st) true (out st) (S (nlogged st))
    end
  else
    match compile_ok (prelude st ++ stmt) with
    | Some sql => mkCli (pending st) (prelude st) (failed st) (out st ++ sql ++ [10; 10]) (nlogged st)
    | None => mkCli (pending st) (prelude st) true (out st) (S (nlogged st))
    end.

Definition do_line (st : cli_state) (l : str) : cli_state :=
  let buf := pending st ++ l ++ [10] in
  let pieces := split_statements buf in
  match rev pieces with
  | [] => st   (* impossible: there is always one piece *)
  | [_] => mkCli buf (prelude st) (failed st) (out st) (nlogged st)
  | last :: rinit =>
    let st' := fold_left do_piece (rev rinit) st in
    mkCli last (prelude st') (failed st') (out st') (nlogged st')
  end.

Record cli_out := mkOut { o_stdout : str; o_fail : bool; o_logged : nat }.

(** after the loop: a read error is returned; otherwise the last, unterminated piece is
    compiled as a query under the prelude *)
Definition finish (st : cli_state) (read_error : bool) : cli_out :=
  if read_error then mkOut (out st) true (nlogged st)
  else
    match scan (pending st) with
    | [] => mkOut (out st) (failed st) (nlogged st)
    | _ =>
      match compile_ok (prelude st ++ pending st) with
      | Some sql => mkOut (out st ++ sql ++ [10; 10]) (failed st) (nlogged st)
      | None => mkOut (out st) true (S (nlogged st))
      end
    end.

Fixpoint run_events (st : cli_state) (evs : list event) : cli_out :=
  match evs with
  | [] => finish st false
  | Line l :: r => run_events (do_line st l) r
  | ReadError :: _ => finish st true
  end.

Definition cli_init : cli_state := mkCli [] [] false [] 0.
Definition run (evs : list event) : cli_out := run_events cli_init evs.
