(** * Parser: executable model of parser/parser.go.

    State = the remaining tokens of the current (sub-)parser.  [prev()] is modelled by not
    consuming; [restorePos] by continuing with a saved list; [split k] by cutting the list at
    the first top-level [k]; [endSplit] by "the sub-parser's remaining list is empty".
    A production returns (tree if one could be built, remaining tokens, errors).  Errors are
    lists of (position, not-found flag); [joinErrors] is append, [makeErrorOpaque] clears the
    flags, [isNotFound] is [existsb].  The model builds a tree only for error-free parses. *)
From PQL Require Export Model.Ast.
From Coq Require Import String.
Local Open Scope list_scope.
Local Notation length := List.length (only parsing).

(** keywords recognised by position (plain identifiers for the lexer) *)
Definition w_as : str := Eval vm_compute in L "as".
Definition w_asc : str := Eval vm_compute in L "asc".
Definition w_count : str := Eval vm_compute in L "count".
Definition w_desc : str := Eval vm_compute in L "desc".
Definition w_extend : str := Eval vm_compute in L "extend".
Definition w_filter : str := Eval vm_compute in L "filter".
Definition w_first : str := Eval vm_compute in L "first".
Definition w_join : str := Eval vm_compute in L "join".
Definition w_kind : str := Eval vm_compute in L "kind".
Definition w_last : str := Eval vm_compute in L "last".
Definition w_let : str := Eval vm_compute in L "let".
Definition w_limit : str := Eval vm_compute in L "limit".
Definition w_nulls : str := Eval vm_compute in L "nulls".
Definition w_on : str := Eval vm_compute in L "on".
Definition w_order : str := Eval vm_compute in L "order".
Definition w_project : str := Eval vm_compute in L "project".
Definition w_render : str := Eval vm_compute in L "render".
Definition w_sort : str := Eval vm_compute in L "sort".
Definition w_summarize : str := Eval vm_compute in L "summarize".
Definition w_take : str := Eval vm_compute in L "take".
Definition w_top : str := Eval vm_compute in L "top".
Definition w_where : str := Eval vm_compute in L "where".
Definition w_with : str := Eval vm_compute in L "with".

Record perr := mkErr { epos : option nat; enf : bool; efuel : bool }.
Definition errs := list perr.

Definition err_at (p : nat) : errs := [mkErr (Some p) false false].
Definition err_nopos : errs := [mkErr None false false].
Definition nf_at (p : nat) : errs := [mkErr (Some p) true false].
Definition fuel_err : errs := [mkErr None false true].

Definition opaque (e : errs) : errs := map (fun x => mkErr (epos x) false (efuel x)) e.
Definition is_nf (e : errs) : bool := existsb enf e.
Definition no_err (e : errs) : bool := match e with [] => true | _ => false end.

Definition tok_span (t : token) : span := Some (tstart t, tend t).

Definition is_kind (k : kind) (t : token) : bool := kind_eqb (tkind t) k.
Definition is_word (w : str) (t : token) : bool := is_kind KIdentifier t && str_eqb (tvalue t) w.

(** ** split *)
Fixpoint pop_until (k : kind) (stack : list kind) : list kind :=
  match stack with
  | [] => []
  | c :: r => if kind_eqb c k then r else pop_until k r
  end.

(** [split_toks search stack ts] = (tokens skipped over, tokens left), the latter starting
    with the token of kind [search] at bracket depth 0 (or empty). *)
Fixpoint split_toks (search : kind) (stack : list kind) (ts : list token) : list token * list token :=
  match ts with
  | [] => ([], [])
  | t :: r =>
    let k := tkind t in
    let continue_with st := let '(a, b) := split_toks search st r in (t :: a, b) in
    if kind_eqb k KLParen || kind_eqb k KLBracket then
      if kind_eqb search k then ([], ts)
      else continue_with ((if kind_eqb k KLParen then KRParen else KRBracket) :: stack)
    else if kind_eqb k KRParen || kind_eqb k KRBracket then
      match stack with
      | _ :: _ => continue_with (pop_until k stack)
      | [] => if kind_eqb search k then ([], ts) else continue_with []
      end
    else if kind_eqb k search then
      match stack with
      | [] => ([], ts)
      | _ => continue_with stack
      end
    else continue_with stack
  end.

Definition split (search : kind) (ts : list token) : list token * list token := split_toks search [] ts.

Fixpoint split_semi (ts : list token) : list token * list token :=
  match ts with
  | [] => ([], [])
  | t :: r => if is_kind KSemi t then ([], ts) else let '(a, b) := split_semi r in (t :: a, b)
  end.

(** [endSplit]: an error at the first unconsumed token of the sub-parser. *)
Definition end_split (ts : list token) : errs :=
  match ts with [] => [] | t :: _ => err_at (tstart t) end.

Section WithSource.
Variable srclen : nat.

(** position of the token [next()] would return (the EOF pseudo-token sits at [len(source)]) *)
Definition hd_pos (ts : list token) : nat := match ts with t :: _ => tstart t | [] => srclen end.

Definition mk_ident (t : token) : ident := mkIdent (tvalue t) (tok_span t) (is_kind KQuotedIdentifier t).

(** ** ident, qualifiedIdent *)
Definition p_ident (ts : list token) : option ident * list token * errs :=
  match ts with
  | t :: r =>
    if is_kind KIdentifier t || is_kind KQuotedIdentifier t then (Some (mk_ident t), r, [])
    else (None, ts, nf_at srclen)
  | [] => (None, [], nf_at srclen)
  end.

(** the `(. ident)*` tail of a qualified identifier *)
Fixpoint p_qual_tail (ts : list token) : list ident * list token * errs :=
  match ts with
  | d :: r =>
    if is_kind KDot d then
      match r with
      | t :: r' =>
        if is_kind KIdentifier t || is_kind KQuotedIdentifier t then
          let '(ps, rest, e) := p_qual_tail r' in (mk_ident t :: ps, rest, e)
        else ([], r, opaque (nf_at srclen))
      | [] => ([], [], opaque (nf_at srclen))
      end
    else ([], ts, [])
  | [] => ([], [], [])
  end.

Definition p_qualified (ts : list token) : option (list ident) * list token * errs :=
  match p_ident ts with
  | (Some i, r, _) =>
    let '(ps, rest, e) := p_qual_tail r in
    (if no_err e then Some (i :: ps) else None, rest, e)
  | (None, r, e) => (None, r, e)
  end.

Definition opt_map2 {A B C} (f : A -> B -> C) (a : option A) (b : option B) : option C :=
  match a, b with Some x, Some y => Some (f x y) | _, _ => None end.

Definition when_ok {A} (e : errs) (v : option A) : option A := if no_err e then v else None.

(** ** expressions (mutually recursive through bracketed sub-parsers; on [fuel]) *)
Fixpoint p_expr (fuel : nat) (ts : list token) : option expr * list token * errs :=
  match fuel with
  | O => (None, ts, fuel_err)
  | S f =>
    let '(x, r1, e1) := p_unary f ts in
    if is_nf e1 then (x, r1, e1)
    else
      let '(x', r2, e2) := p_trail f x 0%Z r1 in
      (when_ok (e1 ++ e2) x', r2, e1 ++ e2)
  end

with p_unary (fuel : nat) (ts : list token) : option expr * list token * errs :=
  match fuel with
  | O => (None, ts, fuel_err)
  | S f =>
    match ts with
    | [] => (None, [], nf_at srclen)
    | t :: r =>
      if is_kind KPlus t || is_kind KMinus t then
        let '(x, r1, e) := p_primary f r in
        (option_map (EUnary (tok_span t) (tkind t)) (when_ok e x), r1, opaque e)
      else p_primary f ts
    end
  end

with p_primary (fuel : nat) (ts : list token) : option expr * list token * errs :=
  match fuel with
  | O => (None, ts, fuel_err)
  | S f =>
    let '(x, r1, e) := p_inner f ts in
    if negb (no_err e) then (x, r1, e)
    else
      match r1 with
      | t :: r2 =>
        if is_kind KLBracket t then
          let '(sub, rest) := split KRBracket r2 in
          let '(i, subrest, ei) := p_expr f sub in
          let e1 := opaque ei ++ end_split subrest in
          match rest with
          | c :: rest' =>
            if is_kind KRBracket c then
              (when_ok e1 (opt_map2 (fun x i => EIndex x (tok_span t) i (tok_span c)) x i), rest', e1)
            else (None, rest', e1 ++ err_at (tstart c))
          | [] => (None, [], e1 ++ err_at srclen)
          end
        else (x, r1, [])
      | [] => (x, [], [])
      end
  end

with p_inner (fuel : nat) (ts : list token) : option expr * list token * errs :=
  match fuel with
  | O => (None, ts, fuel_err)
  | S f =>
    match ts with
    | [] => (None, [], nf_at srclen)
    | t :: r =>
      if is_kind KNumber t || is_kind KString t then
        (Some (ELit (tok_span t) (tkind t) (tvalue t)), r, [])
      else if is_kind KIdentifier t then
        match p_qualified ts with
        | (Some [i], r1, _) =>
          match r1 with
          | lp :: r2 =>
            if is_kind KLParen lp then
              let '(sub, rest) := split KRParen r2 in
              let '(args, subrest, ea) := p_expr_list f sub in
              let '(args, subrest, ea) :=
                if is_nf ea then (Some [], subrest, [])
                else if no_err ea then
                  match subrest with
                  | c :: sr => if is_kind KComma c then (args, sr, ea) else (args, subrest, ea)
                  | [] => (args, subrest, ea)
                  end
                else (args, subrest, ea) in
              let e1 := ea ++ end_split subrest in
              match rest with
              | c :: rest' =>
                if is_kind KRParen c then
                  (when_ok e1 (option_map (fun a => ECall i (tok_span lp) a (tok_span c)) args), rest', e1)
                else (None, rest, e1 ++ err_at (tstart c))
              | [] => (None, [], e1 ++ err_at srclen)
              end
            else (Some (EQual [i]), r1, [])
          | [] => (Some (EQual [i]), [], [])
          end
        | (ps, r1, e) => (option_map EQual ps, r1, e)
        end
      else if is_kind KQuotedIdentifier t then
        let '(ps, r1, e) := p_qualified ts in (option_map EQual ps, r1, e)
      else if is_kind KLParen t then
        let '(sub, rest) := split KRParen r in
        let '(x, subrest, ex) := p_expr f sub in
        let e1 := opaque ex ++ end_split subrest in
        match rest with
        | c :: rest' =>
          if is_kind KRParen c then
            (when_ok e1 (option_map (fun x => EParen (tok_span t) x (tok_span c)) x), rest', e1)
          else (None, rest', e1 ++ err_at (tstart c))
        | [] => (None, [], e1 ++ err_at srclen)
        end
      else (None, ts, nf_at (tstart t))
    end
  end

(** [exprList]: one or more comma-separated expressions. *)
with p_expr_list (fuel : nat) (ts : list token) : option (list expr) * list token * errs :=
  match fuel with
  | O => (None, ts, fuel_err)
  | S f =>
    let '(x, r1, e1) := p_expr f ts in
    if negb (no_err e1) then (None, r1, e1)
    else
      let '(xs, r2, e2) := p_expr_list_tail f r1 in
      (when_ok e2 (opt_map2 cons x xs), r2, e2)
  end

with p_expr_list_tail (fuel : nat) (ts : list token) : option (list expr) * list token * errs :=
  match fuel with
  | O => (None, ts, fuel_err)
  | S f =>
    match ts with
    | c :: r =>
      if is_kind KComma c then
        let '(x, r1, e1) := p_expr f r in
        if is_nf e1 then (Some [], ts, [])
        else if negb (no_err e1) then (None, r1, opaque e1)
        else
          let '(xs, r2, e2) := p_expr_list_tail f r1 in
          (when_ok e2 (opt_map2 cons x xs), r2, e2)
      else (Some [], ts, [])
    | [] => (Some [], [], [])
    end
  end

(** [exprBinaryTrail x minPrecedence] *)
with p_trail (fuel : nat) (x : option expr) (minp : Z) (ts : list token) : option expr * list token * errs :=
  match fuel with
  | O => (None, ts, fuel_err)
  | S f =>
    match ts with
    | [] => (x, [], [])
    | op1 :: r =>
      let prec1 := op_prec (tkind op1) in
      if (prec1 <? 0)%Z || (prec1 <? minp)%Z then (x, ts, [])
      else if is_kind KIn op1 then
        match r with
        | lp :: r1 =>
          if is_kind KLParen lp then
            let '(sub, rest) := split KRParen r1 in
            let '(vals, subrest, ev) := p_expr_list f sub in
            let e1 := opaque ev ++ end_split subrest in
            match rest with
            | c :: rest' =>
              if is_kind KRParen c then
                let x' := when_ok e1 (opt_map2 (fun x v => EIn x (tok_span op1) (tok_span lp) v (tok_span c)) x vals) in
                let '(x'', r2, e2) := p_trail f x' minp rest' in
                (when_ok (e1 ++ e2) x'', r2, e1 ++ e2)
              else (None, rest', e1 ++ err_at (tstart lp))
            | [] => (None, [], e1 ++ err_at (tstart lp))
            end
          else (None, r1, err_at (tstart lp))
        | [] => (None, [], err_at srclen)
        end
      else
        let '(y, r1, ey) := p_unary f r in
        let e1 := opaque ey in
        let '(y', r2, e2) := p_higher f y prec1 r1 in
        let x' := when_ok (e1 ++ e2) (opt_map2 (fun x y => EBin x (tok_span op1) (tkind op1) y) x y') in
        let '(x'', r3, e3) := p_trail f x' minp r2 in
        (when_ok (e1 ++ e2 ++ e3) x'', r3, e1 ++ e2 ++ e3)
    end
  end

(** the "resolve any higher precedence operators first" loop *)
with p_higher (fuel : nat) (y : option expr) (prec1 : Z) (ts : list token) : option expr * list token * errs :=
  match fuel with
  | O => (None, ts, fuel_err)
  | S f =>
    match ts with
    | [] => (y, [], [])
    | op2 :: _ =>
      let prec2 := op_prec (tkind op2) in
      if (prec2 <? 0)%Z || (prec2 <=? prec1)%Z then (y, ts, [])
      else
        let '(y', r1, e1) := p_trail f y (prec1 + 1)%Z ts in
        let '(y'', r2, e2) := p_higher f y' prec1 r1 in
        (when_ok (opaque e1 ++ e2) y'', r2, opaque e1 ++ e2)
    end
  end.

(** ** sort terms, row counts, columns *)
Definition p_sort_term (fuel : nat) (ts : list token) : option sort_term * list token * errs :=
  let '(x, r1, e1) := p_expr fuel ts in
  if negb (no_err e1) then (None, r1, e1)
  else
    let mk asc aspan nf nspan := option_map (fun x => mkSortTerm x asc aspan nf nspan) x in
    (* second stage: nulls first/last, given what asc/desc decided *)
    let nulls asc aspan nf0 (r : list token) :=
      match r with
      | t :: r' =>
        if is_word w_nulls t then
          match r' with
          | t2 :: r'' =>
            if is_word w_first t2 then (mk asc aspan true (Some (tstart t, tend t2)), r'', [])
            else if is_word w_last t2 then (mk asc aspan false (Some (tstart t, tend t2)), r'', [])
            else (None, r', err_at (tstart t2))
          | [] => (None, [], err_at srclen)
          end
        else (mk asc aspan nf0 None, r, [])
      | [] => (mk asc aspan nf0 None, [], [])
      end in
    match r1 with
    | [] => (mk false None false None, [], [])
    | t :: r =>
      if is_word w_asc t then nulls true (tok_span t) true r
      else if is_word w_desc t then nulls false (tok_span t) false r
      else if is_word w_nulls t then nulls false None false r1
      else (mk false None false None, r1, [])
    end.

Definition p_row_count (fuel : nat) (ts : list token) : option expr * list token * errs :=
  let '(x, r1, e1) := p_expr fuel ts in
  if negb (no_err e1) then (x, r1, e1)
  else
    match x with
    | Some (ELit _ k v) => if lit_is_integer k v then (x, r1, []) else (None, r1, err_nopos)
    | _ => (x, r1, [])
    end.

(** [extendColumn] / [summarizeColumn] *)
Definition p_ext_col (fuel : nat) (ts : list token) : option ext_col * list token * errs :=
  let named :=
    match p_ident ts with
    | (Some i, a :: r, _) => if is_kind KAssign a then Some (i, tok_span a, r) else None
    | _ => None
    end in
  match named with
  | Some (i, asp, r) =>
    let '(x, r1, e) := p_expr fuel r in
    (when_ok e (option_map (mkExtCol (Some i) asp) x), r1, opaque e)
  | None =>
    let '(x, r1, e) := p_expr fuel ts in
    (when_ok e (option_map (mkExtCol None None) x), r1, e)
  end.

Fixpoint p_sort_terms (n : nat) (fuel : nat) (ts : list token) : option (list sort_term) * list token * errs :=
  match n with
  | O => (None, ts, fuel_err)
  | S n' =>
    let '(t, r1, e1) := p_sort_term fuel ts in
    if negb (no_err e1) then (None, r1, opaque e1)
    else
      match r1 with
      | c :: r2 =>
        if is_kind KComma c then
          let '(tl, r3, e3) := p_sort_terms n' fuel r2 in
          (when_ok e3 (opt_map2 cons t tl), r3, e3)
        else (option_map (fun t => [t]) t, r1, [])
      | [] => (option_map (fun t => [t]) t, [], [])
      end
  end.

Fixpoint p_project_cols (n : nat) (fuel : nat) (ts : list token) : option (list proj_col) * list token * errs :=
  match n with
  | O => (None, ts, fuel_err)
  | S n' =>
    match p_ident ts with
    | (None, r, e) => (None, r, opaque e)
    | (Some name, r, _) =>
      let more r' (col : option proj_col) :=
        let '(tl, r3, e3) := p_project_cols n' fuel r' in
        (when_ok e3 (opt_map2 cons col tl), r3, e3) in
      match r with
      | [] => (Some [mkProjCol name None None], [], [])
      | sep :: r1 =>
        if is_kind KComma sep then more r1 (Some (mkProjCol name None None))
        else if is_kind KAssign sep then
          let '(x, r2, e2) := p_expr fuel r1 in
          if negb (no_err e2) then (None, r2, opaque e2)
          else
            let col := option_map (fun x => mkProjCol name (tok_span sep) (Some x)) x in
            match r2 with
            | [] => (option_map (fun c => [c]) col, [], [])
            | sep2 :: r3 => if is_kind KComma sep2 then more r3 col else (None, r3, err_nopos)
            end
        else (Some [mkProjCol name None None], r, [])
      end
    end
  end.

Fixpoint p_extend_cols (n : nat) (fuel : nat) (ts : list token) : option (list ext_col) * list token * errs :=
  match n with
  | O => (None, ts, fuel_err)
  | S n' =>
    let '(c, r1, e1) := p_ext_col fuel ts in
    if negb (no_err e1) then (None, r1, opaque e1)
    else
      match r1 with
      | sep :: r2 =>
        if is_kind KComma sep then
          let '(tl, r3, e3) := p_extend_cols n' fuel r2 in
          (when_ok e3 (opt_map2 cons c tl), r3, e3)
        else (option_map (fun c => [c]) c, r1, [])
      | [] => (option_map (fun c => [c]) c, [], [])
      end
  end.

(** first loop of [summarizeOperator]: returns the columns, the remaining tokens, the errors,
    whether the operator returns at once ([true]) or goes on to look for `by`, and whether
    the last thing read was a comma (then only `by` may follow). *)
Fixpoint p_summarize_cols (n : nat) (fuel : nat) (after_comma : bool) (ts : list token)
  : option (list ext_col) * list token * errs * bool * bool :=
  match n with
  | O => (None, ts, fuel_err, true, false)
  | S n' =>
    let '(c, r1, e1) := p_ext_col fuel ts in
    if is_nf e1 then (Some [], ts, [], false, after_comma)
    else if negb (no_err e1) then (None, r1, opaque e1, true, false)
    else
      match r1 with
      | [] => (option_map (fun c => [c]) c, [], [], true, false)
      | sep :: r2 =>
        if is_kind KComma sep then
          let '(tl, r3, e3, fin, tc) := p_summarize_cols n' fuel true r2 in
          (when_ok e3 (opt_map2 cons c tl), r3, e3, fin, tc)
        else (option_map (fun c => [c]) c, r1, [], false, false)
      end
  end.

(** second loop (after `by`) *)
Fixpoint p_group_cols (n : nat) (fuel : nat) (ts : list token) : option (list ext_col) * list token * errs :=
  match n with
  | O => (None, ts, fuel_err)
  | S n' =>
    let '(c, r1, e1) := p_ext_col fuel ts in
    if negb (no_err e1) then (None, r1, opaque e1)
    else
      match r1 with
      | [] => (option_map (fun c => [c]) c, [], [])
      | sep :: r2 =>
        if is_kind KComma sep then
          let '(tl, r3, e3) := p_group_cols n' fuel r2 in
          (when_ok e3 (opt_map2 cons c tl), r3, e3)
        else (option_map (fun c => [c]) c, r1, [])
      end
  end.

Definition p_render_prop (fuel : nat) (ts : list token) : option render_prop * list token * errs :=
  match p_ident ts with
  | (None, r, e) => (None, r, e)
  | (Some name, r, _) =>
    match r with
    | a :: r1 =>
      if is_kind KAssign a then
        let '(v, r2, e2) := p_expr fuel r1 in
        if negb (no_err e2) then (None, r2, e2)
        else (option_map (mkRenderProp name (tok_span a)) v, r2, [])
      else (None, r1, err_at (tstart a))
    | [] => (None, [], err_at srclen)
    end
  end.

(** the property loop of [renderOperator]: returns props, the span of `)`, rest, errors *)
Fixpoint p_render_props (n : nat) (fuel : nat) (ts : list token)
  : option (list render_prop * span) * list token * errs :=
  match n with
  | O => (None, ts, fuel_err)
  | S n' =>
    let '(p, r1, e1) := p_render_prop fuel ts in
    if negb (no_err e1) then (None, r1, opaque e1)
    else
      match r1 with
      | t :: r2 =>
        if is_kind KRParen t then (option_map (fun p => ([p], tok_span t)) p, r2, [])
        else if is_kind KComma t then
          let '(tl, r3, e3) := p_render_props n' fuel r2 in
          (when_ok e3 (opt_map2 (fun p tl => (p :: fst tl, snd tl)) p tl), r3, e3)
        else (None, r2, err_at (tstart t))
      | [] => (None, [], err_at srclen)
      end
  end.

(** ** tabular expressions and operators *)
Definition is_join_type (s : str) : bool := existsb (str_eqb s) join_types.

Fixpoint p_tabular (fuel : nat) (ts : list token) : option tabular * list token * errs :=
  match fuel with
  | O => (None, ts, fuel_err)
  | S f =>
    match p_ident ts with
    | (None, r, e) => (None, r, e)
    | (Some name, r, _) =>
      let '(ops, rest, e) := p_operators f r in
      (when_ok e (option_map (mkTab name) ops), rest, e)
    end
  end

with p_operators (fuel : nat) (ts : list token) : option (list operator) * list token * errs :=
  match fuel with
  | O => (None, ts, fuel_err)
  | S f =>
    match ts with
    | pipe :: r =>
      if is_kind KPipe pipe then
        let '(sub, rest) := split KPipe r in
        let '(op, e1) :=
          match sub with
          | [] => (None, err_at (tstart pipe))
          | name :: sr =>
            if negb (is_kind KIdentifier name) then (None, err_at (tstart name))
            else
              let '(op, subrest, eo, known) := p_operator f (tok_span pipe) name sr in
              if known then (op, eo ++ end_split subrest) else (None, eo)
          end in
        let '(ops, rest', e2) := p_operators f rest in
        (when_ok (e1 ++ e2) (opt_map2 cons op ops), rest', e1 ++ e2)
      else (Some [], ts, [])
    | [] => (Some [], [], [])
    end
  end

(** dispatch on the operator name; the last component is false for an unknown name
    (no [endSplit] check is made then) *)
with p_operator (fuel : nat) (pipe : span) (name : token) (ts : list token)
  : option operator * list token * errs * bool :=
  match fuel with
  | O => (None, ts, fuel_err, true)
  | S f =>
    let kw := tok_span name in
    let w := tvalue name in
    let n := S (length ts) in
    if str_eqb w w_count then (Some (OCount pipe kw), ts, [], true)
    else if str_eqb w w_where || str_eqb w w_filter then
      let '(x, r, e) := p_expr f ts in
      (when_ok e (option_map (OWhere pipe kw) x), r, opaque e, true)
    else if str_eqb w w_sort || str_eqb w w_order then
      match ts with
      | b :: r =>
        if is_kind KBy b then
          let '(terms, r1, e) := p_sort_terms n f r in
          (when_ok e (option_map (OSort pipe (Some (tstart name, tend b))) terms), r1, e, true)
        else (None, r, err_at (tstart b), true)
      | [] => (None, [], err_at srclen, true)
      end
    else if str_eqb w w_take || str_eqb w w_limit then
      let '(x, r, e) := p_row_count f ts in
      (when_ok e (option_map (OTake pipe kw) x), r, opaque e, true)
    else if str_eqb w w_top then
      let '(x, r, e) := p_row_count f ts in
      if negb (no_err e) then (None, r, opaque e, true)
      else
        match r with
        | b :: r1 =>
          if is_kind KBy b then
            let '(col, r2, e2) := p_sort_term f r1 in
            (when_ok e2 (opt_map2 (fun x c => OTop pipe kw x (tok_span b) c) x col), r2, opaque e2, true)
          else (None, r, err_at (tstart b), true)
        | [] => (None, [], err_at srclen, true)
        end
    else if str_eqb w w_project then
      let '(cols, r, e) := p_project_cols n f ts in
      (when_ok e (option_map (OProject pipe kw) cols), r, e, true)
    else if str_eqb w w_extend then
      let '(cols, r, e) := p_extend_cols n f ts in
      (when_ok e (option_map (OExtend pipe kw) cols), r, e, true)
    else if str_eqb w w_summarize then
      let '(cols, r, e, fin, tc) := p_summarize_cols n f false ts in
      if fin then (when_ok e (option_map (fun c => OSummarize pipe kw c None []) cols), r, e, true)
      else
        let ncols := match cols with Some c => length c | None => 1%nat end in
        let need_by := Nat.eqb ncols 0 || tc in
        match r with
        | b :: r1 =>
          if is_kind KBy b then
            let '(gs, r2, e2) := p_group_cols n f r1 in
            (when_ok e2 (opt_map2 (fun c g => OSummarize pipe kw c (tok_span b) g) cols gs), r2, e2, true)
          else if need_by then (None, r, err_at (tstart b), true)
          else (option_map (fun c => OSummarize pipe kw c None []) cols, r, [], true)
        | [] =>
          if need_by then (None, [], err_at srclen, true)
          else (option_map (fun c => OSummarize pipe kw c None []) cols, [], [], true)
        end
    else if str_eqb w w_join then
      match ts with
      | [] => (None, [], err_at srclen, true)
      | t0 :: r0 =>
        (* after the optional `kind = flavor` clause *)
        let after_kind (ksp kasp : span) (flavor : option ident) (r2 : list token) (e0 : errs) :=
          match r2 with
          | lp :: r3 =>
            if is_kind KLParen lp then
              let '(sub, rest) := split KRParen r3 in
              let '(rtab, subrest, er) := p_tabular f sub in
              let e1 := e0 ++ opaque er ++ end_split subrest in
              match rest with
              | rp :: r4 =>
                if is_kind KRParen rp then
                  match r4 with
                  | on :: r5 =>
                    if is_word w_on on then
                      let '(conds, r6, ec) := p_expr_list f r5 in
                      let e2 := e1 ++ opaque ec in
                      (when_ok e2 (opt_map2 (fun rt c =>
                         OJoin pipe kw ksp kasp flavor (tok_span lp) (tsrc rt) (tops rt) (tok_span rp) (tok_span on) c)
                         rtab conds), r6, e2, true)
                    else (None, r5, e1 ++ err_at (tstart on), true)
                  | [] => (None, [], e1 ++ err_at srclen, true)
                  end
                else (None, r4, e1 ++ err_at (tstart rp), true)
              | [] => (None, [], e1 ++ err_at srclen, true)
              end
            else (None, r3, e0 ++ err_at (tstart lp), true)
          | [] => (None, [], e0 ++ err_at srclen, true)
          end in
        if is_word w_kind t0 then
          match r0 with
          | a :: r1 =>
            if is_kind KAssign a then
              match r1 with
              | fl :: r2 =>
                if is_kind KIdentifier fl then
                  after_kind (tok_span t0) (tok_span a) (Some (mk_ident fl)) r2
                             (if is_join_type (tvalue fl) then [] else err_at (tstart fl))
                else (None, r2, err_at (tstart fl), true)
              | [] => (None, [], err_at srclen, true)
              end
            else (None, r1, err_at (tstart a), true)
          | [] => (None, [], err_at srclen, true)
          end
        else after_kind None None None ts []
      end
    else if str_eqb w w_as then
      let '(i, r, e) := p_ident ts in
      (option_map (OAs pipe kw) i, r, opaque e, true)
    else if str_eqb w w_render then
      match p_ident ts with
      | (None, r, _) => (None, r, err_at (tstart name), true)
      | (Some chart, r, _) =>
        match r with
        | wt :: r1 =>
          if is_word w_with wt then
            match r1 with
            | lp :: r2 =>
              if is_kind KLParen lp then
                let '(ps, r3, e) := p_render_props n f r2 in
                (when_ok e (option_map (fun ps => ORender pipe kw chart (tok_span wt) (tok_span lp) (fst ps) (snd ps)) ps),
                 r3, e, true)
              else (None, r2, err_at (tstart lp), true)
            | [] => (None, [], err_at srclen, true)
            end
          else (Some (ORender pipe kw chart None None [] None), r, [], true)
        | [] => (Some (ORender pipe kw chart None None [] None), [], [], true)
        end
      end
    else (None, ts, err_at (tstart name), false)
  end.

(** ** statements *)
Definition p_let (fuel : nat) (ts : list token) : option stmt * list token * errs :=
  match ts with
  | kw :: r =>
    if is_word w_let kw then
      match p_ident r with
      | (None, r1, e) => (None, r1, opaque e)
      | (Some name, r1, _) =>
        match r1 with
        | a :: r2 =>
          if is_kind KAssign a then
            let '(x, r3, e) := p_expr fuel r2 in
            (when_ok e (option_map (SLet (tok_span kw) name (tok_span a)) x), r3, opaque e)
          else (None, r2, err_at (tstart a))
        | [] => (None, [], err_at srclen)
        end
      end
    else (None, ts, nf_at (tstart kw))
  | [] => (None, [], nf_at srclen)
  end.

Definition p_statement (fuel : nat) (ts : list token) : option stmt * list token * errs :=
  let '(s, r, e) := p_let fuel ts in
  if negb (is_nf e) then (s, r, e)
  else
    let '(t, r, e) := p_tabular fuel ts in
    (option_map STab t, r, e).

(** the statement loop of [Parse]; [acc] is resultError so far *)
Fixpoint p_statements (n : nat) (fuel : nat) (ts : list token) (acc : errs) : option (list stmt) * errs :=
  match n with
  | O => (None, fuel_err)
  | S n' =>
    let '(sub, rest) := split_semi ts in
    let '(s, subrest, e) := p_statement fuel sub in
    let '(here, acc') :=
      if is_nf e then
        match subrest with
        | t :: _ => (Some [], e ++ err_at (tstart t))
        | [] => (Some [], acc)
        end
      else (option_map (fun s => [s]) s, acc ++ opaque e ++ end_split subrest) in
    match rest with
    | _ :: rest' =>
      let '(tl, acc'') := p_statements n' fuel rest' acc' in
      (opt_map2 (@app stmt) here tl, acc'')
    | [] => (here, acc')
    end
  end.

End WithSource.

Inductive parse_result :=
| ParseOk (ss : list stmt)
| ParseErr (e : errs)
| ParseOutOfFuel
| ParseInternal.   (* no tree although no error: a defect of the model itself *)

Definition parse_fuel (ntoks : nat) : nat := 6 * ntoks + 12.

Definition parse_tokens (srclen : nat) (ts : list token) : parse_result :=
  let '(ss, e) := p_statements srclen (S (length ts)) (parse_fuel (length ts)) ts [] in
  if existsb efuel e then ParseOutOfFuel
  else if no_err e then match ss with Some l => ParseOk l | None => ParseInternal end
  else ParseErr e.

Definition parse (s : str) : parse_result := parse_tokens (length s) (scan s).

(** ** line/column of a byte offset ([linecol]; columns count runes, tab stops of 8) *)
Fixpoint linecol_go (fuel : nat) (l : str) (line col : nat) : nat * nat :=
  match fuel with
  | O => (line, col)
  | S f =>
    match l with
    | [] => (line, col)
    | _ =>
      let '(c, w) := decode l in
      let r := skipn w l in
      if c =? 10 then linecol_go f r (S line) 1
      else if c =? 9 then linecol_go f r line (col + (8 - (col - 1) mod 8))
      else linecol_go f r line (S col)
    end
  end.

Definition linecol (s : str) (pos : nat) : nat * nat :=
  let p := firstn pos s in linecol_go (S (length p)) p 1 1.
