(** * Compile: executable model of pql.go (expression writer, subquery split,
    per-operator SELECT rendering, statement loop).  The writer emits a list of
    [piece]s; [render] concatenates them exactly as the Go code drives its
    strings.Builder. *)
From PQL Require Export Model.Parser.
From Coq Require Import String.
Local Open Scope list_scope.
Local Notation length := List.length (only parsing).

Inductive piece :=
| PLit (s : str)          (* fixed template text *)
| PIdent (name : str)     (* quoteIdentifier(name) *)
| PStr (v : str)          (* quoteSQLString(v) *)
| PNum (v : str)          (* a number literal's normalised spelling *)
| PFunc (name : str)      (* name of a function passed through *)
| PRaw (s : str)          (* caller-supplied parameter snippet, verbatim *)
| PHole (s : str).        (* "NULL /* unhandled ... */" fallback text *)

(** [quoteIdentifier]: double quotes; inner double quotes doubled, backslashes doubled. *)
Definition quote_with (q : N) (s : str) : str :=
  q :: flat_map (fun b => if b =? q then [q; q] else if b =? 92 then [92; 92] else [b]) s ++ [q].
Definition quote_ident (s : str) : str := quote_with 34 s.
Definition quote_sql_string (s : str) : str := quote_with 39 s.

Definition render_piece (p : piece) : str :=
  match p with
  | PLit s => s
  | PIdent n => quote_ident n
  | PStr v => quote_sql_string v
  | PNum v => v
  | PFunc n => n
  | PRaw s => s
  | PHole s => s
  end.
Definition render (ps : list piece) : str := flat_map render_piece ps.

Definition lit (s : string) : list piece := [PLit (L s)].

Inductive mode := ModeDefault | ModeJoin | ModeLet.
Definition mode_eqb (a b : mode) : bool :=
  match a, b with
  | ModeDefault, ModeDefault | ModeJoin, ModeJoin | ModeLet, ModeLet => true
  | _, _ => false
  end.

(** scope: name -> SQL (as pieces); most recent binding first. *)
Definition scope := list (str * list piece).
Fixpoint scope_get (sc : scope) (n : str) : option (list piece) :=
  match sc with
  | [] => None
  | (k, v) :: r => if str_eqb k n then Some v else scope_get r n
  end.

Record ctx := mkCtx { c_scope : scope; c_mode : mode }.

(** compile errors carry the start of their span, or nothing *)
Inductive res (A : Type) := Ok (a : A) | Err (pos : option nat).
Arguments Ok {A}. Arguments Err {A}.
Definition bind {A B} (r : res A) (f : A -> res B) : res B :=
  match r with Ok a => f a | Err p => Err p end.
Notation "'do' x <- r ; k" := (bind r (fun x => k)) (at level 200, x name, r at level 100, k at level 200).

Definition span_start (s : span) : option nat :=
  match s with Some (a, b) => if Nat.leb a b then Some a else None | None => None end.
Definition span_end_ (s : span) : nat := match s with Some (_, b) => b | None => 0 end.
Definition span_start_ (s : span) : nat := match s with Some (a, _) => a | None => 0 end.

Definition w_left : str := Eval vm_compute in L "$left".
Definition w_right : str := Eval vm_compute in L "$right".
Definition w_true : str := Eval vm_compute in L "true".
Definition w_innerunique : str := Eval vm_compute in L "innerunique".
Definition w_inner : str := Eval vm_compute in L "inner".
Definition w_leftouter : str := Eval vm_compute in L "leftouter".

(** [hasJoinTerms]: does an identifier named [n] occur (function names excepted)? *)
Fixpoint mentions (n : str) (e : expr) : bool :=
  match e with
  | EQual ps => existsb (fun i => str_eqb (iname i) n) ps
  | EBin x _ _ y => mentions n x || mentions n y
  | EUnary _ _ x => mentions n x
  | EIn x _ _ vs _ => mentions n x || existsb (mentions n) vs
  | EParen _ x _ => mentions n x
  | ELit _ _ _ => false
  | ECall _ _ args _ => existsb (mentions n) args
  | EIndex x _ i _ => mentions n x || mentions n i
  end.

(** How an operand is wrapped: [writeExpression], [writeExpressionMaybeParen], [writeOperand]. *)
Inductive wrap := WPlain | WMaybe | WOperand.

Fixpoint strip_parens (e : expr) : expr :=
  match e with EParen _ x _ => strip_parens x | _ => e end.

(** does [writeExpressionMaybeParen] put parentheses around (paren-free) [e]? *)
Definition complex (e : expr) : bool :=
  match e with
  | EQual _ | EUnary _ _ _ | ELit _ _ _ => false
  | ECall f _ _ _ => match known_func (iname f) with Some (_, true) => true | _ => false end
  | _ => true
  end.

Definition needs_wrap (w : wrap) (e : expr) : bool :=
  match w with
  | WPlain => false
  | WMaybe => complex e
  | WOperand => match e with EUnary _ _ _ => true | _ => complex e end
  end.

Definition ident_is_alias (i : ident) : bool :=
  negb (iquoted i) && (str_eqb (iname i) w_left || str_eqb (iname i) w_right).

(** the parts of a qualified identifier, dot-separated and quoted *)
Fixpoint write_parts (m : mode) (first : bool) (ps : list ident) : res (list piece) :=
  match ps with
  | [] => Ok []
  | p :: r =>
    if ident_is_alias p && negb (mode_eqb m ModeJoin) then Err (span_start (ispan p))
    else
      do tl <- write_parts m false r;
      Ok ((if first then [] else lit ".") ++ PIdent (iname p) :: tl)
  end.

Definition arity_ok (r : arity_rule) (n : nat) : bool :=
  match r with
  | ArityExactly k => Nat.eqb n k
  | ArityAtLeast k => Nat.leb k n
  | ArityAny => true
  end.

Fixpoint join_pieces (sep : list piece) (l : list (list piece)) : list piece :=
  match l with
  | [] => []
  | [x] => x
  | x :: r => x ++ sep ++ join_pieces sep r
  end.

Fixpoint sequence {A} (l : list (res A)) : res (list A) :=
  match l with
  | [] => Ok []
  | x :: r => do a <- x; do tl <- sequence r; Ok (a :: tl)
  end.

(** how the template of a writer uses argument [i]: [Some maybe_paren], or [None] if unused *)
Definition arg_use (t : list tpart) (i : nat) : option bool :=
  fold_left (fun acc p =>
    match acc with
    | Some _ => acc
    | None =>
      match p with
      | T_Lit _ => None
      | T_Arg mp j => if Nat.eqb i j then Some mp else None
      | T_Rest j _ mp => if Nat.leb j i then Some mp else None
      end
    end) t None.

(** instantiate a writer template with the written arguments, binding them in template
    order (so the first failing argument in output order decides the error) *)
Fixpoint fill_template (t : list tpart) (args : list (res (list piece))) : res (list piece) :=
  match t with
  | [] => Ok []
  | T_Lit s :: r => do tl <- fill_template r args; Ok (PLit s :: tl)
  | T_Arg _ i :: r => do a <- nth i args (Ok []); do tl <- fill_template r args; Ok (a ++ tl)
  | T_Rest i sep _ :: r =>
    do rest <- sequence (skipn i args);
    do tl <- fill_template r args;
    Ok (flat_map (fun a => PLit sep :: a) rest ++ tl)
  end.

Fixpoint wx (c : ctx) (w : wrap) (e : expr) {struct e} : res (list piece) :=
  match e with
  | EParen _ x _ => wx c w x
  | _ =>
    let body : res (list piece) :=
      match e with
      | EParen _ x _ => Ok []
      | EQual ps =>
        let m := c_mode c in
        let generic := write_parts m true ps in
        match ps with
        | [p] =>
          if negb (iquoted p) then
            match scope_get (c_scope c) (iname p) with
            | Some sql => Ok sql
            | None =>
              match assoc_str builtin_idents (iname p) with
              | Some sql => Ok [PLit sql]
              | None => if mode_eqb m ModeLet then Err (span_start (ispan p)) else generic
              end
            end
          else if mode_eqb m ModeLet then Err (span_start (ispan p)) else generic
        | _ => if mode_eqb m ModeLet then Err (span_start (gspan (g_expr e))) else generic
        end
      | ELit _ k v =>
        match k with
        | KNumber => Ok [PNum v]
        | KString => Ok [PStr v]
        | _ => Ok [PHole (L "NULL /* unhandled literal */")]
        end
      | EUnary _ op x =>
        do px <- wx c WOperand x;
        Ok ((match op with KPlus => lit "+" | KMinus => lit "-" | _ => [PHole (L "/* unhandled unary op */ ")] end) ++ px)
      | EBin x _ op y =>
        match op with
        | KEq =>
          let plain_eq :=
            mode_eqb (c_mode c) ModeJoin &&
            ((mentions w_left x || mentions w_left y) && (mentions w_right x || mentions w_right y)) in
          do px <- wx c WMaybe x; do py <- wx c WMaybe y;
          if plain_eq then Ok (px ++ lit " = " ++ py)
          else Ok (lit "coalesce(" ++ px ++ lit " = " ++ py ++ lit ", FALSE)")
        | KNE =>
          do px <- wx c WMaybe x; do py <- wx c WMaybe y;
          Ok (lit "coalesce(" ++ px ++ lit " <> " ++ py ++ lit ", FALSE)")
        | KCaseInsensitiveEq =>
          do px <- wx c WPlain x; do py <- wx c WPlain y;
          Ok (lit "lower(" ++ px ++ lit ") = lower(" ++ py ++ lit ")")
        | KCaseInsensitiveNE =>
          do px <- wx c WPlain x; do py <- wx c WPlain y;
          Ok (lit "lower(" ++ px ++ lit ") <> lower(" ++ py ++ lit ")")
        | _ =>
          match binop_sql op with
          | Some sqlop =>
            do px <- wx c WMaybe x; do py <- wx c WMaybe y;
            Ok (px ++ lit " " ++ [PLit sqlop] ++ lit " " ++ py)
          | None => Ok [PHole (L "NULL /* unhandled binary op */ ")]
          end
        end
      | EIn x _ _ vs _ =>
        do px <- wx c WMaybe x;
        do pvs <- sequence (map (wx c WMaybe) vs);
        Ok (px ++ lit " IN (" ++ join_pieces (lit ", ") pvs ++ lit ")")
      | EIndex x _ i _ =>
        do px <- wx c WOperand x; do pi <- wx c WPlain i;
        Ok (px ++ lit "[" ++ pi ++ lit "]")
      | ECall f lp args rp =>
        match known_func (iname f) with
        | Some (wr, _) =>
          if negb (arity_ok (writer_arity wr) (length args))
          then Err (if Nat.leb (span_end_ lp) (span_start_ rp) then Some (span_end_ lp) else None)
          else
            let t := writer_template wr in
            let written :=
              (fix go (i : nat) (l : list expr) : list (res (list piece)) :=
                 match l with
                 | [] => []
                 | a :: r =>
                   match arg_use t i with
                   | Some true => wx c WMaybe a
                   | Some false => wx c WPlain a
                   | None => Ok []
                   end :: go (S i) r
                 end) 0%nat args in
            fill_template t written
        | None =>
          do pargs <- sequence (map (wx c WPlain) args);
          Ok (PFunc (iname f) :: lit "(" ++ join_pieces (lit ", ") pargs ++ lit ")")
        end
      end in
    if needs_wrap w e then do b <- body; Ok (lit "(" ++ b ++ lit ")") else body
  end.

Definition wexpr (c : ctx) (e : expr) := wx c WPlain e.
Definition wexpr_mp (c : ctx) (e : expr) := wx c WMaybe e.
Definition woperand (c : ctx) (e : expr) := wx c WOperand e.

(** ** join conditions *)
Definition bare_name (sc : scope) (e : expr) : option ident :=
  match e with
  | EQual [p] =>
    if iquoted p then None
    else match assoc_str builtin_idents (iname p) with
         | Some _ => None
         | None => match scope_get sc (iname p) with Some _ => None | None => Some p end
         end
  | _ => None
  end.

Definition rewrite_simple_cond (sc : scope) (e : expr) : expr :=
  match bare_name sc e with
  | Some p => EBin (EQual [mkIdent w_left None false; p]) None KEq (EQual [mkIdent w_right None false; p])
  | None => e
  end.

Definition build_join_cond (sc : scope) (conds : list expr) : expr :=
  match conds with
  | [] => EQual [mkIdent w_true None false]
  | c0 :: r => fold_left (fun x y => EBin x None KAnd (rewrite_simple_cond sc y)) r (rewrite_simple_cond sc c0)
  end.

(** ** subqueries *)
(** what a subquery reads from: a table or an earlier subquery by name, or a join of two of them
    (the condition is kept both as the expression built by [build_join_cond] and as written) *)
Inductive ssource :=
| SrcName (n : str)
| SrcJoin (unique : bool) (left : str) (left_outer : bool) (right : str) (cond : expr) (cond_sql : list piece).

Definition render_source (s : ssource) : list piece :=
  match s with
  | SrcName n => [PIdent n]
  | SrcJoin unique l outer r _ cond =>
    (if unique then lit "(SELECT DISTINCT * FROM " else []) ++ [PIdent l] ++ (if unique then lit ")" else [])
    ++ lit " AS ""$left""" ++ (if outer then lit " LEFT JOIN " else lit " JOIN ") ++ [PIdent r]
    ++ lit " AS ""$right"" ON " ++ cond
  end.

Record subq := mkSubq
  { sq_name : str; sq_source : ssource; sq_op : option operator;
    sq_sort : option (list sort_term); sq_take : option expr }.

Definition subquery_name (i : nat) : str := L "__subquery" ++ nat_to_dec i.

Definition last_opt {A} (l : list A) : option A := match rev l with x :: _ => Some x | [] => None end.

(** [chainSubquery]: reads from the previous subquery of this pipeline, else from the table *)
Definition chain_subquery (dst : list subq) (dst_start : nat) (src : ident) : subq :=
  let source :=
    if Nat.ltb dst_start (length dst)
    then match last_opt dst with Some s => SrcName (sq_name s) | None => SrcName [] end
    else SrcName (iname src) in
  mkSubq (subquery_name (length dst)) source None None None.

Definition set_last (dst : list subq) (f : subq -> subq) : list subq :=
  match rev dst with
  | s :: r => rev (f s :: r)
  | [] => []
  end.

Definition state_of (dst : list subq) (dst_start : nat) : split_state :=
  if Nat.eqb (length dst) dst_start then
    {| ss_nil := true; ss_can_attach := false; ss_has_sort := false; ss_has_take := false |}
  else
    match last_opt dst with
    | Some s =>
      {| ss_nil := false;
         ss_can_attach := match sq_op s with Some o => can_attach_sort (op_nkind o) | None => can_attach_sort_default end;
         ss_has_sort := match sq_sort s with Some _ => true | None => false end;
         ss_has_take := match sq_take s with Some _ => true | None => false end |}
    | None => {| ss_nil := true; ss_can_attach := false; ss_has_sort := false; ss_has_take := false |}
    end.

Fixpoint fold_res {A B} (f : A -> B -> res A) (l : list B) (a : A) : res A :=
  match l with
  | [] => Ok a
  | x :: r => do a' <- f a x; fold_res f r a'
  end.

(** one step of the loop of [splitQueries] *)
Fixpoint split_op (sc : scope) (dst_start : nat) (src : ident) (dst : list subq) (o : operator) {struct o}
  : res (list subq) :=
  let fresh := chain_subquery dst dst_start src in
  let st := state_of dst dst_start in
  match o with
  | OAs _ _ name =>
    Ok (dst ++ [mkSubq (iname name) (sq_source fresh) (Some o) None None])
  | OSort _ _ terms =>
    let dst' := if split_cond_sort st then dst ++ [fresh] else dst in
    Ok (set_last dst' (fun s => mkSubq (sq_name s) (sq_source s) (sq_op s) (Some terms) (sq_take s)))
  | OTake _ _ n =>
    let dst' := if split_cond_take st then dst ++ [fresh] else dst in
    Ok (set_last dst' (fun s => mkSubq (sq_name s) (sq_source s) (sq_op s) (sq_sort s) (Some n)))
  | OTop _ _ n _ col =>
    let dst' := if split_cond_top st then dst ++ [fresh] else dst in
    Ok (set_last dst' (fun s => mkSubq (sq_name s) (sq_source s) (sq_op s) (Some [col]) (Some n)))
  | OJoin _ _ _ _ flavor _ rsrc rops _ _ conds =>
    let left_from_sub := Nat.ltb dst_start (length dst) in
    let left_name := match last_opt dst with Some s => sq_name s | None => [] end in
    do dst1 <- (fix go (l : list operator) (d : list subq) : res (list subq) :=
                  match l with
                  | [] => Ok d
                  | o' :: r => do d' <- split_op sc (length dst) rsrc d o'; go r d'
                  end) rops dst;
    let dst1 := if Nat.eqb (length dst1) (length dst) then dst1 ++ [chain_subquery dst1 (length dst) rsrc] else dst1 in
    let right_name := match last_opt dst1 with Some s => sq_name s | None => [] end in
    let flavor_name := match flavor with Some f => iname f | None => w_innerunique end in
    let unique := str_eqb flavor_name w_innerunique in
    let left_src := if left_from_sub then left_name else iname src in
    do outer <- (if str_eqb flavor_name w_inner || unique then Ok false
                 else if str_eqb flavor_name w_leftouter then Ok true
                 else Err (match flavor with Some f => span_start (ispan f) | None => None end));
    let cond_expr := build_join_cond sc conds in
    do cond <- wexpr (mkCtx sc ModeJoin) cond_expr;
    let source := SrcJoin unique left_src outer right_name cond_expr cond in
    Ok (dst1 ++ [mkSubq (subquery_name (length dst1)) source None None None])
  | _ =>
    Ok (dst ++ [mkSubq (sq_name fresh) (sq_source fresh) (Some o) None None])
  end.

Definition split_queries (sc : scope) (dst : list subq) (t : tabular) : res (list subq) :=
  do dst1 <- fold_res (split_op sc (length dst) (tsrc t)) (tops t) dst;
  Ok (if Nat.eqb (length dst1) (length dst) then dst1 ++ [chain_subquery dst1 (length dst) (tsrc t)] else dst1).

(** ** subquery.write *)
Section Write.
Variable source : str.

Definition expr_span (e : expr) : span := gspan (g_expr e).

Definition implicit_name (e : expr) : str :=
  match expr_span e with
  | Some (a, b) => slice source a b
  | None => []
  end.

Definition col_alias (c : ext_col) : list piece :=
  lit " AS " ++ [PIdent (match ec_name c with Some i => iname i | None => implicit_name (ec_x c) end)].

Definition write_ext_cols (c : ctx) (cols : list ext_col) : res (list (list piece)) :=
  sequence (map (fun col => do px <- wexpr c (ec_x col); Ok (px ++ col_alias col)) cols).

Definition render_value (e : expr) : str :=
  match e with
  | ELit _ _ v => v
  | EQual (p :: _) => iname p
  | _ => []
  end.

Definition write_sort (c : ctx) (terms : list sort_term) : res (list piece) :=
  do ts <- sequence (map (fun t =>
      do px <- wexpr c (st_x t);
      Ok (px ++ (if st_asc t then lit " ASC" else lit " DESC")
             ++ (if st_nullsfirst t then lit " NULLS FIRST" else lit " NULLS LAST"))) terms);
  Ok (lit " ORDER BY " ++ join_pieces (lit ", ") ts).

Definition write_subq (c : ctx) (s : subq) : res (list piece) :=
  let src := render_source (sq_source s) in
  do body <-
    match sq_op s with
    | None | Some (OAs _ _ _) => Ok (lit "SELECT * FROM " ++ src)
    | Some (OProject _ _ cols) =>
      do cs <- sequence (map (fun col =>
          do px <- match pc_x col with
                   | None => wexpr c (EQual [pc_name col])
                   | Some x => wexpr c x
                   end;
          Ok (px ++ lit " AS " ++ [PIdent (iname (pc_name col))])) cols);
      Ok (lit "SELECT " ++ join_pieces (lit ", ") cs ++ lit " FROM " ++ src)
    | Some (OExtend _ _ cols) =>
      do cs <- write_ext_cols c cols;
      Ok (lit "SELECT *" ++ flat_map (fun x => lit ", " ++ x) cs ++ lit " FROM " ++ src)
    | Some (OSummarize _ _ cols _ groupby) =>
      do gs <- write_ext_cols c groupby;
      do cs <- write_ext_cols c cols;
      do gb <- (match groupby with
                | [] => Ok []
                | _ => do ks <- sequence (map (fun col => wexpr c (ec_x col)) groupby);
                       Ok (lit " GROUP BY " ++ join_pieces (lit ", ") ks)
                end);
      Ok (lit "SELECT " ++ join_pieces (lit ", ") (gs ++ cs) ++ lit " FROM " ++ src ++ gb)
    | Some (OWhere _ _ p) =>
      do px <- wexpr c p;
      Ok (lit "SELECT * FROM " ++ src ++ lit " WHERE " ++ px)
    | Some (OCount _ _) => Ok (lit "SELECT COUNT(*) AS ""count()"" FROM " ++ src)
    | Some (ORender _ _ chart _ _ props _) =>
      Ok ([PLit (L "SELECT *," ++ [10] ++ L "    "); PStr (iname chart)] ++ lit " as ""render_type"""
          ++ flat_map (fun p => [PLit ([44; 10] ++ L "    "); PStr (render_value (rp_value p))] ++ lit " as "
                                ++ [PIdent (L "render_prop_" ++ iname (rp_name p))]) props
          ++ [PLit ([10] ++ L "FROM ")] ++ src)
    | Some _ => Ok [PHole (L "SELECT NULL /* unsupported operator */")]
    end;
  do srt <- (match sq_sort s with Some terms => write_sort c terms | None => Ok [] end);
  do tk <- (match sq_take s with Some n => do pn <- wexpr c n; Ok (lit " LIMIT " ++ pn) | None => Ok [] end);
  Ok (body ++ srt ++ tk).

End Write.

(** ** the statement loop of Compile *)
Inductive cresult :=
| COk (ps : list piece)
| CParseErr (e : errs)
| CErr (pos : option nat)
| CFuel
| CInternal.

Fixpoint stmt_loop (sc : scope) (q : option tabular) (ss : list stmt) : res (scope * option tabular) :=
  match ss with
  | [] => Ok (sc, q)
  | STab t :: r =>
    match q with
    | Some _ => Err (span_start (gspan (g_tabular t)))
    | None => stmt_loop sc (Some t) r
    end
  | SLet _ name _ x :: r =>
    match q with
    | Some _ => stmt_loop sc q r
    | None =>
      do v <- woperand (mkCtx sc ModeLet) x;
      stmt_loop ((iname name, v) :: sc) q r
    end
  end.

Fixpoint write_ctes (source : str) (c : ctx) (ctes : list subq) : res (list piece) :=
  match ctes with
  | [] => Ok []
  | s :: r =>
    do body <- write_subq source c s;
    do tl <- write_ctes source c r;
    Ok ([PIdent (sq_name s)] ++ lit " AS (" ++ body ++ lit ")"
        ++ (match r with [] => [PLit [10]] | _ => [PLit ([44; 10] ++ L "     ")] end) ++ tl)
  end.

Definition compile_stmts (source : str) (params : list (str * str)) (ss : list stmt) : res (list piece) :=
  let sc0 : scope := map (fun kv => (fst kv, [PRaw (snd kv)])) params in
  do st <- stmt_loop sc0 None ss;
  match snd st with
  | None => Err None
  | Some t =>
    let sc := fst st in
    do subs <- split_queries sc [] t;
    let c := mkCtx sc ModeDefault in
    match rev subs with
    | [] => Err None
    | q :: rctes =>
      let ctes := rev rctes in
      do w <- write_ctes source c ctes;
      do body <- write_subq source c q;
      Ok ((match ctes with [] => [] | _ => lit "WITH " end) ++ w ++ body ++ lit ";")
    end
  end.

Definition compile (params : list (str * str)) (source : str) : cresult :=
  match parse source with
  | ParseOk ss =>
    match compile_stmts source params ss with
    | Ok ps => COk ps
    | Err p => CErr p
    end
  | ParseErr e => CParseErr e
  | ParseOutOfFuel => CFuel
  | ParseInternal => CInternal
  end.
