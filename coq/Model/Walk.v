(** * Walk: the explicit-stack traversal of parser/ast.go, as a machine over the generic
    tree, parametrised by the generated [walk_children] table. *)
From PQL Require Export Model.Ast.

(** what gets pushed: a node, or a nil pointer of a given static type
    ([None]: a nil interface value) *)
Inductive witem := WNode (n : gnode) | WNil (k : option nkind).

Inductive visit := VNode (n : gnode) | VNil.

Inductive wresult := WOk (vs : list visit) | WPanic (vs : list visit) | WFuel.

Fixpoint field_type (fs : list (fname * ftype)) (f : fname) : option ftype :=
  match fs with
  | [] => None
  | (g, t) :: r => if fname_eqb g f then Some t else field_type r f
  end.

Definition nil_item (k : nkind) (f : fname) : witem :=
  match field_type (ast_fields k) f with
  | Some (FT_Ptr t) => WNil (Some t)
  | _ => WNil None
  end.

Definition push_items_field (k : nkind) (fs : list (fname * gfield)) (f : fname) (guarded : bool) : list witem :=
  match assoc_f fs f with
  | Some (GNode (Some c)) => [WNode c]
  | Some (GNode None) => if guarded then [] else [nil_item k f]
  | _ => []
  end.

(** the items one push statement adds, in the order they are appended to the stack *)
Definition push_items (k : nkind) (fs : list (fname * gfield)) (p : push) : list witem :=
  match p with
  | P_Field f guarded => push_items_field k fs f guarded
  | P_SliceRev f =>
    match assoc_f fs f with Some (GSlice cs) => map WNode (rev cs) | _ => [] end
  | P_SliceFwd f =>
    match assoc_f fs f with Some (GSlice cs) => map WNode cs | _ => [] end
  | P_SliceRevEach f subs =>
    match assoc_f fs f with
    | Some (GSlice cs) =>
      flat_map (fun c => match c with GN ck cfs =>
        flat_map (fun sg => push_items_field ck cfs (fst sg) (snd sg)) subs end) (rev cs)
    | _ => []
    end
  end.

(** One run of the loop body: pop, visit, push the children.  The stack's head is its top;
    appending items i1..ik in order leaves ik on top. [visitor i n] is the answer of the
    visitor to its i-th call (counting from 0). *)
Fixpoint walk_loop (fuel : nat) (visitor : nat -> gnode -> bool) (calls : nat) (stack : list witem)
                   (acc : list visit) : wresult :=
  match fuel with
  | O => WFuel
  | S f =>
    match stack with
    | [] => WOk (rev acc)
    | WNil (Some N_Ident) :: rest =>
      (* `case *Ident: visit(n)` with a nil n *)
      walk_loop f visitor (S calls) rest (VNil :: acc)
    | WNil (Some _) :: rest => WPanic (rev (VNil :: acc))     (* visit(nil), then a nil dereference *)
    | WNil None :: rest => WPanic (rev acc)                   (* default case: unknown Node type <nil> *)
    | WNode (GN k fs as n) :: rest =>
      match walk_children k with
      | None => WPanic (rev acc)
      | Some pushes =>
        let descend := visitor calls n in
        let items := if descend then flat_map (push_items k fs) pushes else [] in
        walk_loop f visitor (S calls) (rev items ++ rest) (VNode n :: acc)
      end
    end
  end.

Fixpoint gsize (n : gnode) : nat :=
  match n with
  | GN _ fs => S (list_sum (map (fun fv => match fv with (_, v) => fsize v end) fs))
  end
with fsize (v : gfield) : nat :=
  match v with
  | GNode (Some c) => gsize c
  | GSlice cs => list_sum (map gsize cs)
  | _ => 1
  end.

Definition walk_fuel (n : gnode) : nat := S (S (gsize n)).

Definition walk (visitor : nat -> gnode -> bool) (n : gnode) : wresult :=
  walk_loop (walk_fuel n) visitor 0 [WNode n] [].
