(** * C03 — joins combine the pipeline so far with the right-hand pipeline. *)
From PQL Require Import Model.Compile Model.Trans Spec.PqlSem Spec.PipeSem
     Proofs.TableFacts Proofs.PipelineFacts Proofs.DecFacts Proofs.JoinFacts Proofs.SemanticsFacts.
From Coq Require Import String.
Local Open Scope list_scope.
Local Open Scope nat_scope.
Local Notation length := List.length (only parsing).

(** The statement.  [run_pipeline] (coq/Spec/PipeSem.v) applies the operators left to right; at a
    join it evaluates the parenthesised right-hand pipeline on its own (on the database, plus the
    names bound by `as` so far), and joins the table so far (left) with it: the default kind first
    removes duplicate left rows, kind=inner keeps every pair for which all conditions are true,
    kind=leftouter also keeps unmatched left rows padded with NULLs; a bare column name k stands
    for $left.k == $right.k and several conditions are AND-ed ([build_join_cond]); operators after
    the join apply to the join result.  Whenever that yields a table r, evaluating the subqueries
    built by splitQueries - any nesting depth, any number of joins - yields r.
    The naming condition [ok]: table names and `as` names are not of the generated shape
    __subquery..., `as` names are pairwise different and different from the table names. *)
Theorem C03_joins : forall F sc source db t subqs,
  fenv_ok F ->
  ok (tsrc t) [] (flat_map as_names (tops t)) (flat_map table_names (tops t)) ->
  split_queries sc [] t = Ok subqs ->
  forall r, run_pipeline F (ev_pql F sc) source sc db t = Some r ->
            eval_statement F (ev_sql F sc) source db subqs = Some r.
Proof. exact pipeline_semantics_joins. Qed.
Print Assumptions C03_joins.

(** the same for any reading of expressions shared by the two sides (no axiom) *)
Theorem C03_joins_generic : forall F ev source sc db0 t subqs,
  ok (tsrc t) [] (flat_map as_names (tops t)) (flat_map table_names (tops t)) ->
  split_queries sc [] t = Ok subqs ->
  forall r, run_pipeline F ev source sc db0 t = Some r -> eval_statement F ev source db0 subqs = Some r.
Proof. exact split_queries_denotes_pipeline_joins. Qed.
Print Assumptions C03_joins_generic.

(** generated subquery names are pairwise different *)
Theorem C03_generated_names_distinct : forall i j, subquery_name i = subquery_name j -> i = j.
Proof. exact subquery_name_inj. Qed.
Print Assumptions C03_generated_names_distinct.

(** the join kinds the parser admits are exactly the three the compiler implements *)
Theorem C03_join_kinds :
  forallb (fun s => str_eqb s w_inner || str_eqb s w_innerunique || str_eqb s w_leftouter) join_types = true.
Proof. exact join_types_handled. Qed.
Print Assumptions C03_join_kinds.

(** non-vacuity: the naming condition holds of an ordinary program with nested joins and an `as` *)
Example C03_ok_example :
  let i (s : string) := mkIdent (L s) None false in
  let inner := OJoin None None None None None None (i "C"%string) [] None None [] in
  let t := mkTab (i "A"%string) [OAs None None (i "X"%string); OJoin None None None None None None (i "B"%string) [inner] None None []] in
  ok (tsrc t) [] (flat_map as_names (tops t)) (flat_map table_names (tops t)).
Proof.
  cbv zeta. unfold ok. cbn [tsrc tops flat_map as_names table_names app iname].
  split; [reflexivity|]. split; [repeat constructor; cbn; tauto|]. split.
  - intros n [<-|[]]. repeat split; try reflexivity; cbn; intuition discriminate.
  - intros n [<-|[<-|[]]]; reflexivity.
Qed.

(** ** the printed text denotes the subqueries (token level) *)
From PQL Require Import Spec.SqlRead Proofs.ReadBack Proofs.ReadBackStmt Proofs.SubqWf.

(** What Compile prints for a program without parameters, viewed as SQL tokens, is read by the
    reference statement reader (coq/Spec/SqlRead.v; the dialect's precedence for every
    expression) as exactly the subqueries [split_queries] made of the query -- the very objects
    whose evaluation the semantic theorem above proves equal to the pipeline's meaning -- with
    every let-bound name replaced by the tree of its value.  Together: text -> subqueries ->
    meaning, for every program whose expressions the parser could build. *)
Theorem C03_compiled_program_rereads : forall source ss ps, stmts_wf ss -> compile_stmts source [] ss = Ok ps ->
  exists sc t subs q rctes,
    stmt_loop [] None ss = Ok (sc, Some t) /\ split_queries sc [] t = Ok subs /\ rev subs = q :: rctes /\
    let '(names, vals) := let_vals [] (fun _ => XWord []) false ss in
    exists ts, ptoks ps = Some ts /\
      Conv (fun fx => read_stmt fx ts)
           (map (fun s => (sq_name s, den_select source sc vals s)) (rev rctes), den_select source sc vals q).
Proof. exact compiled_program_rereads. Qed.
Print Assumptions C03_compiled_program_rereads.

(** ** the join condition, spelled out: a bare column name k means $left.k == $right.k, several
    conditions are AND-ed from left to right (the expression the semantic theorem evaluates) *)
Theorem C03_bare_key : forall sc p, iquoted p = false -> assoc_str builtin_idents (iname p) = None ->
  scope_get sc (iname p) = None ->
  rewrite_simple_cond sc (EQual [p]) =
  EBin (EQual [mkIdent w_left None false; p]) None KEq (EQual [mkIdent w_right None false; p]).
Proof. intros sc p Hq Hb Hs. unfold rewrite_simple_cond, bare_name. rewrite Hq, Hb, Hs. reflexivity. Qed.
Print Assumptions C03_bare_key.

Theorem C03_conditions_anded : forall sc c1 c2 c3,
  build_join_cond sc [c1; c2; c3] =
  EBin (EBin (rewrite_simple_cond sc c1) None KAnd (rewrite_simple_cond sc c2)) None KAnd (rewrite_simple_cond sc c3).
Proof. reflexivity. Qed.
Print Assumptions C03_conditions_anded.

(** a name bound by a let or a parameter, a constant, a quoted or a dotted name is an ordinary
    condition, not a key *)
Theorem C03_bound_name_is_not_a_key : forall sc p v, iquoted p = false -> scope_get sc (iname p) = Some v ->
  rewrite_simple_cond sc (EQual [p]) = EQual [p].
Proof.
  intros sc p v Hq Hs. unfold rewrite_simple_cond, bare_name. rewrite Hq, Hs.
  destruct (assoc_str builtin_idents (iname p)); reflexivity.
Qed.
Print Assumptions C03_bound_name_is_not_a_key.
