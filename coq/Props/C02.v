(** * C02 — tabular operators take effect in pipeline order (partial). *)
From PQL Require Import Model.Compile Model.Trans Spec.PqlSem Spec.PipeSem Proofs.TableFacts Proofs.PipelineFacts Proofs.SemanticsFacts.
From Coq Require Import String.
Local Open Scope list_scope.
Local Open Scope nat_scope.
Local Notation length := List.length (only parsing).

(** a sort is attached to the previous query only when that query exists, keeps its column
    names, and carries neither a sort nor a limit yet *)
Theorem C02_sort_attach : forall s, split_cond_sort s = false <->
  (ss_nil s = false /\ ss_can_attach s = true /\ ss_has_sort s = false /\ ss_has_take s = false).
Proof. exact sort_attach_spec. Qed.
Print Assumptions C02_sort_attach.

(** a limit is attached only when the previous query exists, keeps its names and has no limit yet
    (it may follow that query's own sort: ORDER BY then LIMIT) *)
Theorem C02_take_attach : forall s, split_cond_take s = false <->
  (ss_nil s = false /\ ss_can_attach s = true /\ ss_has_take s = false).
Proof. exact take_attach_spec. Qed.
Print Assumptions C02_take_attach.

Theorem C02_top_attach : forall s, split_cond_top s = false <->
  (ss_nil s = false /\ ss_can_attach s = true /\ ss_has_sort s = false /\ ss_has_take s = false).
Proof. exact top_attach_spec. Qed.
Print Assumptions C02_top_attach.

(** project, summarize, as and render never take a sort or limit into their own SELECT *)
Theorem C02_can_attach : forallb (fun k => Bool.eqb (can_attach_sort k) (negb (renames_columns k))) all_nkinds = true
                         /\ can_attach_sort_default = true.
Proof. exact can_attach_spec. Qed.
Print Assumptions C02_can_attach.

(** The core statement, for pipelines without joins (joins: C03).  Whenever applying the operators
    one after another, left to right, with PQL's own reading of the expressions, yields a table
    [r], evaluating the emitted subqueries (each SELECT: source, its operator, ORDER BY, LIMIT;
    later subqueries see earlier ones by name) with the SQL reading of the emitted expressions
    yields the same [r]: same columns, same names, same order; same rows, same order. *)
Theorem C02_pipeline : forall F sc source db t subqs,
  fenv_ok F ->
  forallb (fun o => negb (is_join o)) (tops t) = true ->
  split_queries sc [] t = Ok subqs ->
  forall r, run_pipeline F (ev_pql F sc) source sc db t = Some r ->
            eval_statement F (ev_sql F sc) source db subqs = Some r.
Proof. exact pipeline_semantics. Qed.
Print Assumptions C02_pipeline.

(** the same for any reading of expressions shared by the two sides (no axiom) *)
Theorem C02_pipeline_generic : forall F ev source sc db0 src t subqs,
  forallb (fun o => negb (is_join o)) (tops t) = true -> tsrc t = src ->
  split_queries sc [] t = Ok subqs ->
  forall r, run_pipeline F ev source sc db0 t = Some r -> eval_statement F ev source db0 subqs = Some r.
Proof. exact split_queries_denotes_pipeline. Qed.
Print Assumptions C02_pipeline_generic.

(** ** the printed text denotes the subqueries (token level) *)
From PQL Require Import Spec.SqlRead Proofs.ReadBack Proofs.ReadBackStmt Proofs.SubqWf.

(** What Compile prints for a program without parameters, viewed as SQL tokens, is read by the
    reference statement reader (coq/Spec/SqlRead.v; the dialect's precedence for every
    expression) as exactly the subqueries [split_queries] made of the query -- the very objects
    whose evaluation the semantic theorem above proves equal to the pipeline's meaning -- with
    every let-bound name replaced by the tree of its value.  Together: text -> subqueries ->
    meaning, for every program whose expressions the parser could build. *)
Theorem C02_compiled_program_rereads : forall source ss ps, stmts_wf ss -> compile_stmts source [] ss = Ok ps ->
  exists sc t subs q rctes,
    stmt_loop [] None ss = Ok (sc, Some t) /\ split_queries sc [] t = Ok subs /\ rev subs = q :: rctes /\
    let '(names, vals) := let_vals [] (fun _ => XWord []) false ss in
    exists ts, ptoks ps = Some ts /\
      Conv (fun fx => read_stmt fx ts)
           (map (fun s => (sq_name s, den_select source sc vals s)) (rev rctes), den_select source sc vals q).
Proof. exact compiled_program_rereads. Qed.
Print Assumptions C02_compiled_program_rereads.

(** ** from the source text *)
From PQL Require Import Proofs.ParsedWf.

(** End to end on the model: for every source that parses (no pass-through function called NOT
    or CASE -- finding F1) and compiles without parameters, the output's tokens are read by the
    reference reader as the subqueries of the query (C02_pipeline / C03_joins give their meaning). *)
Theorem C02_compile_rereads : forall s ss ps, parse s = ParseOk ss -> Forall names_ok_stmt ss -> compile [] s = COk ps ->
  exists sc t subs q rctes,
    stmt_loop [] None ss = Ok (sc, Some t) /\ split_queries sc [] t = Ok subs /\ rev subs = q :: rctes /\
    let '(names, vals) := let_vals [] (fun _ => XWord []) false ss in
    exists ts, ptoks ps = Some ts /\
      Conv (fun fx => read_stmt fx ts)
           (map (fun sq => (sq_name sq, den_select s sc vals sq)) (rev rctes), den_select s sc vals q).
Proof. exact compile_rereads. Qed.
Print Assumptions C02_compile_rereads.

(** the premises are satisfiable: a program with lets, a join, grouping, sorting and a limit *)
Example C02_compile_rereads_nonvacuous :
  exists ss ps, parse (L "let n = 3; T | where a == -b + 1 and c in (1, n) | join kind=leftouter (U | summarize m = max(x) by k) on k | sort by m desc | take n") = ParseOk ss
             /\ compile [] (L "let n = 3; T | where a == -b + 1 and c in (1, n) | join kind=leftouter (U | summarize m = max(x) by k) on k | sort by m desc | take n") = COk ps.
Proof. eexists _, _. split; vm_compute; reflexivity. Qed.

(** ** top N by k equals sort by k then take N (Proofs/TopFacts.v): the two spellings are split into
    the very same subqueries, whatever was built before them (by cases on the generated attach
    conditions), hence compile to the same text; the interpreter of Spec/PipeSem.v defines top as
    take after sort, so C02_pipeline applies to both alike *)
From PQL Require Import Proofs.TopFacts.
Theorem C02_top_is_sort_then_take : forall sc ds src dst p k n b col, (ds <= List.length dst)%nat ->
  split_op sc ds src dst (OTop p k n b col) =
  (do d <- split_op sc ds src dst (OSort p k [col]); split_op sc ds src d (OTake p k n)).
Proof. exact top_is_sort_then_take. Qed.
Print Assumptions C02_top_is_sort_then_take.

Theorem C02_top_spelling : forall sc src pre post p k n b col,
  split_queries sc [] (mkTab src (pre ++ OTop p k n b col :: post)) =
  split_queries sc [] (mkTab src (pre ++ OSort p k [col] :: OTake p k n :: post)).
Proof. exact top_spelling. Qed.
Print Assumptions C02_top_spelling.

(** ** sort-term defaults and summarize's column order (Proofs/SortFacts.v) *)
From PQL Require Import Spec.FlattenStmt Proofs.SortFacts.

(** in the grammar the parser is proved sound and complete for ([toks_sort_term]): no `asc`/`desc`
    means descending; no `nulls first`/`nulls last` means nulls first exactly when ascending - i.e.
    the default is descending with nulls last, ascending puts nulls first unless stated *)
Theorem C02_sort_term_defaults : forall t ts, toks_sort_term t ts ->
  (st_ascspan t = None -> st_asc t = false) /\ (st_nullsspan t = None -> st_nullsfirst t = st_asc t).
Proof. exact sort_term_defaults. Qed.
Print Assumptions C02_sort_term_defaults.

(** each flag is printed as such *)
Theorem C02_sort_term_rendering : forall c t px, wexpr c (st_x t) = Ok px ->
  write_sort c [t] = Ok (lit " ORDER BY " ++ px ++ (if st_asc t then lit " ASC" else lit " DESC")
                          ++ (if st_nullsfirst t then lit " NULLS FIRST" else lit " NULLS LAST")).
Proof. exact sort_term_rendering. Qed.
Print Assumptions C02_sort_term_rendering.

(** summarize lists its group keys before its aggregates *)
Theorem C02_summarize_keys_first : forall source c n src p k cols b gs g cs gb,
  write_ext_cols source c gs = Ok g -> write_ext_cols source c cols = Ok cs ->
  (match gs with
   | [] => Ok []
   | _ => do ks <- sequence (map (fun col => wexpr c (ec_x col)) gs); Ok (lit " GROUP BY " ++ join_pieces (lit ", ") ks)
   end) = Ok gb ->
  write_subq source c (mkSubq n src (Some (OSummarize p k cols b gs)) None None) =
  Ok ((lit "SELECT " ++ join_pieces (lit ", ") (g ++ cs) ++ lit " FROM " ++ render_source src ++ gb) ++ [] ++ []).
Proof. exact summarize_keys_first. Qed.
Print Assumptions C02_summarize_keys_first.
