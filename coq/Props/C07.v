(** * C07 — the parser builds the tree the documented grammar dictates (partial). *)
From PQL Require Import Model.Parser Proofs.TableFacts.
From Coq Require Import String.
Local Open Scope list_scope.
Local Open Scope nat_scope.
Local Notation length := List.length (only parsing).

(** binary operators group by the documented levels: or < and < comparisons (with in) < + - < * / %,
    and no other token is a binary operator *)
Theorem C07_precedence_levels : forall k, op_prec k = documented_level k.
Proof. exact op_prec_spec. Qed.
Print Assumptions C07_precedence_levels.
