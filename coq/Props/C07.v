(** * C07 — the parser builds the tree the documented grammar dictates. *)
From PQL Require Import Model.Parser Spec.Grammar Proofs.TableFacts Proofs.ParserSoundStmt Proofs.ParserComplete Proofs.ParserCompleteStmt Proofs.ParserGramStmt.
From Coq Require Import String ZArith.
Local Open Scope list_scope.
Local Open Scope nat_scope.
Local Notation length := List.length (only parsing).

(** binary operators group by the documented levels: or < and < comparisons (with in) < + - < * / %,
    and no other token is a binary operator *)
Theorem C07_precedence_levels : forall k, op_prec k = documented_level k.
Proof. exact op_prec_spec. Qed.
Print Assumptions C07_precedence_levels.

(** For every program of the grammar (Spec/Grammar.v: [gprog] -- binary operators grouped by
    precedence and to the left, `in` a complete test that any following operator takes as a whole,
    signs on primaries, one index on a name/literal/call/parenthesis, integer literal row counts,
    no tabular statement starting with the word let) and every source whose token sequence stands
    for it (Spec/FlattenStmt.v: [toks_prog] -- every operator with its arguments, names, flags and
    defaults, statements separated by semicolons, empty statements leaving no trace), parsing
    succeeds and yields exactly that program, positions included. *)
Theorem C07_parse_complete : forall s ss, toks_prog ss (scan s) -> gprog ss = true -> parse s = ParseOk ss.
Proof. exact parse_complete. Qed.
Print Assumptions C07_parse_complete.

(** the same for any token sequence (the tree depends on the tokens only: white space and comments
    never reach the parser, and the synonyms where/filter, sort/order, take/limit stand for the same
    operator in [toks_op]) *)
Theorem C07_parse_tokens_complete : forall srclen ss ts, toks_prog ss ts -> gprog ss = true -> parse_tokens srclen ts = ParseOk ss.
Proof. exact parse_tokens_complete. Qed.
Print Assumptions C07_parse_tokens_complete.

(** expressions: in any position where nothing that could continue the expression follows *)
Theorem C07_expression_complete : forall srclen e used rest f, toks_expr e used -> gexpr e = true -> follows (-1) rest ->
  4 * length used + 4 <= f -> p_expr srclen f (used ++ rest) = (Some e, rest, []).
Proof. exact p_expr_complete. Qed.
Print Assumptions C07_expression_complete.

(** the grammar is unambiguous: a token sequence stands for at most one program of the grammar,
    and that is the one the parser returns *)
Theorem C07_grammar_unambiguous : forall ts ss1 ss2, toks_prog ss1 ts -> toks_prog ss2 ts -> gprog ss1 = true -> gprog ss2 = true -> ss1 = ss2.
Proof.
  intros ts ss1 ss2 H1 H2 G1 G2.
  pose proof (parse_tokens_complete 0 ss1 ts H1 G1) as E1. pose proof (parse_tokens_complete 0 ss2 ts H2 G2) as E2.
  rewrite E1 in E2. injection E2 as E. exact E.
Qed.
Print Assumptions C07_grammar_unambiguous.

(** conversely, every program Parse returns is a program of the grammar ... *)
Theorem C07_accepted_is_grammar : forall s ss, parse s = ParseOk ss -> gprog ss = true.
Proof. exact parse_gram. Qed.
Print Assumptions C07_accepted_is_grammar.

(** ... so Parse is characterised exactly: it accepts the sources whose token sequence stands for a
    program of the grammar, and returns that program (unique by [C07_grammar_unambiguous]) *)
Theorem C07_parse_characterised : forall s ss, parse s = ParseOk ss <-> (toks_prog ss (scan s) /\ gprog ss = true).
Proof. exact parse_characterised. Qed.
Print Assumptions C07_parse_characterised.

(** the hypotheses are satisfiable: a program mixing every precedence level, `in`, signs, an index,
    a call, sort flags, a join and two statements is accepted, is a program of the grammar, and
    (soundness) its tokens stand for the returned tree *)
Example C07_example :
  exists ss, parse (L "let n = -1; T | where a or b and c == d + e * f in (1, 2) - -g[0] | sort by x asc nulls last, y | join kind=inner (U | take 3) on k, $left.a == $right.b | summarize count(), by k") = ParseOk ss
    /\ gprog ss = true /\ length ss = 2.
Proof. eexists. split; [vm_compute; reflexivity|]. split; vm_compute; reflexivity. Qed.
