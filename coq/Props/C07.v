(** * C07 — the parser builds the tree the documented grammar dictates. *)
From PQL Require Import Model.Parser Spec.Grammar Proofs.TableFacts Proofs.ParserSoundStmt Proofs.ParserComplete Proofs.ParserCompleteStmt Proofs.ParserGramStmt.
From Coq Require Import String ZArith.
Local Open Scope list_scope.
Local Open Scope nat_scope.
Local Notation length := List.length (only parsing).

(** binary operators group by the documented levels: or < and < comparisons (with in) < + - < * / %,
    and no other token is a binary operator *)
Theorem C07_precedence_levels : forall k, op_prec k = documented_level k.
Proof. exact op_prec_spec. Qed.
Print Assumptions C07_precedence_levels.

(** For every program of the grammar (Spec/Grammar.v: [gprog] -- binary operators grouped by
    precedence and to the left, `in` a complete test that any following operator takes as a whole,
    signs on primaries, one index on a name/literal/call/parenthesis, integer literal row counts,
    no tabular statement starting with the word let) and every source whose token sequence stands
    for it (Spec/FlattenStmt.v: [toks_prog] -- every operator with its arguments, names, flags and
    defaults, statements separated by semicolons, empty statements leaving no trace), parsing
    succeeds and yields exactly that program, positions included. *)
Theorem C07_parse_complete : forall s ss, toks_prog ss (scan s) -> gprog ss = true -> parse s = ParseOk ss.
Proof. exact parse_complete. Qed.
Print Assumptions C07_parse_complete.

(** the same for any token sequence (the tree depends on the tokens only: white space and comments
    never reach the parser, and the synonyms where/filter, sort/order, take/limit stand for the same
    operator in [toks_op]) *)
Theorem C07_parse_tokens_complete : forall srclen ss ts, toks_prog ss ts -> gprog ss = true -> parse_tokens srclen ts = ParseOk ss.
Proof. exact parse_tokens_complete. Qed.
Print Assumptions C07_parse_tokens_complete.

(** expressions: in any position where nothing that could continue the expression follows *)
Theorem C07_expression_complete : forall srclen e used rest f, toks_expr e used -> gexpr e = true -> follows (-1) rest ->
  4 * length used + 4 <= f -> p_expr srclen f (used ++ rest) = (Some e, rest, []).
Proof. exact p_expr_complete. Qed.
Print Assumptions C07_expression_complete.

(** the grammar is unambiguous: a token sequence stands for at most one program of the grammar,
    and that is the one the parser returns *)
Theorem C07_grammar_unambiguous : forall ts ss1 ss2, toks_prog ss1 ts -> toks_prog ss2 ts -> gprog ss1 = true -> gprog ss2 = true -> ss1 = ss2.
Proof.
  intros ts ss1 ss2 H1 H2 G1 G2.
  pose proof (parse_tokens_complete 0 ss1 ts H1 G1) as E1. pose proof (parse_tokens_complete 0 ss2 ts H2 G2) as E2.
  rewrite E1 in E2. injection E2 as E. exact E.
Qed.
Print Assumptions C07_grammar_unambiguous.

(** conversely, every program Parse returns is a program of the grammar ... *)
Theorem C07_accepted_is_grammar : forall s ss, parse s = ParseOk ss -> gprog ss = true.
Proof. exact parse_gram. Qed.
Print Assumptions C07_accepted_is_grammar.

(** ... so Parse is characterised exactly: it accepts the sources whose token sequence stands for a
    program of the grammar, and returns that program (unique by [C07_grammar_unambiguous]) *)
Theorem C07_parse_characterised : forall s ss, parse s = ParseOk ss <-> (toks_prog ss (scan s) /\ gprog ss = true).
Proof. exact parse_characterised. Qed.
Print Assumptions C07_parse_characterised.

(** the hypotheses are satisfiable: a program mixing every precedence level, `in`, signs, an index,
    a call, sort flags, a join and two statements is accepted, is a program of the grammar, and
    (soundness) its tokens stand for the returned tree *)
Example C07_example :
  exists ss, parse (L "let n = -1; T | where a or b and c == d + e * f in (1, 2) - -g[0] | sort by x asc nulls last, y | join kind=inner (U | take 3) on k, $left.a == $right.b | summarize count(), by k") = ParseOk ss
    /\ gprog ss = true /\ length ss = 2.
Proof. eexists. split; [vm_compute; reflexivity|]. split; vm_compute; reflexivity. Qed.

(** ** the tree does not depend on layout *)
From PQL Require Import Proofs.Layout Proofs.Relayout.

(** Two sources whose token sequences agree in kinds and values (offsets aside) parse alike: when
    the first parses to [ss], the second parses to [ss] with every recorded offset renamed - the
    i-th token's start (end) in the first layout to the i-th token's start (end) in the second - and
    nothing else changed: same operators, arguments, names, flags, defaults. *)
Theorem C07_tree_depends_on_tokens_only : forall s s' ss, same_kv (scan s) (scan s') -> parse s = ParseOk ss ->
  parse s' = ParseOk (rn_prog (starts_map (scan s) (scan s')) (ends_map (scan s) (scan s')) ss).
Proof. exact parse_relayout. Qed.
Print Assumptions C07_tree_depends_on_tokens_only.

Theorem C07_acceptance_depends_on_tokens_only : forall s s', same_kv (scan s) (scan s') ->
  ((exists ss, parse s = ParseOk ss) <-> (exists ss', parse s' = ParseOk ss')).
Proof. exact parse_relayout_iff. Qed.
Print Assumptions C07_acceptance_depends_on_tokens_only.

(** kinds and values are functions of the token texts: two sources with the same token texts, in
    whatever layout, have the same tree up to that renaming *)
Theorem C07_same_token_texts_same_tree : forall s1 s2 ss, map (tok_text s1) (scan s1) = map (tok_text s2) (scan s2) ->
  parse s1 = ParseOk ss ->
  parse s2 = ParseOk (rn_prog (starts_map (scan s1) (scan s2)) (ends_map (scan s1) (scan s2)) ss).
Proof. exact parse_same_texts. Qed.
Print Assumptions C07_same_token_texts_same_tree.

(** and such layouts exist for every spacing: lay the token texts of [s] out again with any gap in
    front ([gap]: ASCII white space and complete // comments), a gap beginning with a white-space
    byte between consecutive tokens and optionally after the last one; the result is scanned into
    the same tokens (no text is fused, split or swallowed), hence parses to the same tree *)
Theorem C07_spaced_layout_same_tree : forall s ss g0 items body, gap g0 -> spaced items body ->
  map (fun i : str * kind * str => fst (fst i)) items = map (tok_text s) (scan s) ->
  parse s = ParseOk ss ->
  parse (g0 ++ body) = ParseOk (rn_prog (starts_map (scan s) (scan (g0 ++ body))) (ends_map (scan s) (scan (g0 ++ body))) ss).
Proof. exact parse_spaced. Qed.
Print Assumptions C07_spaced_layout_same_tree.

(** the renaming leaves the grammar predicate - hence grouping, arguments, flags - untouched *)
Theorem C07_renaming_keeps_structure : forall fs fe ss, gprog (rn_prog fs fe ss) = gprog ss.
Proof. exact rn_gprog. Qed.
Print Assumptions C07_renaming_keeps_structure.

(** non-vacuity: `T|where a>1` laid out as ` T |<newline> //c<newline> where a > 1 ` *)
Example C07_layout_example :
  let s := L "T|where a>1" in
  exists g0 items body ss, gap g0 /\ spaced items body /\
    map (fun i : str * kind * str => fst (fst i)) items = map (tok_text s) (scan s) /\
    parse s = ParseOk ss /\ length (g0 ++ body) = 22.
Proof.
  assert (W32 : ws 32) by (right; left; reflexivity). assert (W10 : ws 10) by (left; reflexivity).
  assert (G1 : sep_gap [32%N]) by (exists 32%N, []; split; [reflexivity|split; [exact W32|constructor]]).
  assert (G2 : sep_gap (10%N :: 32%N :: 47%N :: 47%N :: [99%N] ++ [10%N])).
  { exists 10%N, (32%N :: 47%N :: 47%N :: [99%N] ++ [10%N]). split; [reflexivity|]. split; [exact W10|].
    apply (gap_cons [32%N]); [apply lu_ws; exact W32|].
    rewrite <- (app_nil_r (47%N :: 47%N :: [99%N] ++ [10%N])). apply gap_cons; [apply lu_comment; intros [H|[]]; discriminate H|constructor]. }
  eexists [32%N],
    [(L "T", KIdentifier, L "T"); (L "|", KPipe, []); (L "where", KIdentifier, L "where"); (L "a", KIdentifier, L "a"); (L ">", KGT, []); (L "1", KNumber, L "1")],
    _, _.
  split; [apply (gap_cons [32%N] []); [apply lu_ws; exact W32|constructor]|].
  split.
  { apply sp_cons; [split; [vm_compute; reflexivity|discriminate]|exact G1|].
    apply sp_cons; [split; [vm_compute; reflexivity|discriminate]|exact G2|].
    apply sp_cons; [split; [vm_compute; reflexivity|discriminate]|exact G1|].
    apply sp_cons; [split; [vm_compute; reflexivity|discriminate]|exact G1|].
    apply sp_cons; [split; [vm_compute; reflexivity|discriminate]|exact G1|].
    apply sp_cons; [split; [vm_compute; reflexivity|discriminate]|exact G1|apply sp_nil]. }
  split; [vm_compute; reflexivity|]. split; vm_compute; reflexivity.
Qed.
