(** * C14 — compilation is a pure, deterministic, thread-safe function (partial). *)
From PQL Require Import Model.Compile Gen.Shared Proofs.SharedFacts.
From Coq Require Import String.
Local Open Scope list_scope.
Local Open Scope nat_scope.
Local Notation length := List.length (only parsing).

(** the only write to any package-level variable of pql, parser or cmd/pql is the once-only
    initialisation of knownFunctions.m *)
Theorem C14_shared_writes : forallb site_is_once_init write_sites = true.
Proof. exact shared_writes_only_once_init. Qed.
Print Assumptions C14_shared_writes.

(** ** every interleaving *)
From PQL Require Import Proofs.Concurrent.

(** Calls as threads over the package-level state: a thread may take exactly the steps the code
    can take on shared state -- the guarded once-initialisation, reads of the table after it,
    and a write through any site of the generated [write_sites] table that is not that
    initialisation.  For any number of calls and any schedule (any interleaving, any repetition),
    every value any call reads is the initialised table: no call observes another call or the
    absence of initialisation, so what a call computes depends on its own arguments only.  The
    theorem is about the table the translator regenerates from pql.go, parser and cmd/pql on every
    run: a new package-level write site (a cache, a scratch buffer, a counter) makes the
    hypothesis [shared_writes_only_once_init] false and this proof fail. *)
Theorem C14_calls_do_not_interfere : forall (V : Type) (table : V) sched ths,
  Forall (wf_thread V write_sites) ths -> Forall (fun t => passed V t = false) ths ->
  Forall (fun o => snd o = Some table) (snd (run V table sched ths)).
Proof. exact compile_calls_do_not_interfere. Qed.
Print Assumptions C14_calls_do_not_interfere.
