(** * C14 — compilation is a pure, deterministic, thread-safe function (partial). *)
From PQL Require Import Model.Compile Gen.Shared Proofs.TableFacts.
From Coq Require Import String.
Local Open Scope list_scope.
Local Open Scope nat_scope.
Local Notation length := List.length (only parsing).

(** the only write to any package-level variable of pql, parser or cmd/pql is the once-only
    initialisation of knownFunctions.m *)
Theorem C14_shared_writes : forallb site_is_once_init write_sites = true.
Proof. exact shared_writes_only_once_init. Qed.
Print Assumptions C14_shared_writes.
