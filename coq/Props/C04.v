(** * C04 — literals and names are transmitted as data, never as SQL syntax (partial). *)
From PQL Require Import Model.Compile Spec.SqlLex Proofs.QuoteFacts Proofs.SqlGlue Proofs.ReadBack Proofs.SqlGlueToks.
From Coq Require Import String.
Local Open Scope list_scope.

(** a quoted identifier is read back by the target dialect's lexer as exactly one quoted-identifier
    token carrying the original bytes, whatever they are (quotes, backslashes, comment markers,
    semicolons, NUL, non-UTF-8) *)
Theorem C04_ident_roundtrip : forall s, sql_lex ClickHouse (quote_ident s) = Some [SQuoted s].
Proof. exact lex_quote_ident_clickhouse. Qed.
Print Assumptions C04_ident_roundtrip.

Theorem C04_string_roundtrip : forall s, sql_lex ClickHouse (quote_sql_string s) = Some [SString s].
Proof. exact lex_quote_string_clickhouse. Qed.
Print Assumptions C04_string_roundtrip.

(** under standard quoting rules (no backslash escapes) the token boundaries are the same: still
    exactly one token; its content is the original with each backslash doubled *)
Theorem C04_ident_standard : forall s, sql_lex Standard (quote_ident s) = Some [SQuoted (std_view s)].
Proof. exact lex_quote_ident_standard. Qed.
Print Assumptions C04_ident_standard.

Theorem C04_string_standard : forall s, sql_lex Standard (quote_sql_string s) = Some [SString (std_view s)].
Proof. exact lex_quote_string_standard. Qed.
Print Assumptions C04_string_standard.

(** whole output, byte level: when neighbouring characters inside and across the printed pieces
    are compatible ([glue_ok]: no `--`, `/*`, two-character operator or doubled quote formed across
    a boundary, no word or number running into its neighbour), the concatenated bytes lex - with the
    dialect's lexer - into exactly the pieces' own tokens: every name one quoted-identifier token,
    every string one string token, every number one number token, carrying their original bytes *)
Theorem C04_bytes_lex_to_piece_tokens : forall ps, glue_ok ps = true ->
  exists ts, ptoks ps = Some ts /\ sql_lex ClickHouse (render ps) = Some ts.
Proof. exact glue_bytes_are_ptoks. Qed.
Print Assumptions C04_bytes_lex_to_piece_tokens.

Example C04_example :
  sql_lex ClickHouse (quote_sql_string (L "x' , (select 1) -- \")) = Some [SString (L "x' , (select 1) -- \")].
Proof. vm_compute. reflexivity. Qed.

(** the premise of the previous theorem holds of everything Compile prints for a parsed source
    (no parameters; finding F1 excluded): whatever bytes the source's string literals, names and
    numbers contain, the output bytes lex into the pieces' own tokens *)
From PQL Require Import Proofs.ParsedWf Proofs.SubqWf Proofs.SqlGlueProg Proofs.LexTokOk.
Theorem C04_compiled_bytes_lex : forall s ss ps, parse s = ParseOk ss -> Forall names_ok_stmt ss ->
  compile [] s = COk ps -> exists ts, ptoks ps = Some ts /\ sql_lex ClickHouse (render ps) = Some ts.
Proof. exact compile_lexes. Qed.
Print Assumptions C04_compiled_bytes_lex.

(** the scanner's own tokens are well spelled for the target: an identifier token's value is an SQL
    word, a number token's (normalised) value is a number the dialect's lexer reads as one token *)
Theorem C04_scanned_tokens_well_spelled : forall s, Forall tok_ok (scan s).
Proof. exact scan_tok_ok. Qed.
Print Assumptions C04_scanned_tokens_well_spelled.

(** ** values end to end (Proofs/LexValues.v, Spec/NumValue.v) *)
From PQL Require Import Model.Lexer Proofs.LexValues Spec.NumValue.
(** a string: the PQL spelling of any byte string [v] lexes to a string token of value [v], and
    what the writer prints for that value lexes, under the target dialect's rules, to one SQL
    string token that decodes to [v] again - whatever bytes [v] holds *)
Theorem C04_string_value_end_to_end : forall q v rest, (q = 34 \/ q = 39)%N ->
  lex1 (str_quote q v ++ rest) = Tok KString v (List.length (str_quote q v)) /\
  sql_lex ClickHouse (quote_sql_string v) = Some [SString v].
Proof. intros q v rest Hq. split; [exact (string_roundtrip q v rest Hq)|exact (lex_quote_string_clickhouse v)]. Qed.
Print Assumptions C04_string_value_end_to_end.

(** a quoted name: any newline-free name between backticks (backticks doubled) lexes to that name,
    and its SQL spelling lexes back to one quoted-identifier token carrying it *)
From PQL Require Import Proofs.LexSpec.
Theorem C04_name_value_end_to_end : forall v rest, no_newline v -> (match rest with c :: _ => c <> 96%N | [] => True end) ->
  lex1 (bq_quote v ++ rest) = Tok KQuotedIdentifier v (List.length (bq_quote v)) /\
  sql_lex ClickHouse (quote_ident v) = Some [SQuoted v].
Proof. intros v rest H1 H2. split; [exact (quoted_roundtrip v rest H1 H2)|exact (lex_quote_ident_clickhouse v)]. Qed.
Print Assumptions C04_name_value_end_to_end.

(** a number: the spelling handed to SQL (the token's normalised value, printed verbatim as the
    number piece) denotes the number the PQL source text denotes, whether that was written in
    decimal, hexadecimal, with leading zeros, a leading point or an exponent *)
Theorem C04_number_value : forall s t, In t (scan s) -> tkind t = KNumber ->
  num_q (tvalue t) = src_num_q (slice s (tstart t) (tend t)).
Proof. exact scanned_number_q. Qed.
Print Assumptions C04_number_value.

(** ** the structure of the output depends only on the structure of the program (Proofs/Payload.v)
    [sk_stmts] is the skeleton of a program: every position forgotten; the characters of string and
    number literals forgotten; names forgotten wherever they are content - table, alias, `as`,
    render and column names, quoted names, unquoted names that are not a bound name, a constant
    (true/false/null) or a join alias (these are replaced by one fixed name that is none of the
    three) - and kept where they are structure (function names, join
    kinds, let names, references to bound names; the quoted flag is structure too).
    Two programs with the same skeleton compile alike, for any parameters: both are rejected, or
    both succeed with piece lists that agree piece by piece up to the payload of identifier, string
    and number pieces ([sh] forgets exactly that payload). *)
From PQL Require Import Proofs.Payload.
Theorem C04_same_structure_same_pieces : forall s1 s2 params ss1 ss2,
  sk_stmts (map fst params) false ss1 = sk_stmts (map fst params) false ss2 ->
  match compile_stmts s1 params ss1, compile_stmts s2 params ss2 with
  | Ok a, Ok b => sh a = sh b
  | Err _, Err _ => True
  | _, _ => False
  end.
Proof. exact same_skeleton_same_pieces. Qed.
Print Assumptions C04_same_structure_same_pieces.

(** on bytes, for sources: the SQL tokens the dialect's lexer reads from the two returned texts
    have the same shapes one by one - same words and punctuation, and a quoted identifier, string
    or number token wherever the other text has one; so changing content changes exactly the
    corresponding tokens and can neither open a comment, close a quote nor start a clause.
    (F1 excluded as before.) *)
Theorem C04_structure_independent_of_content : forall s1 s2 ss1 ss2 ps1,
  parse s1 = ParseOk ss1 -> parse s2 = ParseOk ss2 ->
  Forall names_ok_stmt ss1 -> Forall names_ok_stmt ss2 ->
  sk_stmts [] false ss1 = sk_stmts [] false ss2 ->
  compile [] s1 = COk ps1 ->
  exists ps2 ts1 ts2, compile [] s2 = COk ps2 /\
    sql_lex ClickHouse (render ps1) = Some ts1 /\ sql_lex ClickHouse (render ps2) = Some ts2 /\
    map shape_of ts1 = map shape_of ts2.
Proof. exact structure_independent_of_content. Qed.
Print Assumptions C04_structure_independent_of_content.

(** the program and its skeleton: one-sided form, from which the above follows *)
Theorem C04_skeleton_compiles_alike : forall source source' params ss,
  res_sim (compile_stmts source params (sk_stmts (map fst params) false ss)) (compile_stmts source' params ss).
Proof. exact compile_stmts_sk. Qed.
Print Assumptions C04_skeleton_compiles_alike.
