(** * C04 — literals and names are transmitted as data, never as SQL syntax (partial). *)
From PQL Require Import Model.Compile Spec.SqlLex Proofs.QuoteFacts Proofs.SqlGlue Proofs.ReadBack Proofs.SqlGlueToks.
From Coq Require Import String.
Local Open Scope list_scope.

(** a quoted identifier is read back by the target dialect's lexer as exactly one quoted-identifier
    token carrying the original bytes, whatever they are (quotes, backslashes, comment markers,
    semicolons, NUL, non-UTF-8) *)
Theorem C04_ident_roundtrip : forall s, sql_lex ClickHouse (quote_ident s) = Some [SQuoted s].
Proof. exact lex_quote_ident_clickhouse. Qed.
Print Assumptions C04_ident_roundtrip.

Theorem C04_string_roundtrip : forall s, sql_lex ClickHouse (quote_sql_string s) = Some [SString s].
Proof. exact lex_quote_string_clickhouse. Qed.
Print Assumptions C04_string_roundtrip.

(** under standard quoting rules (no backslash escapes) the token boundaries are the same: still
    exactly one token; its content is the original with each backslash doubled *)
Theorem C04_ident_standard : forall s, sql_lex Standard (quote_ident s) = Some [SQuoted (std_view s)].
Proof. exact lex_quote_ident_standard. Qed.
Print Assumptions C04_ident_standard.

Theorem C04_string_standard : forall s, sql_lex Standard (quote_sql_string s) = Some [SString (std_view s)].
Proof. exact lex_quote_string_standard. Qed.
Print Assumptions C04_string_standard.

(** whole output, byte level: when neighbouring characters inside and across the printed pieces
    are compatible ([glue_ok]: no `--`, `/*`, two-character operator or doubled quote formed across
    a boundary, no word or number running into its neighbour), the concatenated bytes lex - with the
    dialect's lexer - into exactly the pieces' own tokens: every name one quoted-identifier token,
    every string one string token, every number one number token, carrying their original bytes *)
Theorem C04_bytes_lex_to_piece_tokens : forall ps, glue_ok ps = true ->
  exists ts, ptoks ps = Some ts /\ sql_lex ClickHouse (render ps) = Some ts.
Proof. exact glue_bytes_are_ptoks. Qed.
Print Assumptions C04_bytes_lex_to_piece_tokens.

Example C04_example :
  sql_lex ClickHouse (quote_sql_string (L "x' , (select 1) -- \")) = Some [SString (L "x' , (select 1) -- \")].
Proof. vm_compute. reflexivity. Qed.

(** the premise of the previous theorem holds of everything Compile prints for a parsed source
    (no parameters; finding F1 excluded): whatever bytes the source's string literals, names and
    numbers contain, the output bytes lex into the pieces' own tokens *)
From PQL Require Import Proofs.ParsedWf Proofs.SubqWf Proofs.SqlGlueProg Proofs.LexTokOk.
Theorem C04_compiled_bytes_lex : forall s ss ps, parse s = ParseOk ss -> Forall names_ok_stmt ss ->
  compile [] s = COk ps -> exists ts, ptoks ps = Some ts /\ sql_lex ClickHouse (render ps) = Some ts.
Proof. exact compile_lexes. Qed.
Print Assumptions C04_compiled_bytes_lex.

(** the scanner's own tokens are well spelled for the target: an identifier token's value is an SQL
    word, a number token's (normalised) value is a number the dialect's lexer reads as one token *)
Theorem C04_scanned_tokens_well_spelled : forall s, Forall tok_ok (scan s).
Proof. exact scan_tok_ok. Qed.
Print Assumptions C04_scanned_tokens_well_spelled.
