(** * C06 — let bindings and parameters follow the documented scoping rules (partial). *)
From PQL Require Import Model.Compile Proofs.WriterFacts.
From Coq Require Import String.
Local Open Scope list_scope.
Local Open Scope nat_scope.
Local Notation length := List.length (only parsing).

(** lets written after the query have no effect *)
Theorem C06_lets_after_query : forall source params pre t post,
  forallb is_let pre = true -> forallb is_let post = true ->
  compile_stmts source params (pre ++ STab t :: post) = compile_stmts source params (pre ++ [STab t]).
Proof. exact compile_stmts_lets_after_query. Qed.
Print Assumptions C06_lets_after_query.

(** a later binding of the same name shadows earlier bindings and parameters *)
Theorem C06_shadowing : forall sc n v v', scope_get ((n, v') :: (n, v) :: sc) n = Some v'.
Proof. exact scope_shadowing. Qed.
Print Assumptions C06_shadowing.

(** ** the scope a chain of let statements builds, and what a substituted name means *)
From PQL Require Import Spec.SqlRead Proofs.ReadBack.

(** The documented scoping rules as a function ([let_vals], Proofs/ReadBack.v): a let before the
    query binds its name to the tree of its value read in the scope of the lets before it, a later
    let of the same name shadows, lets after the query bind nothing.  Theorem: for every program
    without parameters whose let values the parser could build, after the statement loop every
    expression of the query -- in any position (default, join condition), under any wrapping --
    prints to tokens that the reference reader of coq/Spec/SqlParse.v reads, under the SQL
    dialect's precedence, as the intended tree with each bound name replaced by the tree of its
    let value.  In particular a substituted value always acts as ONE operand whatever operators
    surround the name (the invariant carried through the let chain is that every scope entry was
    written as an atom-like operand of its value's tree). *)
Theorem C06_let_values_act_as_operands : forall ss sc' t, lets_wfr ss -> stmt_loop [] None ss = Ok (sc', Some t) ->
  let '(names, vals) := let_vals [] (fun _ => XWord []) false ss in
  forall mode e w ps, wfr e -> wx (mkCtx sc' mode) w e = Ok ps ->
    exists ts, ptoks ps = Some ts /\ Shape w ts (substv vals (trans (bound_in names) (mode_eqb mode ModeJoin) e)).
Proof. exact let_values_act_as_operands. Qed.
Print Assumptions C06_let_values_act_as_operands.

(** the invariant itself, from any starting scope (parameters excluded: their text is the
    caller's responsibility) *)
Theorem C06_let_chain_scope : forall ss sc names vals q sc' q',
  lets_wfr ss -> scope_inv sc vals -> (forall n, isb_of sc n = bound_in names n) ->
  stmt_loop sc q ss = Ok (sc', q') ->
  let '(names', vals') := let_vals names vals (match q with Some _ => true | None => false end) ss in
  scope_inv sc' vals' /\ (forall n, isb_of sc' n = bound_in names' n).
Proof. exact let_chain_scope. Qed.
Print Assumptions C06_let_chain_scope.
