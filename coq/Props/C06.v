(** * C06 — let bindings and parameters follow the documented scoping rules (partial). *)
From PQL Require Import Model.Compile Proofs.WriterFacts.
From Coq Require Import String.
Local Open Scope list_scope.
Local Open Scope nat_scope.
Local Notation length := List.length (only parsing).

(** lets written after the query have no effect *)
Theorem C06_lets_after_query : forall source params pre t post,
  forallb is_let pre = true -> forallb is_let post = true ->
  compile_stmts source params (pre ++ STab t :: post) = compile_stmts source params (pre ++ [STab t]).
Proof. exact compile_stmts_lets_after_query. Qed.
Print Assumptions C06_lets_after_query.

(** a later binding of the same name shadows earlier bindings and parameters *)
Theorem C06_shadowing : forall sc n v v', scope_get ((n, v') :: (n, v) :: sc) n = Some v'.
Proof. exact scope_shadowing. Qed.
Print Assumptions C06_shadowing.

(** ** the scope a chain of let statements builds, and what a substituted name means *)
From PQL Require Import Spec.SqlRead Proofs.ReadBack.

(** The documented scoping rules as a function ([let_vals], Proofs/ReadBack.v): a let before the
    query binds its name to the tree of its value read in the scope of the lets before it, a later
    let of the same name shadows, lets after the query bind nothing.  Theorem: for every program
    without parameters whose let values the parser could build, after the statement loop every
    expression of the query -- in any position (default, join condition), under any wrapping --
    prints to tokens that the reference reader of coq/Spec/SqlParse.v reads, under the SQL
    dialect's precedence, as the intended tree with each bound name replaced by the tree of its
    let value.  In particular a substituted value always acts as ONE operand whatever operators
    surround the name (the invariant carried through the let chain is that every scope entry was
    written as an atom-like operand of its value's tree). *)
Theorem C06_let_values_act_as_operands : forall ss sc' t, lets_wfr ss -> stmt_loop [] None ss = Ok (sc', Some t) ->
  let '(names, vals) := let_vals [] (fun _ => XWord []) false ss in
  forall mode e w ps, wfr e -> wx (mkCtx sc' mode) w e = Ok ps ->
    exists ts, ptoks ps = Some ts /\ Shape w ts (substv vals (trans (bound_in names) (mode_eqb mode ModeJoin) e)).
Proof. exact let_values_act_as_operands. Qed.
Print Assumptions C06_let_values_act_as_operands.

(** the invariant itself, from any starting scope (parameters excluded: their text is the
    caller's responsibility) *)
Theorem C06_let_chain_scope : forall ss sc names vals q sc' q',
  lets_wfr ss -> scope_inv sc vals -> (forall n, isb_of sc n = bound_in names n) ->
  stmt_loop sc q ss = Ok (sc', q') ->
  let '(names', vals') := let_vals names vals (match q with Some _ => true | None => false end) ss in
  scope_inv sc' vals' /\ (forall n, isb_of sc' n = bound_in names' n).
Proof. exact let_chain_scope. Qed.
Print Assumptions C06_let_chain_scope.

(** ** the output depends on the scope only through the names the program uses (Proofs/ScopeFacts.v) *)
From PQL Require Import Proofs.ScopeFacts.

(** [uses_stmt k s]: an unquoted, unqualified identifier spelled [k] stands somewhere in [s] in
    expression position (where, project incl. the bare-column shorthand, extend, summarize, sort,
    take, top, join conditions at any depth, let values); function names, table names, aliases,
    quoted and qualified names do not count.  If two parameter lists agree on every name but [k] and
    no statement uses [k], Compile returns the same result (text or error) for both. *)
Theorem C06_output_depends_on_used_names_only : forall k source params params' ss,
  agree_except k (map (fun kv : str * str => (fst kv, [PRaw (snd kv)])) params) (map (fun kv : str * str => (fst kv, [PRaw (snd kv)])) params') ->
  Forall (fun s => uses_stmt k s = false) ss ->
  compile_stmts source params ss = compile_stmts source params' ss.
Proof. exact compile_stmts_unused. Qed.
Print Assumptions C06_output_depends_on_used_names_only.

(** unused bindings do not change the output: a parameter no statement uses can be removed,
    wherever it stands in the list *)
Theorem C06_unused_parameter : forall k v source pre post ss, Forall (fun s => uses_stmt k s = false) ss ->
  compile_stmts source (pre ++ (k, v) :: post) ss = compile_stmts source (pre ++ post) ss.
Proof. exact unused_parameter. Qed.
Print Assumptions C06_unused_parameter.

Theorem C06_unused_parameter_source : forall k v pre post s ss, parse s = ParseOk ss -> Forall (fun st => uses_stmt k st = false) ss ->
  compile (pre ++ (k, v) :: post) s = compile (pre ++ post) s.
Proof. intros k v pre post s ss P H. unfold compile. rewrite P, (unused_parameter k v s pre post ss H). reflexivity. Qed.
Print Assumptions C06_unused_parameter_source.

(** the same for the expression writer and any two scopes (let bindings included) *)
Theorem C06_unused_binding_expression : forall k sc sc' m, agree_except k sc sc' ->
  forall e w, uses_e k e = false -> wx (mkCtx sc m) w e = wx (mkCtx sc' m) w e.
Proof. exact wx_unused. Qed.
Print Assumptions C06_unused_binding_expression.

(** parameters are inserted verbatim: an unquoted, unqualified identifier bound to a parameter
    text is written as exactly that text, in every position and under every wrapping *)
Theorem C06_parameter_verbatim : forall sc m w p v, iquoted p = false -> scope_get sc (iname p) = Some [PRaw v] ->
  wx (mkCtx sc m) w (EQual [p]) = Ok [PRaw v] /\ render [PRaw v] = v.
Proof. exact parameter_verbatim. Qed.
Print Assumptions C06_parameter_verbatim.

Example C06_unused_example :
  compile [(L "p", L "{p:String}"); (L "unused", L "DROP TABLE x")] (L "T | where a == p") =
  compile [(L "p", L "{p:String}")] (L "T | where a == p")
  /\ exists ps, compile [(L "p", L "{p:String}")] (L "T | where a == p") = COk ps.
Proof. vm_compute. split; [reflexivity|eexists; reflexivity]. Qed.
