(** * C06 — let bindings and parameters follow the documented scoping rules (partial). *)
From PQL Require Import Model.Compile Proofs.WriterFacts.
From Coq Require Import String.
Local Open Scope list_scope.
Local Open Scope nat_scope.
Local Notation length := List.length (only parsing).

(** lets written after the query have no effect *)
Theorem C06_lets_after_query : forall source params pre t post,
  forallb is_let pre = true -> forallb is_let post = true ->
  compile_stmts source params (pre ++ STab t :: post) = compile_stmts source params (pre ++ [STab t]).
Proof. exact compile_stmts_lets_after_query. Qed.
Print Assumptions C06_lets_after_query.

(** a later binding of the same name shadows earlier bindings and parameters *)
Theorem C06_shadowing : forall sc n v v', scope_get ((n, v') :: (n, v) :: sc) n = Some v'.
Proof. exact scope_shadowing. Qed.
Print Assumptions C06_shadowing.
