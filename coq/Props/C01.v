(** * C01 — scalar expressions keep their meaning when translated to SQL (partial). *)
From PQL Require Import Model.Compile Model.Trans Spec.PqlSem Proofs.TableFacts Proofs.WriterFacts Proofs.MeaningFacts.
From Coq Require Import String.
Local Open Scope list_scope.
Local Open Scope nat_scope.
Local Notation length := List.length (only parsing).

(** explicit parentheses in the source only group: the writer emits the same pieces for an
    expression and for the same expression with any of its parentheses removed at the top *)
Theorem C01_parens_transparent : forall c w e, wx c w (strip_parens e) = wx c w e.
Proof. exact wx_strip_parens. Qed.
Print Assumptions C01_parens_transparent.

Theorem C01_paren_one_level : forall c w l x r, wx c w (EParen l x r) = wx c w x.
Proof. exact wx_paren. Qed.
Print Assumptions C01_paren_one_level.

(** PQL precedence is the documented one: or < and < comparisons (with in) < + - < * / % *)
Theorem C01_precedence_table : forall k, op_prec k = documented_level k.
Proof. exact op_prec_spec. Qed.
Print Assumptions C01_precedence_table.

(** every operator the parser can build has a SQL rendering (no fallback text) *)
Theorem C01_operators_rendered : forall k, (0 <= op_prec k)%Z -> binop_handled k = true.
Proof. exact binop_sql_total. Qed.
Print Assumptions C01_operators_rendered.

(** the documented built-ins have the documented arities, and a rewrite whose output is not a
    single SQL operand is parenthesised when used as an operand *)
Theorem C01_builtins_documented :
  forallb (fun na => match known_func (fst na) with
                     | Some (w, _) => arity_rule_eqb (writer_arity w) (snd na)
                     | None => false end) documented_builtins = true
  /\ length known_funcs = length documented_builtins.
Proof. exact builtin_arities_documented. Qed.
Print Assumptions C01_builtins_documented.

Theorem C01_rewrites_parenthesised :
  forallb (fun nf => match snd nf with (w, np) => np || template_is_operand (writer_template w) end) known_funcs = true.
Proof. exact needs_parens_sound. Qed.
Print Assumptions C01_rewrites_parenthesised.

(** Meaning: the SQL tree the writer intends for an expression evaluates, on every row (NULLs
    included), in every environment (join sides, groups) and for every interpretation of the
    pass-through functions, to the value of the PQL expression read with PQL's own grouping:
    ==/!= never NULL, =~/!~ through lower(), and/or Kleene, in, indexing, signs, the documented
    built-ins rewritten, everything else passed through by name with its arguments. *)
Theorem C01_meaning : forall F is_bound jm,
  is_agg F w_coalesce = false ->
  is_agg F w_lower = false /\ is_agg F w_LOWER = false /\ is_agg F w_UPPER = false ->
  is_agg F w_count = true ->
  forallb (fun n => negb (is_agg F n)) [p_not; p_isnull; p_isnotnull; p_iff; p_iif; p_strcat; p_tolower; p_toupper; p_nowf; p_countif] = true ->
  forall x e, seval F e (trans is_bound jm x) = peval F is_bound jm e x.
Proof. exact trans_meaning. Qed.
Print Assumptions C01_meaning.

(** ** the printed text re-reads as the intended tree (token level) *)
From PQL Require Import Spec.SqlRead Proofs.ReadBack.

(** For every expression the parser accepts and the writer prints (no parameters or lets in
    scope, no pass-through function called NOT or CASE -- known finding F1), the printed pieces,
    viewed as SQL tokens ([ptoks]: template text through the dialect's lexer, identifiers, strings
    and numbers as single tokens), are read by the reference reader of coq/Spec/SqlParse.v -- the
    SQL dialect's own precedence, OR < AND < NOT < comparison/IS NULL/IN < || < + - < * / % <
    sign < x[i] -- as exactly [trans e], the tree whose value C01_meaning proves equal to the PQL
    expression's, with no token left over; for every sufficiently large reader fuel.  By
    induction over the writer: every operand position is written closed (atom, signed operand or
    parenthesised), every template (coalesce, CASE WHEN, IS NULL, NOT, count() FILTER, ||, IN,
    LOWER/UPPER, x[i]) re-reads as its tree. *)
Theorem C01_printed_expression_rereads : forall c, c_scope c = [] -> forall srclen f ts e rest ps,
  p_expr srclen f ts = (Some e, rest, []) -> names_ok e -> wexpr c e = Ok ps ->
  exists toks, ptoks ps = Some toks /\
    Conv (fun fuel => sx fuel 0 toks) (trans (fun _ => false) (mode_eqb (c_mode c) ModeJoin) e, []).
Proof. exact printed_expression_rereads. Qed.
Print Assumptions C01_printed_expression_rereads.

(** the same in every operand position: as a full expression, as a closed operand of an
    operator, as the base of an index or operand of a sign *)
Theorem C01_operand_shapes : forall c, c_scope c = [] -> forall e, wfr e -> forall w ps, wx c w e = Ok ps ->
  exists ts, ptoks ps = Some ts /\ Shape w ts (trans (fun _ => false) (mode_eqb (c_mode c) ModeJoin) e).
Proof. exact wx_reads_empty. Qed.
Print Assumptions C01_operand_shapes.

(** ** the printed expression, byte level *)
From PQL Require Import Proofs.SqlGlue Proofs.SqlGlueWriter Proofs.SqlGlueProg.

(** For every expression the parser can build whose number literals and pass-through function names
    are spelled as the scanner spells them ([lexok]; holds of every scanned source), in any scope
    whose bound values were themselves printed this way, the pieces printed are glue-safe - no
    comment opener, two-character operator, doubled quote or fused word/number forms across or
    inside them - begin with a character that can follow any operator or keyword (for an operand:
    not a sign) and end with one after which any operator, comma, bracket or keyword may follow.
    This is what makes the byte-level reading of every larger text (C05_compiled_bytes_lex) follow
    from the token-level one (C01_printed_expression_rereads). *)
Theorem C01_printed_expression_bytes : forall c, scope_glued (c_scope c) -> forall e, wfr e -> lexok e ->
  forall w ps, wx c w e = Ok ps ->
  pieces_glue ps None = true /\
  starts_in (match w with WOperand => is_start_op | _ => is_start end) (render ps) /\ ends_in is_end (render ps).
Proof. exact wx_glue. Qed.
Print Assumptions C01_printed_expression_bytes.
