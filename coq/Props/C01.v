(** * C01 — scalar expressions keep their meaning when translated to SQL (partial). *)
From PQL Require Import Model.Compile Proofs.TableFacts Proofs.WriterFacts.
From Coq Require Import String.
Local Open Scope list_scope.
Local Open Scope nat_scope.
Local Notation length := List.length (only parsing).

(** explicit parentheses in the source only group: the writer emits the same pieces for an
    expression and for the same expression with any of its parentheses removed at the top *)
Theorem C01_parens_transparent : forall c w e, wx c w (strip_parens e) = wx c w e.
Proof. exact wx_strip_parens. Qed.
Print Assumptions C01_parens_transparent.

Theorem C01_paren_one_level : forall c w l x r, wx c w (EParen l x r) = wx c w x.
Proof. exact wx_paren. Qed.
Print Assumptions C01_paren_one_level.

(** PQL precedence is the documented one: or < and < comparisons (with in) < + - < * / % *)
Theorem C01_precedence_table : forall k, op_prec k = documented_level k.
Proof. exact op_prec_spec. Qed.
Print Assumptions C01_precedence_table.

(** every operator the parser can build has a SQL rendering (no fallback text) *)
Theorem C01_operators_rendered : forall k, (0 <= op_prec k)%Z -> binop_handled k = true.
Proof. exact binop_sql_total. Qed.
Print Assumptions C01_operators_rendered.

(** the documented built-ins have the documented arities, and a rewrite whose output is not a
    single SQL operand is parenthesised when used as an operand *)
Theorem C01_builtins_documented :
  forallb (fun na => match known_func (fst na) with
                     | Some (w, _) => arity_rule_eqb (writer_arity w) (snd na)
                     | None => false end) documented_builtins = true
  /\ length known_funcs = length documented_builtins.
Proof. exact builtin_arities_documented. Qed.
Print Assumptions C01_builtins_documented.

Theorem C01_rewrites_parenthesised :
  forallb (fun nf => match snd nf with (w, np) => np || template_is_operand (writer_template w) end) known_funcs = true.
Proof. exact needs_parens_sound. Qed.
Print Assumptions C01_rewrites_parenthesised.
