(** * C11 — tree traversal reaches every node exactly once and never fails (partial). *)
From PQL Require Import Model.Walk Proofs.TableFacts.
From Coq Require Import String.
Local Open Scope list_scope.
Local Open Scope nat_scope.
Local Notation length := List.length (only parsing).

(** every node type that can reach the top of Walk's stack has a case in its type switch *)
Theorem C11_table_total :
  forallb (fun k => match walk_children k with Some _ => true | None => false end) walk_reachable = true.
Proof. exact walk_table_total. Qed.
Print Assumptions C11_table_total.

(** all identifier and expression node types are reachable *)
Theorem C11_reaches_expression_kinds :
  forallb (fun k => existsb (nkind_eqb k) walk_reachable)
    [N_Ident; N_QualifiedIdent; N_BinaryExpr; N_UnaryExpr; N_InExpr; N_ParenExpr; N_BasicLit; N_CallExpr; N_IndexExpr] = true.
Proof. exact walk_reaches_expr_kinds. Qed.
Print Assumptions C11_reaches_expression_kinds.

(** the only node-typed fields Walk does not push are the documented CallExpr.Func and JoinOperator.Flavor *)
Theorem C11_unpushed_fields :
  forallb (fun k =>
    match unpushed k with
    | [] => true
    | [f] => (nkind_eqb k N_CallExpr && fname_eqb f F_Func) || (nkind_eqb k N_JoinOperator && fname_eqb f F_Flavor)
    | _ => false
    end) walk_reachable = true.
Proof. exact walk_unpushed_fields. Qed.
Print Assumptions C11_unpushed_fields.

(** fields that a successful parse may leave nil are pushed only under a nil guard *)
Theorem C11_optional_guarded :
  forallb (fun kf =>
    match walk_children (fst kf) with
    | None => true
    | Some ps => forallb (fun p => match p with
                                   | P_Field f g => negb (fname_eqb f (snd kf)) || g
                                   | _ => true end) ps
    end) optional_fields = true.
Proof. exact walk_optional_guarded. Qed.
Print Assumptions C11_optional_guarded.
