(** * C11 — tree traversal reaches every node exactly once and never fails (partial). *)
From PQL Require Import Model.Walk Model.Parser Proofs.TableFacts Proofs.WalkFacts Proofs.WalkTree.
From Coq Require Import String.
Local Open Scope list_scope.
Local Open Scope nat_scope.
Local Notation length := List.length (only parsing).

(** every node type that can reach the top of Walk's stack has a case in its type switch *)
Theorem C11_table_total :
  forallb (fun k => match walk_children k with Some _ => true | None => false end) walk_reachable = true.
Proof. exact walk_table_total. Qed.
Print Assumptions C11_table_total.

(** all identifier and expression node types are reachable *)
Theorem C11_reaches_expression_kinds :
  forallb (fun k => existsb (nkind_eqb k) walk_reachable)
    [N_Ident; N_QualifiedIdent; N_BinaryExpr; N_UnaryExpr; N_InExpr; N_ParenExpr; N_BasicLit; N_CallExpr; N_IndexExpr] = true.
Proof. exact walk_reaches_expr_kinds. Qed.
Print Assumptions C11_reaches_expression_kinds.

(** the only node-typed fields Walk does not push are the documented CallExpr.Func and JoinOperator.Flavor *)
Theorem C11_unpushed_fields :
  forallb (fun k =>
    match unpushed k with
    | [] => true
    | [f] => (nkind_eqb k N_CallExpr && fname_eqb f F_Func) || (nkind_eqb k N_JoinOperator && fname_eqb f F_Flavor)
    | _ => false
    end) walk_reachable = true.
Proof. exact walk_unpushed_fields. Qed.
Print Assumptions C11_unpushed_fields.

(** fields that a successful parse may leave nil are pushed only under a nil guard *)
Theorem C11_optional_guarded :
  forallb (fun kf =>
    match walk_children (fst kf) with
    | None => true
    | Some ps => forallb (fun p => match p with
                                   | P_Field f g => negb (fname_eqb f (snd kf)) || g
                                   | _ => true end) ps
    end) optional_fields = true.
Proof. exact walk_optional_guarded. Qed.
Print Assumptions C11_optional_guarded.

(** The traversal itself.  [pre visitor c forest visits c'] (coq/Proofs/WalkFacts.v) is the recursive
    pre-order traversal: a node is visited, then - if the visitor answered true - its children
    (what the table pushes, in the order they are popped), then its right siblings; a false answer
    contributes the node and nothing below it.  For every statement the parser can build and every
    visitor (pruning included), the explicit-stack machine of Walk returns normally - no panic, no
    nil - with exactly those visits: every reachable node once, parents before children. *)
Theorem C11_walk_is_preorder : forall visitor s,
  exists vs c', pre visitor 0 [g_stmt s] vs c' /\
    forall fuel, length vs < fuel -> walk_loop fuel visitor 0 [WNode (g_stmt s)] [] = WOk vs.
Proof. intros visitor s. apply walk_is_preorder. apply walkable_stmt. Qed.
Print Assumptions C11_walk_is_preorder.

(** the visitor never receives nil *)
Theorem C11_no_nil : forall visitor c forest vs c', pre visitor c forest vs c' -> ~ In VNil vs.
Proof. exact pre_no_nil. Qed.
Print Assumptions C11_no_nil.

(** returning false skips exactly that node's descendants: the traversal continues with its right siblings *)
Theorem C11_prune : forall visitor c n rest vs c', visitor c n = false -> pre visitor c (n :: rest) vs c' ->
  exists v2, vs = VNode n :: v2 /\ pre visitor (S c) rest v2 c'.
Proof. exact pre_prune. Qed.
Print Assumptions C11_prune.

(** returning true: the node, then the traversal of its children, then its right siblings *)
Theorem C11_descend : forall visitor c n rest vs c', visitor c n = true -> pre visitor c (n :: rest) vs c' ->
  exists v1 c1 v2, vs = VNode n :: v1 ++ v2 /\ pre visitor (S c) (kids_of n) v1 c1 /\ pre visitor c1 rest v2 c'.
Proof. exact pre_descend. Qed.
Print Assumptions C11_descend.

(** the visitor is called exactly once per visit *)
Theorem C11_one_call_per_visit : forall visitor c forest vs c', pre visitor c forest vs c' -> c' = c + length vs.
Proof. exact pre_calls. Qed.
Print Assumptions C11_one_call_per_visit.

(** children are strictly inside their parent (so the traversal is of a finite tree) *)
Theorem C11_children_inside : forall n c, In c (kids_of n) -> gsize c < gsize n.
Proof. exact kids_smaller. Qed.
Print Assumptions C11_children_inside.
