(** * C13 — Compile returns SQL or an error, and rejects every documented misuse (partial). *)
From PQL Require Import Model.Compile Proofs.TableFacts Proofs.WriterFacts.
From Coq Require Import String.
Local Open Scope list_scope.
Local Open Scope nat_scope.
Local Notation length := List.length (only parsing).

(** a successful result is never the empty string *)
Theorem C13_ok_nonempty : forall params s ps, compile params s = COk ps -> render ps <> [].
Proof. exact compile_ok_nonempty. Qed.
Print Assumptions C13_ok_nonempty.

(** the arity checks are the documented ones *)
Theorem C13_arities :
  forallb (fun na => match known_func (fst na) with
                     | Some (w, _) => arity_rule_eqb (writer_arity w) (snd na)
                     | None => false end) documented_builtins = true
  /\ length known_funcs = length documented_builtins.
Proof. exact builtin_arities_documented. Qed.
Print Assumptions C13_arities.
