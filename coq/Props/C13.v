(** * C13 — Compile returns SQL or an error, and rejects every documented misuse. *)
From PQL Require Import Model.Compile Spec.Rules Proofs.TableFacts Proofs.WriterFacts Proofs.RulesFacts Proofs.ProgRules.
From Coq Require Import String.
Local Open Scope list_scope.
Local Open Scope nat_scope.
Local Notation length := List.length (only parsing).

(** a successful result is never the empty string *)
Theorem C13_ok_nonempty : forall params s ps, compile params s = COk ps -> render ps <> [].
Proof. exact compile_ok_nonempty. Qed.
Print Assumptions C13_ok_nonempty.

(** The rules of coq/Spec/Rules.v are written from the property text: built-ins called with the
    documented number of arguments (at any depth), $left/$right only in join conditions, a let value
    made of earlier bindings and constants only.  For every expression the parser can build, in every
    position (default, join condition, let value) and however it is wrapped, the writer succeeds
    exactly when the expression obeys them - both directions, at whatever depth the offending or the
    harmless construct sits. *)
Theorem C13_expression_exact : forall c e, wf_expr e = true -> forall w,
  is_ok (wx c w e) = expr_rules (bnd (c_scope c)) (rmode_of (c_mode c)) e.
Proof. exact wx_ok_iff_rules. Qed.
Print Assumptions C13_expression_exact.

(** the statement loop succeeds exactly when every let before the query is a closed constant
    expression over the bindings before it and there is no second tabular statement *)
Theorem C13_statements_exact : forall ss sc q, wf_stmts ss = true ->
  is_ok (stmt_loop sc q ss) = stmts_rules (bnd sc) (match q with Some _ => true | None => false end) ss.
Proof. exact stmt_loop_ok_iff_rules. Qed.
Print Assumptions C13_statements_exact.

(** the arity checks of the writers are the documented ones, for every function name *)
Theorem C13_arities : forall n k,
  (match known_func n with Some (w, _) => arity_ok (writer_arity w) k | None => true end) = arity_rule_ok n k.
Proof. exact arity_documented. Qed.
Print Assumptions C13_arities.

(** every argument a built-in may take is written by its template, so an error in any argument surfaces *)
Theorem C13_templates_cover : forall w n i, arity_ok (writer_arity w) n = true -> i < n ->
  template_mentions (writer_template w) i = true.
Proof. exact template_covers. Qed.
Print Assumptions C13_templates_cover.

(** Whole programs.  [prog_rules] (coq/Spec/Rules.v) says: the lets before the query are closed
    constant expressions over the parameters and the lets before them, there is exactly one tabular
    statement, and every operator of it - at any depth inside nested joins - carries only expressions
    that obey the rules of their position (built-in arities, $left/$right only in join conditions), a
    join has a known kind and its conditions obey the join-condition rules.  Compile returns SQL
    exactly when the source parses and its program obeys these rules: nothing else makes it fail,
    and no violation is missed wherever it sits. *)
Theorem C13_compile_exact : forall params s,
  (exists ps, compile params s = COk ps) <->
  (exists ss, parse s = ParseOk ss /\ prog_rules (bnd (map (fun kv => (fst kv, [PRaw (snd kv)])) params)) None ss = true).
Proof. exact compile_exact. Qed.
Print Assumptions C13_compile_exact.

(** the same on trees: for every program the parser can build *)
Theorem C13_program_exact : forall source params ss, wf_prog ss = true ->
  is_ok (compile_stmts source params ss) = prog_rules (bnd (map (fun kv => (fst kv, [PRaw (snd kv)])) params)) None ss.
Proof. exact compile_program_rules. Qed.
Print Assumptions C13_program_exact.

Example C13_example_program :
  (exists ps, compile [] (L "let n = 2; T | join (U | where not(a, b)) on k") = COk ps) -> False.
Proof.
  intros H. apply C13_compile_exact in H. destruct H as (ss & Hp & Hr).
  assert (E : parse (L "let n = 2; T | join (U | where not(a, b)) on k") = ParseOk ss) by exact Hp.
  vm_compute in E. injection E as <-. vm_compute in Hr. discriminate Hr.
Qed.

Example C13_example :
  let e := ECall (mkIdent (L "iff") None false) None
                 [EQual [mkIdent (L "$left") None false; mkIdent (L "a") None false]; ELit None KNumber (L "1")] None in
  wf_expr e = true /\ expr_rules (fun _ => false) RJoin e = false.
Proof. vm_compute. auto. Qed.
