(** * C15 — statement splitting agrees with the lexer and loses nothing.
    Only statements here; every proof is [exact] of a lemma from Proofs/. *)
From PQL Require Import Model.Lexer Proofs.LexerFacts Proofs.SplitFacts.
From Coq Require Import String.
Local Open Scope list_scope.
Local Open Scope nat_scope.
Local Notation length := List.length (only parsing).

(** joining the pieces with ';' restores the source byte for byte *)
Theorem C15_join : forall s, join_semis (split_statements s) = s.
Proof. exact split_join. Qed.
Print Assumptions C15_join.

(** there is one more piece than semicolon tokens *)
Theorem C15_count : forall s, length (split_statements s) = 1 + count_semi (scan s).
Proof. exact split_count. Qed.
Print Assumptions C15_count.

(** a semicolon token is exactly one byte ';' of the source (so a cut never falls inside a
    string, a quoted name or a comment: those bytes belong to other items) *)
Theorem C15_semi_token_is_semicolon : forall s t, In t (scan s) -> tkind t = KSemi ->
  tend t = S (tstart t) /\ nth_error s (tstart t) = Some 59%N.
Proof. exact scan_semi_byte. Qed.
Print Assumptions C15_semi_token_is_semicolon.

(** non-vacuity: a source whose string and comment contain ';' is cut once *)
Example C15_example :
  split_statements (L "a ';' // ;x
;b") = [L "a ';' // ;x
"; L "b"].
Proof. vm_compute. reflexivity. Qed.
