(** * C15 — statement splitting agrees with the lexer and loses nothing.
    Only statements here; every proof is [exact] of a lemma from Proofs/. *)
From PQL Require Import Model.Lexer Model.Parser Spec.FlattenStmt Proofs.LexerFacts Proofs.SplitFacts Proofs.LexCut Proofs.ScanCut Proofs.Locality Proofs.ParsePieces.
From Coq Require Import String.
Local Open Scope list_scope.
Local Open Scope nat_scope.
Local Notation length := List.length (only parsing).

(** joining the pieces with ';' restores the source byte for byte *)
Theorem C15_join : forall s, join_semis (split_statements s) = s.
Proof. exact split_join. Qed.
Print Assumptions C15_join.

(** there is one more piece than semicolon tokens *)
Theorem C15_count : forall s, length (split_statements s) = 1 + count_semi (scan s).
Proof. exact split_count. Qed.
Print Assumptions C15_count.

(** a semicolon token is exactly one byte ';' of the source (so a cut never falls inside a
    string, a quoted name or a comment: those bytes belong to other items) *)
Theorem C15_semi_token_is_semicolon : forall s t, In t (scan s) -> tkind t = KSemi ->
  tend t = S (tstart t) /\ nth_error s (tstart t) = Some 59%N.
Proof. exact scan_semi_byte. Qed.
Print Assumptions C15_semi_token_is_semicolon.

(** Locality.  [join_scans off pieces] (coq/Proofs/Locality.v) is the token list obtained by scanning
    every piece on its own, moving its tokens to the piece's offset and putting one semicolon token
    between consecutive pieces.  The scan of the whole source is exactly that: each piece scanned
    alone yields the same tokens (kinds, values, positions up to the piece's offset) it has in
    context - whatever token the cut falls next to (numbers with dangling exponents, `0x`, `/`,
    operators with look-ahead, truncated UTF-8, unterminated strings, comments). *)
Theorem C15_locality : forall s, scan s = join_scans 0 (split_statements s).
Proof. exact scan_locality. Qed.
Print Assumptions C15_locality.

(** no piece contains a semicolon token *)
Theorem C15_no_semi : forall s p, In p (split_statements s) -> no_semi (scan p) = true.
Proof. exact pieces_have_no_semi. Qed.
Print Assumptions C15_no_semi.

(** the underlying boundary facts: an item that ends before a semicolon does not depend on what
    follows it, and a semicolon token splits the scan into the scans of the two sides *)
Theorem C15_item_cut : forall a b, a <> [] -> item_len (lex1 (a ++ 59%N :: b)) <= length a ->
  lex1 (a ++ 59%N :: b) = lex1 a.
Proof. exact lex1_semi_cut. Qed.
Print Assumptions C15_item_cut.

Theorem C15_scan_cut : forall a b, (exists t, In t (scan (a ++ 59%N :: b)) /\ tstart t = length a) ->
  scan (a ++ 59%N :: b) = scan a ++ semi_tok (length a) :: map (shift_tok (S (length a))) (scan b).
Proof. exact scan_semi. Qed.
Print Assumptions C15_scan_cut.

(** Parse reports statements in the same order and number as the non-empty pieces: when Parse
    succeeds, its statements correspond one to one, in order, to the pieces of SplitStatements that
    contain at least one token, and each statement stands for exactly the tokens its piece has when
    scanned on its own (moved to the piece's offset; [toks_stmt] is the token relation of C08) *)
Theorem C15_parse_order : forall s ss, parse s = ParseOk ss ->
  Forall2 toks_stmt ss (nonempty (scans_of 0 (split_statements s))).
Proof. exact parse_pieces. Qed.
Print Assumptions C15_parse_order.

Theorem C15_parse_count : forall s ss, parse s = ParseOk ss ->
  length ss = length (nonempty (scans_of 0 (split_statements s))).
Proof. exact parse_count. Qed.
Print Assumptions C15_parse_count.

(** non-vacuity: a source whose string and comment contain ';' is cut once *)
Example C15_example :
  split_statements (L "a ';' // ;x
;b") = [L "a ';' // ;x
"; L "b"].
Proof. vm_compute. reflexivity. Qed.
