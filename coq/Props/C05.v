(** * C05 — successful output is exactly one well-formed SQL statement (partial). *)
From PQL Require Import Model.Compile Proofs.TableFacts Proofs.WriterFacts.
From Coq Require Import String.
Local Open Scope list_scope.
Local Open Scope nat_scope.
Local Notation length := List.length (only parsing).

(** whenever compilation succeeds the emitted pieces end with the statement terminator *)
Theorem C05_ends_with_semicolon : forall source params ss ps,
  compile_stmts source params ss = Ok ps -> exists ps', ps = ps' ++ lit ";".
Proof. exact compile_stmts_ends_with_semicolon. Qed.
Print Assumptions C05_ends_with_semicolon.

(** no operator the parser can build falls into the 'unhandled binary op' branch *)
Theorem C05_no_unhandled_operator : forall k, (0 <= op_prec k)%Z -> binop_handled k = true.
Proof. exact binop_sql_total. Qed.
Print Assumptions C05_no_unhandled_operator.

(** every join kind the parser admits has a case in the compiler *)
Theorem C05_join_kinds_handled :
  forallb (fun s => str_eqb s w_inner || str_eqb s w_innerunique || str_eqb s w_leftouter) join_types = true.
Proof. exact join_types_handled. Qed.
Print Assumptions C05_join_kinds_handled.

(** ** the printed statement re-reads as the subqueries it was printed from (token level) *)
From PQL Require Import Spec.SqlRead Proofs.ReadBack Proofs.ReadBackStmt.

(** For every list of subqueries whose expressions the parser could build (and no parameters in
    scope), what the compiler prints -- [WITH name AS (select), ...] select ; -- viewed as SQL
    tokens is read by the reference statement reader of coq/Spec/SqlRead.v as exactly that list:
    one statement, ended by one semicolon, every CTE under its own name, every SELECT with its
    columns and aliases, its source (table or join with its condition), WHERE, GROUP BY, ORDER BY
    (direction and null placement) and LIMIT, every expression read under the dialect's
    precedence as its intended tree.  For every sufficiently large reader fuel. *)
Theorem C05_statement_reads : forall source sc vals, scope_inv sc vals -> forall ctes q w body,
  Forall (subq_wf sc) ctes -> subq_wf sc q ->
  write_ctes source (mkCtx sc ModeDefault) ctes = Ok w -> write_subq source (mkCtx sc ModeDefault) q = Ok body ->
  exists ts, ptoks ((match ctes with [] => [] | _ => lit "WITH " end) ++ w ++ body ++ lit ";") = Some ts /\
    Conv (fun fx => read_stmt fx ts) (map (fun s => (sq_name s, den_select source sc vals s)) ctes, den_select source sc vals q).
Proof. exact statement_reads. Qed.
Print Assumptions C05_statement_reads.

Theorem C05_select_reads : forall source sc vals, scope_inv sc vals -> forall s ps, subq_wf sc s ->
  write_subq source (mkCtx sc ModeDefault) s = Ok ps ->
  exists ts, ptoks ps = Some ts /\ forall rest, endtok rest ->
    Conv (fun fx => read_select fx (ts ++ rest)) (den_select source sc vals s, rest).
Proof. exact write_subq_reads. Qed.
Print Assumptions C05_select_reads.

(** ** byte level, end to end *)
From PQL Require Import Spec.SqlLex Spec.SqlRead Spec.FlattenStmt Model.Trans Proofs.ReadBack Proofs.ReadBackStmt Proofs.SubqWf Proofs.ParsedWf
  Proofs.SqlGlue Proofs.SqlGlueProg Proofs.LexTokOk.

(** For every source that parses and compiles without parameters (no SQL keyword used as a
    pass-through function name -- finding F1), the very bytes Compile returns lex, with the
    dialect's own lexer (comments, strings, quoted identifiers, numbers, longest-match operators),
    into exactly the token list the printed pieces denote: no unterminated token or comment, no two
    pieces fused into one token, no token split.  No premise on the characters of any literal or
    name. *)
Theorem C05_compiled_bytes_lex : forall s ss ps, parse s = ParseOk ss -> Forall names_ok_stmt ss ->
  compile [] s = COk ps -> exists ts, ptoks ps = Some ts /\ sql_lex ClickHouse (render ps) = Some ts.
Proof. exact compile_lexes. Qed.
Print Assumptions C05_compiled_bytes_lex.

(** ... and those tokens are read by the reference statement reader as `[WITH name AS (select), ...]
    select ;` whose members are the subqueries of the program: bytes -> tokens -> statement. *)
Theorem C05_compiled_bytes_parse : forall s ss ps, parse s = ParseOk ss -> Forall names_ok_stmt ss -> compile [] s = COk ps ->
  exists sc t subs q rctes,
    stmt_loop [] None ss = Ok (sc, Some t) /\ split_queries sc [] t = Ok subs /\ rev subs = q :: rctes /\
    let '(names, vals) := let_vals [] (fun _ => XWord []) false ss in
    exists ts, sql_lex ClickHouse (render ps) = Some ts /\
      Conv (fun fx => read_stmt fx ts)
           (map (fun sq => (sq_name sq, den_select s sc vals sq)) (rev rctes), den_select s sc vals q).
Proof. exact compile_bytes_reread. Qed.
Print Assumptions C05_compiled_bytes_parse.

(** the same for any statement list satisfying the side conditions (not only parser output) *)
Theorem C05_statements_bytes_lex : forall source ss ps, stmts_wf ss -> stmts_lex ss -> compile_stmts source [] ss = Ok ps ->
  glue_ok ps = true /\ exists ts, ptoks ps = Some ts /\ sql_lex ClickHouse (render ps) = Some ts.
Proof. intros source ss ps Hwf Hlx H. split; [exact (compile_stmts_glue source ss ps Hwf Hlx H)|exact (compile_bytes_lex source ss ps Hwf Hlx H)]. Qed.
Print Assumptions C05_statements_bytes_lex.

Example C05_compiled_bytes_nonvacuous :
  exists ss ps ts, parse (L "let n = 0x10; T | where a == -b + 1.50e3 and c in ('x--', n) | join kind=leftouter (U | summarize m = max(x) by k) on k | sort by m desc | take n") = ParseOk ss
     /\ Forall names_ok_stmt ss
     /\ compile [] (L "let n = 0x10; T | where a == -b + 1.50e3 and c in ('x--', n) | join kind=leftouter (U | summarize m = max(x) by k) on k | sort by m desc | take n") = COk ps
     /\ sql_lex ClickHouse (render ps) = Some ts /\ ptoks ps = Some ts.
Proof. eexists _, _, _. split; [vm_compute; reflexivity|]. split; [repeat constructor|]. split; [vm_compute; reflexivity|]. split; vm_compute; reflexivity. Qed.

(** ** what the statement reads (Proofs/NamesFacts.v) *)
From PQL Require Import Proofs.PipelineFacts Proofs.JoinFacts Proofs.NamesFacts Proofs.DecFacts.

(** [reads s] is what the FROM / JOIN of the SELECT printed for [s] names: the source is printed as
    the quoted name, or as  [(SELECT DISTINCT * FROM] l [)] AS "$left" [LEFT] JOIN r AS "$right" ON cond *)
Theorem C05_source_names : forall s,
  match sq_source s with
  | SrcName n => render_source (sq_source s) = [PIdent n] /\ reads s = [n]
  | SrcJoin u l o r _ c =>
    exists a b d, render_source (sq_source s) = a ++ [PIdent l] ++ b ++ [PIdent r] ++ d ++ c /\ reads s = [l; r] /\
                  Forall (fun p => match p with PLit _ => True | _ => False end) (a ++ b ++ d)
  end.
Proof.
  intros s. unfold reads. destruct (sq_source s) as [n|u l o r ce c]; [split; reflexivity|].
  exists (if u then lit "(SELECT DISTINCT * FROM " else []),
         ((if u then lit ")" else []) ++ lit " AS ""$left""" ++ (if o then lit " LEFT JOIN " else lit " JOIN ")),
         (lit " AS ""$right"" ON ").
  split; [cbn [render_source]; rewrite <- !app_assoc; reflexivity|]. split; [reflexivity|].
  destruct u, o; repeat constructor.
Qed.
Print Assumptions C05_source_names.

(** every table a subquery reads is a table named in the PQL source (the pipeline's table or the
    table of a join's right-hand side, at any depth) or an earlier subquery of the same statement *)
Theorem C05_tables_resolved : forall sc t subs i s, split_queries sc [] t = Ok subs -> nth_error subs i = Some s ->
  forall n, In n (reads s) -> In n (tab_tables t) \/ exists j s', (j < i)%nat /\ nth_error subs j = Some s' /\ sq_name s' = n.
Proof. exact tables_resolved. Qed.
Print Assumptions C05_tables_resolved.

(** a subquery that is not the target of an `as` is called __subquery<its index>; these names are
    pairwise different *)
Theorem C05_generated_names : forall sc t subs i s, split_queries sc [] t = Ok subs -> nth_error subs i = Some s ->
  is_as s = false -> sq_name s = subquery_name i.
Proof. exact generated_names. Qed.
Print Assumptions C05_generated_names.

Theorem C05_generated_names_unique : forall sc t subs i j s s', split_queries sc [] t = Ok subs ->
  nth_error subs i = Some s -> nth_error subs j = Some s' -> is_as s = false -> is_as s' = false ->
  sq_name s = sq_name s' -> i = j.
Proof.
  intros sc t subs i j s s' H Hi Hj Ha Ha' E.
  rewrite (generated_names sc t subs i s H Hi Ha), (generated_names sc t subs j s' H Hj Ha') in E.
  apply subquery_name_inj. exact E.
Qed.
Print Assumptions C05_generated_names_unique.

(** no common table expression is left unused: every subquery but the last is read by a later one *)
Theorem C05_every_cte_is_read : forall sc t subs j s, split_queries sc [] t = Ok subs -> nth_error subs j = Some s ->
  (j + 1 < length subs)%nat -> exists i s', (j < i)%nat /\ nth_error subs i = Some s' /\ In (sq_name s) (reads s').
Proof. exact every_cte_is_read. Qed.
Print Assumptions C05_every_cte_is_read.

(** no internal placeholder reaches the output of a parsed program: the printed pieces are
    tokens of the dialect ([ptoks] is undefined on a placeholder piece) *)
From PQL Require Import Proofs.ParsedWf Proofs.SqlGlueProg Proofs.LexTokOk.
Theorem C05_no_placeholder : forall s ss ps, parse s = ParseOk ss -> Forall names_ok_stmt ss -> compile [] s = COk ps ->
  Forall (fun p => match p with PHole _ => False | _ => True end) ps.
Proof.
  intros s ss ps P N C. destruct (compile_lexes s ss ps P N C) as (ts & Ht & _). clear - Ht.
  revert ts Ht. induction ps as [|p r IH]; intros ts Ht; [constructor|]. cbn [ptoks] in Ht.
  destruct (ptok p) as [a|] eqn:Ea; [|discriminate]. destruct (ptoks r) as [b|] eqn:Eb; [|discriminate].
  constructor; [destruct p; try exact I; discriminate|]. eapply IH. reflexivity.
Qed.
Print Assumptions C05_no_placeholder.
