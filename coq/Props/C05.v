(** * C05 — successful output is exactly one well-formed SQL statement (partial). *)
From PQL Require Import Model.Compile Proofs.TableFacts Proofs.WriterFacts.
From Coq Require Import String.
Local Open Scope list_scope.
Local Open Scope nat_scope.
Local Notation length := List.length (only parsing).

(** whenever compilation succeeds the emitted pieces end with the statement terminator *)
Theorem C05_ends_with_semicolon : forall source params ss ps,
  compile_stmts source params ss = Ok ps -> exists ps', ps = ps' ++ lit ";".
Proof. exact compile_stmts_ends_with_semicolon. Qed.
Print Assumptions C05_ends_with_semicolon.

(** no operator the parser can build falls into the 'unhandled binary op' branch *)
Theorem C05_no_unhandled_operator : forall k, (0 <= op_prec k)%Z -> binop_handled k = true.
Proof. exact binop_sql_total. Qed.
Print Assumptions C05_no_unhandled_operator.

(** every join kind the parser admits has a case in the compiler *)
Theorem C05_join_kinds_handled :
  forallb (fun s => str_eqb s w_inner || str_eqb s w_innerunique || str_eqb s w_leftouter) join_types = true.
Proof. exact join_types_handled. Qed.
Print Assumptions C05_join_kinds_handled.

(** ** the printed statement re-reads as the subqueries it was printed from (token level) *)
From PQL Require Import Spec.SqlRead Proofs.ReadBack Proofs.ReadBackStmt.

(** For every list of subqueries whose expressions the parser could build (and no parameters in
    scope), what the compiler prints -- [WITH name AS (select), ...] select ; -- viewed as SQL
    tokens is read by the reference statement reader of coq/Spec/SqlRead.v as exactly that list:
    one statement, ended by one semicolon, every CTE under its own name, every SELECT with its
    columns and aliases, its source (table or join with its condition), WHERE, GROUP BY, ORDER BY
    (direction and null placement) and LIMIT, every expression read under the dialect's
    precedence as its intended tree.  For every sufficiently large reader fuel. *)
Theorem C05_statement_reads : forall source sc vals, scope_inv sc vals -> forall ctes q w body,
  Forall (subq_wf sc) ctes -> subq_wf sc q ->
  write_ctes source (mkCtx sc ModeDefault) ctes = Ok w -> write_subq source (mkCtx sc ModeDefault) q = Ok body ->
  exists ts, ptoks ((match ctes with [] => [] | _ => lit "WITH " end) ++ w ++ body ++ lit ";") = Some ts /\
    Conv (fun fx => read_stmt fx ts) (map (fun s => (sq_name s, den_select source sc vals s)) ctes, den_select source sc vals q).
Proof. exact statement_reads. Qed.
Print Assumptions C05_statement_reads.

Theorem C05_select_reads : forall source sc vals, scope_inv sc vals -> forall s ps, subq_wf sc s ->
  write_subq source (mkCtx sc ModeDefault) s = Ok ps ->
  exists ts, ptoks ps = Some ts /\ forall rest, endtok rest ->
    Conv (fun fx => read_select fx (ts ++ rest)) (den_select source sc vals s, rest).
Proof. exact write_subq_reads. Qed.
Print Assumptions C05_select_reads.

(** ** byte level, end to end *)
From PQL Require Import Spec.SqlLex Spec.SqlRead Spec.FlattenStmt Model.Trans Proofs.ReadBack Proofs.ReadBackStmt Proofs.SubqWf Proofs.ParsedWf
  Proofs.SqlGlue Proofs.SqlGlueProg Proofs.LexTokOk.

(** For every source that parses and compiles without parameters (no SQL keyword used as a
    pass-through function name -- finding F1), the very bytes Compile returns lex, with the
    dialect's own lexer (comments, strings, quoted identifiers, numbers, longest-match operators),
    into exactly the token list the printed pieces denote: no unterminated token or comment, no two
    pieces fused into one token, no token split.  No premise on the characters of any literal or
    name. *)
Theorem C05_compiled_bytes_lex : forall s ss ps, parse s = ParseOk ss -> Forall names_ok_stmt ss ->
  compile [] s = COk ps -> exists ts, ptoks ps = Some ts /\ sql_lex ClickHouse (render ps) = Some ts.
Proof. exact compile_lexes. Qed.
Print Assumptions C05_compiled_bytes_lex.

(** ... and those tokens are read by the reference statement reader as `[WITH name AS (select), ...]
    select ;` whose members are the subqueries of the program: bytes -> tokens -> statement. *)
Theorem C05_compiled_bytes_parse : forall s ss ps, parse s = ParseOk ss -> Forall names_ok_stmt ss -> compile [] s = COk ps ->
  exists sc t subs q rctes,
    stmt_loop [] None ss = Ok (sc, Some t) /\ split_queries sc [] t = Ok subs /\ rev subs = q :: rctes /\
    let '(names, vals) := let_vals [] (fun _ => XWord []) false ss in
    exists ts, sql_lex ClickHouse (render ps) = Some ts /\
      Conv (fun fx => read_stmt fx ts)
           (map (fun sq => (sq_name sq, den_select s sc vals sq)) (rev rctes), den_select s sc vals q).
Proof. exact compile_bytes_reread. Qed.
Print Assumptions C05_compiled_bytes_parse.

(** the same for any statement list satisfying the side conditions (not only parser output) *)
Theorem C05_statements_bytes_lex : forall source ss ps, stmts_wf ss -> stmts_lex ss -> compile_stmts source [] ss = Ok ps ->
  glue_ok ps = true /\ exists ts, ptoks ps = Some ts /\ sql_lex ClickHouse (render ps) = Some ts.
Proof. intros source ss ps Hwf Hlx H. split; [exact (compile_stmts_glue source ss ps Hwf Hlx H)|exact (compile_bytes_lex source ss ps Hwf Hlx H)]. Qed.
Print Assumptions C05_statements_bytes_lex.

Example C05_compiled_bytes_nonvacuous :
  exists ss ps ts, parse (L "let n = 0x10; T | where a == -b + 1.50e3 and c in ('x--', n) | join kind=leftouter (U | summarize m = max(x) by k) on k | sort by m desc | take n") = ParseOk ss
     /\ Forall names_ok_stmt ss
     /\ compile [] (L "let n = 0x10; T | where a == -b + 1.50e3 and c in ('x--', n) | join kind=leftouter (U | summarize m = max(x) by k) on k | sort by m desc | take n") = COk ps
     /\ sql_lex ClickHouse (render ps) = Some ts /\ ptoks ps = Some ts.
Proof. eexists _, _, _. split; [vm_compute; reflexivity|]. split; [repeat constructor|]. split; [vm_compute; reflexivity|]. split; vm_compute; reflexivity. Qed.
