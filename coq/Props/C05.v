(** * C05 — successful output is exactly one well-formed SQL statement (partial). *)
From PQL Require Import Model.Compile Proofs.TableFacts Proofs.WriterFacts.
From Coq Require Import String.
Local Open Scope list_scope.
Local Open Scope nat_scope.
Local Notation length := List.length (only parsing).

(** whenever compilation succeeds the emitted pieces end with the statement terminator *)
Theorem C05_ends_with_semicolon : forall source params ss ps,
  compile_stmts source params ss = Ok ps -> exists ps', ps = ps' ++ lit ";".
Proof. exact compile_stmts_ends_with_semicolon. Qed.
Print Assumptions C05_ends_with_semicolon.

(** no operator the parser can build falls into the 'unhandled binary op' branch *)
Theorem C05_no_unhandled_operator : forall k, (0 <= op_prec k)%Z -> binop_handled k = true.
Proof. exact binop_sql_total. Qed.
Print Assumptions C05_no_unhandled_operator.

(** every join kind the parser admits has a case in the compiler *)
Theorem C05_join_kinds_handled :
  forallb (fun s => str_eqb s w_inner || str_eqb s w_innerunique || str_eqb s w_leftouter) join_types = true.
Proof. exact join_types_handled. Qed.
Print Assumptions C05_join_kinds_handled.
