(** * C05 — successful output is exactly one well-formed SQL statement (partial). *)
From PQL Require Import Model.Compile Proofs.TableFacts Proofs.WriterFacts.
From Coq Require Import String.
Local Open Scope list_scope.
Local Open Scope nat_scope.
Local Notation length := List.length (only parsing).

(** whenever compilation succeeds the emitted pieces end with the statement terminator *)
Theorem C05_ends_with_semicolon : forall source params ss ps,
  compile_stmts source params ss = Ok ps -> exists ps', ps = ps' ++ lit ";".
Proof. exact compile_stmts_ends_with_semicolon. Qed.
Print Assumptions C05_ends_with_semicolon.

(** no operator the parser can build falls into the 'unhandled binary op' branch *)
Theorem C05_no_unhandled_operator : forall k, (0 <= op_prec k)%Z -> binop_handled k = true.
Proof. exact binop_sql_total. Qed.
Print Assumptions C05_no_unhandled_operator.

(** every join kind the parser admits has a case in the compiler *)
Theorem C05_join_kinds_handled :
  forallb (fun s => str_eqb s w_inner || str_eqb s w_innerunique || str_eqb s w_leftouter) join_types = true.
Proof. exact join_types_handled. Qed.
Print Assumptions C05_join_kinds_handled.

(** ** the printed statement re-reads as the subqueries it was printed from (token level) *)
From PQL Require Import Spec.SqlRead Proofs.ReadBack Proofs.ReadBackStmt.

(** For every list of subqueries whose expressions the parser could build (and no parameters in
    scope), what the compiler prints -- [WITH name AS (select), ...] select ; -- viewed as SQL
    tokens is read by the reference statement reader of coq/Spec/SqlRead.v as exactly that list:
    one statement, ended by one semicolon, every CTE under its own name, every SELECT with its
    columns and aliases, its source (table or join with its condition), WHERE, GROUP BY, ORDER BY
    (direction and null placement) and LIMIT, every expression read under the dialect's
    precedence as its intended tree.  For every sufficiently large reader fuel. *)
Theorem C05_statement_reads : forall source sc vals, scope_inv sc vals -> forall ctes q w body,
  Forall (subq_wf sc) ctes -> subq_wf sc q ->
  write_ctes source (mkCtx sc ModeDefault) ctes = Ok w -> write_subq source (mkCtx sc ModeDefault) q = Ok body ->
  exists ts, ptoks ((match ctes with [] => [] | _ => lit "WITH " end) ++ w ++ body ++ lit ";") = Some ts /\
    Conv (fun fx => read_stmt fx ts) (map (fun s => (sq_name s, den_select source sc vals s)) ctes, den_select source sc vals q).
Proof. exact statement_reads. Qed.
Print Assumptions C05_statement_reads.

Theorem C05_select_reads : forall source sc vals, scope_inv sc vals -> forall s ps, subq_wf sc s ->
  write_subq source (mkCtx sc ModeDefault) s = Ok ps ->
  exists ts, ptoks ps = Some ts /\ forall rest, endtok rest ->
    Conv (fun fx => read_select fx (ts ++ rest)) (den_select source sc vals s, rest).
Proof. exact write_subq_reads. Qed.
Print Assumptions C05_select_reads.
