(** * C09 — the lexer partitions the source into the documented tokens. *)
From PQL Require Import Model.Lexer Proofs.LexerFacts Proofs.SplitFacts Proofs.LexSpec.
From Coq Require Import String.
Local Open Scope list_scope.
Local Open Scope nat_scope.
Local Notation length := List.length (only parsing).

(** tokens come in source order, are non-empty, do not overlap and lie inside the source *)
Theorem C09_partition : forall s, toks_within 0 (length s) (scan s).
Proof. exact scan_within. Qed.
Print Assumptions C09_partition.

(** every token is the lexical item that starts at its own offset, with that item's kind,
    value and length: the scanner carries no state from one token to the next *)
Theorem C09_token_is_item_at_offset : forall s t, In t (scan s) -> item_at s t.
Proof. exact scan_items. Qed.
Print Assumptions C09_token_is_item_at_offset.

(** every item consumes at least one byte and never reads past the end *)
Theorem C09_progress : forall l, l <> [] -> 1 <= item_len (lex1 l) <= length l.
Proof. exact lex1_progress. Qed.
Print Assumptions C09_progress.

(** the scan loop never runs out of fuel: any fuel above the length gives the same tokens *)
Theorem C09_fuel_irrelevant : forall f1 f2 off l, length l < f1 -> length l < f2 ->
  scan_from f1 off l = scan_from f2 off l.
Proof. exact scan_from_fuel. Qed.
Print Assumptions C09_fuel_irrelevant.

(** between the tokens there is only white space and // comments: the scan covers the source, in
    order, by tokens and by skipped items, and a skipped item is a white-space rune or a comment
    running to the end of its line *)
Theorem C09_only_layout_between_tokens : forall s, covers 0 s (scan s).
Proof. exact scan_covers. Qed.
Print Assumptions C09_only_layout_between_tokens.

Theorem C09_skipped_is_layout : forall l n, l <> [] -> lex1 l = Skip n -> layout_item l n.
Proof. exact lex1_skip. Qed.
Print Assumptions C09_skipped_is_layout.

(** identifiers: the longest run [A-Za-z_$][A-Za-z0-9_]* at the position; the value is the text;
    and, or, in, by (the generated table) are keywords with kinds of their own *)
Theorem C09_identifier : forall b r, is_ident_start b = true ->
  let run := b :: take_while is_ident_char r in
  lex1 (b :: r) = (match keyword_kind run with Some k => Tok k [] (length run) | None => Tok KIdentifier run (length run) end)
  /\ firstn (length run) (b :: r) = run
  /\ forallb is_ident_char (take_while is_ident_char r) = true
  /\ match skipn (length run) (b :: r) with [] => True | c :: _ => is_ident_char c = false end.
Proof. exact ident_spec. Qed.
Print Assumptions C09_identifier.

Theorem C09_keywords :
  keyword_kind (L "and") = Some KAnd /\ keyword_kind (L "or") = Some KOr /\ keyword_kind (L "in") = Some KIn /\
  keyword_kind (L "by") = Some KBy /\ length keywords = 4.
Proof. exact keywords_documented. Qed.
Print Assumptions C09_keywords.

(** a name of any bytes but a newline, written between backticks with its backticks doubled, is
    one quoted-identifier token whose value is exactly that name *)
Theorem C09_quoted_identifier_roundtrip : forall s rest, no_newline s ->
  (match rest with c :: _ => c <> 96%N | [] => True end) ->
  lex1 (bq_quote s ++ rest) = Tok KQuotedIdentifier s (length (bq_quote s)).
Proof. exact quoted_roundtrip. Qed.
Print Assumptions C09_quoted_identifier_roundtrip.

(** a hexadecimal literal is one number token whose value is the decimal spelling of the same
    number (one error token over the whole literal when it does not fit in 64 bits) *)
Theorem C09_hexadecimal : forall x ds rest, (x = 120 \/ x = 88)%N -> ds <> [] -> forallb is_hex_digit ds = true ->
  (match rest with c :: _ => is_hex_digit c = false | [] => True end) ->
  lex1 (48%N :: x :: ds ++ rest) =
    (if (hex_value ds <? two64)%N then Tok KNumber (N_to_dec (hex_value ds)) (2 + length ds) else Tok KError [] (2 + length ds))
  /\ dec_value (N_to_dec (hex_value ds)) = hex_value ds.
Proof. exact hex_spec. Qed.
Print Assumptions C09_hexadecimal.

(** decimal literals are normalised by removing leading zeros and writing one zero before a
    leading `.`, `e` or `E`: the same number; an integer literal keeps its value *)
Theorem C09_normalisation : forall s, exists k rest, s = repeat 48%N k ++ rest /\
  (match rest with c :: _ => c <> 48%N | [] => True end) /\
  normalize_number s =
    match rest with
    | [] => [48%N]
    | c :: _ => if ((c =? 46) || (c =? 101) || (c =? 69))%N then 48%N :: rest else rest
    end.
Proof. exact normalize_spec. Qed.
Print Assumptions C09_normalisation.

Theorem C09_integer_value : forall s, forallb is_digit s = true -> dec_value (normalize_number s) = dec_value s.
Proof. exact normalize_integer_value. Qed.
Print Assumptions C09_integer_value.

(** scanning a token's own text alone gives the same token: same kind, same value, same length *)
Theorem C09_rescan : forall s t, In t (scan s) ->
  scan (slice s (tstart t) (tend t)) = [mkTok (tkind t) 0 (tend t - tstart t) (tvalue t)].
Proof. exact token_rescan. Qed.
Print Assumptions C09_rescan.

Theorem C09_item_rescan : forall l k v n, l <> [] -> lex1 l = Tok k v n -> lex1 (firstn n l) = Tok k v n.
Proof. exact lex1_rescan. Qed.
Print Assumptions C09_item_rescan.

Example C09_example : map tkind (scan (L "a<=0x1f // c")) = [KIdentifier; KLE; KNumber].
Proof. vm_compute. reflexivity. Qed.

(** ** layout between tokens *)
From PQL Require Import Proofs.LexCut Proofs.Layout.

(** look-ahead stops at white space: a token read from a text is read unchanged when an ASCII
    white-space byte (newline, space, tab, carriage return) or a semicolon, and then anything,
    follows the text *)
Theorem C09_lookahead_stops_at_white_space : forall x a b k v n, neutral x -> lex1 a = Tok k v n -> k <> KError ->
  lex1 (a ++ x :: b) = Tok k v n.
Proof. exact lex1_fwd. Qed.
Print Assumptions C09_lookahead_stops_at_white_space.

(** token texts laid out with gaps (in front: any white space and complete // comments; between
    tokens and optionally at the end: the same, beginning with a white-space byte) scan to exactly
    those tokens - kind, value, length - and nothing else *)
Theorem C09_spaced_layout_scans_to_its_tokens : forall g0 items s, gap g0 -> spaced items s ->
  map tok_kvl (scan (g0 ++ s)) = map item_kvl items.
Proof. exact scan_spaced. Qed.
Print Assumptions C09_spaced_layout_scans_to_its_tokens.

(** kind and value of a token are functions of its text *)
Theorem C09_kind_value_from_text : forall s1 s2, map (tok_text s1) (scan s1) = map (tok_text s2) (scan s2) ->
  Forall2 (fun t t' => tkind t = tkind t' /\ tvalue t = tvalue t') (scan s1) (scan s2).
Proof. exact same_texts_same_kv. Qed.
Print Assumptions C09_kind_value_from_text.

(** ** string literals (Proofs/LexValues.v) *)
From PQL Require Import Proofs.LexValues Spec.NumValue.
(** round trip: any byte string, written between single or double quotes with the quote and the
    backslash escaped by a backslash and a newline written \n, lexes to exactly one string token
    whose value is that byte string (bytes >= 0x80, valid UTF-8 or not, are kept as they are) *)
Theorem C09_string_roundtrip : forall q s rest, (q = 34 \/ q = 39)%N ->
  lex1 (str_quote q s ++ rest) = Tok KString s (List.length (str_quote q s)).
Proof. exact string_roundtrip. Qed.
Print Assumptions C09_string_roundtrip.

(** the escapes decode as documented: \n newline, \t tab, a backslash before any other ASCII
    character stands for that character *)
Theorem C09_string_escapes : forall q c rest, (q = 34 \/ q = 39)%N -> (c < 128)%N -> c <> 10%N ->
  lex1 (q :: 92%N :: c :: q :: rest) =
  Tok KString [if (c =? 110)%N then 10%N else if (c =? 116)%N then 9%N else c] 4.
Proof. exact string_escape_table. Qed.
Print Assumptions C09_string_escapes.

(** strings are one-line: end of text or a newline before the closing quote gives one error token *)
Theorem C09_string_unterminated : forall q s, (q = 34 \/ q = 39)%N ->
  forallb (fun c => (c <? 128)%N && negb (c =? q)%N && negb (c =? 92)%N && negb (c =? 10)%N) s = true ->
  (exists n, lex1 (q :: s) = Tok KError [] n) /\ (forall rest, exists n, lex1 (q :: s ++ 10%N :: rest) = Tok KError [] n).
Proof. exact string_unterminated. Qed.
Print Assumptions C09_string_unterminated.

(** ** number literals denote the number their source text denotes (Spec/NumValue.v): mantissa,
    number of fraction digits and exponent of the normalised spelling are those of the source
    text (decimal, leading zeros, leading point, fraction, exponent), and a hexadecimal literal's
    value is the decimal spelling of the number its digits denote *)
Theorem C09_number_value : forall s t, In t (scan s) -> tkind t = KNumber ->
  num_parts (tvalue t) = src_num_parts (slice s (tstart t) (tend t)).
Proof. exact scanned_number_value. Qed.
Print Assumptions C09_number_value.

Theorem C09_normalisation_keeps_value : forall s, num_parts (normalize_number s) = num_parts s.
Proof. exact normalize_parts. Qed.
Print Assumptions C09_normalisation_keeps_value.

(** ** the accessors of number literals agree with the spelling (Proofs/LexValues.v): a number
    token is a float exactly when it is not an integer; an integer token's value is a run of decimal
    digits, it denotes that integer (no fraction, no exponent), and Uint64 returns it when it fits
    in 64 bits (0 otherwise, as the Go accessor does on overflow) *)
Theorem C09_number_accessors : forall s t, In t (scan s) -> tkind t = KNumber ->
  lit_is_float KNumber (tvalue t) = negb (lit_is_integer KNumber (tvalue t)) /\
  (lit_is_integer KNumber (tvalue t) = true ->
     num_parts (tvalue t) = (dec_value (tvalue t), 0%nat, 0%Z) /\
     lit_uint64 KNumber (tvalue t) = Some (if (dec_value (tvalue t) <? two64)%N then dec_value (tvalue t) else 0%N)).
Proof. exact number_accessors. Qed.
Print Assumptions C09_number_accessors.
