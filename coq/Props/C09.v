(** * C09 — the lexer partitions the source into the documented tokens. *)
From PQL Require Import Model.Lexer Proofs.LexerFacts Proofs.SplitFacts.
From Coq Require Import String.
Local Open Scope list_scope.
Local Open Scope nat_scope.
Local Notation length := List.length (only parsing).

(** tokens come in source order, are non-empty, do not overlap and lie inside the source *)
Theorem C09_partition : forall s, toks_within 0 (length s) (scan s).
Proof. exact scan_within. Qed.
Print Assumptions C09_partition.

(** every token is the lexical item that starts at its own offset, with that item's kind,
    value and length: the scanner carries no state from one token to the next *)
Theorem C09_token_is_item_at_offset : forall s t, In t (scan s) -> item_at s t.
Proof. exact scan_items. Qed.
Print Assumptions C09_token_is_item_at_offset.

(** every item consumes at least one byte and never reads past the end *)
Theorem C09_progress : forall l, l <> [] -> 1 <= item_len (lex1 l) <= length l.
Proof. exact lex1_progress. Qed.
Print Assumptions C09_progress.

(** the scan loop never runs out of fuel: any fuel above the length gives the same tokens *)
Theorem C09_fuel_irrelevant : forall f1 f2 off l, length l < f1 -> length l < f2 ->
  scan_from f1 off l = scan_from f2 off l.
Proof. exact scan_from_fuel. Qed.
Print Assumptions C09_fuel_irrelevant.

Example C09_example : map tkind (scan (L "a<=0x1f // c")) = [KIdentifier; KLE; KNumber].
Proof. vm_compute. reflexivity. Qed.
