(** * C12 — scanning, parsing and compiling are total (partial). *)
From PQL Require Import Model.Compile Model.Walk Model.Parser Proofs.LexerFacts Proofs.TableFacts Proofs.WriterFacts Proofs.WalkFacts Proofs.WalkTree.
From Coq Require Import String.
Local Open Scope list_scope.
Local Open Scope nat_scope.
Local Notation length := List.length (only parsing).

(** Scan: every step consumes at least one byte, so the loop ends; fuel above the length is never exhausted *)
Theorem C12_scan_progress : forall l, l <> [] -> 1 <= item_len (lex1 l) <= length l.
Proof. exact lex1_progress. Qed.
Print Assumptions C12_scan_progress.

Theorem C12_scan_total : forall f1 f2 off l, length l < f1 -> length l < f2 -> scan_from f1 off l = scan_from f2 off l.
Proof. exact scan_from_fuel. Qed.
Print Assumptions C12_scan_total.

(** SplitStatements: the slices it takes are in bounds *)
Theorem C12_split_in_bounds : forall s, toks_within 0 (length s) (scan s).
Proof. exact scan_within. Qed.
Print Assumptions C12_split_in_bounds.

(** Walk: no reachable node type falls into the panicking default branch *)
Theorem C12_walk_no_default :
  forallb (fun k => match walk_children k with Some _ => true | None => false end) walk_reachable = true.
Proof. exact walk_table_total. Qed.
Print Assumptions C12_walk_no_default.

(** the expression writer unwraps parentheses by structural recursion: one level per step *)
Theorem C12_paren_unwrap_terminates : forall c w l x r, wx c w (EParen l x r) = wx c w x.
Proof. exact wx_paren. Qed.
Print Assumptions C12_paren_unwrap_terminates.

(** Walk over any statement the parser can build returns normally for every visitor *)
Theorem C12_walk_total : forall visitor s,
  exists vs, forall fuel, length vs < fuel -> walk_loop fuel visitor 0 [WNode (g_stmt s)] [] = WOk vs.
Proof.
  intros visitor s. destruct (walk_is_preorder visitor (g_stmt s) (walkable_stmt s)) as (vs & c' & _ & H).
  exists vs. exact H.
Qed.
Print Assumptions C12_walk_total.

(** ** the parser's fuel is never exhausted *)
From PQL Require Import Proofs.ParserFuel.

(** The recursive-descent model runs on fuel, one unit per call level; the call depth is bounded
    by 4 x tokens + 6 (shown by induction over every production, with the fact that a production
    never returns more tokens than it was given and that an operator passing the precedence
    threshold is consumed), so the fuel Parse starts with, 6 x tokens + 12, is never used up:
    for every source, the model of Parse returns a tree or errors, never "out of fuel".  The
    statement, list and column loops run on a counter above the number of tokens and each
    iteration consumes one. *)
Theorem C12_parse_never_out_of_fuel : forall s, parse s <> ParseOutOfFuel.
Proof. exact parse_never_out_of_fuel. Qed.
Print Assumptions C12_parse_never_out_of_fuel.

Theorem C12_expr_depth_bound : forall srclen f ts x rest e, 4 * length ts + 4 <= f -> p_expr srclen f ts = (x, rest, e) -> nofuel e.
Proof. exact p_expr_nofuel. Qed.
Print Assumptions C12_expr_depth_bound.

Theorem C12_compile_never_out_of_fuel : forall params s, compile params s <> CFuel.
Proof. exact compile_never_out_of_fuel. Qed.
Print Assumptions C12_compile_never_out_of_fuel.
