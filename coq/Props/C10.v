(** * C10 — source positions are exact (partial). *)
From PQL Require Import Model.Compile Model.Walk Proofs.TableFacts.
From Coq Require Import String.
Local Open Scope list_scope.
Local Open Scope nat_scope.
Local Notation length := List.length (only parsing).

(** every Span method unions all the span-bearing fields of its node type *)
Theorem C10_span_table_complete :
  forallb (fun k => forallb (fun f => existsb (fun p => fname_eqb (spart_field p) f) (span_parts k)) (span_bearing k)) all_nkinds = true.
Proof. exact span_table_complete. Qed.
Print Assumptions C10_span_table_complete.

(** and reads each of them with the accessor that fits its type *)
Theorem C10_span_table_well_typed :
  forallb (fun k => forallb (fun p =>
    match p, field_type (ast_fields k) (spart_field p) with
    | SP_Span _, Some FT_Span => true
    | SP_Node _, Some (FT_Ptr _) | SP_Node _, Some FT_Iface => true
    | SP_Slice _, Some (FT_Slice _) => true
    | _, _ => false
    end) (span_parts k)) all_nkinds = true.
Proof. exact span_table_well_typed. Qed.
Print Assumptions C10_span_table_well_typed.

(** ** positions of a successfully parsed program *)
From PQL Require Import Spec.FlattenStmt Proofs.LexerFacts Proofs.SpanFacts.

(** If [Parse] succeeds: (1) the tree represents the source's token sequence, and in that
    representation ([toks_prog]) every recorded position -- a name's, a literal's, an operator's,
    keyword's or bracket's -- is by definition the span of the corresponding token, with that
    token's kind and text; (2) the tokens lie in order, non-empty, inside the source; (3) the
    statements' overall spans (computed by the Span() unions of the generated [span_parts]
    table) are the extents of their tokens, in order, inside the source.  For every source. *)
Theorem C10_parse_spans : forall s ss, parse s = ParseOk ss ->
  toks_prog ss (scan s) /\ toks_within 0 (length s) (scan s) /\ spans_within 0 (length s) (map gspan (map g_stmt ss)).
Proof. exact parse_spans. Qed.
Print Assumptions C10_parse_spans.

(** A node's overall span is the extent from its first to its last token -- for every
    expression, list element, sort term, column, operator and statement, in any layout
    (the tokens only have to be in order, which [scan] guarantees). *)
Theorem C10_expr_extent : forall e ts, toks_expr e ts -> forall lo hi, toks_within lo hi ts -> gspan (g_expr e) = ext ts.
Proof. exact (proj1 expr_span). Qed.
Print Assumptions C10_expr_extent.

Theorem C10_operator_extent : forall o ts, toks_op o ts -> ts <> [] /\ forall lo hi, toks_within lo hi ts -> gspan (g_op o) = ext ts.
Proof. exact (proj1 op_span). Qed.
Print Assumptions C10_operator_extent.

Theorem C10_statement_extent : forall s ts, toks_stmt s ts -> ts <> [] /\ forall lo hi, toks_within lo hi ts -> gspan (g_stmt s) = ext ts.
Proof. exact stmt_span. Qed.
Print Assumptions C10_statement_extent.

(** the extent of a piece of the token sequence lies inside any bounds the sequence has: a
    node's span contains the spans of all its parts *)
Theorem C10_part_inside : forall a b c lo hi, toks_within lo hi (a ++ b ++ c) ->
  inside lo hi (ext b) /\ (b <> [] -> inside (lo_of (a ++ b ++ c)) (hi_of (a ++ b ++ c)) (ext b)).
Proof.
  intros a b c lo hi W. split.
  - destruct (within_app _ _ _ _ W) as [_ W2]. destruct (within_app _ _ _ _ W2) as [W3 _]. apply ext_inside. exact W3.
  - intros Hb. assert (Hne : a ++ b ++ c <> []) by (destruct a; [destruct b; [congruence|discriminate]|discriminate]).
    pose proof (within_tight _ _ _ W Hne) as Wt.
    destruct (within_app _ _ _ _ Wt) as [_ W2]. destruct (within_app _ _ _ _ W2) as [W3 _]. apply ext_inside. exact W3.
Qed.
Print Assumptions C10_part_inside.

(** ** failed parses: error positions lie inside the source (Proofs/ParserPos.v) *)
From PQL Require Import Proofs.ParserPos Proofs.LineCol.

(** every position attached to a parse error is an offset of the source (0 .. length, the end
    included: "unexpected end of input" points at the end).  By induction over every production of
    the parser model: an error position is always the start of one of the tokens given or the
    source length. *)
Theorem C10_parse_error_positions : forall s e, parse s = ParseErr e ->
  Forall (fun x => match epos x with Some p => (p <= List.length s)%nat | None => True end) e.
Proof. exact parse_error_positions. Qed.
Print Assumptions C10_parse_error_positions.

(** line:column of an offset: the line is one more than the number of newline bytes before the
    offset - so it is a line of the source - and the column is at least 1 *)
Theorem C10_linecol : forall s p,
  fst (linecol s p) = (1 + count_nl (firstn p s))%nat /\ (1 <= snd (linecol s p))%nat /\ (fst (linecol s p) <= 1 + count_nl s)%nat.
Proof.
  intros s p. destruct (linecol_spec s p) as [H1 H2]. destruct (linecol_line_in_source s p) as [_ H3]. repeat split; assumption.
Qed.
Print Assumptions C10_linecol.

(** on a line of ASCII characters without tabs the column is the distance from the line start plus one *)
Theorem C10_linecol_plain_line : forall pre line_text rest,
  forallb (fun c => (c <? 128)%N && negb (c =? 10)%N && negb (c =? 9)%N) line_text = true ->
  linecol (pre ++ 10%N :: line_text ++ rest) (List.length pre + 1 + List.length line_text)%nat =
  ((2 + count_nl pre)%nat, (1 + List.length line_text)%nat).
Proof. exact linecol_plain_line. Qed.
Print Assumptions C10_linecol_plain_line.

(** ** compile errors (Proofs/CompilePos.v) *)
From PQL Require Import Model.Compile Proofs.CompilePos.

(** every position Compile attaches to an error - wrong number of arguments, $left/$right outside a
    join condition, a let value that is not closed, an unknown join kind, a second query - is an
    offset of the source: it is the start of a span recorded in the tree, and for a parsed program
    those spans are token extents inside the source.  For every source and every parameter list. *)
Theorem C10_compile_error_positions : forall params s p, compile params s = CErr (Some p) -> (p <= List.length s)%nat.
Proof. exact compile_error_positions. Qed.
Print Assumptions C10_compile_error_positions.
