(** * C10 — source positions are exact (partial). *)
From PQL Require Import Model.Compile Model.Walk Proofs.TableFacts.
From Coq Require Import String.
Local Open Scope list_scope.
Local Open Scope nat_scope.
Local Notation length := List.length (only parsing).

(** every Span method unions all the span-bearing fields of its node type *)
Theorem C10_span_table_complete :
  forallb (fun k => forallb (fun f => existsb (fun p => fname_eqb (spart_field p) f) (span_parts k)) (span_bearing k)) all_nkinds = true.
Proof. exact span_table_complete. Qed.
Print Assumptions C10_span_table_complete.

(** and reads each of them with the accessor that fits its type *)
Theorem C10_span_table_well_typed :
  forallb (fun k => forallb (fun p =>
    match p, field_type (ast_fields k) (spart_field p) with
    | SP_Span _, Some FT_Span => true
    | SP_Node _, Some (FT_Ptr _) | SP_Node _, Some FT_Iface => true
    | SP_Slice _, Some (FT_Slice _) => true
    | _, _ => false
    end) (span_parts k)) all_nkinds = true.
Proof. exact span_table_well_typed. Qed.
Print Assumptions C10_span_table_well_typed.
