(** * C16 — the command-line tool compiles exactly the statements it is given (partial). *)
From PQL Require Import Model.Cli Spec.CliSpec Proofs.CliFacts Proofs.CliSpecFacts.
From Coq Require Import String.
Local Open Scope list_scope.
Local Open Scope nat_scope.
Local Notation length := List.length (only parsing).

Theorem C16_failure_is_sticky : forall evs st, failed st = true -> o_fail (run_events st evs) = true.
Proof. exact failure_is_sticky. Qed.
Print Assumptions C16_failure_is_sticky.

Theorem C16_read_error_nonzero : forall evs, In ReadError evs -> forall st, o_fail (run_events st evs) = true.
Proof. exact read_error_fails. Qed.
Print Assumptions C16_read_error_nonzero.

Theorem C16_failed_statement : forall st p,
  (if is_let_piece p then compile_ok (prelude st ++ p ++ semi_x) else compile_ok (prelude st ++ p)) = None ->
  failed (do_piece st p) = true /\ prelude (do_piece st p) = prelude st /\ out (do_piece st p) = out st.
Proof. exact failed_piece. Qed.
Print Assumptions C16_failed_statement.

Theorem C16_query_statement : forall st p sql, is_let_piece p = false -> compile_ok (prelude st ++ p) = Some sql ->
  out (do_piece st p) = out st ++ sql ++ [10; 10]%N /\ prelude (do_piece st p) = prelude st /\ failed (do_piece st p) = failed st.
Proof. exact ok_query_piece. Qed.
Print Assumptions C16_query_statement.

Theorem C16_let_statement : forall st p sql, is_let_piece p = true -> compile_ok (prelude st ++ p ++ semi_x) = Some sql ->
  out (do_piece st p) = out st /\ prelude (do_piece st p) = prelude st ++ p ++ semi_nl /\ failed (do_piece st p) = failed st.
Proof. exact ok_let_piece. Qed.
Print Assumptions C16_let_statement.

Theorem C16_output_append_only : forall evs st, exists suffix, o_stdout (run_events st evs) = out st ++ suffix.
Proof. exact output_is_append_only. Qed.
Print Assumptions C16_output_append_only.

(** The main statement.  [expected script] (coq/Spec/CliSpec.v) is the one-shot specification: cut the
    whole script at its semicolon tokens; every piece but the last is a terminated statement, handled
    in order with the accumulated let prelude (a let is accepted into the prelude or reported, a query
    printed followed by a blank line or reported); the last piece is compiled as a query under the
    prelude if it has any token.  For every list of lines - several statements per line, statements
    across lines, comments and blank lines between, last statement terminated or not - the tool's line
    loop (re-splitting its growing buffer after every line, carrying the unterminated rest) computes
    exactly that on the text it has read. *)
Theorem C16_run_is_expected : forall lines, run (map Line lines) = expected (text_of lines).
Proof. exact run_is_expected. Qed.
Print Assumptions C16_run_is_expected.

(** layout freedom: two ways of cutting the same text into lines behave the same *)
Theorem C16_layout_free : forall l1 l2, text_of l1 = text_of l2 -> run (map Line l1) = run (map Line l2).
Proof. exact layout_free. Qed.
Print Assumptions C16_layout_free.

(** the lexer fact it rests on: a newline is a hard token boundary *)
Theorem C16_newline_boundary : forall a b,
  scan (a ++ 10%N :: b) = scan (a ++ [10%N]) ++ map (ScanCut.shift_tok (S (length a))) (scan b).
Proof. exact ScanCut.scan_nl. Qed.
Print Assumptions C16_newline_boundary.

(** ** from the script's bytes to the lines (Proofs/CliLines.v; bufio.Scanner / ScanLines with its
    64 KiB limit is modelled by [events_of], coq/Model/Show.v) *)
From PQL Require Import Model.Show Proofs.CliLines.

(** nothing is dropped between the bytes read and the lines processed: the lines, joined with
    newlines, are the script (plus one newline when the last line was not terminated) *)
Theorem C16_lines_cover_script : forall s,
  exists tail, (tail = [] \/ tail = [10%N]) /\ text_of (split_lines (S (length s)) s) = s ++ tail.
Proof. intros s. apply lines_cover_script. apply Nat.lt_succ_diag_r. Qed.
Print Assumptions C16_lines_cover_script.

(** when no line reaches the limit, the run on the script's bytes is the one-shot specification on
    the script's own text, each line without its trailing carriage return *)
Theorem C16_script_is_expected : forall s, forallb short (split_lines (S (length s)) s) = true ->
  run (events_of (S (length s)) s) = expected (text_of (map strip_cr (split_lines (S (length s)) s))).
Proof. exact script_is_expected. Qed.
Print Assumptions C16_script_is_expected.

Theorem C16_script_without_cr : forall s, forallb (fun c => negb (c =? 13)%N) s = true ->
  forallb short (split_lines (S (length s)) s) = true ->
  exists tail, (tail = [] \/ tail = [10%N]) /\ run (events_of (S (length s)) s) = expected (s ++ tail).
Proof. exact script_without_cr. Qed.
Print Assumptions C16_script_without_cr.

(** a line that reaches the limit cannot be read completely: the exit status is non-zero *)
Theorem C16_long_line_fails : forall s, forallb short (split_lines (S (length s)) s) = false ->
  o_fail (run (events_of (S (length s)) s)) = true.
Proof. exact long_line_fails. Qed.
Print Assumptions C16_long_line_fails.

(** a query at the end of the input is treated the same whether or not a semicolon follows it:
    compiling the last piece as an unterminated query is the same as handling it as a terminated
    statement with nothing after it; on scripts, whenever the appended semicolon is a token of its
    own (not swallowed by an unterminated comment, string or quoted name) *)
Theorem C16_last_query_either_way : forall st p, is_let_piece p = false -> scan p <> [] ->
  finish (set_pending st p) false = finish (set_pending (do_piece st p) []) false.
Proof. exact last_query_either_way. Qed.
Print Assumptions C16_last_query_either_way.

Theorem C16_trailing_semicolon : forall s,
  split_statements (s ++ [59%N]) = split_statements s ++ [[]] ->
  is_let_piece (last (split_statements s) []) = false -> scan (last (split_statements s) []) <> [] ->
  expected (s ++ [59%N]) = expected s.
Proof. exact trailing_semicolon. Qed.
Print Assumptions C16_trailing_semicolon.
