(** * C08 — the parser accepts only what its tree represents (partial). *)
From PQL Require Import Model.Parser Proofs.ParserFacts.
From Coq Require Import String.
Local Open Scope list_scope.
Local Open Scope nat_scope.
Local Notation length := List.length (only parsing).

(** cutting a token range for a sub-parser never loses or reorders tokens *)
Theorem C08_split_partition : forall search ts, fst (split search ts) ++ snd (split search ts) = ts.
Proof. exact split_partition. Qed.
Print Assumptions C08_split_partition.

Theorem C08_split_semi_partition : forall ts, fst (split_semi ts) ++ snd (split_semi ts) = ts.
Proof. exact split_semi_app. Qed.
Print Assumptions C08_split_semi_partition.

(** a token left unconsumed in a sub-parser's range is an error *)
Theorem C08_end_split_reports : forall ts, ts <> [] -> end_split ts <> [].
Proof. exact end_split_reports. Qed.
Print Assumptions C08_end_split_reports.

(** if the sub-parser of a statement stops before the end of its range, Parse fails: trailing
    garbage after a statement is never ignored *)
Theorem C08_leftover_tokens_rejected : forall srclen n fuel ts acc,
  let sub := fst (split_semi ts) in
  let '(s, subrest, e) := p_statement srclen fuel sub in
  subrest <> [] -> snd (p_statements srclen (S n) fuel ts acc) <> [].
Proof. exact leftover_tokens_rejected. Qed.
Print Assumptions C08_leftover_tokens_rejected.

(** errors recorded for one statement are never dropped by later statements *)
Theorem C08_errors_accumulate : forall srclen n fuel ts acc, acc <> [] -> snd (p_statements srclen n fuel ts acc) <> [].
Proof. exact p_statements_acc. Qed.
Print Assumptions C08_errors_accumulate.

(** ** expressions: a successful parse consumed exactly the tree's token sequence *)
From PQL Require Import Spec.Flatten Proofs.ParserSound.

(** Whenever the expression parser returns a tree and no error, the tokens it consumed are the
    tree's own token sequence ([toks_expr], Spec/Flatten.v: every token accounted for, in order,
    every recorded position the span of its token; the one freedom is a comma directly before
    the ')' of a call), and what it leaves is the untouched suffix.  For every fuel, every
    token list, every nesting depth. *)
Theorem C08_expr_sound : forall srclen f ts x rest,
  p_expr srclen f ts = (Some x, rest, []) -> exists used, ts = used ++ rest /\ toks_expr x used.
Proof. exact p_expr_sound. Qed.
Print Assumptions C08_expr_sound.

Theorem C08_expr_list_sound : forall srclen f ts xs rest,
  p_expr_list srclen f ts = (Some xs, rest, []) -> exists used, ts = used ++ rest /\ toks_list xs used /\ xs <> [].
Proof. exact p_expr_list_sound. Qed.
Print Assumptions C08_expr_list_sound.

(** "not found" is only ever reported without consuming anything: an optional production that
    backs out leaves the cursor where it was *)
Theorem C08_not_found_consumes_nothing : forall srclen f ts x rest e,
  p_expr srclen f ts = (x, rest, e) -> is_nf e = true -> rest = ts.
Proof. exact p_expr_nf. Qed.
Print Assumptions C08_not_found_consumes_nothing.

(** ** the whole parser *)
From PQL Require Import Spec.FlattenStmt Proofs.ParserSoundStmt Proofs.ParserReject.

(** If [Parse] succeeds on a source, the source's token sequence is exactly the token sequence
    of the returned statements ([toks_prog], Spec/FlattenStmt.v): every significant token is
    accounted for in the tree, in order, with the kind and (for names, literals, keywords) the
    text the grammar demands at that place; the only tokens that leave no trace are the comma
    directly before ')' of a call or before `by` in summarize, and the semicolons around empty
    statements.  For every source. *)
Theorem C08_parse_sound : forall s ss, parse s = ParseOk ss -> toks_prog ss (scan s).
Proof. exact parse_sound. Qed.
Print Assumptions C08_parse_sound.

(** Consequently a source with an error token (unrecognised character, unterminated string or
    quoted identifier, malformed number) anywhere is rejected. *)
Theorem C08_error_token_rejected : forall s t, In t (scan s) -> tkind t = KError -> forall ss, parse s <> ParseOk ss.
Proof. exact error_token_rejected. Qed.
Print Assumptions C08_error_token_rejected.

(** the premise is satisfiable: a program using most productions parses *)
Example C08_parse_sound_nonvacuous :
  exists ss, parse (L "let n = 3; T | where a == -f(b[1], 2,) and c in (1, 2) | summarize x = count(), by k | join kind=inner (U | take n) on k | sort by x desc nulls last;;") = ParseOk ss.
Proof. eexists. vm_compute. reflexivity. Qed.
