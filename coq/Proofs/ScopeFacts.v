(** * C06: the output depends on the scope only through the names the program uses.
    [uses_e k e]: does an unquoted, unqualified identifier spelled [k] occur in [e] in expression
    position (function names do not count).  If two scopes agree on every name but [k] and the
    program never uses [k], they give the same output: unused bindings (parameters or lets) do not
    change it.  A used parameter is inserted verbatim. *)
From PQL Require Import Model.Compile Proofs.ExprInd Proofs.PipelineFacts Proofs.JoinFacts Proofs.WriterFacts.
From Coq Require Import Lia String.
Local Open Scope list_scope.
Local Open Scope nat_scope.
Local Notation length := List.length (only parsing).

Definition names_ident (k : str) (ps : list ident) : bool :=
  match ps with [p] => negb (iquoted p) && str_eqb (iname p) k | _ => false end.

Fixpoint uses_e (k : str) (e : expr) : bool :=
  match e with
  | EQual ps => names_ident k ps
  | EBin x _ _ y => uses_e k x || uses_e k y
  | EUnary _ _ x => uses_e k x
  | EIn x _ _ vs _ => uses_e k x || existsb (uses_e k) vs
  | EParen _ x _ => uses_e k x
  | ELit _ _ _ => false
  | ECall _ _ args _ => existsb (uses_e k) args
  | EIndex x _ i _ => uses_e k x || uses_e k i
  end.

Definition uses_st k (t : sort_term) := uses_e k (st_x t).
Definition uses_pc k (c : proj_col) := match pc_x c with Some x => uses_e k x | None => names_ident k [pc_name c] end.
Definition uses_ec k (c : ext_col) := uses_e k (ec_x c).

(** a join without conditions (the parser builds none) is compiled as `on true` *)
Definition uses_conds (k : str) (conds : list expr) : bool :=
  match conds with [] => names_ident k [mkIdent w_true None false] | _ => existsb (uses_e k) conds end.

Fixpoint uses_op (k : str) (o : operator) : bool :=
  match o with
  | OCount _ _ | OAs _ _ _ | ORender _ _ _ _ _ _ _ => false
  | OWhere _ _ x => uses_e k x
  | OSort _ _ ts => existsb (uses_st k) ts
  | OTake _ _ n => uses_e k n
  | OTop _ _ n _ c => uses_e k n || uses_st k c
  | OProject _ _ cs => existsb (uses_pc k) cs
  | OExtend _ _ cs => existsb (uses_ec k) cs
  | OSummarize _ _ cs _ gs => existsb (uses_ec k) cs || existsb (uses_ec k) gs
  | OJoin _ _ _ _ _ _ _ rops _ _ conds => existsb (uses_op k) rops || uses_conds k conds
  end.

Definition uses_stmt (k : str) (s : stmt) : bool :=
  match s with SLet _ _ _ x => uses_e k x | STab t => existsb (uses_op k) (tops t) end.

Definition agree_except (k : str) (sc sc' : scope) : Prop := forall n, n <> k -> scope_get sc n = scope_get sc' n.

Lemma existsb_false_Forall {A} (f : A -> bool) l : existsb f l = false -> Forall (fun x => f x = false) l.
Proof. induction l as [|a r IH]; cbn [existsb]; intros H; constructor; apply Bool.orb_false_iff in H as [H1 H2]; auto. Qed.

Lemma map_ext_Forall {A B} (f g : A -> B) l : Forall (fun x => f x = g x) l -> map f l = map g l.
Proof. induction 1 as [|a r Ha Hr IH]; cbn [map]; congruence. Qed.

Section Expr.
Variables (k : str) (sc sc' : scope) (m : mode).
Hypothesis Hag : agree_except k sc sc'.

Theorem wx_unused : forall e w, uses_e k e = false -> wx (mkCtx sc m) w e = wx (mkCtx sc' m) w e.
Proof.
  induction e using expr_ind'; intros w Hu; cbn [uses_e] in Hu.
  - (* identifiers *)
    cbn [wx c_scope c_mode]. destruct ps as [|p [|p2 r]]; try reflexivity.
    cbn [names_ident] in Hu. destruct (iquoted p) eqn:Eq; cbn [negb andb] in *; [reflexivity|].
    rewrite (Hag (iname p)); [reflexivity|]. intros E. rewrite E, str_eqb_refl in Hu. discriminate.
  - apply Bool.orb_false_iff in Hu as [H1 H2]. cbn [wx c_mode]. rewrite !(IHe1 _ H1), !(IHe2 _ H2). reflexivity.
  - cbn [wx]. rewrite (IHe _ Hu). reflexivity.
  - apply Bool.orb_false_iff in Hu as [H1 H2].
    assert (HF : Forall (fun x => wx (mkCtx sc m) WMaybe x = wx (mkCtx sc' m) WMaybe x) vs).
    { apply existsb_false_Forall in H2. rewrite Forall_forall in H, H2 |- *. intros x Hx. apply H; [exact Hx|apply H2; exact Hx]. }
    cbn [wx]. rewrite (IHe _ H1), (map_ext_Forall _ _ _ HF). reflexivity.
  - rewrite !wx_paren. apply IHe. exact Hu.
  - reflexivity.
  - (* calls *)
    apply existsb_false_Forall in Hu.
    assert (Hargs : forall w0, Forall (fun a => wx (mkCtx sc m) w0 a = wx (mkCtx sc' m) w0 a) args).
    { intros w0. rewrite Forall_forall in H, Hu |- *. intros x Hx. apply H; [exact Hx|apply Hu; exact Hx]. }
    cbn [wx]. destruct (known_func (iname f)) as [[wr np]|].
    + destruct (negb (arity_ok (writer_arity wr) (length args))); [reflexivity|].
      assert (Hgo : forall l i, Forall (fun a => wx (mkCtx sc m) WMaybe a = wx (mkCtx sc' m) WMaybe a) l ->
                                Forall (fun a => wx (mkCtx sc m) WPlain a = wx (mkCtx sc' m) WPlain a) l ->
        (fix go (i : nat) (l : list expr) {struct l} : list (res (list piece)) :=
           match l with
           | [] => []
           | a :: r => match arg_use (writer_template wr) i with
                       | Some true => wx (mkCtx sc m) WMaybe a
                       | Some false => wx (mkCtx sc m) WPlain a
                       | None => Ok []
                       end :: go (S i) r
           end) i l =
        (fix go (i : nat) (l : list expr) {struct l} : list (res (list piece)) :=
           match l with
           | [] => []
           | a :: r => match arg_use (writer_template wr) i with
                       | Some true => wx (mkCtx sc' m) WMaybe a
                       | Some false => wx (mkCtx sc' m) WPlain a
                       | None => Ok []
                       end :: go (S i) r
           end) i l).
      { induction l as [|a r IHr]; intros i HM HP; [reflexivity|].
        inversion HM as [|? ? HM1 HM2]; subst. inversion HP as [|? ? HP1 HP2]; subst.
        rewrite (IHr (S i) HM2 HP2). destruct (arg_use (writer_template wr) i) as [[|]|]; congruence. }
      rewrite (Hgo args 0 (Hargs WMaybe) (Hargs WPlain)). reflexivity.
    + rewrite (map_ext_Forall _ _ _ (Hargs WPlain)). reflexivity.
  - apply Bool.orb_false_iff in Hu as [H1 H2]. cbn [wx]. rewrite (IHe1 _ H1), (IHe2 _ H2). reflexivity.
Qed.
End Expr.

Section Prog.
Variables (k : str) (sc sc' : scope).
Hypothesis Hag : agree_except k sc sc'.

Lemma bare_name_unused e : uses_e k e = false -> bare_name sc e = bare_name sc' e.
Proof.
  destruct e as [ps| | | | | | |]; try reflexivity. destruct ps as [|p [|p2 r]]; try reflexivity.
  cbn [uses_e names_ident bare_name]. destruct (iquoted p); cbn [negb andb]; [reflexivity|]. intros Hu.
  rewrite (Hag (iname p)); [reflexivity|]. intros E. rewrite E, str_eqb_refl in Hu. discriminate.
Qed.

Lemma rewrite_cond_unused e : uses_e k e = false ->
  rewrite_simple_cond sc e = rewrite_simple_cond sc' e /\ uses_e k (rewrite_simple_cond sc' e) = false.
Proof.
  intros Hu. unfold rewrite_simple_cond. rewrite (bare_name_unused e Hu). split; [reflexivity|].
  destruct (bare_name sc' e); [reflexivity|exact Hu].
Qed.

Lemma build_join_cond_unused conds : uses_conds k conds = false ->
  build_join_cond sc conds = build_join_cond sc' conds /\ uses_e k (build_join_cond sc' conds) = false.
Proof.
  unfold build_join_cond, uses_conds. destruct conds as [|c0 r]; [intros H; split; [reflexivity|exact H]|].
  cbn [existsb]. intros H. apply Bool.orb_false_iff in H as [H0 Hr].
  destruct (rewrite_cond_unused c0 H0) as [E0 U0]. rewrite E0. revert U0. generalize (rewrite_simple_cond sc' c0) as acc.
  induction r as [|y r IH]; intros acc Ua; cbn [fold_left]; [split; [reflexivity|exact Ua]|].
  cbn [existsb] in Hr. apply Bool.orb_false_iff in Hr as [Hy Hr'].
  destruct (rewrite_cond_unused y Hy) as [Ey Uy]. rewrite Ey. apply (IH Hr').
  cbn [uses_e]. rewrite Ua, Uy. reflexivity.
Qed.

Lemma fold_res_ext {A B} (f g : A -> B -> res A) : forall l a, Forall (fun x => forall a0, f a0 x = g a0 x) l -> fold_res f l a = fold_res g l a.
Proof.
  induction l as [|x r IH]; intros a H; cbn [fold_res]; [reflexivity|]. inversion H; subst.
  rewrite H2. destruct (g a x); cbn [bind]; [apply IH; assumption|reflexivity].
Qed.

Theorem split_op_unused : forall o, uses_op k o = false -> forall ds src dst, split_op sc ds src dst o = split_op sc' ds src dst o.
Proof.
  induction o using operator_ind'; intros Hu ds src dst.
  - destruct o; try discriminate H; reflexivity.
  - cbn [uses_op] in Hu. apply Bool.orb_false_iff in Hu as [Hr Hc].
    rewrite !split_join_unfold. cbv zeta.
    rewrite (fold_res_ext (split_op sc (length dst) rsrc) (split_op sc' (length dst) rsrc)).
    2:{ apply existsb_false_Forall in Hr. rewrite Forall_forall in H, Hr |- *. intros o Ho d. apply H; [exact Ho|apply Hr; exact Ho]. }
    destruct (build_join_cond_unused conds Hc) as [Eb Ub]. rewrite Eb.
    unfold wexpr. rewrite (wx_unused k sc sc' ModeJoin Hag _ WPlain Ub). reflexivity.
Qed.

Lemma split_queries_unused t : existsb (uses_op k) (tops t) = false -> split_queries sc [] t = split_queries sc' [] t.
Proof.
  intros Hu. unfold split_queries. rewrite (fold_res_ext (split_op sc (length (@nil subq)) (tsrc t)) (split_op sc' (length (@nil subq)) (tsrc t))); [reflexivity|].
  apply existsb_false_Forall in Hu. eapply Forall_impl; [|exact Hu]. intros o Ho d. apply split_op_unused. exact Ho.
Qed.

(** what a subquery mentions *)
Definition uses_subq (s : subq) : bool :=
  (match sq_op s with Some o => (if is_join o then false else uses_op k o) | None => false end)
  || (match sq_sort s with Some ts => existsb (uses_st k) ts | None => false end)
  || (match sq_take s with Some n => uses_e k n | None => false end).

Let c := mkCtx sc ModeDefault.
Let c' := mkCtx sc' ModeDefault.

Lemma wexpr_unused e : uses_e k e = false -> wexpr c e = wexpr c' e.
Proof. apply (wx_unused k sc sc' ModeDefault Hag). Qed.

Lemma ext_cols_unused source cols : existsb (uses_ec k) cols = false -> write_ext_cols source c cols = write_ext_cols source c' cols.
Proof.
  intros H. unfold write_ext_cols. f_equal. apply map_ext_Forall. apply existsb_false_Forall in H.
  eapply Forall_impl; [|exact H]. intros col Hc. rewrite (wexpr_unused _ Hc). reflexivity.
Qed.

Theorem write_subq_unused source s : uses_subq s = false -> write_subq source c s = write_subq source c' s.
Proof.
  unfold uses_subq. intros H. apply Bool.orb_false_iff in H as [H Ht]. apply Bool.orb_false_iff in H as [Ho Hs].
  unfold write_subq.
  assert (Hsort : (match sq_sort s with Some terms => write_sort c terms | None => Ok [] end) =
                  (match sq_sort s with Some terms => write_sort c' terms | None => Ok [] end)).
  { destruct (sq_sort s) as [ts|]; [|reflexivity]. unfold write_sort. f_equal. f_equal. apply map_ext_Forall.
    apply existsb_false_Forall in Hs. eapply Forall_impl; [|exact Hs]. intros t0 Ht0. unfold uses_st in Ht0. rewrite (wexpr_unused _ Ht0). reflexivity. }
  assert (Htake : (match sq_take s with Some n => do pn <- wexpr c n; Ok (lit " LIMIT " ++ pn) | None => Ok [] end) =
                  (match sq_take s with Some n => do pn <- wexpr c' n; Ok (lit " LIMIT " ++ pn) | None => Ok [] end)).
  { destruct (sq_take s) as [n|]; [|reflexivity]. rewrite (wexpr_unused _ Ht). reflexivity. }
  rewrite Hsort, Htake. f_equal.
  destruct (sq_op s) as [o|]; [|reflexivity]. destruct o; cbn [is_join uses_op] in Ho; try reflexivity.
  - rewrite (wexpr_unused _ Ho). reflexivity.
  - f_equal. f_equal. apply map_ext_Forall. apply existsb_false_Forall in Ho. eapply Forall_impl; [|exact Ho].
    intros col Hc. unfold uses_pc in Hc. destruct (pc_x col) as [x|]; [rewrite (wexpr_unused _ Hc); reflexivity|].
    rewrite (wexpr_unused (EQual [pc_name col]) Hc). reflexivity.
  - rewrite (ext_cols_unused source _ Ho). reflexivity.
  - apply Bool.orb_false_iff in Ho as [Hc Hg]. rewrite (ext_cols_unused source _ Hc), (ext_cols_unused source _ Hg).
    assert (Hm : map (fun col : ext_col => wexpr c (ec_x col)) groupby = map (fun col : ext_col => wexpr c' (ec_x col)) groupby).
    { apply map_ext_Forall. apply existsb_false_Forall in Hg. eapply Forall_impl; [|exact Hg]. intros col Hcol. apply wexpr_unused. exact Hcol. }
    rewrite Hm. reflexivity.
Qed.

Lemma write_ctes_unused source : forall l, Forall (fun s => uses_subq s = false) l -> write_ctes source c l = write_ctes source c' l.
Proof.
  induction 1 as [|s r Hs Hr IH]; cbn [write_ctes]; [reflexivity|]. rewrite (write_subq_unused source s Hs), IH. reflexivity.
Qed.

(** the subqueries of a program that does not use [k] do not use it *)
Lemma Forall_set_last (P : subq -> Prop) dst f : Forall P dst -> (forall s, P s -> P (f s)) -> Forall P (set_last dst f).
Proof.
  intros H Hf. unfold set_last. destruct (rev dst) as [|s r] eqn:E; [constructor|].
  assert (Hr : Forall P (s :: r)) by (rewrite <- E; apply Forall_rev; exact H). inversion Hr; subst.
  apply Forall_rev. constructor; [apply Hf; assumption|assumption].
Qed.

Lemma Forall_snoc {A} (P : A -> Prop) l x : Forall P l -> P x -> Forall P (l ++ [x]).
Proof. intros H Hx. apply Forall_app. split; [exact H|constructor; [exact Hx|constructor]]. Qed.

Lemma fold_res_Forall (P : list subq -> Prop) (f : list subq -> operator -> res (list subq)) : forall ops dst dst',
  Forall (fun o => forall d d', P d -> f d o = Ok d' -> P d') ops -> P dst -> fold_res f ops dst = Ok dst' -> P dst'.
Proof.
  induction ops as [|o r IH]; intros dst dst' Hall Hd H; cbn [fold_res] in H; [injection H as <-; exact Hd|].
  inversion Hall; subst. destruct (f dst o) as [d1|] eqn:E; cbn [bind] in H; [|discriminate].
  eapply IH; [eassumption| |exact H]. eauto.
Qed.

Theorem split_op_uses : forall o, uses_op k o = false -> forall ds src dst dst',
  Forall (fun s => uses_subq s = false) dst -> split_op sc' ds src dst o = Ok dst' -> Forall (fun s => uses_subq s = false) dst'.
Proof.
  induction o using operator_ind'; intros Hu ds src dst dst' Hd Hs.
  - assert (Hfresh : uses_subq (chain_subquery dst ds src) = false) by reflexivity.
    destruct o; try discriminate H; cbn [split_op uses_op] in *; injection Hs as <-;
      try (apply Forall_snoc; [exact Hd|]; unfold uses_subq; cbn [sq_op sq_sort sq_take is_join uses_op]; rewrite ?Hu; reflexivity).
    + apply Forall_set_last; [destruct (split_cond_sort _); [apply Forall_snoc|]; assumption|].
      intros s. unfold uses_subq. cbn [sq_op sq_sort sq_take]. intros Hs0.
      apply Bool.orb_false_iff in Hs0 as [Hs0 H3]. apply Bool.orb_false_iff in Hs0 as [H1 H2]. rewrite H1, H3, Hu. reflexivity.
    + apply Forall_set_last; [destruct (split_cond_take _); [apply Forall_snoc|]; assumption|].
      intros s. unfold uses_subq. cbn [sq_op sq_sort sq_take]. intros Hs0.
      apply Bool.orb_false_iff in Hs0 as [Hs0 H3]. apply Bool.orb_false_iff in Hs0 as [H1 H2]. rewrite H1, H2, Hu. reflexivity.
    + apply Bool.orb_false_iff in Hu as [Hn Hc].
      apply Forall_set_last; [destruct (split_cond_top _); [apply Forall_snoc|]; assumption|].
      intros s. unfold uses_subq. cbn [sq_op sq_sort sq_take existsb]. intros Hs0.
      apply Bool.orb_false_iff in Hs0 as [Hs0 H3]. apply Bool.orb_false_iff in Hs0 as [H1 H2]. rewrite H1, Hn, Hc. reflexivity.
  - cbn [uses_op] in Hu. apply Bool.orb_false_iff in Hu as [Hr Hc].
    rewrite split_join_unfold in Hs. cbv zeta in Hs.
    destruct (fold_res (split_op sc' (length dst) rsrc) rops dst) as [d1|] eqn:Ef; cbn [bind] in Hs; [|discriminate].
    assert (H1 : Forall (fun s => uses_subq s = false) d1).
    { eapply (fold_res_Forall (Forall (fun s => uses_subq s = false))); [|exact Hd|exact Ef].
      apply existsb_false_Forall in Hr. rewrite Forall_forall in H, Hr |- *. intros o Ho d d' Hdd Hsd. eapply (H o Ho (Hr o Ho)); eassumption. }
    match type of Hs with bind ?r _ = _ => destruct r as [outer|] eqn:Eo end; cbn [bind] in Hs; [|discriminate].
    destruct (wexpr (mkCtx sc' ModeJoin) (build_join_cond sc' conds)) as [cond|] eqn:Ec; cbn [bind] in Hs; [|discriminate].
    injection Hs as <-. apply Forall_snoc; [|reflexivity].
    destruct (Nat.eqb (length d1) (length dst)); [apply Forall_snoc; [exact H1|reflexivity]|exact H1].
Qed.

Lemma split_queries_uses t subs : existsb (uses_op k) (tops t) = false -> split_queries sc' [] t = Ok subs ->
  Forall (fun s => uses_subq s = false) subs.
Proof.
  intros Hu H. unfold split_queries in H. cbn [length] in H.
  destruct (fold_res (split_op sc' 0 (tsrc t)) (tops t) []) as [d1|] eqn:Ef; cbn [bind] in H; [|discriminate].
  injection H as <-.
  assert (H1 : Forall (fun s => uses_subq s = false) d1).
  { eapply (fold_res_Forall (Forall (fun s => uses_subq s = false))); [|constructor|exact Ef].
    apply existsb_false_Forall in Hu. eapply Forall_impl; [|exact Hu]. intros o Ho d d' Hd Hsd. exact (split_op_uses o Ho 0 (tsrc t) d d' Hd Hsd). }
  destruct (Nat.eqb (length d1) 0); [apply Forall_snoc; [exact H1|reflexivity]|exact H1].
Qed.
End Prog.

(** ** the whole program *)
From PQL Require Import Proofs.SubqWf.

Lemma stmt_loop_unused k : forall ss sc sc' q, agree_except k sc sc' -> Forall (fun s => uses_stmt k s = false) ss ->
  match stmt_loop sc q ss, stmt_loop sc' q ss with
  | Ok (s1, q1), Ok (s1', q1') => agree_except k s1 s1' /\ q1 = q1'
  | Err p, Err p' => p = p'
  | _, _ => False
  end.
Proof.
  induction ss as [|s r IH]; intros sc sc' q Hag Hu; cbn [stmt_loop]; [split; [exact Hag|reflexivity]|].
  inversion Hu as [|? ? Hs Hr]; subst. destruct s as [kw name asp x|t].
  - destruct q as [t'|]; [apply IH; assumption|]. cbn [uses_stmt] in Hs. unfold woperand.
    rewrite (wx_unused k sc sc' ModeLet Hag x WOperand Hs).
    destruct (wx (mkCtx sc' ModeLet) WOperand x) as [v|]; cbn [bind]; [|reflexivity].
    apply IH; [|exact Hr]. intros n Hn. cbn [scope_get]. destruct (str_eqb (iname name) n); [reflexivity|apply Hag; exact Hn].
  - destruct q as [t'|]; [reflexivity|]. apply IH; assumption.
Qed.

Theorem compile_stmts_unused k source params params' ss :
  agree_except k (map (fun kv : str * str => (fst kv, [PRaw (snd kv)])) params) (map (fun kv : str * str => (fst kv, [PRaw (snd kv)])) params') ->
  Forall (fun s => uses_stmt k s = false) ss ->
  compile_stmts source params ss = compile_stmts source params' ss.
Proof.
  intros Hag Hu. unfold compile_stmts.
  pose proof (stmt_loop_unused k ss _ _ None Hag Hu) as HL.
  destruct (stmt_loop (map _ params) None ss) as [[s1 q1]|] eqn:E1, (stmt_loop (map _ params') None ss) as [[s1' q1']|] eqn:E2;
    cbn [bind fst snd] in *; try contradiction; [|congruence].
  destruct HL as [Hag1 <-]. destruct q1 as [t|]; [|reflexivity].
  assert (Ht : existsb (uses_op k) (tops t) = false).
  { destruct (stmt_loop_query _ _ _ _ _ E1) as [Hq|Hin]; [discriminate|].
    rewrite Forall_forall in Hu. apply (Hu _ Hin). }
  rewrite (split_queries_unused k s1 s1' Hag1 t Ht).
  destruct (split_queries s1' [] t) as [subs|] eqn:Es; cbn [bind]; [|reflexivity].
  pose proof (split_queries_uses k s1' t subs Ht Es) as Hsubs.
  apply Forall_rev in Hsubs. destruct (rev subs) as [|q rc]; [reflexivity|]. inversion Hsubs as [|? ? Hq Hrc]; subst.
  apply Forall_rev in Hrc.
  rewrite (write_ctes_unused k s1 s1' Hag1 source _ Hrc), (write_subq_unused k s1 s1' Hag1 source q Hq). reflexivity.
Qed.

(** an unused parameter does not change the output, wherever it stands in the parameter list *)
Corollary unused_parameter k v source pre post ss : Forall (fun s => uses_stmt k s = false) ss ->
  compile_stmts source (pre ++ (k, v) :: post) ss = compile_stmts source (pre ++ post) ss.
Proof.
  intros Hu. apply (compile_stmts_unused k); [|exact Hu].
  intros n Hn. rewrite !map_app. cbn [map fst snd].
  induction pre as [|[k0 v0] r IH]; cbn [map app scope_get fst snd].
  - destruct (str_eqb k n) eqn:E; [apply str_eqb_eq in E; congruence|reflexivity].
  - destruct (str_eqb k0 n); [reflexivity|exact IH].
Qed.

(** a used parameter is inserted verbatim: whatever the wrapping, an unquoted unqualified identifier
    bound to a parameter text is written as exactly that text *)
Theorem parameter_verbatim sc m w p v : iquoted p = false -> scope_get sc (iname p) = Some [PRaw v] ->
  wx (mkCtx sc m) w (EQual [p]) = Ok [PRaw v] /\ render [PRaw v] = v.
Proof.
  intros Hq Hg. split; [|cbn; apply app_nil_r]. cbn [wx c_scope c_mode]. rewrite Hq, Hg. cbn [negb].
  destruct w; reflexivity.
Qed.
