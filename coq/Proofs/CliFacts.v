(** * Facts about the command-line line loop. *)
From PQL Require Import Model.Cli.
From Coq Require Import Lia.
Local Open Scope list_scope.

Lemma do_piece_failed st p : failed st = true -> failed (do_piece st p) = true.
Proof.
  intros H. unfold do_piece.
  destruct (is_let_piece p); destruct (compile_ok _); cbn [failed]; auto.
Qed.

Lemma fold_do_piece_failed ps : forall st, failed st = true -> failed (fold_left do_piece ps st) = true.
Proof. induction ps as [|p r IH]; intros st H; cbn [fold_left]; [exact H|]. apply IH. apply do_piece_failed. exact H. Qed.

Lemma do_line_failed st l : failed st = true -> failed (do_line st l) = true.
Proof.
  intros H. unfold do_line.
  destruct (rev (split_statements _)) as [|lastp [|x rinit]]; cbn [failed]; auto.
  apply fold_do_piece_failed. exact H.
Qed.

Lemma finish_failed st re : failed st = true -> o_fail (finish st re) = true.
Proof.
  intros H. unfold finish. destruct re; [reflexivity|].
  destruct (scan (pending st)); [exact H|]. destruct (compile_ok _); cbn [o_fail]; auto.
Qed.

(** once a statement has failed the exit status is non-zero, whatever follows *)
Theorem failure_is_sticky evs : forall st, failed st = true -> o_fail (run_events st evs) = true.
Proof.
  induction evs as [|e r IH]; intros st H; cbn [run_events].
  - apply finish_failed. exact H.
  - destruct e; [apply IH; apply do_line_failed; exact H|reflexivity].
Qed.

(** a read error gives a non-zero exit status *)
Theorem read_error_fails evs : In ReadError evs -> forall st, o_fail (run_events st evs) = true.
Proof.
  induction evs as [|e r IH]; intros Hin st; [destruct Hin|].
  cbn [run_events]. destruct e as [l|]; [|reflexivity].
  destruct Hin as [H|H]; [discriminate|]. apply IH. exact H.
Qed.

(** a failing statement sets the failure flag, and a failed let leaves the prelude unchanged *)
Theorem failed_piece st p :
  (if is_let_piece p then compile_ok (prelude st ++ p ++ semi_x) else compile_ok (prelude st ++ p)) = None ->
  failed (do_piece st p) = true /\ prelude (do_piece st p) = prelude st /\ out (do_piece st p) = out st.
Proof.
  unfold do_piece. destruct (is_let_piece p); intros ->; cbn; auto.
Qed.

(** a successful query appends exactly its SQL and a blank line; nothing else changes *)
Theorem ok_query_piece st p sql : is_let_piece p = false -> compile_ok (prelude st ++ p) = Some sql ->
  out (do_piece st p) = out st ++ sql ++ [10; 10]%N /\ prelude (do_piece st p) = prelude st /\ failed (do_piece st p) = failed st.
Proof. unfold do_piece. intros -> ->. cbn. auto. Qed.

(** an accepted let is added to the prelude and prints nothing *)
Theorem ok_let_piece st p sql : is_let_piece p = true -> compile_ok (prelude st ++ p ++ semi_x) = Some sql ->
  out (do_piece st p) = out st /\ prelude (do_piece st p) = prelude st ++ p ++ semi_nl /\ failed (do_piece st p) = failed st.
Proof. unfold do_piece. intros -> ->. cbn. auto. Qed.

(** output is only ever appended to: later statements never alter what was printed *)
Lemma do_piece_out st p : exists suffix, out (do_piece st p) = out st ++ suffix.
Proof.
  unfold do_piece. destruct (is_let_piece p); destruct (compile_ok _); cbn [out];
    try (exists []; now rewrite app_nil_r). eexists; reflexivity.
Qed.

Lemma fold_do_piece_out ps : forall st, exists suffix, out (fold_left do_piece ps st) = out st ++ suffix.
Proof.
  induction ps as [|p r IH]; intros st; cbn [fold_left]; [exists []; now rewrite app_nil_r|].
  destruct (IH (do_piece st p)) as [s1 H1]. destruct (do_piece_out st p) as [s2 H2].
  exists (s2 ++ s1). rewrite H1, H2, app_assoc. reflexivity.
Qed.

Lemma do_line_out st l : exists suffix, out (do_line st l) = out st ++ suffix.
Proof.
  unfold do_line. destruct (rev (split_statements _)) as [|lastp [|x rinit]]; cbn [out];
    try (exists []; now rewrite app_nil_r).
  apply fold_do_piece_out.
Qed.

Theorem output_is_append_only evs : forall st, exists suffix, o_stdout (run_events st evs) = out st ++ suffix.
Proof.
  induction evs as [|e r IH]; intros st; cbn [run_events].
  - unfold finish. destruct (scan (pending st)); [exists []; cbn; now rewrite app_nil_r|].
    destruct (compile_ok _); cbn [o_stdout]; [eexists; reflexivity|exists []; now rewrite app_nil_r].
  - destruct e as [l|].
    + destruct (IH (do_line st l)) as [s1 H1]. destruct (do_line_out st l) as [s2 H2].
      exists (s2 ++ s1). rewrite H1, H2, app_assoc. reflexivity.
    + exists []. cbn. now rewrite app_nil_r.
Qed.
