(** * C10: line:column of an offset.  The line reported for offset [p] is one more than the number
    of newline bytes before [p] (so it is a line of the source), the column is at least 1; for an
    ASCII line without tabs the column is one more than the distance from the line start. *)
From PQL Require Import Model.Parser Proofs.LexerFacts Proofs.LexSpec Proofs.LexValues.
From Coq Require Import Lia ZifyN ZifyNat ZifyBool.
Local Open Scope list_scope.
Local Open Scope nat_scope.
Local Notation length := List.length (only parsing).

Definition count_nl (l : str) : nat := List.length (filter (fun c => (c =? 10)%N) l).

Lemma count_nl_app a b : count_nl (a ++ b) = count_nl a + count_nl b.
Proof. unfold count_nl. rewrite filter_app, app_length. reflexivity. Qed.

Lemma count_nl_hi l : forallb hi l = true -> count_nl l = 0.
Proof.
  induction l as [|c r IH]; [reflexivity|]. cbn [forallb]. intros H. apply andb_prop in H as [Hc Hr].
  unfold count_nl in *. cbn [filter]. unfold hi in Hc. replace (c =? 10)%N with false by lia. apply IH. exact Hr.
Qed.

Lemma linecol_go_spec : forall f l line col, length l < f -> 1 <= col ->
  fst (linecol_go f l line col) = line + count_nl l /\ 1 <= snd (linecol_go f l line col).
Proof.
  induction f as [|f IH]; intros l line col Hf Hc; [lia|].
  destruct l as [|b r]; [cbn; split; [unfold count_nl; cbn; lia|exact Hc]|].
  cbn [linecol_go]. destruct (decode (b :: r)) as [c w] eqn:Ed.
  destruct (N.ltb b 128) eqn:Eb.
  - (* ASCII: one byte *)
    rewrite ascii_decode in Ed by lia. injection Ed as <- <-. cbn [skipn].
    assert (Hcn : count_nl (b :: r) = (if (b =? 10)%N then 1 else 0) + count_nl r)
      by (unfold count_nl; cbn [filter]; destruct (b =? 10)%N; reflexivity).
    rewrite Hcn. clear Hcn. destruct (b =? 10)%N eqn:E10.
    + destruct (IH r (S line) 1 ltac:(cbn [length] in Hf; lia) (le_n _)) as [H1 H2]. rewrite H1. cbn [length]. split; [lia|exact H2].
    + destruct (b =? 9)%N.
      * destruct (IH r line (col + (8 - (col - 1) mod 8)) ltac:(cbn [length] in Hf; lia) ltac:(lia)) as [H1 H2]. rewrite H1. cbn [length]. split; [lia|exact H2].
      * destruct (IH r line (S col) ltac:(cbn [length] in Hf; lia) ltac:(lia)) as [H1 H2]. rewrite H1. cbn [length]. split; [lia|exact H2].
  - (* a rune of bytes >= 128: no newline inside *)
    pose proof (decode_hi b r ltac:(lia)) as D. rewrite Ed in D. destruct D as (D1 & D2 & D3 & D4).
    replace (c =? 10)%N with false by lia. replace (c =? 9)%N with false by lia.
    rewrite <- (firstn_skipn w (b :: r)) at 2. rewrite count_nl_app, (count_nl_hi _ D4).
    assert (Hl : length (skipn w (b :: r)) < f) by (rewrite skipn_length; cbn [length] in *; lia).
    destruct (IH (skipn w (b :: r)) line (S col) Hl ltac:(lia)) as [H1 H2]. rewrite H1. split; [lia|exact H2].
Qed.

Theorem linecol_spec s p : fst (linecol s p) = 1 + count_nl (firstn p s) /\ 1 <= snd (linecol s p).
Proof. unfold linecol. apply linecol_go_spec; lia. Qed.

(** the reported line is a line of the source: between 1 and the number of its lines *)
Corollary linecol_line_in_source s p : 1 <= fst (linecol s p) <= 1 + count_nl s.
Proof.
  destruct (linecol_spec s p) as [H _]. rewrite H. split; [lia|].
  rewrite <- (firstn_skipn p s) at 2. rewrite count_nl_app. lia.
Qed.

(** on a line of ASCII characters without tabs the column is the distance from the line start, plus one *)
Lemma linecol_go_plain : forall l f line col, length l < f ->
  forallb (fun c => (c <? 128)%N && negb (c =? 10)%N && negb (c =? 9)%N) l = true ->
  linecol_go f l line col = (line, col + length l).
Proof.
  induction l as [|b r IH]; intros f line col Hf H; destruct f as [|f]; try (cbn [length] in Hf; lia).
  - cbn. f_equal. lia.
  - cbn [forallb] in H. apply andb_prop in H as [Hb Hr]. cbn [linecol_go]. rewrite ascii_decode by lia.
    replace (b =? 10)%N with false by lia. replace (b =? 9)%N with false by lia. cbn [skipn].
    rewrite (IH f line (S col) ltac:(cbn [length] in Hf; lia) Hr). cbn [length]. f_equal. lia.
Qed.

Theorem linecol_plain_line pre line_text rest :
  forallb (fun c => (c <? 128)%N && negb (c =? 10)%N && negb (c =? 9)%N) line_text = true ->
  linecol (pre ++ 10%N :: line_text ++ rest) (length pre + 1 + length line_text) =
  (2 + count_nl pre, 1 + length line_text).
Proof.
  intros H. unfold linecol.
  assert (Hp : firstn (length pre + 1 + length line_text) (pre ++ 10%N :: line_text ++ rest) = (pre ++ [10%N]) ++ line_text).
  { replace (pre ++ 10%N :: line_text ++ rest) with (((pre ++ [10%N]) ++ line_text) ++ rest) by (rewrite <- !app_assoc; reflexivity).
    rewrite firstn_app. replace (length pre + 1 + length line_text - length ((pre ++ [10%N]) ++ line_text)) with 0 by (rewrite !app_length; cbn [length]; lia).
    cbn [firstn]. rewrite app_nil_r. apply firstn_all2. rewrite !app_length. cbn [length]. lia. }
  rewrite Hp. clear Hp.
  (* run over the prefix up to and including the newline, then over the plain line *)
  assert (G : forall a b f line col, length (a ++ b) < f -> 1 <= col ->
            (forall f' line' col', length b < f' -> linecol_go f' b line' col' = (line', col' + length b)) ->
            (exists k, a = k ++ [10%N]) -> linecol_go f (a ++ b) line col = (line + count_nl a, 1 + length b)).
  { intros a b. remember (length a) as m eqn:Em. revert a Em.
    induction m as [m IHm] using lt_wf_ind. intros a Em f line col Hf Hc Hb [k Hk].
    destruct f as [|f]; [lia|]. destruct a as [|x a']; [destruct k; discriminate|].
    cbn [app linecol_go]. destruct (decode (x :: a' ++ b)) as [c w] eqn:Ed.
    destruct (N.ltb x 128) eqn:Ex.
    - rewrite ascii_decode in Ed by lia. injection Ed as <- <-. cbn [skipn].
      assert (Hcn : count_nl (x :: a') = (if (x =? 10)%N then 1 else 0) + count_nl a')
        by (unfold count_nl; cbn [filter]; destruct (x =? 10)%N; reflexivity).
      rewrite Hcn. clear Hcn.
      destruct a' as [|y a''].
      + assert (x = 10%N) by (destruct k as [|? [|? ?]]; cbn in Hk; congruence). subst x. cbn [N.eqb Pos.eqb app length].
        rewrite Hb by (cbn [length app] in Hf; lia). unfold count_nl. cbn. f_equal; lia.
      + assert (Hk' : exists k', y :: a'' = k' ++ [10%N]).
        { destruct k as [|k0 k']; [discriminate|]. cbn in Hk. injection Hk as _ Hk. exists k'. exact Hk. }
        destruct (x =? 10)%N.
        * rewrite (IHm (length (y :: a'')) ltac:(subst m; cbn [length]; lia) (y :: a'') eq_refl f (S line) 1 ltac:(cbn [length app] in *; lia) (le_n _) Hb Hk').
          cbn [length]. f_equal. lia.
        * destruct (x =? 9)%N.
          -- rewrite (IHm (length (y :: a'')) ltac:(subst m; cbn [length]; lia) (y :: a'') eq_refl f line (col + (8 - (col - 1) mod 8)) ltac:(cbn [length app] in *; lia) ltac:(lia) Hb Hk').
             cbn [length]. f_equal.
          -- rewrite (IHm (length (y :: a'')) ltac:(subst m; cbn [length]; lia) (y :: a'') eq_refl f line (S col) ltac:(cbn [length app] in *; lia) ltac:(lia) Hb Hk').
             cbn [length]. f_equal.
    - (* a rune of bytes >= 128 lies inside [a] (the last byte of [a] is a newline) *)
      pose proof (decode_hi x (a' ++ b) ltac:(lia)) as D. rewrite Ed in D. destruct D as (D1 & D2 & D3 & D4).
      replace (c =? 10)%N with false by lia. replace (c =? 9)%N with false by lia.
      assert (Hw : w < length (x :: a')).
      { destruct (Nat.lt_ge_cases w (length (x :: a'))) as [Hlt|Hge]; [exact Hlt|exfalso].
        (* otherwise the newline ending [a] would be one of the bytes >= 128 *)
        assert (Hin : In 10%N (firstn w ((x :: a') ++ b))).
        { rewrite firstn_app. apply in_or_app. left. rewrite firstn_all2 by lia. rewrite Hk. apply in_or_app. right. left. reflexivity. }
        rewrite forallb_forall in D4. specialize (D4 _ Hin). unfold hi in D4. lia. }
      change (x :: a' ++ b) with ((x :: a') ++ b). rewrite skipn_app. replace (w - length (x :: a')) with 0 by lia. cbn [skipn].
      assert (Hk' : exists k', skipn w (x :: a') = k' ++ [10%N]).
      { rewrite Hk, skipn_app. rewrite Hk, app_length in Hw. cbn [length] in Hw. replace (w - length k) with 0 by lia. cbn [skipn]. eexists. reflexivity. }
      assert (Hcnt : count_nl (x :: a') = count_nl (skipn w (x :: a'))).
      { rewrite <- (firstn_skipn w (x :: a')) at 1. rewrite count_nl_app.
        assert (Hh : forallb hi (firstn w (x :: a')) = true).
        { change (x :: a' ++ b) with ((x :: a') ++ b) in D4. rewrite firstn_app in D4. replace (w - length (x :: a')) with 0 in D4 by lia.
          cbn [firstn] in D4. rewrite app_nil_r in D4. exact D4. }
        rewrite (count_nl_hi _ Hh). reflexivity. }
      rewrite (IHm (length (skipn w (x :: a'))) ltac:(subst m; rewrite skipn_length; lia) (skipn w (x :: a')) eq_refl f line (S col)
                 ltac:(rewrite app_length, skipn_length; rewrite app_length in Hf; lia) ltac:(lia) Hb Hk').
      rewrite Hcnt. reflexivity. }
  rewrite (G (pre ++ [10%N]) line_text (S (length ((pre ++ [10%N]) ++ line_text))) 1 1 ltac:(lia) (le_n _)).
  - rewrite count_nl_app. unfold count_nl at 2. cbn. f_equal. lia.
  - intros f' line' col' Hf'. apply linecol_go_plain; assumption.
  - exists pre. reflexivity.
Qed.
