(** * SqlGlueToks: the token view [ptoks] used by the token-level theorems (ReadBack*.v) is the
    lexing of the bytes, for glued piece lists. *)
From PQL Require Import Model.Compile Spec.SqlLex Proofs.QuoteFacts Proofs.SqlGlue Proofs.ReadBack.
From Coq Require Import Lia.
Local Open Scope list_scope.

Lemma pieces_glue_tail p r nx : pieces_glue (p :: r) nx = true -> pieces_glue r nx = true.
Proof. cbn [pieces_glue]. intros H. apply andb_prop in H as [_ H]. exact H. Qed.

Lemma ptoks_of_glue : forall ps nx, pieces_glue ps nx = true ->
  exists l, pieces_atoms ps = Some l /\ ptoks ps = Some (atoms_toks l).
Proof.
  induction ps as [|p r IH]; intros nx H; cbn [pieces_atoms ptoks].
  - exists []. split; reflexivity.
  - pose proof (pieces_glue_tail _ _ _ H) as Hr. destruct (IH nx Hr) as (lr & Er & Tr).
    cbn [pieces_glue] in H. apply andb_prop in H as [Hp _]. unfold piece_glue in Hp.
    destruct (piece_atoms p) as [lp|] eqn:Ep; [|discriminate].
    exists (lp ++ lr). rewrite Er, Tr. split; [reflexivity|].
    pose proof (ptok_atoms p lp _ Ep Hp) as Hk. rewrite atoms_toks_app.
    destruct p; cbn [ptok]; try contradiction; rewrite Hk; reflexivity.
Qed.

(** the bytes of a glued piece list lex into exactly the tokens the token-level theorems speak of *)
Theorem glue_bytes_are_ptoks ps : glue_ok ps = true ->
  exists ts, ptoks ps = Some ts /\ sql_lex ClickHouse (render ps) = Some ts.
Proof.
  intros H. destruct (glue_lexes ps H) as (l & El & Hl). destruct (ptoks_of_glue ps None H) as (l' & El' & Hp).
  rewrite El in El'. injection El' as <-. exists (atoms_toks l). split; assumption.
Qed.
