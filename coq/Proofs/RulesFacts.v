(** * C13: an expression compiles exactly when it obeys the documented rules, at any depth. *)
From PQL Require Import Model.Trans Spec.PqlSem Spec.Rules Proofs.ExprInd Proofs.MeaningFacts Proofs.WriterFacts Proofs.TableFacts.
From Coq Require Import String Lia.
Local Open Scope list_scope.
Local Open Scope nat_scope.
Local Notation length := List.length (only parsing).

Definition is_ok {A} (r : res A) : bool := match r with Ok _ => true | Err _ => false end.

Lemma is_ok_bind {A B} (r : res A) (f : A -> res B) :
  is_ok (bind r f) = match r with Ok a => is_ok (f a) | Err _ => false end.
Proof. destruct r; reflexivity. Qed.

Lemma is_ok_bind_total {A B} (r : res A) (f : A -> res B) : (forall a, is_ok (f a) = true) -> is_ok (bind r f) = is_ok r.
Proof. intros H. destruct r; cbn; [apply H|reflexivity]. Qed.

Lemma is_ok_sequence {A} (l : list (res A)) : is_ok (sequence l) = forallb is_ok l.
Proof.
  induction l as [|x r IH]; cbn [sequence forallb]; [reflexivity|].
  destruct x as [a|p]; cbn [bind is_ok andb]; [|reflexivity].
  destruct (sequence r); cbn [bind is_ok] in *; exact IH.
Qed.

Definition rmode_of (m : mode) : rmode := match m with ModeDefault => RDefault | ModeJoin => RJoin | ModeLet => RLet end.

(** ** side conditions on the generated tables *)
Lemma builtin_consts_documented : map fst builtin_idents = [L "false"; L "null"; L "true"].
Proof. vm_compute. reflexivity. Qed.

Lemma assoc_builtin n : (match assoc_str builtin_idents n with Some _ => true | None => false end) = mem n r_consts.
Proof.
  rewrite builtin_idents_documented. cbn [assoc_str]. unfold mem, r_consts. cbn [existsb].
  rewrite (str_eqb_sym n (L "true")), (str_eqb_sym n (L "false")), (str_eqb_sym n (L "null")).
  change (L "true") with p_true. change (L "false") with p_false. change (L "null") with p_null.
  destruct (str_eqb p_false n), (str_eqb p_null n), (str_eqb p_true n); reflexivity.
Qed.

(** the arity test of the writer found for a name is the documented one *)
Lemma arity_documented n k :
  (match known_func n with Some (w, _) => arity_ok (writer_arity w) k | None => true end) = arity_rule_ok n k.
Proof.
  destruct (name_cases n) as [Hin | [Hnone Hkf]].
  - cbn [In builtin_names] in Hin.
    repeat match type of Hin with _ \/ _ => destruct Hin as [Hin|Hin] end; try contradiction; subst n;
      vm_compute; destruct k as [|[|[|[|?]]]]; reflexivity.
  - rewrite Hkf. unfold arity_rule_ok, mem, r_names1, r_names0, r_names3, r_strcat. cbn [existsb forallb builtin_names] in *.
    repeat match type of Hnone with _ && _ = true => let Hx := fresh "Hk" in apply andb_prop in Hnone as [Hx Hnone] end.
    change (L "not") with p_not. change (L "isnull") with p_isnull. change (L "isnotnull") with p_isnotnull.
    change (L "tolower") with p_tolower. change (L "toupper") with p_toupper. change (L "countif") with p_countif.
    change (L "now") with p_nowf. change (L "count") with p_countf. change (L "iff") with p_iff. change (L "iif") with p_iif.
    change (L "strcat") with p_strcat.
    repeat match goal with Hx : negb (str_eqb n _) = true |- _ => apply Bool.negb_true_iff in Hx; rewrite Hx end.
    reflexivity.
Qed.

(** every argument a call may have (given its arity test passed) is written by its template *)
Definition template_mentions (t : list tpart) (i : nat) : bool :=
  existsb (fun p => match p with T_Lit _ => false | T_Arg _ j => Nat.eqb i j | T_Rest j _ _ => Nat.leb j i end) t.

Lemma templates_cover_exact :
  forallb (fun w => match writer_arity w with
                    | ArityExactly n => forallb (template_mentions (writer_template w)) (seq 0 n)
                    | ArityAtLeast k =>
                      (* a T_Rest j with j <= k, and T_Arg for every index below j *)
                      existsb (fun p => match p with
                                        | T_Rest j _ _ => Nat.leb j k && forallb (template_mentions (writer_template w)) (seq 0 j)
                                        | _ => false end) (writer_template w)
                    | ArityAny => false
                    end) all_fwriters = true.
Proof. vm_compute. reflexivity. Qed.

Lemma all_fwriters_complete w : In w all_fwriters.
Proof. destruct w; vm_compute; tauto. Qed.

Lemma template_covers w n i : arity_ok (writer_arity w) n = true -> i < n -> template_mentions (writer_template w) i = true.
Proof.
  intros Ha Hi. pose proof templates_cover_exact as H. rewrite forallb_forall in H.
  specialize (H w (all_fwriters_complete w)). destruct (writer_arity w) as [k|k|]; cbn [arity_ok] in Ha; [| |discriminate].
  - apply Nat.eqb_eq in Ha. subst k. rewrite forallb_forall in H. apply H. apply in_seq. lia.
  - apply existsb_exists in H as (p & Hp & Hc). destruct p as [|? ?|j sep mp]; try discriminate.
    apply andb_prop in Hc as [Hjk Hall]. apply Nat.leb_le in Hjk.
    destruct (Nat.lt_ge_cases i j) as [Hlt|Hge].
    + rewrite forallb_forall in Hall. apply Hall. apply in_seq. lia.
    + unfold template_mentions. apply existsb_exists. exists (T_Rest j sep mp). split; [exact Hp|]. apply Nat.leb_le. exact Hge.
Qed.

(** ** filling a template succeeds exactly when every argument it writes was written *)
Lemma is_ok_fill t : forall rs,
  is_ok (fill_template t rs) =
  forallb (fun p => match p with
                    | T_Lit _ => true
                    | T_Arg _ i => is_ok (nth i rs (Ok []))
                    | T_Rest i _ _ => forallb is_ok (skipn i rs)
                    end) t.
Proof.
  induction t as [|p r IH]; intros rs; cbn [fill_template forallb]; [reflexivity|].
  destruct p as [s|mp i|i sep mp].
  - rewrite is_ok_bind_total; [apply IH|intros a; reflexivity].
  - rewrite is_ok_bind. destruct (nth i rs (Ok [])) as [a|e]; cbn [is_ok andb]; [|reflexivity].
    rewrite is_ok_bind_total; [apply IH|intros ?; reflexivity].
  - rewrite is_ok_bind. rewrite <- is_ok_sequence. destruct (sequence (skipn i rs)) as [a|e]; cbn [is_ok andb]; [|reflexivity].
    rewrite is_ok_bind_total; [apply IH|intros ?; reflexivity].
Qed.

(** ** the expression writer *)
Definition bnd (sc : scope) (n : str) : bool := match scope_get sc n with Some _ => true | None => false end.

Lemma alias_eq p : ident_is_alias p = is_side_alias p.
Proof. reflexivity. Qed.

Lemma is_ok_write_parts m ps : forall first,
  is_ok (write_parts m first ps) = forallb (fun p => negb (ident_is_alias p && negb (mode_eqb m ModeJoin))) ps.
Proof.
  induction ps as [|p r IH]; intros first; cbn [write_parts forallb]; [reflexivity|].
  destruct (ident_is_alias p && negb (mode_eqb m ModeJoin)); cbn [negb andb is_ok]; [reflexivity|].
  rewrite is_ok_bind_total; [apply IH|intros ?; reflexivity].
Qed.

Lemma is_ok_wrap {A} (b : bool) (body : res A) (f : A -> A) :
  is_ok (if b then bind body (fun x => Ok (f x)) else body) = is_ok body.
Proof. destruct b; [|reflexivity]. destruct body; reflexivity. Qed.

Lemma forallb_map_ext {A B} (f : A -> B) (p : B -> bool) (q : A -> bool) l :
  Forall (fun a => p (f a) = q a) l -> forallb p (map f l) = forallb q l.
Proof. induction 1 as [|a r Ha Hr IH]; cbn [map forallb]; [reflexivity|]. rewrite Ha, IH. reflexivity. Qed.

(** the arguments as written for a template (unused ones are skipped) *)
Fixpoint written_args (c : ctx) (t : list tpart) (i : nat) (l : list expr) : list (res (list piece)) :=
  match l with
  | [] => []
  | a :: r => match arg_use t i with
              | Some true => wx c WMaybe a
              | Some false => wx c WPlain a
              | None => Ok []
              end :: written_args c t (S i) r
  end.

Lemma arg_use_mentions t i : (match arg_use t i with Some _ => true | None => false end) = template_mentions t i.
Proof.
  unfold arg_use, template_mentions.
  assert (H : forall acc, (match fold_left (fun acc p => match acc with
                                    | Some _ => acc
                                    | None => match p with
                                              | T_Lit _ => None
                                              | T_Arg mp j => if Nat.eqb i j then Some mp else None
                                              | T_Rest j _ mp => if Nat.leb j i then Some mp else None
                                              end end) t acc with Some _ => true | None => false end)
                     = (match acc with Some _ => true | None => false end)
                       || existsb (fun p => match p with T_Lit _ => false | T_Arg _ j => Nat.eqb i j | T_Rest j _ _ => Nat.leb j i end) t).
  { induction t as [|p r IH]; intros acc; cbn [fold_left existsb].
    - destruct acc; reflexivity.
    - rewrite IH. destruct acc as [b|]; cbn [orb]; [reflexivity|].
      destruct p as [s|mp j|j sep mp]; cbn [orb]; try reflexivity.
      + destruct (Nat.eqb i j); reflexivity.
      + destruct (Nat.leb j i); reflexivity. }
  rewrite H. reflexivity.
Qed.

Section Written.
Variable c : ctx.
Variable R : expr -> bool.

Lemma written_length t : forall l i, length (written_args c t i l) = length l.
Proof. induction l as [|a r IH]; intros i; cbn; [reflexivity|]. rewrite IH. reflexivity. Qed.

Lemma written_nth t : forall l i0, Forall (fun x => forall w, is_ok (wx c w x) = R x) l ->
  forall j, is_ok (nth j (written_args c t i0 l) (Ok [])) =
            match nth_error l j with
            | Some a => if template_mentions t (i0 + j) then R a else true
            | None => true
            end.
Proof.
  induction l as [|a r IHl]; intros i0 Hl j; [destruct j; reflexivity|].
  inversion Hl as [|? ? Ha Hr]; subst. destruct j as [|j]; cbn [written_args nth nth_error].
  - rewrite Nat.add_0_r. rewrite <- arg_use_mentions. destruct (arg_use t i0) as [[]|]; [apply Ha|apply Ha|reflexivity].
  - rewrite IHl by exact Hr. replace (S i0 + j) with (i0 + S j) by lia. reflexivity.
Qed.

Lemma forallb_nth {A} (p : A -> bool) (l : list A) d : forallb p l = true <-> (forall j, j < length l -> p (nth j l d) = true).
Proof.
  split.
  - intros H j Hj. rewrite forallb_forall in H. apply H. apply nth_In. exact Hj.
  - intros H. apply forallb_forall. intros x Hx. destruct (In_nth l x d Hx) as (j & Hj & <-). apply H. exact Hj.
Qed.

Lemma nth_skipn' {A} (l : list A) d : forall i j, nth j (skipn i l) d = nth (i + j) l d.
Proof.
  induction l as [|x r IH]; intros i j.
  - rewrite skipn_nil. destruct j, i; reflexivity.
  - destruct i; [reflexivity|]. cbn [skipn Nat.add nth]. apply IH.
Qed.

Lemma written_ok wr args :
  arity_ok (writer_arity wr) (length args) = true ->
  Forall (fun x => forall w, is_ok (wx c w x) = R x) args ->
  forallb (fun p => match p with
                    | T_Lit _ => true
                    | T_Arg _ i => is_ok (nth i (written_args c (writer_template wr) 0 args) (Ok []))
                    | T_Rest i _ _ => forallb is_ok (skipn i (written_args c (writer_template wr) 0 args))
                    end) (writer_template wr) = forallb R args.
Proof.
  intros Ha Hargs. set (t := writer_template wr). set (ws := written_args c t 0 args).
  assert (Hnth : forall j, is_ok (nth j ws (Ok [])) =
                           match nth_error args j with Some a => if template_mentions t j then R a else true | None => true end).
  { intros j. apply (written_nth t args 0 Hargs j). }
  apply Bool.eq_true_iff_eq. split.
  - (* every part written => every argument obeys the rules *)
    intros Hall. apply (forallb_nth R args (ELit None KError [])). intros j Hj.
    pose proof (template_covers wr (length args) j Ha Hj) as Hm. fold t in Hm.
    assert (Hok : is_ok (nth j ws (Ok [])) = true).
    { unfold template_mentions in Hm. apply existsb_exists in Hm as (p & Hp & Hpj).
      rewrite forallb_forall in Hall. specialize (Hall p Hp). destruct p as [s|mp i|i sep mp]; [discriminate| |].
      - apply Nat.eqb_eq in Hpj. subst i. exact Hall.
      - apply Nat.leb_le in Hpj. rewrite (forallb_nth is_ok _ (Ok [])) in Hall.
        specialize (Hall (j - i)). rewrite nth_skipn' in Hall. replace (i + (j - i)) with j in Hall by lia.
        apply Hall. rewrite skipn_length. unfold ws. rewrite written_length. lia. }
    rewrite Hnth in Hok. rewrite (nth_error_nth' args (ELit None KError []) Hj) in Hok. rewrite Hm in Hok. exact Hok.
  - (* every argument obeys the rules => every part is written *)
    intros Hall. rewrite (forallb_nth R args (ELit None KError [])) in Hall.
    assert (Hws : forall j, is_ok (nth j ws (Ok [])) = true).
    { intros j. rewrite Hnth. destruct (nth_error args j) as [a|] eqn:E; [|reflexivity].
      destruct (template_mentions t j); [|reflexivity].
      assert (Hj : j < length args) by (apply nth_error_Some; congruence).
      specialize (Hall j Hj). rewrite (nth_error_nth' args (ELit None KError []) Hj) in E. injection E as <-. exact Hall. }
    apply forallb_forall. intros p _. destruct p as [s|mp i|i sep mp]; [reflexivity|apply Hws|].
    apply (forallb_nth is_ok _ (Ok [])). intros j _. rewrite nth_skipn'. apply Hws.
Qed.

End Written.

Lemma is_ok_bind2 {A B C} (r1 : res A) (r2 : res B) (k : A -> B -> res C) :
  (forall a b, is_ok (k a b) = true) -> is_ok (bind r1 (fun a => bind r2 (k a))) = is_ok r1 && is_ok r2.
Proof. intros H. destruct r1 as [a|]; cbn; [|reflexivity]. destruct r2 as [b|]; cbn; [apply H|reflexivity]. Qed.

(** expressions the parser can build: every binary node carries a binary operator *)
Fixpoint wf_expr (e : expr) : bool :=
  match e with
  | EBin x _ op y => binop_handled op && negb (kind_eqb op KIn) && wf_expr x && wf_expr y
  | EUnary _ _ x | EParen _ x _ => wf_expr x
  | EIn x _ _ vs _ => wf_expr x && forallb wf_expr vs
  | EIndex x _ i _ => wf_expr x && wf_expr i
  | ECall _ _ args _ => forallb wf_expr args
  | _ => true
  end.

Theorem wx_ok_iff_rules c : forall e, wf_expr e = true -> forall w,
  is_ok (wx c w e) = expr_rules (bnd (c_scope c)) (rmode_of (c_mode c)) e.
Proof.
  induction e using expr_ind'; intros Hwf w.
  - (* identifiers *)
    cbn [wx]. rewrite is_ok_wrap.
    destruct ps as [|p [|p2 r]]; cbn [expr_rules].
    + destruct (c_mode c); reflexivity.
    + destruct (iquoted p) eqn:Eq; cbn [negb andb].
      * destruct (c_mode c); cbn [mode_eqb rmode_of is_ok]; try reflexivity;
          rewrite is_ok_write_parts; cbn [forallb]; unfold ident_is_alias, is_side_alias; rewrite Eq; reflexivity.
      * unfold bnd. destruct (scope_get (c_scope c) (iname p)); cbn [orb is_ok]; [reflexivity|].
        rewrite <- assoc_builtin. destruct (assoc_str builtin_idents (iname p)); cbn [is_ok]; [reflexivity|].
        destruct (c_mode c); cbn [mode_eqb rmode_of is_ok]; try reflexivity;
          rewrite is_ok_write_parts; cbn [forallb mode_eqb negb]; rewrite ?Bool.andb_true_r, ?Bool.andb_false_r; reflexivity.
    + clear Hwf. destruct (c_mode c); cbn [mode_eqb rmode_of is_ok]; try reflexivity.
      * rewrite is_ok_write_parts. cbn [mode_eqb negb].
        induction (p :: p2 :: r) as [|a l IHl]; cbn [forallb]; [reflexivity|].
        rewrite Bool.andb_true_r, IHl. reflexivity.
      * rewrite is_ok_write_parts. cbn [mode_eqb negb]. induction (p :: p2 :: r) as [|a l IHl]; cbn [forallb]; [reflexivity|].
        rewrite Bool.andb_false_r, IHl. reflexivity.
  - (* binary *)
    cbn [wf_expr] in Hwf. apply andb_prop in Hwf as [Hwf H2]. apply andb_prop in Hwf as [Hwf H1]. apply andb_prop in Hwf as [Hop Hin].
    cbn [wx expr_rules]. rewrite is_ok_wrap.
    rewrite <- (IHe1 H1 WMaybe), <- (IHe2 H2 WMaybe).
    assert (Hp1 : is_ok (wx c WPlain e1) = is_ok (wx c WMaybe e1)) by (rewrite !IHe1 by exact H1; reflexivity).
    assert (Hp2 : is_ok (wx c WPlain e2) = is_ok (wx c WMaybe e2)) by (rewrite !IHe2 by exact H2; reflexivity).
    destruct op; try discriminate Hop; try discriminate Hin; cbn [binop_sql];
      try (rewrite is_ok_bind2; [reflexivity|intros ? ?; reflexivity]);
      try (rewrite is_ok_bind2; [rewrite Hp1, Hp2; reflexivity|intros ? ?; reflexivity]).
    (* == : plain equality between the two sides of a join, null-safe elsewhere *)
    rewrite is_ok_bind2; [reflexivity|]. intros ? ?. destruct (mode_eqb _ _ && _); reflexivity.
  - (* unary *)
    cbn [wf_expr] in Hwf. cbn [wx expr_rules]. rewrite is_ok_wrap, is_ok_bind_total; [apply IHe; exact Hwf|intros ?; reflexivity].
  - (* in *)
    cbn [wf_expr] in Hwf. apply andb_prop in Hwf as [H1 H2].
    cbn [wx expr_rules]. rewrite is_ok_wrap, is_ok_bind. rewrite <- (IHe H1 WMaybe).
    destruct (wx c WMaybe e); cbn [is_ok andb]; [|reflexivity].
    rewrite is_ok_bind_total; [|intros ?; reflexivity].
    rewrite is_ok_sequence. apply forallb_map_ext.
    rewrite forallb_forall in H2. apply Forall_forall. intros x Hx.
    rewrite Forall_forall in H. apply H; [exact Hx|apply H2; exact Hx].
  - (* parentheses *) cbn [wf_expr] in Hwf. cbn [wx expr_rules]. apply IHe. exact Hwf.
  - (* literals *) cbn [wx expr_rules]. rewrite is_ok_wrap. destruct k; reflexivity.
  - (* calls *)
    cbn [wf_expr] in Hwf. rewrite forallb_forall in Hwf.
    assert (Hargs : Forall (fun x => forall w, is_ok (wx c w x) = expr_rules (bnd (c_scope c)) (rmode_of (c_mode c)) x) args).
    { apply Forall_forall. intros x Hx. rewrite Forall_forall in H. apply H; [exact Hx|apply Hwf; exact Hx]. }
    clear H Hwf.
    cbn [wx expr_rules]. rewrite is_ok_wrap. rewrite <- arity_documented.
    destruct (known_func (iname f)) as [[wr np]|] eqn:Ek.
    + destruct (arity_ok (writer_arity wr) (length args)) eqn:Ea; cbn [negb andb is_ok]; [|reflexivity].
      rewrite is_ok_fill.
      set (written := (fix go (i : nat) (l : list expr) {struct l} : list (res (list piece)) :=
                         match l with
                         | [] => []
                         | a :: r => match arg_use (writer_template wr) i with
                                     | Some true => wx c WMaybe a
                                     | Some false => wx c WPlain a
                                     | None => Ok []
                                     end :: go (S i) r
                         end)).
      assert (Hwr : forall l i, written i l = written_args c (writer_template wr) i l).
      { induction l as [|a r IHl]; intros i; cbn [written written_args]; [reflexivity|]. rewrite IHl. reflexivity. }
      rewrite Hwr. apply written_ok; assumption.
    + cbn [is_ok andb]. rewrite is_ok_bind_total; [|intros ?; reflexivity].
      rewrite is_ok_sequence. apply forallb_map_ext. eapply Forall_impl; [|exact Hargs]. intros a Ha. apply Ha.
  - (* index *)
    cbn [wf_expr] in Hwf. apply andb_prop in Hwf as [H1 H2].
    cbn [wx expr_rules]. rewrite is_ok_wrap. rewrite <- (IHe1 H1 WOperand), <- (IHe2 H2 WPlain).
    apply is_ok_bind2. intros ? ?. reflexivity.
Qed.

(** ** the statement loop *)
Fixpoint wf_stmts (ss : list stmt) : bool :=
  match ss with
  | [] => true
  | SLet _ _ _ x :: r => wf_expr x && wf_stmts r
  | STab _ :: r => wf_stmts r
  end.

Lemma expr_rules_ext b1 b2 m : (forall n, b1 n = b2 n) -> forall e, expr_rules b1 m e = expr_rules b2 m e.
Proof.
  intros Hb. induction e using expr_ind'; cbn [expr_rules]; try reflexivity; try congruence.
  - destruct ps as [|p [|p2 r]]; try reflexivity. rewrite Hb. reflexivity.
  - rewrite IHe. f_equal. induction H as [|a r Ha Hr IH]; cbn [forallb]; [reflexivity|]. rewrite Ha, IH. reflexivity.
  - f_equal. induction H as [|a r Ha Hr IH]; cbn [forallb]; [reflexivity|]. rewrite Ha, IH. reflexivity.
Qed.

Lemma stmts_rules_ext ss : forall b1 b2 seen, (forall n, b1 n = b2 n) -> stmts_rules b1 seen ss = stmts_rules b2 seen ss.
Proof.
  induction ss as [|s r IH]; intros b1 b2 seen Hb; cbn [stmts_rules]; [reflexivity|].
  destruct s as [kw name a x|t]; [|f_equal; apply IH; exact Hb].
  destruct seen; [apply IH; exact Hb|].
  rewrite (expr_rules_ext b1 b2 RLet Hb). f_equal. apply IH. intros n. rewrite Hb. reflexivity.
Qed.

Theorem stmt_loop_ok_iff_rules ss : forall sc q, wf_stmts ss = true ->
  is_ok (stmt_loop sc q ss) = stmts_rules (bnd sc) (match q with Some _ => true | None => false end) ss.
Proof.
  induction ss as [|s r IH]; intros sc q Hwf; cbn [stmt_loop stmts_rules]; [reflexivity|].
  destruct s as [kw name a x|t]; cbn [wf_stmts] in Hwf.
  - apply andb_prop in Hwf as [Hx Hr].
    destruct q as [t0|]; [apply IH; exact Hr|].
    rewrite is_ok_bind. unfold woperand.
    pose proof (wx_ok_iff_rules (mkCtx sc ModeLet) x Hx WOperand) as Hw. cbn [c_scope c_mode rmode_of] in Hw.
    destruct (wx (mkCtx sc ModeLet) WOperand x) as [v|p]; cbn [is_ok] in Hw; rewrite <- Hw; cbn [andb]; [|reflexivity].
    rewrite (IH _ None Hr). apply stmts_rules_ext. intros n. unfold bnd. cbn [scope_get].
    destruct (str_eqb (iname name) n); reflexivity.
  - destruct q as [t0|]; cbn [is_ok negb andb]; [reflexivity|]. apply (IH sc (Some t) Hwf).
Qed.
