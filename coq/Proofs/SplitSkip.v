(** * SplitSkip: [split] passes over the tokens of any tree (they are bracket-balanced), so the
    sub-parser the real parser cuts out for a bracketed or piped construct holds exactly that
    construct's tokens.  Used by the completeness proof (C07). *)
From PQL Require Import Spec.FlattenStmt Proofs.ParserSound Proofs.ParserSoundStmt Proofs.ParserReject.
From Coq Require Import Lia ZArith.
Local Open Scope list_scope.
Local Open Scope nat_scope.

Definition search_ok (k : kind) : Prop := k = KRParen \/ k = KRBracket \/ k = KPipe.

Definition pre (ts : list token) (p : list token * list token) : list token * list token := (ts ++ fst p, snd p).

(** [skips1 ts]: inside at least one open bracket, [split] passes over [ts] and comes back with the
    same bracket stack *)
Definition skips1 (ts : list token) : Prop :=
  forall search st r, search_ok search -> st <> [] -> split_toks search st (ts ++ r) = pre ts (split_toks search st r).
(** [skips0 ts]: the same at depth 0 (so [ts] has no top-level `)`, `]` or `|`) *)
Definition skips0 (ts : list token) : Prop :=
  forall search st r, search_ok search -> split_toks search st (ts ++ r) = pre ts (split_toks search st r).

Lemma skips0_1 ts : skips0 ts -> skips1 ts.
Proof. intros H search st r Hs _. apply H. exact Hs. Qed.

Lemma pre_nil p : pre [] p = p. Proof. destruct p; reflexivity. Qed.
Lemma pre_app a b p : pre a (pre b p) = pre (a ++ b) p.
Proof. destruct p; unfold pre; cbn [fst snd]. rewrite app_assoc. reflexivity. Qed.

Lemma skips0_nil : skips0 []. Proof. intros search st r _. cbn [app]. rewrite pre_nil. reflexivity. Qed.
Lemma skips1_nil : skips1 []. Proof. apply skips0_1, skips0_nil. Qed.

Lemma skips0_app a b : skips0 a -> skips0 b -> skips0 (a ++ b).
Proof. intros Ha Hb search st r Hs. rewrite <- app_assoc, Ha, Hb, pre_app by exact Hs. reflexivity. Qed.
Lemma skips1_app a b : skips1 a -> skips1 b -> skips1 (a ++ b).
Proof. intros Ha Hb search st r Hs Hst. rewrite <- app_assoc, Ha, Hb, pre_app by assumption. reflexivity. Qed.

Definition plain_kind (k : kind) : Prop :=
  k <> KLParen /\ k <> KLBracket /\ k <> KRParen /\ k <> KRBracket /\ k <> KPipe.

Lemma kind_eqb_refl k : kind_eqb k k = true. Proof. apply kind_eqb_eq. reflexivity. Qed.
Lemma kind_eqb_neq a b : a <> b -> kind_eqb a b = false.
Proof. intros H. destruct (kind_eqb a b) eqn:E; [|reflexivity]. apply kind_eqb_eq in E. contradiction. Qed.

Lemma split_cons_pre search st t r p : split_toks search st r = p ->
  (let '(a, b) := p in (t :: a, b)) = pre [t] p.
Proof. intros <-. destruct (split_toks search st r). reflexivity. Qed.

(** a token that is neither a bracket nor a pipe *)
Lemma skips0_tok t : plain_kind (tkind t) -> skips0 [t].
Proof.
  intros (H1 & H2 & H3 & H4 & H5) search st r Hs. cbn [app split_toks].
  rewrite (kind_eqb_neq _ _ H1), (kind_eqb_neq _ _ H2), (kind_eqb_neq _ _ H3), (kind_eqb_neq _ _ H4). cbn [orb].
  assert (Hne : kind_eqb (tkind t) search = false).
  { apply kind_eqb_neq. destruct Hs as [->|[->| ->]]; assumption. }
  rewrite Hne. destruct (split_toks search st r); reflexivity.
Qed.

(** a pipe inside brackets *)
Lemma skips1_pipe t : tkind t = KPipe -> skips1 [t].
Proof.
  intros Hk search st r Hs Hst. cbn [app split_toks]. rewrite Hk. cbn [kind_eqb orb].
  replace (kind_eqb KPipe KLParen) with false by reflexivity.
  replace (kind_eqb KPipe KLBracket) with false by reflexivity.
  replace (kind_eqb KPipe KRParen) with false by reflexivity.
  replace (kind_eqb KPipe KRBracket) with false by reflexivity. cbn [orb].
  destruct st as [|s st']; [contradiction|].
  destruct (kind_eqb KPipe search); destruct (split_toks search (s :: st') r); reflexivity.
Qed.

Lemma search_not_open search : search_ok search -> kind_eqb search KLParen = false /\ kind_eqb search KLBracket = false.
Proof. intros [->|[->| ->]]; split; reflexivity. Qed.

(** ( ... ) and [ ... ] *)
Lemma skips0_paren l a c : tkind l = KLParen -> tkind c = KRParen -> skips1 a -> skips0 (l :: a ++ [c]).
Proof.
  intros Hl Hc Ha search st r Hs. cbn [app split_toks]. rewrite Hl.
  replace (kind_eqb KLParen KLParen) with true by reflexivity. cbn [orb].
  destruct (search_not_open _ Hs) as [Hn _]. rewrite Hn.
  rewrite <- app_assoc. rewrite Ha by (try exact Hs; discriminate).
  cbn [app split_toks]. rewrite Hc.
  replace (kind_eqb KRParen KLParen) with false by reflexivity.
  replace (kind_eqb KRParen KLBracket) with false by reflexivity.
  replace (kind_eqb KRParen KRParen) with true by reflexivity. cbn [orb pop_until].
  replace (kind_eqb KRParen KRParen) with true by reflexivity.
  destruct (split_toks search st r) as [x y]. unfold pre. cbn [fst snd app].
  rewrite <- app_assoc. reflexivity.
Qed.

Lemma skips0_bracket l a c : tkind l = KLBracket -> tkind c = KRBracket -> skips1 a -> skips0 (l :: a ++ [c]).
Proof.
  intros Hl Hc Ha search st r Hs. cbn [app split_toks]. rewrite Hl.
  replace (kind_eqb KLBracket KLParen) with false by reflexivity.
  replace (kind_eqb KLBracket KLBracket) with true by reflexivity. cbn [orb].
  destruct (search_not_open _ Hs) as [_ Hn]. rewrite Hn.
  rewrite <- app_assoc. rewrite Ha by (try exact Hs; discriminate).
  cbn [app split_toks]. rewrite Hc.
  replace (kind_eqb KRBracket KLParen) with false by reflexivity.
  replace (kind_eqb KRBracket KLBracket) with false by reflexivity.
  replace (kind_eqb KRBracket KRParen) with false by reflexivity.
  replace (kind_eqb KRBracket KRBracket) with true by reflexivity. cbn [orb pop_until].
  replace (kind_eqb KRBracket KRBracket) with true by reflexivity.
  destruct (split_toks search st r) as [x y]. unfold pre. cbn [fst snd app].
  rewrite <- app_assoc. reflexivity.
Qed.

Lemma skips0_cons t ts : plain_kind (tkind t) -> skips0 ts -> skips0 (t :: ts).
Proof. intros Ht Hts. change (t :: ts) with ([t] ++ ts). apply skips0_app; [apply skips0_tok; exact Ht|exact Hts]. Qed.

Lemma skips0_snoc t ts : plain_kind (tkind t) -> skips0 ts -> skips0 (ts ++ [t]).
Proof. intros Ht Hts. apply skips0_app; [exact Hts|apply skips0_tok; exact Ht]. Qed.

(** ** the tokens of every tree *)
Ltac pk :=
  match goal with
  | H : is_tok _ _ ?t |- plain_kind (tkind ?t) => destruct H as [H _]; rewrite H
  | H : kw_tok _ _ ?t |- plain_kind (tkind ?t) => destruct H as [H _]; rewrite H
  | H : ident_tok ?i ?t |- plain_kind (tkind ?t) => destruct H as [H _]; rewrite H; destruct (iquoted i)
  | H : tkind ?t = _ |- plain_kind (tkind ?t) => rewrite H
  end; unfold plain_kind; repeat split; discriminate.

Lemma qual_skips ps ts : toks_qual ps ts -> skips0 ts.
Proof.
  induction 1 as [i t Hi|i t d r tr Hi Hd _ IH].
  - apply skips0_tok. pk.
  - apply skips0_cons; [pk|]. apply skips0_cons; [pk|exact IH].
Qed.

Lemma prec_plain op : (0 <= op_prec op)%Z -> plain_kind op.
Proof. intros H. destruct op; vm_compute in H; try (exfalso; apply H; reflexivity); unfold plain_kind; repeat split; discriminate. Qed.

Lemma expr_skips : (forall e ts, toks_expr e ts -> skips0 ts) /\ (forall l ts, toks_list l ts -> skips0 ts) /\ (forall l ts, toks_args l ts -> skips0 ts).
Proof.
  apply toks_expr_mutind; intros.
  - eapply qual_skips; eassumption.
  - apply skips0_tok. match goal with Hk : tkind ?t = ?k, Hor : ?k = KNumber \/ _ |- _ => rewrite Hk; destruct Hor; subst; unfold plain_kind; repeat split; discriminate end.
  - apply skips0_cons; [|assumption].
    match goal with Ht : is_tok ?op _ ?t, Hor : ?op = KPlus \/ _ |- _ => destruct Ht as [Ht _]; rewrite Ht; destruct Hor; subst; unfold plain_kind; repeat split; discriminate end.
  - apply skips0_app; [assumption|]. apply skips0_cons; [|assumption].
    match goal with Ht : is_tok ?op _ ?t |- _ => destruct Ht as [Ht _]; rewrite Ht; apply prec_plain; assumption end.
  - apply skips0_app; [assumption|]. apply skips0_cons; [pk|].
    apply skips0_paren; [match goal with H : is_tok KLParen _ _ |- _ => apply H end|match goal with H : is_tok KRParen _ _ |- _ => apply H end|apply skips0_1; assumption].
  - apply skips0_paren; [match goal with H : is_tok KLParen _ _ |- _ => apply H end|match goal with H : is_tok KRParen _ _ |- _ => apply H end|apply skips0_1; assumption].
  - apply skips0_cons; [pk|].
    apply skips0_paren; [match goal with H : is_tok KLParen _ _ |- _ => apply H end|match goal with H : is_tok KRParen _ _ |- _ => apply H end|apply skips0_1; assumption].
  - apply skips0_app; [assumption|].
    apply skips0_bracket; [match goal with H : is_tok KLBracket _ _ |- _ => apply H end|match goal with H : is_tok KRBracket _ _ |- _ => apply H end|apply skips0_1; assumption].
  - assumption.
  - apply skips0_app; [assumption|]. apply skips0_cons; [pk|assumption].
  - apply skips0_nil.
  - assumption.
  - apply skips0_snoc; [pk|assumption].
Qed.

Definition expr_skips0 := proj1 expr_skips.
Definition list_skips0 := proj1 (proj2 expr_skips).
Definition args_skips0 := proj2 (proj2 expr_skips).

Lemma sep_skips {A} (P : A -> list token -> Prop) : (forall a ts, P a ts -> skips0 ts) -> forall l ts, toks_sep P l ts -> skips0 ts.
Proof.
  intros HP l ts H. induction H as [a ta Ha|a ta c r tr Ha Hc _ IH]; [eapply HP; eassumption|].
  apply skips0_app; [eapply HP; eassumption|]. apply skips0_cons; [pk|exact IH].
Qed.

Lemma sort_term_skips t ts : toks_sort_term t ts -> skips0 ts.
Proof.
  intros H. destruct H as [x asc asp dflt nf nsp tx ta tn Hx Hd Hn]. apply expr_skips0 in Hx.
  apply skips0_app; [exact Hx|]. apply skips0_app.
  - destruct Hd; [apply skips0_nil|apply skips0_tok; pk|apply skips0_tok; pk].
  - destruct Hn; [apply skips0_nil| |]; (apply skips0_cons; [pk|apply skips0_tok; pk]).
Qed.

Lemma ext_col_skips c ts : toks_ext_col c ts -> skips0 ts.
Proof.
  intros H. destruct H as [i asp x ti ta tx Hi Ha Hx|x tx Hx]; apply expr_skips0 in Hx; [|exact Hx].
  apply skips0_cons; [pk|]. apply skips0_cons; [pk|exact Hx].
Qed.

Lemma proj_col_skips c ts : toks_proj_col c ts -> skips0 ts.
Proof.
  intros H. destruct H as [i ti Hi|i asp x ti ta tx Hi Ha Hx]; [apply skips0_tok; pk|]. apply expr_skips0 in Hx.
  apply skips0_cons; [pk|]. apply skips0_cons; [pk|exact Hx].
Qed.

Lemma render_prop_skips c ts : toks_render_prop c ts -> skips0 ts.
Proof.
  intros H. destruct H as [i asp x ti ta tx Hi Ha Hx]. apply expr_skips0 in Hx.
  apply skips0_cons; [pk|]. apply skips0_cons; [pk|exact Hx].
Qed.

Lemma summ_skips cols bsp gs ts : toks_summ cols bsp gs ts -> skips0 ts.
Proof.
  intros H. destruct H as [cols tc Hc|bsp gs b tg Hb Hg|cols bsp gs tc b tg Hc Hb Hg|cols bsp gs tc c b tg Hc Hcm Hb Hg];
    repeat match goal with H : toks_sep toks_ext_col _ _ |- _ => apply (sep_skips _ ext_col_skips) in H end.
  - exact Hc.
  - apply skips0_cons; [pk|exact Hg].
  - apply skips0_app; [exact Hc|]. apply skips0_cons; [pk|exact Hg].
  - apply skips0_app; [exact Hc|]. apply skips0_cons; [pk|]. apply skips0_cons; [pk|exact Hg].
Qed.

(** an operator without its leading pipe has no top-level pipe; a whole operator list may stand
    inside the parentheses of a join *)
Definition op_body_skips (o : operator) (ts : list token) : Prop :=
  exists p body, ts = p :: body /\ tkind p = KPipe /\ skips0 body.

Lemma op_skips : (forall o ts, toks_op o ts -> op_body_skips o ts) /\ (forall l ts, toks_ops l ts -> skips1 ts).
Proof.
  apply toks_op_mutind; intros; unfold op_body_skips.
  - eexists _, _; split; [reflexivity|]. split; [match goal with H : is_tok KPipe _ _ |- _ => apply H end|]. apply skips0_tok; pk.
  - eexists _, _; split; [reflexivity|]. split; [match goal with H : is_tok KPipe _ _ |- _ => apply H end|].
    apply skips0_cons; [pk|]. eapply expr_skips0; eassumption.
  - eexists _, _; split; [reflexivity|]. split; [match goal with H : is_tok KPipe _ _ |- _ => apply H end|].
    apply skips0_cons; [pk|]. apply skips0_cons; [pk|]. eapply (sep_skips _ sort_term_skips); eassumption.
  - eexists _, _; split; [reflexivity|]. split; [match goal with H : is_tok KPipe _ _ |- _ => apply H end|].
    apply skips0_cons; [pk|]. eapply expr_skips0; eassumption.
  - eexists _, _; split; [reflexivity|]. split; [match goal with H : is_tok KPipe _ _ |- _ => apply H end|].
    apply skips0_cons; [pk|]. apply skips0_app; [eapply expr_skips0; eassumption|]. apply skips0_cons; [pk|]. eapply sort_term_skips; eassumption.
  - eexists _, _; split; [reflexivity|]. split; [match goal with H : is_tok KPipe _ _ |- _ => apply H end|].
    apply skips0_cons; [pk|]. eapply (sep_skips _ proj_col_skips); eassumption.
  - eexists _, _; split; [reflexivity|]. split; [match goal with H : is_tok KPipe _ _ |- _ => apply H end|].
    apply skips0_cons; [pk|]. eapply (sep_skips _ ext_col_skips); eassumption.
  - eexists _, _; split; [reflexivity|]. split; [match goal with H : is_tok KPipe _ _ |- _ => apply H end|].
    apply skips0_cons; [pk|]. eapply summ_skips; eassumption.
  - eexists _, _; split; [reflexivity|]. split; [match goal with H : is_tok KPipe _ _ |- _ => apply H end|].
    apply skips0_cons; [pk|]. apply skips0_app.
    { match goal with H : toks_join_kind _ _ _ _ |- _ => destruct H end; [apply skips0_nil|].
      apply skips0_cons; [pk|]. apply skips0_cons; [pk|]. apply skips0_tok; pk. }
    match goal with |- skips0 (?tl :: (?tsrc :: ?tro) ++ ?tr :: ?ton :: ?tc) =>
      replace (tl :: (tsrc :: tro) ++ tr :: ton :: tc) with ((tl :: (tsrc :: tro) ++ [tr]) ++ ton :: tc)
        by (cbn [app]; rewrite <- app_assoc; reflexivity) end.
    apply skips0_app.
    + apply skips0_paren; [match goal with H : is_tok KLParen _ _ |- _ => apply H end|match goal with H : is_tok KRParen _ _ |- _ => apply H end|].
      match goal with |- skips1 (?a :: ?b) => change (skips1 ([a] ++ b)) end.
      apply skips1_app; [apply skips0_1, skips0_tok; pk|assumption].
    + apply skips0_cons; [pk|]. eapply list_skips0; eassumption.
  - eexists _, _; split; [reflexivity|]. split; [match goal with H : is_tok KPipe _ _ |- _ => apply H end|].
    apply skips0_cons; [pk|]. apply skips0_tok; pk.
  - eexists _, _; split; [reflexivity|]. split; [match goal with H : is_tok KPipe _ _ |- _ => apply H end|].
    apply skips0_cons; [pk|]. apply skips0_cons; [pk|].
    match goal with H : toks_render_with _ _ _ _ _ |- _ => destruct H end; [apply skips0_nil|].
    apply skips0_cons; [pk|].
    apply skips0_paren; [match goal with H : is_tok KLParen _ _ |- _ => apply H end|match goal with H : is_tok KRParen _ _ |- _ => apply H end|].
    apply skips0_1. eapply (sep_skips _ render_prop_skips); eassumption.
  - apply skips1_nil.
  - match goal with H : op_body_skips _ _ |- _ => destruct H as (p & body & -> & Hp & Hb) end.
    apply skips1_app; [|assumption].
    change (p :: body) with ([p] ++ body). apply skips1_app; [apply skips1_pipe; exact Hp|apply skips0_1; exact Hb].
Qed.

(** ** what [split] then returns *)
Lemma split_at_closer k ts c rest : (k = KRParen \/ k = KRBracket) -> skips0 ts -> tkind c = k ->
  split k (ts ++ c :: rest) = (ts, c :: rest).
Proof.
  intros Hk Hts Hc. unfold split. rewrite Hts by (destruct Hk as [->| ->]; unfold search_ok; tauto).
  cbn [split_toks]. rewrite Hc.
  destruct Hk as [->| ->]; cbn [kind_eqb orb]; unfold pre; cbn [fst snd]; rewrite app_nil_r; reflexivity.
Qed.

Lemma split_to_end k ts : search_ok k -> skips0 ts -> split k ts = (ts, []).
Proof.
  intros Hk Hts. unfold split. rewrite <- (app_nil_r ts) at 1. rewrite Hts by exact Hk. cbn [split_toks]. unfold pre. cbn [fst snd].
  rewrite app_nil_r. reflexivity.
Qed.

Lemma split_at_pipe ts p rest : skips0 ts -> tkind p = KPipe -> split KPipe (ts ++ p :: rest) = (ts, p :: rest).
Proof.
  intros Hts Hp. unfold split. rewrite Hts by (unfold search_ok; tauto). cbn [split_toks]. rewrite Hp.
  cbn [kind_eqb orb]. unfold pre; cbn [fst snd]. rewrite app_nil_r. reflexivity.
Qed.

(** ** operator lists: pipes at depth 0, so only the bracket searches pass over them *)
Definition skipsP (ts : list token) : Prop :=
  forall search st r, (search = KRParen \/ search = KRBracket) -> split_toks search st (ts ++ r) = pre ts (split_toks search st r).

Lemma skips0_P ts : skips0 ts -> skipsP ts.
Proof. intros H search st r Hs. apply H. destruct Hs as [->| ->]; unfold search_ok; tauto. Qed.

Lemma skipsP_app a b : skipsP a -> skipsP b -> skipsP (a ++ b).
Proof. intros Ha Hb search st r Hs. rewrite <- app_assoc, Ha, Hb, pre_app by exact Hs. reflexivity. Qed.

Lemma skipsP_pipe t : tkind t = KPipe -> skipsP [t].
Proof.
  intros Hk search st r Hs. cbn [app split_toks]. rewrite Hk.
  replace (kind_eqb KPipe KLParen) with false by reflexivity.
  replace (kind_eqb KPipe KLBracket) with false by reflexivity.
  replace (kind_eqb KPipe KRParen) with false by reflexivity.
  replace (kind_eqb KPipe KRBracket) with false by reflexivity. cbn [orb].
  assert (E : kind_eqb KPipe search = false) by (destruct Hs as [->| ->]; reflexivity). rewrite E.
  destruct (split_toks search st r); reflexivity.
Qed.

Lemma ops_skipsP l ts : toks_ops l ts -> skipsP ts.
Proof.
  induction 1 as [|o to os tos Ho _ IH]; [intros search st r _; cbn [app]; rewrite pre_nil; reflexivity|].
  apply skipsP_app; [|exact IH]. destruct (proj1 op_skips _ _ Ho) as (p & body & -> & Hp & Hb).
  change (p :: body) with ([p] ++ body). apply skipsP_app; [apply skipsP_pipe; exact Hp|apply skips0_P; exact Hb].
Qed.

Lemma split_at_closerP k ts c rest : (k = KRParen \/ k = KRBracket) -> skipsP ts -> tkind c = k ->
  split k (ts ++ c :: rest) = (ts, c :: rest).
Proof.
  intros Hk Hts Hc. unfold split. rewrite Hts by exact Hk.
  cbn [split_toks]. rewrite Hc.
  destruct Hk as [->| ->]; cbn [kind_eqb orb]; unfold pre; cbn [fst snd]; rewrite app_nil_r; reflexivity.
Qed.

Lemma ops_head l ts : toks_ops l ts -> (l = [] /\ ts = []) \/ exists p r, ts = p :: r /\ tkind p = KPipe.
Proof.
  intros H. destruct H as [|o to os tos Ho Hos]; [left; split; reflexivity|right].
  destruct (proj1 op_skips _ _ Ho) as (p & body & -> & Hp & _). exists p, (body ++ tos). split; [reflexivity|exact Hp].
Qed.
