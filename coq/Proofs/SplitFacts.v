(** * Facts about SplitStatements: the pieces joined with ';' give back the source; one more
    piece than semicolon tokens. *)
From PQL Require Import Model.Lexer Proofs.LexerFacts.
From Coq Require Import Lia ZifyBool ZifyNat ZifyN.
Local Open Scope nat_scope.

(** ** every token of a scan is the item found at its own offset *)
Definition item_at (s : str) (t : token) : Prop :=
  tstart t <= length s /\
  lex1 (skipn (tstart t) s) = Tok (tkind t) (tvalue t) (tend t - tstart t) /\ tstart t < tend t.

Lemma skipn_skipn_add {A} a b (l : list A) : skipn a (skipn b l) = skipn (a + b) l.
Proof.
  revert l; induction b as [|b IH]; intros l.
  - rewrite Nat.add_0_r. reflexivity.
  - destruct l as [|x r]; [now rewrite !skipn_nil|].
    replace (a + S b) with (S (a + b)) by lia. cbn [skipn]. apply IH.
Qed.

Lemma scan_from_items s fuel : forall off, off <= length s ->
  forall t, In t (scan_from fuel off (skipn off s)) -> item_at s t.
Proof.
  induction fuel as [|f IH]; intros off Hoff t Hin; [destruct Hin|].
  cbn [scan_from] in Hin.
  destruct (skipn off s) as [|b r] eqn:El; [destruct Hin|]. rewrite <- El in Hin.
  assert (Hne : skipn off s <> []) by (rewrite El; congruence).
  pose proof (lex1_progress _ Hne) as Hp. rewrite skipn_length in Hp.
  assert (Hnext : forall n, n = item_len (lex1 (skipn off s)) ->
            forall t, In t (scan_from f (n + off) (skipn n (skipn off s))) -> item_at s t).
  { intros n Hn t' Ht'. rewrite skipn_skipn_add in Ht'. apply (IH (n + off)); [lia|exact Ht']. }
  destruct (lex1 (skipn off s)) as [k v n|n] eqn:Elex; cbn [item_len] in *.
  - destruct Hin as [<-|Hin].
    + unfold item_at; cbn [tstart tend tkind tvalue]. repeat split; try lia.
      rewrite Elex. f_equal. lia.
    + apply (Hnext n eq_refl). exact Hin.
  - apply (Hnext n eq_refl). exact Hin.
Qed.

Theorem scan_items s t : In t (scan s) -> item_at s t.
Proof. intros H. apply (scan_from_items s (S (length s)) 0); [lia|exact H]. Qed.

(** ** a semicolon token is the single byte ';' *)
(** side condition on the generated keyword table *)
Lemma keywords_not_semi : forallb (fun kv => negb (kind_eqb (snd kv) KSemi)) keywords = true.
Proof. vm_compute. reflexivity. Qed.

Lemma assoc_not_semi (t : list (str * kind)) s k :
  forallb (fun kv => negb (kind_eqb (snd kv) KSemi)) t = true -> assoc_str t s = Some k -> k <> KSemi.
Proof.
  induction t as [|[k0 v0] r IH]; cbn [assoc_str forallb]; [discriminate|].
  intros H E. apply andb_prop in H as [H1 H2].
  destruct (str_eqb k0 s).
  - injection E as <-. cbn [snd] in H1. intros ->. vm_compute in H1. discriminate.
  - apply IH; assumption.
Qed.

Ltac not_semi := try (intros; discriminate).

(** a decoded rune below 128 is the byte itself *)
Lemma decode_small b r c w : decode (b :: r) = (c, w) -> (c < 128)%N -> b = c /\ w = 1.
Proof.
  unfold decode, rune_error, in_range, is_cont.
  destruct (b <? 128)%N eqn:E; [intros [= <- <-]; auto|].
  repeat match goal with
         | |- context [match ?x with [] => _ | _ :: _ => _ end] => destruct x
         | |- context [if ?x then _ else _] => destruct x eqn:?
         end; intros [= <- <-]; try lia;
  repeat match goal with H : context [if ?x then _ else _] |- _ => destruct x eqn:? end;
  unfold in_range in *; lia.
Qed.

Lemma lex1_semi l v n : lex1 l = Tok KSemi v n -> exists r, l = 59%N :: r /\ n = 1 /\ v = [].
Proof.
  destruct l as [|b r]; [discriminate|]. unfold lex1.
  assert (Hd : decode (b :: r) = decode (b :: r)) by reflexivity.
  destruct (decode (b :: r)) as [c w] eqn:Edec.
  destruct (is_space c); not_semi.
  destruct (is_ident_start c).
  { unfold lex_ident. destruct (keyword_kind _) eqn:Ek; not_semi.
    intros H. injection H as Hk _ _. exfalso. revert Hk.
    eapply assoc_not_semi; [exact keywords_not_semi|exact Ek]. }
  destruct (is_digit c || (c =? 46)%N) eqn:Enum.
  { unfold lex_number.
    repeat match goal with
           | |- context [match ?x with [] => _ | _ :: _ => _ end] => destruct x
           | |- context [if ?x then _ else _] => destruct x
           end; not_semi. }
  destruct (c =? 44)%N; not_semi.
  destruct ((c =? 34)%N || (c =? 39)%N).
  { unfold lex_string. destruct (string_body _ _ _ _) as [[?|] ?]; not_semi. }
  destruct (c =? 96)%N.
  { unfold lex_quoted. destruct (quoted_body _ _) as [[?|] ?]; not_semi. }
  repeat match goal with
         | |- context [match r with [] => _ | _ :: _ => _ end] => destruct r
         | |- context [if ?x then _ else _] => destruct x eqn:?
         end; not_semi.
  (* the ';' branch *)
  all: intros H; injection H as <- <-.
  all: match goal with H : (?x =? 59)%N = true |- _ => apply N.eqb_eq in H; subst x end.
  all: match goal with H : decode _ = _ |- _ => destruct (decode_small _ _ _ _ H) as [-> _]; [lia|]; eauto end.
Qed.

(** ** SplitStatements *)
Fixpoint join_semis (ps : list str) : str :=
  match ps with
  | [] => []
  | [p] => p
  | p :: r => p ++ 59%N :: join_semis r
  end.

Definition count_semi (ts : list token) : nat :=
  length (filter (fun t => kind_eqb (tkind t) KSemi) ts).

Lemma kind_eqb_semi k : kind_eqb k KSemi = true <-> k = KSemi.
Proof. split; [destruct k; vm_compute; congruence|intros ->; reflexivity]. Qed.

Lemma split_at_semis_nonempty s start ts : split_at_semis s start ts <> [].
Proof.
  revert start; induction ts as [|t r IH]; intros start; cbn [split_at_semis]; [congruence|].
  destruct (tkind t); try apply IH; congruence.
Qed.

Lemma split_at_semis_count s ts : forall start,
  length (split_at_semis s start ts) = 1 + count_semi ts.
Proof.
  induction ts as [|t r IH]; intros start; cbn [split_at_semis]; [reflexivity|].
  unfold count_semi in *. cbn [filter].
  destruct (tkind t) eqn:E; try (rewrite IH; reflexivity).
  cbn [length]. rewrite IH. reflexivity.
Qed.

Lemma nth_error_skipn_cons {A} (l : list A) n x : nth_error l n = Some x -> skipn n l = x :: skipn (S n) l.
Proof.
  revert l; induction n as [|n IH]; intros [|y r]; cbn; try discriminate.
  - intros [= ->]. reflexivity.
  - intros H. apply IH in H. exact H.
Qed.

Lemma firstn_skipn_split {A} (l : list A) a b : a <= b -> skipn a l = firstn (b - a) (skipn a l) ++ skipn b l.
Proof.
  intros H. rewrite <- (firstn_skipn (b - a) (skipn a l)) at 1. f_equal.
  rewrite skipn_skipn_add. f_equal. lia.
Qed.

Lemma split_at_semis_join s ts : forall start,
  toks_within start (length s) ts ->
  (forall t, In t ts -> tkind t = KSemi -> tend t = S (tstart t) /\ nth_error s (tstart t) = Some 59%N) ->
  join_semis (split_at_semis s start ts) = skipn start s.
Proof.
  induction ts as [|t r IH]; intros start W Hs; cbn [split_at_semis]; [reflexivity|].
  inversion W as [|? ? ? ? H1 H2 H3 W']; subst.
  assert (IHr : forall st, toks_within st (length s) r -> join_semis (split_at_semis s st r) = skipn st s).
  { intros st Wst. apply IH; [exact Wst|]. intros t' Ht'. apply Hs. right. exact Ht'. }
  destruct (tkind t) eqn:Ek;
    try (apply IHr; apply toks_within_weaken with (lo := tend t); [lia|exact W']).
  destruct (Hs t (or_introl eq_refl) Ek) as [He Hn].
  pose proof (split_at_semis_nonempty s (tend t) r) as Hne.
  cbn [join_semis]. destruct (split_at_semis s (tend t) r) as [|p ps] eqn:Esp; [congruence|].
  rewrite <- Esp. rewrite (IHr (tend t) W').
  unfold slice. symmetry. etransitivity; [apply (firstn_skipn_split s start (tstart t)); lia|]. f_equal.
  rewrite He. apply nth_error_skipn_cons. exact Hn.
Qed.

Lemma hd_nth_error {A} (l : list A) n x r : skipn n l = x :: r -> nth_error l n = Some x.
Proof.
  revert l; induction n as [|n IH]; intros [|y t]; cbn; try discriminate.
  - intros [= -> _]. reflexivity.
  - apply IH.
Qed.

Theorem split_join s : join_semis (split_statements s) = s.
Proof.
  unfold split_statements. rewrite split_at_semis_join; [reflexivity|apply scan_within|].
  intros t Hin Hk. destruct (scan_items s t Hin) as (Hle & Hlex & Hlt).
  rewrite Hk in Hlex. apply lex1_semi in Hlex as (r & Hr & Hn & _).
  split; [lia|]. eapply hd_nth_error. exact Hr.
Qed.

Theorem split_count s : length (split_statements s) = 1 + count_semi (scan s).
Proof. apply split_at_semis_count. Qed.

Theorem scan_semi_byte s t : In t (scan s) -> tkind t = KSemi ->
  tend t = S (tstart t) /\ nth_error s (tstart t) = Some 59%N.
Proof.
  intros Hin Hk. destruct (scan_items s t Hin) as (Hle & Hlex & Hlt).
  rewrite Hk in Hlex. apply lex1_semi in Hlex as (r & Hr & Hn & _).
  split; [lia|]. eapply hd_nth_error. exact Hr.
Qed.
