(** * C04: the structure of the output depends only on the structure of the program.
    [sk_stmts] erases from a program everything the property calls content - the characters of
    string literals, of number literals, of quoted names, of unquoted names that are plain column /
    table / alias names - and every position.  Theorem: a program and its skeleton compile alike
    (both fail, or both succeed with piece lists that differ only in the payload of identifier,
    string and number pieces).  Hence two programs with the same skeleton give outputs with the
    same token shapes: changing content changes exactly the corresponding tokens. *)
From PQL Require Import Model.Compile Proofs.ExprInd Proofs.JoinFacts Proofs.WriterFacts Proofs.SubqWf Spec.SqlLex Proofs.ReadBack.
From Coq Require Import Lia String.
Local Open Scope list_scope.
Local Open Scope nat_scope.
Local Notation length := List.length (only parsing).

(** ** shapes of pieces *)
Definition pshape (p : piece) : piece :=
  match p with PIdent _ => PIdent [] | PStr _ => PStr [] | PNum _ => PNum [] | x => x end.
Definition sh (ps : list piece) : list piece := map pshape ps.

Lemma sh_app a b : sh (a ++ b) = sh a ++ sh b.
Proof. apply map_app. Qed.

Ltac shsolve :=
  unfold sh in *; rewrite ?map_app; cbn [map pshape app]; rewrite ?map_app;
  repeat match goal with H : map pshape _ = map pshape _ |- _ => rewrite H; clear H end; try reflexivity.

Definition res_sim (r r' : res (list piece)) : Prop :=
  match r, r' with Ok a, Ok b => sh a = sh b | Err _, Err _ => True | _, _ => False end.
Definition lres_sim (r r' : res (list (list piece))) : Prop :=
  match r, r' with Ok a, Ok b => Forall2 (fun x y => sh x = sh y) a b | Err _, Err _ => True | _, _ => False end.

Lemma res_sim_bind r r' f f' : res_sim r r' -> (forall a a', sh a = sh a' -> res_sim (f a) (f' a')) ->
  res_sim (bind r f) (bind r' f').
Proof. destruct r, r'; cbn [res_sim bind]; intros H Hf; try contradiction; auto. Qed.

Lemma lres_sim_bind r r' f f' : lres_sim r r' -> (forall a a', Forall2 (fun x y => sh x = sh y) a a' -> res_sim (f a) (f' a')) ->
  res_sim (bind r f) (bind r' f').
Proof. destruct r, r'; cbn [lres_sim res_sim bind]; intros H Hf; try contradiction; auto. Qed.

Lemma sequence_sim l l' : Forall2 res_sim l l' -> lres_sim (sequence l) (sequence l').
Proof.
  induction 1 as [|x y l l' Hxy Hl IH]; cbn [sequence]; [constructor|].
  destruct x, y; cbn [res_sim bind] in *; try contradiction; [|exact I].
  destruct (sequence l), (sequence l'); cbn [lres_sim bind] in *; try contradiction; [|exact I].
  constructor; assumption.
Qed.

Lemma join_pieces_sim sep l l' : Forall2 (fun x y => sh x = sh y) l l' -> sh (join_pieces sep l) = sh (join_pieces sep l').
Proof.
  induction 1 as [|x y l l' Hxy Hl IH]; [reflexivity|].
  cbn [join_pieces]. destruct Hl as [|x2 y2 l2 l2' H2 Hl2]; [exact Hxy|].
  rewrite !sh_app, Hxy. f_equal. f_equal. exact IH.
Qed.

Lemma flat_map_sim (f : list piece -> list piece) l l' :
  (forall a a', sh a = sh a' -> sh (f a) = sh (f a')) ->
  Forall2 (fun x y => sh x = sh y) l l' -> sh (flat_map f l) = sh (flat_map f l').
Proof.
  intros Hf. induction 1 as [|x y l l' Hxy Hl IH]; [reflexivity|]. cbn [flat_map]. rewrite !sh_app, IH, (Hf _ _ Hxy). reflexivity.
Qed.

Lemma Forall2_nth_sim l l' i : Forall2 res_sim l l' -> res_sim (nth i l (Ok [])) (nth i l' (Ok [])).
Proof. intros H. revert i. induction H as [|x y l l' Hxy Hl IH]; intros [|i]; cbn [nth res_sim]; auto. Qed.

Lemma Forall2_skipn {A B} (R : A -> B -> Prop) l l' i : Forall2 R l l' -> Forall2 R (skipn i l) (skipn i l').
Proof. intros H. revert i. induction H as [|x y l l' Hxy Hl IH]; intros [|i]; cbn [skipn]; auto. Qed.

Lemma fill_template_sim t : forall args args', Forall2 res_sim args args' ->
  res_sim (fill_template t args) (fill_template t args').
Proof.
  induction t as [|p r IH]; intros args args' H; cbn [fill_template]; [reflexivity|].
  destruct p as [s|mp i|i sep mp].
  - apply res_sim_bind; [apply IH; exact H|]. intros a a' Ha. cbn [res_sim sh map pshape]. f_equal. exact Ha.
  - apply res_sim_bind; [apply Forall2_nth_sim; exact H|]. intros a a' Ha.
    apply res_sim_bind; [apply IH; exact H|]. intros b b' Hb. cbn [res_sim]. rewrite !sh_app, Ha, Hb. reflexivity.
  - apply lres_sim_bind; [apply sequence_sim, Forall2_skipn; exact H|]. intros a a' Ha.
    apply res_sim_bind; [apply IH; exact H|]. intros b b' Hb. cbn [res_sim]. rewrite !sh_app, Hb. f_equal.
    apply flat_map_sim; [|exact Ha]. intros x x' Hx. cbn [sh map pshape]. f_equal. exact Hx.
Qed.

(** ** the skeleton of a program *)
Definition alias_name (n : str) : bool := str_eqb n w_left || str_eqb n w_right.
Definition bound (bs : list str) (n : str) : bool := existsb (fun k => str_eqb k n) bs.
Definition builtin_name (n : str) : bool := match assoc_str builtin_idents n with Some _ => true | None => false end.
(** names whose spelling matters: the join aliases, the constants, the bound names *)
Definition special (bs : list str) (n : str) : bool := alias_name n || builtin_name n || bound bs n.

(** the name an erased unquoted identifier gets: a run of 'x' longer than every bound name, so that it
    is neither bound, nor a constant, nor a join alias *)
Definition erased (bs : list str) : str := repeat 120%N (S (fold_right (fun k m => Nat.max (length k) m) 0 bs)).

(** an identifier in expression position: a quoted name is content unless it spells a join alias
    (the SQL text "$left" IS the alias); an unquoted one is content unless it is special *)
Definition sk_ident (bs : list str) (i : ident) : ident :=
  mkIdent (if iquoted i then (if alias_name (iname i) then iname i else [])
           else if special bs (iname i) then iname i else erased bs) None (iquoted i).
(** a name that is only ever printed (table, alias, `as`, render names): content *)
Definition sk_name (i : ident) : ident := mkIdent [] None (iquoted i).
(** a name that is structure (function, join kind, let name): kept *)
Definition sk_keep (i : ident) : ident := mkIdent (iname i) None (iquoted i).

Fixpoint sk_e (bs : list str) (e : expr) : expr :=
  match e with
  | EQual ps => EQual (map (sk_ident bs) ps)
  | EBin x _ op y => EBin (sk_e bs x) None op (sk_e bs y)
  | EUnary _ op x => EUnary None op (sk_e bs x)
  | EIn x _ _ vs _ => EIn (sk_e bs x) None None (map (sk_e bs) vs) None
  | EParen _ x _ => EParen None (sk_e bs x) None
  | ELit _ k _ => ELit None k []
  | ECall f _ args _ => ECall (sk_keep f) None (map (sk_e bs) args) None
  | EIndex x _ i _ => EIndex (sk_e bs x) None (sk_e bs i) None
  end.

Definition sk_st (bs : list str) (t : sort_term) : sort_term :=
  mkSortTerm (sk_e bs (st_x t)) (st_asc t) None (st_nullsfirst t) None.
Definition sk_pc (bs : list str) (c : proj_col) : proj_col :=
  mkProjCol (sk_ident bs (pc_name c)) None (option_map (sk_e bs) (pc_x c)).
Definition sk_ec (bs : list str) (c : ext_col) : ext_col :=
  mkExtCol (option_map sk_name (ec_name c)) None (sk_e bs (ec_x c)).
Definition sk_rp (bs : list str) (p : render_prop) : render_prop :=
  mkRenderProp (sk_name (rp_name p)) None (sk_e bs (rp_value p)).

Fixpoint sk_op (bs : list str) (o : operator) : operator :=
  match o with
  | OCount _ _ => OCount None None
  | OWhere _ _ x => OWhere None None (sk_e bs x)
  | OSort _ _ ts => OSort None None (map (sk_st bs) ts)
  | OTake _ _ n => OTake None None (sk_e bs n)
  | OTop _ _ n _ c => OTop None None (sk_e bs n) None (sk_st bs c)
  | OProject _ _ cs => OProject None None (map (sk_pc bs) cs)
  | OExtend _ _ cs => OExtend None None (map (sk_ec bs) cs)
  | OSummarize _ _ cs _ gs => OSummarize None None (map (sk_ec bs) cs) None (map (sk_ec bs) gs)
  | OJoin _ _ _ _ fl _ rsrc rops _ _ conds =>
    OJoin None None None None (option_map sk_keep fl) None (sk_name rsrc) (map (sk_op bs) rops) None None (map (sk_e bs) conds)
  | OAs _ _ n => OAs None None (sk_name n)
  | ORender _ _ chart _ _ props _ => ORender None None (sk_name chart) None None (map (sk_rp bs) props) None
  end.

Definition sk_tab (bs : list str) (t : tabular) : tabular := mkTab (sk_name (tsrc t)) (map (sk_op bs) (tops t)).

(** statements: a let binds its name for what follows *)
Fixpoint sk_stmts (bs : list str) (seen_query : bool) (ss : list stmt) : list stmt :=
  match ss with
  | [] => []
  | STab t :: r => STab (sk_tab bs t) :: sk_stmts bs true r
  | SLet _ name _ x :: r =>
    SLet None (sk_keep name) None (sk_e bs x) :: sk_stmts (if seen_query then bs else iname name :: bs) seen_query r
  end.

(** ** side conditions on the generated tables *)
Lemma empty_not_builtin : builtin_name [] = false.
Proof. vm_compute. reflexivity. Qed.
Lemma aliases_not_builtin : builtin_name w_left = false /\ builtin_name w_right = false.
Proof. vm_compute. split; reflexivity. Qed.
Lemma true_is_builtin : builtin_name w_true = true.
Proof. vm_compute. reflexivity. Qed.

Lemma erased_cons bs : exists r, erased bs = 120%N :: r.
Proof. unfold erased. eexists. reflexivity. Qed.

Lemma erased_not_alias bs : alias_name (erased bs) = false.
Proof. destruct (erased_cons bs) as [r ->]. reflexivity. Qed.

Lemma builtins_not_x : forallb (fun kv => match fst kv with c :: _ => negb (c =? 120)%N | [] => true end) builtin_idents = true.
Proof. vm_compute. reflexivity. Qed.

Lemma erased_not_builtin bs : builtin_name (erased bs) = false.
Proof.
  destruct (erased_cons bs) as [r ->]. unfold builtin_name. pose proof builtins_not_x as H.
  induction builtin_idents as [|[k v] t IH]; [reflexivity|]. cbn [forallb fst] in H. apply andb_prop in H as [Hk Ht].
  cbn [assoc_str]. destruct k as [|c k']; cbn [str_eqb]; [apply IH; exact Ht|].
  apply Bool.negb_true_iff in Hk. rewrite Hk. cbn [andb]. apply IH. exact Ht.
Qed.

Lemma str_eqb_length a : forall b, str_eqb a b = true -> length a = length b.
Proof. induction a as [|x a IH]; intros [|y b] H; cbn [str_eqb] in H; try discriminate; [reflexivity|]. apply andb_prop in H as [_ H]. cbn [length]. f_equal. apply IH. exact H. Qed.

Lemma erased_unbound bs : bound bs (erased bs) = false.
Proof.
  unfold bound. apply Bool.not_true_is_false. intros H. apply existsb_exists in H as (k & Hin & Hk).
  apply str_eqb_length in Hk. unfold erased in Hk. rewrite repeat_length in Hk.
  assert (G : length k <= fold_right (fun k m => Nat.max (length k) m) 0 bs).
  { clear Hk. induction bs as [|b r IH]; [contradiction|]. cbn [fold_right]. destruct Hin as [<-|Hin]; [lia|]. specialize (IH Hin). lia. }
  lia.
Qed.

(** ** scopes *)
Definition scope_sim (sc sc' : scope) : Prop :=
  Forall2 (fun kv kv' => fst kv = fst kv' /\ sh (snd kv) = sh (snd kv')) sc sc'.

Lemma scope_sim_keys sc sc' : scope_sim sc sc' -> map fst sc = map fst sc'.
Proof. induction 1 as [|x y l l' [H _] Hl IH]; cbn [map]; [reflexivity|]. rewrite H, IH. reflexivity. Qed.

Lemma scope_get_sim sc sc' n : scope_sim sc sc' ->
  match scope_get sc n, scope_get sc' n with Some a, Some b => sh a = sh b | None, None => True | _, _ => False end.
Proof.
  induction 1 as [|[k v] [k' v'] l l' [H1 H2] Hl IH]; cbn [scope_get]; [exact I|].
  cbn [fst snd] in *. subst k'. destruct (str_eqb k n); [exact H2|exact IH].
Qed.

Lemma scope_get_bound sc n : bound (map fst sc) n = match scope_get sc n with Some _ => true | None => false end.
Proof.
  induction sc as [|[k v] r IH]; cbn [map bound existsb scope_get fst]; [reflexivity|].
  destruct (str_eqb k n); [reflexivity|exact IH].
Qed.

(** ** expressions *)
Section Expr.
Variables (sc sc' : scope) (m : mode).
Hypothesis Hsc : scope_sim sc sc'.
Let bs := map fst sc'.
Let Hempty : bound bs (erased bs) = false := erased_unbound bs.

Lemma alias_name_empty : alias_name [] = false.
Proof. reflexivity. Qed.

Lemma sk_ident_alias i : ident_is_alias (sk_ident bs i) = ident_is_alias i.
Proof.
  unfold ident_is_alias, sk_ident. cbn [iquoted iname]. destruct (iquoted i); [reflexivity|]. cbn [negb andb].
  unfold special. fold (alias_name (iname i)). destruct (alias_name (iname i)) eqn:E; cbn [orb]; [exact E|].
  destruct (builtin_name (iname i) || bound bs (iname i)); [exact E|exact (erased_not_alias bs)].
Qed.

Lemma write_parts_sk : forall ps first, res_sim (write_parts m first (map (sk_ident bs) ps)) (write_parts m first ps).
Proof.
  induction ps as [|p r IH]; intros first; cbn [map write_parts]; [reflexivity|].
  rewrite sk_ident_alias. destruct (ident_is_alias p && negb (mode_eqb m ModeJoin)); [exact I|].
  apply res_sim_bind; [apply IH|]. intros a a' Ha. cbn [res_sim]. destruct first; shsolve.
Qed.

Lemma mentions_alias_sk n : alias_name n = true -> forall e, mentions n (sk_e bs e) = mentions n e.
Proof.
  intros Hn. assert (Hid : forall i, str_eqb (iname (sk_ident bs i)) n = str_eqb (iname i) n).
  { intros i. unfold sk_ident. cbn [iname]. assert (Hne : str_eqb [] n = false) by (destruct n; [discriminate Hn|reflexivity]).
    assert (Hne' : str_eqb (erased bs) n = false).
    { apply str_eqb_neq. intros Heq. rewrite <- Heq, erased_not_alias in Hn. discriminate. }
    destruct (iquoted i).
    - destruct (alias_name (iname i)) eqn:E; [reflexivity|]. rewrite Hne. symmetry. apply str_eqb_neq. intros Heq. rewrite Heq in E. congruence.
    - unfold special. destruct (alias_name (iname i)) eqn:E; cbn [orb]; [reflexivity|].
      destruct (builtin_name (iname i) || bound bs (iname i)); [reflexivity|].
      rewrite Hne'. symmetry. apply str_eqb_neq. intros Heq. rewrite Heq in E. congruence. }
  induction e using expr_ind'; cbn [sk_e mentions].
  - induction ps as [|p r IHp]; cbn [map existsb]; [reflexivity|]. rewrite Hid, IHp. reflexivity.
  - rewrite IHe1, IHe2. reflexivity.
  - exact IHe.
  - rewrite IHe. f_equal. induction H as [|a r Ha Hr IHr]; cbn [map existsb]; [reflexivity|]. rewrite Ha, IHr. reflexivity.
  - exact IHe.
  - reflexivity.
  - induction H as [|a r Ha Hr IHr]; cbn [map existsb]; [reflexivity|]. rewrite Ha, IHr. reflexivity.
  - rewrite IHe1, IHe2. reflexivity.
Qed.

Lemma needs_wrap_sk w e : needs_wrap w (sk_e bs e) = needs_wrap w e.
Proof. destruct e; destruct w; reflexivity. Qed.

Lemma needs_wrap_qual w ps : needs_wrap w (EQual ps) = false.
Proof. destruct w; reflexivity. Qed.
Lemma needs_wrap_lit w a k v : needs_wrap w (ELit a k v) = false.
Proof. destruct w; reflexivity. Qed.

Lemma wrap_sim (b : bool) r r' : res_sim r r' ->
  res_sim (if b then do x <- r; Ok (lit "(" ++ x ++ lit ")") else r) (if b then do x <- r'; Ok (lit "(" ++ x ++ lit ")") else r').
Proof.
  intros H. destruct b; [|exact H]. apply res_sim_bind; [exact H|]. intros a a' Ha. cbn [res_sim]. rewrite !sh_app, Ha. reflexivity.
Qed.

Ltac sim_step :=
  match goal with
  | |- res_sim (bind _ _) (bind _ _) => apply res_sim_bind; [|intros ?px ?px' ?Hpx]
  | |- res_sim (Ok _) (Ok _) => cbn [res_sim]; shsolve
  end.

Theorem wx_sk : forall e w, res_sim (wx (mkCtx sc m) w (sk_e bs e)) (wx (mkCtx sc' m) w e).
Proof.
  induction e using expr_ind'; intros w.
  - (* identifiers *)
    cbn [sk_e]. cbn [wx c_mode c_scope]. rewrite !needs_wrap_qual.
    destruct ps as [|p [|p2 r]].
    + cbn [map]. destruct (mode_eqb m ModeLet); [exact I|reflexivity].
    + cbn [map]. change (write_parts m true [sk_ident bs p]) with (write_parts m true (map (sk_ident bs) [p])).
      pose proof (write_parts_sk [p] true) as Hgen.
      unfold sk_ident at 1 2 3 4. cbn [iquoted iname ispan]. destruct (iquoted p) eqn:Eq; cbn [negb].
      * destruct (mode_eqb m ModeLet); [exact I|exact Hgen].
      * unfold special. destruct (alias_name (iname p) || builtin_name (iname p) || bound bs (iname p)) eqn:Es.
        -- pose proof (scope_get_sim sc sc' (iname p) Hsc) as Hg.
           destruct (scope_get sc (iname p)), (scope_get sc' (iname p)); try contradiction; [exact Hg|].
           destruct (assoc_str builtin_idents (iname p)); [reflexivity|]. destruct (mode_eqb m ModeLet); [exact I|exact Hgen].
        -- apply Bool.orb_false_iff in Es as [Es Eb]. apply Bool.orb_false_iff in Es as [Ea Ebi].
           pose proof Hempty as He. unfold bs in Eb. rewrite scope_get_bound in Eb.
           unfold bs in He at 1. rewrite <- (scope_sim_keys _ _ Hsc), scope_get_bound in He. fold bs in He.
           destruct (scope_get sc (erased bs)); [discriminate|]. destruct (scope_get sc' (iname p)); [discriminate|].
           unfold builtin_name in Ebi. pose proof (erased_not_builtin bs) as Hnb. unfold builtin_name in Hnb.
           destruct (assoc_str builtin_idents (erased bs)); [discriminate|]. destruct (assoc_str builtin_idents (iname p)); [discriminate|].
           destruct (mode_eqb m ModeLet); [exact I|exact Hgen].
    + cbn [map]. destruct (mode_eqb m ModeLet); [exact I|].
      change (sk_ident bs p :: sk_ident bs p2 :: map (sk_ident bs) r) with (map (sk_ident bs) (p :: p2 :: r)). apply write_parts_sk.
  - (* binary *)
    cbn [sk_e]. cbn [wx]. change (needs_wrap w (EBin (sk_e bs e1) None op (sk_e bs e2))) with (needs_wrap w (EBin e1 os op e2)).
    cbn [c_mode]. rewrite !mentions_alias_sk by reflexivity.
    apply wrap_sim.
    destruct op; try (destruct (binop_sql _); [|reflexivity]); repeat sim_step; try apply IHe1; try apply IHe2.
    destruct (mode_eqb m ModeJoin && _); repeat sim_step.
  - (* unary *)
    cbn [sk_e]. cbn [wx]. change (needs_wrap w (EUnary None op (sk_e bs e))) with (needs_wrap w (EUnary os op e)).
    apply wrap_sim. sim_step; [apply IHe|]. sim_step.
  - (* in *)
    cbn [sk_e]. cbn [wx]. change (needs_wrap w (EIn (sk_e bs e) None None (map (sk_e bs) vs) None)) with (needs_wrap w (EIn e i lp vs rp)).
    apply wrap_sim. sim_step; [apply IHe|].
    apply lres_sim_bind.
    + apply sequence_sim. rewrite map_map. induction H as [|a r Ha Hr IHr]; cbn [map]; constructor; [apply Ha|exact IHr].
    + intros vsa vsa' Hvs. cbn [res_sim]. rewrite !sh_app, (join_pieces_sim _ _ _ Hvs). shsolve.
  - (* parentheses *) cbn [sk_e]. rewrite !wx_paren. apply IHe.
  - (* literal *)
    cbn [sk_e]. cbn [wx]. rewrite !needs_wrap_lit.
    destruct k; reflexivity.
  - (* call *)
    cbn [sk_e]. cbn [wx]. change (needs_wrap w (ECall (sk_keep f) None (map (sk_e bs) args) None)) with (needs_wrap w (ECall f lp args rp)).
    apply wrap_sim. cbn [sk_keep iname]. rewrite map_length.
    destruct (known_func (iname f)) as [[wr np]|].
    + destruct (arity_ok (writer_arity wr) (length args)); cbn [negb]; [|exact I].
      apply fill_template_sim.
      set (t := writer_template wr). generalize 0 as i.
      induction H as [|a r Ha Hr IHr]; intros i; cbn [map]; [constructor|].
      constructor; [|apply IHr]. destruct (arg_use t i) as [[|]|]; [apply Ha|apply Ha|reflexivity].
    + apply lres_sim_bind.
      * apply sequence_sim. rewrite map_map. induction H as [|a r Ha Hr IHr]; cbn [map]; constructor; [apply Ha|exact IHr].
      * intros vsa vsa' Hvs. cbn [res_sim]. change (?x :: ?l ++ ?y) with ([x] ++ l ++ y).
        rewrite !sh_app, (join_pieces_sim _ _ _ Hvs). reflexivity.
  - (* index *)
    cbn [sk_e]. cbn [wx]. change (needs_wrap w (EIndex (sk_e bs e1) None (sk_e bs e2) None)) with (needs_wrap w (EIndex e1 lb e2 rb)).
    apply wrap_sim. repeat sim_step; [apply IHe1|apply IHe2].
Qed.

End Expr.

(** ** join conditions, subqueries, statements *)
Lemma res_sim_refl r : res_sim r r.
Proof. destruct r; cbn; auto. Qed.
Lemma res_sim_sym r r' : res_sim r r' -> res_sim r' r.
Proof. destruct r, r'; cbn; auto. Qed.
Lemma res_sim_trans a b c : res_sim a b -> res_sim b c -> res_sim a c.
Proof. destruct a, b, c; cbn; try contradiction; auto. intros; congruence. Qed.

Lemma Forall2_rev {A B} (R : A -> B -> Prop) l l' : Forall2 R l l' -> Forall2 R (rev l) (rev l').
Proof. induction 1 as [|x y l l' Hxy Hl IH]; cbn [rev]; [constructor|]. apply Forall2_app; [exact IH|constructor; [exact Hxy|constructor]]. Qed.

Lemma Forall2_len {A B} (R : A -> B -> Prop) l l' : Forall2 R l l' -> length l = length l'.
Proof. induction 1; cbn [length]; congruence. Qed.

Section Prog.
Variables (sc sc' : scope).
Hypothesis Hsc : scope_sim sc sc'.
Let bs := map fst sc'.
Let Hempty : bound bs (erased bs) = false := erased_unbound bs.

Lemma special_aliases : special bs w_left = true /\ special bs w_right = true /\ special bs w_true = true.
Proof. unfold special. rewrite true_is_builtin. repeat split; reflexivity. Qed.

Lemma sk_ident_fixed : sk_ident bs (mkIdent w_left None false) = mkIdent w_left None false /\
  sk_ident bs (mkIdent w_right None false) = mkIdent w_right None false /\
  sk_ident bs (mkIdent w_true None false) = mkIdent w_true None false.
Proof. destruct special_aliases as (HL & HR & HT). unfold sk_ident. cbn [iquoted iname]. rewrite HL, HR, HT. repeat split; reflexivity. Qed.

Lemma bare_name_sk e : bare_name sc (sk_e bs e) = option_map (sk_ident bs) (bare_name sc' e).
Proof.
  destruct e as [ps| | | | | | |]; try reflexivity. destruct ps as [|p [|p2 r]]; try reflexivity.
  cbn [sk_e map bare_name]. unfold sk_ident at 1 2 3. cbn [iquoted iname]. destruct (iquoted p); [reflexivity|].
  unfold special. destruct (alias_name (iname p) || builtin_name (iname p) || bound bs (iname p)) eqn:Es.
  - destruct (assoc_str builtin_idents (iname p)); [reflexivity|].
    pose proof (scope_get_sim sc sc' (iname p) Hsc) as Hg.
    destruct (scope_get sc (iname p)), (scope_get sc' (iname p)); try contradiction; [reflexivity|].
    reflexivity.
  - apply Bool.orb_false_iff in Es as [Es Eb]. apply Bool.orb_false_iff in Es as [Ea Ebi].
    pose proof Hempty as He. unfold bs in Eb. rewrite scope_get_bound in Eb.
    unfold bs in He at 1. rewrite <- (scope_sim_keys _ _ Hsc), scope_get_bound in He. fold bs in He.
    pose proof (erased_not_builtin bs) as Hnb. unfold builtin_name in Hnb, Ebi.
    destruct (assoc_str builtin_idents (erased bs)); [discriminate|]. destruct (assoc_str builtin_idents (iname p)); [discriminate|].
    destruct (scope_get sc (erased bs)); [discriminate|]. destruct (scope_get sc' (iname p)); [discriminate|]. reflexivity.
Qed.

Lemma rewrite_cond_sk e : rewrite_simple_cond sc (sk_e bs e) = sk_e bs (rewrite_simple_cond sc' e).
Proof.
  unfold rewrite_simple_cond. rewrite bare_name_sk. destruct (bare_name sc' e) as [p|]; [|reflexivity].
  cbn [option_map sk_e map]. destruct sk_ident_fixed as (HL & HR & _). rewrite HL, HR. reflexivity.
Qed.

Lemma build_join_cond_sk conds : build_join_cond sc (map (sk_e bs) conds) = sk_e bs (build_join_cond sc' conds).
Proof.
  unfold build_join_cond. destruct conds as [|c0 r]; cbn [map].
  - cbn [sk_e map]. destruct sk_ident_fixed as (_ & _ & HT). rewrite HT. reflexivity.
  - rewrite rewrite_cond_sk. generalize (rewrite_simple_cond sc' c0) as acc.
    induction r as [|y r IH]; intros acc; cbn [map fold_left]; [reflexivity|].
    rewrite rewrite_cond_sk. change (EBin (sk_e bs acc) None KAnd (sk_e bs (rewrite_simple_cond sc' y))) with (sk_e bs (EBin acc None KAnd (rewrite_simple_cond sc' y))).
    apply IH.
Qed.

Definition src_sim (a b : ssource) : Prop :=
  match a, b with
  | SrcName _, SrcName _ => True
  | SrcJoin u _ o _ _ c, SrcJoin u' _ o' _ _ c' => u = u' /\ o = o' /\ sh c = sh c'
  | _, _ => False
  end.
Definition subq_sim (s s' : subq) : Prop :=
  src_sim (sq_source s) (sq_source s') /\ sq_op s = option_map (sk_op bs) (sq_op s') /\
  sq_sort s = option_map (map (sk_st bs)) (sq_sort s') /\ sq_take s = option_map (sk_e bs) (sq_take s').
Definition dres_sim (r r' : res (list subq)) : Prop :=
  match r, r' with Ok a, Ok b => Forall2 subq_sim a b | Err _, Err _ => True | _, _ => False end.

Lemma last_opt_sim dst dst' : Forall2 subq_sim dst dst' ->
  match last_opt dst, last_opt dst' with Some a, Some b => subq_sim a b | None, None => True | _, _ => False end.
Proof. intros H. unfold last_opt. apply Forall2_rev in H. destruct H; [exact I|assumption]. Qed.

Lemma chain_sim dst dst' ds src src' : Forall2 subq_sim dst dst' -> subq_sim (chain_subquery dst ds src) (chain_subquery dst' ds src').
Proof.
  intros H. unfold chain_subquery. rewrite (Forall2_len _ _ _ H). pose proof (last_opt_sim _ _ H) as HL.
  repeat split. cbn [sq_source]. destruct (Nat.ltb ds (length dst')); [|exact I].
  destruct (last_opt dst), (last_opt dst'); exact I.
Qed.

Lemma op_nkind_sk o : op_nkind (sk_op bs o) = op_nkind o.
Proof. destruct o; reflexivity. Qed.

Lemma state_of_sim dst dst' ds : Forall2 subq_sim dst dst' -> state_of dst ds = state_of dst' ds.
Proof.
  intros H. unfold state_of. rewrite (Forall2_len _ _ _ H). pose proof (last_opt_sim _ _ H) as HL.
  destruct (Nat.eqb (length dst') ds); [reflexivity|].
  destruct (last_opt dst) as [s|], (last_opt dst') as [s'|]; try contradiction; [|reflexivity].
  destruct HL as (_ & Ho & Hs & Ht). rewrite Ho, Hs, Ht.
  destruct (sq_op s') as [o|]; cbn [option_map]; [rewrite op_nkind_sk|]; destruct (sq_sort s'), (sq_take s'); reflexivity.
Qed.

Lemma set_last_sim dst dst' f f' : Forall2 subq_sim dst dst' -> (forall s s', subq_sim s s' -> subq_sim (f s) (f' s')) ->
  Forall2 subq_sim (set_last dst f) (set_last dst' f').
Proof.
  intros H Hf. unfold set_last. apply Forall2_rev in H. destruct H as [|s s' r r' Hs Hr]; [constructor|].
  apply Forall2_rev. constructor; [apply Hf; exact Hs|exact Hr].
Qed.

Lemma snoc_sim dst dst' s s' : Forall2 subq_sim dst dst' -> subq_sim s s' -> Forall2 subq_sim (dst ++ [s]) (dst' ++ [s']).
Proof. intros H Hs. apply Forall2_app; [exact H|constructor; [exact Hs|constructor]]. Qed.

Lemma fold_res_sim (f f' : list subq -> operator -> res (list subq)) : forall ops dst dst',
  Forall (fun o => forall d d', Forall2 subq_sim d d' -> dres_sim (f d (sk_op bs o)) (f' d' o)) ops ->
  Forall2 subq_sim dst dst' -> dres_sim (fold_res f (map (sk_op bs) ops) dst) (fold_res f' ops dst').
Proof.
  induction ops as [|o r IH]; intros dst dst' Hall Hd; cbn [map fold_res]; [exact Hd|].
  inversion Hall as [|? ? Ho Hr]; subst. specialize (Ho dst dst' Hd).
  destruct (f dst (sk_op bs o)), (f' dst' o); cbn [dres_sim bind] in *; try contradiction; [|exact I].
  apply IH; assumption.
Qed.

Theorem split_op_sk : forall o ds src src' dst dst', Forall2 subq_sim dst dst' ->
  dres_sim (split_op sc ds src dst (sk_op bs o)) (split_op sc' ds src' dst' o).
Proof.
  induction o using operator_ind'; intros ds src src' dst dst' Hd.
  - pose proof (chain_sim dst dst' ds src src' Hd) as Hfresh. pose proof (state_of_sim dst dst' ds Hd) as Hst.
    destruct o; try discriminate H; cbn [sk_op split_op dres_sim]; rewrite ?Hst.
    + apply snoc_sim; [exact Hd|]. destruct Hfresh as (Hs & _). repeat split; exact Hs.
    + apply snoc_sim; [exact Hd|]. destruct Hfresh as (Hs & _). repeat split; exact Hs.
    + apply set_last_sim; [destruct (split_cond_sort _); [apply snoc_sim|]; assumption|].
      intros s s' (H1 & H2 & H3 & H4). repeat split; assumption.
    + apply set_last_sim; [destruct (split_cond_take _); [apply snoc_sim|]; assumption|].
      intros s s' (H1 & H2 & H3 & H4). repeat split; assumption.
    + apply set_last_sim; [destruct (split_cond_top _); [apply snoc_sim|]; assumption|].
      intros s s' (H1 & H2 & H3 & H4). repeat split; assumption.
    + apply snoc_sim; [exact Hd|]. destruct Hfresh as (Hs & _). repeat split; exact Hs.
    + apply snoc_sim; [exact Hd|]. destruct Hfresh as (Hs & _). repeat split; exact Hs.
    + apply snoc_sim; [exact Hd|]. destruct Hfresh as (Hs & _). repeat split; exact Hs.
    + apply snoc_sim; [exact Hd|]. destruct Hfresh as (Hs & _). repeat split; exact Hs.
    + apply snoc_sim; [exact Hd|]. destruct Hfresh as (Hs & _). repeat split; exact Hs.
  - cbn [sk_op]. rewrite !split_join_unfold. cbv zeta. rewrite (Forall2_len _ _ _ Hd).
    assert (Hf : dres_sim (fold_res (split_op sc (length dst') (sk_name rsrc)) (map (sk_op bs) rops) dst)
                          (fold_res (split_op sc' (length dst') rsrc) rops dst')).
    { apply fold_res_sim; [|exact Hd]. eapply Forall_impl; [|exact H]. intros o Ho d d' Hdd. apply Ho. exact Hdd. }
    destruct (fold_res (split_op sc (length dst') (sk_name rsrc)) (map (sk_op bs) rops) dst) as [d1|],
             (fold_res (split_op sc' (length dst') rsrc) rops dst') as [d1'|]; cbn [dres_sim bind] in *; try contradiction; [|exact I].
    rewrite (Forall2_len _ _ _ Hf).
    set (e1 := if Nat.eqb (length d1') (length dst') then d1 ++ [chain_subquery d1 (length dst') (sk_name rsrc)] else d1).
    set (e1' := if Nat.eqb (length d1') (length dst') then d1' ++ [chain_subquery d1' (length dst') rsrc] else d1').
    assert (He : Forall2 subq_sim e1 e1').
    { unfold e1, e1'. destruct (Nat.eqb _ _); [apply snoc_sim; [exact Hf|apply chain_sim; exact Hf]|exact Hf]. }
    assert (Hfl : (match option_map sk_keep fl with Some f => iname f | None => w_innerunique end) =
                  (match fl with Some f => iname f | None => w_innerunique end)) by (destruct fl; reflexivity).
    rewrite Hfl.
    match goal with |- dres_sim (bind ?a _) (bind ?b _) => destruct a as [outer|] eqn:Ea; destruct b as [outer'|] eqn:Eb end;
      cbn [bind dres_sim];
      try (destruct (str_eqb _ w_inner || _); [congruence|]; destruct (str_eqb _ w_leftouter); congruence).
    2: exact I.
    assert (outer = outer') by (destruct (str_eqb _ w_inner || _); [congruence|]; destruct (str_eqb _ w_leftouter); congruence). subst outer'.
    rewrite build_join_cond_sk.
    pose proof (wx_sk sc sc' ModeJoin Hsc (build_join_cond sc' conds) WPlain) as Hw. fold bs in Hw. unfold wexpr.
    destruct (wx (mkCtx sc ModeJoin) WPlain (sk_e bs (build_join_cond sc' conds))) as [c|],
             (wx (mkCtx sc' ModeJoin) WPlain (build_join_cond sc' conds)) as [c'|]; cbn [res_sim bind dres_sim] in *; try contradiction; [|exact I].
    rewrite (Forall2_len _ _ _ He). apply snoc_sim; [exact He|]. repeat split. exact Hw.
Qed.

Lemma split_queries_sk t : dres_sim (split_queries sc [] (sk_tab bs t)) (split_queries sc' [] t).
Proof.
  unfold split_queries, sk_tab. cbn [tsrc tops length].
  assert (Hf : dres_sim (fold_res (split_op sc 0 (sk_name (tsrc t))) (map (sk_op bs) (tops t)) [])
                        (fold_res (split_op sc' 0 (tsrc t)) (tops t) [])).
  { apply fold_res_sim; [|constructor]. apply Forall_forall. intros o _ d d' Hd. apply split_op_sk. exact Hd. }
  destruct (fold_res (split_op sc 0 (sk_name (tsrc t))) (map (sk_op bs) (tops t)) []) as [d1|],
           (fold_res (split_op sc' 0 (tsrc t)) (tops t) []) as [d1'|]; cbn [dres_sim bind] in *; try contradiction; [|exact I].
  rewrite (Forall2_len _ _ _ Hf). destruct (Nat.eqb (length d1') 0); [apply snoc_sim; [exact Hf|apply chain_sim; exact Hf]|exact Hf].
Qed.
End Prog.

(** ** writing the subqueries *)
Section WriteSk.
Variables (sc sc' : scope) (source source' : str).
Hypothesis Hsc : scope_sim sc sc'.
Let bs := map fst sc'.
Let c := mkCtx sc ModeDefault.
Let c' := mkCtx sc' ModeDefault.

Lemma wexpr_sk e : res_sim (wexpr c (sk_e bs e)) (wexpr c' e).
Proof. apply (wx_sk sc sc' ModeDefault Hsc). Qed.

Lemma map_res_sim {A} (f f' : A -> res (list piece)) (g : A -> A) l :
  (forall a, res_sim (f (g a)) (f' a)) -> Forall2 res_sim (map f (map g l)) (map f' l).
Proof. intros H. induction l as [|a r IH]; cbn [map]; constructor; [apply H|exact IH]. Qed.

Lemma write_ext_cols_sk cols : lres_sim (write_ext_cols source c (map (sk_ec bs) cols)) (write_ext_cols source' c' cols).
Proof.
  unfold write_ext_cols. apply sequence_sim. apply map_res_sim. intros col. cbn [sk_ec ec_x].
  apply res_sim_bind; [apply wexpr_sk|]. intros a a' Ha. cbn [res_sim]. unfold col_alias. shsolve.
Qed.

Lemma write_sort_sk ts : res_sim (write_sort c (map (sk_st bs) ts)) (write_sort c' ts).
Proof.
  unfold write_sort. apply lres_sim_bind.
  - apply sequence_sim. apply map_res_sim. intros t. cbn [sk_st st_x st_asc st_nullsfirst].
    apply res_sim_bind; [apply wexpr_sk|]. intros a a' Ha. cbn [res_sim]. shsolve.
  - intros a a' Ha. cbn [res_sim]. rewrite !sh_app, (join_pieces_sim _ _ _ Ha). reflexivity.
Qed.

Lemma render_source_sim s s' : src_sim s s' -> sh (render_source s) = sh (render_source s').
Proof.
  destruct s, s'; cbn [src_sim render_source]; try contradiction; [reflexivity|].
  intros (-> & -> & Hc). destruct unique0, left_outer0; shsolve.
Qed.

Lemma flat_map_cols_sim (f : list piece -> list piece) l l' :
  (forall a a', sh a = sh a' -> sh (f a) = sh (f a')) ->
  Forall2 (fun x y => sh x = sh y) l l' -> sh (flat_map f l) = sh (flat_map f l').
Proof. apply flat_map_sim. Qed.

Theorem write_subq_sk s s' : subq_sim sc' s s' -> res_sim (write_subq source c s) (write_subq source' c' s').
Proof.
  intros (Hsrc & Hop & Hsort & Htake). fold bs in Hop, Hsort, Htake. unfold write_subq. rewrite Hop, Hsort, Htake.
  pose proof (render_source_sim _ _ Hsrc) as Hrs.
  apply res_sim_bind.
  - destruct (sq_op s') as [o|]; cbn [option_map]; [|cbn [res_sim]; shsolve].
    destruct o; cbn [sk_op].
    + cbn [res_sim]. shsolve.
    + apply res_sim_bind; [apply wexpr_sk|]. intros a a' Ha. cbn [res_sim]. shsolve.
    + cbn [res_sim]. shsolve.
    + cbn [res_sim]. shsolve.
    + cbn [res_sim]. shsolve.
    + (* project *)
      apply lres_sim_bind.
      * apply sequence_sim. apply map_res_sim. intros col. cbn [sk_pc pc_x pc_name].
        apply res_sim_bind.
        -- destruct (pc_x col) as [x|]; cbn [option_map]; [apply wexpr_sk|].
           apply (wexpr_sk (EQual [pc_name col])).
        -- intros a a' Ha. cbn [res_sim]. shsolve.
      * intros a a' Ha. cbn [res_sim]. rewrite !sh_app, (join_pieces_sim _ _ _ Ha). shsolve.
    + (* extend *)
      apply lres_sim_bind; [apply write_ext_cols_sk|]. intros a a' Ha. cbn [res_sim]. rewrite !sh_app.
      rewrite (flat_map_sim (fun x => lit ", " ++ x) _ _ ltac:(intros x x' Hx; shsolve) Ha). shsolve.
    + (* summarize *)
      apply lres_sim_bind; [apply write_ext_cols_sk|]. intros g g' Hg.
      apply lres_sim_bind; [apply write_ext_cols_sk|]. intros a a' Ha.
      apply res_sim_bind.
      * destruct groupby as [|g0 gr]; cbn [map]; [reflexivity|].
        apply lres_sim_bind.
        -- apply sequence_sim. cbn [map]. constructor; [apply wexpr_sk|].
           apply (map_res_sim (fun col => wexpr c (ec_x col)) (fun col => wexpr c' (ec_x col)) (sk_ec bs)).
           intros col. apply wexpr_sk.
        -- intros k k' Hk. cbn [res_sim]. rewrite !sh_app, (join_pieces_sim _ _ _ Hk). reflexivity.
      * intros gb gb' Hgb. cbn [res_sim]. rewrite !sh_app.
        rewrite (join_pieces_sim (lit ", ") (g ++ a) (g' ++ a') ltac:(apply Forall2_app; assumption)). shsolve.
    + cbn [res_sim]. shsolve.
    + cbn [res_sim]. shsolve.
    + (* render *)
      cbn [res_sim]. rewrite !sh_app. f_equal. f_equal. f_equal; [|shsolve].
      clear Hop. induction props as [|p r IH]; cbn [map flat_map]; [reflexivity|]. rewrite !sh_app, IH. reflexivity.
  - intros body body' Hb. apply res_sim_bind.
    + destruct (sq_sort s') as [ts|]; cbn [option_map]; [apply write_sort_sk|reflexivity].
    + intros srt srt' Hs. apply res_sim_bind.
      * destruct (sq_take s') as [n|]; cbn [option_map]; [|reflexivity].
        apply res_sim_bind; [apply wexpr_sk|]. intros a a' Ha. cbn [res_sim]. shsolve.
      * intros tk tk' Ht. cbn [res_sim]. shsolve.
Qed.

Lemma write_ctes_sk : forall l l', Forall2 (subq_sim sc') l l' -> res_sim (write_ctes source c l) (write_ctes source' c' l').
Proof.
  induction 1 as [|s s' r r' Hs Hr IH]; cbn [write_ctes]; [reflexivity|].
  apply res_sim_bind; [apply write_subq_sk; exact Hs|]. intros b b' Hb.
  apply res_sim_bind; [exact IH|]. intros t t' Ht. cbn [res_sim].
  destruct Hr; shsolve.
Qed.
End WriteSk.

(** ** the statement loop and the whole program *)
Definition loop_sim (r r' : res (scope * option tabular)) : Prop :=
  match r, r' with
  | Ok (s1, q1), Ok (s1', q1') => scope_sim s1 s1' /\ q1 = option_map (sk_tab (map fst s1')) q1'
  | Err _, Err _ => True
  | _, _ => False
  end.

Lemma stmt_loop_sk : forall ss sc sc' q', scope_sim sc sc' ->
  loop_sim (stmt_loop sc (option_map (sk_tab (map fst sc')) q')
              (sk_stmts (map fst sc') (match q' with Some _ => true | None => false end) ss))
           (stmt_loop sc' q' ss).
Proof.
  induction ss as [|s r IH]; intros sc sc' q' Hsc.
  - cbn [sk_stmts stmt_loop loop_sim]. split; [assumption|reflexivity].
  - destruct s as [kw name asp x|t]; cbn [sk_stmts stmt_loop].
    + destruct q' as [t'|]; cbn [option_map].
      * apply (IH sc sc' (Some t') Hsc).
      * pose proof (wx_sk sc sc' ModeLet Hsc x WOperand) as Hw. unfold woperand.
        destruct (wx (mkCtx sc ModeLet) WOperand (sk_e (map fst sc') x)) as [v|],
                 (wx (mkCtx sc' ModeLet) WOperand x) as [v'|]; cbn [res_sim bind] in *; try contradiction; [|exact I].
        cbn [sk_keep iname].
        apply (IH ((iname name, v) :: sc) ((iname name, v') :: sc') None).
        constructor; [split; [reflexivity|exact Hw]|exact Hsc].
    + destruct q' as [t'|]; cbn [option_map]; [exact I|].
      apply (IH sc sc' (Some t) Hsc).
Qed.

Lemma scope_sim_refl sc : scope_sim sc sc.
Proof. induction sc; constructor; [split; reflexivity|assumption]. Qed.

Theorem compile_stmts_sk source source' params ss :
  res_sim (compile_stmts source params (sk_stmts (map fst params) false ss)) (compile_stmts source' params ss).
Proof.
  unfold compile_stmts.
  set (sc0 := map (fun kv : str * str => (fst kv, [PRaw (snd kv)])) params).
  assert (Hk : map fst sc0 = map fst params) by (unfold sc0; rewrite map_map; reflexivity).
  pose proof (stmt_loop_sk ss sc0 sc0 None (scope_sim_refl sc0)) as HL.
  cbn [option_map] in HL. rewrite Hk in HL.
  destruct (stmt_loop sc0 None (sk_stmts (map fst params) false ss)) as [[s1 q1]|],
           (stmt_loop sc0 None ss) as [[s1' q1']|]; cbn [loop_sim bind fst snd] in *; try contradiction; [|exact I].
  destruct HL as (Hsc & ->). destruct q1' as [t|]; cbn [option_map]; [|exact I].
  pose proof (split_queries_sk s1 s1' Hsc t) as Hsp.
  destruct (split_queries s1 [] (sk_tab (map fst s1') t)) as [subs|], (split_queries s1' [] t) as [subs'|];
    cbn [dres_sim bind] in *; try contradiction; [|exact I].
  apply Forall2_rev in Hsp. destruct Hsp as [|q q' rc rc' Hq Hrc]; [exact I|].
  apply Forall2_rev in Hrc.
  apply res_sim_bind; [apply write_ctes_sk; assumption|]. intros w w' Hw.
  apply res_sim_bind; [apply write_subq_sk; assumption|]. intros b b' Hb.
  cbn [res_sim]. destruct Hrc; shsolve.
Qed.

(** two programs with the same skeleton compile alike: both fail, or both give piece lists that
    differ only in the payload of identifier, string and number pieces *)
Theorem same_skeleton_same_pieces s1 s2 params ss1 ss2 :
  sk_stmts (map fst params) false ss1 = sk_stmts (map fst params) false ss2 ->
  res_sim (compile_stmts s1 params ss1) (compile_stmts s2 params ss2).
Proof.
  intros Hsk.
  eapply res_sim_trans; [apply res_sim_sym, (compile_stmts_sk s1 s1 params ss1)|].
  rewrite Hsk. apply (compile_stmts_sk s1 s2 params ss2).
Qed.

(** ** from pieces to tokens and bytes *)
Lemma ptoks_shape : forall ps ps' ts, sh ps = sh ps' -> ptoks ps = Some ts ->
  exists ts', ptoks ps' = Some ts' /\ map shape_of ts = map shape_of ts'.
Proof.
  induction ps as [|p r IH]; intros [|p' r'] ts Hs Hp; cbn [sh map] in Hs; try discriminate.
  - cbn [ptoks] in *. injection Hp as <-. exists []. split; reflexivity.
  - injection Hs as Hp1 Hr. cbn [ptoks] in *.
    destruct (ptok p) as [a|] eqn:Ea; [|discriminate]. destruct (ptoks r) as [b|] eqn:Eb; [|discriminate]. injection Hp as <-.
    destruct (IH r' b Hr eq_refl) as (b' & Hb' & Hsh). rewrite Hb'.
    destruct p, p'; cbn [pshape] in Hp1; try discriminate; cbn [ptok] in *; try discriminate.
    + injection Hp1 as <-. rewrite Ea. eexists. split; [reflexivity|]. rewrite !map_app, Hsh. reflexivity.
    + injection Ea as <-. eexists. split; [reflexivity|]. cbn [map app shape_of]. rewrite Hsh. reflexivity.
    + injection Ea as <-. eexists. split; [reflexivity|]. cbn [map app shape_of]. rewrite Hsh. reflexivity.
    + injection Ea as <-. eexists. split; [reflexivity|]. cbn [map app shape_of]. rewrite Hsh. reflexivity.
    + injection Hp1 as <-. injection Ea as <-. eexists. split; [reflexivity|]. cbn [map app shape_of]. rewrite Hsh. reflexivity.
Qed.

From PQL Require Import Proofs.ParsedWf Proofs.SqlGlueProg Proofs.LexTokOk.

(** the property's first sentence, on bytes: two sources that parse to programs with the same
    skeleton (same structure; string, number and name content free) compile to texts whose SQL
    tokens - read by the dialect's lexer from the returned bytes - have the same shapes one by one:
    the same words and punctuation, and a quoted identifier, string or number token wherever the
    other has one.  No content can open a comment, close a quote or start a new clause. *)
Theorem structure_independent_of_content s1 s2 ss1 ss2 ps1 :
  parse s1 = ParseOk ss1 -> parse s2 = ParseOk ss2 ->
  Forall names_ok_stmt ss1 -> Forall names_ok_stmt ss2 ->
  sk_stmts [] false ss1 = sk_stmts [] false ss2 ->
  compile [] s1 = COk ps1 ->
  exists ps2 ts1 ts2, compile [] s2 = COk ps2 /\
    sql_lex ClickHouse (render ps1) = Some ts1 /\ sql_lex ClickHouse (render ps2) = Some ts2 /\
    map shape_of ts1 = map shape_of ts2.
Proof.
  intros P1 P2 N1 N2 Hsk C1.
  pose proof (same_skeleton_same_pieces s1 s2 [] ss1 ss2 Hsk) as Hsim.
  unfold compile in C1 |- *. rewrite P1 in C1. rewrite P2.
  destruct (compile_stmts s1 [] ss1) as [q1|] eqn:Q1; [|discriminate]. injection C1 as <-.
  destruct (compile_stmts s2 [] ss2) as [q2|] eqn:Q2; cbn [res_sim] in Hsim; [|contradiction].
  assert (C1 : compile [] s1 = COk q1) by (unfold compile; rewrite P1, Q1; reflexivity).
  assert (C2 : compile [] s2 = COk q2) by (unfold compile; rewrite P2, Q2; reflexivity).
  destruct (compile_lexes s1 ss1 q1 P1 N1 C1) as (t1 & Ht1 & L1).
  destruct (compile_lexes s2 ss2 q2 P2 N2 C2) as (t2 & Ht2 & L2).
  destruct (ptoks_shape q1 q2 t1 Hsim Ht1) as (t2' & Ht2' & Hsh). rewrite Ht2 in Ht2'. injection Ht2' as <-.
  exists q2, t1, t2. repeat split; assumption.
Qed.

(** the skeleton really forgets content, and only content *)
From Coq Require Import String.
Definition skel (s : str) : option (list stmt) :=
  match parse s with ParseOk ss => Some (sk_stmts [] false ss) | _ => None end.
Example skeleton_forgets_content :
  skel (L "let n = 5; T | where name == 'a' and `x y` > n | project `c` = f(0x10, ""s"") | take n") =
  skel (L "let n = 12.5e3; Users | where city == 'it\'s; -- /*' and `""` > n | project `a;b` = f(7, "")--"") | take n")
  /\ skel (L "T | where a == 'x'") <> skel (L "T | where a != 'x'")
  /\ skel (L "let n = 1; T | where n == 1") <> skel (L "let n = 1; T | where m == 1")
  /\ skel (L "T | where a == 1") <> None.
Proof. vm_compute. split; [reflexivity|]. repeat split; discriminate. Qed.
