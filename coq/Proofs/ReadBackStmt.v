(** * C02/C03/C05, text level (tokens): a printed SELECT re-reads as the subquery it was printed
    from -- columns, source (table or join), WHERE, GROUP BY, ORDER BY, LIMIT -- with every
    expression read under the dialect's precedence as its intended tree (continues ReadBack.v). *)
From PQL Require Import Spec.SqlRead Spec.Expected Model.Trans Proofs.ExprInd Proofs.TableFacts Proofs.ReadBack.
From Coq Require Import Lia String.
Local Open Scope list_scope.
Local Open Scope nat_scope.
Local Notation length := List.length (only parsing).

Ltac peel f := destruct f as [|f]; [lia|].
Ltac la := repeat (progress (try rewrite <- !app_assoc; try rewrite !app_nil_r; cbn [app])); reflexivity.

(** keywords as the writer spells them *)
Definition kw (w : str) : stok := SWord w.
Definition star_t := SPunct p_star.
Definition semi_t := SPunct p_semi.

Lemma stop_kw w r : stop_tok (SWord w) = true -> stop (SWord w :: r). Proof. intros H. exact H. Qed.

(** an expression up to a stop token, read with the statement reader's fuel *)
Lemma rx_read ts t rest : Fx ts t -> stop rest -> Conv (fun fx => rx fx (ts ++ rest)) (t, rest).
Proof. intros [_ H] Hs. exact (H rest Hs). Qed.

Lemma Fx_not_star t0 r0 t : Fx (t0 :: r0) t -> is_p p_star t0 = false.
Proof.
  intros [_ HF]. destruct (is_p p_star t0) eqn:Est; [|reflexivity]. exfalso.
  destruct (HF [] I) as (f1 & Hf1). specialize (Hf1 (S (S (S f1))) ltac:(lia)).
  rewrite sx_S, sx_prefix_S in Hf1. cbn [app] in Hf1.
  destruct t0 as [s|s|s|s|s|s]; try discriminate Est. unfold is_p in Est. apply str_eqb_eq in Est. subst s.
  change (is_w k_NOT (SPunct p_star)) with false in Hf1. change (is_p p_minus (SPunct p_star) || is_p p_plus (SPunct p_star)) with false in Hf1.
  cbn iota in Hf1. rewrite sx_atom_S in Hf1. change (str_eqb p_star p_lp) with false in Hf1. discriminate Hf1.
Qed.

(** ** select lists *)
Inductive col_toks : rcol -> list stok -> Prop :=
| ct_star : col_toks RStar [star_t]
| ct_expr e al tx a : Fx tx e -> is_kw k_AS a = true -> stop_tok a = true -> col_toks (RExpr e (Some al)) (tx ++ [a; SQuoted al]).

Definition not_comma (rest : list stok) : Prop := match rest with [] => True | t :: _ => is_p p_comma t = false end.

Lemma read_cols_ok : forall cols tls, Forall2 col_toks cols tls -> cols <> [] -> forall rest n, not_comma rest -> length cols <= n ->
  Conv (fun fx => read_cols fx n (join_toks tls ++ rest)) (cols, rest).
Proof.
  induction 1 as [|c ts cols tls Hc Hr IH]; intros Hne rest n Hnc Hn; [congruence|].
  destruct n as [|n]; [cbn in Hn; lia|].
  destruct cols as [|c2 cols'].
  - inversion Hr; subst. cbn [join_toks]. destruct Hc as [|e al tx a HF Ha Hsa].
    + exists 0. intros fx _. cbn [read_cols app]. change (is_p p_star star_t) with true. cbn iota.
      destruct rest as [|t r]; [reflexivity|]. cbn in Hnc. rewrite Hnc. reflexivity.
    + destruct (rx_read tx e (a :: SQuoted al :: rest) HF Hsa) as (f0 & Hf0).
      destruct HF as [(t0 & r0 & -> & Hnrp) HF']. pose proof (Fx_not_star t0 r0 e (conj (ex_intro _ t0 (ex_intro _ r0 (conj eq_refl Hnrp))) HF')) as Hst.
      exists f0. intros fx Hle. cbn [read_cols]. rewrite <- app_assoc. cbn [app]. rewrite Hst.
      change (t0 :: r0 ++ a :: SQuoted al :: rest) with ((t0 :: r0) ++ a :: SQuoted al :: rest). rewrite Hf0 by lia.
      rewrite Ha. cbn iota.
      destruct rest as [|t r]; [reflexivity|]. cbn in Hnc. rewrite Hnc. reflexivity.
  - destruct tls as [|ts2 tls']; [inversion Hr|].
    destruct (IH ltac:(discriminate) rest n Hnc ltac:(cbn [length] in *; lia)) as (f2 & Hf2).
    change (join_toks (ts :: ts2 :: tls')) with (ts ++ comma_t :: join_toks (ts2 :: tls')).
    destruct Hc as [|e al tx a HF Ha Hsa].
    + exists f2. intros fx Hle. cbn [read_cols app]. change (is_p p_star star_t) with true. cbn iota.
      change (is_p p_comma comma_t) with true. cbn iota. rewrite Hf2 by lia. reflexivity.
    + destruct (rx_read tx e (a :: SQuoted al :: comma_t :: join_toks (ts2 :: tls') ++ rest) HF Hsa) as (f0 & Hf0).
      destruct HF as [(t0 & r0 & -> & Hnrp) HF']. pose proof (Fx_not_star t0 r0 e (conj (ex_intro _ t0 (ex_intro _ r0 (conj eq_refl Hnrp))) HF')) as Hst.
      exists (f0 + f2). intros fx Hle. cbn [read_cols].
      replace ((((t0 :: r0) ++ [a; SQuoted al]) ++ comma_t :: join_toks (ts2 :: tls')) ++ rest)
        with ((t0 :: r0) ++ a :: SQuoted al :: comma_t :: join_toks (ts2 :: tls') ++ rest) by la.
      cbn [app]. rewrite Hst.
      change (t0 :: r0 ++ a :: SQuoted al :: comma_t :: join_toks (ts2 :: tls') ++ rest) with ((t0 :: r0) ++ a :: SQuoted al :: comma_t :: join_toks (ts2 :: tls') ++ rest).
      rewrite Hf0 by lia. rewrite Ha. cbn iota.
      change (is_p p_comma comma_t) with true. cbn iota. rewrite Hf2 by lia. reflexivity.
Qed.

(** ** FROM *)
Definition not_as (rest : list stok) : Prop := match rest with [] => True | t :: _ => is_kw k_AS t = false end.

Lemma read_from_table fx n rest : not_as rest -> read_from fx (SQuoted n :: rest) = Some (RTable n, rest).
Proof.
  intros H. unfold read_from. destruct rest as [|a [|[l| | | | |] r]]; try reflexivity.
  cbn in H. rewrite H. reflexivity.
Qed.

(** the join source:  [ (SELECT DISTINCT * FROM "l") | "l" ] AS "$left" [LEFT] JOIN "r" AS "$right" ON cond *)
Definition join_toks_src (uniq : bool) (l : str) (outer : bool) (r : str) (tc : list stok) : list stok :=
  (if uniq then [lp_t; kw k_SELECT; kw k_DISTINCT; star_t; kw k_FROM; SQuoted l; rp_t] else [SQuoted l])
  ++ [kw k_AS; SQuoted q_left] ++ (if outer then [kw k_LEFT] else []) ++ [kw k_JOIN; SQuoted r; kw k_AS; SQuoted q_right; kw k_ON] ++ tc.

Lemma read_from_join uniq l outer r tc cond rest : Fx tc cond -> stop rest ->
  Conv (fun fx => read_from fx (join_toks_src uniq l outer r tc ++ rest)) (RJoin uniq l outer r cond, rest).
Proof.
  intros HF Hs. destruct (rx_read tc cond rest HF Hs) as (f0 & Hf0). exists f0. intros fx Hle.
  unfold join_toks_src, read_from. destruct uniq, outer; cbn -[rx]; rewrite Hf0 by lia; reflexivity.
Qed.

(** ** GROUP BY lists *)
Lemma read_exprs_ok : forall es tls, Forall2 Fx tls es -> es <> [] -> forall rest n, stop rest -> not_comma rest -> length es <= n ->
  Conv (fun fx => read_exprs fx n (join_toks tls ++ rest)) (es, rest).
Proof.
  intros es tls H. induction H as [|ts e tls es HF Hr IH]; intros Hne rest n Hs Hnc Hn; [congruence|].
  destruct n as [|n]; [cbn in Hn; lia|].
  destruct es as [|e2 es'].
  - inversion Hr; subst. cbn [join_toks]. destruct (rx_read ts e rest HF Hs) as (f0 & Hf0).
    exists f0. intros fx Hle. cbn [read_exprs]. rewrite Hf0 by lia.
    destruct rest as [|t r]; [reflexivity|]. cbn in Hnc. rewrite Hnc. reflexivity.
  - destruct tls as [|ts2 tls']; [inversion Hr|].
    destruct (IH ltac:(discriminate) rest n Hs Hnc ltac:(cbn [length] in *; lia)) as (f2 & Hf2).
    change (join_toks (ts :: ts2 :: tls')) with (ts ++ comma_t :: join_toks (ts2 :: tls')).
    destruct (rx_read ts e (comma_t :: join_toks (ts2 :: tls') ++ rest) HF eq_refl) as (f0 & Hf0).
    exists (f0 + f2). intros fx Hle. cbn [read_exprs]. rewrite <- app_assoc. cbn [app]. rewrite Hf0 by lia.
    change (is_p p_comma comma_t) with true. cbn iota. rewrite Hf2 by lia. reflexivity.
Qed.

(** ** ORDER BY terms: the writer always spells direction and null placement *)
Definition term_toks (tx : list stok) (asc nf : bool) : list stok :=
  tx ++ [kw (if asc then k_ASC else k_DESC); kw k_NULLS; kw (if nf then k_FIRST else k_LAST)].

Lemma read_terms_ok : forall terms tls, Forall2 (fun tl (t : sexpr * bool * bool) => exists tx, Fx tx (fst (fst t)) /\ tl = term_toks tx (snd (fst t)) (snd t)) tls terms ->
  terms <> [] -> forall rest n, not_comma rest -> length terms <= n ->
  Conv (fun fx => read_terms fx n (join_toks tls ++ rest)) (terms, rest).
Proof.
  intros terms tls H. induction H as [|tl t tls terms (tx & HF & ->) Hr IH]; intros Hne rest n Hnc Hn; [congruence|].
  destruct n as [|n]; [cbn in Hn; lia|]. destruct t as [[e asc] nf]. cbn [fst snd] in *.
  assert (Hone : forall tail, stop (kw (if asc then k_ASC else k_DESC) :: tail)) by (intros; destruct asc; reflexivity).
  destruct terms as [|t2 terms'].
  - inversion Hr; subst. cbn [join_toks]. unfold term_toks.
    destruct (rx_read tx e ([kw (if asc then k_ASC else k_DESC); kw k_NULLS; kw (if nf then k_FIRST else k_LAST)] ++ rest) HF (Hone _)) as (f0 & Hf0).
    exists f0. intros fx Hle. cbn [read_terms]. rewrite <- app_assoc. rewrite Hf0 by lia. cbn [app].
    destruct asc, nf; cbn;
      (destruct rest as [|t r]; [reflexivity|]; cbn in Hnc; rewrite Hnc; reflexivity).
  - destruct tls as [|ts2 tls']; [inversion Hr|].
    destruct (IH ltac:(discriminate) rest n Hnc ltac:(cbn [length] in *; lia)) as (f2 & Hf2).
    change (join_toks (term_toks tx asc nf :: ts2 :: tls')) with (term_toks tx asc nf ++ comma_t :: join_toks (ts2 :: tls')). unfold term_toks.
    destruct (rx_read tx e ([kw (if asc then k_ASC else k_DESC); kw k_NULLS; kw (if nf then k_FIRST else k_LAST)] ++ comma_t :: join_toks (ts2 :: tls') ++ rest) HF (Hone _)) as (f0 & Hf0).
    exists (f0 + f2). intros fx Hle. cbn [read_terms].
    replace (((tx ++ [kw (if asc then k_ASC else k_DESC); kw k_NULLS; kw (if nf then k_FIRST else k_LAST)]) ++ comma_t :: join_toks (ts2 :: tls')) ++ rest)
      with (tx ++ [kw (if asc then k_ASC else k_DESC); kw k_NULLS; kw (if nf then k_FIRST else k_LAST)] ++ comma_t :: join_toks (ts2 :: tls') ++ rest) by la.
    rewrite Hf0 by lia. cbn [app].
    destruct asc, nf; cbn; rewrite Hf2 by lia; reflexivity.
Qed.

(** ** a whole SELECT *)
Definition endtok (rest : list stok) : Prop := rest = [] \/ exists r, rest = rp_t :: r \/ rest = semi_t :: r.

Definition where_toks (w : option (list stok)) : list stok := match w with Some tw => kw k_WHERE :: tw | None => [] end.
Definition group_toks (g : list (list stok)) : list stok := match g with [] => [] | _ => kw k_GROUP :: kw k_BY :: join_toks g end.
Definition order_toks (o : list (list stok)) : list stok := match o with [] => [] | _ => kw k_ORDER :: kw k_BY :: join_toks o end.
Definition limit_toks (l : option (list stok)) : list stok := match l with Some tl => kw k_LIMIT :: tl | None => [] end.

Definition sel_toks (cols : list (list stok)) (from : list stok) w g o l : list stok :=
  kw k_SELECT :: join_toks cols ++ kw k_FROM :: from ++ where_toks w ++ group_toks g ++ order_toks o ++ limit_toks l.

Lemma join_len (tls : list (list stok)) : Forall (fun t => t <> []) tls -> length tls <= length (join_toks tls).
Proof.
  induction 1 as [|t tls Ht Hr IH]; [cbn; lia|]. destruct tls as [|t2 tls'].
  - cbn [join_toks length]. destruct t; [congruence|cbn; lia].
  - change (join_toks (t :: t2 :: tls')) with (t ++ comma_t :: join_toks (t2 :: tls')).
    rewrite app_length. change (length (t :: t2 :: tls')) with (S (length (t2 :: tls'))). cbn [length] in *.
    destruct t; [congruence|cbn [length]; lia].
Qed.

Lemma Forall2_len {X Y} (P : X -> Y -> Prop) l1 l2 : Forall2 P l1 l2 -> length l1 = length l2.
Proof. induction 1; cbn; congruence. Qed.

Lemma Fx_ne ts t : Fx ts t -> ts <> [].
Proof. intros [(t0 & r0 & -> & _) _]. discriminate. Qed.

(** the source: a table, or a join with its condition *)
Inductive from_toks : rfrom -> list stok -> Prop :=
| ft_table n : from_toks (RTable n) [SQuoted n]
| ft_join u l o r tc cond : Fx tc cond -> from_toks (RJoin u l o r cond) (join_toks_src u l o r tc).

Lemma read_from_ok from ft rest : from_toks from ft -> stop rest -> not_as rest -> Conv (fun fx => read_from fx (ft ++ rest)) (from, rest).
Proof.
  intros H Hs Hna. destruct H as [n|u l o r tc cond HF].
  - exists 0. intros fx _. apply read_from_table. exact Hna.
  - apply read_from_join; assumption.
Qed.

Lemma read_select_ok cols ctl from ft wh wt g gtl o otl lim lt rest :
  Forall2 col_toks cols ctl -> cols <> [] -> from_toks from ft ->
  match wh, wt with Some e, Some tw => Fx tw e | None, None => True | _, _ => False end ->
  Forall2 Fx gtl g ->
  Forall2 (fun tl (t : sexpr * bool * bool) => exists tx, Fx tx (fst (fst t)) /\ tl = term_toks tx (snd (fst t)) (snd t)) otl o ->
  match lim, lt with Some e, Some tl => Fx tl e | None, None => True | _, _ => False end ->
  endtok rest ->
  Conv (fun fx => read_select fx (sel_toks ctl ft wt gtl otl lt ++ rest)) (mkSel cols from wh g o lim, rest).
Proof.
  intros Hcols Hcne Hfrom Hwh Hg Ho Hlim Hend.
  (* the tails *)
  set (tL := limit_toks lt ++ rest). set (tO := order_toks otl ++ tL). set (tG := group_toks gtl ++ tO). set (tW := where_toks wt ++ tG).
  assert (HendF : stop rest /\ not_comma rest /\ not_as rest).
  { destruct Hend as [-> | (r & [-> | ->])]; repeat split; reflexivity. }
  destruct HendF as (Hsr & Hcr & Har).
  assert (HtL : stop tL /\ not_comma tL /\ not_as tL) by (unfold tL; destruct lt; cbn [limit_toks app]; repeat split; try reflexivity; assumption).
  destruct HtL as (HsL & HcL & HaL).
  assert (HtO : stop tO /\ not_comma tO /\ not_as tO) by (unfold tO; destruct otl; cbn [order_toks app]; repeat split; try reflexivity; assumption).
  destruct HtO as (HsO & HcO & HaO).
  assert (HtG : stop tG /\ not_comma tG /\ not_as tG) by (unfold tG; destruct gtl; cbn [group_toks app]; repeat split; try reflexivity; assumption).
  destruct HtG as (HsG & HcG & HaG).
  assert (HtW : stop tW /\ not_comma tW /\ not_as tW) by (unfold tW; destruct wt; cbn [where_toks app]; repeat split; try reflexivity; assumption).
  destruct HtW as (HsW & HcW & HaW).
  (* the pieces *)
  assert (Hctl : length cols <= length (join_toks ctl)).
  { rewrite (Forall2_len _ _ _ Hcols). apply join_len. clear -Hcols. induction Hcols as [|c t cs ts Hc Hr IH]; constructor; [|exact IH].
    destruct Hc as [|e al tx a HF Ha Hsa]; [discriminate|]. destruct tx; discriminate. }
  destruct (read_cols_ok cols ctl Hcols Hcne (kw k_FROM :: ft ++ tW) (S (length (join_toks ctl ++ kw k_FROM :: ft ++ tW))) eq_refl
              ltac:(rewrite app_length; lia)) as (f1 & Hf1).
  destruct (read_from_ok from ft tW Hfrom HsW HaW) as (f2 & Hf2).
  assert (Hw : Conv (fun fx => match tW with
                                | t :: r' => if is_kw k_WHERE t then match rx fx r' with Some (e, r'') => Some (Some e, r'') | None => None end else Some (None, tW)
                                | [] => Some (None, tW) end) (wh, tG)).
  { unfold tW. destruct wh as [e|], wt as [tw|]; try contradiction; cbn [where_toks app].
    - destruct (rx_read tw e tG Hwh HsG) as (f0 & Hf0). exists f0. intros fx Hle. change (is_kw k_WHERE (kw k_WHERE)) with true. cbn iota. rewrite Hf0 by lia. reflexivity.
    - exists 0. intros fx _. fold tG. destruct tG as [|t r'] eqn:EtG; [reflexivity|].
      assert (Hk : is_kw k_WHERE t = false).
      { unfold tG in EtG. destruct gtl; cbn [group_toks app] in EtG; [|injection EtG as <- _; reflexivity].
        unfold tO in EtG. destruct otl; cbn [order_toks app] in EtG; [|injection EtG as <- _; reflexivity].
        unfold tL in EtG. destruct lt; cbn [limit_toks app] in EtG; [injection EtG as <- _; reflexivity|].
        destruct Hend as [-> | (r0 & [-> | ->])]; [discriminate| |]; injection EtG as <- _; reflexivity. }
      rewrite Hk. reflexivity. }
  destruct Hw as (f3 & Hf3).
  assert (Hgb : Conv (fun fx => match tG with
                                 | t :: b :: r' => if is_kw k_GROUP t && is_kw k_BY b then read_exprs fx (S (length r')) r' else Some ([], tG)
                                 | _ => Some ([], tG) end) (g, tO)).
  { unfold tG. destruct gtl as [|g1 gtl'].
    - inversion Hg; subst. cbn [group_toks app]. exists 0. intros fx _. fold tO.
      destruct tO as [|t [|b r']] eqn:EtO; try reflexivity.
      assert (Hk : is_kw k_GROUP t = false).
      { unfold tO in EtO. destruct otl; cbn [order_toks app] in EtO; [|injection EtO as <- _; reflexivity].
        unfold tL in EtO. destruct lt; cbn [limit_toks app] in EtO; [injection EtO as <- _; reflexivity|].
        destruct Hend as [-> | (r0 & [-> | ->])]; [discriminate| |]; injection EtO as <- _; reflexivity. }
      rewrite Hk. reflexivity.
    - assert (Hgne : g <> []) by (inversion Hg; discriminate).
      assert (Hlen : length g <= length (join_toks (g1 :: gtl') ++ tO)).
      { rewrite app_length. rewrite <- (Forall2_len _ _ _ Hg). pose proof (join_len (g1 :: gtl')) as Hj.
        assert (Forall (fun t => t <> []) (g1 :: gtl')) by (clear -Hg; induction Hg; constructor; [eapply Fx_ne; eassumption|assumption]).
        specialize (Hj H). lia. }
      destruct (read_exprs_ok g (g1 :: gtl') Hg Hgne tO (S (length (join_toks (g1 :: gtl') ++ tO))) HsO HcO ltac:(lia)) as (f0 & Hf0).
      exists f0. intros fx Hle. cbn [group_toks app]. change (is_kw k_GROUP (kw k_GROUP) && is_kw k_BY (kw k_BY)) with true. cbn iota.
      apply Hf0. exact Hle. }
  destruct Hgb as (f4 & Hf4).
  assert (Hob : Conv (fun fx => match tO with
                                 | t :: b :: r' => if is_kw k_ORDER t && is_kw k_BY b then read_terms fx (S (length r')) r' else Some ([], tO)
                                 | _ => Some ([], tO) end) (o, tL)).
  { unfold tO. destruct otl as [|o1 otl'].
    - inversion Ho; subst. cbn [order_toks app]. exists 0. intros fx _. fold tL.
      destruct tL as [|t [|b r']] eqn:EtL; try reflexivity.
      assert (Hk : is_kw k_ORDER t = false).
      { unfold tL in EtL. destruct lt; cbn [limit_toks app] in EtL; [injection EtL as <- _; reflexivity|].
        destruct Hend as [-> | (r0 & [-> | ->])]; [discriminate| |]; injection EtL as <- _; reflexivity. }
      rewrite Hk. reflexivity.
    - assert (Hone : o <> []) by (inversion Ho; discriminate).
      assert (Hlen : length o <= length (join_toks (o1 :: otl') ++ tL)).
      { rewrite app_length. rewrite <- (Forall2_len _ _ _ Ho). pose proof (join_len (o1 :: otl')) as Hj.
        assert (Forall (fun t => t <> []) (o1 :: otl')).
        { clear -Ho. induction Ho as [|tl t tls ts (tx & HF & ->) Hr IH]; constructor; [|exact IH]. unfold term_toks. destruct tx; discriminate. }
        specialize (Hj H). lia. }
      destruct (read_terms_ok o (o1 :: otl') Ho Hone tL (S (length (join_toks (o1 :: otl') ++ tL))) HcL ltac:(lia)) as (f0 & Hf0).
      exists f0. intros fx Hle. cbn [order_toks app]. change (is_kw k_ORDER (kw k_ORDER) && is_kw k_BY (kw k_BY)) with true. cbn iota.
      apply Hf0. exact Hle. }
  destruct Hob as (f5 & Hf5).
  assert (Hlm : Conv (fun fx => match tL with
                                 | t :: r' => if is_kw k_LIMIT t then match rx fx r' with Some (e, r'') => Some (Some e, r'') | None => None end else Some (None, tL)
                                 | [] => Some (None, tL) end) (lim, rest)).
  { unfold tL. destruct lim as [e|], lt as [tl|]; try contradiction; cbn [limit_toks app].
    - destruct (rx_read tl e rest Hlim Hsr) as (f0 & Hf0). exists f0. intros fx Hle. change (is_kw k_LIMIT (kw k_LIMIT)) with true. cbn iota. rewrite Hf0 by lia. reflexivity.
    - exists 0. intros fx _. destruct Hend as [-> | (r0 & [-> | ->])]; reflexivity. }
  destruct Hlm as (f6 & Hf6).
  exists (f1 + f2 + f3 + f4 + f5 + f6). intros fx Hle. unfold read_select, sel_toks.
  cbn [app]. change (is_kw k_SELECT (kw k_SELECT)) with true. cbn iota.
  replace ((join_toks ctl ++ kw k_FROM :: ft ++ where_toks wt ++ group_toks gtl ++ order_toks otl ++ limit_toks lt) ++ rest)
    with (join_toks ctl ++ kw k_FROM :: ft ++ tW) by (unfold tW, tG, tO, tL; la).
  rewrite Hf1 by lia. change (is_kw k_FROM (kw k_FROM)) with true. cbn iota.
  rewrite Hf2 by lia. rewrite Hf3 by lia. rewrite Hf4 by lia. rewrite Hf5 by lia. rewrite Hf6 by lia. reflexivity.
Qed.

(** ** the writer's SELECTs *)
Lemma A_countstar w : plain_word w -> A [SWord w; lp_t; star_t; rp_t] (XCall w [XWord p_star]).
Proof.
  intros [H1 H2]. split; [exists (SWord w), [lp_t; star_t; rp_t]; repeat split; try reflexivity; exact H1|].
  intros rest _. exists 1. intros f Hle. peel f. rewrite sx_atom_S. cbn [app]. rewrite H2.
  change (is_p p_lp lp_t) with true. cbn iota. change (is_p p_star star_t && is_p p_rp rp_t) with true. reflexivity.
Qed.

Lemma join_toks_flat a l : join_toks (a :: l) = a ++ flat_map (fun x => comma_t :: x) l.
Proof.
  revert a. induction l as [|b l IH]; intros a; [cbn; rewrite app_nil_r; reflexivity|].
  change (join_toks (a :: b :: l)) with (a ++ comma_t :: join_toks (b :: l)). rewrite IH. reflexivity.
Qed.

Ltac lexall :=
  repeat match goal with
  | |- context [sql_lex ClickHouse ?s] =>
      let r := eval vm_compute in (sql_lex ClickHouse s) in progress change (sql_lex ClickHouse s) with r
  end.
Ltac normL :=
  repeat match goal with
  | H : context [L ?s] |- _ => let r := eval vm_compute in (L s) in progress change (L s) with r in H
  | |- context [L ?s] => let r := eval vm_compute in (L s) in progress change (L s) with r
  end.
Ltac ptk :=
  unfold lit in *; normL; cbn [app] in *;
  repeat (rewrite ?ptoks_app_eq; cbn [ptoks ptok]);
  lexall;
  repeat match goal with H : ptoks ?p = Some _ |- context [ptoks ?p] => rewrite H end;
  cbn iota beta; f_equal; cbn [join_toks flat_map]; la.

Section Select.
Variable source : str.
Variable sc : scope.
Variable vals : str -> sexpr.
Hypothesis Hinv : scope_inv sc vals.
Let isb := isb_of sc.
Let T (e : expr) : sexpr := substv vals (trans isb false e).
Let Tj (e : expr) : sexpr := substv vals (trans isb true e).
Let c := mkCtx sc ModeDefault.

Lemma wexpr_reads e ps : wfr e -> wexpr c e = Ok ps -> exists ts, ptoks ps = Some ts /\ Fx ts (T e).
Proof. intros Hw H. exact (wx_reads c vals Hinv e Hw WPlain ps H). Qed.

(** what a subquery denotes as a SELECT *)
Definition den_from (s : ssource) : rfrom :=
  match s with
  | SrcName n => RTable n
  | SrcJoin u l o r cond _ => RJoin u l o r (Tj cond)
  end.

Definition alias_of (col : ext_col) : str := match ec_name col with Some i => iname i | None => implicit_name source (ec_x col) end.
Definition den_ext_col (col : ext_col) : rcol := RExpr (T (ec_x col)) (Some (alias_of col)).

Definition den_body (o : option operator) : list rcol * option sexpr * list sexpr :=
  match o with
  | None | Some (OAs _ _ _) => ([RStar], None, [])
  | Some (OProject _ _ cols) =>
    (map (fun col => RExpr (T (match pc_x col with Some x => x | None => EQual [pc_name col] end)) (Some (iname (pc_name col)))) cols, None, [])
  | Some (OExtend _ _ cols) => (RStar :: map den_ext_col cols, None, [])
  | Some (OSummarize _ _ cols _ groupby) => (map den_ext_col groupby ++ map den_ext_col cols, None, map (fun col => T (ec_x col)) groupby)
  | Some (OWhere _ _ p) => ([RStar], Some (T p), [])
  | Some (OCount _ _) => ([RExpr (XCall k_COUNT [XWord p_star]) (Some n_count_col)], None, [])
  | Some (ORender _ _ chart _ _ props _) =>
    (RStar :: RExpr (XStr (iname chart)) (Some n_render_type)
           :: map (fun p => RExpr (XStr (render_value (rp_value p))) (Some (n_render_prop ++ iname (rp_name p)))) props, None, [])
  | Some _ => ([], None, [])
  end.

Definition den_select (s : subq) : rsel :=
  let '(cols, wh, gb) := den_body (sq_op s) in
  mkSel cols (den_from (sq_source s)) wh gb
        (match sq_sort s with Some terms => map (fun t => (T (st_x t), st_asc t, st_nullsfirst t)) terms | None => [] end)
        (option_map T (sq_take s)).

(** well-formedness of what a subquery carries *)
Definition op_wf (o : option operator) : Prop :=
  match o with
  | None | Some (OAs _ _ _) | Some (OCount _ _) | Some (ORender _ _ _ _ _ _ _) => True
  | Some (OProject _ _ cols) => cols <> [] /\ Forall (fun col => match pc_x col with Some x => wfr x | None => True end) cols
  | Some (OExtend _ _ cols) => Forall (fun col => wfr (ec_x col)) cols
  | Some (OSummarize _ _ cols _ groupby) => (cols <> [] \/ groupby <> []) /\ Forall (fun col => wfr (ec_x col)) cols /\ Forall (fun col => wfr (ec_x col)) groupby
  | Some (OWhere _ _ p) => wfr p
  | Some _ => False
  end.

Definition src_wf (s : ssource) : Prop :=
  match s with
  | SrcName _ => True
  | SrcJoin _ _ _ _ cond ps => wfr cond /\ wx (mkCtx sc ModeJoin) WPlain cond = Ok ps
  end.

Definition subq_wf (s : subq) : Prop :=
  op_wf (sq_op s) /\ src_wf (sq_source s) /\
  match sq_sort s with Some terms => terms <> [] /\ Forall (fun t => wfr (st_x t)) terms | None => True end /\
  match sq_take s with Some n => wfr n | None => True end.

Lemma src_reads s : src_wf s -> exists ft, ptoks (render_source s) = Some ft /\ from_toks (den_from s) ft.
Proof.
  destruct s as [n|u l o r cond ps]; cbn [src_wf render_source den_from].
  - intros _. exists [SQuoted n]. split; [reflexivity|constructor].
  - intros [Hw Hx]. destruct (wx_reads (mkCtx sc ModeJoin) vals Hinv cond Hw WPlain ps Hx) as (tc & Htc & HF). cbn [Shape c_mode mode_eqb] in HF.
    exists (join_toks_src u l o r tc). split; [|constructor; exact HF].
    unfold join_toks_src. destruct u, o; ptk.
Qed.

Lemma seq_map_reads {X} (f : X -> res (list piece)) (P : X -> list stok -> Prop) : forall l pl,
  (forall x p, In x l -> f x = Ok p -> exists t, ptoks p = Some t /\ P x t) ->
  sequence (map f l) = Ok pl -> exists tls, Forall2 (fun p t => ptoks p = Some t) pl tls /\ Forall2 P l tls.
Proof.
  induction l as [|x l IH]; intros pl Hf Hs; cbn [map sequence] in Hs.
  - injection Hs as <-. exists []. split; constructor.
  - apply bind_ok in Hs as (p & Hp & Hs). apply bind_ok in Hs as (tl & Htl & [= <-]).
    destruct (Hf x p (or_introl eq_refl) Hp) as (t & Ht & HP).
    destruct (IH tl (fun y q Hy => Hf y q (or_intror Hy)) Htl) as (tls & H1 & H2).
    exists (t :: tls). split; constructor; assumption.
Qed.

Lemma Forall2_map_l {X Y Z} (P : Y -> Z -> Prop) (g : X -> Y) l tls : Forall2 (fun x t => P (g x) t) l tls -> Forall2 P (map g l) tls.
Proof. induction 1; constructor; assumption. Qed.

Lemma Forall2_flip {X Y} (P : X -> Y -> Prop) l1 l2 : Forall2 P l1 l2 -> Forall2 (fun y x => P x y) l2 l1.
Proof. induction 1; constructor; assumption. Qed.

Definition as_t := kw k_AS.

Lemma ext_col_reads col p : wfr (ec_x col) -> (do px <- wexpr c (ec_x col); Ok (px ++ col_alias source col)) = Ok p ->
  exists t, ptoks p = Some t /\ col_toks (den_ext_col col) t.
Proof.
  intros Hw H. apply bind_ok in H as (px & Hpx & [= <-]). destruct (wexpr_reads _ _ Hw Hpx) as (tx & Htx & HF).
  exists (tx ++ [as_t; SQuoted (alias_of col)]). split.
  - unfold col_alias. fold (alias_of col). ptk.
  - apply ct_expr; [exact HF|reflexivity|reflexivity].
Qed.

Lemma ext_cols_reads cols pl : Forall (fun col => wfr (ec_x col)) cols -> write_ext_cols source c cols = Ok pl ->
  exists tls, Forall2 (fun p t => ptoks p = Some t) pl tls /\ Forall2 col_toks (map den_ext_col cols) tls.
Proof.
  intros Hw H. unfold write_ext_cols in H.
  pose proof (fun Hper => seq_map_reads _ (fun col t => col_toks (den_ext_col col) t) cols pl Hper H) as Hs.
  destruct Hs as (tls & H1 & H2); [|].
  - intros col p Hin Hp. rewrite Forall_forall in Hw. apply ext_col_reads; [apply Hw; exact Hin|exact Hp].
  - exists tls. split; [exact H1|apply Forall2_map_l; exact H2].
Qed.

(** ORDER BY *)
Lemma sort_reads terms ps : terms <> [] -> Forall (fun t => wfr (st_x t)) terms -> write_sort c terms = Ok ps ->
  exists otl, ptoks ps = Some (order_toks otl) /\
    Forall2 (fun tl (t : sexpr * bool * bool) => exists tx, Fx tx (fst (fst t)) /\ tl = term_toks tx (snd (fst t)) (snd t)) otl
            (map (fun t => (T (st_x t), st_asc t, st_nullsfirst t)) terms).
Proof.
  intros Hne Hw H. unfold write_sort in H. apply bind_ok in H as (ts & Hts & [= <-]).
  pose proof (fun Hper => seq_map_reads _ (fun t tl => exists tx, Fx tx (T (st_x t)) /\ tl = term_toks tx (st_asc t) (st_nullsfirst t)) terms ts Hper Hts) as Hs.
  destruct Hs as (tls & H1 & H2); [|].
  - intros t p Hin Hp. apply bind_ok in Hp as (px & Hpx & [= <-]). rewrite Forall_forall in Hw.
    destruct (wexpr_reads _ _ (Hw t Hin) Hpx) as (tx & Htx & HF).
    exists (term_toks tx (st_asc t) (st_nullsfirst t)). split; [|exists tx; auto].
    unfold term_toks. destruct (st_asc t), (st_nullsfirst t); ptk.
  - exists tls. split.
    + pose proof (join_pieces_toks _ _ H1) as Hj.
      assert (Htne : tls <> []) by (destruct H2; [congruence|discriminate]).
      unfold order_toks. destruct tls as [|t0 tls']; [congruence|]. ptk.
    + apply Forall2_flip. apply Forall2_map_l. apply Forall2_flip in H2. apply Forall2_flip.
      eapply Forall2_impl; [|exact H2]. cbn. intros tl t (tx & HF & ->). exists tx. auto.
Qed.

(** the body of a SELECT: columns, source, WHERE, GROUP BY *)
Lemma body_reads s body ft : subq_wf s -> ptoks (render_source (sq_source s)) = Some ft ->
  match sq_op s with
  | None | Some (OAs _ _ _) => Ok (lit "SELECT * FROM " ++ render_source (sq_source s))
  | Some (OProject _ _ cols) =>
    do cs <- sequence (map (fun col =>
        do px <- match pc_x col with
                 | None => wexpr c (EQual [pc_name col])
                 | Some x => wexpr c x
                 end;
        Ok (px ++ lit " AS " ++ [PIdent (iname (pc_name col))])) cols);
    Ok (lit "SELECT " ++ join_pieces (lit ", ") cs ++ lit " FROM " ++ render_source (sq_source s))
  | Some (OExtend _ _ cols) =>
    do cs <- write_ext_cols source c cols;
    Ok (lit "SELECT *" ++ flat_map (fun x => lit ", " ++ x) cs ++ lit " FROM " ++ render_source (sq_source s))
  | Some (OSummarize _ _ cols _ groupby) =>
    do gs <- write_ext_cols source c groupby;
    do cs <- write_ext_cols source c cols;
    do gb <- (match groupby with
              | [] => Ok []
              | _ => do ks <- sequence (map (fun col => wexpr c (ec_x col)) groupby);
                     Ok (lit " GROUP BY " ++ join_pieces (lit ", ") ks)
              end);
    Ok (lit "SELECT " ++ join_pieces (lit ", ") (gs ++ cs) ++ lit " FROM " ++ render_source (sq_source s) ++ gb)
  | Some (OWhere _ _ p) =>
    do px <- wexpr c p;
    Ok (lit "SELECT * FROM " ++ render_source (sq_source s) ++ lit " WHERE " ++ px)
  | Some (OCount _ _) => Ok (lit "SELECT COUNT(*) AS ""count()"" FROM " ++ render_source (sq_source s))
  | Some (ORender _ _ chart _ _ props _) =>
    Ok ([PLit (L "SELECT *," ++ [10%N] ++ L "    "); PStr (iname chart)] ++ lit " as ""render_type"""
        ++ flat_map (fun p => [PLit ([44%N; 10%N] ++ L "    "); PStr (render_value (rp_value p))] ++ lit " as "
                              ++ [PIdent (L "render_prop_" ++ iname (rp_name p))]) props
        ++ [PLit ([10%N] ++ L "FROM ")] ++ render_source (sq_source s))
  | Some _ => Ok [PHole (L "SELECT NULL /* unsupported operator */")]
  end = Ok body ->
  exists ctl wt gtl,
    ptoks body = Some (kw k_SELECT :: join_toks ctl ++ kw k_FROM :: ft ++ where_toks wt ++ group_toks gtl) /\
    let '(cols, wh, gb) := den_body (sq_op s) in
    Forall2 col_toks cols ctl /\ cols <> [] /\
    match wh, wt with Some e, Some tw => Fx tw e | None, None => True | _, _ => False end /\
    Forall2 Fx gtl gb.
Proof.
  intros (Hop & _) Hft. destruct (sq_op s) as [o|]; [destruct o|]; cbn [op_wf den_body] in *; try contradiction; intros Hb.
  - (* count *) injection Hb as <-. exists [[SWord k_COUNT; lp_t; star_t; rp_t; as_t; SQuoted n_count_col]], None, [].
    split; [ptk|]. split; [|split; [discriminate|split; [exact I|constructor]]].
    constructor; [|constructor]. apply (ct_expr _ _ [SWord k_COUNT; lp_t; star_t; rp_t]); [apply A_Fx, A_countstar; split; reflexivity|reflexivity|reflexivity].
  - (* where *) apply bind_ok in Hb as (px & Hpx & [= <-]). destruct (wexpr_reads _ _ Hop Hpx) as (tx & Htx & HF).
    exists [[star_t]], (Some tx), []. split; [ptk|]. split; [constructor; [apply ct_star|constructor]|split; [discriminate|split; [exact HF|constructor]]].
  - (* project *) destruct Hop as (Hne & Hw). apply bind_ok in Hb as (cs & Hcs & [= <-]).
    pose proof (fun Hper => seq_map_reads _ (fun col t => col_toks (RExpr (T (match pc_x col with Some x => x | None => EQual [pc_name col] end)) (Some (iname (pc_name col)))) t) cols cs Hper Hcs) as Hs.
    destruct Hs as (tls & H1 & H2).
    { intros col p Hin Hp. apply bind_ok in Hp as (px & Hpx & [= <-]). rewrite Forall_forall in Hw. specialize (Hw col Hin).
      assert (Hwx : exists tx, ptoks px = Some tx /\ Fx tx (T (match pc_x col with Some x => x | None => EQual [pc_name col] end))).
      { destruct (pc_x col) as [x|]; apply wexpr_reads; try assumption. cbn [wfr]. discriminate. }
      destruct Hwx as (tx & Htx & HF). exists (tx ++ [as_t; SQuoted (iname (pc_name col))]). split; [ptk|].
      apply ct_expr; [exact HF|reflexivity|reflexivity]. }
    exists tls, None, []. split.
    + pose proof (join_pieces_toks _ _ H1) as Hj. ptk.
    + split; [apply Forall2_map_l; exact H2|split; [destruct cols; [congruence|discriminate]|split; [exact I|constructor]]].
  - (* extend *) apply bind_ok in Hb as (cs & Hcs & [= <-]). destruct (ext_cols_reads _ _ Hop Hcs) as (tls & H1 & H2).
    exists ([star_t] :: tls), None, []. split.
    + rewrite join_toks_flat.
      assert (Hfl : ptoks (flat_map (fun x => PLit [44%N; 32%N] :: x) cs) = Some (flat_map (fun x => comma_t :: x) tls)).
      { clear -H1. induction H1 as [|p t pl tl Hp Hr IH]; [reflexivity|]. cbn [flat_map]. ptk. }
      ptk.
    + split; [constructor; [apply ct_star|exact H2]|split; [discriminate|split; [exact I|constructor]]].
  - (* summarize *) destruct Hop as (Hne & Hwc & Hwg).
    apply bind_ok in Hb as (gs & Hgs & Hb). apply bind_ok in Hb as (cs & Hcs & Hb). apply bind_ok in Hb as (gb & Hgb & [= <-]).
    destruct (ext_cols_reads _ _ Hwg Hgs) as (tg & Hg1 & Hg2). destruct (ext_cols_reads _ _ Hwc Hcs) as (tc & Hc1 & Hc2).
    assert (Hgbr : exists gtl, ptoks gb = Some (group_toks gtl) /\ Forall2 Fx gtl (map (fun col => T (ec_x col)) groupby)).
    { destruct groupby as [|g0 gr].
      - injection Hgb as <-. exists []. split; [reflexivity|constructor].
      - apply bind_ok in Hgb as (ks & Hks & [= <-]).
        pose proof (fun Hper => seq_map_reads _ (fun col t => Fx t (T (ec_x col))) (g0 :: gr) ks Hper Hks) as Hs.
        destruct Hs as (tls & H1 & H2).
        { intros col p Hin Hp. rewrite Forall_forall in Hwg. apply wexpr_reads; [apply Hwg; exact Hin|exact Hp]. }
        exists tls. split.
        + pose proof (join_pieces_toks _ _ H1) as Hj. assert (tls <> []) by (inversion H2; discriminate).
          unfold group_toks. destruct tls; [congruence|]. ptk.
        + apply Forall2_flip. apply Forall2_map_l. apply Forall2_flip in H2. apply Forall2_flip. exact H2. }
    destruct Hgbr as (gtl & Hgb1 & Hgb2).
    exists (tg ++ tc), None, gtl. split.
    + assert (Hj : ptoks (join_pieces (lit ", ") (gs ++ cs)) = Some (join_toks (tg ++ tc))).
      { apply join_pieces_toks. apply Forall2_app; assumption. }
      ptk.
    + split; [apply Forall2_app; assumption|split; [|split; [exact I|exact Hgb2]]].
      destruct Hne as [Hn|Hn]; [destruct cols; [congruence|]|destruct groupby; [congruence|]]; cbn [map app]; try discriminate.
      destruct (map den_ext_col groupby); discriminate.
  - (* as *) injection Hb as <-. exists [[star_t]], None, []. split; [ptk|]. split; [constructor; [apply ct_star|constructor]|split; [discriminate|split; [exact I|constructor]]].
  - (* render *) injection Hb as <-.
    set (ptl := map (fun p => [SString (render_value (rp_value p)); SWord (L "as"); SQuoted (n_render_prop ++ iname (rp_name p))]) props).
    exists ([star_t] :: [SString (iname chart); SWord (L "as"); SQuoted n_render_type] :: ptl), None, []. split.
    + rewrite join_toks_flat. cbn [flat_map].
      assert (Hfl : ptoks (flat_map (fun p => [PLit ([44%N; 10%N] ++ L "    "); PStr (render_value (rp_value p))] ++ lit " as "
                              ++ [PIdent (L "render_prop_" ++ iname (rp_name p))]) props) = Some (flat_map (fun x => comma_t :: x) ptl)).
      { unfold ptl. clear. induction props as [|p r IH]; [reflexivity|]. cbn [flat_map map]. ptk. }
      ptk.
    + split; [|split; [discriminate|split; [exact I|constructor]]]. constructor; [apply ct_star|]. constructor.
      * apply (ct_expr _ _ [SString (iname chart)]); [apply A_Fx, A_str|reflexivity|reflexivity].
      * unfold ptl. clear. induction props as [|p r IH]; [constructor|]. cbn [map]. constructor; [|exact IH].
        apply (ct_expr _ _ [SString (render_value (rp_value p))]); [apply A_Fx, A_str|reflexivity|reflexivity].
  - (* no operator *) injection Hb as <-. exists [[star_t]], None, []. split; [ptk|]. split; [constructor; [apply ct_star|constructor]|split; [discriminate|split; [exact I|constructor]]].
Qed.

(** A printed SELECT re-reads as the subquery it was printed from. *)
Theorem write_subq_reads s ps : subq_wf s -> write_subq source c s = Ok ps ->
  exists ts, ptoks ps = Some ts /\ forall rest, endtok rest -> Conv (fun fx => read_select fx (ts ++ rest)) (den_select s, rest).
Proof.
  intros Hwf H. pose proof Hwf as (Hop & Hsrc & Hsort & Htake).
  unfold write_subq in H. apply bind_ok in H as (body & Hbody & H). apply bind_ok in H as (srt & Hsrt & H). apply bind_ok in H as (tk & Htk & [= <-]).
  destruct (src_reads _ Hsrc) as (ft & Hft & Hfrom).
  destruct (body_reads s body ft Hwf Hft Hbody) as (ctl & wt & gtl & Hpb & Hden).
  (* ORDER BY *)
  assert (Ho : exists otl, ptoks srt = Some (order_toks otl) /\
             Forall2 (fun tl (t : sexpr * bool * bool) => exists tx, Fx tx (fst (fst t)) /\ tl = term_toks tx (snd (fst t)) (snd t)) otl
                     (match sq_sort s with Some terms => map (fun t => (T (st_x t), st_asc t, st_nullsfirst t)) terms | None => [] end)).
  { destruct (sq_sort s) as [terms|]; [destruct Hsort as [Hne Hw]; apply sort_reads; assumption|].
    injection Hsrt as <-. exists []. split; [reflexivity|constructor]. }
  destruct Ho as (otl & Hps & Ho).
  (* LIMIT *)
  assert (Hl : exists lt, ptoks tk = Some (limit_toks lt) /\
             match option_map T (sq_take s), lt with Some e, Some tl => Fx tl e | None, None => True | _, _ => False end).
  { destruct (sq_take s) as [n|]; cbn [option_map].
    - apply bind_ok in Htk as (pn & Hpn & [= <-]). destruct (wexpr_reads _ _ Htake Hpn) as (tn & Htn & HF).
      exists (Some tn). split; [ptk|exact HF].
    - injection Htk as <-. exists None. split; [reflexivity|exact I]. }
  destruct Hl as (lt & Hpt & Hl).
  exists (sel_toks ctl ft wt gtl otl lt). split.
  { rewrite !ptoks_app_eq, Hpb, Hps, Hpt. unfold sel_toks. f_equal. la. }
  intros rest Hend. unfold den_select. destruct (den_body (sq_op s)) as [[cols wh] gb]. destruct Hden as (Hcols & Hcne & Hwh & Hgb).
  apply read_select_ok; assumption.
Qed.

(** ** WITH name AS (select), ... select ; *)
Fixpoint cte_toks (l : list (str * list stok)) : list stok :=
  match l with
  | [] => []
  | [(n, ts)] => SQuoted n :: as_t :: lp_t :: ts ++ [rp_t]
  | (n, ts) :: r => SQuoted n :: as_t :: lp_t :: ts ++ rp_t :: comma_t :: cte_toks r
  end.

Lemma ctes_reads : forall ctes w, Forall subq_wf ctes -> write_ctes source c ctes = Ok w ->
  exists tl, Forall2 (fun s nt => fst nt = sq_name s /\ forall rest, endtok rest -> Conv (fun fx => read_select fx (snd nt ++ rest)) (den_select s, rest)) ctes tl /\
             ptoks w = Some (cte_toks tl).
Proof.
  induction ctes as [|s r IH]; intros w Hwf H; cbn [write_ctes] in H.
  - injection H as <-. exists []. split; [constructor|reflexivity].
  - inversion Hwf as [|s0 r0 Hs Hr]; subst.
    apply bind_ok in H as (body & Hbody & H). apply bind_ok in H as (tl & Htl & [= <-]).
    destruct (write_subq_reads s body Hs Hbody) as (ts & Hts & Hread). destruct (IH tl Hr Htl) as (tls & H1 & H2).
    exists ((sq_name s, ts) :: tls). split; [constructor; [split; [reflexivity|exact Hread]|exact H1]|].
    destruct r as [|s2 r'].
    + inversion H1; subst. cbn [cte_toks]. ptk.
    + destruct tls as [|[n2 t2] tls']; [inversion H1|].
      change (cte_toks ((sq_name s, ts) :: (n2, t2) :: tls')) with (SQuoted (sq_name s) :: as_t :: lp_t :: ts ++ rp_t :: comma_t :: cte_toks ((n2, t2) :: tls')).
      ptk.
Qed.

Lemma read_ctes_ok : forall ctes tl, ctes <> [] ->
  Forall2 (fun s nt => fst nt = sq_name s /\ forall rest, endtok rest -> Conv (fun fx => read_select fx (snd nt ++ rest)) (den_select s, rest)) ctes tl ->
  forall rest n, not_comma rest -> length ctes <= n ->
  Conv (fun fx => read_ctes fx n (cte_toks tl ++ rest)) (map (fun s => (sq_name s, den_select s)) ctes, rest).
Proof.
  induction ctes as [|s r IH]; intros tl Hne H rest n Hnc Hn; [congruence|].
  inversion H as [|s0 [nm ts] r0 tl' [Hnm Hread] Hr]; subst. cbn [fst snd] in *. subst nm.
  destruct n as [|n]; [cbn in Hn; lia|].
  destruct r as [|s2 r'].
  - inversion Hr; subst. cbn [cte_toks map].
    destruct (Hread (rp_t :: rest) ltac:(right; exists rest; left; reflexivity)) as (f0 & Hf0).
    exists f0. intros fx Hle. cbn [read_ctes app]. change (is_kw k_AS as_t && is_p p_lp lp_t) with true. cbn iota.
    rewrite <- app_assoc. cbn [app]. rewrite Hf0 by lia. change (is_p p_rp rp_t) with true. cbn iota.
    destruct rest as [|t r0]; [reflexivity|]. cbn in Hnc. rewrite Hnc. reflexivity.
  - destruct tl' as [|[n2 t2] tl'']; [inversion Hr|].
    destruct (IH ((n2, t2) :: tl'') ltac:(discriminate) Hr rest n Hnc ltac:(cbn [length] in *; lia)) as (f2 & Hf2).
    change (cte_toks ((sq_name s, ts) :: (n2, t2) :: tl'')) with (SQuoted (sq_name s) :: as_t :: lp_t :: ts ++ rp_t :: comma_t :: cte_toks ((n2, t2) :: tl'')).
    destruct (Hread (rp_t :: comma_t :: cte_toks ((n2, t2) :: tl'') ++ rest) ltac:(right; eexists; left; reflexivity)) as (f0 & Hf0).
    exists (f0 + f2). intros fx Hle. cbn [read_ctes app map]. change (is_kw k_AS as_t && is_p p_lp lp_t) with true. cbn iota.
    replace ((ts ++ rp_t :: comma_t :: cte_toks ((n2, t2) :: tl'')) ++ rest) with (ts ++ rp_t :: comma_t :: cte_toks ((n2, t2) :: tl'') ++ rest) by la.
    rewrite Hf0 by lia. change (is_p p_rp rp_t) with true. cbn iota. change (is_p p_comma comma_t) with true. cbn iota.
    rewrite Hf2 by lia. reflexivity.
Qed.

(** The whole statement the compiler prints -- [WITH name AS (select), ...] select; -- re-reads
    as the list of subqueries it was printed from. *)
Theorem statement_reads ctes q w body : Forall subq_wf ctes -> subq_wf q ->
  write_ctes source c ctes = Ok w -> write_subq source c q = Ok body ->
  exists ts, ptoks ((match ctes with [] => [] | _ => lit "WITH " end) ++ w ++ body ++ lit ";") = Some ts /\
    Conv (fun fx => read_stmt fx ts) (map (fun s => (sq_name s, den_select s)) ctes, den_select q).
Proof.
  intros Hwc Hwq Hw Hb.
  destruct (ctes_reads ctes w Hwc Hw) as (tl & Htl & Hpw).
  destruct (write_subq_reads q body Hwq Hb) as (tq & Htq & Hread).
  destruct (Hread [semi_t] ltac:(right; exists []; right; reflexivity)) as (f1 & Hf1).
  destruct ctes as [|s0 ctes'].
  - inversion Htl; subst. cbn [write_ctes] in Hw. injection Hw as <-.
    exists (tq ++ [semi_t]). split; [ptk|].
    exists f1. intros fx Hle. unfold read_stmt. cbn [map].
    assert (Hhd : exists t0 r0, tq ++ [semi_t] = t0 :: r0 /\ is_kw k_WITH t0 = false).
    { (* a SELECT starts with SELECT *)
      specialize (Hf1 fx Hle). unfold read_select in Hf1. destruct (tq ++ [semi_t]) as [|t0 r0] eqn:E; [discriminate|].
      exists t0, r0. split; [reflexivity|]. destruct (is_kw k_SELECT t0) eqn:Es; [|discriminate].
      destruct t0 as [w0|w0|w0|w0|w0|w0]; try discriminate Es. unfold is_kw in *. apply str_eqb_eq in Es. rewrite Es. reflexivity. }
    destruct Hhd as (t0 & r0 & E & Hk). rewrite E. rewrite Hk. rewrite <- E. rewrite Hf1 by lia.
    change (is_p p_semi semi_t) with true. reflexivity.
  - destruct (read_ctes_ok (s0 :: ctes') tl ltac:(discriminate) Htl (tq ++ [semi_t]) (S (length (cte_toks tl ++ tq ++ [semi_t])))) as (f2 & Hf2).
    + (* the final SELECT does not start with a comma *)
      specialize (Hf1 f1 (le_n _)). unfold read_select in Hf1. destruct (tq ++ [semi_t]) as [|t0 r0]; [exact I|].
      cbn. destruct (is_kw k_SELECT t0) eqn:Es; [|discriminate]. destruct t0; try discriminate Es. reflexivity.
    + rewrite app_length. pose proof (Forall2_len _ _ _ Htl) as Hl. rewrite Hl.
      assert (length tl <= length (cte_toks tl)).
      { clear. induction tl as [|[n t] tl IH]; [cbn; lia|]. destruct tl as [|[n2 t2] tl'].
        - cbn [cte_toks length]. lia.
        - change (cte_toks ((n, t) :: (n2, t2) :: tl')) with (SQuoted n :: as_t :: lp_t :: t ++ rp_t :: comma_t :: cte_toks ((n2, t2) :: tl')).
          change (length ((n, t) :: (n2, t2) :: tl')) with (S (length ((n2, t2) :: tl'))).
          cbn [length] in *. rewrite app_length. cbn [length]. lia. }
      lia.
    + exists (SWord k_WITH :: cte_toks tl ++ tq ++ [semi_t]). split; [ptk|].
      exists (f1 + f2). intros fx Hle. unfold read_stmt. change (is_kw k_WITH (SWord k_WITH)) with true. cbn iota.
      rewrite Hf2 by lia. rewrite Hf1 by lia. change (is_p p_semi semi_t) with true. reflexivity.
Qed.
End Select.
