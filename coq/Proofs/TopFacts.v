(** * C02: top N by k is sort by k followed by take N - the two spellings are split into the very
    same subqueries, whatever was built before, so they compile to the same text. *)
From PQL Require Import Model.Compile Proofs.NamesFacts.
From Coq Require Import Lia.
Local Open Scope list_scope.
Local Open Scope nat_scope.
Local Notation length := List.length (only parsing).

Lemma set_last_snoc dst s f : set_last (dst ++ [s]) f = dst ++ [f s].
Proof. unfold set_last. rewrite rev_app_distr. cbn [rev app]. rewrite rev_involutive. reflexivity. Qed.

Lemma set_last_nil f : set_last [] f = [].
Proof. reflexivity. Qed.

Lemma set_last_twice dst f g : set_last (set_last dst f) g = set_last dst (fun s => g (f s)).
Proof.
  destruct (rev dst) as [|s r] eqn:E.
  - assert (dst = []) by (rewrite <- (rev_involutive dst), E; reflexivity). subst. reflexivity.
  - assert (dst = rev r ++ [s]) by (rewrite <- (rev_involutive dst), E; reflexivity). subst. rewrite !set_last_snoc. reflexivity.
Qed.

Lemma state_of_snoc dst s ds : ds <= length dst ->
  state_of (dst ++ [s]) ds =
  {| ss_nil := false;
     ss_can_attach := match sq_op s with Some o => can_attach_sort (op_nkind o) | None => can_attach_sort_default end;
     ss_has_sort := match sq_sort s with Some _ => true | None => false end;
     ss_has_take := match sq_take s with Some _ => true | None => false end |}.
Proof.
  intros H. unfold state_of. rewrite app_length. cbn [length].
  replace (Nat.eqb (length dst + 1) ds) with false by (symmetry; apply Nat.eqb_neq; lia).
  rewrite last_opt_snoc. reflexivity.
Qed.

Theorem top_is_sort_then_take sc ds src dst p k n b col : ds <= length dst ->
  split_op sc ds src dst (OTop p k n b col) =
  (do d <- split_op sc ds src dst (OSort p k [col]); split_op sc ds src d (OTake p k n)).
Proof.
  intros Hds. cbn [split_op bind].
  assert (Hc : split_cond_top (state_of dst ds) = split_cond_sort (state_of dst ds)) by reflexivity. rewrite Hc.
  destruct (split_cond_sort (state_of dst ds)) eqn:Es.
  - (* a new subquery is opened for the sort; the take joins it *)
    rewrite !set_last_snoc. rewrite state_of_snoc by exact Hds. cbn [sq_op sq_sort sq_take chain_subquery].
    match goal with |- context [split_cond_take ?st] => replace (split_cond_take st) with false by reflexivity end.
    rewrite set_last_snoc. reflexivity.
  - (* the sort is attached to the last subquery, which then also takes the row count *)
    destruct (rev dst) as [|s r] eqn:E.
    { assert (dst = []) by (rewrite <- (rev_involutive dst), E; reflexivity). subst.
      unfold state_of in Es. cbn [length] in *. replace ds with 0 in Es by lia. cbn in Es. discriminate. }
    assert (Hd : dst = rev r ++ [s]) by (rewrite <- (rev_involutive dst), E; reflexivity).
    rewrite Hd in *. clear Hd E.
    destruct (Nat.eq_dec ds (length (rev r ++ [s]))) as [Heq|Hne].
    { unfold state_of in Es. rewrite <- Heq, Nat.eqb_refl in Es. cbn in Es. discriminate. }
    rewrite app_length in Hds, Hne. cbn [length] in Hds, Hne.
    rewrite state_of_snoc in Es by lia. unfold split_cond_sort in Es. cbn [ss_nil ss_can_attach ss_has_sort ss_has_take] in Es.
    rewrite !set_last_snoc. rewrite state_of_snoc by lia. cbn [sq_op sq_sort sq_take].
    unfold split_cond_take. cbn [ss_nil ss_can_attach ss_has_take].
    destruct (match sq_op s with Some o => can_attach_sort (op_nkind o) | None => can_attach_sort_default end); [|discriminate].
    destruct (sq_sort s); [discriminate|]. destruct (sq_take s); [discriminate|].
    cbn [orb negb]. rewrite set_last_snoc. reflexivity.
Qed.

Lemma fold_res_app {A B} (f : A -> B -> res A) a b x : fold_res f (a ++ b) x = (do y <- fold_res f a x; fold_res f b y).
Proof.
  revert x. induction a as [|o r IH]; intros x; cbn [app fold_res bind]; [reflexivity|].
  destruct (f x o); cbn [bind]; [apply IH|reflexivity].
Qed.

(** in a query's own pipeline, writing `top N by k` or `sort by k | take N` gives the same subqueries *)
Theorem top_spelling sc src pre post p k n b col :
  split_queries sc [] (mkTab src (pre ++ OTop p k n b col :: post)) =
  split_queries sc [] (mkTab src (pre ++ OSort p k [col] :: OTake p k n :: post)).
Proof.
  unfold split_queries. cbn [tsrc tops length]. rewrite !fold_res_app.
  destruct (fold_res (split_op sc 0 src) pre []) as [d|]; cbn [bind]; [|reflexivity].
  cbn [fold_res]. rewrite (top_is_sort_then_take sc 0 src d p k n b col (Nat.le_0_l _)).
  destruct (split_op sc 0 src d (OSort p k [col])) as [d1|]; cbn [bind]; reflexivity.
Qed.
