(** * C15 locality: each piece of SplitStatements scanned on its own yields exactly the tokens it
    has inside the whole source. *)
From PQL Require Import Model.Lexer Proofs.LexerFacts Proofs.SplitFacts Proofs.LexCut Proofs.ScanCut.
From Coq Require Import Lia.
Local Open Scope list_scope.
Local Open Scope nat_scope.

(** the tokens of a sequence of pieces joined by semicolons, each piece scanned on its own *)
Fixpoint join_scans (off : nat) (ps : list str) : list token :=
  match ps with
  | [] => []
  | [p] => map (shift_tok off) (scan p)
  | p :: r => map (shift_tok off) (scan p) ++ semi_tok (off + length p) :: join_scans (S (off + length p)) r
  end.

Lemma shift_tok_0 t : shift_tok 0 t = t.
Proof. destruct t; reflexivity. Qed.
Lemma map_shift_0 ts : map (shift_tok 0) ts = ts.
Proof. induction ts as [|t r IH]; cbn [map]; [reflexivity|]. rewrite shift_tok_0, IH. reflexivity. Qed.
Lemma shift_shift a b t : shift_tok a (shift_tok b t) = shift_tok (a + b) t.
Proof. unfold shift_tok. cbn [tkind tstart tend tvalue]. f_equal; lia. Qed.
Lemma map_shift_shift a b ts : map (shift_tok a) (map (shift_tok b) ts) = map (shift_tok (a + b)) ts.
Proof. rewrite map_map. apply map_ext. intros t. apply shift_shift. Qed.

Lemma join_scans_shift k ps : forall off, join_scans (k + off) ps = map (shift_tok k) (join_scans off ps).
Proof.
  induction ps as [|p r IH]; intros off; [reflexivity|].
  destruct r as [|p2 r2].
  - cbn [join_scans]. rewrite map_shift_shift. reflexivity.
  - change (join_scans (k + off) (p :: p2 :: r2)) with
      (map (shift_tok (k + off)) (scan p) ++ semi_tok (k + off + length p) :: join_scans (S (k + off + length p)) (p2 :: r2)).
    change (join_scans off (p :: p2 :: r2)) with
      (map (shift_tok off) (scan p) ++ semi_tok (off + length p) :: join_scans (S (off + length p)) (p2 :: r2)).
    rewrite map_app. cbn [map]. rewrite map_shift_shift. f_equal. f_equal.
    + unfold semi_tok, shift_tok. cbn. f_equal; lia.
    + replace (S (k + off + length p)) with (k + S (off + length p)) by lia. apply IH.
Qed.

(** ** decomposing a token list at its first semicolon *)
Fixpoint no_semi (ts : list token) : bool :=
  match ts with [] => true | t :: r => negb (kind_eqb (tkind t) KSemi) && no_semi r end.

Lemma first_semi ts : no_semi ts = true \/ exists pre t post, ts = pre ++ t :: post /\ no_semi pre = true /\ tkind t = KSemi.
Proof.
  induction ts as [|t r IH]; [left; reflexivity|]. cbn [no_semi].
  destruct (kind_eqb (tkind t) KSemi) eqn:E.
  - right. exists [], t, r. repeat split. apply kind_eqb_semi. exact E.
  - destruct IH as [H|(pre & u & post & -> & Hp & Hu)]; [left; exact H|].
    right. exists (t :: pre), u, post. repeat split; [cbn [no_semi]; rewrite E, Hp; reflexivity|exact Hu].
Qed.

Lemma split_no_semi s ts : forall start, no_semi ts = true -> split_at_semis s start ts = [skipn start s].
Proof.
  induction ts as [|t r IH]; intros start H; cbn [split_at_semis]; [reflexivity|].
  cbn [no_semi] in H. apply andb_prop in H as [Ht Hr]. apply Bool.negb_true_iff in Ht.
  destruct (tkind t) eqn:E; try (apply IH; exact Hr). vm_compute in Ht. discriminate.
Qed.

Lemma split_skip_prefix s pre : forall start rest, no_semi pre = true ->
  split_at_semis s start (pre ++ rest) = split_at_semis s start rest.
Proof.
  induction pre as [|t r IH]; intros start rest H; cbn [app split_at_semis]; [reflexivity|].
  cbn [no_semi] in H. apply andb_prop in H as [Ht Hr]. apply Bool.negb_true_iff in Ht.
  destruct (tkind t) eqn:E; try (apply IH; exact Hr). vm_compute in Ht. discriminate.
Qed.

Lemma slice_skipn s k a b : slice s (k + a) (k + b) = slice (skipn k s) a b.
Proof. unfold slice. rewrite skipn_skipn_add. f_equal; [lia|f_equal; lia]. Qed.

Lemma split_shift s k ts : forall start,
  split_at_semis s (k + start) (map (shift_tok k) ts) = split_at_semis (skipn k s) start ts.
Proof.
  induction ts as [|t r IH]; intros start; cbn [map split_at_semis].
  - rewrite skipn_skipn_add. f_equal. f_equal. lia.
  - change (tkind (shift_tok k t)) with (tkind t). change (tstart (shift_tok k t)) with (k + tstart t).
    change (tend (shift_tok k t)) with (k + tend t).
    destruct (tkind t); try apply IH.
    rewrite slice_skipn. f_equal. apply IH.
Qed.

(** in a list of tokens in source order, the token starting at a given offset is unique *)
Lemma toks_within_split lo hi l1 x l2 l1' x' l2' :
  toks_within lo hi (l1 ++ x :: l2) -> l1 ++ x :: l2 = l1' ++ x' :: l2' -> tstart x = tstart x' -> l1 = l1' /\ l2 = l2'.
Proof.
  revert lo l1'. induction l1 as [|a l1 IH]; intros lo l1' W E Hs.
  - destruct l1' as [|a' l1'']; cbn [app] in E.
    + injection E as E1 E2. auto.
    + exfalso. injection E as E1 E2. subst a'. cbn [app] in W. inversion W as [|? ? ? ? A B C W']; subst.
      assert (Hin : In x' (l1'' ++ x' :: l2')) by (apply in_or_app; right; left; reflexivity).
      pose proof (toks_within_start _ _ _ _ W' Hin). lia.
  - destruct l1' as [|a' l1'']; cbn [app] in E.
    + exfalso. injection E as E1 E2. subst a. cbn [app] in W. inversion W as [|? ? ? ? A B C W']; subst.
      assert (Hin : In x (l1 ++ x :: l2)) by (apply in_or_app; right; left; reflexivity).
      pose proof (toks_within_start _ _ _ _ W' Hin). lia.
    + injection E as E1 E2. subst a'. cbn [app] in W. inversion W as [|? ? ? ? A B C W']; subst.
      destruct (IH _ _ W' E2 Hs) as [-> ->]. auto.
Qed.

Lemma nth_error_split {A} (l : list A) n x : nth_error l n = Some x -> l = firstn n l ++ x :: skipn (S n) l.
Proof.
  revert l; induction n as [|n IH]; intros [|y r]; cbn; try discriminate.
  - intros [= ->]. reflexivity.
  - intros H. f_equal. apply IH. exact H.
Qed.

Lemma split_statements_nonempty s : split_statements s <> [].
Proof. apply split_at_semis_nonempty. Qed.

Theorem scan_is_join_of_piece_scans : forall n s, length s <= n ->
  scan s = join_scans 0 (split_statements s) /\ Forall (fun p => no_semi (scan p) = true) (split_statements s).
Proof.
  induction n as [|n IH]; intros s Hn.
  - destruct s; [split; [reflexivity|repeat constructor]|cbn in Hn; lia].
  - destruct (first_semi (scan s)) as [Hns|(pre & t & post & Ets & Hpre & Ht)].
    + unfold split_statements. rewrite split_no_semi by exact Hns. cbn [skipn join_scans]. rewrite map_shift_0.
      split; [reflexivity|repeat constructor; exact Hns].
    + assert (Hin : In t (scan s)) by (rewrite Ets; apply in_or_app; right; left; reflexivity).
      destruct (scan_semi_byte s t Hin Ht) as (Hend & Hbyte).
      set (p := tstart t) in *.
      assert (Hp : p < length s) by (apply nth_error_Some; congruence).
      pose proof (nth_error_split s p _ Hbyte) as Es.
      set (a := firstn p s) in *. set (b := skipn (S p) s) in *.
      assert (Ha : length a = p) by (subst a; rewrite firstn_length; lia).
      assert (Hsemi : scan s = scan a ++ semi_tok p :: map (shift_tok (S p)) (scan b)).
      { rewrite Es at 1. rewrite scan_semi; [rewrite Ha; reflexivity|].
        exists t. split; [rewrite <- Es; exact Hin|rewrite Ha; reflexivity]. }
      assert (Hsame : pre = scan a /\ post = map (shift_tok (S p)) (scan b)).
      { eapply (toks_within_split 0 (length s)); [rewrite <- Ets; apply scan_within|rewrite <- Ets; exact Hsemi|reflexivity]. }
      destruct Hsame as [Epre Epost].
      assert (Hsplit : split_statements s = a :: split_statements b).
      { unfold split_statements at 1. rewrite Ets, split_skip_prefix by exact Hpre.
        cbn [split_at_semis]. rewrite Ht. f_equal; [unfold slice; rewrite Nat.sub_0_r; reflexivity|].
        rewrite Hend, Epost. fold p. replace (S p) with (S p + 0) at 1 by lia.
        rewrite split_shift. reflexivity. }
      assert (Hb : length b <= n) by (subst b; rewrite skipn_length; lia).
      destruct (IH b Hb) as (IHscan & IHall).
      rewrite Hsplit. split; [|constructor; [rewrite <- Epre; exact Hpre|exact IHall]].
      pose proof (split_statements_nonempty b) as Hne.
      destruct (split_statements b) as [|q qs] eqn:Eb; [congruence|]. rewrite <- Eb. rewrite <- Eb in IHscan.
      change (join_scans 0 (a :: split_statements b)) with
        (match split_statements b with
         | [] => map (shift_tok 0) (scan a)
         | _ => map (shift_tok 0) (scan a) ++ semi_tok (0 + length a) :: join_scans (S (0 + length a)) (split_statements b)
         end).
      rewrite Eb at 1. rewrite map_shift_0, Ha. cbn [Nat.add].
      replace (join_scans (S p) (split_statements b)) with (join_scans (S p + 0) (split_statements b)) by (f_equal; lia).
      rewrite join_scans_shift. rewrite <- IHscan. exact Hsemi.
Qed.

(** each piece, scanned on its own, yields the tokens it has in context *)
Theorem scan_locality s : scan s = join_scans 0 (split_statements s).
Proof. apply (scan_is_join_of_piece_scans (length s) s). lia. Qed.

(** no piece contains a semicolon token *)
Theorem pieces_have_no_semi s p : In p (split_statements s) -> no_semi (scan p) = true.
Proof.
  intros Hin. destruct (scan_is_join_of_piece_scans (length s) s (le_n _)) as (_ & Hall).
  rewrite Forall_forall in Hall. apply Hall. exact Hin.
Qed.
