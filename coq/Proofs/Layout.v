(** * Layout: white space and comments between tokens do not change the tokens.

    [lex1_fwd]: a token that the scanner reads from a text [a] is read unchanged when an ASCII
    white-space byte (or a semicolon) and anything else follows [a] - look-ahead stops there.
    [scan_spaced]: the scan of token texts laid out with gaps (each gap starting with such a byte and
    continuing with white space and complete // comments) yields exactly those tokens' kinds and
    values.  [same_texts_same_kv]: kind and value of a token are functions of its text. *)
From PQL Require Import Model.Lexer Proofs.LexerFacts Proofs.SplitFacts Proofs.LexCut Proofs.ScanCut Proofs.LexSpec.
From Coq Require Import Lia ZifyBool ZifyNat ZifyN.
Local Open Scope list_scope.
Local Open Scope nat_scope.
Local Notation length := List.length (only parsing).

(** ** a completed string or quoted identifier does not look further *)
Lemma string_body_fwd q x b : neutral x -> (x =? q)%N = false -> forall f esc r v n,
  string_body f q esc r = (Some v, n) -> forall f', length (r ++ x :: b) < f' ->
  string_body f' q esc (r ++ x :: b) = (Some v, n).
Proof.
  intros Hx Hq. induction f as [|f IH]; intros esc r v n H f' Hf'; [discriminate|].
  destruct r as [|c0 r0]; [discriminate|]. set (r := c0 :: r0) in *. assert (Hr : r <> []) by (subst r; congruence).
  destruct f' as [|f']; [lia|].
  rewrite (string_body_step f q esc r Hr) in H.
  rewrite (string_body_step f' q esc (r ++ x :: b)) by apply app_cons_not_nil.
  rewrite (decode_cut x r b Hx Hr).
  pose proof (decode_width r Hr) as Hw. destruct (decode r) as [c w]. cbn [snd] in Hw.
  destruct (c =? q)%N; [exact H|]. destruct (c =? 10)%N; [discriminate|].
  rewrite !skipn_app_le, !firstn_app_le by lia. cbv zeta in H |- *.
  destruct (c =? 92)%N.
  - destruct (skipn w r) as [|c1 r1] eqn:Es; [discriminate|].
    assert (Hlen : length (c1 :: r1) = length r - w) by (rewrite <- Es, skipn_length; reflexivity).
    assert (Hr1 : c1 :: r1 <> []) by congruence.
    destruct ((c1 :: r1) ++ x :: b) as [|y ys] eqn:Ey; [destruct (app_cons_not_nil _ _ _ Ey)|]. rewrite <- Ey. clear Ey y ys.
    rewrite (decode_cut x (c1 :: r1) b Hx Hr1).
    pose proof (decode_width (c1 :: r1) Hr1) as Hw1. destruct (decode (c1 :: r1)) as [c2 w2]. cbn [snd] in Hw1.
    destruct (c2 =? 10)%N; [discriminate|].
    rewrite !skipn_app_le, !firstn_app_le by lia.
    destruct (string_body f q true (skipn w2 (c1 :: r1))) as [[v0|] m] eqn:Eb; cbn [option_map] in H; [|discriminate].
    rewrite (IH true _ v0 m Eb f'); [exact H|].
    rewrite app_length, skipn_length. rewrite app_length in Hf'. cbn [length] in *. lia.
  - destruct (string_body f q esc (skipn w r)) as [[v0|] m] eqn:Eb; cbn [option_map] in H; [|discriminate].
    rewrite (IH esc _ v0 m Eb f'); [exact H|].
    rewrite app_length, skipn_length. rewrite app_length in Hf'. cbn [length] in *. lia.
Qed.

Lemma quoted_body_fwd x b : neutral x -> forall f r v n,
  quoted_body f r = (Some v, n) -> forall f', length (r ++ x :: b) < f' ->
  quoted_body f' (r ++ x :: b) = (Some v, n).
Proof.
  intros Hx. assert (Hx96 : (x =? 96)%N = false) by (neutral_cases Hx; reflexivity).
  induction f as [|f IH]; intros r v n H f' Hf'; [discriminate|].
  destruct r as [|c r]; [discriminate|]. destruct f' as [|f']; [lia|].
  cbn [quoted_body] in H. cbn [app quoted_body]. cbn [app length] in Hf'.
  destruct (c =? 96)%N.
  - destruct r as [|c2 r2]; cbn [app].
    + rewrite Hx96. exact H.
    + destruct (c2 =? 96)%N; [|exact H].
      destruct (quoted_body f r2) as [[v0|] m] eqn:Eb; cbn [option_map] in H; [|discriminate].
      rewrite (IH r2 v0 m Eb f'); [exact H|cbn [app length] in Hf'; lia].
  - destruct (c =? 10)%N; [discriminate|].
    destruct (quoted_body f r) as [[v0|] m] eqn:Eb; cbn [option_map] in H; [|discriminate].
    rewrite (IH r v0 m Eb f'); [exact H|lia].
Qed.

Lemma lex_string_fwd x a b k v n : neutral x -> (match a with q :: _ => (x =? q)%N = false | [] => True end) ->
  lex_string a = Tok k v n -> k <> KError -> lex_string (a ++ x :: b) = Tok k v n.
Proof.
  intros Hx Hq H Hk. destruct a as [|q r]; [discriminate|]. cbn [app lex_string] in *.
  destruct (string_body (S (length r)) q false r) as [[v0|] m] eqn:Eb.
  - rewrite (string_body_fwd q x b Hx Hq _ _ _ _ _ Eb); [exact H|lia].
  - injection H as <- _ _. congruence.
Qed.

Lemma lex_quoted_fwd x a b k v n : neutral x ->
  lex_quoted a = Tok k v n -> k <> KError -> lex_quoted (a ++ x :: b) = Tok k v n.
Proof.
  intros Hx H Hk. destruct a as [|q r]; [discriminate|]. cbn [app lex_quoted] in *.
  destruct (quoted_body (length (q :: r)) r) as [[v0|] m] eqn:Eb.
  - rewrite (quoted_body_fwd x b Hx _ _ _ _ Eb); [exact H|cbn [length]; lia].
  - injection H as <- _ _. congruence.
Qed.

(** ** one token *)
Theorem lex1_fwd x a b k v n : neutral x -> lex1 a = Tok k v n -> k <> KError -> lex1 (a ++ x :: b) = Tok k v n.
Proof.
  intros Hx H Hk. destruct a as [|c0 r0]; [discriminate|].
  assert (Ha : c0 :: r0 <> []) by congruence.
  pose proof (lex_ident_cut x (c0 :: r0) b Hx Ha) as Hi1.
  pose proof (lex_number_cut x (c0 :: r0) b Hx Ha) as Hn1.
  pose proof (decode_cut x (c0 :: r0) b Hx Ha) as Hd1.
  pose proof (lex_string_fwd x (c0 :: r0) b k v n Hx) as Hs.
  pose proof (lex_quoted_fwd x (c0 :: r0) b k v n Hx) as Hqd.
  revert H. cbn [app] in *. unfold lex1. rewrite Hd1, Hi1, Hn1.
  destruct (decode (c0 :: r0)) as [c w] eqn:Edec.
  destruct (is_space c); [discriminate|].
  destruct (is_ident_start c); [exact (fun H => H)|].
  destruct (is_digit c || (c =? 46)%N); [exact (fun H => H)|].
  destruct (c =? 44)%N; [exact (fun H => H)|].
  destruct ((c =? 34)%N || (c =? 39)%N) eqn:Equote.
  { intros H. apply Hs; [|exact H|exact Hk].
    assert (Hc : (c < 128)%N) by lia. destruct (decode_small c0 r0 c w Edec Hc) as [-> _].
    neutral_cases Hx; lia. }
  destruct (c =? 96)%N; [intros H; apply Hqd; [exact H|exact Hk]|].
  destruct (c =? 124)%N; [exact (fun H => H)|]. destruct (c =? 40)%N; [exact (fun H => H)|]. destruct (c =? 41)%N; [exact (fun H => H)|].
  destruct (c =? 91)%N; [exact (fun H => H)|]. destruct (c =? 93)%N; [exact (fun H => H)|].
  destruct (c =? 61)%N; [destruct r0; cbn [app]; [neutral_cases Hx; exact (fun H => H)|exact (fun H => H)]|].
  destruct (c =? 33)%N; [destruct r0; cbn [app]; [neutral_cases Hx; exact (fun H => H)|exact (fun H => H)]|].
  destruct (c =? 43)%N; [exact (fun H => H)|]. destruct (c =? 45)%N; [exact (fun H => H)|]. destruct (c =? 42)%N; [exact (fun H => H)|].
  destruct (c =? 47)%N.
  { destruct r0 as [|c2 r']; cbn [app]; [neutral_cases Hx; exact (fun H => H)|].
    destruct (c2 =? 47)%N; [discriminate|exact (fun H => H)]. }
  destruct (c =? 37)%N; [exact (fun H => H)|].
  destruct (c =? 60)%N; [destruct r0; cbn [app]; [neutral_cases Hx; exact (fun H => H)|exact (fun H => H)]|].
  destruct (c =? 62)%N; [destruct r0; cbn [app]; [neutral_cases Hx; exact (fun H => H)|exact (fun H => H)]|].
  exact (fun H => H).
Qed.

(** ** gaps *)
Definition ws (x : N) : Prop := x = 10%N \/ x = 32%N \/ x = 9%N \/ x = 13%N.

Lemma ws_neutral x : ws x -> neutral x.
Proof. unfold ws, neutral. intros [->|[->|[->| ->]]]; auto. Qed.

(** a layout unit: one ASCII white-space byte, or a // comment up to and including its newline *)
Inductive lunit : str -> Prop :=
| lu_ws x : ws x -> lunit [x]
| lu_comment body : ~ In 10%N body -> lunit (47%N :: 47%N :: body ++ [10%N]).

Inductive gap : str -> Prop :=
| gap_nil : gap []
| gap_cons u g : lunit u -> gap g -> gap (u ++ g).

(** a gap that separates: it begins with a white-space byte *)
Definition sep_gap (g : str) : Prop := exists x g', g = x :: g' /\ ws x /\ gap g'.

Lemma comment_len_body body rest : ~ In 10%N body -> comment_len (body ++ 10%N :: rest) = S (length body).
Proof.
  induction body as [|c r IH]; intros Hn; cbn [app comment_len length]; [reflexivity|].
  destruct (c =? 10)%N eqn:E; [apply N.eqb_eq in E; subst c; exfalso; apply Hn; left; reflexivity|].
  rewrite IH; [reflexivity|]. intros Hin. apply Hn. right. exact Hin.
Qed.

Lemma lex1_ws x rest : ws x -> lex1 (x :: rest) = Skip 1.
Proof. intros [->|[->|[->| ->]]]; reflexivity. Qed.

Lemma lex1_comment body rest : ~ In 10%N body -> lex1 (47%N :: 47%N :: body ++ 10%N :: rest) = Skip (3 + length body).
Proof.
  intros Hn. unfold lex1. change (decode (47%N :: 47%N :: body ++ 10%N :: rest)) with (47%N, 1).
  cbv beta iota. change (is_space 47) with false. change (is_ident_start 47) with false. cbn [N.eqb Pos.eqb is_digit in_range orb andb N.leb N.compare Pos.compare Pos.compare_cont].
  rewrite comment_len_body by exact Hn. reflexivity.
Qed.

Lemma lunit_skip u rest : lunit u -> u <> [] /\ lex1 (u ++ rest) = Skip (length u).
Proof.
  intros [x Hx|body Hn].
  - split; [discriminate|]. cbn [app length]. apply lex1_ws; exact Hx.
  - split; [discriminate|]. cbn [app length]. rewrite <- app_assoc. cbn [app]. rewrite lex1_comment by exact Hn.
    rewrite app_length. cbn [length]. f_equal. lia.
Qed.

Lemma scan_gap g : gap g -> forall rest off f f', length (g ++ rest) < f -> length rest < f' ->
  scan_from f off (g ++ rest) = scan_from f' (length g + off) rest.
Proof.
  induction 1 as [|u g Hu _ IH]; intros rest off f f' Hf Hf'.
  - cbn [app length]. apply scan_from_fuel; assumption.
  - destruct (lunit_skip u (g ++ rest) Hu) as [Hne Hl]. rewrite <- app_assoc in *.
    destruct f as [|f]; [lia|]. rewrite scan_from_step by (destruct u; [congruence|discriminate]).
    rewrite Hl. rewrite skipn_app_le by lia. rewrite skipn_all. cbn [app].
    assert (Hlu : 1 <= length u) by (destruct u; [congruence|cbn [length]; lia]).
    rewrite (IH rest (length u + off) f f'); [f_equal; rewrite app_length; lia| |exact Hf'].
    rewrite !app_length in Hf. rewrite app_length. lia.
Qed.

(** ** token texts laid out with gaps *)
Definition item_ok (x : str) (k : kind) (v : str) : Prop := lex1 x = Tok k v (length x) /\ k <> KError.

Inductive spaced : list (str * kind * str) -> str -> Prop :=
| sp_nil : spaced [] []
| sp_last x k v : item_ok x k v -> spaced [(x, k, v)] x
| sp_cons x k v g items s : item_ok x k v -> sep_gap g -> spaced items s -> spaced ((x, k, v) :: items) (x ++ g ++ s).

Definition tok_kvl (t : token) : kind * str * nat := (tkind t, tvalue t, tend t - tstart t).
Definition item_kvl (i : str * kind * str) : kind * str * nat := let '(x, k, v) := i in (k, v, length x).

Lemma item_ok_nonempty x k v : item_ok x k v -> x <> [].
Proof. intros [H _] ->. discriminate H. Qed.

Lemma scan_spaced_from items s : spaced items s -> forall off f, length s < f ->
  map tok_kvl (scan_from f off s) = map item_kvl items.
Proof.
  induction 1 as [|x k v Hok|x k v g items s Hok (x0 & g' & -> & Hx0 & Hg') _ IH]; intros off f Hf.
  - rewrite scan_from_nil. reflexivity.
  - pose proof (item_ok_nonempty _ _ _ Hok) as Hne. destruct Hok as [Hl _].
    destruct f as [|f]; [lia|]. rewrite scan_from_step by exact Hne. rewrite Hl, skipn_all, scan_from_nil.
    cbn [map]. unfold tok_kvl, item_kvl. cbn [tkind tvalue tstart tend]. replace (length x + off - off) with (length x) by lia. reflexivity.
  - pose proof (item_ok_nonempty _ _ _ Hok) as Hne. destruct Hok as [Hl Hk].
    destruct f as [|f]; [lia|]. cbn [app]. rewrite scan_from_step by (destruct x; [congruence|discriminate]).
    rewrite (lex1_fwd x0 x (g' ++ s) k v (length x) (ws_neutral _ Hx0) Hl Hk).
    rewrite skipn_app_le by lia. rewrite skipn_all. cbn [app map].
    f_equal; [unfold tok_kvl, item_kvl; cbn [tkind tvalue tstart tend]; replace (length x + off - off) with (length x) by lia; reflexivity|].
    change (x0 :: g' ++ s) with (([x0] ++ g') ++ s).
    rewrite (scan_gap ([x0] ++ g') (gap_cons [x0] g' (lu_ws x0 Hx0) Hg') s _ f (S (length s))); [apply IH; lia| |lia].
    cbn [app length] in Hf |- *. rewrite !app_length in Hf |- *. cbn [length] in Hf. rewrite ?app_length in Hf.
    assert (1 <= length x) by (destruct x; [congruence|cbn [length]; lia]). lia.
Qed.

(** the scan of a spaced layout, with any gap in front, yields exactly the laid-out tokens:
    kinds, values and lengths *)
Theorem scan_spaced g0 items s : gap g0 -> spaced items s -> map tok_kvl (scan (g0 ++ s)) = map item_kvl items.
Proof.
  intros Hg Hs. unfold scan.
  rewrite (scan_gap g0 Hg s 0 _ (S (length s))) by lia. apply scan_spaced_from; [exact Hs|lia].
Qed.

(** ** kind and value of a token are functions of its text *)
Definition tok_text (s : str) (t : token) : str := slice s (tstart t) (tend t).

Lemma token_kv_of_text s t : In t (scan s) -> lex1 (tok_text s t) = Tok (tkind t) (tvalue t) (length (tok_text s t)).
Proof.
  intros Hin. destruct (scan_items s t Hin) as (Hoff & Hlex & Hlt).
  assert (Hne : skipn (tstart t) s <> []) by (intros E; rewrite E in Hlex; discriminate Hlex).
  pose proof (lex1_progress _ Hne) as Hp. rewrite Hlex in Hp. cbn [item_len] in Hp.
  pose proof (lex1_rescan _ _ _ _ Hne Hlex) as Hre. unfold tok_text, slice. rewrite Hre. f_equal.
  rewrite firstn_length. lia.
Qed.

Theorem same_texts_same_kv s1 s2 : map (tok_text s1) (scan s1) = map (tok_text s2) (scan s2) ->
  Forall2 (fun t t' => tkind t = tkind t' /\ tvalue t = tvalue t') (scan s1) (scan s2).
Proof.
  pose proof (token_kv_of_text s1) as H1. pose proof (token_kv_of_text s2) as H2.
  revert H1 H2. generalize (scan s1) (scan s2). intros l1. induction l1 as [|t l1 IH]; intros [|t' l2] H1 H2 Hm; try discriminate; [constructor|].
  cbn [map] in Hm. injection Hm as Ht Hm. constructor.
  - pose proof (H1 t (or_introl eq_refl)) as E1. pose proof (H2 t' (or_introl eq_refl)) as E2. rewrite Ht in E1. rewrite E1 in E2.
    injection E2 as -> ->. split; reflexivity.
  - apply IH; [intros u Hu; apply H1; right; exact Hu|intros u Hu; apply H2; right; exact Hu|exact Hm].
Qed.

(** the texts of the tokens of a source are items that may be laid out again *)
Lemma scanned_item_ok s t : In t (scan s) -> tkind t <> KError -> item_ok (tok_text s t) (tkind t) (tvalue t).
Proof. intros Hin Hk. split; [apply token_kv_of_text; exact Hin|exact Hk]. Qed.
