(** * A usable induction principle for expressions (nested lists). *)
From PQL Require Import Model.Ast.
Local Open Scope list_scope.

Section ExprInd.
Variable P : expr -> Prop.
Hypothesis HQual : forall ps, P (EQual ps).
Hypothesis HBin : forall x os op y, P x -> P y -> P (EBin x os op y).
Hypothesis HUnary : forall os op x, P x -> P (EUnary os op x).
Hypothesis HIn : forall x i lp vs rp, P x -> Forall P vs -> P (EIn x i lp vs rp).
Hypothesis HParen : forall lp x rp, P x -> P (EParen lp x rp).
Hypothesis HLit : forall vs k v, P (ELit vs k v).
Hypothesis HCall : forall f lp args rp, Forall P args -> P (ECall f lp args rp).
Hypothesis HIndex : forall x lb i rb, P x -> P i -> P (EIndex x lb i rb).

Fixpoint expr_ind' (e : expr) : P e :=
  match e with
  | EQual ps => HQual ps
  | EBin x os op y => HBin x os op y (expr_ind' x) (expr_ind' y)
  | EUnary os op x => HUnary os op x (expr_ind' x)
  | EIn x i lp vs rp =>
    HIn x i lp vs rp (expr_ind' x)
      ((fix go (l : list expr) : Forall P l :=
          match l with [] => Forall_nil P | a :: r => Forall_cons a (expr_ind' a) (go r) end) vs)
  | EParen lp x rp => HParen lp x rp (expr_ind' x)
  | ELit vs k v => HLit vs k v
  | ECall f lp args rp =>
    HCall f lp args rp
      ((fix go (l : list expr) : Forall P l :=
          match l with [] => Forall_nil P | a :: r => Forall_cons a (expr_ind' a) (go r) end) args)
  | EIndex x lb i rb => HIndex x lb i rb (expr_ind' x) (expr_ind' i)
  end.
End ExprInd.

Lemma str_eqb_refl s : str_eqb s s = true.
Proof. induction s as [|c r IH]; cbn [str_eqb]; [reflexivity|]. rewrite N.eqb_refl. exact IH. Qed.

Lemma str_eqb_eq a : forall b, str_eqb a b = true <-> a = b.
Proof.
  induction a as [|x a IH]; intros [|y b]; cbn [str_eqb]; split; try congruence; try discriminate.
  - intros H. apply andb_prop in H as [H1 H2]. apply N.eqb_eq in H1. apply IH in H2. congruence.
  - intros [= -> ->]. rewrite N.eqb_refl. apply IH. reflexivity.
Qed.

Lemma str_eqb_sym a b : str_eqb a b = str_eqb b a.
Proof.
  destruct (str_eqb a b) eqn:E.
  - apply str_eqb_eq in E. subst. symmetry. apply str_eqb_refl.
  - destruct (str_eqb b a) eqn:E2; [|reflexivity]. apply str_eqb_eq in E2. subst. rewrite str_eqb_refl in E. discriminate.
Qed.

Lemma str_eqb_neq a b : str_eqb a b = false <-> a <> b.
Proof.
  split.
  - intros H ->. rewrite str_eqb_refl in H. discriminate.
  - intros H. destruct (str_eqb a b) eqn:E; [|reflexivity]. apply str_eqb_eq in E. contradiction.
Qed.
