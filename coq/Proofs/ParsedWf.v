(** * Every program the parser accepts is well formed in the sense of SubqWf.v (minus finding
    F1), so the token-level chain text -> subqueries -> meaning starts at the source text. *)
From PQL Require Import Spec.FlattenStmt Spec.SqlRead Model.Trans Proofs.ExprInd Proofs.TableFacts Proofs.ParserSound Proofs.ParserSoundStmt
  Proofs.ParserReject Proofs.ReadBack Proofs.ReadBackStmt Proofs.SubqWf.
From Coq Require Import Lia String.
Local Open Scope list_scope.
Local Open Scope nat_scope.
Local Notation length := List.length (only parsing).

(** finding F1 as a condition on operators and programs: no pass-through function called NOT or CASE *)
Fixpoint names_ok_op (o : operator) : Prop :=
  match o with
  | OCount _ _ | OAs _ _ _ | ORender _ _ _ _ _ _ _ => True
  | OWhere _ _ p => names_ok p
  | OSort _ _ terms => Forall (fun t => names_ok (st_x t)) terms
  | OTake _ _ n => names_ok n
  | OTop _ _ n _ col => names_ok n /\ names_ok (st_x col)
  | OProject _ _ cols => Forall (fun col => match pc_x col with Some x => names_ok x | None => True end) cols
  | OExtend _ _ cols => Forall (fun col => names_ok (ec_x col)) cols
  | OSummarize _ _ cols _ groupby => Forall (fun col => names_ok (ec_x col)) cols /\ Forall (fun col => names_ok (ec_x col)) groupby
  | OJoin _ _ _ _ _ _ _ rops _ _ conds =>
    Forall names_ok conds /\ (fix all (l : list operator) : Prop := match l with [] => True | a :: r => names_ok_op a /\ all r end) rops
  end.

Lemma names_ok_op_all l : (fix all (l : list operator) : Prop := match l with [] => True | a :: r => names_ok_op a /\ all r end) l <-> Forall names_ok_op l.
Proof. induction l as [|a r IH]; [split; [constructor|auto]|]. split; [intros [H1 H2]; constructor; [exact H1|apply IH; exact H2]|intros H; inversion H; subst; split; [assumption|apply IH; assumption]]. Qed.

Definition names_ok_stmt (s : stmt) : Prop :=
  match s with SLet _ _ _ x => names_ok x | STab t => Forall names_ok_op (tops t) end.

Lemma names_ok_list_Forall l : names_ok_list l <-> Forall names_ok l.
Proof. induction l as [|a r IH]; [split; [constructor|cbn; auto]|]. split; [intros [H1 H2]; constructor; [exact H1|apply IH; exact H2]|intros H; inversion H; subst; split; [assumption|apply IH; assumption]]. Qed.
Lemma wfr_list_Forall l : wfr_list l <-> Forall wfr l.
Proof. induction l as [|a r IH]; [split; [constructor|cbn; auto]|]. split; [intros [H1 H2]; constructor; [exact H1|apply IH; exact H2]|intros H; inversion H; subst; split; [assumption|apply IH; assumption]]. Qed.

(** separated lists *)
Lemma sep_ne_ex {X} (P : X -> list token -> Prop) l ts : toks_sep P l ts -> l <> [].
Proof. intros H. destruct H; discriminate. Qed.

Lemma sep_Forall {X} (P : X -> list token -> Prop) (Q R : X -> Prop) : (forall a ta, P a ta -> Q a -> R a) ->
  forall l ts, toks_sep P l ts -> Forall Q l -> Forall R l.
Proof.
  intros HP l ts H. induction H as [a ta Ha|a ta c r tr Ha Hc Hr IH]; intros HQ; inversion HQ; subst; constructor; eauto.
Qed.

Lemma sort_term_wf t ts : toks_sort_term t ts -> names_ok (st_x t) -> wfr (st_x t).
Proof. intros H. destruct H as [x asc asp dflt nf nsp tx ta tn Hx _ _]. cbn [st_x]. apply (proj1 parsed_wfr _ _ Hx). Qed.
Lemma ext_col_wf c ts : toks_ext_col c ts -> names_ok (ec_x c) -> wfr (ec_x c).
Proof. intros H. destruct H as [i asp x ti ta tx _ _ Hx|x tx Hx]; cbn [ec_x]; apply (proj1 parsed_wfr _ _ Hx). Qed.
Lemma proj_col_wf c ts : toks_proj_col c ts -> match pc_x c with Some x => names_ok x | None => True end -> match pc_x c with Some x => wfr x | None => True end.
Proof. intros H. destruct H as [i ti _|i asp x ti ta tx _ _ Hx]; cbn [pc_x]; [auto|apply (proj1 parsed_wfr _ _ Hx)]. Qed.

Theorem parsed_oper_wf :
  (forall o ts, toks_op o ts -> names_ok_op o -> oper_wf o) /\
  (forall l ts, toks_ops l ts -> Forall names_ok_op l -> Forall oper_wf l).
Proof.
  apply toks_op_mutind; cbn [names_ok_op oper_wf]; intros; try exact I.
  all: repeat match goal with H : _ /\ _ |- _ => destruct H end.
  - (* where *) eapply (proj1 parsed_wfr); eassumption.
  - (* sort *) split; [eapply sep_ne_ex; eassumption|]. eapply (sep_Forall toks_sort_term); [apply sort_term_wf|eassumption|assumption].
  - (* take *) eapply (proj1 parsed_wfr); eassumption.
  - (* top *) split; [eapply (proj1 parsed_wfr); eassumption|eapply sort_term_wf; eassumption].
  - (* project *) split; [eapply sep_ne_ex; eassumption|]. eapply (sep_Forall toks_proj_col); [apply proj_col_wf|eassumption|assumption].
  - (* extend *) eapply (sep_Forall toks_ext_col); [apply ext_col_wf|eassumption|assumption].
  - (* summarize *)
    match goal with Hs : toks_summ _ _ _ _ |- _ => destruct Hs end.
    + split; [left; eapply sep_ne_ex; eassumption|]. split; [eapply (sep_Forall toks_ext_col); [apply ext_col_wf|eassumption|assumption]|constructor].
    + split; [right; eapply sep_ne_ex; eassumption|]. split; [constructor|eapply (sep_Forall toks_ext_col); [apply ext_col_wf|eassumption|assumption]].
    + split; [left; eapply sep_ne_ex; eassumption|]. split; eapply (sep_Forall toks_ext_col); try apply ext_col_wf; eassumption.
    + split; [left; eapply sep_ne_ex; eassumption|]. split; eapply (sep_Forall toks_ext_col); try apply ext_col_wf; eassumption.
  - (* join *)
    match goal with Hn2 : context [names_ok_op] |- _ => apply names_ok_op_all in Hn2 end.
    split.
    + apply wfr_list_Forall. eapply (proj1 (proj2 parsed_wfr)); [eassumption|]. apply names_ok_list_Forall. assumption.
    + apply oper_wf_all. auto.
  - (* no operator *) constructor.
  - (* operators: one more *) match goal with Hf : Forall names_ok_op (_ :: _) |- _ => inversion Hf; subst end. constructor; auto.
Qed.

Theorem parsed_stmts_wf : forall ss ts, toks_prog ss ts -> Forall names_ok_stmt ss -> stmts_wf ss.
Proof.
  assert (Hstmt : forall s ts, toks_stmt s ts -> names_ok_stmt s -> match s with SLet _ _ _ x => wfr x | STab t => Forall oper_wf (tops t) end).
  { intros s ts H Hn. destruct H as [ksp i asp x tk ti ta tx _ _ _ Hx|t ts (tsrc0 & tro & -> & _ & Ho)]; cbn [names_ok_stmt] in Hn.
    - eapply (proj1 parsed_wfr); eassumption.
    - eapply (proj2 parsed_oper_wf); eassumption. }
  induction 1 as [|semi ss rest Hsemi Hp IH|s ts Hs|s ts semi ss rest Hs Hsemi Hp IH]; intros Hn; unfold stmts_wf in *.
  - constructor.
  - apply IH. exact Hn.
  - inversion Hn; subst. constructor; [eapply Hstmt; eassumption|constructor].
  - inversion Hn; subst. constructor; [eapply Hstmt; eassumption|apply IH; assumption].
Qed.

(** ** from the source text to the re-read statement *)
Theorem compile_rereads s ss ps : parse s = ParseOk ss -> Forall names_ok_stmt ss -> compile [] s = COk ps ->
  exists sc t subs q rctes,
    stmt_loop [] None ss = Ok (sc, Some t) /\ split_queries sc [] t = Ok subs /\ rev subs = q :: rctes /\
    let '(names, vals) := let_vals [] (fun _ => XWord []) false ss in
    exists ts, ptoks ps = Some ts /\
      Conv (fun fx => read_stmt fx ts)
           (map (fun sq => (sq_name sq, den_select s sc vals sq)) (rev rctes), den_select s sc vals q).
Proof.
  intros Hp Hn Hc. unfold compile in Hc. rewrite Hp in Hc.
  destruct (compile_stmts s [] ss) as [ps0|] eqn:Ecs; [|discriminate]. injection Hc as <-.
  apply compiled_program_rereads; [|exact Ecs].
  eapply parsed_stmts_wf; [apply parse_sound; exact Hp|exact Hn].
Qed.
