(** * C10: positions of compile errors lie inside the source.
    Compile attaches to an error the start of a span recorded in the tree (an identifier, a dotted
    name, the opening parenthesis of a call, a join kind, a second query).  For a parsed program
    these spans are token extents inside the source, so every error position is an offset of the
    source. *)
From PQL Require Import Model.Compile Spec.FlattenStmt Proofs.LexerFacts Proofs.ParserSound Proofs.ParserSoundStmt Proofs.ParserReject
  Proofs.SpanFacts Proofs.WriterFacts Proofs.PipelineFacts Proofs.JoinFacts Proofs.SubqWf.
From Coq Require Import Lia.
Local Open Scope list_scope.
Local Open Scope nat_scope.
Local Notation length := List.length (only parsing).

Section Pos.
Variable hi : nat.

(** an error carries no position or one that is at most [hi] *)
Definition pb {A} (r : res A) : Prop := match r with Err (Some p) => p <= hi | _ => True end.
(** whatever the context and wrapping, writing [e] fails only with a bounded position *)
Definition eb (e : expr) : Prop := forall c w, pb (wx c w e).

Lemma pb_bind {A B} (r : res A) (f : A -> res B) : pb r -> (forall a, pb (f a)) -> pb (bind r f).
Proof. destruct r as [a|p]; cbn [bind]; intros H Hf; [apply Hf|exact H]. Qed.

Lemma pb_ok {A} (a : A) : pb (Ok a). Proof. exact I. Qed.

Lemma pb_wrap (b : bool) (r : res (list piece)) f : pb r -> pb (if b then do x <- r; Ok (f x) else r).
Proof. intros H. destruct b; [apply pb_bind; [exact H|intros; exact I]|exact H]. Qed.

Lemma pb_sequence {A} (l : list (res A)) : Forall pb l -> pb (sequence l).
Proof.
  induction 1 as [|x r Hx Hr IH]; cbn [sequence]; [exact I|].
  apply pb_bind; [exact Hx|]. intros a. apply pb_bind; [exact IH|]. intros; exact I.
Qed.

Lemma pb_nth {A} (l : list (res (list A))) i : Forall pb l -> pb (nth i l (Ok [])).
Proof. intros H. revert i. induction H as [|x r Hx Hr IH]; intros [|i]; cbn [nth]; auto; exact I. Qed.

Lemma Forall_skipn {A} (P : A -> Prop) l i : Forall P l -> Forall P (skipn i l).
Proof. intros H. revert i. induction H as [|x r Hx Hr IH]; intros [|i]; cbn [skipn]; auto. Qed.

Lemma pb_fill t : forall args, Forall pb args -> pb (fill_template t args).
Proof.
  induction t as [|p r IH]; intros args H; cbn [fill_template]; [exact I|].
  destruct p as [s|mp i|i sep mp].
  - apply pb_bind; [apply IH; exact H|intros; exact I].
  - apply pb_bind; [apply pb_nth; exact H|]. intros a. apply pb_bind; [apply IH; exact H|intros; exact I].
  - apply pb_bind; [apply pb_sequence, Forall_skipn; exact H|]. intros a. apply pb_bind; [apply IH; exact H|intros; exact I].
Qed.

Lemma span_start_inside lo sp : inside lo hi sp -> match span_start sp with Some a => a <= hi | None => True end.
Proof. destruct sp as [[a b]|]; cbn [inside span_start]; [|intros; exact I]. intros (H1 & H2 & H3). destruct (Nat.leb a b); [lia|exact I]. Qed.

Lemma pb_err_span {A} lo sp : inside lo hi sp -> pb (@Err A (span_start sp)).
Proof. intros H. unfold pb. pose proof (span_start_inside lo sp H) as S. destruct (span_start sp); exact S. Qed.

Lemma ident_inside i t lo : ident_tok i t -> toks_within lo hi [t] -> inside lo hi (ispan i).
Proof. intros Hi W. rewrite (ident_tok_ext _ _ Hi). apply ext_inside. exact W. Qed.

Lemma qual_inside ps ts lo : toks_qual ps ts -> toks_within lo hi ts -> Forall (fun i => inside lo hi (ispan i)) ps.
Proof.
  induction 1 as [i t Hi|i t d r tr Hi Hd Hr IH]; intros W.
  - constructor; [eapply ident_inside; eassumption|constructor].
  - destruct (within_single _ _ _ _ W) as [W1 W2]. destruct (within_single _ _ _ _ W2) as [_ W3].
    constructor; [eapply ident_inside; eassumption|apply IH; exact W3].
Qed.

Lemma pb_write_parts lo m : forall ps first, Forall (fun i => inside lo hi (ispan i)) ps -> pb (write_parts m first ps).
Proof.
  induction ps as [|p r IH]; intros first H; cbn [write_parts]; [exact I|]. inversion H; subst.
  destruct (ident_is_alias p && negb (mode_eqb m ModeJoin)); [eapply pb_err_span; eassumption|].
  apply pb_bind; [apply IH; assumption|intros; exact I].
Qed.

Lemma Forall_map_pb {A} (f : A -> res (list piece)) l : Forall (fun a => pb (f a)) l -> Forall pb (map f l).
Proof. induction 1; cbn [map]; constructor; assumption. Qed.

(** ** expressions *)
Theorem expr_eb lo :
  (forall e ts, toks_expr e ts -> toks_within lo hi ts -> eb e) /\
  (forall l ts, toks_list l ts -> toks_within lo hi ts -> Forall eb l) /\
  (forall l ts, toks_args l ts -> toks_within lo hi ts -> Forall eb l).
Proof.
  apply toks_expr_mutind.
  - (* names *)
    intros ps ts Hq W c w. pose proof (qual_inside _ _ _ Hq W) as HI.
    assert (HG : inside lo hi (gspan (g_expr (EQual ps)))).
    { rewrite (proj1 expr_span (EQual ps) ts (te_qual _ _ Hq) lo hi W). apply ext_inside. exact W. }
    cbn [wx c_mode c_scope]. apply pb_wrap.
    pose proof (pb_write_parts lo (c_mode c) ps true HI) as Hgen.
    destruct ps as [|p [|p2 r]].
    + destruct (mode_eqb (c_mode c) ModeLet); [eapply pb_err_span; exact HG|exact Hgen].
    + inversion HI; subst. destruct (negb (iquoted p)).
      * destruct (scope_get (c_scope c) (iname p)); [exact I|]. destruct (assoc_str builtin_idents (iname p)); [exact I|].
        destruct (mode_eqb (c_mode c) ModeLet); [eapply pb_err_span; eassumption|exact Hgen].
      * destruct (mode_eqb (c_mode c) ModeLet); [eapply pb_err_span; eassumption|exact Hgen].
    + destruct (mode_eqb (c_mode c) ModeLet); [eapply pb_err_span; exact HG|exact Hgen].
  - (* literal *) intros sp k v t _ _ _ _ _ c w. cbn [wx]. apply pb_wrap. destruct k; exact I.
  - (* unary *)
    intros sp op x t tx _ _ Hx IH W c w. destruct (within_single _ _ _ _ W) as [_ W2].
    cbn [wx]. apply pb_wrap. apply pb_bind; [apply (IH W2)|intros; exact I].
  - (* binary *)
    intros x sp op y tx t ty _ _ Hx IHx _ Hy IHy W c w.
    destruct (within_app _ _ _ _ W) as [Wx W2]. destruct (within_single _ _ _ _ W2) as [_ Wy].
    pose proof (IHx Wx) as Ex. pose proof (IHy Wy) as Ey.
    cbn [wx]. apply pb_wrap.
    destruct op; try (destruct (binop_sql _); [|exact I]);
      (apply pb_bind; [apply Ex|]; intros px; apply pb_bind; [apply Ey|]; intros py; try exact I).
    destruct (mode_eqb (c_mode c) ModeJoin && _); exact I.
  - (* in *)
    intros x isp lsp vs rsp tx ti tl tvs tr Hx IHx _ _ Hl IHl _ _ W c w.
    destruct (within_app _ _ _ _ W) as [Wx W2]. destruct (within_single _ _ _ _ W2) as [_ W3].
    destruct (within_single _ _ _ _ W3) as [_ W4]. destruct (within_app _ _ _ _ W4) as [Wl _].
    cbn [wx]. apply pb_wrap. apply pb_bind; [apply (IHx Wx)|]. intros px.
    apply pb_bind; [|intros; exact I]. apply pb_sequence. apply Forall_map_pb.
    eapply Forall_impl; [|exact (IHl Wl)]. intros a Ha. apply Ha.
  - (* parentheses *)
    intros lsp x rsp tl tx tr _ Hx IH _ W c w. destruct (within_single _ _ _ _ W) as [_ W2]. destruct (within_app _ _ _ _ W2) as [Wx _].
    rewrite wx_paren. apply (IH Wx).
  - (* call *)
    intros f lsp args rsp tf tl targs tr Hf _ Hl Ha IHa Hr W c w.
    destruct (within_single _ _ _ _ W) as [_ W2]. destruct (within_single _ _ _ _ W2) as [Wl W3].
    destruct (within_app _ _ _ _ W3) as [Wa _]. pose proof (IHa Wa) as Eargs.
    cbn [wx]. apply pb_wrap.
    destruct (known_func (iname f)) as [[wr np]|].
    + destruct (negb (arity_ok (writer_arity wr) (length args))).
      * (* arity error: at the end of the opening parenthesis *)
        destruct Hl as [_ Hsp]. rewrite <- Hsp. unfold tok_span. cbn [span_end_ span_start_].
        destruct (Nat.leb (tend tl) (span_start_ rsp)); [|exact I]. cbn [pb].
        inversion Wl as [|? ? ? ? H1 H2 H3 H4]; subst. lia.
      * apply pb_fill. clear Ha IHa Hr W W2 W3 Wa Wl Hf Hl. generalize 0 as i. induction Eargs as [|a r Ha' Hr' IHr]; intros i; [constructor|].
        constructor; [|apply IHr]. destruct (arg_use (writer_template wr) i) as [[|]|]; [apply Ha'|apply Ha'|exact I].
    + apply pb_bind; [|intros; exact I]. apply pb_sequence. apply Forall_map_pb.
      eapply Forall_impl; [|exact Eargs]. intros a Ha'. apply Ha'.
  - (* index *)
    intros x lsp i rsp tx tl ti tr Hx IHx _ Hi IHi _ W c w.
    destruct (within_app _ _ _ _ W) as [Wx W2]. destruct (within_single _ _ _ _ W2) as [_ W3]. destruct (within_app _ _ _ _ W3) as [Wi _].
    cbn [wx]. apply pb_wrap. apply pb_bind; [apply (IHx Wx)|]. intros px. apply pb_bind; [apply (IHi Wi)|intros; exact I].
  - (* list: one *) intros e te He IH W. constructor; [apply (IH W)|constructor].
  - (* list: more *)
    intros e te c0 r tr He IHe _ Hr IHr _ W. destruct (within_app _ _ _ _ W) as [We W2]. destruct (within_single _ _ _ _ W2) as [_ Wr].
    constructor; [apply (IHe We)|apply (IHr Wr)].
  - (* args: none *) intros _. constructor.
  - (* args: list *) intros args ts Hl IH _ W. apply (IH W).
  - (* args: trailing comma *) intros args ts c0 Hl IH _ _ W. destruct (within_app _ _ _ _ W) as [Wl _]. apply (IH Wl).
Qed.

(** ** operators *)
Definition cond_ok (e : expr) : Prop := eb e /\ (forall p, e = EQual [p] -> inside 0 hi (ispan p)).
Definition pc_ok (c : proj_col) : Prop := match pc_x c with Some x => eb x | None => eb (EQual [pc_name c]) end.

Fixpoint op_ok (o : operator) : Prop :=
  match o with
  | OCount _ _ | OAs _ _ _ | ORender _ _ _ _ _ _ _ => True
  | OWhere _ _ x => eb x
  | OSort _ _ ts => Forall (fun t => eb (st_x t)) ts
  | OTake _ _ n => eb n
  | OTop _ _ n _ c => eb n /\ eb (st_x c)
  | OProject _ _ cs => Forall pc_ok cs
  | OExtend _ _ cs => Forall (fun c => eb (ec_x c)) cs
  | OSummarize _ _ cs _ gs => Forall (fun c => eb (ec_x c)) cs /\ Forall (fun c => eb (ec_x c)) gs
  | OJoin _ _ _ _ fl _ _ rops _ _ conds =>
    (match fl with Some f => inside 0 hi (ispan f) | None => True end) /\
    (fix all (l : list operator) : Prop := match l with [] => True | o' :: r => op_ok o' /\ all r end) rops /\
    Forall cond_ok conds
  end.

Lemma all_Forall l : (fix all (l : list operator) : Prop := match l with [] => True | o' :: r => op_ok o' /\ all r end) l <-> Forall op_ok l.
Proof. induction l as [|o r IH]; split; intros H; [constructor|exact I| |]; [destruct H; constructor; tauto|inversion H; subst; split; tauto]. Qed.

Lemma sep_Forall {A} (P : A -> list token -> Prop) (Q : A -> Prop) :
  (forall a ta, P a ta -> toks_within 0 hi ta -> Q a) -> forall l ts, toks_sep P l ts -> toks_within 0 hi ts -> Forall Q l.
Proof.
  intros HP l ts H. induction H as [a ta Ha|a ta c r tr Ha Hc Hr IH]; intros W.
  - constructor; [eapply HP; eassumption|constructor].
  - destruct (within_app _ _ _ _ W) as [W1 W2]. destruct (within_single _ _ _ _ W2) as [_ W3].
    constructor; [eapply HP; eassumption|apply IH; exact W3].
Qed.

Lemma expr_eb0 e ts : toks_expr e ts -> toks_within 0 hi ts -> eb e.
Proof. apply (proj1 (expr_eb 0)). Qed.

Lemma sort_term_eb t ts : toks_sort_term t ts -> toks_within 0 hi ts -> eb (st_x t).
Proof. intros H W. destruct H. destruct (within_app _ _ _ _ W) as [Wx _]. cbn [st_x]. eapply expr_eb0; eassumption. Qed.

Lemma ext_col_eb c ts : toks_ext_col c ts -> toks_within 0 hi ts -> eb (ec_x c).
Proof.
  intros H W. destruct H; cbn [ec_x].
  - destruct (within_single _ _ _ _ W) as [_ W2]. destruct (within_single _ _ _ _ W2) as [_ W3]. eapply expr_eb0; eassumption.
  - eapply expr_eb0; eassumption.
Qed.

Lemma proj_col_ok c ts : toks_proj_col c ts -> toks_within 0 hi ts -> pc_ok c.
Proof.
  intros H W. destruct H; unfold pc_ok; cbn [pc_x pc_name].
  - eapply expr_eb0; [apply te_qual, tq_one; eassumption|exact W].
  - destruct (within_single _ _ _ _ W) as [_ W2]. destruct (within_single _ _ _ _ W2) as [_ W3]. eapply expr_eb0; eassumption.
Qed.

Lemma list_cond_ok : forall l ts, toks_list l ts -> toks_within 0 hi ts -> Forall cond_ok l.
Proof.
  assert (H1 : forall e te, toks_expr e te -> toks_within 0 hi te -> cond_ok e).
  { intros e te He W. split; [eapply expr_eb0; eassumption|]. intros p ->. inversion He as [ps ts Hq| | | | | | |]; subst.
    pose proof (qual_inside _ _ 0 Hq W) as HI. inversion HI; subst. assumption. }
  intros l ts H. induction H as [e te He|e te c r tr He Hc Hr IH Hne]; intros W.
  - constructor; [eapply H1; eassumption|constructor].
  - destruct (within_app _ _ _ _ W) as [W1 W2]. destruct (within_single _ _ _ _ W2) as [_ W3].
    constructor; [eapply H1; eassumption|apply IH; exact W3].
Qed.

Theorem op_ok_all :
  (forall o ts, toks_op o ts -> toks_within 0 hi ts -> op_ok o) /\
  (forall l ts, toks_ops l ts -> toks_within 0 hi ts -> Forall op_ok l).
Proof.
  apply toks_op_mutind.
  - intros; exact I.
  - intros psp ksp x p n tx _ _ Hx W. destruct (within_single _ _ _ _ W) as [_ W2]. destruct (within_single _ _ _ _ W2) as [_ W3].
    cbn [op_ok]. eapply expr_eb0; eassumption.
  - intros psp terms p n b tt _ _ _ Ht W. destruct (within_single _ _ _ _ W) as [_ W2]. destruct (within_single _ _ _ _ W2) as [_ W3].
    destruct (within_single _ _ _ _ W3) as [_ W4]. cbn [op_ok]. eapply (sep_Forall toks_sort_term); [|exact Ht|exact W4]. intros; eapply sort_term_eb; eassumption.
  - intros psp ksp x p n tx _ _ Hx W. destruct (within_single _ _ _ _ W) as [_ W2]. destruct (within_single _ _ _ _ W2) as [_ W3].
    cbn [op_ok]. eapply expr_eb0; eassumption.
  - intros psp ksp x bsp col p n tx b tc _ _ Hx _ Hc W. destruct (within_single _ _ _ _ W) as [_ W2]. destruct (within_single _ _ _ _ W2) as [_ W3].
    destruct (within_app _ _ _ _ W3) as [Wx W4]. destruct (within_single _ _ _ _ W4) as [_ Wc].
    cbn [op_ok]. split; [eapply expr_eb0; eassumption|eapply sort_term_eb; eassumption].
  - intros psp ksp cols p n tc _ _ Hc W. destruct (within_single _ _ _ _ W) as [_ W2]. destruct (within_single _ _ _ _ W2) as [_ W3].
    cbn [op_ok]. eapply (sep_Forall toks_proj_col); [|exact Hc|exact W3]. intros; eapply proj_col_ok; eassumption.
  - intros psp ksp cols p n tc _ _ Hc W. destruct (within_single _ _ _ _ W) as [_ W2]. destruct (within_single _ _ _ _ W2) as [_ W3].
    cbn [op_ok]. eapply (sep_Forall toks_ext_col); [|exact Hc|exact W3]. intros; eapply ext_col_eb; eassumption.
  - intros psp ksp cols bsp gs p n body _ _ Hs W. destruct (within_single _ _ _ _ W) as [_ W2]. destruct (within_single _ _ _ _ W2) as [_ W3].
    cbn [op_ok].
    assert (HE : forall l ts, toks_sep toks_ext_col l ts -> toks_within 0 hi ts -> Forall (fun c => eb (ec_x c)) l).
    { intros l ts Hl Wl. eapply (sep_Forall toks_ext_col); [|exact Hl|exact Wl]. intros; eapply ext_col_eb; eassumption. }
    destruct Hs as [cols tc Hc|bsp gs b tg _ Hg|cols bsp gs tc b tg Hc _ Hg|cols bsp gs tc c b tg Hc _ _ Hg].
    + split; [eapply HE; eassumption|constructor].
    + destruct (within_single _ _ _ _ W3) as [_ W4]. split; [constructor|eapply HE; eassumption].
    + destruct (within_app _ _ _ _ W3) as [Wc W4]. destruct (within_single _ _ _ _ W4) as [_ Wg]. split; eapply HE; eassumption.
    + destruct (within_app _ _ _ _ W3) as [Wc W4]. destruct (within_single _ _ _ _ W4) as [_ W5]. destruct (within_single _ _ _ _ W5) as [_ Wg].
      split; eapply HE; eassumption.
  - (* join *)
    intros psp ksp kindsp kasp flavor lsp rsrc rops rsp osp conds p n tk tl tsrc tro tr ton tc _ _ Hk _ _ Hops IH _ _ Hc _ W.
    destruct (within_single _ _ _ _ W) as [_ W2]. destruct (within_single _ _ _ _ W2) as [_ W3].
    destruct (within_app _ _ _ _ W3) as [Wk W4]. destruct (within_single _ _ _ _ W4) as [_ W5].
    destruct (within_app _ _ _ _ W5) as [Wsrc W6]. destruct (within_single _ _ _ _ Wsrc) as [_ Wro].
    destruct (within_single _ _ _ _ W6) as [_ W7]. destruct (within_single _ _ _ _ W7) as [_ Wc].
    cbn [op_ok]. split; [|split].
    + destruct Hk as [|ksp0 asp fl tk0 ta tf _ _ Hf _ _]; [exact I|].
      destruct (within_single _ _ _ _ Wk) as [_ Wk2]. destruct (within_single _ _ _ _ Wk2) as [_ Wk3]. eapply ident_inside; eassumption.
    + apply all_Forall. apply IH. exact Wro.
    + eapply list_cond_ok; eassumption.
  - intros; exact I.
  - intros; exact I.
  - intros _. constructor.
  - intros o to os tos _ IHo _ IHs W. destruct (within_app _ _ _ _ W) as [W1 W2]. constructor; [apply IHo; exact W1|apply IHs; exact W2].
Qed.

(** ** the rewritten join condition *)
Lemma Forall_filter {A} (P : A -> Prop) f l : Forall P l -> Forall P (filter f l).
Proof. induction 1 as [|x r Hx Hr IH]; cbn [filter]; [constructor|]. destruct (f x); [constructor; assumption|assumption]. Qed.

Lemma gspan_ident_inside lo i : inside lo hi (ispan i) -> inside lo hi (gspan (g_ident i)).
Proof. intros H. unfold g_ident. gs. apply union_spans_inside. constructor; [exact H|constructor]. Qed.

Lemma gspan_qual_inside lo ps : Forall (fun i => inside lo hi (ispan i)) ps -> inside lo hi (gspan (g_expr (EQual ps))).
Proof.
  intros H. cbn [g_expr]. gs. apply union_spans_inside. constructor; [|constructor].
  apply union_spans_inside. apply Forall_filter. rewrite map_map. induction H; cbn [map]; constructor; [apply gspan_ident_inside; assumption|assumption].
Qed.

Lemma eb_qual lo ps : Forall (fun i => inside lo hi (ispan i)) ps -> eb (EQual ps).
Proof.
  intros HI c w. pose proof (gspan_qual_inside lo ps HI) as HG.
  cbn [wx c_mode c_scope]. apply pb_wrap.
  pose proof (pb_write_parts lo (c_mode c) ps true HI) as Hgen.
  destruct ps as [|p [|p2 r]].
  - destruct (mode_eqb (c_mode c) ModeLet); [eapply pb_err_span; exact HG|exact Hgen].
  - inversion HI; subst. destruct (negb (iquoted p)).
    + destruct (scope_get (c_scope c) (iname p)); [exact I|]. destruct (assoc_str builtin_idents (iname p)); [exact I|].
      destruct (mode_eqb (c_mode c) ModeLet); [eapply pb_err_span; eassumption|exact Hgen].
    + destruct (mode_eqb (c_mode c) ModeLet); [eapply pb_err_span; eassumption|exact Hgen].
  - destruct (mode_eqb (c_mode c) ModeLet); [eapply pb_err_span; exact HG|exact Hgen].
Qed.

Lemma eb_bin x sp op y : eb x -> eb y -> eb (EBin x sp op y).
Proof.
  intros Ex Ey c w. cbn [wx]. apply pb_wrap.
  destruct op; try (destruct (binop_sql _); [|exact I]);
    (apply pb_bind; [apply Ex|]; intros px; apply pb_bind; [apply Ey|]; intros py; try exact I).
  destruct (mode_eqb (c_mode c) ModeJoin && _); exact I.
Qed.

Lemma rewrite_cond_eb sc e : cond_ok e -> eb (rewrite_simple_cond sc e).
Proof.
  intros [He Hp]. unfold rewrite_simple_cond. destruct (bare_name sc e) as [p|] eqn:Eb; [|exact He].
  assert (e = EQual [p]).
  { destruct e as [ps| | | | | | |]; try discriminate. destruct ps as [|q [|q2 r]]; try discriminate. cbn [bare_name] in Eb.
    destruct (iquoted q); [discriminate|]. destruct (assoc_str builtin_idents (iname q)); [discriminate|].
    destruct (scope_get sc (iname q)); [discriminate|]. injection Eb as <-. reflexivity. }
  pose proof (Hp p H) as Hin.
  apply eb_bin; apply (eb_qual 0); (constructor; [exact I|constructor; [exact Hin|constructor]]).
Qed.

Lemma build_join_cond_eb sc conds : Forall cond_ok conds -> eb (build_join_cond sc conds).
Proof.
  intros H. unfold build_join_cond. destruct H as [|c0 r H0 Hr].
  - apply (eb_qual 0). constructor; [exact I|constructor].
  - pose proof (rewrite_cond_eb sc c0 H0) as Eacc. revert Eacc. generalize (rewrite_simple_cond sc c0) as acc.
    induction Hr as [|y r Hy Hr IH]; intros acc Eacc; cbn [fold_left]; [exact Eacc|].
    apply IH. apply eb_bin; [exact Eacc|apply rewrite_cond_eb; exact Hy].
Qed.

(** ** splitQueries and the SELECT writer *)
Definition dpb (r : res (list subq)) : Prop := match r with Err (Some p) => p <= hi | _ => True end.

Definition subq_ok (s : subq) : Prop :=
  (match sq_op s with Some o => op_ok o | None => True end) /\
  (match sq_sort s with Some ts => Forall (fun t => eb (st_x t)) ts | None => True end) /\
  (match sq_take s with Some n => eb n | None => True end).

Lemma Forall_set_last' (P : subq -> Prop) dst f : Forall P dst -> (forall s, P s -> P (f s)) -> Forall P (set_last dst f).
Proof.
  intros H Hf. unfold set_last. destruct (rev dst) as [|s r] eqn:E; [constructor|].
  assert (Hr : Forall P (s :: r)) by (rewrite <- E; apply Forall_rev; exact H). inversion Hr; subst.
  apply Forall_rev. constructor; [apply Hf; assumption|assumption].
Qed.

Lemma Forall_snoc' {A} (P : A -> Prop) l x : Forall P l -> P x -> Forall P (l ++ [x]).
Proof. intros H Hx. apply Forall_app. split; [exact H|constructor; [exact Hx|constructor]]. Qed.

Lemma fold_res_inv (P : list subq -> Prop) (f : list subq -> operator -> res (list subq)) : forall ops dst,
  Forall (fun o => forall d, P d -> dpb (f d o) /\ forall d', f d o = Ok d' -> P d') ops -> P dst ->
  dpb (fold_res f ops dst) /\ forall dst', fold_res f ops dst = Ok dst' -> P dst'.
Proof.
  induction ops as [|o r IH]; intros dst Hall Hd; cbn [fold_res].
  - split; [exact I|]. intros dst' [= <-]. exact Hd.
  - inversion Hall as [|? ? Ho Hr]; subst. destruct (Ho dst Hd) as [Hp Hn].
    destruct (f dst o) as [d1|p] eqn:E; cbn [bind]; [apply IH; [exact Hr|apply Hn; reflexivity]|].
    split; [exact Hp|discriminate].
Qed.

Theorem split_op_pos sc : forall o, op_ok o -> forall ds src dst, Forall subq_ok dst ->
  dpb (split_op sc ds src dst o) /\ forall dst', split_op sc ds src dst o = Ok dst' -> Forall subq_ok dst'.
Proof.
  induction o using operator_ind'; intros Hok ds src dst Hd.
  - assert (Hfresh : subq_ok (chain_subquery dst ds src)) by (repeat split).
    destruct o; try discriminate H; cbn [split_op op_ok] in *; (split; [exact I|]); intros dst' [= <-];
      try (apply Forall_snoc'; [exact Hd|]; repeat split; cbn [sq_op sq_sort sq_take op_ok]; first [assumption|exact I|apply Hok]).
    + apply Forall_set_last'; [destruct (split_cond_sort _); [apply Forall_snoc'|]; assumption|].
      intros s (H1 & H2 & H3). repeat split; cbn [sq_op sq_sort sq_take]; assumption.
    + apply Forall_set_last'; [destruct (split_cond_take _); [apply Forall_snoc'|]; assumption|].
      intros s (H1 & H2 & H3). repeat split; cbn [sq_op sq_sort sq_take]; assumption.
    + destruct Hok as [Hn Hc]. apply Forall_set_last'; [destruct (split_cond_top _); [apply Forall_snoc'|]; assumption|].
      intros s (H1 & H2 & H3). repeat split; cbn [sq_op sq_sort sq_take]; [assumption|constructor; [exact Hc|constructor]|exact Hn].
  - cbn [op_ok] in Hok. destruct Hok as (Hfl & Hrops & Hconds). apply all_Forall in Hrops.
    rewrite split_join_unfold. cbv zeta.
    destruct (fold_res_inv (Forall subq_ok) (split_op sc (length dst) rsrc) rops dst) as [Hp Hn]; [|exact Hd|].
    { rewrite Forall_forall in H, Hrops |- *. intros o Ho d Hdd. apply (H o Ho (Hrops o Ho)). exact Hdd. }
    destruct (fold_res (split_op sc (length dst) rsrc) rops dst) as [d1|pe] eqn:Ef; cbn [bind]; [|split; [exact Hp|discriminate]].
    pose proof (Hn d1 eq_refl) as H1.
    match goal with |- dpb (bind ?r _) /\ _ => destruct r as [outer|po] eqn:Eo end; cbn [bind].
    2:{ split; [|discriminate]. destruct (str_eqb _ w_inner || _); [discriminate|]. destruct (str_eqb _ w_leftouter); [discriminate|].
        injection Eo as <-. destruct fl as [f|]; [|exact I]. cbn [dpb]. pose proof (span_start_inside 0 _ Hfl) as S. destruct (span_start (ispan f)); exact S. }
    pose proof (build_join_cond_eb sc conds Hconds (mkCtx sc ModeJoin) WPlain) as Hc. unfold wexpr.
    destruct (wx (mkCtx sc ModeJoin) WPlain (build_join_cond sc conds)) as [cond|pc]; cbn [bind]; [|split; [exact Hc|discriminate]].
    split; [exact I|]. intros dst' [= <-]. apply Forall_snoc'; [|repeat split].
    destruct (Nat.eqb (length d1) (length dst)); [apply Forall_snoc'; [exact H1|repeat split]|exact H1].
Qed.

Lemma pb_map_seq {A} (f : A -> res (list piece)) l : Forall (fun a => pb (f a)) l -> pb (sequence (map f l)).
Proof. intros H. apply pb_sequence, Forall_map_pb. exact H. Qed.

Theorem write_subq_pos source c s : subq_ok s -> pb (write_subq source c s).
Proof.
  intros (Ho & Hs & Ht). unfold write_subq.
  apply pb_bind.
  - destruct (sq_op s) as [o|]; [|exact I]. destruct o; cbn [op_ok] in Ho; try exact I.
    + apply pb_bind; [apply Ho|intros; exact I].
    + apply pb_bind; [|intros; exact I]. apply pb_map_seq. eapply Forall_impl; [|exact Ho]. intros col Hc. unfold pc_ok in Hc.
      apply pb_bind; [|intros; exact I]. destruct (pc_x col); apply Hc.
    + apply pb_bind; [|intros; exact I]. unfold write_ext_cols. apply pb_map_seq. eapply Forall_impl; [|exact Ho]. intros col Hc.
      apply pb_bind; [apply Hc|intros; exact I].
    + destruct Ho as [Hc Hg].
      assert (HE : forall l, Forall (fun c0 => eb (ec_x c0)) l -> pb (write_ext_cols source c l)).
      { intros l Hl. unfold write_ext_cols. apply pb_map_seq. eapply Forall_impl; [|exact Hl]. intros col Hcol. apply pb_bind; [apply Hcol|intros; exact I]. }
      apply pb_bind; [apply HE; exact Hg|]. intros gs. apply pb_bind; [apply HE; exact Hc|]. intros cs.
      apply pb_bind; [|intros; exact I]. destruct groupby as [|g0 gr]; [exact I|].
      apply pb_bind; [|intros; exact I]. apply pb_map_seq. eapply Forall_impl; [|exact Hg]. intros col Hcol. apply Hcol.
  - intros body. apply pb_bind.
    + destruct (sq_sort s) as [ts|]; [|exact I]. unfold write_sort. apply pb_bind; [|intros; exact I].
      apply pb_map_seq. eapply Forall_impl; [|exact Hs]. intros t0 Ht0. apply pb_bind; [apply Ht0|intros; exact I].
    + intros srt. apply pb_bind; [|intros; exact I]. destruct (sq_take s) as [n|]; [|exact I]. apply pb_bind; [apply Ht|intros; exact I].
Qed.

Lemma write_ctes_pos source c : forall l, Forall subq_ok l -> pb (write_ctes source c l).
Proof.
  induction 1 as [|s r Hs Hr IH]; cbn [write_ctes]; [exact I|].
  apply pb_bind; [apply write_subq_pos; exact Hs|]. intros b. apply pb_bind; [exact IH|intros; exact I].
Qed.

(** ** statements *)
Definition stmt_ok (s : stmt) : Prop :=
  match s with
  | SLet _ _ _ x => eb x
  | STab t => Forall op_ok (tops t) /\ inside 0 hi (gspan (g_tabular t))
  end.

Definition lpb (r : res (scope * option tabular)) : Prop := match r with Err (Some p) => p <= hi | _ => True end.

Lemma stmt_loop_pos : forall ss sc q, Forall stmt_ok ss ->
  lpb (stmt_loop sc q ss) /\ forall sc' t, stmt_loop sc q ss = Ok (sc', Some t) -> q = Some t \/ Forall op_ok (tops t).
Proof.
  induction ss as [|s r IH]; intros sc q H; cbn [stmt_loop].
  - split; [exact I|]. intros sc' t [= _ ->]. left. reflexivity.
  - inversion H as [|? ? Hs Hr]; subst. destruct s as [kw name asp x|t0].
    + destruct q as [t1|]; [apply IH; exact Hr|]. cbn [stmt_ok] in Hs. unfold woperand.
      pose proof (Hs (mkCtx sc ModeLet) WOperand) as Hp.
      destruct (wx (mkCtx sc ModeLet) WOperand x) as [v|p]; cbn [bind]; [|split; [exact Hp|discriminate]].
      destruct (IH ((iname name, v) :: sc) None Hr) as [H1 H2]. split; [exact H1|]. intros sc' t Ht. destruct (H2 sc' t Ht) as [?|?]; [discriminate|right; assumption].
    + cbn [stmt_ok] in Hs. destruct Hs as [Hops Hsp]. destruct q as [t1|].
      * split; [|discriminate]. cbn [lpb]. pose proof (span_start_inside 0 _ Hsp) as S. destruct (span_start (gspan (g_tabular t0))); exact S.
      * destruct (IH sc (Some t0) Hr) as [H1 H2]. split; [exact H1|]. intros sc' t Ht. destruct (H2 sc' t Ht) as [[= <-]|?]; right; assumption.
Qed.

Theorem compile_stmts_pos source params ss : Forall stmt_ok ss -> pb (compile_stmts source params ss).
Proof.
  intros H. unfold compile_stmts.
  destruct (stmt_loop_pos ss (map (fun kv : str * str => (fst kv, [PRaw (snd kv)])) params) None H) as [Hl Hq].
  destruct (stmt_loop _ None ss) as [[sc q]|p]; cbn [bind fst snd]; [|exact Hl].
  destruct q as [t|]; [|exact I].
  destruct (Hq sc t eq_refl) as [?|Hops]; [discriminate|].
  unfold split_queries.
  destruct (fold_res_inv (Forall subq_ok) (split_op sc (length (@nil subq)) (tsrc t)) (tops t) []) as [Hp Hn]; [|constructor|].
  { eapply Forall_impl; [|exact Hops]. intros o Ho d Hd. apply split_op_pos; assumption. }
  destruct (fold_res (split_op sc (length (@nil subq)) (tsrc t)) (tops t) []) as [d1|p]; cbn [bind]; [|exact Hp].
  pose proof (Hn d1 eq_refl) as H1.
  set (subs := if Nat.eqb (length d1) (length (@nil subq)) then d1 ++ [chain_subquery d1 (length (@nil subq)) (tsrc t)] else d1).
  assert (Hs : Forall subq_ok subs) by (unfold subs; destruct (Nat.eqb _ _); [apply Forall_snoc'; [exact H1|repeat split]|exact H1]).
  apply Forall_rev in Hs. destruct (rev subs) as [|q0 rc]; [exact I|]. inversion Hs; subst.
  apply pb_bind; [apply write_ctes_pos; apply Forall_rev; assumption|]. intros w.
  apply pb_bind; [apply write_subq_pos; assumption|intros; exact I].
Qed.
End Pos.

(** ** from the parsed source *)
Lemma prog_stmt_ok hi : forall ss ts, toks_prog ss ts -> toks_within 0 hi ts -> Forall (stmt_ok hi) ss.
Proof.
  assert (HS : forall s ts, toks_stmt s ts -> toks_within 0 hi ts -> stmt_ok hi s).
  { intros s ts H W. pose proof (stmt_span s ts H) as [_ Hsp]. destruct H as [ksp i asp x tk ti ta tx _ _ _ Hx|t ts [tsrc0 [tro (-> & Hi & Ho)]]].
    - destruct (within_single _ _ _ _ W) as [_ W2]. destruct (within_single _ _ _ _ W2) as [_ W3]. destruct (within_single _ _ _ _ W3) as [_ W4].
      cbn [stmt_ok]. eapply expr_eb0; eassumption.
    - cbn [stmt_ok]. split.
      + destruct (within_single _ _ _ _ W) as [_ W2]. apply (proj2 (op_ok_all hi) _ _ Ho W2).
      + change (g_tabular t) with (g_stmt (STab t)). rewrite (Hsp 0 hi W). apply ext_inside. exact W. }
  intros ss ts H. induction H as [|semi ss rest _ _ IH|s ts Hs|s ts semi ss rest Hs _ _ IH]; intros W.
  - constructor.
  - destruct (within_single _ _ _ _ W) as [_ W2]. apply IH. exact W2.
  - constructor; [eapply HS; eassumption|constructor].
  - destruct (within_app _ _ _ _ W) as [W1 W2]. destruct (within_single _ _ _ _ W2) as [_ W3].
    constructor; [eapply HS; eassumption|apply IH; exact W3].
Qed.

(** every position Compile attaches to an error is an offset of the source *)
Theorem compile_error_positions params s p : compile params s = CErr (Some p) -> p <= List.length s.
Proof.
  unfold compile. destruct (parse s) as [ss|e| |] eqn:P; try discriminate.
  destruct (parse_spans s ss P) as (Hprog & Hw & _).
  pose proof (compile_stmts_pos (List.length s) s params ss (prog_stmt_ok _ _ _ Hprog Hw)) as H.
  destruct (compile_stmts s params ss) as [ps|q]; [discriminate|]. intros [= ->]. exact H.
Qed.
