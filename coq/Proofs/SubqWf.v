(** * From the program to the subqueries: everything [split_queries] produces is well formed
    in the sense of ReadBackStmt.v, so that the whole compiled statement re-reads as the
    subqueries whose evaluation C02/C03 prove equal to the pipeline's meaning. *)
From PQL Require Import Spec.SqlRead Model.Trans Proofs.ExprInd Proofs.TableFacts Proofs.PipelineFacts Proofs.JoinFacts Proofs.ReadBack Proofs.ReadBackStmt.
From Coq Require Import Lia String.
Local Open Scope list_scope.
Local Open Scope nat_scope.
Local Notation length := List.length (only parsing).

(** operators whose expressions the parser could build *)
Fixpoint oper_wf (o : operator) : Prop :=
  match o with
  | OCount _ _ | OAs _ _ _ | ORender _ _ _ _ _ _ _ => True
  | OWhere _ _ p => wfr p
  | OSort _ _ terms => terms <> [] /\ Forall (fun t => wfr (st_x t)) terms
  | OTake _ _ n => wfr n
  | OTop _ _ n _ col => wfr n /\ wfr (st_x col)
  | OProject _ _ cols => cols <> [] /\ Forall (fun col => match pc_x col with Some x => wfr x | None => True end) cols
  | OExtend _ _ cols => Forall (fun col => wfr (ec_x col)) cols
  | OSummarize _ _ cols _ groupby => (cols <> [] \/ groupby <> []) /\ Forall (fun col => wfr (ec_x col)) cols /\ Forall (fun col => wfr (ec_x col)) groupby
  | OJoin _ _ _ _ _ _ _ rops _ _ conds =>
    Forall wfr conds /\ (fix all (l : list operator) : Prop := match l with [] => True | a :: r => oper_wf a /\ all r end) rops
  end.

Lemma oper_wf_all l : (fix all (l : list operator) : Prop := match l with [] => True | a :: r => oper_wf a /\ all r end) l <-> Forall oper_wf l.
Proof. induction l as [|a r IH]; [split; [constructor|auto]|]. split; [intros [H1 H2]; constructor; [exact H1|apply IH; exact H2]|intros H; inversion H; subst; split; [assumption|apply IH; assumption]]. Qed.

Section Wf.
Variable sc : scope.

Lemma wfr_rewrite_simple e : wfr e -> wfr (rewrite_simple_cond sc e).
Proof.
  intros H. unfold rewrite_simple_cond. destruct (bare_name sc e) as [p|]; [|exact H].
  cbn [wfr]. repeat split; try discriminate; reflexivity.
Qed.

Lemma wfr_join_cond conds : Forall wfr conds -> wfr (build_join_cond sc conds).
Proof.
  intros H. unfold build_join_cond. destruct conds as [|c0 r]; [cbn [wfr]; discriminate|].
  inversion H as [|c1 r1 Hc Hr]; subst.
  assert (Hgen : forall acc, wfr acc -> wfr (fold_left (fun x y => EBin x None KAnd (rewrite_simple_cond sc y)) r acc)).
  { clear Hc H. induction Hr as [|y r Hy Hr IH]; intros acc Hacc; [exact Hacc|]. cbn [fold_left]. apply IH.
    cbn [wfr]. repeat split; try discriminate; try reflexivity; [exact Hacc|apply wfr_rewrite_simple; exact Hy]. }
  apply Hgen. apply wfr_rewrite_simple. exact Hc.
Qed.

Lemma fresh_wf dst ds src : subq_wf sc (chain_subquery dst ds src).
Proof.
  unfold chain_subquery, subq_wf. cbn [sq_op sq_source sq_sort sq_take op_wf].
  repeat split; destruct (Nat.ltb ds (length dst)); [destruct (last_opt dst)|]; exact I.
Qed.

Lemma set_last_wf dst (f : subq -> subq) : Forall (subq_wf sc) dst -> (forall s, subq_wf sc s -> subq_wf sc (f s)) -> Forall (subq_wf sc) (set_last dst f).
Proof.
  intros H Hf. unfold set_last. destruct (rev dst) as [|s r] eqn:Er; [constructor|].
  assert (Hall : Forall (subq_wf sc) (s :: r)) by (rewrite <- Er; apply Forall_rev; exact H).
  inversion Hall; subst. apply Forall_rev. constructor; [apply Hf; assumption|assumption].
Qed.

Lemma snoc_wf dst s : Forall (subq_wf sc) dst -> subq_wf sc s -> Forall (subq_wf sc) (dst ++ [s]).
Proof. intros H Hs. apply Forall_app. split; [exact H|constructor; [exact Hs|constructor]]. Qed.

Lemma fold_res_wf (P : list subq -> Prop) (f : list subq -> operator -> res (list subq)) : forall ops dst dst',
  Forall (fun o => forall d d', P d -> f d o = Ok d' -> P d') ops -> P dst -> fold_res f ops dst = Ok dst' -> P dst'.
Proof.
  induction ops as [|o r IH]; intros dst dst' Hall Hd H; cbn [fold_res] in H; [injection H as <-; exact Hd|].
  inversion Hall; subst. destruct (f dst o) as [d1|] eqn:E; cbn [bind] in H; [|discriminate].
  eapply IH; [eassumption| |exact H]. eauto.
Qed.

Theorem split_op_wf : forall o, oper_wf o -> forall ds src dst dst',
  Forall (subq_wf sc) dst -> split_op sc ds src dst o = Ok dst' -> Forall (subq_wf sc) dst'.
Proof.
  induction o using operator_ind'; intros Hwf ds src dst dst' Hdst Hs.
  - (* not a join *)
    pose proof (fresh_wf dst ds src) as Hfresh.
    destruct o; try discriminate H; cbn [split_op oper_wf] in *.
    + (* count *) injection Hs as <-. apply snoc_wf; [exact Hdst|]. repeat split; try apply Hfresh; exact I.
    + (* where *) injection Hs as <-. apply snoc_wf; [exact Hdst|]. split; [exact Hwf|]. split; [apply Hfresh|split; exact I].
    + (* sort *) injection Hs as <-. destruct Hwf as [Hne Hw]. apply set_last_wf.
      * destruct (split_cond_sort _); [apply snoc_wf; assumption|exact Hdst].
      * intros s (H1 & H2 & _ & H4). repeat split; try assumption.
    + (* take *) injection Hs as <-. apply set_last_wf.
      * destruct (split_cond_take _); [apply snoc_wf; assumption|exact Hdst].
      * intros s (H1 & H2 & H3 & _). repeat split; try assumption.
    + (* top *) injection Hs as <-. destruct Hwf as [Hn Hc]. apply set_last_wf.
      * destruct (split_cond_top _); [apply snoc_wf; assumption|exact Hdst].
      * intros s (H1 & H2 & _ & _). split; [exact H1|]. split; [exact H2|]. split; [split; [discriminate|constructor; [exact Hc|constructor]]|exact Hn].
    + (* project *) injection Hs as <-. apply snoc_wf; [exact Hdst|]. split; [exact Hwf|]. split; [apply Hfresh|split; exact I].
    + (* extend *) injection Hs as <-. apply snoc_wf; [exact Hdst|]. split; [exact Hwf|]. split; [apply Hfresh|split; exact I].
    + (* summarize *) injection Hs as <-. apply snoc_wf; [exact Hdst|]. split; [exact Hwf|]. split; [apply Hfresh|split; exact I].
    + (* as *) injection Hs as <-. apply snoc_wf; [exact Hdst|]. split; [exact I|]. split; [apply Hfresh|split; exact I].
    + (* render *) injection Hs as <-. apply snoc_wf; [exact Hdst|]. split; [exact I|]. split; [apply Hfresh|split; exact I].
  - (* join *)
    cbn [oper_wf] in Hwf. destruct Hwf as [Hconds Hrops]. apply oper_wf_all in Hrops.
    rewrite split_join_unfold in Hs. cbv zeta in Hs.
    destruct (fold_res (split_op sc (length dst) rsrc) rops dst) as [dst1|] eqn:Ef; cbn [bind] in Hs; [|discriminate].
    assert (H1 : Forall (subq_wf sc) dst1).
    { eapply (fold_res_wf (Forall (subq_wf sc))); [|exact Hdst|exact Ef].
      apply Forall_forall. intros o Ho d d' Hd Hsd. rewrite Forall_forall in H, Hrops. eapply (H o Ho (Hrops o Ho)); eassumption. }
    set (dst1' := if Nat.eqb (length dst1) (length dst) then dst1 ++ [chain_subquery dst1 (length dst) rsrc] else dst1) in *.
    assert (H1' : Forall (subq_wf sc) dst1').
    { unfold dst1'. destruct (Nat.eqb _ _); [apply snoc_wf; [exact H1|apply fresh_wf]|exact H1]. }
    match type of Hs with bind ?r _ = _ => destruct r as [outer|] eqn:Eo end; cbn [bind] in Hs; [|discriminate].
    destruct (wexpr (mkCtx sc ModeJoin) (build_join_cond sc conds)) as [cond|] eqn:Ec; cbn [bind] in Hs; [|discriminate].
    injection Hs as <-. apply snoc_wf; [exact H1'|].
    split; [exact I|]. split; [|split; exact I]. cbn [sq_source src_wf]. split; [apply wfr_join_cond; exact Hconds|exact Ec].
Qed.

Theorem split_queries_wf t subs : Forall oper_wf (tops t) -> split_queries sc [] t = Ok subs -> Forall (subq_wf sc) subs.
Proof.
  intros Hw H. unfold split_queries in H. cbn [length] in H.
  destruct (fold_res (split_op sc 0 (tsrc t)) (tops t) []) as [dst1|] eqn:Ef; cbn [bind] in H; [|discriminate].
  injection H as <-.
  assert (H1 : Forall (subq_wf sc) dst1).
  { eapply (fold_res_wf (Forall (subq_wf sc))); [|constructor|exact Ef].
    apply Forall_forall. intros o Ho d d' Hd Hsd. rewrite Forall_forall in Hw. eapply split_op_wf; [apply Hw; exact Ho|exact Hd|exact Hsd]. }
  destruct (Nat.eqb (length dst1) 0); [apply snoc_wf; [exact H1|apply fresh_wf]|exact H1].
Qed.
End Wf.

(** ** the compiled program *)
Definition stmts_wf (ss : list stmt) : Prop :=
  Forall (fun s => match s with SLet _ _ _ x => wfr x | STab t => Forall oper_wf (tops t) end) ss.

Lemma stmts_wf_lets ss : stmts_wf ss -> lets_wfr ss.
Proof. intros H. eapply Forall_impl; [|exact H]. intros [? ? ? x|t] Hs; [exact Hs|exact I]. Qed.

Lemma stmt_loop_query : forall ss sc q sc' t, stmt_loop sc q ss = Ok (sc', Some t) -> q = Some t \/ In (STab t) ss.
Proof.
  induction ss as [|s r IH]; intros sc q sc' t H; cbn [stmt_loop] in H.
  - injection H as _ ->. left. reflexivity.
  - destruct s as [kw name asp x|t0].
    + destruct q as [t1|].
      * destruct (IH _ _ _ _ H) as [Hq|Hin]; [left; exact Hq|right; right; exact Hin].
      * apply bind_ok in H as (v & _ & H). destruct (IH _ _ _ _ H) as [Hq|Hin]; [discriminate|right; right; exact Hin].
    + destruct q as [t1|]; [discriminate|]. destruct (IH _ _ _ _ H) as [Hq|Hin]; [injection Hq as <-; right; left; reflexivity|right; right; exact Hin].
Qed.

(** What Compile prints for a program without parameters re-reads, token for token, as the
    subqueries [split_queries] made of its query -- the objects whose evaluation C02_pipeline and
    C03_joins prove equal to the pipeline's left-to-right meaning -- with every expression read
    under the dialect's precedence as its intended tree and every let-bound name replaced by the
    tree of its value. *)
Theorem compiled_program_rereads source ss ps : stmts_wf ss -> compile_stmts source [] ss = Ok ps ->
  exists sc t subs q rctes,
    stmt_loop [] None ss = Ok (sc, Some t) /\ split_queries sc [] t = Ok subs /\ rev subs = q :: rctes /\
    let '(names, vals) := let_vals [] (fun _ => XWord []) false ss in
    exists ts, ptoks ps = Some ts /\
      Conv (fun fx => read_stmt fx ts)
           (map (fun s => (sq_name s, den_select source sc vals s)) (rev rctes), den_select source sc vals q).
Proof.
  intros Hwf H. unfold compile_stmts in H. cbn [map] in H.
  destruct (stmt_loop [] None ss) as [[sc [t|]]|] eqn:El; cbn [bind fst snd] in H; try discriminate.
  destruct (split_queries sc [] t) as [subs|] eqn:Es; cbn [bind] in H; [|discriminate].
  destruct (rev subs) as [|q rctes] eqn:Er; [discriminate|].
  apply bind_ok in H as (w & Hw & H). apply bind_ok in H as (body & Hbody & [= <-]).
  exists sc, t, subs, q, rctes. repeat split; try reflexivity; try assumption.
  pose proof (let_chain_scope ss [] [] (fun _ => XWord []) None sc (Some t) (stmts_wf_lets _ Hwf) ltac:(intros n ps H0; discriminate) ltac:(intros n; reflexivity) El) as Hsc.
  cbn iota in Hsc. destruct (let_vals [] (fun _ => XWord []) false ss) as [names vals]. destruct Hsc as [Hinv _].
  assert (Hops : Forall oper_wf (tops t)).
  { destruct (stmt_loop_query _ _ _ _ _ El) as [Hq|Hin]; [discriminate|]. unfold stmts_wf in Hwf. rewrite Forall_forall in Hwf. exact (Hwf _ Hin). }
  pose proof (split_queries_wf sc t subs Hops Es) as Hsubs.
  assert (Hall : Forall (subq_wf sc) (q :: rctes)) by (rewrite <- Er; apply Forall_rev; exact Hsubs).
  inversion Hall as [|q0 r0 Hq Hr]; subst.
  apply (statement_reads source sc vals Hinv (rev rctes) q w body); [apply Forall_rev; exact Hr|exact Hq|exact Hw|exact Hbody].
Qed.
