(** * C11: the explicit-stack machine of Walk, driven by the generated table, performs the
    recursive pre-order traversal: each node once, parents before children, a [false] answer
    skipping exactly that node's descendants; it never panics and never visits nil on trees whose
    kinds all have a case and whose pushed fields are present. *)
From PQL Require Import Model.Walk.
From Coq Require Import Lia.
Local Open Scope list_scope.
Local Open Scope nat_scope.

(** ** the children of a node, as the table pushes them: in the order they will be popped *)
Definition pushed (n : gnode) : list witem :=
  match n with
  | GN k fs => match walk_children k with
               | Some pushes => rev (flat_map (push_items k fs) pushes)
               | None => []
               end
  end.

Definition item_node (i : witem) : option gnode := match i with WNode c => Some c | WNil _ => None end.

(** a tree the machine can walk: every kind has a case and everything pushed is a present node *)
Inductive walkable : gnode -> Prop :=
| walkable_intro k fs pushes kids :
    walk_children k = Some pushes ->
    rev (flat_map (push_items k fs) pushes) = map WNode kids ->
    Forall walkable kids ->
    walkable (GN k fs).

Definition kids_of (n : gnode) : list gnode :=
  flat_map (fun i => match i with WNode c => [c] | WNil _ => [] end) (pushed n).

Lemma kids_of_map l : flat_map (fun i => match i with WNode c => [c] | WNil _ => [] end) (map WNode l) = l.
Proof. induction l as [|a r IH]; cbn; [reflexivity|]. rewrite IH. reflexivity. Qed.

Lemma walkable_kids n : walkable n -> pushed n = map WNode (kids_of n) /\ Forall walkable (kids_of n).
Proof.
  intros [k fs pushes kids Hc Hk Hw]. unfold kids_of, pushed. rewrite Hc, Hk, kids_of_map. split; [reflexivity|exact Hw].
Qed.

(** ** the recursive pre-order traversal (specification) *)
(** [pre visitor calls forest visits calls']: visiting the forest left to right, with [calls]
    visitor calls made before, produces [visits] and ends with [calls'] calls made. *)
Inductive pre (visitor : nat -> gnode -> bool) : nat -> list gnode -> list visit -> nat -> Prop :=
| pre_nil c : pre visitor c [] [] c
| pre_cons c n rest v1 c1 v2 c2 :
    pre visitor (S c) (if visitor c n then kids_of n else []) v1 c1 ->
    pre visitor c1 rest v2 c2 ->
    pre visitor c (n :: rest) (VNode n :: v1 ++ v2) c2.

(** ** the machine performs it *)
Lemma walk_loop_step fuel visitor calls n rest acc : walkable n ->
  walk_loop (S fuel) visitor calls (WNode n :: rest) acc =
  walk_loop fuel visitor (S calls) (map WNode (if visitor calls n then kids_of n else []) ++ rest) (VNode n :: acc).
Proof.
  intros Hw. destruct (walkable_kids n Hw) as (Hp & _).
  destruct Hw as [k fs pushes kids Hc Hk Hf]. cbn [walk_loop]. rewrite Hc.
  unfold pushed in Hp. rewrite Hc in Hp.
  destruct (visitor calls (GN k fs)); [rewrite Hp; reflexivity|reflexivity].
Qed.

Theorem machine_runs visitor c forest vs c' : pre visitor c forest vs c' -> Forall walkable forest ->
  (forall n, walkable n -> Forall walkable (kids_of n)) ->
  forall fuel stack acc,
    walk_loop (length vs + fuel) visitor c (map WNode forest ++ stack) acc = walk_loop fuel visitor c' stack (rev vs ++ acc).
Proof.
  intros Hpre. induction Hpre as [c|c n rest v1 c1 v2 c2 H1 IH1 H2 IH2]; intros Hw Hk fuel stack acc.
  - reflexivity.
  - inversion Hw as [|? ? Hn Hrest]; subst.
    cbn [length map app Nat.add]. rewrite walk_loop_step by exact Hn.
    rewrite app_length, <- Nat.add_assoc.
    rewrite IH1; [|destruct (visitor c n); [apply Hk; exact Hn|constructor]|exact Hk].
    rewrite IH2 by assumption. f_equal.
    cbn [rev]. rewrite rev_app_distr, <- !app_assoc. reflexivity.
Qed.

(** ** sizes: what is pushed is strictly inside the node *)
Definition isize (i : witem) : nat := match i with WNode c => gsize c | WNil _ => 0 end.

Lemma assoc_f_in (fs : list (fname * gfield)) f v : assoc_f fs f = Some v -> In v (map snd fs).
Proof.
  induction fs as [|[g w] r IH]; cbn [assoc_f]; [discriminate|].
  destruct (fname_eqb g f); [intros [= ->]; left; reflexivity|intros H; right; apply IH; exact H].
Qed.

Lemma list_sum_in x l : In x l -> x <= list_sum l.
Proof. unfold list_sum. induction l as [|y r IH]; cbn [fold_right In]; [intros []|]. intros [->|H]; [lia|specialize (IH H); lia]. Qed.

Lemma fields_size (fs : list (fname * gfield)) v : In v (map snd fs) -> fsize v <= list_sum (map (fun fv => match fv with (_, v) => fsize v end) fs).
Proof.
  intros H. apply in_map_iff in H as ([f w] & <- & Hin). cbn [snd].
  apply list_sum_in. apply in_map_iff. exists (f, w). split; [reflexivity|exact Hin].
Qed.

Lemma gsize_unfold k fs : gsize (GN k fs) = S (list_sum (map (fun fv => match fv with (_, v) => fsize v end) fs)).
Proof. reflexivity. Qed.

Lemma push_field_size k fs f g i : In i (push_items_field k fs f g) -> isize i < gsize (GN k fs).
Proof.
  unfold push_items_field. destruct (assoc_f fs f) as [v|] eqn:E; [|intros []].
  pose proof (fields_size fs v (assoc_f_in fs f v E)) as Hs. rewrite gsize_unfold.
  destruct v as [s|s|b|kd|o|ns]; try (intros []).
  destruct o as [c|].
  - intros [<-|[]]. cbn [isize fsize] in *. lia.
  - destruct g; [intros []|]. intros [<-|[]]. unfold nil_item. destruct (field_type _ _) as [[]|]; cbn [isize]; lia.
Qed.

Lemma slice_size k fs f cs c : assoc_f fs f = Some (GSlice cs) -> In c cs -> gsize c < gsize (GN k fs).
Proof.
  intros E Hc. pose proof (fields_size fs _ (assoc_f_in fs f _ E)) as Hs. rewrite gsize_unfold.
  cbn [fsize] in Hs. assert (gsize c <= list_sum (map gsize cs)) by (apply list_sum_in, in_map; exact Hc). lia.
Qed.

Lemma push_items_size k fs p i : In i (push_items k fs p) -> isize i < gsize (GN k fs).
Proof.
  destruct p as [f g|f|f|f subs]; cbn [push_items].
  - apply push_field_size.
  - destruct (assoc_f fs f) as [[| | | | |cs]|] eqn:E; try (intros []).
    intros Hi. apply in_map_iff in Hi as (c & <- & Hc). apply in_rev in Hc. cbn [isize]. eapply slice_size; eassumption.
  - destruct (assoc_f fs f) as [[| | | | |cs]|] eqn:E; try (intros []).
    intros Hi. apply in_map_iff in Hi as (c & <- & Hc). cbn [isize]. eapply slice_size; eassumption.
  - destruct (assoc_f fs f) as [[| | | | |cs]|] eqn:E; try (intros []).
    intros Hi. apply in_flat_map in Hi as (c & Hc & Hi). apply in_rev in Hc.
    pose proof (slice_size k fs f cs c E Hc) as Hlt. destruct c as [ck cfs].
    apply in_flat_map in Hi as (sg & _ & Hi). apply push_field_size in Hi. lia.
Qed.

Lemma kids_smaller n c : In c (kids_of n) -> gsize c < gsize n.
Proof.
  unfold kids_of, pushed. destruct n as [k fs]. destruct (walk_children k) as [pushes|]; [|intros []].
  intros H. apply in_flat_map in H as (i & Hi & Hc). destruct i as [c'|]; [|destruct Hc].
  destruct Hc as [<-|[]]. apply in_rev in Hi. apply in_flat_map in Hi as (p & _ & Hi).
  apply (push_items_size k fs p (WNode c')). exact Hi.
Qed.

(** ** every walkable forest has its traversal *)
Lemma pre_exists visitor : forall H forest, (forall n, In n forest -> gsize n <= H) -> Forall walkable forest ->
  forall c, exists vs c', pre visitor c forest vs c'.
Proof.
  induction H as [|H IH]; intros forest Hs Hw.
  - destruct forest as [|n r]; [intros c; eexists; eexists; constructor|].
    specialize (Hs n (or_introl eq_refl)). destruct n; cbn in Hs; lia.
  - induction forest as [|n rest IHf]; intros c; [eexists; eexists; constructor|].
    inversion Hw as [|? ? Hn Hrest]; subst.
    destruct (walkable_kids n Hn) as (_ & Hk).
    assert (Hkids : exists v1 c1, pre visitor (S c) (if visitor c n then kids_of n else []) v1 c1).
    { destruct (visitor c n); [|eexists; eexists; constructor].
      apply IH; [|exact Hk]. intros m Hm. pose proof (kids_smaller n m Hm). specialize (Hs n (or_introl eq_refl)). lia. }
    destruct Hkids as (v1 & c1 & H1).
    destruct (IHf (fun m Hm => Hs m (or_intror Hm)) Hrest c1) as (v2 & c2 & H2).
    eexists; eexists. econstructor; eassumption.
Qed.

Lemma walkable_kids_all n : walkable n -> Forall walkable (kids_of n).
Proof. intros H. apply (walkable_kids n H). Qed.

(** The theorem: on a walkable tree, for every visitor, the machine returns normally (no panic, no
    nil visit) with exactly the visits of the recursive pre-order traversal, given enough fuel. *)
Theorem walk_is_preorder visitor n : walkable n ->
  exists vs c', pre visitor 0 [n] vs c' /\
    forall fuel, length vs < fuel -> walk_loop fuel visitor 0 [WNode n] [] = WOk vs.
Proof.
  intros Hw.
  destruct (pre_exists visitor (gsize n) [n] (fun m Hm => match Hm with or_introl E => eq_ind _ (fun x => gsize x <= gsize n) (le_n _) _ E | or_intror F => match F with end end)
                       (Forall_cons n Hw (Forall_nil _)) 0) as (vs & c' & Hpre).
  exists vs, c'. split; [exact Hpre|]. intros fuel Hf.
  replace fuel with (length vs + (fuel - length vs)) by lia.
  pose proof (machine_runs visitor 0 [n] vs c' Hpre (Forall_cons n Hw (Forall_nil _)) walkable_kids_all (fuel - length vs) [] []) as Hm.
  cbn [map app] in Hm. rewrite Hm. destruct (fuel - length vs) as [|f] eqn:E; [lia|].
  cbn [walk_loop]. rewrite app_nil_r, rev_involutive. reflexivity.
Qed.

(** properties of the pre-order traversal that the property text names *)
(** never a nil visit *)
Lemma pre_no_nil visitor c forest vs c' : pre visitor c forest vs c' -> ~ In VNil vs.
Proof.
  induction 1 as [c|c n rest v1 c1 v2 c2 H1 IH1 H2 IH2]; [intros []|].
  intros [H|H]; [discriminate|]. apply in_app_or in H as [H|H]; auto.
Qed.

(** a node for which the visitor answers false contributes itself and nothing below it *)
Lemma pre_prune visitor c n rest vs c' : visitor c n = false -> pre visitor c (n :: rest) vs c' ->
  exists v2, vs = VNode n :: v2 /\ pre visitor (S c) rest v2 c'.
Proof.
  intros Hv H. inversion H as [|? ? ? v1 c1 v2 c2 H1 H2]; subst. rewrite Hv in H1.
  inversion H1; subst. exists v2. split; [reflexivity|exact H2].
Qed.

(** a node for which the visitor answers true is followed by the traversal of its children, then its right siblings *)
Lemma pre_descend visitor c n rest vs c' : visitor c n = true -> pre visitor c (n :: rest) vs c' ->
  exists v1 c1 v2, vs = VNode n :: v1 ++ v2 /\ pre visitor (S c) (kids_of n) v1 c1 /\ pre visitor c1 rest v2 c'.
Proof.
  intros Hv H. inversion H as [|? ? ? v1 c1 v2 c2 H1 H2]; subst. rewrite Hv in H1.
  exists v1, c1, v2. auto.
Qed.

(** the visitor is called once per visit *)
Lemma pre_calls visitor c forest vs c' : pre visitor c forest vs c' -> c' = c + length vs.
Proof.
  induction 1 as [c|c n rest v1 c1 v2 c2 H1 IH1 H2 IH2]; [cbn; lia|].
  cbn [length]. rewrite app_length. lia.
Qed.
