(** * Values of string and number literals (C04, C09).
    - a PQL string literal written with the escapes [\\], [\q], [\n] lexes back to exactly the
      bytes it was written from, whatever they are (round trip), and each documented escape
      decodes as documented;
    - the normalised spelling of a number token denotes the same number as the source text
      (mantissa, number of fraction digits and exponent are preserved; a hexadecimal literal
      denotes its value). *)
From PQL Require Import Model.Lexer Proofs.LexerFacts Proofs.LexSpec.
From Coq Require Import Lia ZifyN ZifyNat ZifyBool QArith.
Local Open Scope nat_scope.
Local Open Scope list_scope.
Local Notation length := List.length (only parsing).

(** ** strings *)

(** the PQL spelling of a value inside quotes [q]: the quote and the backslash are escaped with a
    backslash, a newline is written [\n]; every other byte stands for itself *)
Fixpoint str_escape (q : N) (s : str) : str :=
  match s with
  | [] => []
  | c :: r =>
    if ((c =? q) || (c =? 92))%N then 92%N :: c :: str_escape q r
    else if (c =? 10)%N then 92%N :: 110%N :: str_escape q r
    else c :: str_escape q r
  end.
Definition str_quote (q : N) (s : str) : str := q :: str_escape q s ++ [q].

Definition hi (c : N) : bool := (128 <=? c)%N.

(** a rune that starts with a byte >= 128 has a value >= 128 and consists of such bytes only *)
Lemma decode_hi c t : (128 <= c)%N ->
  let '(c', w) := decode (c :: t) in
  (128 <= c')%N /\ 1 <= w /\ w <= length (c :: t) /\ forallb hi (firstn w (c :: t)) = true.
Proof.
  intros Hc. unfold decode, rune_error, is_cont, in_range, hi.
  destruct (c <? 128)%N eqn:E; [lia|].
  repeat match goal with
  | |- context [if ?b then _ else _] => destruct b eqn:?
  | |- context [match ?l with [] => _ | _ :: _ => _ end] => is_var l; destruct l
  end; cbn [firstn forallb length]; repeat split; try lia;
  rewrite ?andb_true_iff; repeat split; lia.
Qed.

(** a prefix of bytes >= 128 of an escaped text is a prefix of the original *)
Lemma esc_hi_prefix q (Hq : (q < 128)%N) : forall k s rest,
  forallb hi (firstn k (str_escape q s ++ q :: rest)) = true -> k <= length (str_escape q s ++ q :: rest) ->
  k <= length s /\ firstn k (str_escape q s ++ q :: rest) = firstn k s /\
  skipn k (str_escape q s ++ q :: rest) = str_escape q (skipn k s) ++ q :: rest.
Proof.
  induction k as [|k IH]; intros s rest H Hl; [cbn; repeat split; lia|].
  destruct s as [|c r].
  - cbn [str_escape app firstn forallb] in H. unfold hi in H at 1. apply andb_prop in H as [H _]. lia.
  - cbn [str_escape] in *.
    destruct ((c =? q) || (c =? 92))%N eqn:E1.
    { cbn [app firstn forallb] in H. unfold hi in H at 1. apply andb_prop in H as [H _]. lia. }
    destruct (c =? 10)%N eqn:E2.
    { cbn [app firstn forallb] in H. unfold hi in H at 1. apply andb_prop in H as [H _]. lia. }
    cbn [app firstn forallb length skipn] in *. apply andb_prop in H as [_ H].
    destruct (IH r rest H ltac:(lia)) as (A & B & C). repeat split; [lia| |exact C]. f_equal. exact B.
Qed.

Lemma str_escape_hi q s : forallb hi s = true -> (q < 128)%N -> str_escape q s = s.
Proof.
  intros H Hq. induction s as [|c r IH]; [reflexivity|]. cbn [forallb] in H. apply andb_prop in H as [Hc Hr].
  unfold hi in Hc. cbn [str_escape].
  replace ((c =? q) || (c =? 92))%N with false by lia. replace (c =? 10)%N with false by lia. f_equal. auto.
Qed.

Lemma firstn_skipn_len {A} k (l : list A) : k <= length l -> length (firstn k l) = k.
Proof. intros. rewrite firstn_length. lia. Qed.

(** the body scanner reads an escaped value back, whatever follows the closing quote *)
Lemma string_body_escape q (Hq' : (q = 34 \/ q = 39)%N) :
  forall n s, length s <= n -> forall rest f esc, length (str_escape q s ++ q :: rest) < f ->
  string_body f q esc (str_escape q s ++ q :: rest) = (Some s, S (length (str_escape q s))).
Proof.
  assert (Hq : (q < 128)%N) by lia.
  induction n as [|n IH]; intros s Hn rest f esc Hf.
  { destruct s; [|cbn [length] in Hn; lia]. cbn [str_escape app length] in *.
    destruct f as [|f]; [lia|]. cbn [string_body]. rewrite ascii_decode by lia. rewrite N.eqb_refl. reflexivity. }
  destruct s as [|c r].
  { cbn [str_escape app length] in *.
    destruct f as [|f]; [lia|]. cbn [string_body]. rewrite ascii_decode by lia. rewrite N.eqb_refl. reflexivity. }
  cbn [length] in Hn. cbn [str_escape] in *.
  destruct ((c =? q) || (c =? 92))%N eqn:E1.
  - (* escaped quote or backslash *)
    destruct f as [|f]; [cbn [length] in Hf; lia|]. cbn [app string_body].
    rewrite ascii_decode by lia.
    replace (92 =? q)%N with false by lia. cbn [N.eqb Pos.eqb]. rewrite ?N.eqb_refl.
    cbn [skipn]. assert (Hc : (c < 128)%N) by lia.
    rewrite (ascii_decode c _ Hc).
    replace (c =? 10)%N with false by lia. replace (c =? 110)%N with false by lia. replace (c =? 116)%N with false by lia.
    cbn [firstn skipn]. rewrite (IH r ltac:(lia) rest f true) by (cbn [length app] in Hf; lia).
    cbn [option_map app length]. f_equal; lia.
  - destruct (c =? 10)%N eqn:E2.
    + (* newline written \n *)
      destruct f as [|f]; [cbn [length] in Hf; lia|]. cbn [app string_body].
      rewrite ascii_decode by lia.
      replace (92 =? q)%N with false by lia. cbn [N.eqb Pos.eqb]. rewrite ?N.eqb_refl.
      cbn [skipn]. rewrite ascii_decode by lia. cbn [N.eqb Pos.eqb].
      cbn [firstn skipn]. rewrite (IH r ltac:(lia) rest f true) by (cbn [length app] in Hf; lia).
      cbn [option_map app length]. apply N.eqb_eq in E2. subst c. f_equal; lia.
    + destruct (c <? 128)%N eqn:E3.
      * (* an ordinary ASCII byte *)
        destruct f as [|f]; [cbn [length] in Hf; lia|]. cbn [app string_body].
        rewrite ascii_decode by lia.
        replace (c =? q)%N with false by lia. rewrite E2. replace (c =? 92)%N with false by lia.
        cbn [firstn skipn]. rewrite (IH r ltac:(lia) rest f esc) by (cbn [length app] in Hf; lia).
        cbn [option_map app length]. reflexivity.
      * (* a rune of bytes >= 128: copied as it is *)
        destruct f as [|f]; [cbn [length] in Hf; lia|].
        pose proof (decode_hi c (str_escape q r ++ q :: rest) ltac:(lia)) as D.
        cbn [app string_body]. destruct (decode (c :: str_escape q r ++ q :: rest)) as [c' w] eqn:ED.
        destruct D as (D1 & D2 & D3 & D4).
        replace (c' =? q)%N with false by lia. replace (c' =? 10)%N with false by lia. replace (c' =? 92)%N with false by lia.
        destruct w as [|w]; [lia|]. cbn [firstn skipn forallb length] in *. apply andb_prop in D4 as [_ D4].
        destruct (esc_hi_prefix q Hq w r rest D4 ltac:(lia)) as (A & B & C).
        rewrite C, B.
        rewrite (IH (skipn w r) ltac:(rewrite skipn_length; lia) rest f esc)
          by (rewrite <- C, skipn_length; cbn [length app] in Hf; lia).
        cbn [option_map app length]. f_equal.
        { f_equal. f_equal. apply firstn_skipn. }
        assert (HL : length (str_escape q r ++ q :: rest) = w + length (str_escape q (skipn w r) ++ q :: rest)).
        { rewrite <- C, skipn_length. lia. }
        rewrite !app_length in HL. cbn [length] in HL. lia.
Qed.

Lemma lex1_quote q r : (q = 34 \/ q = 39)%N -> lex1 (q :: r) = lex_string (q :: r).
Proof. intros [-> | ->]; unfold lex1; rewrite ascii_decode by lia; reflexivity. Qed.

(** round trip: the quoted spelling of any byte string lexes to one string token whose value is
    that byte string, whatever follows *)
Theorem string_roundtrip q s rest : (q = 34 \/ q = 39)%N ->
  lex1 (str_quote q s ++ rest) = Tok KString s (length (str_quote q s)).
Proof.
  intros Hq. unfold str_quote. cbn [app]. rewrite lex1_quote by exact Hq. unfold lex_string.
  rewrite <- app_assoc. cbn [app].
  rewrite (string_body_escape q Hq (length s) s (le_n _)) by (cbn [length]; lia).
  cbn [length]. rewrite app_length. cbn [length]. f_equal. lia.
Qed.

(** the escapes: [\n] is a newline, [\t] a tab, a backslash before any other ASCII character
    (itself, either quote, ...) stands for that character *)
Theorem string_escape_table q c rest : (q = 34 \/ q = 39)%N -> (c < 128)%N -> c <> 10%N ->
  lex1 (q :: 92%N :: c :: q :: rest) =
  Tok KString [if (c =? 110)%N then 10%N else if (c =? 116)%N then 9%N else c] 4.
Proof.
  intros Hq Hc Hn. rewrite lex1_quote by exact Hq. unfold lex_string. cbn [length string_body].
  rewrite (ascii_decode 92) by lia. replace (92 =? q)%N with false by lia. cbn [N.eqb Pos.eqb skipn].
  rewrite (ascii_decode c) by lia. replace (c =? 10)%N with false by lia. cbn [firstn skipn].
  rewrite (ascii_decode q) by lia. rewrite N.eqb_refl. cbn [option_map].
  destruct (c =? 110)%N; [reflexivity|]. destruct (c =? 116)%N; reflexivity.
Qed.

(** an unescaped newline or the end of the text before the closing quote gives an error token *)
Theorem string_unterminated q s : (q = 34 \/ q = 39)%N ->
  forallb (fun c => (c <? 128)%N && negb (c =? q)%N && negb (c =? 92)%N && negb (c =? 10)%N) s = true ->
  (exists n, lex1 (q :: s) = Tok KError [] n) /\ (forall rest, exists n, lex1 (q :: s ++ 10%N :: rest) = Tok KError [] n).
Proof.
  intros Hq H.
  assert (G : forall tail, (tail = [] \/ exists rest, tail = 10%N :: rest) -> forall f esc, length (s ++ tail) < f ->
          exists n, string_body f q esc (s ++ tail) = (None, n)).
  { intros tail Ht. induction s as [|c r IH]; intros f esc Hf.
    - cbn [app] in *. destruct f as [|f]; [lia|]. destruct Ht as [-> | [rest ->]]; [eexists; reflexivity|].
      cbn [string_body]. rewrite ascii_decode by lia. replace (10 =? q)%N with false by lia. cbn [N.eqb Pos.eqb]. eexists; reflexivity.
    - cbn [forallb] in H. apply andb_prop in H as [Hc Hr]. destruct f as [|f]; [cbn [length app] in Hf; lia|].
      cbn [app string_body]. rewrite ascii_decode by lia.
      replace (c =? q)%N with false by lia. replace (c =? 10)%N with false by lia. replace (c =? 92)%N with false by lia.
      cbn [skipn]. destruct (IH Hr f esc ltac:(cbn [length app] in Hf; lia)) as [n E]. rewrite E. cbn [option_map]. eexists; reflexivity. }
  split.
  - rewrite lex1_quote by exact Hq. unfold lex_string.
    destruct (G [] (or_introl eq_refl) (S (length s)) false ltac:(rewrite app_nil_r; lia)) as [n E].
    rewrite app_nil_r in E. rewrite E. eexists; reflexivity.
  - intros rest. rewrite lex1_quote by exact Hq. unfold lex_string.
    destruct (G (10%N :: rest) (or_intror (ex_intro _ rest eq_refl)) (S (length (s ++ 10%N :: rest))) false ltac:(lia)) as [n E].
    rewrite E. eexists; reflexivity.
Qed.

(** ** numbers *)
From PQL Require Import Spec.NumValue Proofs.LexTokOk Proofs.SplitFacts.

Lemma digits_of_zeros k rest : digits_of (repeat 48%N k ++ rest) = repeat 48%N k ++ digits_of rest.
Proof. unfold digits_of. induction k as [|k IH]; cbn [repeat app take_while]; [reflexivity|]. rewrite IH. reflexivity. Qed.

Lemma after_digits_zeros k rest : after_digits (repeat 48%N k ++ rest) = after_digits rest.
Proof.
  unfold after_digits. rewrite digits_of_zeros, app_length, repeat_length.
  induction k as [|k IH]; cbn [repeat app Nat.add skipn]; [reflexivity|exact IH].
Qed.

Lemma dec_value_zeros_app k a : dec_value (repeat 48%N k ++ a) = dec_value a.
Proof. apply dec_value_zeros. Qed.

Definition parts_from (ip r1 : str) : N * nat * Z :=
  let '(fp, r2) := match r1 with
                   | c :: t => if (c =? 46)%N then (digits_of t, after_digits t) else ([], r1)
                   | [] => ([], [])
                   end in
  let ex := match r2 with
            | e :: sg :: t =>
              if ((e =? 101) || (e =? 69))%N then
                if (sg =? 45)%N then (- Z.of_N (dec_value (digits_of t)))%Z
                else if (sg =? 43)%N then Z.of_N (dec_value (digits_of t))
                else Z.of_N (dec_value (digits_of (sg :: t)))
              else 0%Z
            | _ => 0%Z
            end in
  (dec_value (ip ++ fp), List.length fp, ex).

Lemma num_parts_from s : num_parts s = parts_from (digits_of s) (after_digits s).
Proof. reflexivity. Qed.

Lemma parts_from_zeros k ip r1 : parts_from (repeat 48%N k ++ ip) r1 = parts_from ip r1.
Proof.
  unfold parts_from. destruct (match r1 with [] => _ | c :: t => _ end) as [fp r2].
  rewrite <- app_assoc, dec_value_zeros_app. reflexivity.
Qed.

(** normalisation keeps mantissa, fraction length and exponent: the spelling denotes the same number *)
Theorem normalize_parts s : num_parts (normalize_number s) = num_parts s.
Proof.
  destruct (normalize_spec s) as (k & rest & E & Hh & ->). subst s.
  rewrite (num_parts_from (_ ++ _)), digits_of_zeros, after_digits_zeros, parts_from_zeros, <- num_parts_from.
  destruct rest as [|c r].
  - reflexivity.
  - destruct ((c =? 46)%N || (c =? 101)%N || (c =? 69)%N) eqn:Ec; [|reflexivity].
    assert (Hd : is_digit c = false) by (unfold is_digit, in_range; lia).
    rewrite !num_parts_from. unfold after_digits, digits_of. cbn [take_while]. replace (is_digit 48) with true by reflexivity.
    cbn [take_while length skipn]. rewrite Hd. cbn [length skipn].
    apply (parts_from_zeros 1 []).
Qed.

Lemma digits_of_all d : forallb is_digit d = true -> digits_of d = d /\ after_digits d = [].
Proof.
  intros H. assert (A : digits_of d = d).
  { unfold digits_of. induction d as [|c r IH]; [reflexivity|]. cbn [forallb take_while] in *. apply andb_prop in H as [Hc Hr]. rewrite Hc, IH by exact Hr. reflexivity. }
  split; [exact A|]. unfold after_digits. rewrite A. apply skipn_all.
Qed.

Lemma num_parts_digits d : forallb is_digit d = true -> num_parts d = (dec_value d, 0, 0%Z).
Proof. intros H. unfold num_parts. destruct (digits_of_all d H) as [-> ->]. rewrite app_nil_r. reflexivity. Qed.

Lemma num_parts_digits_dec x : num_parts (N_to_dec x) = (x, 0, 0%Z).
Proof.
  rewrite num_parts_digits; [rewrite N_to_dec_value; reflexivity|].
  unfold N_to_dec. apply dec_digits_digits. reflexivity.
Qed.

Lemma forallb_digit_Forall d : Forall (fun c => is_digit c = true) d -> forallb is_digit d = true.
Proof. intros H. apply forallb_forall. apply Forall_forall. exact H. Qed.

(** every number token's value (the spelling handed to SQL) denotes the number the source text
    denotes: decimal, with leading zeros, a leading point, a fraction, an exponent - or hexadecimal *)
Theorem number_token_value l v n : lex_number l = Tok KNumber v n -> num_parts v = src_num_parts (firstn n l).
Proof.
  unfold lex_number. destruct l as [|c r]; [discriminate|].
  assert (NH : forall m t, (match t with z :: x :: _ => ((z =? 48) && ((x =? 120) || (x =? 88)))%N = false | _ => True end) ->
                Tok KNumber (normalize_number (firstn m t)) m = Tok KNumber v n -> 2 <= m ->
                num_parts v = src_num_parts (firstn n t)).
  { intros m t Ht E Hm. inversion E; subst. rewrite normalize_parts. unfold src_num_parts.
    destruct t as [|z [|x ds]].
    - rewrite firstn_nil. reflexivity.
    - destruct n as [|n]; [reflexivity|]. cbn [firstn]. rewrite firstn_nil. reflexivity.
    - destruct n as [|[|n]]; [lia|lia|]. cbn [firstn]. cbv beta iota. rewrite Ht. reflexivity. }
  destruct (c =? 48)%N eqn:E0.
  - apply N.eqb_eq in E0. subst c. destruct r as [|c1 r1].
    { intros E; inversion E; subst. reflexivity. }
    destruct (c1 =? 46)%N eqn:E1.
    { intros E. eapply NH; [|exact E|lia]. cbn. replace ((c1 =? 120) || (c1 =? 88))%N with false by lia. reflexivity. }
    destruct ((c1 =? 101)%N || (c1 =? 69)%N) eqn:E2.
    { intros E. assert (1 <= exponent_len (c1 :: r1) \/ exponent_len (c1 :: r1) = 0) as [H|H] by lia.
      - eapply NH; [|exact E|lia]. cbn. replace ((c1 =? 120) || (c1 =? 88))%N with false by lia. reflexivity.
      - rewrite H in E. cbn [Nat.add firstn] in E. inversion E; subst. reflexivity. }
    destruct ((c1 =? 120)%N || (c1 =? 88)%N) eqn:E3.
    { destruct (take_while is_hex_digit r1) as [|d ds] eqn:Ed; [discriminate|].
      destruct (hex_value (d :: ds) <? two64)%N; [|discriminate].
      intros E. injection E as Ev En. subst v n.
      rewrite !firstn_cons_S. change (S (length ds)) with (length (d :: ds)).
      rewrite <- Ed, take_while_prefix, Ed.
      unfold src_num_parts. replace ((48 =? 48)%N && ((c1 =? 120)%N || (c1 =? 88)%N)) with true by (rewrite E3; reflexivity).
      apply num_parts_digits_dec. }
    destruct (is_digit c1) eqn:E4.
    { intros E. eapply NH; [|exact E|lia]. cbn. rewrite E3. reflexivity. }
    intros E. assert (1 <= digits_len false (c1 :: r1) \/ digits_len false (c1 :: r1) = 0) as [H|H] by lia.
    + eapply NH; [|exact E|lia]. cbn. rewrite E3. reflexivity.
    + rewrite H in E. cbn [Nat.add firstn] in E. inversion E; subst. reflexivity.
  - destruct (c =? 46)%N eqn:E1.
    + destruct r as [|d r1]; [discriminate|]. destruct (is_digit d); [|discriminate].
      intros E. eapply NH; [|exact E|lia]. cbn. rewrite E0. reflexivity.
    + intros E. assert (1 <= digits_len false r \/ digits_len false r = 0) as [H|H] by lia.
      * eapply NH; [|exact E|lia]. destruct r as [|x r']; [exact I|]. rewrite E0. reflexivity.
      * rewrite H in E. cbn [Nat.add] in E. inversion E; subst. rewrite normalize_parts. unfold src_num_parts. cbn [firstn]. reflexivity.
Qed.

(** the same for every number token of a scan: its value denotes what its own source text denotes *)
Theorem scanned_number_value s t : In t (scan s) -> tkind t = KNumber ->
  num_parts (tvalue t) = src_num_parts (slice s (tstart t) (tend t)).
Proof.
  intros Hin Hk. destruct (scan_items s t Hin) as (Hoff & Hlex & Hlt). rewrite Hk in Hlex.
  assert (Hne : skipn (tstart t) s <> []) by (intros E; rewrite E in Hlex; discriminate Hlex).
  destruct (lex1_ident_or_number _ _ _ _ Hne Hlex) as [_ Hn]. destruct (Hn eq_refl) as (b & r & El & _ & Hnum).
  unfold slice. apply number_token_value. exact Hnum.
Qed.

Corollary scanned_number_q s t : In t (scan s) -> tkind t = KNumber ->
  num_q (tvalue t) = src_num_q (slice s (tstart t) (tend t)).
Proof. intros Hin Hk. unfold num_q, src_num_q. rewrite (scanned_number_value s t Hin Hk). reflexivity. Qed.

(** sanity: the value function computes what one expects *)
From Coq Require Import String.
Example num_q_examples :
  (num_q (L "12.50e-1") == 5 # 4)%Q /\ (src_num_q (L "0x1F") == 31 # 1)%Q /\ (num_q (L "0.5") == src_num_q (L "000.5"))%Q
  /\ num_parts (normalize_number (L ".5E3")) = (5%N, 1, 3%Z).
Proof. repeat split; vm_compute; reflexivity. Qed.

(** ** the accessors of number literals (IsInteger / IsFloat / Uint64) agree with the spelling *)
From PQL Require Import Spec.SqlLex Proofs.SqlGlue.

Lemma contains_any_false_in cs s c : contains_any cs s = false -> In c s -> existsb (N.eqb c) cs = false.
Proof.
  unfold contains_any. intros H Hin. destruct (existsb (N.eqb c) cs) eqn:E; [|reflexivity].
  assert (existsb (fun c0 => existsb (N.eqb c0) cs) s = true) by (apply existsb_exists; exists c; split; assumption). congruence.
Qed.

Lemma in_skipn {A} (x : A) k l : In x (skipn k l) -> In x l.
Proof. revert l. induction k as [|k IH]; intros [|y l] H; cbn [skipn] in H; try exact H; [right; apply IH; exact H]. Qed.

(** a number spelling (as the dialect and the scanner accept them) without '.', 'e', 'E' is a
    non-empty run of decimal digits *)
Lemma num_text_integer v : is_num_text v = true -> contains_any [46; 101; 69]%N v = false ->
  forallb is_digit v = true /\ v <> [].
Proof.
  unfold is_num_text. intros H Hc. apply andb_prop in H as [H _]. apply andb_prop in H as [Hlen Hhd]. apply Nat.eqb_eq in Hlen.
  split; [|destruct v; [discriminate|discriminate]].
  pose proof (take_while_prefix is_digit v) as Hp. pose proof (take_while_all is_digit v) as Ha.
  set (d1 := length (take_while is_digit v)) in *.
  unfold number_len in Hlen. fold d1 in Hlen.
  destruct (skipn d1 v) as [|c r] eqn:Es.
  - (* nothing after the digits *)
    assert (d1 = length v \/ d1 < length v)%nat as [E|E] by (unfold d1; pose proof (take_while_length is_digit v); lia).
    + rewrite E, firstn_all in Hp. rewrite Hp. exact Ha.
    + exfalso. assert (length (skipn d1 v) = length v - d1)%nat by apply skipn_length. rewrite Es in H. cbn [length] in H. lia.
  - (* a character after the digits: it is not a digit; the length equation forces '.', 'e' or 'E' *)
    exfalso.
    assert (Hin : In c v) by (apply (in_skipn c d1); rewrite Es; left; reflexivity).
    pose proof (contains_any_false_in _ _ c Hc Hin) as Hne. cbn [existsb] in Hne.
    assert (Hc46 : (c =? 46)%N = false) by lia. assert (Hce : ((c =? 101) || (c =? 69))%N = false) by lia.
    rewrite Hc46 in Hlen. cbn [Nat.eqb andb] in Hlen.
    destruct (Nat.eqb d1 0) eqn:Ed; cbn [andb] in Hlen.
    + apply Nat.eqb_eq in Ed. destruct v; [discriminate|]. cbn [length] in Hlen. lia.
    + cbn [skipn] in Hlen. rewrite Hce in Hlen.
      assert (length (skipn d1 v) = length v - d1)%nat by apply skipn_length. rewrite Es in H. cbn [length] in H. lia.
Qed.

Theorem number_accessors s t : In t (scan s) -> tkind t = KNumber ->
  lit_is_float KNumber (tvalue t) = negb (lit_is_integer KNumber (tvalue t)) /\
  (lit_is_integer KNumber (tvalue t) = true ->
     num_parts (tvalue t) = (dec_value (tvalue t), 0%nat, 0%Z) /\
     lit_uint64 KNumber (tvalue t) = Some (if (dec_value (tvalue t) <? two64)%N then dec_value (tvalue t) else 0%N)).
Proof.
  intros Hin Hk. split; [unfold lit_is_integer; destruct (lit_is_float KNumber (tvalue t)); reflexivity|].
  intros Hi. unfold lit_is_integer in Hi. apply Bool.negb_true_iff in Hi.
  pose proof (scan_tok_ok s) as Hok. unfold all_tok_ok in Hok. rewrite Forall_forall in Hok. destruct (Hok t Hin) as [Hn _]. specialize (Hn Hk).
  assert (Hc : contains_any [46; 101; 69]%N (tvalue t) = false) by exact Hi.
  destruct (num_text_integer _ Hn Hc) as [Hd Hne].
  split; [apply num_parts_digits; exact Hd|].
  unfold lit_uint64. rewrite Hi, Hd. destruct (tvalue t); [congruence|]. cbn [negb andb]. destruct (_ <? two64)%N; reflexivity.
Qed.
