(** * C03: with joins, at any nesting depth and in any number, the subqueries built by
    splitQueries still denote the pipeline: the left side of a join is the table so far, the
    right side is its parenthesised pipeline evaluated on its own, operators after the join apply
    to the join result. *)
From PQL Require Import Spec.PipeSem Proofs.TableFacts Proofs.ExprInd Proofs.PipelineFacts Proofs.DecFacts.
From Coq Require Import Lia String.
Local Open Scope list_scope.
Local Open Scope nat_scope.
Local Notation length := List.length (only parsing).

(** ** induction on operators (nested through the right-hand side of joins) *)
Section OpInd.
Variable P : operator -> Prop.
Hypothesis Hother : forall o, is_join o = false -> P o.
Hypothesis Hjoin : forall p k ks ka fl lp rsrc rops rp on conds, Forall P rops -> P (OJoin p k ks ka fl lp rsrc rops rp on conds).
Fixpoint operator_ind' (o : operator) : P o :=
  match o with
  | OJoin p k ks ka fl lp rsrc rops rp on conds =>
    Hjoin p k ks ka fl lp rsrc rops rp on conds
      ((fix go (l : list operator) : Forall P l :=
          match l with [] => Forall_nil P | a :: r => Forall_cons a (operator_ind' a) (go r) end) rops)
  | o' => Hother o' (match o' as x return (match x with OJoin _ _ _ _ _ _ _ _ _ _ _ => True | _ => is_join x = false end) with
                    | OJoin _ _ _ _ _ _ _ _ _ _ _ => I | _ => eq_refl end)
  end.
End OpInd.

(** names bound by `as`, and table names read, anywhere in an operator *)
Fixpoint as_names (o : operator) : list str :=
  match o with
  | OAs _ _ n => [iname n]
  | OJoin _ _ _ _ _ _ _ rops _ _ _ => flat_map as_names rops
  | _ => []
  end.
Fixpoint table_names (o : operator) : list str :=
  match o with
  | OJoin _ _ _ _ _ _ rsrc rops _ _ _ => iname rsrc :: flat_map table_names rops
  | _ => []
  end.

Section Join.
Variable F : fenv.
Variable ev : bool -> env -> expr -> value.
Variable source : str.
Variable sc : scope.
Variable db0 : database.

Notation evalS := (eval_subqs F ev source db0 None).
Notation eval1 := (eval_subq F ev source).
Notation apply := (apply_op F ev source).

Definition nongen (n : str) : Prop := gen_shape n = false.

(** the SQL database [d] (all subqueries so far) and the pipeline's database [dbp] (tables and
    `as` names) agree on every name that is not of the generated shape *)
Definition agree (d dbp : database) : Prop := forall n, nongen n -> lookup d n = lookup dbp n.

(** names from index [lo] on and the listed `as` names may be (re)bound; every other name keeps its value *)
Definition grows (d d' : database) (lo : nat) (asn : list str) : Prop :=
  forall n, (forall i, lo <= i -> n <> subquery_name i) -> ~ In n asn -> lookup d' n = lookup d n.

Definition is_as (s : subq) : bool := match sq_op s with Some (OAs _ _ _) => true | _ => false end.
Definition wf_entry (i : nat) (s : subq) : Prop :=
  if is_as s then nongen (sq_name s) else sq_name s = subquery_name i.
Definition names_wf (dst : list subq) : Prop := forall i s, nth_error dst i = Some s -> wf_entry i s.

Inductive invg (ds : nat) (src : ident) (dst : list subq) (dbp : database) (cur : table) : database -> Prop :=
| G_base d l : length dst = ds -> evalS dst = Some (d, l) -> agree d dbp ->
    lookup dbp (iname src) = Some cur -> names_wf dst -> invg ds src dst dbp cur d
| G_snoc dst0 s d0 l0 : dst = dst0 ++ [s] -> ds <= length dst0 -> evalS dst0 = Some (d0, l0) ->
    eval1 d0 s = Some cur -> agree ((sq_name s, cur) :: d0) dbp -> names_wf dst ->
    invg ds src dst dbp cur ((sq_name s, cur) :: d0).

Lemma invg_eval ds src dst dbp cur d : invg ds src dst dbp cur d ->
  exists l, evalS dst = Some (d, l) /\ agree d dbp /\ names_wf dst /\ ds <= length dst.
Proof.
  intros [d' l Hl He Ha Hs Hw | dst0 s d0 l0 -> Hd H0 H1 Ha Hw].
  - exists l. repeat split; try assumption. lia.
  - exists (Some cur). repeat split; try assumption.
    + rewrite eval_subqs_app, H0. cbn [eval_subqs]. rewrite H1. reflexivity.
    + rewrite length_snoc. lia.
Qed.

Lemma str_eqb_false_neq a b : a <> b -> str_eqb a b = false.
Proof. intros H. apply str_eqb_neq. exact H. Qed.

Lemma nongen_not_generated n i : nongen n -> n <> subquery_name i.
Proof. intros H ->. unfold nongen in H. rewrite subquery_name_gen in H. discriminate. Qed.

Lemma agree_push_gen d dbp i v : agree d dbp -> agree ((subquery_name i, v) :: d) dbp.
Proof.
  intros H n Hn. cbn [lookup]. rewrite str_eqb_false_neq; [apply H; exact Hn|].
  intros E. symmetry in E. revert E. apply nongen_not_generated. exact Hn.
Qed.

Lemma agree_push_both d dbp n v : agree d dbp -> agree ((n, v) :: d) ((n, v) :: dbp).
Proof. intros H m Hm. cbn [lookup]. destruct (str_eqb n m); [reflexivity|apply H; exact Hm]. Qed.

Lemma grows_refl d lo asn : grows d d lo asn.
Proof. intros n _ _. reflexivity. Qed.

Lemma grows_trans d1 d2 d3 lo a1 a2 : grows d1 d2 lo a1 -> grows d2 d3 lo a2 -> grows d1 d3 lo (a1 ++ a2).
Proof.
  intros H1 H2 n Hi Ha. rewrite H2, H1; try assumption; try reflexivity.
  - intros Hin. apply Ha. apply in_or_app. left. exact Hin.
  - intros Hin. apply Ha. apply in_or_app. right. exact Hin.
Qed.

Lemma grows_weaken d d' lo lo' asn : lo' <= lo -> grows d d' lo asn -> grows d d' lo' asn.
Proof. intros Hl H n Hi Ha. apply H; [|exact Ha]. intros i Hle. apply Hi. lia. Qed.

Lemma grows_push d n v lo asn : (exists i, lo <= i /\ n = subquery_name i) \/ In n asn -> grows d ((n, v) :: d) lo asn.
Proof.
  intros Hn m Hi Ha. cbn [lookup]. rewrite str_eqb_false_neq; [reflexivity|].
  intros ->. destruct Hn as [(i & Hle & ->)|Hin]; [exact (Hi i Hle eq_refl)|exact (Ha Hin)].
Qed.

(** replacing the value bound at the head keeps everything else *)
Lemma grows_replace d n v v' lo asn : (exists i, lo <= i /\ n = subquery_name i) -> grows ((n, v) :: d) ((n, v') :: d) lo asn.
Proof.
  intros (i & Hle & ->) m Hi Ha. cbn [lookup]. rewrite str_eqb_false_neq; [reflexivity|].
  intros <-. exact (Hi i Hle eq_refl).
Qed.

Lemma names_wf_snoc dst s : names_wf dst -> wf_entry (length dst) s -> names_wf (dst ++ [s]).
Proof.
  intros H Hs i x Hx. destruct (Nat.lt_ge_cases i (length dst)) as [Hlt|Hge].
  - rewrite nth_error_app1 in Hx by exact Hlt. apply H. exact Hx.
  - rewrite nth_error_app2 in Hx by exact Hge.
    destruct (i - length dst) as [|k] eqn:E; cbn in Hx; [|destruct k; discriminate].
    injection Hx as <-. replace i with (length dst) by lia. exact Hs.
Qed.

Lemma names_wf_set_last dst0 s (f : subq -> subq) :
  names_wf (dst0 ++ [s]) -> sq_name (f s) = sq_name s -> is_as (f s) = is_as s -> names_wf (dst0 ++ [f s]).
Proof.
  intros H Hn Ha i x Hx. destruct (Nat.lt_ge_cases i (length dst0)) as [Hlt|Hge].
  - rewrite nth_error_app1 in Hx by exact Hlt. apply H. rewrite nth_error_app1 by exact Hlt. exact Hx.
  - rewrite nth_error_app2 in Hx by exact Hge.
    destruct (i - length dst0) as [|k] eqn:E; cbn in Hx; [|destruct k; discriminate].
    injection Hx as <-. assert (Hs : wf_entry i s).
    { apply H. rewrite nth_error_app2 by exact Hge. rewrite E. reflexivity. }
    unfold wf_entry in *. rewrite Ha, Hn. exact Hs.
Qed.

Lemma names_wf_prefix dst0 s : names_wf (dst0 ++ [s]) -> names_wf dst0.
Proof.
  intros H i x Hx. apply H. rewrite nth_error_app1; [exact Hx|].
  apply nth_error_Some. congruence.
Qed.

Lemma wf_last dst0 s : names_wf (dst0 ++ [s]) -> wf_entry (length dst0) s.
Proof. intros H. apply H. rewrite nth_error_app2 by lia. rewrite Nat.sub_diag. reflexivity. Qed.

(** ** a fresh subquery of this pipeline reads the table so far *)
Lemma fresh_reads_g ds src dst dbp cur d : invg ds src dst dbp cur d -> nongen (iname src) ->
  eval_source ev d (sq_source (chain_subquery dst ds src)) = Some cur.
Proof.
  intros [d' l Hl He Ha Hs Hw | dst0 s d0 l0 -> Hd H0 H1 Ha Hw] Hng.
  - unfold chain_subquery. rewrite Hl, Nat.ltb_irrefl. cbn [sq_source eval_source].
    rewrite (Ha _ Hng). exact Hs.
  - unfold chain_subquery. rewrite length_snoc, last_opt_snoc.
    assert (Nat.ltb ds (S (length dst0)) = true) as -> by (apply Nat.ltb_lt; lia).
    cbn [sq_source eval_source]. apply lookup_head.
Qed.

(** pushing a subquery with a generated name that reads the table so far *)
Lemma invg_push_gen ds src dst dbp cur d o srt tk : invg ds src dst dbp cur d -> nongen (iname src) ->
  (match o with Some (OAs _ _ _) => False | _ => True end) ->
  let s := mkSubq (subquery_name (length dst)) (sq_source (chain_subquery dst ds src)) o srt tk in
  let v := finish_subq F ev s (match o with Some op => apply op cur | None => cur end) in
  invg ds src (dst ++ [s]) dbp v ((sq_name s, v) :: d) /\ grows d ((sq_name s, v) :: d) ds [].
Proof.
  intros H Hng Ho s v. destruct (invg_eval _ _ _ _ _ _ H) as (l & He & Ha & Hw & Hle).
  split.
  - eapply G_snoc; [reflexivity|exact Hle|exact He| | |].
    + unfold eval_subq. cbn [sq_source sq_op s]. rewrite (fresh_reads_g _ _ _ _ _ _ H Hng). reflexivity.
    + apply agree_push_gen. exact Ha.
    + apply names_wf_snoc; [exact Hw|]. unfold wf_entry, is_as. cbn [sq_op sq_name s].
      destruct o as [[]|]; try reflexivity. destruct Ho.
  - apply grows_push. left. exists (length dst). split; [exact Hle|reflexivity].
Qed.

Lemma eval1_finish_g d s t0 :
  eval_source ev d (sq_source s) = Some t0 ->
  eval1 d s = Some (finish_subq F ev s (match sq_op s with Some o => apply o t0 | None => t0 end)).
Proof. intros H. unfold eval_subq. rewrite H. reflexivity. Qed.

Lemma eval1_inv_g d s cur : eval1 d s = Some cur ->
  exists t0, eval_source ev d (sq_source s) = Some t0 /\
             cur = finish_subq F ev s (match sq_op s with Some o => apply o t0 | None => t0 end).
Proof. unfold eval_subq. destruct (eval_source ev d (sq_source s)) as [t0|]; [|discriminate]. intros [= <-]. eauto. Qed.

Lemma state_of_g dst0 s ds : ds <= length dst0 ->
  state_of (dst0 ++ [s]) ds =
  {| ss_nil := false;
     ss_can_attach := match sq_op s with Some o => can_attach_sort (op_nkind o) | None => can_attach_sort_default end;
     ss_has_sort := match sq_sort s with Some _ => true | None => false end;
     ss_has_take := match sq_take s with Some _ => true | None => false end |}.
Proof.
  intros H. unfold state_of. rewrite length_snoc, last_opt_snoc.
  assert (Nat.eqb (S (length dst0)) ds = false) as -> by (apply Nat.eqb_neq; lia). reflexivity.
Qed.

Lemma state_of_base dst ds : length dst = ds -> ss_nil (state_of dst ds) = true.
Proof. intros H. unfold state_of. rewrite H, Nat.eqb_refl. reflexivity. Qed.

Lemma can_attach_not_as s :
  (match sq_op s with Some o => can_attach_sort (op_nkind o) | None => can_attach_sort_default end) = true -> is_as s = false.
Proof. unfold is_as. destruct (sq_op s) as [[]|]; try reflexivity. vm_compute. discriminate. Qed.

(** attaching a sort and/or a limit to the last subquery: same name, new value *)
Lemma invg_attach ds src dst0 s d0 l0 dbp cur (f : subq -> subq) v' :
  ds <= length dst0 -> evalS dst0 = Some (d0, l0) -> eval1 d0 s = Some cur ->
  agree ((sq_name s, cur) :: d0) dbp -> names_wf (dst0 ++ [s]) ->
  is_as s = false -> sq_name (f s) = sq_name s -> is_as (f s) = false ->
  eval1 d0 (f s) = Some v' ->
  invg ds src (dst0 ++ [f s]) dbp v' ((sq_name (f s), v') :: d0)
  /\ grows ((sq_name s, cur) :: d0) ((sq_name (f s), v') :: d0) ds [].
Proof.
  intros Hle H0 H1 Ha Hw Has Hn Haf Hv.
  assert (Hgen : sq_name s = subquery_name (length dst0)).
  { pose proof (wf_last _ _ Hw) as Hx. unfold wf_entry in Hx. rewrite Has in Hx. exact Hx. }
  split.
  - eapply G_snoc; [reflexivity|exact Hle|exact H0|exact Hv| |].
    + rewrite Hn, Hgen. apply agree_push_gen. intros n Hng. specialize (Ha n Hng).
      cbn [lookup] in Ha. rewrite Hgen in Ha. rewrite str_eqb_false_neq in Ha; [exact Ha|].
      intros E. symmetry in E. revert E. apply nongen_not_generated. exact Hng.
    + apply names_wf_set_last; [exact Hw|exact Hn|congruence].
  - rewrite Hn. apply grows_replace. exists (length dst0). split; [exact Hle|exact Hgen].
Qed.

(** ** the step for operators other than joins *)
Definition names_ok_op (src : ident) (o : operator) : Prop :=
  nongen (iname src) /\ (forall n, In n (as_names o) -> nongen n) /\ (forall n, In n (table_names o) -> nongen n).

Lemma step_g_plain ds src dst dbp cur d o :
  invg ds src dst dbp cur d -> is_join o = false -> nongen (iname src) -> (forall n, In n (as_names o) -> nongen n) ->
  forall dst' dbp' cur', split_op sc ds src dst o = Ok dst' -> run_op F ev source sc dbp cur o = Some (dbp', cur') ->
  exists d', invg ds src dst' dbp' cur' d' /\ grows d d' ds (as_names o).
Proof.
  intros Hinv Hj Hng Has dst' dbp' cur' Hs Hr.
  destruct (invg_eval _ _ _ _ _ _ Hinv) as (l & He & Ha & Hw & Hle).
  destruct o; try discriminate; cbn [split_op] in Hs; cbn [run_op] in Hr; injection Hr as <- <-.
  - (* count *) injection Hs as <-.
    destruct (invg_push_gen ds src dst dbp cur d (Some (OCount pipe kw)) None None Hinv Hng I) as (H1 & H2).
    unfold chain_subquery in *. cbn [sq_name] in *. eexists; split; [exact H1|exact H2].
  - (* where *) injection Hs as <-.
    destruct (invg_push_gen ds src dst dbp cur d (Some (OWhere pipe kw pred)) None None Hinv Hng I) as (H1 & H2).
    unfold chain_subquery in *. cbn [sq_name] in *. eexists; split; [exact H1|exact H2].
  - (* sort *) injection Hs as <-.
    destruct (split_cond_sort (state_of dst ds)) eqn:Ec.
    + rewrite set_last_snoc. cbn [sq_name sq_source sq_op sq_take chain_subquery].
      destruct (invg_push_gen ds src dst dbp cur d None (Some terms) None Hinv Hng I) as (H1 & H2).
      unfold chain_subquery in *. cbn [sq_name] in *. eexists; split; [exact H1|exact H2].
    + apply sort_attach_spec in Ec as (Hnil & Hca & Hso & Hta).
      destruct Hinv as [d' l' Hl He' Ha' Hsrc Hw' | dst0 s d0 l0 -> Hd H0 H1 Ha' Hw'];
        [rewrite state_of_base in Hnil by assumption; discriminate|].
      rewrite state_of_g in Hca, Hso, Hta by exact Hd. cbn [ss_can_attach ss_has_sort ss_has_take] in Hca, Hso, Hta.
      rewrite set_last_snoc.
      apply eval1_inv_g in H1 as (t0 & Hsrc & Hcur).
      destruct (invg_attach ds src dst0 s d0 l0 dbp cur
                  (fun s => mkSubq (sq_name s) (sq_source s) (sq_op s) (Some terms) (sq_take s))
                  (sort_rows F ev terms cur) Hd H0) as (G1 & G2); try assumption; try reflexivity.
      * rewrite (eval1_finish_g d0 s t0 Hsrc). f_equal. symmetry. exact Hcur.
      * apply can_attach_not_as. exact Hca.
      * unfold is_as. cbn [sq_op]. apply can_attach_not_as in Hca. exact Hca.
      * rewrite (eval1_finish_g d0 _ t0) by exact Hsrc. cbn [sq_op]. f_equal. subst cur.
        unfold finish_subq. cbn [sq_sort sq_take]. destruct (sq_sort s); [discriminate|]. destruct (sq_take s); [discriminate|]. reflexivity.
      * eexists; split; [exact G1|exact G2].
  - (* take *) injection Hs as <-.
    destruct (split_cond_take (state_of dst ds)) eqn:Ec.
    + rewrite set_last_snoc. cbn [sq_name sq_source sq_op sq_sort chain_subquery].
      destruct (invg_push_gen ds src dst dbp cur d None None (Some n) Hinv Hng I) as (H1 & H2).
      unfold chain_subquery in *. cbn [sq_name] in *. eexists; split; [exact H1|exact H2].
    + apply take_attach_spec in Ec as (Hnil & Hca & Hta).
      destruct Hinv as [d' l' Hl He' Ha' Hsrc Hw' | dst0 s d0 l0 -> Hd H0 H1 Ha' Hw'];
        [rewrite state_of_base in Hnil by assumption; discriminate|].
      rewrite state_of_g in Hca, Hta by exact Hd. cbn [ss_can_attach ss_has_take] in Hca, Hta.
      rewrite set_last_snoc.
      apply eval1_inv_g in H1 as (t0 & Hsrc & Hcur).
      destruct (invg_attach ds src dst0 s d0 l0 dbp cur
                  (fun s => mkSubq (sq_name s) (sq_source s) (sq_op s) (sq_sort s) (Some n))
                  (take_rows ev n cur) Hd H0) as (G1 & G2); try assumption; try reflexivity.
      * rewrite (eval1_finish_g d0 s t0 Hsrc). f_equal. symmetry. exact Hcur.
      * apply can_attach_not_as. exact Hca.
      * unfold is_as. cbn [sq_op]. apply can_attach_not_as in Hca. exact Hca.
      * rewrite (eval1_finish_g d0 _ t0) by exact Hsrc. cbn [sq_op]. f_equal. subst cur.
        unfold finish_subq. cbn [sq_sort sq_take]. destruct (sq_take s); [discriminate|]. reflexivity.
      * eexists; split; [exact G1|exact G2].
  - (* top *) injection Hs as <-.
    destruct (split_cond_top (state_of dst ds)) eqn:Ec.
    + rewrite set_last_snoc. cbn [sq_name sq_source sq_op chain_subquery].
      destruct (invg_push_gen ds src dst dbp cur d None (Some [col]) (Some n) Hinv Hng I) as (H1 & H2).
      unfold chain_subquery in *. cbn [sq_name] in *. eexists; split; [exact H1|exact H2].
    + apply top_attach_spec in Ec as (Hnil & Hca & Hso & Hta).
      destruct Hinv as [d' l' Hl He' Ha' Hsrc Hw' | dst0 s d0 l0 -> Hd H0 H1 Ha' Hw'];
        [rewrite state_of_base in Hnil by assumption; discriminate|].
      rewrite state_of_g in Hca, Hso, Hta by exact Hd. cbn [ss_can_attach ss_has_sort ss_has_take] in Hca, Hso, Hta.
      rewrite set_last_snoc.
      apply eval1_inv_g in H1 as (t0 & Hsrc & Hcur).
      destruct (invg_attach ds src dst0 s d0 l0 dbp cur
                  (fun s => mkSubq (sq_name s) (sq_source s) (sq_op s) (Some [col]) (Some n))
                  (take_rows ev n (sort_rows F ev [col] cur)) Hd H0) as (G1 & G2); try assumption; try reflexivity.
      * rewrite (eval1_finish_g d0 s t0 Hsrc). f_equal. symmetry. exact Hcur.
      * apply can_attach_not_as. exact Hca.
      * unfold is_as. cbn [sq_op]. apply can_attach_not_as in Hca. exact Hca.
      * rewrite (eval1_finish_g d0 _ t0) by exact Hsrc. cbn [sq_op]. f_equal. subst cur.
        unfold finish_subq. cbn [sq_sort sq_take]. destruct (sq_sort s); [discriminate|]. destruct (sq_take s); [discriminate|]. reflexivity.
      * eexists; split; [exact G1|exact G2].
  - (* project *) injection Hs as <-.
    destruct (invg_push_gen ds src dst dbp cur d (Some (OProject pipe kw cols)) None None Hinv Hng I) as (H1 & H2).
    unfold chain_subquery in *. cbn [sq_name] in *. eexists; split; [exact H1|exact H2].
  - (* extend *) injection Hs as <-.
    destruct (invg_push_gen ds src dst dbp cur d (Some (OExtend pipe kw cols)) None None Hinv Hng I) as (H1 & H2).
    unfold chain_subquery in *. cbn [sq_name] in *. eexists; split; [exact H1|exact H2].
  - (* summarize *) injection Hs as <-.
    destruct (invg_push_gen ds src dst dbp cur d (Some (OSummarize pipe kw cols by_ groupby)) None None Hinv Hng I) as (H1 & H2).
    unfold chain_subquery in *. cbn [sq_name] in *. eexists; split; [exact H1|exact H2].
  - (* as: the subquery takes the given name, and the pipeline binds it too *)
    injection Hs as <-.
    assert (Hnn : nongen (iname name)) by (apply Has; cbn; auto).
    set (S := mkSubq (iname name) (sq_source (chain_subquery dst ds src)) (Some (OAs pipe kw name)) None None).
    exists ((sq_name S, cur) :: d). split.
    + eapply (G_snoc ds src (dst ++ [S]) _ cur dst S d l); [reflexivity|exact Hle|exact He| | |].
      * unfold eval_subq, S. cbn [sq_source sq_op]. rewrite (fresh_reads_g _ _ _ _ _ _ Hinv Hng). reflexivity.
      * apply agree_push_both. exact Ha.
      * apply names_wf_snoc; [exact Hw|]. unfold wf_entry, is_as, S. cbn [sq_op sq_name]. exact Hnn.
    + apply grows_push. right. cbn. auto.
  - (* render *) injection Hs as <-.
    destruct (invg_push_gen ds src dst dbp cur d (Some (ORender pipe kw chart with_ lparen props rparen)) None None Hinv Hng I) as (H1 & H2).
    unfold chain_subquery in *. cbn [sq_name] in *. eexists; split; [exact H1|exact H2].
Qed.


(** ** which names a step can add *)
Definition names_sub (dst dst' : list subq) (asn : list str) : Prop :=
  forall n, In n (map sq_name dst') -> In n (map sq_name dst) \/ gen_shape n = true \/ In n asn.

Lemma names_sub_refl dst asn : names_sub dst dst asn.
Proof. intros n H. left. exact H. Qed.

Lemma names_sub_trans d1 d2 d3 a1 a2 : names_sub d1 d2 a1 -> names_sub d2 d3 a2 -> names_sub d1 d3 (a1 ++ a2).
Proof.
  intros H1 H2 n Hn. destruct (H2 n Hn) as [H|[H|H]].
  - destruct (H1 n H) as [H'|[H'|H']]; [left; exact H'|right; left; exact H'|right; right; apply in_or_app; left; exact H'].
  - right. left. exact H.
  - right. right. apply in_or_app. right. exact H.
Qed.

Lemma names_sub_push dst s asn : gen_shape (sq_name s) = true \/ In (sq_name s) asn -> names_sub dst (dst ++ [s]) asn.
Proof.
  intros Hs n Hn. rewrite map_app in Hn. apply in_app_or in Hn as [Hn|[<-|[]]]; [left; exact Hn|].
  destruct Hs; [right; left; assumption|right; right; assumption].
Qed.

Lemma map_name_set_last dst f : (forall s, sq_name (f s) = sq_name s) -> map sq_name (set_last dst f) = map sq_name dst.
Proof.
  intros Hf. destruct dst as [|x r] using rev_ind; [reflexivity|].
  rewrite set_last_snoc, !map_app. cbn [map]. rewrite Hf. reflexivity.
Qed.

Lemma names_sub_eq dst dst' asn : map sq_name dst' = map sq_name dst -> names_sub dst dst' asn.
Proof. intros E n Hn. left. rewrite <- E. exact Hn. Qed.

Lemma split_op_names ds src dst o dst' : is_join o = false -> split_op sc ds src dst o = Ok dst' -> names_sub dst dst' (as_names o).
Proof.
  intros Hj Hs. destruct o; try discriminate; cbn [split_op] in Hs; injection Hs as <-;
    try (apply names_sub_push; left; apply subquery_name_gen).
  - (* sort *) destruct (split_cond_sort _).
    + intros m Hm. rewrite map_name_set_last in Hm by reflexivity.
      revert m Hm. apply names_sub_push. left. apply subquery_name_gen.
    + apply names_sub_eq. apply map_name_set_last. reflexivity.
  - destruct (split_cond_take _).
    + intros m Hm. rewrite map_name_set_last in Hm by reflexivity.
      revert m Hm. apply names_sub_push. left. apply subquery_name_gen.
    + apply names_sub_eq. apply map_name_set_last. reflexivity.
  - destruct (split_cond_top _).
    + intros m Hm. rewrite map_name_set_last in Hm by reflexivity.
      revert m Hm. apply names_sub_push. left. apply subquery_name_gen.
    + apply names_sub_eq. apply map_name_set_last. reflexivity.
  - (* as *) apply names_sub_push. right. cbn. auto.
Qed.

(** ** the naming conditions under which the theorem is stated *)
Definition ok (src : ident) (dst : list subq) (asn tbl : list str) : Prop :=
  nongen (iname src) /\ NoDup asn /\
  (forall n, In n asn -> nongen n /\ n <> iname src /\ ~ In n (map sq_name dst) /\ ~ In n tbl) /\
  (forall n, In n tbl -> nongen n).

(** what one step must establish *)
Definition stepP (o : operator) : Prop :=
  forall ds src dst dbp cur d dst' dbp' cur',
    invg ds src dst dbp cur d -> ok src dst (as_names o) (table_names o) ->
    split_op sc ds src dst o = Ok dst' -> run_op F ev source sc dbp cur o = Some (dbp', cur') ->
    exists d', invg ds src dst' dbp' cur' d' /\ grows d d' ds (as_names o) /\ names_sub dst dst' (as_names o).

Lemma stepP_plain o : is_join o = false -> stepP o.
Proof.
  intros Hj ds src dst dbp cur d dst' dbp' cur' Hinv (Hng & Hnd & Hasn & Htbl) Hs Hr.
  destruct (step_g_plain ds src dst dbp cur d o Hinv Hj Hng (fun n Hn => proj1 (Hasn n Hn)) dst' dbp' cur' Hs Hr) as (d' & H1 & H2).
  exists d'. split; [exact H1|]. split; [exact H2|]. eapply split_op_names; eassumption.
Qed.

(** the loop over a list of operators *)
Lemma NoDup_app_l {A} (a b : list A) : NoDup (a ++ b) -> NoDup a.
Proof. induction a as [|x a IH]; cbn; intros H; [constructor|]. inversion H; subst. constructor; [|auto]. intros Hx. apply H2. apply in_or_app. left. exact Hx. Qed.
Lemma NoDup_app_r {A} (a b : list A) : NoDup (a ++ b) -> NoDup b.
Proof. induction a as [|x a IH]; cbn; intros H; [exact H|]. inversion H; subst. auto. Qed.
Lemma NoDup_app_disj {A} (a b : list A) x : NoDup (a ++ b) -> In x a -> ~ In x b.
Proof.
  induction a as [|y a IH]; cbn; intros H Hx; [destruct Hx|]. inversion H; subst.
  destruct Hx as [->|Hx]; [intros Hb; apply H2; apply in_or_app; right; exact Hb|apply IH; assumption].
Qed.

Lemma steps_g ops : Forall stepP ops ->
  forall ds src dst dbp cur d dst' dbp' cur',
    invg ds src dst dbp cur d -> ok src dst (flat_map as_names ops) (flat_map table_names ops) ->
    fold_res (split_op sc ds src) ops dst = Ok dst' -> run_ops F ev source sc dbp cur ops = Some (dbp', cur') ->
    exists d', invg ds src dst' dbp' cur' d' /\ grows d d' ds (flat_map as_names ops)
               /\ names_sub dst dst' (flat_map as_names ops).
Proof.
  induction 1 as [|o r Ho Hr IH]; intros ds src dst dbp cur d dst' dbp' cur' Hinv Hok Hs Hrun;
    cbn [fold_res run_ops flat_map] in *.
  - injection Hs as <-. injection Hrun as <- <-. exists d. split; [exact Hinv|]. split; [apply grows_refl|apply names_sub_refl].
  - destruct Hok as (Hng & Hnd & Hasn & Htbl).
    destruct (split_op sc ds src dst o) as [dst1|p] eqn:E1; cbn [bind] in Hs; [|discriminate].
    destruct (run_op F ev source sc dbp cur o) as [[dbp1 cur1]|] eqn:E2; [|discriminate].
    assert (Hok1 : ok src dst (as_names o) (table_names o)).
    { split; [exact Hng|]. split; [eapply NoDup_app_l; exact Hnd|]. split.
      - intros n Hn. destruct (Hasn n (in_or_app _ _ _ (or_introl Hn))) as (A & B & C & D).
        repeat split; try assumption. intros Ht. apply D. apply in_or_app. left. exact Ht.
      - intros n Hn. apply Htbl. apply in_or_app. left. exact Hn. }
    destruct (Ho ds src dst dbp cur d dst1 dbp1 cur1 Hinv Hok1 E1 E2) as (d1 & Hinv1 & Hg1 & Hn1).
    assert (Hok2 : ok src dst1 (flat_map as_names r) (flat_map table_names r)).
    { split; [exact Hng|]. split; [eapply NoDup_app_r; exact Hnd|]. split.
      - intros n Hn. destruct (Hasn n (in_or_app _ _ _ (or_intror Hn))) as (A & B & C & D).
        repeat split; try assumption.
        + intros Hin. destruct (Hn1 n Hin) as [H'|[H'|H']]; [exact (C H')|unfold nongen in A; congruence|].
          exact (NoDup_app_disj _ _ n Hnd H' Hn).
        + intros Ht. apply D. apply in_or_app. right. exact Ht.
      - intros n Hn. apply Htbl. apply in_or_app. right. exact Hn. }
    destruct (IH ds src dst1 dbp1 cur1 d1 dst' dbp' cur' Hinv1 Hok2 Hs Hrun) as (d2 & Hinv2 & Hg2 & Hn2).
    exists d2. split; [exact Hinv2|]. split; [eapply grows_trans; eassumption|eapply names_sub_trans; eassumption].
Qed.

(** ** the join step *)
Lemma split_join_unfold ds src dst p k ks ka flavor lp rsrc rops rp on conds :
  split_op sc ds src dst (OJoin p k ks ka flavor lp rsrc rops rp on conds) =
  (let left_from_sub := Nat.ltb ds (length dst) in
   let left_name := match last_opt dst with Some s => sq_name s | None => [] end in
   do dst1 <- fold_res (split_op sc (length dst) rsrc) rops dst;
   let dst1 := if Nat.eqb (length dst1) (length dst) then dst1 ++ [chain_subquery dst1 (length dst) rsrc] else dst1 in
   let right_name := match last_opt dst1 with Some s => sq_name s | None => [] end in
   let flavor_name := match flavor with Some f => iname f | None => w_innerunique end in
   let unique := str_eqb flavor_name w_innerunique in
   let left_src := if left_from_sub then left_name else iname src in
   do outer <- (if str_eqb flavor_name w_inner || unique then Ok false
                else if str_eqb flavor_name w_leftouter then Ok true
                else Err (match flavor with Some f => span_start (ispan f) | None => None end));
   let cond_expr := build_join_cond sc conds in
   do cond <- wexpr (mkCtx sc ModeJoin) cond_expr;
   let source := SrcJoin unique left_src outer right_name cond_expr cond in
   Ok (dst1 ++ [mkSubq (subquery_name (length dst1)) source None None None])).
Proof.
  cbn [split_op]. cbv zeta.
  assert (Hgo : forall l d, (fix go (l : list operator) (d : list subq) {struct l} : res (list subq) :=
             match l with
             | [] => Ok d
             | o' :: r => do d' <- split_op sc (length dst) rsrc d o'; go r d'
             end) l d = fold_res (split_op sc (length dst) rsrc) l d).
  { induction l as [|o' r IH]; intros d; cbn [fold_res]; [reflexivity|].
    destruct (split_op sc (length dst) rsrc d o'); cbn [bind]; [apply IH|reflexivity]. }
  rewrite Hgo. reflexivity.
Qed.

Lemma run_join_unfold dbp cur p k ks ka flavor lp rsrc rops rp on conds :
  run_op F ev source sc dbp cur (OJoin p k ks ka flavor lp rsrc rops rp on conds) =
  match lookup dbp (iname rsrc) with
  | None => None
  | Some rbase =>
    match run_ops F ev source sc dbp rbase rops with
    | Some (db', rt) =>
      let '(unique, outer) := join_flags flavor in
      Some (db', join_rows ev unique outer (build_join_cond sc conds) cur rt)
    | None => None
    end
  end.
Proof.
  cbn [run_op]. destruct (lookup dbp (iname rsrc)) as [rbase|]; [|reflexivity].
  assert (Hgo : forall l d c, (fix go (l : list operator) (d : database) (c : table) {struct l} : option (database * table) :=
             match l with
             | [] => Some (d, c)
             | o' :: r => match run_op F ev source sc d c o' with Some (d', c') => go r d' c' | None => None end
             end) l d c = run_ops F ev source sc d c l).
  { induction l as [|o' r IH]; intros d c; cbn [run_ops]; [reflexivity|].
    destruct (run_op F ev source sc d c o') as [[d' c']|]; [apply IH|reflexivity]. }
  rewrite Hgo. reflexivity.
Qed.

Lemma flags_agree flavor outer :
  (let n := match flavor with Some f => iname f | None => w_innerunique end in
   if str_eqb n w_inner || str_eqb n w_innerunique then Ok false
   else if str_eqb n w_leftouter then Ok true
   else Err (match flavor with Some f => span_start (ispan f) | None => None end)) = Ok outer ->
  join_flags flavor = (str_eqb (match flavor with Some f => iname f | None => w_innerunique end) w_innerunique, outer).
Proof.
  unfold join_flags. cbv zeta. set (n := match flavor with Some f => iname f | None => w_innerunique end).
  destruct (str_eqb n w_inner) eqn:E1; cbn [orb].
  - intros [= <-]. apply str_eqb_eq in E1. rewrite E1. reflexivity.
  - destruct (str_eqb n w_innerunique) eqn:E2.
    + intros [= <-]. apply str_eqb_eq in E2. rewrite E2. reflexivity.
    + destruct (str_eqb n w_leftouter); [intros [= <-]; reflexivity|discriminate].
Qed.

Lemma stepP_join p k ks ka flavor lp rsrc rops rp on conds :
  Forall stepP rops -> stepP (OJoin p k ks ka flavor lp rsrc rops rp on conds).
Proof.
  intros Hrops ds src dst dbp cur d dst' dbp' cur' Hinv Hok Hs Hr.
  rewrite split_join_unfold in Hs. rewrite run_join_unfold in Hr. cbv zeta in Hs.
  destruct Hok as (Hng & Hnd & Hasn & Htbl). cbn [as_names table_names] in *.
  destruct (lookup dbp (iname rsrc)) as [rbase|] eqn:Erb; [|discriminate].
  destruct (run_ops F ev source sc dbp rbase rops) as [[db1 rt]|] eqn:Erun; [|discriminate].
  destruct (fold_res (split_op sc (length dst) rsrc) rops dst) as [dst1|pe] eqn:Efold; cbn [bind] in Hs; [|discriminate].
  destruct (invg_eval _ _ _ _ _ _ Hinv) as (l & He & Ha & Hw & Hle).
  (* the right-hand pipeline, evaluated on its own, starting after the subqueries so far *)
  assert (Hstart : invg (length dst) rsrc dst dbp rbase d) by (eapply G_base; eauto).
  assert (Hokr : ok rsrc dst (flat_map as_names rops) (flat_map table_names rops)).
  { split; [apply Htbl; left; reflexivity|]. split; [exact Hnd|]. split.
    - intros n Hn. destruct (Hasn n Hn) as (A & B & C & D). repeat split; try assumption.
      + intros ->. apply D. left. reflexivity.
      + intros Ht. apply D. right. exact Ht.
    - intros n Hn. apply Htbl. right. exact Hn. }
  destruct (steps_g rops Hrops (length dst) rsrc dst dbp rbase d dst1 db1 rt Hstart Hokr Efold Erun)
    as (d1 & Hinv1 & Hg1 & Hn1).
  (* at least one subquery for the right side *)
  set (dst1' := if Nat.eqb (length dst1) (length dst) then dst1 ++ [chain_subquery dst1 (length dst) rsrc] else dst1) in *.
  assert (Hright : exists d1', invg (length dst) rsrc dst1' db1 rt d1' /\ grows d d1' (length dst) (flat_map as_names rops)
                               /\ names_sub dst dst1' (flat_map as_names rops) /\ length dst < length dst1').
  { destruct (invg_eval _ _ _ _ _ _ Hinv1) as (l1 & He1 & Ha1 & Hw1 & Hle1).
    subst dst1'. destruct (Nat.eqb (length dst1) (length dst)) eqn:El.
    - apply Nat.eqb_eq in El.
      destruct (invg_push_gen (length dst) rsrc dst1 db1 rt d1 None None None Hinv1 (Htbl _ (or_introl eq_refl)) I) as (G1 & G2).
      cbn [finish_subq sq_sort sq_take] in G1, G2. eexists. split; [exact G1|]. split.
      + rewrite <- (app_nil_r (flat_map as_names rops)). eapply grows_trans; [exact Hg1|exact G2].
      + split.
        * rewrite <- (app_nil_r (flat_map as_names rops)). eapply names_sub_trans; [exact Hn1|].
          apply names_sub_push. left. apply subquery_name_gen.
        * rewrite length_snoc. lia.
    - apply Nat.eqb_neq in El. exists d1. repeat split; try assumption. lia. }
  destruct Hright as (d1' & Hinvr & Hgr & Hnr & Hlen).
  (* the flavor and the condition *)
  match type of Hs with context [bind ?x _] => destruct x as [outer|pe] eqn:Eouter end; cbn [bind] in Hs; [|discriminate].
  destruct (wexpr (mkCtx sc ModeJoin) (build_join_cond sc conds)) as [cond|pe] eqn:Econd; cbn [bind] in Hs; [|discriminate].
  injection Hs as <-.
  rewrite (flags_agree flavor outer Eouter) in Hr. injection Hr as <- <-.
  (* the right side's last subquery is on top of the SQL database *)
  destruct (invg_eval _ _ _ _ _ _ Hinvr) as (lr & Her & Har & Hwr & Hler).
  destruct Hinvr as [dr lr' Hl' He' Ha' Hs' Hw' | dst0 s d0 l0 Edst Hd H0 H1 Ha' Hw']; [lia|].
  (* the left side: the table so far, still visible under its name *)
  assert (Hleft : lookup ((sq_name s, rt) :: d0)
                    (if Nat.ltb ds (length dst) then match last_opt dst with Some s0 => sq_name s0 | None => [] end else iname src)
                  = Some cur).
  { destruct Hinv as [d' l'' Hl'' He'' Ha'' Hsrc'' Hw'' | dstl sl dl ll -> Hdl H0l H1l Hal Hwl].
    - (* no operator before the join: the base table *)
      rewrite Hl'', Nat.ltb_irrefl. rewrite Hgr.
      + rewrite (Ha'' _ Hng). exact Hsrc''.
      + intros i _. apply nongen_not_generated. exact Hng.
      + intros Hin. destruct (Hasn _ Hin) as (_ & B & _). congruence.
    - rewrite length_snoc, last_opt_snoc.
      assert (Nat.ltb ds (S (length dstl)) = true) as -> by (apply Nat.ltb_lt; lia).
      rewrite Hgr.
      + apply lookup_head.
      + intros i Hi. pose proof (wf_last _ _ Hwl) as Hx. unfold wf_entry in Hx. destruct (is_as sl).
        * apply nongen_not_generated. exact Hx.
        * rewrite Hx. intros E. apply subquery_name_inj in E. rewrite length_snoc in Hi. lia.
      + intros Hin. destruct (Hasn _ Hin) as (A & _ & C & _). apply C. rewrite map_app. apply in_or_app. right. left. reflexivity. }
  set (J := mkSubq (subquery_name (length dst1'))
              (SrcJoin (str_eqb (match flavor with Some f => iname f | None => w_innerunique end) w_innerunique)
                       (if Nat.ltb ds (length dst) then match last_opt dst with Some s0 => sq_name s0 | None => [] end else iname src)
                       outer (match last_opt dst1' with Some s0 => sq_name s0 | None => [] end)
                       (build_join_cond sc conds) cond) None None None).
  set (v := join_rows ev (str_eqb (match flavor with Some f => iname f | None => w_innerunique end) w_innerunique) outer
                      (build_join_cond sc conds) cur rt).
  exists ((sq_name J, v) :: (sq_name s, rt) :: d0). split; [|split].
  - eapply (G_snoc ds src (dst1' ++ [J]) _ v dst1' J); [reflexivity|lia|exact Her| | |].
    + unfold eval_subq, J. cbn [sq_source sq_op eval_source sq_sort sq_take finish_subq].
      rewrite Hleft. rewrite Edst, last_opt_snoc. rewrite lookup_head. reflexivity.
    + unfold J. cbn [sq_name]. apply agree_push_gen. exact Har.
    + apply names_wf_snoc; [exact Hwr|]. unfold wf_entry, is_as, J. cbn [sq_op sq_name]. reflexivity.
  - rewrite <- (app_nil_r (flat_map as_names rops)). eapply grows_trans.
    + eapply grows_weaken; [exact Hle|exact Hgr].
    + apply grows_push. left. exists (length dst1'). split; [lia|reflexivity].
  - rewrite <- (app_nil_r (flat_map as_names rops)). eapply names_sub_trans; [exact Hnr|].
    apply names_sub_push. left. apply subquery_name_gen.
Qed.

Theorem stepP_all o : stepP o.
Proof. induction o using operator_ind'; [apply stepP_plain; assumption|apply stepP_join; assumption]. Qed.

(** ** the theorem *)
Lemma invg_statement src dst dbp cur d : invg 0 src dst dbp cur d -> dst <> [] ->
  eval_statement F ev source db0 dst = Some cur.
Proof.
  intros [d' l Hl He Ha Hs Hw | dst0 s d0 l0 -> Hd H0 H1 Ha Hw] Hne.
  - destruct dst; [congruence|discriminate].
  - unfold eval_statement. rewrite eval_subqs_app, H0. cbn [eval_subqs]. rewrite H1. reflexivity.
Qed.

Theorem split_queries_denotes_pipeline_joins t subqs :
  ok (tsrc t) [] (flat_map as_names (tops t)) (flat_map table_names (tops t)) ->
  split_queries sc [] t = Ok subqs ->
  forall r, run_pipeline F ev source sc db0 t = Some r -> eval_statement F ev source db0 subqs = Some r.
Proof.
  intros Hok Hs r Hr. unfold split_queries in Hs. cbn [length] in Hs.
  unfold run_pipeline in Hr.
  destruct (lookup db0 (iname (tsrc t))) as [base|] eqn:Eb; [|discriminate].
  destruct (run_ops F ev source sc db0 base (tops t)) as [[dbp' cur']|] eqn:Erun; [|discriminate].
  injection Hr as <-.
  destruct (fold_res (split_op sc 0 (tsrc t)) (tops t) []) as [dst1|p] eqn:Ef; cbn [bind] in Hs; [|discriminate].
  injection Hs as <-.
  assert (Hstart : invg 0 (tsrc t) [] db0 base db0).
  { eapply G_base; [reflexivity|reflexivity|intros n _; reflexivity|exact Eb|]. intros i s Hi. destruct i; discriminate. }
  assert (Hall : Forall stepP (tops t)) by (apply Forall_forall; intros o _; apply stepP_all).
  destruct (steps_g (tops t) Hall 0 (tsrc t) [] db0 base db0 dst1 dbp' cur' Hstart Hok Ef Erun) as (d1 & Hinv1 & _ & _).
  destruct (Nat.eqb (length dst1) 0) eqn:El.
  - destruct dst1; [|discriminate]. cbn [app].
    destruct Hok as (Hng & _).
    destruct (invg_push_gen 0 (tsrc t) [] dbp' cur' d1 None None None Hinv1 Hng I) as (G1 & _).
    cbn [finish_subq sq_sort sq_take app length] in G1.
    eapply invg_statement; [exact G1|discriminate].
  - eapply invg_statement; [exact Hinv1|]. destruct dst1; [discriminate|discriminate].
Qed.

End Join.
