(** * SqlGlueWriter: everything the expression writer prints satisfies [glue_ok].
    Each written expression is a "segment": internally glued, starting with a character that may
    follow an opening parenthesis, a space or (for operands) a sign, and ending with a character
    after which a space, a closing bracket, a comma or a semicolon is read apart. *)
From PQL Require Import Model.Compile Spec.SqlLex Proofs.QuoteFacts Proofs.SqlGlue Proofs.ExprInd Proofs.TableFacts Proofs.WriterFacts Proofs.ReadBack.
From Coq Require Import Lia ZifyBool ZifyNat ZifyN String.
Local Open Scope list_scope.
Local Open Scope nat_scope.
Local Notation length := List.length (only parsing).

(** ** what follows a piece list matters only through its last character *)
Definition lastcompat (s : str) (nx : option N) : bool :=
  match last_char s with Some x => nx_compat x nx | None => true end.

Lemma last_char_app (a b : str) : b <> [] -> last_char (a ++ b) = last_char b.
Proof.
  intros Hb. unfold last_char. rewrite rev_app_distr. destruct (rev b) as [|x r] eqn:E; [|reflexivity].
  apply (f_equal (@rev N)) in E. rewrite rev_involutive in E. contradiction.
Qed.

Lemma atoms_text_nonempty l : glue_atoms l None = true -> l <> [] -> atoms_text l <> [].
Proof.
  destruct l as [|a r]; [congruence|]. intros H _. cbn [glue_atoms] in H. apply andb_prop in H as [H _]. apply andb_prop in H as [Hwf _].
  pose proof (atom_nonempty a Hwf). cbn [atoms_text flat_map]. destruct (atom_text a); [cbn [length] in *; lia|discriminate].
Qed.

Lemma glue_atoms_nx l nx : glue_atoms l nx = glue_atoms l None && lastcompat (atoms_text l) nx.
Proof.
  induction l as [|a r IH]; [reflexivity|]. cbn [glue_atoms]. rewrite IH.
  destruct (atom_wf a) eqn:Hwf; [|reflexivity]. cbn [andb].
  pose proof (atom_nonempty a Hwf) as Hne.
  destruct r as [|b r'].
  - cbn [atoms_text flat_map first_of glue_atoms andb]. rewrite app_nil_r. unfold atom_follow, lastcompat.
    destruct (last_char (atom_text a)); cbn [nx_compat]; [rewrite Bool.andb_true_r|]; reflexivity.
  - destruct (glue_atoms (b :: r') None) eqn:Hg; [|rewrite !Bool.andb_false_r; reflexivity].
    pose proof (atoms_text_nonempty _ Hg ltac:(discriminate)) as Hr.
    assert (Hf : forall nx', first_of (atoms_text (b :: r')) nx' = first_of (atoms_text (b :: r')) None) by (intros nx'; destruct (atoms_text (b :: r')); [contradiction|reflexivity]).
    rewrite (Hf nx). unfold lastcompat at 2. change (atoms_text (a :: b :: r')) with (atom_text a ++ atoms_text (b :: r')).
    rewrite last_char_app by exact Hr. fold (lastcompat (atoms_text (b :: r')) nx).
    destruct (atom_follow a _), (lastcompat (atoms_text (b :: r')) nx); reflexivity.
Qed.

Lemma piece_glue_nx p nx : piece_glue p nx = piece_glue p None && lastcompat (render_piece p) nx.
Proof.
  unfold piece_glue. destruct (piece_atoms p) as [l|] eqn:E; [|reflexivity].
  rewrite glue_atoms_nx, (piece_atoms_text _ _ E). reflexivity.
Qed.

Lemma render_cons p r : render (p :: r) = render_piece p ++ render r.
Proof. reflexivity. Qed.

Lemma lastcompat_nil nx : lastcompat [] nx = true.
Proof. reflexivity. Qed.

Lemma lastcompat_none s : lastcompat s None = true.
Proof. unfold lastcompat. destruct (last_char s); reflexivity. Qed.

Lemma lastcompat_app (a b : str) nx : b <> [] -> lastcompat (a ++ b) nx = lastcompat b nx.
Proof. intros H. unfold lastcompat. rewrite last_char_app by exact H. reflexivity. Qed.

Lemma pieces_glue_nx ps nx : pieces_glue ps nx = pieces_glue ps None && lastcompat (render ps) nx.
Proof.
  induction ps as [|p r IH]; [reflexivity|]. cbn [pieces_glue]. rewrite IH, render_cons.
  rewrite (piece_glue_nx p (first_of (render r) nx)), (piece_glue_nx p (first_of (render r) None)).
  destruct (piece_glue p None); [|reflexivity]. cbn [andb].
  destruct (render r) as [|y t] eqn:Er.
  - cbn [first_of]. rewrite app_nil_r, lastcompat_none. cbn [andb].
    destruct (pieces_glue r None); [|rewrite !Bool.andb_false_r; reflexivity]. cbn [andb].
    rewrite Bool.andb_true_r. reflexivity.
  - cbn [first_of]. rewrite lastcompat_app by discriminate.
    destruct (lastcompat (render_piece p) (Some y)), (pieces_glue r None), (lastcompat (y :: t) nx); reflexivity.
Qed.

Lemma render_app' a b : render (a ++ b) = render a ++ render b.
Proof. unfold render. apply flat_map_app. Qed.

Lemma pieces_glue_app a b nx : pieces_glue (a ++ b) nx = pieces_glue a (first_of (render b) nx) && pieces_glue b nx.
Proof.
  induction a as [|p r IH]; cbn [app pieces_glue]; [reflexivity|]. rewrite IH, render_app', first_of_app.
  destruct (piece_glue p _), (pieces_glue r _), (pieces_glue b nx); reflexivity.
Qed.

(** ** segments *)
Definition starts_in (P : N -> bool) (s : str) : Prop := match s with c :: _ => P c = true | [] => False end.
Definition ends_in (Q : N -> bool) (s : str) : Prop := match last_char s with Some x => Q x = true | None => False end.

Definition Seg (P Q : N -> bool) (ps : list piece) : Prop :=
  pieces_glue ps None = true /\ starts_in P (render ps) /\ ends_in Q (render ps).

Definition joint (Q P : N -> bool) : Prop := forall x y, Q x = true -> P y = true -> compat x y = true.

Lemma starts_nonempty P s : starts_in P s -> s <> [].
Proof. destruct s; [contradiction|discriminate]. Qed.
Lemma ends_nonempty Q s : ends_in Q s -> s <> [].
Proof. unfold ends_in, last_char. destruct s; [cbn; contradiction|discriminate]. Qed.

Lemma seg_app P Q P' Q' a b : Seg P Q a -> Seg P' Q' b -> joint Q P' -> Seg P Q' (a ++ b).
Proof.
  intros (Ga & Sa & Ea) (Gb & Sb & Eb) J. unfold Seg. rewrite pieces_glue_app, render_app'. split; [|split].
  - rewrite pieces_glue_nx, Ga, Gb. cbn [andb]. rewrite Bool.andb_true_r.
    unfold lastcompat. unfold ends_in in Ea. destruct (last_char (render a)) as [x|]; [|contradiction].
    destruct (render b) as [|y t]; [contradiction|]. cbn [first_of nx_compat]. apply J; assumption.
  - destruct (render a); [contradiction|exact Sa].
  - unfold ends_in. rewrite last_char_app by (eapply ends_nonempty; exact Eb). exact Eb.
Qed.

Lemma seg_weaken (P Q P' Q' : N -> bool) ps : Seg P Q ps -> (forall c, P c = true -> P' c = true) -> (forall c, Q c = true -> Q' c = true) -> Seg P' Q' ps.
Proof.
  intros (G & S & E) HP HQ. split; [exact G|]. split.
  - destruct (render ps); [contradiction|]. apply HP. exact S.
  - unfold ends_in in *. destruct (last_char (render ps)); [apply HQ; exact E|contradiction].
Qed.

(** character classes *)
Definition is_start_op (c : N) : bool := (c =? 34)%N || (c =? 39)%N || is_digit c || is_word_start c || (c =? 40)%N.
Definition is_start (c : N) : bool := is_start_op c || (c =? 45)%N || (c =? 43)%N.
Definition is_end (c : N) : bool := (c =? 34)%N || (c =? 39)%N || is_word_char c || (c =? 46)%N || (c =? 41)%N || (c =? 93)%N.

Lemma start_op_start c : is_start_op c = true -> is_start c = true.
Proof. unfold is_start. intros ->. reflexivity. Qed.

(** characters after which / before which anything is read apart *)
Definition safe1 (x : N) : bool :=
  negb (is_word_char x) && negb (x =? 46)%N && negb (x =? 45)%N && negb (x =? 47)%N && negb (x =? 60)%N && negb (x =? 62)%N
  && negb (x =? 124)%N && negb (x =? 34)%N && negb (x =? 39)%N.
Definition safe2 (y : N) : bool :=
  negb (is_word_char y) && negb (y =? 46)%N && negb (y =? 45)%N && negb (y =? 42)%N && negb (y =? 62)%N && negb (y =? 61)%N
  && negb (y =? 124)%N && negb (y =? 34)%N && negb (y =? 39)%N.

Lemma compat_safe1 x y : safe1 x = true -> compat x y = true.
Proof.
  unfold safe1. intros H.
  repeat match type of H with _ && _ = true => let H2 := fresh "P" in apply andb_prop in H as [H H2]; apply Bool.negb_true_iff in H2 end.
  apply Bool.negb_true_iff in H. unfold compat. rewrite H, P, P0, P1, P2, P3, P4, P5, P6. reflexivity.
Qed.

Lemma compat_safe2 x y : safe2 y = true -> compat x y = true.
Proof.
  unfold safe2. intros H.
  repeat match type of H with _ && _ = true => let H2 := fresh "P" in apply andb_prop in H as [H H2]; apply Bool.negb_true_iff in H2 end.
  apply Bool.negb_true_iff in H. unfold compat. rewrite H, P, P0, P1, P2, P3, P4, P5, P6. cbn [orb].
  rewrite !Bool.andb_false_r. reflexivity.
Qed.

Lemma joint_safe1 x P : safe1 x = true -> joint (N.eqb x) P.
Proof. intros H a b Ha _. apply N.eqb_eq in Ha. subst a. apply compat_safe1. exact H. Qed.
Lemma joint_safe2 y Q : safe2 y = true -> joint Q (N.eqb y).
Proof. intros H a b _ Hb. apply N.eqb_eq in Hb. subst b. apply compat_safe2. exact H. Qed.

Lemma joint_minus_op : joint (N.eqb 45) is_start_op.
Proof.
  intros x y Hx Hy. apply N.eqb_eq in Hx. subst x.
  assert (H : (y =? 45)%N = false) by (unfold is_start_op, is_digit, is_word_start, is_alpha, in_range in Hy; lia).
  unfold compat. rewrite H. reflexivity.
Qed.

Lemma joint_chars a b : compat a b = true -> joint (N.eqb a) (N.eqb b).
Proof. intros H x y Hx Hy. apply N.eqb_eq in Hx, Hy. subst. exact H. Qed.

(** ** the pieces *)
Definition lit_check (s : str) (c1 c2 : N) : bool :=
  piece_glue (PLit s) None && match s with c :: _ => (c1 =? c)%N | [] => false end
  && match last_char s with Some x => (c2 =? x)%N | None => false end.

Lemma seg_lit s c1 c2 : lit_check s c1 c2 = true -> Seg (N.eqb c1) (N.eqb c2) [PLit s].
Proof.
  unfold lit_check. intros H. apply andb_prop in H as [H H3]. apply andb_prop in H as [H1 H2].
  unfold Seg. cbn [pieces_glue render flat_map render_piece first_of]. rewrite app_nil_r, H1. split; [reflexivity|]. split.
  - destruct s; [discriminate|exact H2].
  - unfold ends_in. destruct (last_char s); [exact H3|discriminate].
Qed.

Lemma seg_quoted (q : N) (p : piece) n : ((q =? 34)%N || (q =? 39)%N) = true -> piece_atoms p = Some [AQuo q n] -> render_piece p = quote_with q n ->
  Seg (N.eqb q) (N.eqb q) [p].
Proof.
  intros Hq Ha Hr. unfold Seg. cbn [pieces_glue render flat_map first_of]. rewrite app_nil_r, Hr. unfold piece_glue. rewrite Ha.
  cbn [glue_atoms atom_wf atoms_text flat_map first_of]. rewrite Hq. cbn [andb]. split; [|split].
  - unfold atom_follow. destruct (last_char _); reflexivity.
  - rewrite quote_with_eq. cbn [starts_in]. apply N.eqb_refl.
  - unfold ends_in. rewrite quote_with_eq. change (q :: flat_map (esc q) n ++ [q]) with ((q :: flat_map (esc q) n) ++ [q]).
    rewrite last_char_snoc. apply N.eqb_refl.
Qed.

Lemma seg_ident n : Seg (N.eqb 34) (N.eqb 34) [PIdent n].
Proof. apply (seg_quoted 34 (PIdent n) n); reflexivity. Qed.
Lemma seg_str v : Seg (N.eqb 39) (N.eqb 39) [PStr v].
Proof. apply (seg_quoted 39 (PStr v) v); reflexivity. Qed.

Lemma seg_num v : is_num_text v = true -> Seg is_digit (fun x => is_digit x || (x =? 46)%N) [PNum v].
Proof.
  intros Hv. unfold Seg. cbn [pieces_glue render flat_map render_piece first_of piece_glue piece_atoms]. rewrite app_nil_r.
  unfold piece_glue. cbn [piece_atoms glue_atoms atom_wf atoms_text flat_map first_of]. rewrite Hv. cbn [andb]. split; [|split].
  - unfold atom_follow. destruct (last_char _); reflexivity.
  - unfold is_num_text in Hv. apply andb_prop in Hv as [Hv _]. apply andb_prop in Hv as [_ Hd]. destruct v; [discriminate|exact Hd].
  - unfold is_num_text in Hv. apply andb_prop in Hv as [_ Hl]. unfold ends_in. destruct (last_char v); [exact Hl|discriminate].
Qed.

Lemma seg_func n : is_word_text n = true -> Seg is_word_start is_word_char [PFunc n].
Proof.
  intros Hv. unfold Seg. cbn [pieces_glue render flat_map render_piece first_of]. rewrite app_nil_r.
  unfold piece_glue. cbn [piece_atoms glue_atoms atom_wf atoms_text flat_map first_of]. rewrite Hv. cbn [andb]. split; [|split].
  - unfold atom_follow. destruct (last_char _); reflexivity.
  - unfold is_word_text in Hv. destruct n as [|c r]; [discriminate|]. apply andb_prop in Hv as [Hc _]. exact Hc.
  - unfold is_word_text in Hv. destruct n as [|c r]; [discriminate|]. apply andb_prop in Hv as [Hc Hr].
    unfold ends_in. destruct (last_char (c :: r)) as [x|] eqn:El.
    + apply (last_char_in is_word_char (c :: r) x); [cbn [forallb]; rewrite (word_start_char c Hc), Hr; reflexivity|exact El].
    + unfold last_char in El. cbn [rev] in El. destruct (rev r); discriminate.
Qed.

(** literal followed by more / more followed by a literal / argument followed by a literal *)
Lemma seg_lit_cons s c1 c2 (P Q : N -> bool) X : lit_check s c1 c2 = true -> safe1 c2 = true -> Seg P Q X -> Seg (N.eqb c1) Q (PLit s :: X).
Proof. intros Hl Hs HX. change (PLit s :: X) with ([PLit s] ++ X). eapply seg_app; [apply seg_lit; exact Hl|exact HX|apply joint_safe1; exact Hs]. Qed.

Lemma seg_app_lit (P Q : N -> bool) a c (Q' : N -> bool) X : Seg P Q a -> Seg (N.eqb c) Q' X -> safe2 c = true -> Seg P Q' (a ++ X).
Proof. intros Ha HX Hs. eapply seg_app; [exact Ha|exact HX|apply joint_safe2; exact Hs]. Qed.

Lemma seg_app_after (P : N -> bool) a c (P' Q' : N -> bool) X : Seg P (N.eqb c) a -> Seg P' Q' X -> safe1 c = true -> Seg P Q' (a ++ X).
Proof. intros Ha HX Hs. eapply seg_app; [exact Ha|exact HX|apply joint_safe1; exact Hs]. Qed.

Lemma seg_end (P : N -> bool) c ps : Seg P (N.eqb c) ps -> is_end c = true -> Seg P is_end ps.
Proof. intros H Hc. eapply seg_weaken; [exact H|auto|]. intros x Hx. apply N.eqb_eq in Hx. subst x. exact Hc. Qed.
Lemma seg_start c (Q : N -> bool) (P' : N -> bool) ps : Seg (N.eqb c) Q ps -> P' c = true -> Seg P' Q ps.
Proof. intros H Hc. eapply seg_weaken; [exact H| |auto]. intros x Hx. apply N.eqb_eq in Hx. subst x. exact Hc. Qed.

(** in parentheses *)
Lemma seg_wrap (P Q : N -> bool) b : Seg P Q b -> Seg (N.eqb 40) (N.eqb 41) (lit "(" ++ b ++ lit ")").
Proof.
  intros Hb. unfold lit. cbn [app].
  eapply (seg_lit_cons (L "(") 40 40); [reflexivity|reflexivity|].
  apply (seg_app_lit P Q b 41 (N.eqb 41)); [exact Hb|apply (seg_lit (L ")") 41 41); reflexivity|reflexivity].
Qed.

(** ** expressions *)
Fixpoint lexok (e : expr) : Prop :=
  match e with
  | ELit _ k v => k = KNumber -> is_num_text v = true
  | ECall f _ args _ =>
    (known_func (iname f) = None -> is_word_text (iname f) = true) /\
    (fix all (l : list expr) : Prop := match l with [] => True | a :: r => lexok a /\ all r end) args
  | EBin x _ _ y => lexok x /\ lexok y
  | EUnary _ _ x | EParen _ x _ => lexok x
  | EIn x _ _ vs _ => lexok x /\ (fix all (l : list expr) : Prop := match l with [] => True | a :: r => lexok a /\ all r end) vs
  | EIndex x _ i _ => lexok x /\ lexok i
  | EQual _ => True
  end.

Lemma lexok_all l : (fix all (l : list expr) : Prop := match l with [] => True | a :: r => lexok a /\ all r end) l <-> Forall lexok l.
Proof. induction l as [|a r IH]; [split; [constructor|auto]|]. split; [intros [H1 H2]; constructor; [exact H1|apply IH; exact H2]|intros H; inversion H; subst; split; [assumption|apply IH; assumption]]. Qed.

Definition ESeg (w : wrap) (ps : list piece) : Prop :=
  Seg (match w with WOperand => is_start_op | _ => is_start end) is_end ps.

Lemma eseg_any w ps : ESeg WOperand ps -> ESeg w ps.
Proof. intros H. destruct w; try exact H; (eapply seg_weaken; [exact H|apply start_op_start|auto]). Qed.

Lemma eseg_plain w ps : ESeg w ps -> Seg is_start is_end ps.
Proof. destruct w; intros H; try exact H. eapply seg_weaken; [exact H|apply start_op_start|auto]. Qed.

Section WriterGlue.
Variable c : ctx.
Hypothesis scope_glue : forall n v, scope_get (c_scope c) n = Some v -> Seg is_start_op is_end v.

Lemma builtin_seg n sql : assoc_str builtin_idents n = Some sql -> Seg is_start_op is_end [PLit sql].
Proof.
  intros H. apply assoc_str_In in H. cbn [In map snd builtin_idents] in H.
  destruct H as [<-|[<-|[<-|[]]]].
  - apply (seg_end _ 69); [apply (seg_start 70); [apply seg_lit; reflexivity|reflexivity]|reflexivity].
  - apply (seg_end _ 76); [apply (seg_start 78); [apply seg_lit; reflexivity|reflexivity]|reflexivity].
  - apply (seg_end _ 69); [apply (seg_start 84); [apply seg_lit; reflexivity|reflexivity]|reflexivity].
Qed.

Lemma write_parts_seg m : forall ps first pcs, ps <> [] -> write_parts m first ps = Ok pcs ->
  Seg (if first then N.eqb 34 else N.eqb 46) (N.eqb 34) pcs.
Proof.
  induction ps as [|p r IH]; intros first pcs Hne H; [congruence|]. cbn [write_parts] in H.
  destruct (ident_is_alias p && negb (mode_eqb m ModeJoin)); [discriminate|].
  apply bind_ok in H as (tl & Htl & [= <-]).
  assert (Hhead : Seg (if first then N.eqb 34 else N.eqb 46) (N.eqb 34) ((if first then [] else lit ".") ++ [PIdent (iname p)])).
  { destruct first; cbn [app]; [apply seg_ident|].
    eapply seg_app; [apply (seg_lit (L ".") 46 46); reflexivity|apply seg_ident|apply joint_chars; reflexivity]. }
  destruct r as [|q r'].
  - cbn [write_parts] in Htl. injection Htl as <-. exact Hhead.
  - specialize (IH false tl ltac:(discriminate) Htl).
    replace ((if first then [] else lit ".") ++ PIdent (iname p) :: tl) with (((if first then [] else lit ".") ++ [PIdent (iname p)]) ++ tl)
      by (rewrite <- app_assoc; reflexivity).
    eapply seg_app; [exact Hhead|exact IH|apply joint_chars; reflexivity].
Qed.

Lemma seg_join : forall (pl : list (list piece)), pl <> [] -> Forall (Seg is_start is_end) pl ->
  Seg is_start is_end (join_pieces (lit ", ") pl).
Proof.
  induction pl as [|x r IH]; intros Hne Hall; [congruence|]. inversion Hall as [|? ? Hx Hr]; subst.
  destruct r as [|y r']; [exact Hx|]. cbn [join_pieces].
  apply (seg_app_lit is_start is_end x 44 is_end); [exact Hx| |reflexivity].
  unfold lit. cbn [app]. eapply (seg_lit_cons (L ", ") 44 32); [reflexivity|reflexivity|]. apply IH; [discriminate|exact Hr].
Qed.

Definition anyc (c : N) : bool := true.
Lemma binop_seg op sqlop : binop_sql op = Some sqlop -> Seg anyc anyc [PLit sqlop].
Proof. destruct op; cbn [binop_sql]; intros [= <-]; unfold Seg; vm_compute; repeat split. Qed.

(** the body of an expression that is neither a sign nor wrapped when an operand starts like an operand *)
Definition opstart (e : expr) (b : list piece) : Prop :=
  match e with EUnary _ _ _ => True | _ => if complex e then True else Seg is_start_op is_end b end.

Lemma wrap_seg w e (body : res (list piece)) ps :
  (if needs_wrap w e then do b <- body; Ok (lit "(" ++ b ++ lit ")") else body) = Ok ps ->
  (forall b, body = Ok b -> Seg is_start is_end b /\ opstart e b) -> ESeg w ps.
Proof.
  intros H Hb. destruct (needs_wrap w e) eqn:En.
  - apply bind_ok in H as (b & Hbody & [= <-]). destruct (Hb b Hbody) as [Hs _].
    apply eseg_any. unfold ESeg. apply seg_wrap in Hs. apply (seg_end _ 41); [apply (seg_start 40); [exact Hs|reflexivity]|reflexivity].
  - destruct (Hb ps H) as [Hs Ho]. destruct w; cbn [needs_wrap] in En; try exact Hs.
    unfold ESeg. unfold opstart in Ho. destruct e; try discriminate En; rewrite ?En in Ho; exact Ho.
Qed.
End WriterGlue.

Ltac unbind H :=
  match type of H with
  | bind _ _ = Ok _ =>
      let x := fresh "p" in let Hx := fresh "Hq" in
      apply bind_ok in H as (x & Hx & H); unbind Hx; unbind H
  | Ok _ = Ok _ => injection H as <-
  | _ => idtac
  end.

Section WriterGlueMain.
Variable c : ctx.
Hypothesis scope_glue : forall n v, scope_get (c_scope c) n = Some v -> Seg is_start_op is_end v.

Lemma sp_seg : Seg (N.eqb 32) (N.eqb 32) (lit " ").
Proof. apply (seg_lit (L " ") 32 32). reflexivity. Qed.

(** x <lit> y, where the literal starts and ends with a space or bracket *)
Lemma seg_infix (P : N -> bool) px s c1 c2 py : Seg P is_end px -> lit_check s c1 c2 = true -> safe2 c1 = true -> safe1 c2 = true ->
  Seg is_start is_end py -> Seg P is_end (px ++ PLit s :: py).
Proof.
  intros Hx Hl H1 H2 Hy. apply (seg_app_lit P is_end px c1 is_end); [exact Hx| |exact H1].
  eapply seg_lit_cons; [exact Hl|exact H2|exact Hy].
Qed.

Lemma seg_binop px py s : Seg is_start is_end px -> Seg is_start is_end py -> Seg anyc anyc [PLit s] ->
  Seg is_start is_end (px ++ lit " " ++ [PLit s] ++ lit " " ++ py).
Proof.
  intros Hpx Hpy Hs.
  apply (seg_app_lit is_start is_end px 32 is_end); [exact Hpx| |reflexivity].
  apply (seg_app_after (N.eqb 32) (lit " ") 32 anyc is_end); [exact sp_seg| |reflexivity].
  apply (seg_app anyc anyc (N.eqb 32) is_end); [exact Hs| |intros ? ? _ Hy; apply N.eqb_eq in Hy; subst; apply compat_safe2; reflexivity].
  apply (seg_app_after (N.eqb 32) (lit " ") 32 is_start is_end); [exact sp_seg|exact Hpy|reflexivity].
Qed.

Lemma Forall2_segs (w : wrap) : forall (l : list expr) pl,
  Forall (fun x => wfr x -> lexok x -> forall w ps, wx c w x = Ok ps -> ESeg w ps) l -> Forall wfr l -> Forall lexok l ->
  Forall2 (fun r x => r = Ok x) (map (wx c w) l) pl -> Forall (Seg is_start is_end) pl.
Proof.
  induction l as [|a r IH]; intros pl HI Hw Hl H2; cbn [map] in H2; inversion H2; subst; [constructor|].
  inversion HI; subst. inversion Hw; subst. inversion Hl; subst.
  constructor; [eapply eseg_plain; eauto|]. eapply IH; eassumption.
Qed.

Theorem wx_glue : forall e, wfr e -> lexok e -> forall w ps, wx c w e = Ok ps -> ESeg w ps.
Proof.
  induction e using expr_ind'; intros Hwf Hlx w pcs Hx.
  - (* names *)
    cbn [wfr] in Hwf. cbn [wx] in Hx. eapply wrap_seg; [exact Hx|]. clear Hx. intros b Hb.
    assert (Hgen : write_parts (c_mode c) true ps = Ok b -> Seg is_start is_end b /\ opstart (EQual ps) b).
    { intros Hg. pose proof (write_parts_seg (c_mode c) ps true b Hwf Hg) as Hs. cbn [opstart complex].
      assert (Ho : Seg is_start_op is_end b) by (apply (seg_end _ 34); [apply (seg_start 34); [exact Hs|reflexivity]|reflexivity]).
      split; [eapply seg_weaken; [exact Ho|apply start_op_start|auto]|exact Ho]. }
    assert (Hop : Seg is_start_op is_end b -> Seg is_start is_end b /\ opstart (EQual ps) b).
    { intros Ho. cbn [opstart complex]. split; [eapply seg_weaken; [exact Ho|apply start_op_start|auto]|exact Ho]. }
    destruct ps as [|p [|p2 r]]; [congruence| |].
    + destruct (negb (iquoted p)).
      * destruct (scope_get (c_scope c) (iname p)) as [sql|] eqn:Es.
        { injection Hb as <-. apply Hop. eapply scope_glue. exact Es. }
        destruct (assoc_str builtin_idents (iname p)) as [sql|] eqn:Eb.
        { injection Hb as <-. apply Hop. eapply builtin_seg. exact Eb. }
        destruct (mode_eqb (c_mode c) ModeLet); [discriminate|apply Hgen; exact Hb].
      * destruct (mode_eqb (c_mode c) ModeLet); [discriminate|apply Hgen; exact Hb].
    + destruct (mode_eqb (c_mode c) ModeLet); [discriminate|apply Hgen; exact Hb].
  - (* binary operators *)
    cbn [wfr] in Hwf. destruct Hwf as (Hop & Hnin & Hw1 & Hw2). cbn [lexok] in Hlx. destruct Hlx as [Hl1 Hl2].
    cbn [wx] in Hx. eapply wrap_seg; [exact Hx|]. clear Hx. intros b Hb.
    cbn [opstart complex]. split; [|exact I].
    assert (Hargs : forall w1 b', (do px <- wx c w1 e1; do py <- wx c w1 e2; b' px py) = Ok b ->
              exists px py, b' px py = Ok b /\ Seg is_start is_end px /\ Seg is_start is_end py).
    { intros w1 b' Hb'. apply bind_ok in Hb' as (px & Hpx & Hb'). apply bind_ok in Hb' as (py & Hpy & Hb').
      exists px, py. split; [exact Hb'|]. split; eapply eseg_plain; eauto. }
    assert (Hcoal : forall px py s c1, Seg is_start is_end px -> Seg is_start is_end py -> lit_check s c1 32 = true -> safe2 c1 = true ->
              Seg is_start is_end (lit "coalesce(" ++ px ++ PLit s :: py ++ lit ", FALSE)")).
    { intros px py s c1 Hpx Hpy Hl Hs. unfold lit. cbn [app].
      apply (seg_start 99); [|reflexivity]. eapply (seg_lit_cons (L "coalesce(") 99 40); [reflexivity|reflexivity|].
      eapply seg_infix; [exact Hpx|exact Hl|exact Hs|reflexivity|].
      apply (seg_end _ 41); [|reflexivity]. apply (seg_app_lit is_start is_end py 44 (N.eqb 41)); [exact Hpy|apply (seg_lit (L ", FALSE)") 44 41); reflexivity|reflexivity]. }
    assert (Hlower : forall px py s, Seg is_start is_end px -> Seg is_start is_end py -> lit_check s 41 40 = true ->
              Seg is_start is_end (lit "lower(" ++ px ++ PLit s :: py ++ lit ")")).
    { intros px py s Hpx Hpy Hl. unfold lit. cbn [app].
      apply (seg_start 108); [|reflexivity]. eapply (seg_lit_cons (L "lower(") 108 40); [reflexivity|reflexivity|].
      eapply seg_infix; [exact Hpx|exact Hl|reflexivity|reflexivity|].
      apply (seg_end _ 41); [|reflexivity]. apply (seg_app_lit is_start is_end py 41 (N.eqb 41)); [exact Hpy|apply (seg_lit (L ")") 41 41); reflexivity|reflexivity]. }
    destruct op; try discriminate Hop; try congruence; cbn [binop_sql] in Hb.
    all: try (apply Hargs in Hb as (px & py & Hb & Hpx & Hpy); injection Hb as <-;
              apply seg_binop; [exact Hpx|exact Hpy|unfold Seg; vm_compute; repeat split]).
    + (* == *)
      apply Hargs in Hb as (px & py & Hb & Hpx & Hpy).
      destruct (mode_eqb (c_mode c) ModeJoin && _); injection Hb as <-.
      * unfold lit. cbn [app]. apply (seg_infix is_start px (L " = ") 32 32 py); [exact Hpx|reflexivity|reflexivity|reflexivity|exact Hpy].
      * apply (Hcoal px py (L " = ") 32%N); [exact Hpx|exact Hpy|reflexivity|reflexivity].
    + (* != *)
      apply Hargs in Hb as (px & py & Hb & Hpx & Hpy). injection Hb as <-.
      apply (Hcoal px py (L " <> ") 32%N); [exact Hpx|exact Hpy|reflexivity|reflexivity].
    + (* =~ *)
      apply Hargs in Hb as (px & py & Hb & Hpx & Hpy). injection Hb as <-.
      apply (Hlower px py (L ") = lower(")); [exact Hpx|exact Hpy|reflexivity].
    + (* !~ *)
      apply Hargs in Hb as (px & py & Hb & Hpx & Hpy). injection Hb as <-.
      apply (Hlower px py (L ") <> lower(")); [exact Hpx|exact Hpy|reflexivity].
  - (* signs *)
    cbn [wfr] in Hwf. destruct Hwf as (Hop & Hw1). cbn [lexok] in Hlx.
    cbn [wx] in Hx. eapply wrap_seg; [exact Hx|]. clear Hx. intros b Hb. cbn [opstart]. split; [|exact I].
    apply bind_ok in Hb as (px & Hpx & Hb). pose proof (IHe Hw1 Hlx WOperand px Hpx) as Hs. unfold ESeg in Hs.
    destruct Hop as [-> | ->]; injection Hb as <-; unfold lit; cbn [app].
    + apply (seg_start 43); [|reflexivity]. eapply (seg_lit_cons (L "+") 43 43); [reflexivity|reflexivity|exact Hs].
    + apply (seg_start 45); [|reflexivity].
      apply (seg_app (N.eqb 45) (N.eqb 45) is_start_op is_end [PLit (L "-")] px); [apply (seg_lit (L "-") 45 45); reflexivity|exact Hs|apply joint_minus_op].
  - (* in *)
    cbn [wfr] in Hwf. destruct Hwf as (Hw1 & Hne & Hall). apply wfr_all in Hall. cbn [lexok] in Hlx. destruct Hlx as [Hl1 Hlv]. apply lexok_all in Hlv.
    cbn [wx] in Hx. eapply wrap_seg; [exact Hx|]. clear Hx. intros b Hb. cbn [opstart complex]. split; [|exact I].
    apply bind_ok in Hb as (px & Hpx & Hb). apply bind_ok in Hb as (pvs & Hpvs & [= <-]).
    pose proof (eseg_plain _ _ (IHe Hw1 Hl1 WMaybe px Hpx)) as Hsx.
    apply sequence_ok in Hpvs. pose proof (Forall2_segs WMaybe vs pvs H Hall Hlv Hpvs) as Hsl.
    assert (Hpne : pvs <> []) by (intros ->; inversion Hpvs as [E|]; destruct vs; [congruence|discriminate]).
    unfold lit. cbn [app]. apply (seg_infix is_start px (L " IN (") 32 40); [exact Hsx|reflexivity|reflexivity|reflexivity|].
    apply (seg_end _ 41); [|reflexivity]. apply (seg_app_lit is_start is_end _ 41 (N.eqb 41)); [apply seg_join; assumption|apply (seg_lit (L ")") 41 41); reflexivity|reflexivity].
  - (* parentheses *) cbn [wfr] in Hwf. cbn [lexok] in Hlx. cbn [wx] in Hx. apply IHe; assumption.
  - (* literals *)
    cbn [wfr] in Hwf. cbn [lexok] in Hlx. cbn [wx] in Hx. eapply wrap_seg; [exact Hx|]. clear Hx. intros b Hb. cbn [opstart complex].
    assert (Hop : Seg is_start_op is_end b -> Seg is_start is_end b /\ Seg is_start_op is_end b)
      by (intros Ho; split; [eapply seg_weaken; [exact Ho|apply start_op_start|auto]|exact Ho]).
    destruct Hwf as [-> | ->]; injection Hb as <-; apply Hop.
    + eapply seg_weaken; [apply seg_num; apply Hlx; reflexivity| |].
      * intros x Hd. unfold is_start_op. rewrite Hd. rewrite !Bool.orb_true_r. reflexivity.
      * intros x Hd. unfold is_end, is_word_char. apply Bool.orb_true_iff in Hd as [Hd|Hd]; rewrite Hd; rewrite ?Bool.orb_true_r; reflexivity.
    + apply (seg_end _ 39); [apply (seg_start 39); [apply seg_str|reflexivity]|reflexivity].
  - (* calls *)
    cbn [wfr] in Hwf. destruct Hwf as (Hname & Hall). apply wfr_all in Hall. cbn [lexok] in Hlx. destruct Hlx as [Hlname Hlargs]. apply lexok_all in Hlargs.
    cbn [wx] in Hx. eapply wrap_seg; [exact Hx|]. clear Hx. intros b Hb.
    assert (IHarg : forall a w pa, In a args -> wx c w a = Ok pa -> Seg is_start is_end pa).
    { intros a w0 pa Hin Hpa. rewrite Forall_forall in H, Hall, Hlargs. eapply eseg_plain. apply (H a Hin (Hall a Hin) (Hlargs a Hin) w0 pa Hpa). }
    assert (Hletter : forall c0, is_start_op c0 = true -> Seg (N.eqb c0) is_end b -> Seg is_start is_end b /\ opstart (ECall f lp args rp) b).
    { intros c0 Hc0 Hs. assert (Ho : Seg is_start_op is_end b) by (apply (seg_start c0); assumption).
      split; [eapply seg_weaken; [exact Ho|apply start_op_start|auto]|]. cbn [opstart complex]. destruct (known_func (iname f)) as [[? [|]]|]; [exact I|exact Ho|exact Ho]. }
    destruct (known_func (iname f)) as [[wr np]|] eqn:Ek.
    + destruct (arity_ok (writer_arity wr) (length args)) eqn:Ea; cbn [negb] in Hb; [|discriminate].
      assert (Hcomplex : np = true -> Seg is_start is_end b -> Seg is_start is_end b /\ opstart (ECall f lp args rp) b).
      { intros -> Hs. split; [exact Hs|]. cbn [opstart complex]. rewrite Ek. exact I. }
      apply known_func_cases in Ek. cbn [In map snd known_funcs] in Ek.
      destruct Ek as [Ek|[Ek|[Ek|[Ek|[Ek|[Ek|[Ek|[Ek|[Ek|[Ek|[Ek|[]]]]]]]]]]]]; injection Ek as <- <-.
      * (* count *) destruct args; [|discriminate Ea]. cbn in Hb. injection Hb as <-.
        apply (Hletter 99%N); [reflexivity|]. apply (seg_end _ 41); [apply seg_lit; reflexivity|reflexivity].
      * (* countif *) destruct args as [|a [|? ?]]; try discriminate Ea. cbn in Hb. unbind Hb.
        match goal with Hq : wx c WPlain a = Ok ?pa |- _ => pose proof (IHarg a WPlain pa (or_introl eq_refl) Hq) as Hsa end.
        apply (Hletter 99%N); [reflexivity|]. eapply (seg_lit_cons _ 99 32); [reflexivity|reflexivity|].
        rewrite ?app_nil_r. apply (seg_end _ 41); [|reflexivity]. apply (seg_app_lit is_start is_end _ 41 (N.eqb 41)); [exact Hsa|apply seg_lit; reflexivity|reflexivity].
      * (* iff *) destruct args as [|a1 [|a2 [|a3 [|? ?]]]]; try discriminate Ea. cbn in Hb. unbind Hb.
        match goal with H1 : wx c WPlain a1 = Ok ?p1, H2 : wx c WPlain a2 = Ok ?p2, H3 : wx c WPlain a3 = Ok ?p3 |- _ =>
          pose proof (IHarg a1 WPlain p1 ltac:(cbn; tauto) H1) as Hs1;
          pose proof (IHarg a2 WPlain p2 ltac:(cbn; tauto) H2) as Hs2;
          pose proof (IHarg a3 WPlain p3 ltac:(cbn; tauto) H3) as Hs3 end.
        apply (Hletter 67%N); [reflexivity|]. eapply (seg_lit_cons _ 67 40); [reflexivity|reflexivity|].
        eapply (seg_infix is_start _ _ 44 32); [exact Hs1|reflexivity|reflexivity|reflexivity|].
        eapply (seg_infix is_start _ _ 32 32); [exact Hs2|reflexivity|reflexivity|reflexivity|].
        rewrite ?app_nil_r. apply (seg_end _ 68); [|reflexivity]. apply (seg_app_lit is_start is_end _ 32 (N.eqb 68)); [exact Hs3|apply seg_lit; reflexivity|reflexivity].
      * (* iif *) destruct args as [|a1 [|a2 [|a3 [|? ?]]]]; try discriminate Ea. cbn in Hb. unbind Hb.
        match goal with H1 : wx c WPlain a1 = Ok ?p1, H2 : wx c WPlain a2 = Ok ?p2, H3 : wx c WPlain a3 = Ok ?p3 |- _ =>
          pose proof (IHarg a1 WPlain p1 ltac:(cbn; tauto) H1) as Hs1;
          pose proof (IHarg a2 WPlain p2 ltac:(cbn; tauto) H2) as Hs2;
          pose proof (IHarg a3 WPlain p3 ltac:(cbn; tauto) H3) as Hs3 end.
        apply (Hletter 67%N); [reflexivity|]. eapply (seg_lit_cons _ 67 40); [reflexivity|reflexivity|].
        eapply (seg_infix is_start _ _ 44 32); [exact Hs1|reflexivity|reflexivity|reflexivity|].
        eapply (seg_infix is_start _ _ 32 32); [exact Hs2|reflexivity|reflexivity|reflexivity|].
        rewrite ?app_nil_r. apply (seg_end _ 68); [|reflexivity]. apply (seg_app_lit is_start is_end _ 32 (N.eqb 68)); [exact Hs3|apply seg_lit; reflexivity|reflexivity].
      * (* isnotnull *) destruct args as [|a [|? ?]]; try discriminate Ea. cbn in Hb. unbind Hb.
        match goal with Hq : wx c WMaybe a = Ok ?pa |- _ => pose proof (IHarg a WMaybe pa (or_introl eq_refl) Hq) as Hsa end.
        apply Hcomplex; [reflexivity|]. apply (seg_end _ 76); [|reflexivity]. apply (seg_app_lit is_start is_end _ 32 (N.eqb 76)); [exact Hsa|apply seg_lit; reflexivity|reflexivity].
      * (* isnull *) destruct args as [|a [|? ?]]; try discriminate Ea. cbn in Hb. unbind Hb.
        match goal with Hq : wx c WMaybe a = Ok ?pa |- _ => pose proof (IHarg a WMaybe pa (or_introl eq_refl) Hq) as Hsa end.
        apply Hcomplex; [reflexivity|]. apply (seg_end _ 76); [|reflexivity]. apply (seg_app_lit is_start is_end _ 32 (N.eqb 76)); [exact Hsa|apply seg_lit; reflexivity|reflexivity].
      * (* not *) destruct args as [|a [|? ?]]; try discriminate Ea. cbn in Hb. unbind Hb.
        match goal with Hq : wx c WMaybe a = Ok ?pa |- _ => pose proof (IHarg a WMaybe pa (or_introl eq_refl) Hq) as Hsa end.
        apply Hcomplex; [reflexivity|]. rewrite ?app_nil_r. apply (seg_start 78); [|reflexivity]. eapply (seg_lit_cons _ 78 32); [reflexivity|reflexivity|exact Hsa].
      * (* now *) destruct args; [|discriminate Ea]. cbn in Hb. injection Hb as <-.
        apply (Hletter 67%N); [reflexivity|]. apply (seg_end _ 80); [apply seg_lit; reflexivity|reflexivity].
      * (* strcat *) destruct args as [|a r]; [discriminate Ea|]. cbn in Hb.
        match type of Hb with context [sequence (?g 1 r)] =>
          assert (Hgo : forall l i, 1 <= i -> g i l = map (wx c WMaybe) l) end.
        { induction l as [|x l IHl]; intros i Hi; [reflexivity|]. destruct i as [|i]; [lia|]. cbn. f_equal. apply IHl. lia. }
        rewrite (Hgo r 1 (le_n _)) in Hb. clear Hgo. unbind Hb.
        match goal with Hq : wx c WMaybe a = Ok ?pa |- _ => pose proof (IHarg a WMaybe pa (or_introl eq_refl) Hq) as Hsa end.
        match goal with Hs : sequence (map (wx c WMaybe) r) = Ok ?rest |- _ => apply sequence_ok in Hs; rename Hs into Hseq; rename rest into prest end.
        inversion H as [|a0 l0 _ Hr]; subst. inversion Hall as [|a1 l1 _ Hwr]; subst. inversion Hlargs as [|a2 l2 _ Hlr]; subst.
        pose proof (Forall2_segs WMaybe r prest Hr Hwr Hlr Hseq) as Hsl.
        apply Hcomplex; [reflexivity|]. rewrite ?app_nil_r.
        clear - Hsa Hsl. revert p Hsa. induction Hsl as [|x l Hx _ IHl]; intros p Hsa; cbn [flat_map].
        -- rewrite app_nil_r. exact Hsa.
        -- apply (seg_app_lit is_start is_end p 32 is_end); [exact Hsa| |reflexivity].
           eapply (seg_lit_cons _ 32 32); [reflexivity|reflexivity|]. apply IHl. exact Hx.
      * (* tolower *) destruct args as [|a [|? ?]]; try discriminate Ea. cbn in Hb. unbind Hb.
        match goal with Hq : wx c WPlain a = Ok ?pa |- _ => pose proof (IHarg a WPlain pa (or_introl eq_refl) Hq) as Hsa end.
        apply (Hletter 76%N); [reflexivity|]. eapply (seg_lit_cons _ 76 40); [reflexivity|reflexivity|].
        rewrite ?app_nil_r. apply (seg_end _ 41); [|reflexivity]. apply (seg_app_lit is_start is_end _ 41 (N.eqb 41)); [exact Hsa|apply seg_lit; reflexivity|reflexivity].
      * (* toupper *) destruct args as [|a [|? ?]]; try discriminate Ea. cbn in Hb. unbind Hb.
        match goal with Hq : wx c WPlain a = Ok ?pa |- _ => pose proof (IHarg a WPlain pa (or_introl eq_refl) Hq) as Hsa end.
        apply (Hletter 85%N); [reflexivity|]. eapply (seg_lit_cons _ 85 40); [reflexivity|reflexivity|].
        rewrite ?app_nil_r. apply (seg_end _ 41); [|reflexivity]. apply (seg_app_lit is_start is_end _ 41 (N.eqb 41)); [exact Hsa|apply seg_lit; reflexivity|reflexivity].
    + (* a function passed through by name *)
      specialize (Hlname eq_refl).
      apply bind_ok in Hb as (pargs & Hpargs & [= <-]). apply sequence_ok in Hpargs.
      pose proof (Forall2_segs WPlain args pargs H Hall Hlargs Hpargs) as Hsl.
      assert (Hs : Seg is_word_start is_end (PFunc (iname f) :: lit "(" ++ join_pieces (lit ", ") pargs ++ lit ")")).
      { change (PFunc (iname f) :: lit "(" ++ join_pieces (lit ", ") pargs ++ lit ")") with ([PFunc (iname f)] ++ (lit "(" ++ join_pieces (lit ", ") pargs ++ lit ")")).
        apply (seg_app_lit is_word_start is_word_char [PFunc (iname f)] 40 is_end); [apply seg_func; exact Hlname| |reflexivity].
        destruct pargs as [|p0 pr].
        - cbn [join_pieces app lit]. apply (seg_end _ 41); [|reflexivity]. eapply (seg_lit_cons _ 40 40); [reflexivity|reflexivity|apply (seg_lit (L ")") 41 41); reflexivity].
        - apply (seg_end _ 41); [|reflexivity]. eapply seg_wrap. apply seg_join; [discriminate|exact Hsl]. }
      assert (Ho : Seg is_start_op is_end (PFunc (iname f) :: lit "(" ++ join_pieces (lit ", ") pargs ++ lit ")")).
      { eapply seg_weaken; [exact Hs| |auto]. intros x Hx0. unfold is_start_op. rewrite Hx0. rewrite !Bool.orb_true_r. reflexivity. }
      split; [eapply seg_weaken; [exact Ho|apply start_op_start|auto]|]. cbn [opstart complex]. rewrite Ek. exact Ho.
  - (* index *)
    cbn [wfr] in Hwf. destruct Hwf as (Hw1 & Hw2). cbn [lexok] in Hlx. destruct Hlx as [Hl1 Hl2].
    cbn [wx] in Hx. eapply wrap_seg; [exact Hx|]. clear Hx. intros b Hb. cbn [opstart complex]. split; [|exact I].
    apply bind_ok in Hb as (px & Hpx & Hb). apply bind_ok in Hb as (pi & Hpi & [= <-]).
    pose proof (eseg_plain _ _ (IHe1 Hw1 Hl1 WOperand px Hpx)) as Hsx. pose proof (eseg_plain _ _ (IHe2 Hw2 Hl2 WPlain pi Hpi)) as Hsi.
    unfold lit. cbn [app]. apply (seg_infix is_start px (L "[") 91 91); [exact Hsx|reflexivity|reflexivity|reflexivity|].
    apply (seg_end _ 93); [|reflexivity]. apply (seg_app_lit is_start is_end pi 93 (N.eqb 93)); [exact Hsi|apply (seg_lit (L "]") 93 93); reflexivity|reflexivity].
Qed.
End WriterGlueMain.

(** ** subqueries: SELECT ... FROM ... [WHERE|GROUP BY ...] [ORDER BY ...] [LIMIT ...] *)
Section StmtGlue.
Variable source : str.
Variable sc : scope.
Hypothesis scope_glue : forall n v, scope_get sc n = Some v -> Seg is_start_op is_end v.
Let c := mkCtx sc ModeDefault.

Definition wl (e : expr) : Prop := wfr e /\ lexok e.

Lemma wexpr_seg m e ps : wl e -> wx (mkCtx sc m) WPlain e = Ok ps -> Seg is_start is_end ps.
Proof. intros [Hw Hl] H. eapply eseg_plain. eapply (wx_glue (mkCtx sc m)); [exact scope_glue|exact Hw|exact Hl|exact H]. Qed.

(** the sources *)
Definition src_glue (s : ssource) : Prop :=
  match s with
  | SrcName _ => True
  | SrcJoin _ _ _ _ cond ps => wl cond /\ wx (mkCtx sc ModeJoin) WPlain cond = Ok ps
  end.

Lemma ident_end n : Seg is_start_op is_end [PIdent n].
Proof. apply (seg_end _ 34); [apply (seg_start 34); [apply seg_ident|reflexivity]|reflexivity]. Qed.

Lemma seg_lit_cons2 s c1 c2 c3 (Q : N -> bool) X : lit_check s c1 c2 = true -> safe2 c3 = true -> Seg (N.eqb c3) Q X -> Seg (N.eqb c1) Q (PLit s :: X).
Proof. intros Hl Hs HX. change (PLit s :: X) with ([PLit s] ++ X). eapply seg_app; [apply seg_lit; exact Hl|exact HX|apply joint_safe2; exact Hs]. Qed.

Lemma source_seg s : src_glue s -> Seg is_start_op is_end (render_source s).
Proof.
  destruct s as [n|u l o r cond ps]; cbn [src_glue render_source].
  - intros _. apply ident_end.
  - intros [Hwl Hx]. pose proof (wexpr_seg ModeJoin cond ps Hwl Hx) as Hc.
    assert (T1 : Seg (N.eqb 32) is_end (PLit (L " AS ""$right"" ON ") :: ps)) by (eapply (seg_lit_cons _ 32 32); [reflexivity|reflexivity|exact Hc]).
    assert (T2 : Seg (N.eqb 34) is_end ([PIdent r] ++ PLit (L " AS ""$right"" ON ") :: ps))
      by (apply (seg_app_lit (N.eqb 34) (N.eqb 34) [PIdent r] 32 is_end); [apply seg_ident|exact T1|reflexivity]).
    assert (T3 : Seg (N.eqb 32) is_end ((if o then lit " LEFT JOIN " else lit " JOIN ") ++ [PIdent r] ++ PLit (L " AS ""$right"" ON ") :: ps))
      by (destruct o; unfold lit; cbn [app]; (eapply (seg_lit_cons _ 32 32); [reflexivity|reflexivity|exact T2])).
    assert (T4 : Seg (N.eqb 32) is_end (lit " AS ""$left""" ++ (if o then lit " LEFT JOIN " else lit " JOIN ") ++ [PIdent r] ++ PLit (L " AS ""$right"" ON ") :: ps))
      by (unfold lit at 1; cbn [app]; eapply (seg_lit_cons2 _ 32 34 32); [reflexivity|reflexivity|exact T3]).
    set (X4 := lit " AS ""$left""" ++ (if o then lit " LEFT JOIN " else lit " JOIN ") ++ [PIdent r] ++ PLit (L " AS ""$right"" ON ") :: ps) in *.
    change (render_source (SrcJoin u l o r cond ps)) with ((if u then lit "(SELECT DISTINCT * FROM " else []) ++ [PIdent l] ++ (if u then lit ")" else []) ++ X4).
    destruct u; cbn [app].
    + apply (seg_start 40); [|reflexivity]. unfold lit at 1. cbn [app]. eapply (seg_lit_cons _ 40 32); [reflexivity|reflexivity|].
      change (PIdent l :: lit ")" ++ X4) with ([PIdent l] ++ lit ")" ++ X4).
      apply (seg_app_lit (N.eqb 34) (N.eqb 34) [PIdent l] 41 is_end); [apply seg_ident| |reflexivity].
      unfold lit at 1. cbn [app]. eapply (seg_lit_cons2 _ 41 41 32); [reflexivity|reflexivity|exact T4].
    + apply (seg_start 34); [|reflexivity]. change (PIdent l :: X4) with ([PIdent l] ++ X4).
      apply (seg_app_lit (N.eqb 34) (N.eqb 34) [PIdent l] 32 is_end); [apply seg_ident|exact T4|reflexivity].
Qed.

(** lists of written columns *)
Lemma seq_segs {X} (f : X -> res (list piece)) (P : X -> Prop) : forall l pl,
  Forall P l -> (forall x p, P x -> f x = Ok p -> Seg is_start is_end p) ->
  sequence (map f l) = Ok pl -> Forall (Seg is_start is_end) pl.
Proof.
  induction l as [|x l IH]; intros pl HP Hf Hs; cbn [map sequence] in Hs.
  - injection Hs as <-. constructor.
  - apply bind_ok in Hs as (p & Hp & Hs). apply bind_ok in Hs as (tl & Htl & [= <-]).
    inversion HP; subst. constructor; [eapply Hf; eassumption|]. eapply IH; eassumption.
Qed.

(** ", x" repeated, then something that starts with a space *)
Lemma seg_commas (Q : N -> bool) : forall cs tl, Forall (Seg is_start is_end) cs -> Seg (N.eqb 32) Q tl ->
  exists c', safe2 c' = true /\ Seg (N.eqb c') Q (flat_map (fun x => lit ", " ++ x) cs ++ tl).
Proof.
  induction cs as [|x r IH]; intros tl Hall Htl; cbn [flat_map app].
  - exists 32%N. split; [reflexivity|exact Htl].
  - inversion Hall; subst. destruct (IH tl H2 Htl) as (c' & Hc' & Hs). exists 44%N. split; [reflexivity|].
    unfold lit. cbn [app]. rewrite <- app_assoc. eapply (seg_lit_cons _ 44 32); [reflexivity|reflexivity|].
    apply (seg_app_lit is_start is_end x c' Q); [exact H1|exact Hs|exact Hc'].
Qed.

Definition op_glue (o : option operator) : Prop :=
  match o with
  | None | Some (OAs _ _ _) | Some (OCount _ _) | Some (ORender _ _ _ _ _ _ _) => True
  | Some (OProject _ _ cols) => cols <> [] /\ Forall (fun col => match pc_x col with Some x => wl x | None => True end) cols
  | Some (OExtend _ _ cols) => Forall (fun col => wl (ec_x col)) cols
  | Some (OSummarize _ _ cols _ groupby) => (cols <> [] \/ groupby <> []) /\ Forall (fun col => wl (ec_x col)) cols /\ Forall (fun col => wl (ec_x col)) groupby
  | Some (OWhere _ _ p) => wl p
  | Some _ => False
  end.

Definition subq_glue (s : subq) : Prop :=
  op_glue (sq_op s) /\ src_glue (sq_source s) /\
  match sq_sort s with Some terms => terms <> [] /\ Forall (fun t => wl (st_x t)) terms | None => True end /\
  match sq_take s with Some n => wl n | None => True end.

Lemma ext_cols_segs cols cs : Forall (fun col => wl (ec_x col)) cols -> write_ext_cols source c cols = Ok cs -> Forall (Seg is_start is_end) cs.
Proof.
  intros Hall H. unfold write_ext_cols in H. eapply (seq_segs _ (fun col => wl (ec_x col))); [exact Hall| |exact H].
  intros col p Hw Hp. apply bind_ok in Hp as (px & Hpx & [= <-]).
  pose proof (wexpr_seg ModeDefault _ _ Hw Hpx) as Hs. unfold col_alias, lit. cbn [app].
  eapply (seg_infix is_start px _ 32 32); [exact Hs|reflexivity|reflexivity|reflexivity|].
  eapply seg_weaken; [apply ident_end|apply start_op_start|auto].
Qed.

Lemma segs_nonempty_map {X} (f : X -> res (list piece)) l pl : sequence (map f l) = Ok pl -> l <> [] -> pl <> [].
Proof. destruct l; [congruence|]. cbn [map sequence]. intros H _. apply bind_ok in H as (p & _ & H). apply bind_ok in H as (tl & _ & [= <-]). discriminate. Qed.

(** the ORDER BY and LIMIT suffixes: empty, or starting with a space *)
Definition Suffix (ps : list piece) : Prop := ps = [] \/ Seg (N.eqb 32) is_end ps.

Lemma suffix_app (P : N -> bool) a ps : Seg P is_end a -> Suffix ps -> Seg P is_end (a ++ ps).
Proof. intros Ha [->|Hs]; [rewrite app_nil_r; exact Ha|]. apply (seg_app_lit P is_end a 32 is_end); [exact Ha|exact Hs|reflexivity]. Qed.

Lemma suffix_suffix a b : Suffix a -> Suffix b -> Suffix (a ++ b).
Proof. intros [->|Ha] Hb; [exact Hb|]. right. apply suffix_app; assumption. Qed.

Lemma sort_suffix terms ps : terms <> [] -> Forall (fun t => wl (st_x t)) terms -> write_sort c terms = Ok ps -> Suffix ps.
Proof.
  intros Hne Hall H. unfold write_sort in H. apply bind_ok in H as (ts & Hts & [= <-]). right.
  assert (Hsegs : Forall (Seg is_start is_end) ts).
  { eapply (seq_segs _ (fun t => wl (st_x t))); [exact Hall| |exact Hts].
    intros t p Hw Hp. apply bind_ok in Hp as (px & Hpx & [= <-]). pose proof (wexpr_seg ModeDefault _ _ Hw Hpx) as Hs.
    apply (seg_app_lit is_start is_end px 32 is_end); [exact Hs| |reflexivity].
    destruct (st_asc t), (st_nullsfirst t); unfold lit; cbn [app];
      (eapply (seg_lit_cons2 _ 32 67 32); [reflexivity|reflexivity|]); (apply (seg_end _ 84); [apply (seg_lit _ 32 84); reflexivity|reflexivity]). }
  unfold lit. cbn [app]. eapply (seg_lit_cons _ 32 32); [reflexivity|reflexivity|].
  apply seg_join; [eapply segs_nonempty_map; eassumption|exact Hsegs].
Qed.

Lemma take_suffix (n : option expr) ps : match n with Some n => wl n | None => True end ->
  (match n with Some n => do pn <- wexpr c n; Ok (lit " LIMIT " ++ pn) | None => Ok [] end) = Ok ps -> Suffix ps.
Proof.
  destruct n as [n|]; intros Hw H; [|injection H as <-; left; reflexivity].
  apply bind_ok in H as (pn & Hpn & [= <-]). right. pose proof (wexpr_seg ModeDefault _ _ Hw Hpn) as Hs.
  unfold lit. cbn [app]. eapply (seg_lit_cons _ 32 32); [reflexivity|reflexivity|exact Hs].
Qed.

(** "<lit ending in a space> src" *)
Lemma from_src s l c1 : src_glue s -> lit_check l c1 32 = true -> Seg (N.eqb c1) is_end (PLit l :: render_source s).
Proof.
  intros Hs Hl. eapply (seg_lit_cons _ c1 32); [exact Hl|reflexivity|]. eapply seg_weaken; [apply source_seg; exact Hs|apply start_op_start|auto].
Qed.

Theorem write_subq_seg s ps : subq_glue s -> write_subq source c s = Ok ps -> Seg (N.eqb 83) is_end ps.
Proof.
  intros (Hop & Hsrc & Hsort & Htake) H. unfold write_subq in H.
  apply bind_ok in H as (body & Hbody & H). apply bind_ok in H as (srt & Hsrt & H). apply bind_ok in H as (tk & Htk & [= <-]).
  assert (Hsuf : Suffix (srt ++ tk)).
  { apply suffix_suffix.
    - destruct (sq_sort s) as [terms|]; [destruct Hsort as [Hne Hall]; eapply sort_suffix; eassumption|injection Hsrt as <-; left; reflexivity].
    - eapply take_suffix; eassumption. }
  apply suffix_app; [|exact Hsuf]. clear Hsuf Hsrt Htk Hsort Htake srt tk.
  pose proof (source_seg _ Hsrc) as Hss.
  assert (Hfrom : forall l c1, lit_check l c1 32 = true -> Seg (N.eqb c1) is_end (PLit l :: render_source (sq_source s))) by (intros; apply from_src; assumption).
  destruct (sq_op s) as [o|]; [|injection Hbody as <-; unfold lit; cbn [app]; apply Hfrom; reflexivity].
  destruct o; cbn [op_glue] in Hop; try contradiction.
  - (* count *) injection Hbody as <-. unfold lit. cbn [app]. apply Hfrom. reflexivity.
  - (* where *) apply bind_ok in Hbody as (px & Hpx & [= <-]). pose proof (wexpr_seg ModeDefault _ _ Hop Hpx) as Hs.
    unfold lit. cbn [app]. eapply (seg_lit_cons _ 83 32); [reflexivity|reflexivity|].
    eapply (seg_infix is_start _ _ 32 32); [eapply seg_weaken; [exact Hss|apply start_op_start|auto]|reflexivity|reflexivity|reflexivity|exact Hs].
  - (* project *) destruct Hop as [Hne Hall]. apply bind_ok in Hbody as (cs & Hcs & [= <-]).
    assert (Hsegs : Forall (Seg is_start is_end) cs).
    { eapply (seq_segs _ (fun col => match pc_x col with Some x => wl x | None => True end)); [exact Hall| |exact Hcs].
      intros col p Hw Hp. apply bind_ok in Hp as (px & Hpx & [= <-]).
      assert (Hs : Seg is_start is_end px).
      { destruct (pc_x col) as [x|]; [exact (wexpr_seg ModeDefault _ _ Hw Hpx)|].
        apply (wexpr_seg ModeDefault (EQual [pc_name col]) px); [split; [discriminate|exact I]|exact Hpx]. }
      unfold lit. cbn [app]. eapply (seg_infix is_start px _ 32 32); [exact Hs|reflexivity|reflexivity|reflexivity|].
      eapply seg_weaken; [apply ident_end|apply start_op_start|auto]. }
    unfold lit. cbn [app]. eapply (seg_lit_cons _ 83 32); [reflexivity|reflexivity|].
    apply (seg_app_lit is_start is_end _ 32 is_end); [apply seg_join; [eapply segs_nonempty_map; eassumption|exact Hsegs]| |reflexivity].
    apply Hfrom. reflexivity.
  - (* extend *) apply bind_ok in Hbody as (cs & Hcs & [= <-]). pose proof (ext_cols_segs _ _ Hop Hcs) as Hsegs.
    destruct (seg_commas is_end cs (lit " FROM " ++ render_source (sq_source s)) Hsegs ltac:(unfold lit; cbn [app]; apply Hfrom; reflexivity)) as (c' & Hc' & Hs).
    exact (seg_lit_cons2 (L "SELECT *") 83 42 c' is_end _ eq_refl Hc' Hs).
  - (* summarize *) destruct Hop as (Hne & Hc & Hg).
    apply bind_ok in Hbody as (gs & Hgs & Hbody). apply bind_ok in Hbody as (cs & Hcs & Hbody). apply bind_ok in Hbody as (gb & Hgb & [= <-]).
    pose proof (ext_cols_segs _ _ Hg Hgs) as Hsg. pose proof (ext_cols_segs _ _ Hc Hcs) as Hsc.
    assert (Hgbs : Suffix gb).
    { destruct groupby as [|g0 gr]; [injection Hgb as <-; left; reflexivity|].
      apply bind_ok in Hgb as (ks & Hks & [= <-]). right.
      assert (Hk : Forall (Seg is_start is_end) ks).
      { eapply (seq_segs _ (fun col => wl (ec_x col))); [exact Hg| |exact Hks]. intros col p Hw Hp. exact (wexpr_seg ModeDefault _ _ Hw Hp). }
      unfold lit. cbn [app]. eapply (seg_lit_cons _ 32 32); [reflexivity|reflexivity|].
      apply seg_join; [eapply segs_nonempty_map; [exact Hks|discriminate]|exact Hk]. }
    assert (Hall : Forall (Seg is_start is_end) (gs ++ cs)) by (apply Forall_app; split; assumption).
    assert (Hnn : gs ++ cs <> []).
    { unfold write_ext_cols in Hgs, Hcs. destruct Hne as [Hne|Hne].
      - pose proof (segs_nonempty_map _ _ _ Hcs Hne). destruct gs; [rewrite app_nil_l; assumption|discriminate].
      - pose proof (segs_nonempty_map _ _ _ Hgs Hne). destruct gs; [congruence|discriminate]. }
    apply (seg_lit_cons (L "SELECT ") 83 32 is_start is_end); [reflexivity|reflexivity|].
    apply (seg_app_lit is_start is_end _ 32 is_end); [apply seg_join; assumption| |reflexivity].
    apply (suffix_app (N.eqb 32) (PLit (L " FROM ") :: render_source (sq_source s)) gb); [apply Hfrom; reflexivity|exact Hgbs].
  - (* as *) injection Hbody as <-. unfold lit. cbn [app]. apply Hfrom. reflexivity.
  - (* render *) injection Hbody as <-.
    assert (Tfrom : Seg (N.eqb 10) is_end (PLit ([10%N] ++ L "FROM ") :: render_source (sq_source s))) by (apply Hfrom; reflexivity).
    assert (Tprops : exists c', safe2 c' = true /\ Seg (N.eqb c') is_end
              (flat_map (fun p => [PLit ([44%N; 10%N] ++ L "    "); PStr (render_value (rp_value p))] ++ lit " as " ++ [PIdent (L "render_prop_" ++ iname (rp_name p))]) props
               ++ PLit ([10%N] ++ L "FROM ") :: render_source (sq_source s))).
    { induction props as [|p0 pr IHp]; cbn [flat_map app].
      - exists 10%N. split; [reflexivity|exact Tfrom].
      - destruct IHp as (c' & Hc' & Hs). exists 44%N. split; [reflexivity|].
        unfold lit. cbn [app]. rewrite <- ?app_assoc. cbn [app].
        eapply (seg_lit_cons _ 44 32); [reflexivity|reflexivity|].
        match goal with |- Seg _ _ (PStr ?v :: ?X) => change (PStr v :: X) with ([PStr v] ++ X) end.
        apply (seg_app_lit (N.eqb 39) (N.eqb 39) _ 32 is_end); [apply seg_str| |reflexivity].
        eapply (seg_lit_cons _ 32 32); [reflexivity|reflexivity|].
        match goal with |- Seg _ _ (PIdent ?v :: ?X) => change (PIdent v :: X) with ([PIdent v] ++ X) end.
        apply (seg_app_lit (N.eqb 34) (N.eqb 34) _ c' is_end); [apply seg_ident|exact Hs|exact Hc']. }
    destruct Tprops as (c' & Hc' & Hs).
    unfold lit. cbn [app]. rewrite <- ?app_assoc. cbn [app].
    eapply (seg_lit_cons _ 83 32); [reflexivity|reflexivity|].
    match goal with |- Seg _ _ (PStr ?v :: ?X) => change (PStr v :: X) with ([PStr v] ++ X) end.
    apply (seg_app_lit (N.eqb 39) (N.eqb 39) _ 32 is_end); [apply seg_str| |reflexivity].
    eapply (seg_lit_cons2 _ 32 34 c'); [reflexivity|exact Hc'|exact Hs].
Qed.

(** WITH name AS (select), ... *)
Lemma ctes_seg : forall ctes w, Forall subq_glue ctes -> write_ctes source c ctes = Ok w ->
  (ctes = [] /\ w = []) \/ Seg (N.eqb 34) (N.eqb 10) w.
Proof.
  induction ctes as [|s r IH]; intros w Hall H; cbn [write_ctes] in H.
  - injection H as <-. left. split; reflexivity.
  - right. inversion Hall as [|? ? Hs Hr]; subst.
    apply bind_ok in H as (body & Hbody & H). apply bind_ok in H as (tl & Htl & [= <-]).
    pose proof (write_subq_seg s body Hs Hbody) as Hb.
    assert (Hsep : Seg (N.eqb 41) (N.eqb 10) (lit ")" ++ (match r with [] => [PLit [10%N]] | _ => [PLit ([44%N; 10%N] ++ L "     ")] end) ++ tl)).
    { destruct (IH tl Hr Htl) as [(-> & ->)|Htls].
      - unfold lit. cbn [app]. eapply (seg_lit_cons2 _ 41 41 10); [reflexivity|reflexivity|apply seg_lit; reflexivity].
      - destruct r as [|s2 r2]; [cbn [write_ctes] in Htl; injection Htl as <-; destruct Htls as (_ & Hf & _); contradiction|].
        unfold lit. cbn [app]. eapply (seg_lit_cons2 _ 41 41 44); [reflexivity|reflexivity|].
        eapply (seg_lit_cons _ 44 32); [reflexivity|reflexivity|exact Htls]. }
    change ([PIdent (sq_name s)] ++ lit " AS (" ++ body ++ lit ")" ++ (match r with [] => [PLit [10%N]] | _ => [PLit ([44%N; 10%N] ++ L "     ")] end) ++ tl)
      with ([PIdent (sq_name s)] ++ (lit " AS (" ++ body ++ (lit ")" ++ (match r with [] => [PLit [10%N]] | _ => [PLit ([44%N; 10%N] ++ L "     ")] end) ++ tl))).
    apply (seg_app_lit (N.eqb 34) (N.eqb 34) [PIdent (sq_name s)] 32 (N.eqb 10)); [apply seg_ident| |reflexivity].
    apply (seg_lit_cons (L " AS (") 32 40 (N.eqb 83) (N.eqb 10)); [reflexivity|reflexivity|].
    apply (seg_app_lit (N.eqb 83) is_end body 41 (N.eqb 10)); [exact Hb|exact Hsep|reflexivity].
Qed.

Theorem statement_glue ctes q w body : Forall subq_glue ctes -> subq_glue q ->
  write_ctes source c ctes = Ok w -> write_subq source c q = Ok body ->
  glue_ok ((match ctes with [] => [] | _ => lit "WITH " end) ++ w ++ body ++ lit ";") = true.
Proof.
  intros Hc Hq Hw Hb. pose proof (write_subq_seg q body Hq Hb) as Hbs.
  assert (Hend : Seg (N.eqb 83) (N.eqb 59) (body ++ lit ";")).
  { apply (seg_app_lit (N.eqb 83) is_end body 59 (N.eqb 59)); [exact Hbs|apply seg_lit; reflexivity|reflexivity]. }
  destruct (ctes_seg ctes w Hc Hw) as [(-> & ->)|Hws].
  - cbn [app]. apply Hend.
  - destruct ctes as [|s0 r0]; [cbn [write_ctes] in Hw; injection Hw as <-; destruct Hws as (_ & Hf & _); contradiction|].
    refine (proj1 (seg_lit_cons (L "WITH ") 87 32 (N.eqb 34) (N.eqb 59) _ eq_refl eq_refl _)).
    apply (seg_app_after (N.eqb 34) w 10 (N.eqb 83) (N.eqb 59)); [exact Hws|exact Hend|reflexivity].
Qed.
End StmtGlue.
