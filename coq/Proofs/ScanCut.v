(** * Scanning across a newline or a semicolon token: the two sides are scanned independently. *)
From PQL Require Import Model.Lexer Proofs.LexerFacts Proofs.SplitFacts Proofs.LexCut.
From Coq Require Import Lia.
Local Open Scope list_scope.
Local Open Scope nat_scope.

Definition shift_tok (k : nat) (t : token) : token := mkTok (tkind t) (k + tstart t) (k + tend t) (tvalue t).

Lemma scan_from_shift f : forall k off l, scan_from f (k + off) l = map (shift_tok k) (scan_from f off l).
Proof.
  induction f as [|f IH]; intros k off l; [reflexivity|]. cbn [scan_from].
  destruct l as [|c r]; [reflexivity|]. set (l := c :: r).
  destruct (lex1 l) as [kd v n|n].
  - cbn [map]. f_equal.
    + unfold shift_tok. cbn [tkind tstart tend tvalue]. f_equal; lia.
    + replace (n + (k + off)) with (k + (n + off)) by lia. apply IH.
  - replace (n + (k + off)) with (k + (n + off)) by lia. apply IH.
Qed.

Lemma scan_from_nil f off : scan_from f off [] = [].
Proof. destruct f; reflexivity. Qed.

Lemma scan_from_step f off l : l <> [] ->
  scan_from (S f) off l =
  match lex1 l with
  | Tok k v n => mkTok k off (n + off) v :: scan_from f (n + off) (skipn n l)
  | Skip n => scan_from f (n + off) (skipn n l)
  end.
Proof. destruct l; [congruence|reflexivity]. Qed.

(** ** a newline is a hard boundary *)
Lemma scan_from_nl b : forall n a off f1 f2 f3, length a <= n ->
  length (a ++ 10%N :: b) < f1 -> length (a ++ [10%N]) < f2 -> length b < f3 ->
  scan_from f1 off (a ++ 10%N :: b) = scan_from f2 off (a ++ [10%N]) ++ scan_from f3 (S (length a) + off) b.
Proof.
  induction n as [|n IH]; intros a off f1 f2 f3 Hn H1 H2 H3.
  - destruct a; [|cbn in Hn; lia]. cbn [app length] in *.
    destruct f1 as [|f1]; [lia|]. destruct f2 as [|f2]; [lia|].
    cbn [scan_from]. change (lex1 (10%N :: b)) with (Skip 1). change (lex1 [10%N]) with (Skip 1).
    cbn [skipn]. rewrite scan_from_nil. cbn [app].
    apply scan_from_fuel; lia.
  - destruct f1 as [|f1]; [lia|]. destruct f2 as [|f2]; [lia|].
    rewrite !scan_from_step by apply app_cons_not_nil.
    rewrite (lex1_nl a b).
    pose proof (lex1_progress (a ++ [10%N]) (app_cons_not_nil _ _ _)) as Hp. rewrite app_length in Hp. cbn [length] in Hp.
    set (m := item_len (lex1 (a ++ [10%N]))) in *.
    assert (Hsk : forall tl, skipn m (a ++ 10%N :: tl) = if Nat.leb m (length a) then skipn m a ++ 10%N :: tl else tl).
    { intros tl. destruct (Nat.leb m (length a)) eqn:El.
      - apply Nat.leb_le in El. apply skipn_app_le. exact El.
      - apply Nat.leb_gt in El. assert (m = S (length a)) by lia. rewrite skipn_app.
        replace (m - length a) with 1 by lia. rewrite skipn_all2 by lia. reflexivity. }
    assert (Hrest : scan_from f1 (m + off) (skipn m (a ++ 10%N :: b)) =
                    scan_from f2 (m + off) (skipn m (a ++ [10%N])) ++ scan_from f3 (S (length a) + off) b).
    { rewrite (Hsk b), (Hsk []). destruct (Nat.leb m (length a)) eqn:El.
      - apply Nat.leb_le in El.
        rewrite (IH (skipn m a) (m + off) f1 f2 f3).
        + rewrite skipn_length. replace (S (length a - m) + (m + off)) with (S (length a) + off) by lia. reflexivity.
        + rewrite skipn_length. lia.
        + rewrite app_length, skipn_length. rewrite app_length in H1. cbn [length] in *. lia.
        + rewrite app_length, skipn_length. rewrite app_length in H2. cbn [length] in *. lia.
        + exact H3.
      - apply Nat.leb_gt in El. rewrite scan_from_nil. cbn [app].
        replace (m + off) with (S (length a) + off) by lia. apply scan_from_fuel; [|exact H3].
        rewrite app_length in H1. cbn [length] in H1. lia. }
    destruct (lex1 (a ++ [10%N])) as [kd v n0|n0]; subst m; cbn [item_len] in *.
    + cbn [app]. f_equal. exact Hrest.
    + exact Hrest.
Qed.

Theorem scan_nl a b : scan (a ++ 10%N :: b) = scan (a ++ [10%N]) ++ map (shift_tok (S (length a))) (scan b).
Proof.
  unfold scan. rewrite (scan_from_nl b (length a) a 0 _ (S (length (a ++ [10%N]))) (S (length b))); try lia.
  f_equal. rewrite <- (scan_from_shift (S (length b)) (S (length a)) 0 b). f_equal; lia.
Qed.

(** ** at a semicolon token *)
Lemma toks_within_start lo hi ts t : toks_within lo hi ts -> In t ts -> lo <= tstart t.
Proof.
  induction 1 as [|lo hi t0 ts H1 H2 H3 W IH]; [intros []|].
  intros [<-|Hin]; [exact H1|]. specialize (IH Hin). lia.
Qed.

Definition semi_tok (p : nat) : token := mkTok KSemi p (S p) [].

Lemma scan_from_semi b : forall n a off f1 f2 f3, length a <= n ->
  length (a ++ 59%N :: b) < f1 -> length a < f2 -> length b < f3 ->
  (exists t, In t (scan_from f1 off (a ++ 59%N :: b)) /\ tstart t = length a + off) ->
  scan_from f1 off (a ++ 59%N :: b) = scan_from f2 off a ++ semi_tok (length a + off) :: scan_from f3 (S (length a) + off) b.
Proof.
  induction n as [|n IH]; intros a off f1 f2 f3 Hn H1 H2 H3 Hex.
  - destruct a; [|cbn in Hn; lia]. cbn [app length] in *.
    destruct f1 as [|f1]; [lia|]. cbn [scan_from]. change (lex1 (59%N :: b)) with (Tok KSemi [] 1).
    rewrite scan_from_nil. cbn [app skipn]. unfold semi_tok. f_equal. apply scan_from_fuel; lia.
  - destruct a as [|c0 r0] eqn:Ea.
    { cbn [app length] in *. destruct f1 as [|f1]; [lia|]. cbn [scan_from]. change (lex1 (59%N :: b)) with (Tok KSemi [] 1).
      rewrite scan_from_nil. cbn [app skipn]. unfold semi_tok. f_equal. apply scan_from_fuel; lia. }
    rewrite <- Ea in *. assert (Hane : a <> []) by (rewrite Ea; discriminate).
    destruct f1 as [|f1]; [lia|]. destruct f2 as [|f2]; [lia|].
    destruct Hex as (t & Hin & Ht).
    rewrite scan_from_step in Hin by apply app_cons_not_nil.
    rewrite scan_from_step by apply app_cons_not_nil. rewrite (scan_from_step f2 off a Hane). clear Ea c0 r0.
    pose proof (lex1_progress (a ++ 59%N :: b) (app_cons_not_nil _ _ _)) as Hp.
    set (m := item_len (lex1 (a ++ 59%N :: b))) in *.
    (* the item at the head ends before the semicolon: otherwise no token could start there *)
    assert (Hm : m <= length a).
    { destruct (Nat.le_gt_cases m (length a)) as [H|H]; [exact H|exfalso].
      pose proof (scan_from_within f1 (m + off) (skipn m (a ++ 59%N :: b))) as W.
      assert (Hlater : forall t', In t' (scan_from f1 (m + off) (skipn m (a ++ 59%N :: b))) -> m + off <= tstart t')
        by (intros t' Ht'; eapply toks_within_start; eassumption).
      destruct (lex1 (a ++ 59%N :: b)) as [kd v n0|n0]; subst m; cbn [item_len] in *.
      - destruct Hin as [<-|Hin]; [cbn [tstart] in Ht; destruct a; [congruence|cbn [length] in Ht; lia]|].
        specialize (Hlater t Hin). lia.
      - specialize (Hlater t Hin). lia. }
    pose proof (lex1_semi_cut a b Hane Hm) as Hcut. fold m in Hm.
    assert (Hrest : scan_from f1 (m + off) (skipn m (a ++ 59%N :: b)) =
                    scan_from f2 (m + off) (skipn m a) ++ semi_tok (length a + off) :: scan_from f3 (S (length a) + off) b).
    { rewrite skipn_app_le by exact Hm.
      rewrite (IH (skipn m a) (m + off) f1 f2 f3).
      - rewrite skipn_length. replace (length a - m + (m + off)) with (length a + off) by lia.
        replace (S (length a - m) + (m + off)) with (S (length a) + off) by lia. reflexivity.
      - rewrite skipn_length. lia.
      - rewrite app_length, skipn_length. rewrite app_length in H1. cbn [length] in *. lia.
      - rewrite skipn_length. lia.
      - exact H3.
      - exists t. rewrite skipn_length. split; [|lia].
        rewrite <- (skipn_app_le m a (59%N :: b)) by exact Hm.
        destruct (lex1 (a ++ 59%N :: b)) as [kd v n0|n0]; subst m; cbn [item_len] in *.
        + destruct Hin as [<-|Hin]; [cbn [tstart] in Ht; destruct a; [congruence|cbn [length] in Ht; lia]|exact Hin].
        + exact Hin. }
    rewrite <- Hcut. destruct (lex1 (a ++ 59%N :: b)) as [kd v n0|n0]; subst m; cbn [item_len] in *.
    + cbn [app]. f_equal. exact Hrest.
    + exact Hrest.
Qed.

Theorem scan_semi a b : (exists t, In t (scan (a ++ 59%N :: b)) /\ tstart t = length a) ->
  scan (a ++ 59%N :: b) = scan a ++ semi_tok (length a) :: map (shift_tok (S (length a))) (scan b).
Proof.
  intros (t & Hin & Ht). unfold scan in *.
  rewrite (scan_from_semi b (length a) a 0 _ (S (length a)) (S (length b))); try lia.
  - rewrite Nat.add_0_r. f_equal. f_equal. rewrite <- (scan_from_shift (S (length b)) (S (length a)) 0 b). f_equal; lia.
  - exists t. split; [exact Hin|lia].
Qed.
