(** * C08/C10: what the expression parser accepts is exactly what its tree represents. *)
From PQL Require Import Spec.Flatten Proofs.ParserFacts.
From Coq Require Import Lia ZArith.
Local Open Scope list_scope.
Local Open Scope nat_scope.

(** ** small facts *)
Lemma kind_code_inj a b : kind_code a = kind_code b -> a = b.
Proof. destruct a, b; cbn; intros H; try reflexivity; discriminate H. Qed.

Lemma kind_eqb_eq a b : kind_eqb a b = true <-> a = b.
Proof. unfold kind_eqb. rewrite Z.eqb_eq. split; [apply kind_code_inj|intros ->; reflexivity]. Qed.

Lemma is_kind_eq k t : is_kind k t = true -> tkind t = k.
Proof. unfold is_kind. apply kind_eqb_eq. Qed.

Lemma is_kind_neq k t : is_kind k t = false -> tkind t <> k.
Proof. unfold is_kind. intros H E. apply kind_eqb_eq in E. congruence. Qed.

Lemma app_nil_inv {A} (a b : list A) : a ++ b = [] -> a = [] /\ b = [].
Proof. destruct a; cbn; [auto|discriminate]. Qed.

Lemma opaque_nil e : opaque e = [] -> e = [].
Proof. destruct e; [auto|discriminate]. Qed.

Lemma end_split_nil ts : end_split ts = [] -> ts = [].
Proof. destruct ts; [auto|discriminate]. Qed.

Lemma is_nf_app a b : is_nf (a ++ b) = is_nf a || is_nf b.
Proof. unfold is_nf. apply existsb_app. Qed.
Lemma is_nf_opaque e : is_nf (opaque e) = false.
Proof. induction e as [|x r IH]; [reflexivity|]. cbn. exact IH. Qed.
Lemma is_nf_end_split ts : is_nf (end_split ts) = false.
Proof. destruct ts; reflexivity. Qed.
Lemma is_nf_err_at p : is_nf (err_at p) = false.
Proof. reflexivity. Qed.

Lemma no_err_true e : no_err e = true -> e = [].
Proof. destruct e; [auto|discriminate]. Qed.
Lemma no_err_false e : negb (no_err e) = true -> e <> [].
Proof. destruct e; [discriminate|discriminate]. Qed.

Lemma when_ok_some {A} e (v : option A) x : when_ok e v = Some x -> e = [] /\ v = Some x.
Proof. unfold when_ok. destruct e; cbn; [auto|discriminate]. Qed.

Lemma opt_map2_some {A B C} (f : A -> B -> C) a b c : opt_map2 f a b = Some c -> exists x y, a = Some x /\ b = Some y /\ c = f x y.
Proof. destruct a, b; cbn; try discriminate. intros [= <-]. eauto. Qed.

Lemma option_map_some {A B} (f : A -> B) a c : option_map f a = Some c -> exists x, a = Some x /\ c = f x.
Proof. destruct a; cbn; [intros [= <-]; eauto|discriminate]. Qed.

(** ** identifiers *)
Lemma mk_ident_tok t : (is_kind KIdentifier t || is_kind KQuotedIdentifier t) = true -> ident_tok (mk_ident t) t.
Proof.
  intros H. unfold ident_tok, mk_ident. cbn [iquoted iname ispan].
  destruct (is_kind KQuotedIdentifier t) eqn:E.
  - apply is_kind_eq in E. auto.
  - rewrite Bool.orb_false_r in H. apply is_kind_eq in H. auto.
Qed.

Section WithSrc.
Variable srclen : nat.

Lemma p_ident_sound ts i rest e : p_ident srclen ts = (Some i, rest, e) ->
  exists t, ts = t :: rest /\ ident_tok i t /\ e = [].
Proof.
  unfold p_ident. destruct ts as [|t r]; [discriminate|].
  destruct (is_kind KIdentifier t || is_kind KQuotedIdentifier t) eqn:E; [|discriminate].
  intros [= <- <- <-]. exists t. repeat split. apply mk_ident_tok. exact E.
Qed.

Lemma p_qual_tail_sound_n n : forall ts ps rest, length ts <= n -> p_qual_tail srclen ts = (ps, rest, []) ->
  exists used, ts = used ++ rest /\ forall i t, ident_tok i t -> toks_qual (i :: ps) (t :: used).
Proof.
  induction n as [|n IH]; intros ts ps rest Hn.
  - destruct ts; [|cbn in Hn; lia]. cbn [p_qual_tail]. intros [= <- <-]. exists []. split; [reflexivity|].
    intros i t Hi. constructor. exact Hi.
  - destruct ts as [|d r]; cbn [p_qual_tail].
    + intros [= <- <-]. exists []. split; [reflexivity|]. intros i t Hi. constructor. exact Hi.
    + destruct (is_kind KDot d) eqn:Ed.
      * destruct r as [|t r']; [discriminate|].
        destruct (is_kind KIdentifier t || is_kind KQuotedIdentifier t) eqn:Et; [|discriminate].
        destruct (p_qual_tail srclen r') as [[ps' rest'] e'] eqn:Er.
        intros [= <- <- ->].
        destruct (IH r' ps' rest' ltac:(cbn [length] in Hn; lia) Er) as (used & -> & Hq).
        exists (d :: t :: used). split; [reflexivity|]. intros i t0 Hi.
        constructor; [exact Hi|apply is_kind_eq; exact Ed|]. apply Hq. apply mk_ident_tok. exact Et.
      * intros [= <- <-]. exists []. split; [reflexivity|]. intros i t Hi. constructor. exact Hi.
Qed.

Lemma p_qual_tail_sound ts ps rest : p_qual_tail srclen ts = (ps, rest, []) ->
  exists used, ts = used ++ rest /\ forall i t, ident_tok i t -> toks_qual (i :: ps) (t :: used).
Proof. apply (p_qual_tail_sound_n (length ts)). lia. Qed.

Lemma p_qual_tail_not_nf_n n : forall ts ps rest e, length ts <= n -> p_qual_tail srclen ts = (ps, rest, e) -> is_nf e = false.
Proof.
  induction n as [|n IH]; intros ts ps rest e Hn.
  - destruct ts; [|cbn in Hn; lia]. cbn [p_qual_tail]. intros [= <- <- <-]. reflexivity.
  - destruct ts as [|d r]; cbn [p_qual_tail]; [intros [= <- <- <-]; reflexivity|].
    destruct (is_kind KDot d); [|intros [= <- <- <-]; reflexivity].
    destruct r as [|t r']; [intros [= <- <- <-]; reflexivity|].
    destruct (_ || _); [|intros [= <- <- <-]; reflexivity].
    destruct (p_qual_tail srclen r') as [[a b] c] eqn:E. intros [= <- <- <-].
    eapply (IH r'); [cbn [length] in Hn; lia|exact E].
Qed.

Lemma p_qualified_sound ts ps rest e : p_qualified srclen ts = (Some ps, rest, e) ->
  exists used, ts = used ++ rest /\ toks_qual ps used /\ e = [].
Proof.
  unfold p_qualified. destruct (p_ident srclen ts) as [[[i|] r] ei] eqn:Ei; [|discriminate].
  apply p_ident_sound in Ei as (t & -> & Hi & ->).
  destruct (p_qual_tail srclen r) as [[ps' rest'] e'] eqn:Et.
  destruct (no_err e') eqn:En; [|discriminate]. apply no_err_true in En. subst e'.
  intros [= <- <- <-]. destruct (p_qual_tail_sound r ps' rest' Et) as (used & -> & Hq).
  exists (t :: used). repeat split. apply Hq. exact Hi.
Qed.

Lemma p_qualified_nf ts ps rest e : p_qualified srclen ts = (ps, rest, e) -> is_nf e = true -> rest = ts.
Proof.
  unfold p_qualified. destruct (p_ident srclen ts) as [[[i|] r] ei] eqn:Ei.
  - destruct (p_qual_tail srclen r) as [[ps' rest'] e'] eqn:Et. intros [= <- <- <-] Hnf. exfalso.
    rewrite (p_qual_tail_not_nf_n (length r) r _ _ _ (le_n _) Et) in Hnf. discriminate.
  - unfold p_ident in Ei. destruct ts as [|t r0].
    + injection Ei as <- <-. intros [= <- <- <-] _. reflexivity.
    + destruct (_ || _); [discriminate|]. injection Ei as <- <-. intros [= <- <- <-] _. reflexivity.
Qed.

End WithSrc.

(** ** the expression parser *)
Section Exprs.
Variable srclen : nat.

Notation pexpr := (p_expr srclen).
Notation punary := (p_unary srclen).
Notation pprimary := (p_primary srclen).
Notation pinner := (p_inner srclen).
Notation plist := (p_expr_list srclen).
Notation ptail := (p_expr_list_tail srclen).
Notation ptrail := (p_trail srclen).
Notation phigher := (p_higher srclen).

(** unfolding equations (the mutual block does not refold under [cbn]) *)
Lemma p_expr_S f (ts : list token) :
  p_expr srclen (S f) ts =
    let '(x, r1, e1) := p_unary srclen f ts in
    if is_nf e1 then (x, r1, e1)
    else
      let '(x', r2, e2) := p_trail srclen f x 0%Z r1 in
      (when_ok (e1 ++ e2) x', r2, e1 ++ e2).
Proof. reflexivity. Qed.

Lemma p_unary_S f (ts : list token) :
  p_unary srclen (S f) ts =
    match ts with
    | [] => (None, [], nf_at srclen)
    | t :: r =>
      if is_kind KPlus t || is_kind KMinus t then
        let '(x, r1, e) := p_primary srclen f r in
        (option_map (EUnary (tok_span t) (tkind t)) (when_ok e x), r1, opaque e)
      else p_primary srclen f ts
    end.
Proof. reflexivity. Qed.

Lemma p_primary_S f (ts : list token) :
  p_primary srclen (S f) ts =
    let '(x, r1, e) := p_inner srclen f ts in
    if negb (no_err e) then (x, r1, e)
    else
      match r1 with
      | t :: r2 =>
        if is_kind KLBracket t then
          let '(sub, rest) := split KRBracket r2 in
          let '(i, subrest, ei) := p_expr srclen f sub in
          let e1 := opaque ei ++ end_split subrest in
          match rest with
          | c :: rest' =>
            if is_kind KRBracket c then
              (when_ok e1 (opt_map2 (fun x i => EIndex x (tok_span t) i (tok_span c)) x i), rest', e1)
            else (None, rest', e1 ++ err_at (tstart c))
          | [] => (None, [], e1 ++ err_at srclen)
          end
        else (x, r1, [])
      | [] => (x, [], [])
      end.
Proof. reflexivity. Qed.

Lemma p_inner_S f (ts : list token) :
  p_inner srclen (S f) ts =
    match ts with
    | [] => (None, [], nf_at srclen)
    | t :: r =>
      if is_kind KNumber t || is_kind KString t then
        (Some (ELit (tok_span t) (tkind t) (tvalue t)), r, [])
      else if is_kind KIdentifier t then
        match p_qualified srclen ts with
        | (Some [i], r1, _) =>
          match r1 with
          | lp :: r2 =>
            if is_kind KLParen lp then
              let '(sub, rest) := split KRParen r2 in
              let '(args, subrest, ea) := p_expr_list srclen f sub in
              let '(args, subrest, ea) :=
                if is_nf ea then (Some [], subrest, [])
                else if no_err ea then
                  match subrest with
                  | c :: sr => if is_kind KComma c then (args, sr, ea) else (args, subrest, ea)
                  | [] => (args, subrest, ea)
                  end
                else (args, subrest, ea) in
              let e1 := ea ++ end_split subrest in
              match rest with
              | c :: rest' =>
                if is_kind KRParen c then
                  (when_ok e1 (option_map (fun a => ECall i (tok_span lp) a (tok_span c)) args), rest', e1)
                else (None, rest, e1 ++ err_at (tstart c))
              | [] => (None, [], e1 ++ err_at srclen)
              end
            else (Some (EQual [i]), r1, [])
          | [] => (Some (EQual [i]), [], [])
          end
        | (ps, r1, e) => (option_map EQual ps, r1, e)
        end
      else if is_kind KQuotedIdentifier t then
        let '(ps, r1, e) := p_qualified srclen ts in (option_map EQual ps, r1, e)
      else if is_kind KLParen t then
        let '(sub, rest) := split KRParen r in
        let '(x, subrest, ex) := p_expr srclen f sub in
        let e1 := opaque ex ++ end_split subrest in
        match rest with
        | c :: rest' =>
          if is_kind KRParen c then
            (when_ok e1 (option_map (fun x => EParen (tok_span t) x (tok_span c)) x), rest', e1)
          else (None, rest', e1 ++ err_at (tstart c))
        | [] => (None, [], e1 ++ err_at srclen)
        end
      else (None, ts, nf_at (tstart t))
    end.
Proof. reflexivity. Qed.

Lemma p_expr_list_S f (ts : list token) :
  p_expr_list srclen (S f) ts =
    let '(x, r1, e1) := p_expr srclen f ts in
    if negb (no_err e1) then (None, r1, e1)
    else
      let '(xs, r2, e2) := p_expr_list_tail srclen f r1 in
      (when_ok e2 (opt_map2 cons x xs), r2, e2).
Proof. reflexivity. Qed.

Lemma p_expr_list_tail_S f (ts : list token) :
  p_expr_list_tail srclen (S f) ts =
    match ts with
    | c :: r =>
      if is_kind KComma c then
        let '(x, r1, e1) := p_expr srclen f r in
        if is_nf e1 then (Some [], ts, [])
        else if negb (no_err e1) then (None, r1, opaque e1)
        else
          let '(xs, r2, e2) := p_expr_list_tail srclen f r1 in
          (when_ok e2 (opt_map2 cons x xs), r2, e2)
      else (Some [], ts, [])
    | [] => (Some [], [], [])
    end.
Proof. reflexivity. Qed.

Lemma p_trail_S f (x : option expr) (minp : Z) (ts : list token) :
  p_trail srclen (S f) x minp ts =
    match ts with
    | [] => (x, [], [])
    | op1 :: r =>
      let prec1 := op_prec (tkind op1) in
      if (prec1 <? 0)%Z || (prec1 <? minp)%Z then (x, ts, [])
      else if is_kind KIn op1 then
        match r with
        | lp :: r1 =>
          if is_kind KLParen lp then
            let '(sub, rest) := split KRParen r1 in
            let '(vals, subrest, ev) := p_expr_list srclen f sub in
            let e1 := opaque ev ++ end_split subrest in
            match rest with
            | c :: rest' =>
              if is_kind KRParen c then
                let x' := when_ok e1 (opt_map2 (fun x v => EIn x (tok_span op1) (tok_span lp) v (tok_span c)) x vals) in
                let '(x'', r2, e2) := p_trail srclen f x' minp rest' in
                (when_ok (e1 ++ e2) x'', r2, e1 ++ e2)
              else (None, rest', e1 ++ err_at (tstart lp))
            | [] => (None, [], e1 ++ err_at (tstart lp))
            end
          else (None, r1, err_at (tstart lp))
        | [] => (None, [], err_at srclen)
        end
      else
        let '(y, r1, ey) := p_unary srclen f r in
        let e1 := opaque ey in
        let '(y', r2, e2) := p_higher srclen f y prec1 r1 in
        let x' := when_ok (e1 ++ e2) (opt_map2 (fun x y => EBin x (tok_span op1) (tkind op1) y) x y') in
        let '(x'', r3, e3) := p_trail srclen f x' minp r2 in
        (when_ok (e1 ++ e2 ++ e3) x'', r3, e1 ++ e2 ++ e3)
    end.
Proof. reflexivity. Qed.

Lemma p_higher_S f (y : option expr) (prec1 : Z) (ts : list token) :
  p_higher srclen (S f) y prec1 ts =
    match ts with
    | [] => (y, [], [])
    | op2 :: _ =>
      let prec2 := op_prec (tkind op2) in
      if (prec2 <? 0)%Z || (prec2 <=? prec1)%Z then (y, ts, [])
      else
        let '(y', r1, e1) := p_trail srclen f y (prec1 + 1)%Z ts in
        let '(y'', r2, e2) := p_higher srclen f y' prec1 r1 in
        (when_ok (opaque e1 ++ e2) y'', r2, opaque e1 ++ e2)
    end.
Proof. reflexivity. Qed.

(** what "sound at fuel f" means for each production *)
Definition snd_of {A B C} (x : A * B * C) : C := snd x.

Definition S_simple (p : nat -> list token -> option expr * list token * errs) (f : nat) : Prop :=
  (forall ts x rest, p f ts = (Some x, rest, []) -> exists used, ts = used ++ rest /\ toks_expr x used)
  /\ (forall ts x rest e, p f ts = (x, rest, e) -> is_nf e = true -> rest = ts).

Definition S_list (f : nat) : Prop :=
  (forall ts xs rest, plist f ts = (Some xs, rest, []) -> exists used, ts = used ++ rest /\ toks_list xs used /\ xs <> [])
  /\ (forall ts xs rest e, plist f ts = (xs, rest, e) -> is_nf e = true -> rest = ts).

Definition S_tail (f : nat) : Prop :=
  (forall ts xs rest, ptail f ts = (Some xs, rest, []) ->
     exists used, ts = used ++ rest /\
       ((xs = [] /\ used = []) \/ exists c tl, used = c :: tl /\ tkind c = KComma /\ toks_list xs tl /\ xs <> []))
  /\ (forall ts xs rest e, ptail f ts = (xs, rest, e) -> is_nf e = false).

Definition S_trail (f : nat) : Prop :=
  (forall xo minp ts e rest, ptrail f xo minp ts = (Some e, rest, []) ->
     exists x used, xo = Some x /\ ts = used ++ rest /\ forall ux, toks_expr x ux -> toks_expr e (ux ++ used))
  /\ (forall xo minp ts e rest er, ptrail f xo minp ts = (e, rest, er) -> is_nf er = false).

Definition S_higher (f : nat) : Prop :=
  (forall yo prec1 ts e rest, phigher f yo prec1 ts = (Some e, rest, []) ->
     exists y used, yo = Some y /\ ts = used ++ rest /\ forall uy, toks_expr y uy -> toks_expr e (uy ++ used))
  /\ (forall yo prec1 ts e rest er, phigher f yo prec1 ts = (e, rest, er) -> is_nf er = false).

Definition Sound (f : nat) : Prop :=
  S_simple pexpr f /\ S_simple punary f /\ S_simple pprimary f /\ S_simple pinner f
  /\ S_list f /\ S_tail f /\ S_trail f /\ S_higher f.

Lemma is_nf_fuel : is_nf fuel_err = false.
Proof. reflexivity. Qed.

Lemma sound_0 : Sound 0.
Proof.
  unfold Sound, S_simple, S_list, S_tail, S_trail, S_higher. cbn [p_expr p_unary p_primary p_inner p_expr_list p_expr_list_tail p_trail p_higher].
  repeat split; intros; try discriminate;
    match goal with H : (_, _, _) = (_, _, _) |- _ => injection H as <- <- <- end; try reflexivity; discriminate.
Qed.

(** *** unary *)
Lemma step_unary f : S_simple pprimary f -> S_simple punary (S f).
Proof.
  intros [Hs Hn]. split.
  - intros ts x rest. rewrite p_unary_S. destruct ts as [|t r]; [discriminate|].
    destruct (is_kind KPlus t || is_kind KMinus t) eqn:Eop; [|apply Hs].
    destruct (pprimary f r) as [[x0 r1] e] eqn:Ep. intros [= Hx <- He].
    apply opaque_nil in He. subst e.
    apply option_map_some in Hx as (x1 & Hx1 & ->). apply when_ok_some in Hx1 as (_ & ->).
    destruct (Hs r x1 r1 Ep) as (used & -> & Hu).
    exists (t :: used). split; [reflexivity|].
    apply te_unary; [|split; reflexivity|exact Hu].
    apply Bool.orb_true_iff in Eop as [E|E]; apply is_kind_eq in E; auto.
  - intros ts x rest e. rewrite p_unary_S. destruct ts as [|t r]; [intros [= <- <- <-] _; reflexivity|].
    destruct (is_kind KPlus t || is_kind KMinus t); [|apply Hn].
    destruct (pprimary f r) as [[x0 r1] e0]. intros [= <- <- <-]. rewrite is_nf_opaque. discriminate.
Qed.

(** *** primary: an optional index *)
Lemma step_primary f : S_simple pinner f -> S_simple pexpr f -> S_simple pprimary (S f).
Proof.
  intros [Hs Hn] [Hes Hen]. split.
  - intros ts x rest. rewrite p_primary_S.
    destruct (pinner f ts) as [[x0 r1] e] eqn:Ei.
    destruct (negb (no_err e)) eqn:Ene.
    { intros [= -> <- ->]. discriminate. }
    apply Bool.negb_false_iff in Ene. apply no_err_true in Ene. subst e.
    destruct r1 as [|t r2].
    { intros [= -> <-]. destruct (Hs ts x [] Ei) as (used & -> & Hu). exists used. auto. }
    destruct (is_kind KLBracket t) eqn:Elb.
    + destruct (split KRBracket r2) as [sub rest'] eqn:Esp.
      destruct (pexpr f sub) as [[i subrest] ei] eqn:Ee.
      destruct rest' as [|c rest'']; [discriminate|].
      destruct (is_kind KRBracket c) eqn:Erb; [|discriminate].
      intros [= Hx <- He].
      apply app_nil_inv in He as [He1 He2]. apply opaque_nil in He1. apply end_split_nil in He2. subst ei subrest.
      apply when_ok_some in Hx as (_ & Hx). apply opt_map2_some in Hx as (x1 & i1 & -> & -> & ->).
      destruct (Hs ts x1 (t :: r2) Ei) as (used & -> & Hu).
      destruct (Hes sub i1 [] Ee) as (usedi & Hsub & Hi). rewrite app_nil_r in Hsub. subst usedi.
      pose proof (split_partition KRBracket r2) as Hp. rewrite Esp in Hp. cbn [fst snd] in Hp. subst r2.
      exists (used ++ t :: sub ++ [c]). split.
      * rewrite <- !app_assoc. cbn [app]. rewrite <- app_assoc. reflexivity.
      * apply te_index; [exact Hu|split; [apply is_kind_eq; exact Elb|reflexivity]|exact Hi|split; [apply is_kind_eq; exact Erb|reflexivity]].
    + intros [= -> <-]. destruct (Hs ts x (t :: r2) Ei) as (used & -> & Hu). exists used. auto.
  - intros ts x rest e. rewrite p_primary_S.
    destruct (pinner f ts) as [[x0 r1] e0] eqn:Ei.
    destruct (negb (no_err e0)) eqn:Ene.
    { intros [= <- <- <-] Hnf. eapply Hn; eassumption. }
    destruct r1 as [|t r2]; [intros [= <- <- <-]; discriminate|].
    destruct (is_kind KLBracket t); [|intros [= <- <- <-]; discriminate].
    destruct (split KRBracket r2) as [sub rest'].
    destruct (pexpr f sub) as [[i subrest] ei].
    destruct rest' as [|c rest''].
    { intros [= <- <- <-]. rewrite !is_nf_app, is_nf_opaque, is_nf_end_split. discriminate. }
    destruct (is_kind KRBracket c); intros [= <- <- <-]; rewrite ?is_nf_app, is_nf_opaque, is_nf_end_split; discriminate.
Qed.

(** *** shared shapes *)
Lemma cons_list x xs u1 u2 : toks_expr x u1 ->
  ((xs = [] /\ u2 = []) \/ exists c tl, u2 = c :: tl /\ tkind c = KComma /\ toks_list xs tl /\ xs <> []) ->
  toks_list (x :: xs) (u1 ++ u2).
Proof.
  intros Hx [[-> ->]|(c & tl & -> & Hc & Hl & Hne)].
  - rewrite app_nil_r. constructor. exact Hx.
  - constructor; assumption.
Qed.

Lemma orb_false {a b} : a || b = false -> a = false /\ b = false.
Proof. apply Bool.orb_false_iff. Qed.

(** *** inner: literal, name, call, parenthesised *)
Lemma qual_single i used : toks_qual [i] used -> exists t, used = [t] /\ ident_tok i t.
Proof. intros H. inversion H as [i0 t Hi|i0 t d r tr Hi Hd Hr]; subst; [eauto|inversion Hr]. Qed.

Lemma step_inner f : S_simple pexpr f -> S_list f -> S_simple pinner (S f).
Proof.
  intros [Hes Hen] [Hls Hln]. split.
  - intros ts x rest. rewrite p_inner_S. destruct ts as [|t r]; [discriminate|].
    destruct (is_kind KNumber t || is_kind KString t) eqn:Elit.
    { intros [= <- <-]. exists [t]. split; [reflexivity|].
      apply te_lit with (t := t); try reflexivity.
      apply Bool.orb_true_iff in Elit as [E|E]; apply is_kind_eq in E; auto. }
    assert (Hq : forall ps r1 e, (option_map EQual ps, r1, e) = (Some x, rest, []) -> p_qualified srclen (t :: r) = (ps, r1, e) ->
                 exists used, t :: r = used ++ rest /\ toks_expr x used).
    { intros ps r1 e [= Hps <- ->] Hpq. apply option_map_some in Hps as (ps' & -> & ->).
      apply p_qualified_sound in Hpq as (used & Hu & Hq & _). exists used. split; [exact Hu|constructor; exact Hq]. }
    destruct (is_kind KIdentifier t) eqn:Eid.
    { destruct (p_qualified srclen (t :: r)) as [[ps r1] e] eqn:Epq.
      destruct ps as [[|i [|j l]]|]; try (intros H; eapply Hq; [exact H|reflexivity]).
      pose proof (p_qualified_sound _ _ _ _ _ Epq) as (usedq & Hts & Hqq & ->).
      apply qual_single in Hqq as (tf & -> & Hif). cbn [app] in Hts. injection Hts as <- ->.
      assert (Hnq : iquoted i = false).
      { destruct Hif as (Hk & _). apply is_kind_eq in Eid. rewrite Eid in Hk. destruct (iquoted i); [discriminate|reflexivity]. }
      destruct r1 as [|lp r2].
      { intros [= <- <-]. exists [t]. split; [reflexivity|]. constructor. constructor. exact Hif. }
      destruct (is_kind KLParen lp) eqn:Elp.
      2:{ intros [= <- <-]. exists [t]. split; [reflexivity|]. constructor. constructor. exact Hif. }
      destruct (split KRParen r2) as [sub rest0] eqn:Esp.
      pose proof (split_partition KRParen r2) as Hp. rewrite Esp in Hp. cbn [fst snd] in Hp.
      destruct (plist f sub) as [[args subrest] ea] eqn:El.
      destruct (is_nf ea) eqn:Enf.
      + (* no arguments *)
        pose proof (Hln _ _ _ _ El Enf) as ->.
        destruct rest0 as [|c rest']; [discriminate|].
        destruct (is_kind KRParen c) eqn:Erp; [|discriminate].
        intros [= Hx <- He]. cbn [app] in He. apply end_split_nil in He. subst sub.
        cbn [app when_ok no_err end_split option_map] in Hx. injection Hx as <-.
        exists (t :: lp :: [] ++ [c]). split; [subst r2; reflexivity|].
        apply te_call; [exact Hif|exact Hnq|split; [apply is_kind_eq; exact Elp|reflexivity]|constructor|split; [apply is_kind_eq; exact Erp|reflexivity]].
      + destruct (no_err ea) eqn:Ene.
        * apply no_err_true in Ene. subst ea.
          assert (Hcase : forall args' subrest', (args' = args /\ ((exists c0, subrest = c0 :: subrest' /\ tkind c0 = KComma) \/ subrest' = subrest)) ->
                    match rest0 with
                    | c :: rest' =>
                      if is_kind KRParen c then
                        (when_ok ([] ++ end_split subrest') (option_map (fun a => ECall i (tok_span lp) a (tok_span c)) args'), rest', [] ++ end_split subrest')
                      else (None, rest0, ([] ++ end_split subrest') ++ err_at (tstart c))
                    | [] => (None, [], ([] ++ end_split subrest') ++ err_at srclen)
                    end = (Some x, rest, []) -> exists used, t :: lp :: r2 = used ++ rest /\ toks_expr x used).
          { intros args' subrest' (-> & Hsr).
            destruct rest0 as [|c rest']; [discriminate|].
            destruct (is_kind KRParen c) eqn:Erp; [|discriminate].
            cbn [app]. intros [= Hx <- He]. apply end_split_nil in He. subst subrest'.
            cbn [when_ok no_err end_split] in Hx. apply option_map_some in Hx as (a & -> & ->).
            destruct (Hls _ _ _ El) as (ul & Hsub & Hl & Hne).
            exists (t :: lp :: sub ++ [c]). split; [subst r2; cbn [app]; rewrite <- app_assoc; reflexivity|].
            apply te_call; [exact Hif|exact Hnq|split; [apply is_kind_eq; exact Elp|reflexivity]| |split; [apply is_kind_eq; exact Erp|reflexivity]].
            destruct Hsr as [(c0 & -> & Hc0)| <-].
            - subst sub. apply ta_trailing; assumption.
            - rewrite app_nil_r in Hsub. subst sub. apply ta_list; assumption. }
          destruct subrest as [|c0 sr]; [apply Hcase; auto|].
          destruct (is_kind KComma c0) eqn:Ec0; apply Hcase; [|auto].
          split; [reflexivity|left]. exists c0. split; [reflexivity|apply is_kind_eq; exact Ec0].
        * destruct rest0 as [|c rest']; [discriminate|].
          destruct (is_kind KRParen c); [|discriminate].
          intros [= _ _ He]. apply app_nil_inv in He as [-> _]. discriminate. }
    destruct (is_kind KQuotedIdentifier t) eqn:Eqid.
    { destruct (p_qualified srclen (t :: r)) as [[ps r1] e] eqn:Epq. intros H. eapply Hq; [exact H|reflexivity]. }
    destruct (is_kind KLParen t) eqn:Elp; [|discriminate].
    destruct (split KRParen r) as [sub rest0] eqn:Esp.
    pose proof (split_partition KRParen r) as Hp. rewrite Esp in Hp. cbn [fst snd] in Hp.
    destruct (pexpr f sub) as [[x0 subrest] ex] eqn:Ee.
    destruct rest0 as [|c rest']; [discriminate|].
    destruct (is_kind KRParen c) eqn:Erp; [|discriminate].
    intros [= Hx <- He]. apply app_nil_inv in He as [He1 He2]. apply opaque_nil in He1. apply end_split_nil in He2. subst ex subrest.
    apply when_ok_some in Hx as (_ & Hx). apply option_map_some in Hx as (x1 & -> & ->).
    destruct (Hes _ _ _ Ee) as (u & Hsub & Hu). rewrite app_nil_r in Hsub. subst u.
    exists (t :: sub ++ [c]). split; [subst r; cbn [app]; rewrite <- app_assoc; reflexivity|].
    apply te_paren; [split; [apply is_kind_eq; exact Elp|reflexivity]|exact Hu|split; [apply is_kind_eq; exact Erp|reflexivity]].
  - intros ts x rest e. rewrite p_inner_S. destruct ts as [|t r]; [intros [= <- <- <-] _; reflexivity|].
    destruct (is_kind KNumber t || is_kind KString t); [intros [= <- <- <-]; discriminate|].
    assert (Hq : forall ps r1 e0, (option_map EQual ps, r1, e0) = (x, rest, e) -> p_qualified srclen (t :: r) = (ps, r1, e0) ->
                 is_nf e = true -> rest = t :: r).
    { intros ps r1 e0 [= <- <- <-] Hpq Hnf. eapply p_qualified_nf; eassumption. }
    destruct (is_kind KIdentifier t).
    { destruct (p_qualified srclen (t :: r)) as [[ps r1] e0] eqn:Epq.
      destruct ps as [[|i [|j l]]|]; try (intros H; eapply Hq; [exact H|reflexivity]).
      destruct r1 as [|lp r2]; [intros [= <- <- <-]; discriminate|].
      destruct (is_kind KLParen lp); [|intros [= <- <- <-]; discriminate].
      destruct (split KRParen r2) as [sub rest0].
      destruct (plist f sub) as [[args subrest] ea] eqn:El.
      intros H Hnf. exfalso. revert H Hnf.
      assert (Hcase : forall (args' : option (list expr)) subrest' ea', is_nf ea' = false ->
                 match rest0 with
                 | c :: rest' =>
                   if is_kind KRParen c then
                     (when_ok (ea' ++ end_split subrest') (option_map (fun a => ECall i (tok_span lp) a (tok_span c)) args'), rest', ea' ++ end_split subrest')
                   else (None, rest0, (ea' ++ end_split subrest') ++ err_at (tstart c))
                 | [] => (None, [], (ea' ++ end_split subrest') ++ err_at srclen)
                 end = (x, rest, e) -> is_nf e = true -> False).
      { intros args' subrest' ea' Hea. destruct rest0 as [|c rest'].
        - intros [= <- <- <-]. rewrite !is_nf_app, Hea, is_nf_end_split. discriminate.
        - destruct (is_kind KRParen c); intros [= <- <- <-]; rewrite ?is_nf_app, Hea, is_nf_end_split; discriminate. }
      destruct (is_nf ea) eqn:Enf; [apply Hcase; reflexivity|].
      destruct (no_err ea); [|apply Hcase; exact Enf].
      destruct subrest as [|c0 sr]; [apply Hcase; exact Enf|].
      destruct (is_kind KComma c0); apply Hcase; exact Enf. }
    destruct (is_kind KQuotedIdentifier t).
    { destruct (p_qualified srclen (t :: r)) as [[ps r1] e0] eqn:Epq. intros H. eapply Hq; [exact H|reflexivity]. }
    destruct (is_kind KLParen t); [|intros [= <- <- <-] _; reflexivity].
    destruct (split KRParen r) as [sub rest0].
    destruct (pexpr f sub) as [[x0 subrest] ex].
    destruct rest0 as [|c rest'].
    { intros [= <- <- <-]. rewrite !is_nf_app, is_nf_opaque, is_nf_end_split. discriminate. }
    destruct (is_kind KRParen c); intros [= <- <- <-]; rewrite ?is_nf_app, is_nf_opaque, is_nf_end_split; discriminate.
Qed.

(** *** expr = unary, then the binary trail *)
Lemma step_expr f : S_simple punary f -> S_trail f -> S_simple pexpr (S f).
Proof.
  intros [Hus Hun] [Hts Htn]. split.
  - intros ts x rest. rewrite p_expr_S.
    destruct (punary f ts) as [[x0 r1] e1] eqn:Eu.
    destruct (is_nf e1) eqn:Enf.
    { intros [= _ _ ->]. discriminate. }
    destruct (ptrail f x0 0%Z r1) as [[x' r2] e2] eqn:Et.
    intros [= Hx <- He]. apply app_nil_inv in He as [-> ->]. cbn [app when_ok no_err] in Hx. subst x'.
    destruct (Hts _ _ _ _ _ Et) as (x1 & u2 & -> & -> & Hw).
    destruct (Hus _ _ _ Eu) as (u1 & -> & Hu1).
    exists (u1 ++ u2). split; [rewrite app_assoc; reflexivity|apply Hw; exact Hu1].
  - intros ts x rest e. rewrite p_expr_S.
    destruct (punary f ts) as [[x0 r1] e1] eqn:Eu.
    destruct (is_nf e1) eqn:Enf.
    { intros [= <- <- <-] _. eapply Hun; eassumption. }
    destruct (ptrail f x0 0%Z r1) as [[x' r2] e2] eqn:Et.
    intros [= <- <- <-]. rewrite is_nf_app, Enf, (Htn _ _ _ _ _ _ Et). discriminate.
Qed.

(** *** expression lists *)
Lemma step_list f : S_simple pexpr f -> S_tail f -> S_list (S f).
Proof.
  intros [Hes Hen] [Hts Htn]. split.
  - intros ts xs rest. rewrite p_expr_list_S.
    destruct (pexpr f ts) as [[x r1] e1] eqn:Ee.
    destruct (negb (no_err e1)) eqn:Ene; [discriminate|].
    apply Bool.negb_false_iff in Ene. apply no_err_true in Ene. subst e1.
    destruct (ptail f r1) as [[xs' r2] e2] eqn:Et.
    intros [= Hx <- ->]. cbn [when_ok no_err] in Hx. apply opt_map2_some in Hx as (x1 & xs1 & -> & -> & ->).
    destruct (Hes _ _ _ Ee) as (u1 & -> & Hu1).
    destruct (Hts _ _ _ Et) as (u2 & -> & Hu2).
    exists (u1 ++ u2). split; [rewrite app_assoc; reflexivity|]. split; [apply cons_list; assumption|discriminate].
  - intros ts xs rest e. rewrite p_expr_list_S.
    destruct (pexpr f ts) as [[x r1] e1] eqn:Ee.
    destruct (negb (no_err e1)) eqn:Ene.
    { intros [= <- <- <-] Hnf. eapply Hen; eassumption. }
    destruct (ptail f r1) as [[xs' r2] e2] eqn:Et.
    intros [= <- <- <-]. rewrite (Htn _ _ _ _ Et). discriminate.
Qed.

Lemma step_tail f : S_simple pexpr f -> S_tail f -> S_tail (S f).
Proof.
  intros [Hes Hen] [Hts Htn]. split.
  - intros ts xs rest. rewrite p_expr_list_tail_S.
    destruct ts as [|c r]; [intros [= <- <-]; exists []; auto|].
    destruct (is_kind KComma c) eqn:Ec; [|intros [= <- <-]; exists []; auto].
    destruct (pexpr f r) as [[x r1] e1] eqn:Ee.
    destruct (is_nf e1) eqn:Enf; [intros [= <- <-]; exists []; auto|].
    destruct (negb (no_err e1)) eqn:Ene; [discriminate|].
    apply Bool.negb_false_iff in Ene. apply no_err_true in Ene. subst e1.
    destruct (ptail f r1) as [[xs' r2] e2] eqn:Et.
    intros [= Hx <- ->]. cbn [when_ok no_err] in Hx. apply opt_map2_some in Hx as (x1 & xs1 & -> & -> & ->).
    destruct (Hes _ _ _ Ee) as (u1 & -> & Hu1).
    destruct (Hts _ _ _ Et) as (u2 & -> & Hu2).
    exists (c :: u1 ++ u2). split; [cbn [app]; rewrite app_assoc; reflexivity|].
    right. exists c, (u1 ++ u2). repeat split; [apply is_kind_eq; exact Ec|apply cons_list; assumption|discriminate].
  - intros ts xs rest e. rewrite p_expr_list_tail_S.
    destruct ts as [|c r]; [intros [= <- <- <-]; reflexivity|].
    destruct (is_kind KComma c); [|intros [= <- <- <-]; reflexivity].
    destruct (pexpr f r) as [[x r1] e1] eqn:Ee.
    destruct (is_nf e1); [intros [= <- <- <-]; reflexivity|].
    destruct (negb (no_err e1)); [intros [= <- <- <-]; apply is_nf_opaque|].
    destruct (ptail f r1) as [[xs' r2] e2] eqn:Et.
    intros [= <- <- <-]. exact (Htn _ _ _ _ Et).
Qed.

(** *** the binary trail *)
Lemma trail_id (x : option expr) e : x = Some e ->
  exists x0 used, x = Some x0 /\ (forall ts : list token, ts = used ++ ts) /\ forall ux, toks_expr x0 ux -> toks_expr e (ux ++ used).
Proof. intros ->. exists e, []. repeat split. intros ux H. rewrite app_nil_r. exact H. Qed.

Lemma step_trail f : S_simple punary f -> S_list f -> S_trail f -> S_higher f -> S_trail (S f).
Proof.
  intros [Hus Hun] [Hls Hln] [Hts Htn] [Hhs Hhn]. split.
  - intros xo minp ts e rest. rewrite p_trail_S. cbv zeta.
    assert (Hid : forall tl, (xo, tl, @nil perr) = (Some e, rest, []) ->
                  exists x used, xo = Some x /\ tl = used ++ rest /\ forall ux, toks_expr x ux -> toks_expr e (ux ++ used)).
    { intros tl [= -> <-]. exists e, []. repeat split. intros ux H. rewrite app_nil_r. exact H. }
    destruct ts as [|op1 r]; [apply Hid|].
    destruct ((op_prec (tkind op1) <? 0)%Z || (op_prec (tkind op1) <? minp)%Z) eqn:Eprec; [intros H; exact (Hid _ H)|].
    apply orb_false in Eprec as [Ep0 _]. apply Z.ltb_ge in Ep0.
    destruct (is_kind KIn op1) eqn:Ein.
    + destruct r as [|lp r1]; [discriminate|].
      destruct (is_kind KLParen lp) eqn:Elp; [|discriminate].
      destruct (split KRParen r1) as [sub rest0] eqn:Esp.
      pose proof (split_partition KRParen r1) as Hp. rewrite Esp in Hp. cbn [fst snd] in Hp.
      destruct (plist f sub) as [[vals subrest] ev] eqn:El.
      destruct rest0 as [|c rest']; [discriminate|].
      destruct (is_kind KRParen c) eqn:Erp; [|discriminate].
      set (e1 := opaque ev ++ end_split subrest).
      destruct (ptrail f (when_ok e1 (opt_map2 (fun x v => EIn x (tok_span op1) (tok_span lp) v (tok_span c)) xo vals)) minp rest') as [[x'' r2] e2] eqn:Et.
      intros [= Hx <- He]. apply app_nil_inv in He as [He1 ->]. rewrite He1 in *. cbn [app when_ok no_err] in Hx, Et. subst x''.
      subst e1. apply app_nil_inv in He1 as [Hev Hsr]. apply opaque_nil in Hev. apply end_split_nil in Hsr. subst ev subrest.
      destruct (Hts _ _ _ _ _ Et) as (xin & u3 & Hxin & -> & Hw).
      apply opt_map2_some in Hxin as (x0 & vs & -> & -> & ->).
      destruct (Hls _ _ _ El) as (ul & Hsub & Hl & Hne). rewrite app_nil_r in Hsub. subst ul.
      exists x0, (op1 :: lp :: sub ++ c :: u3). split; [reflexivity|]. split.
      { subst r1. cbn [app]. rewrite <- app_assoc. reflexivity. }
      intros ux Hux.
      replace (ux ++ op1 :: lp :: sub ++ c :: u3) with ((ux ++ op1 :: lp :: sub ++ [c]) ++ u3)
        by (rewrite <- !app_assoc; cbn [app]; rewrite <- app_assoc; reflexivity).
      apply Hw. apply te_in; try assumption; (split; [apply is_kind_eq; assumption|reflexivity]).
    + destruct (punary f r) as [[y r1] ey] eqn:Eu.
      destruct (phigher f y (op_prec (tkind op1)) r1) as [[y' r2] e2] eqn:Eh.
      set (e1 := opaque ey).
      destruct (ptrail f (when_ok (e1 ++ e2) (opt_map2 (fun x y => EBin x (tok_span op1) (tkind op1) y) xo y')) minp r2) as [[x'' r3] e3] eqn:Et.
      intros [= Hx <- He]. apply app_nil_inv in He as [He1 He23]. apply app_nil_inv in He23 as [-> ->].
      rewrite He1 in *. cbn [app when_ok no_err] in Hx, Et. subst x''. subst e1. apply opaque_nil in He1. subst ey.
      destruct (Hts _ _ _ _ _ Et) as (xb & u3 & Hxb & -> & Hw).
      apply opt_map2_some in Hxb as (x0 & y1 & -> & -> & ->).
      destruct (Hhs _ _ _ _ _ Eh) as (y0 & u2 & -> & -> & Hwy).
      destruct (Hus _ _ _ Eu) as (u1 & -> & Hu1).
      exists x0, (op1 :: u1 ++ u2 ++ u3). split; [reflexivity|]. split.
      { cbn [app]. rewrite <- !app_assoc. reflexivity. }
      intros ux Hux.
      replace (ux ++ op1 :: u1 ++ u2 ++ u3) with ((ux ++ op1 :: (u1 ++ u2)) ++ u3)
        by (rewrite <- !app_assoc; cbn [app]; rewrite <- app_assoc; reflexivity).
      apply Hw. apply te_bin; [exact Ep0|apply is_kind_neq; exact Ein|exact Hux|split; reflexivity|apply Hwy; exact Hu1].
  - intros xo minp ts e rest er. rewrite p_trail_S. cbv zeta.
    destruct ts as [|op1 r]; [intros [= <- <- <-]; reflexivity|].
    destruct (_ || _); [intros [= <- <- <-]; reflexivity|].
    destruct (is_kind KIn op1).
    + destruct r as [|lp r1]; [intros [= <- <- <-]; reflexivity|].
      destruct (is_kind KLParen lp); [|intros [= <- <- <-]; reflexivity].
      destruct (split KRParen r1) as [sub rest0].
      destruct (plist f sub) as [[vals subrest] ev].
      destruct rest0 as [|c rest'].
      { intros [= <- <- <-]. rewrite !is_nf_app, is_nf_opaque, is_nf_end_split. reflexivity. }
      destruct (is_kind KRParen c).
      2:{ intros [= <- <- <-]. rewrite !is_nf_app, is_nf_opaque, is_nf_end_split. reflexivity. }
      destruct (ptrail f _ minp rest') as [[x'' r2] e2] eqn:Et.
      intros [= <- <- <-]. rewrite !is_nf_app, is_nf_opaque, is_nf_end_split, (Htn _ _ _ _ _ _ Et). reflexivity.
    + destruct (punary f r) as [[y r1] ey].
      destruct (phigher f y (op_prec (tkind op1)) r1) as [[y' r2] e2] eqn:Eh.
      destruct (ptrail f _ minp r2) as [[x'' r3] e3] eqn:Et.
      intros [= <- <- <-]. rewrite !is_nf_app, is_nf_opaque, (Hhn _ _ _ _ _ _ Eh), (Htn _ _ _ _ _ _ Et). reflexivity.
Qed.

Lemma step_higher f : S_trail f -> S_higher f -> S_higher (S f).
Proof.
  intros [Hts Htn] [Hhs Hhn]. split.
  - intros yo prec1 ts e rest. rewrite p_higher_S. cbv zeta.
    assert (Hid : forall tl, (yo, tl, @nil perr) = (Some e, rest, []) ->
                  exists y used, yo = Some y /\ tl = used ++ rest /\ forall uy, toks_expr y uy -> toks_expr e (uy ++ used)).
    { intros tl [= -> <-]. exists e, []. repeat split. intros ux H. rewrite app_nil_r. exact H. }
    destruct ts as [|op2 r]; [apply Hid|].
    destruct (_ || _); [intros H; exact (Hid _ H)|].
    destruct (ptrail f yo (prec1 + 1)%Z (op2 :: r)) as [[y' r1] e1] eqn:Et.
    destruct (phigher f y' prec1 r1) as [[y'' r2] e2] eqn:Eh.
    intros [= Hx <- He]. apply app_nil_inv in He as [He1 ->]. apply opaque_nil in He1. subst e1.
    cbn [opaque map app when_ok no_err] in Hx. subst y''.
    destruct (Hhs _ _ _ _ _ Eh) as (ym & u2 & -> & -> & Hw2).
    destruct (Hts _ _ _ _ _ Et) as (y0 & u1 & -> & Hu & Hw1).
    exists y0, (u1 ++ u2). split; [reflexivity|]. split; [rewrite Hu, app_assoc; reflexivity|].
    intros uy Huy. rewrite app_assoc. apply Hw2. apply Hw1. exact Huy.
  - intros yo prec1 ts e rest er. rewrite p_higher_S. cbv zeta.
    destruct ts as [|op2 r]; [intros [= <- <- <-]; reflexivity|].
    destruct (_ || _); [intros [= <- <- <-]; reflexivity|].
    destruct (ptrail f yo (prec1 + 1)%Z (op2 :: r)) as [[y' r1] e1] eqn:Et.
    destruct (phigher f y' prec1 r1) as [[y'' r2] e2] eqn:Eh.
    intros [= <- <- <-]. rewrite is_nf_app, is_nf_opaque, (Hhn _ _ _ _ _ _ Eh). reflexivity.
Qed.

(** *** all fuels *)
Theorem sound_all f : Sound f.
Proof.
  induction f as [|f (He & Hu & Hp & Hi & Hl & Ht & Htr & Hh)]; [apply sound_0|].
  unfold Sound. repeat split.
  all: first [ apply step_expr; assumption | apply step_unary; assumption | apply step_primary; assumption
             | apply step_inner; assumption | apply step_list; assumption | apply step_tail; assumption
             | apply step_trail; assumption | apply step_higher; assumption ].
Qed.

(** The expression parser is sound: whenever it returns a tree without errors, the tokens it
    consumed are exactly the tree's token sequence, with every recorded position the span of
    its token; the tokens it leaves are the unconsumed suffix. *)
Theorem p_expr_sound f ts x rest : pexpr f ts = (Some x, rest, []) -> exists used, ts = used ++ rest /\ toks_expr x used.
Proof. destruct (sound_all f) as ((H & _) & _). apply H. Qed.

Theorem p_expr_list_sound f ts xs rest : plist f ts = (Some xs, rest, []) ->
  exists used, ts = used ++ rest /\ toks_list xs used /\ xs <> [].
Proof. destruct (sound_all f) as (_ & _ & _ & _ & (H & _) & _). apply H. Qed.

Theorem p_expr_nf f ts x rest e : pexpr f ts = (x, rest, e) -> is_nf e = true -> rest = ts.
Proof. destruct (sound_all f) as ((_ & H) & _). apply H. Qed.
End Exprs.
