(** * C16: the line loop computes the one-shot specification, for every layout of the script
    over lines. *)
From PQL Require Import Spec.CliSpec Proofs.LexerFacts Proofs.SplitFacts Proofs.LexCut Proofs.ScanCut Proofs.Locality.
From Coq Require Import Lia.
Local Open Scope list_scope.
Local Open Scope nat_scope.

(** ** splitting a token list that is the concatenation of two *)
(** where the piece in progress starts after the tokens [ts] *)
Fixpoint next_start (start : nat) (ts : list token) : nat :=
  match ts with
  | [] => start
  | t :: r => match tkind t with KSemi => next_start (tend t) r | _ => next_start start r end
  end.

(** the pieces completed by the tokens [ts] *)
Fixpoint completed (s : str) (start : nat) (ts : list token) : list str :=
  match ts with
  | [] => []
  | t :: r => match tkind t with
              | KSemi => slice s start (tstart t) :: completed s (tend t) r
              | _ => completed s start r
              end
  end.

Lemma split_app s ts1 : forall start ts2,
  split_at_semis s start (ts1 ++ ts2) = completed s start ts1 ++ split_at_semis s (next_start start ts1) ts2.
Proof.
  induction ts1 as [|t r IH]; intros start ts2; cbn [app split_at_semis completed next_start]; [reflexivity|].
  destruct (tkind t); try apply IH. cbn [app]. f_equal. apply IH.
Qed.

Lemma split_as_completed s ts : forall start,
  split_at_semis s start ts = completed s start ts ++ [skipn (next_start start ts) s].
Proof. intros start. rewrite <- (app_nil_r ts) at 1. rewrite split_app. reflexivity. Qed.

Lemma removelast_snoc {A} (l : list A) x : removelast (l ++ [x]) = l.
Proof. apply removelast_last. Qed.
Lemma last_snoc {A} (l : list A) x d : last (l ++ [x]) d = x.
Proof. apply last_last. Qed.

(** the completed pieces only depend on the source up to the tokens' end *)
Lemma slice_app_le s x a b : b <= length s -> slice (s ++ x) a b = slice s a b.
Proof.
  intros H. unfold slice. destruct (Nat.le_gt_cases a (length s)) as [Ha|Ha].
  - rewrite skipn_app_le by exact Ha. rewrite firstn_app_le; [reflexivity|]. rewrite skipn_length. lia.
  - replace (b - a) with 0 by lia. reflexivity.
Qed.

Lemma completed_app s x ts : forall start lo, toks_within lo (length s) ts ->
  completed (s ++ x) start ts = completed s start ts.
Proof.
  induction ts as [|t r IH]; intros start lo W; cbn [completed]; [reflexivity|].
  inversion W as [|? ? ? ? A B C W']; subst.
  destruct (tkind t); try (eapply IH; exact W').
  rewrite slice_app_le by lia. f_equal. eapply IH. exact W'.
Qed.

Lemma next_start_bound ts : forall lo hi start, toks_within lo hi ts -> start <= hi -> next_start start ts <= hi.
Proof.
  induction ts as [|t r IH]; intros lo hi start W Hs; cbn [next_start]; [exact Hs|].
  inversion W as [|? ? ? ? A B C W']; subst.
  destruct (tkind t); try (eapply IH; [exact W'|exact Hs]). eapply IH; [exact W'|lia].
Qed.

Lemma next_start_shift k ts : forall start, next_start (k + start) (map (shift_tok k) ts) = k + next_start start ts.
Proof.
  induction ts as [|t r IH]; intros start; cbn [map next_start]; [reflexivity|].
  change (tkind (shift_tok k t)) with (tkind t). change (tend (shift_tok k t)) with (k + tend t).
  destruct (tkind t); apply IH.
Qed.

Lemma no_semi_completed s ts : forall start, no_semi ts = true -> completed s start ts = [] /\ next_start start ts = start.
Proof.
  induction ts as [|t r IH]; intros start H; cbn [completed next_start]; [auto|].
  cbn [no_semi] in H. apply andb_prop in H as [Ht Hr]. apply Bool.negb_true_iff in Ht.
  destruct (tkind t) eqn:E; try (apply IH; exact Hr). vm_compute in Ht. discriminate.
Qed.

(** ** the key fact: reading more text after a newline only extends the last piece *)
Definition ends_with_nl (t : str) : Prop := t = [] \/ exists a, t = a ++ [10%N].

Lemma scan_after_nl t x : ends_with_nl t -> scan (t ++ x) = scan t ++ map (shift_tok (length t)) (scan x).
Proof.
  intros [->|(a & ->)].
  - cbn [app length]. rewrite map_shift_0. reflexivity.
  - rewrite <- app_assoc. cbn [app]. rewrite scan_nl. rewrite app_length. cbn [length].
    replace (length a + 1) with (S (length a)) by lia. reflexivity.
Qed.

Lemma skipn_ends_with_nl t n : ends_with_nl t -> n < length t -> ends_with_nl (skipn n t).
Proof.
  intros [->|(a & ->)] Hn; [cbn in Hn; lia|]. right. rewrite app_length in Hn. cbn [length] in Hn.
  exists (skipn n a). rewrite skipn_app_le by lia. reflexivity.
Qed.

Theorem split_after_nl t x : ends_with_nl t ->
  split_statements (t ++ x) = removelast (split_statements t) ++ split_statements (last (split_statements t) [] ++ x).
Proof.
  intros Hnl. unfold split_statements at 1 2 4.
  rewrite (scan_after_nl t x Hnl).
  rewrite split_app. rewrite (split_as_completed t (scan t) 0).
  rewrite removelast_snoc, last_snoc.
  rewrite (completed_app t x (scan t) 0 0 (scan_within t)). f_equal.
  set (ns := next_start 0 (scan t)).
  assert (Hns : ns <= length t) by (apply (next_start_bound (scan t) 0 (length t) 0 (scan_within t)); lia).
  set (lastp := skipn ns t).
  (* the last piece has no semicolon token of its own *)
  assert (Hlast_in : In lastp (split_statements t)).
  { unfold split_statements. rewrite split_as_completed. apply in_or_app. right. left. reflexivity. }
  pose proof (pieces_have_no_semi t lastp Hlast_in) as Hno.
  assert (Hlnl : ends_with_nl lastp).
  { destruct (Nat.eq_dec ns (length t)) as [E|E].
    - left. subst lastp. rewrite E. apply skipn_all.
    - apply skipn_ends_with_nl; [exact Hnl|lia]. }
  unfold split_statements. rewrite (scan_after_nl lastp x Hlnl).
  rewrite split_app.
  destruct (no_semi_completed (lastp ++ x) (scan lastp) 0 Hno) as (-> & ->). cbn [app].
  assert (Hlen : length t = ns + length lastp) by (subst lastp; rewrite skipn_length; lia).
  rewrite Hlen. rewrite <- map_shift_shift.
  replace ns with (ns + 0) at 1 by lia. rewrite split_shift.
  rewrite skipn_app_le by exact Hns. reflexivity.
Qed.

(** ** the line loop *)
Lemma do_piece_set_pending s p x : do_piece (set_pending s p) x = set_pending (do_piece s x) p.
Proof.
  unfold do_piece, set_pending. cbn [prelude failed out nlogged pending].
  destruct (is_let_piece x); destruct (compile_ok _); reflexivity.
Qed.

Lemma fold_set_pending l : forall s p, fold_left do_piece l (set_pending s p) = set_pending (fold_left do_piece l s) p.
Proof.
  induction l as [|x r IH]; intros s p; cbn [fold_left]; [reflexivity|].
  rewrite do_piece_set_pending. apply IH.
Qed.

Lemma set_pending_twice s p q : set_pending (set_pending s p) q = set_pending s q.
Proof. reflexivity. Qed.

Lemma join_semis_single p : join_semis [p] = p.
Proof. reflexivity. Qed.

Lemma do_line_state T l : ends_with_nl T ->
  do_line (state_of_text T) l = state_of_text (T ++ l ++ [10%N]).
Proof.
  intros Hnl. unfold do_line.
  change (pending (state_of_text T)) with (last (split_statements T) []).
  set (buf := last (split_statements T) [] ++ l ++ [10%N]).
  pose proof (split_after_nl T (l ++ [10%N]) Hnl) as Hsplit. fold buf in Hsplit.
  pose proof (split_statements_nonempty buf) as Hne.
  destruct (exists_last Hne) as (init & lastp & Epieces).
  set (A := removelast (split_statements T)) in *.
  assert (Erhs : state_of_text (T ++ l ++ [10%N]) =
                 set_pending (fold_left do_piece init (fold_left do_piece A cli_init)) lastp).
  { unfold state_of_text. rewrite Hsplit, Epieces, app_assoc, removelast_snoc, last_snoc, fold_left_app. reflexivity. }
  rewrite Erhs, Epieces. clear Erhs.
  rewrite rev_app_distr. cbn [rev app].
  destruct (rev init) as [|x rinit] eqn:Einit.
  - (* a single piece: nothing is complete yet, the buffer is kept *)
    assert (init = []) as -> by (apply (f_equal (@rev str)) in Einit; rewrite rev_involutive in Einit; exact Einit).
    cbn [fold_left app] in *.
    assert (lastp = buf) as ->.
    { pose proof (split_join buf) as Hj. rewrite Epieces in Hj. exact Hj. }
    reflexivity.
  - assert (Hinit : rev (x :: rinit) = init) by (rewrite <- Einit; apply rev_involutive).
    rewrite Hinit. unfold state_of_text. fold A.
    change (mkCli lastp (prelude ?s) (failed ?s) (out ?s) (nlogged ?s)) with (set_pending s lastp).
    rewrite fold_set_pending. reflexivity.
Qed.

Lemma ends_with_nl_line T l : ends_with_nl (T ++ l ++ [10%N]).
Proof. right. exists (T ++ l). rewrite app_assoc. reflexivity. Qed.

Theorem run_lines_from T : ends_with_nl T -> forall lines,
  run_events (state_of_text T) (map Line lines) = expected (T ++ text_of lines).
Proof.
  intros Hnl lines. revert T Hnl. induction lines as [|l r IH]; intros T Hnl; cbn [map run_events text_of concat].
  - rewrite app_nil_r. reflexivity.
  - rewrite do_line_state by exact Hnl. rewrite IH by apply ends_with_nl_line.
    f_equal. unfold text_of. rewrite <- !app_assoc. reflexivity.
Qed.

(** The theorem: for every way of laying a script out over lines, the tool's line loop computes
    the one-shot specification on the text it has read. *)
Theorem run_is_expected lines : run (map Line lines) = expected (text_of lines).
Proof.
  unfold run. change cli_init with (state_of_text []).
  rewrite (run_lines_from [] (or_introl eq_refl) lines). reflexivity.
Qed.

(** layout freedom: two sequences of lines with the same text behave the same *)
Corollary layout_free l1 l2 : text_of l1 = text_of l2 -> run (map Line l1) = run (map Line l2).
Proof. intros H. rewrite !run_is_expected, H. reflexivity. Qed.
