(** * C02: the subqueries built by splitQueries denote the pipeline applied left to right.
    (Pipelines without joins; no assumption on names is needed.) *)
From PQL Require Import Spec.PipeSem Proofs.TableFacts Proofs.ExprInd.
From Coq Require Import Lia String.
Local Open Scope list_scope.
Local Notation length := List.length (only parsing).

Section Pipeline.
Variable F : fenv.
Variable ev : bool -> env -> expr -> value.
Variable source : str.
Variable sc : scope.
Variable db0 : database.
Variable src : ident.

Notation evalS := (eval_subqs F ev source db0 None).
Notation eval1 := (eval_subq F ev source).
Notation apply := (apply_op F ev source).

Definition is_join (o : operator) : bool := match o with OJoin _ _ _ _ _ _ _ _ _ _ _ => true | _ => false end.

(** ** evaluation of a list of subqueries, one more at the end *)
Lemma eval_subqs_app l1 : forall db last l2,
  eval_subqs F ev source db last (l1 ++ l2) =
  match eval_subqs F ev source db last l1 with
  | Some (db', last') => eval_subqs F ev source db' last' l2
  | None => None
  end.
Proof.
  induction l1 as [|s r IH]; intros db last l2; cbn [app eval_subqs]; [reflexivity|].
  destruct (eval_subq F ev source db s); [apply IH|reflexivity].
Qed.

Lemma lookup_head {A} (n : str) (v : A) d : lookup ((n, v) :: d) n = Some v.
Proof. cbn [lookup]. rewrite str_eqb_refl. reflexivity. Qed.

(** ** the invariant of the split loop: the last subquery denotes the table so far *)
Inductive inv : list subq -> table -> Prop :=
| inv_nil cur : lookup db0 (iname src) = Some cur -> inv [] cur
| inv_snoc dst0 s d0 l0 cur :
    evalS dst0 = Some (d0, l0) -> eval1 d0 s = Some cur -> inv (dst0 ++ [s]) cur.

Lemma last_opt_snoc {A} (l : list A) x : last_opt (l ++ [x]) = Some x.
Proof. unfold last_opt. rewrite rev_app_distr. reflexivity. Qed.

Lemma set_last_snoc (l : list subq) x f : set_last (l ++ [x]) f = l ++ [f x].
Proof. unfold set_last. rewrite rev_app_distr. cbn [rev app]. rewrite rev_involutive. reflexivity. Qed.

Lemma length_snoc {A} (l : list A) x : length (l ++ [x]) = S (length l).
Proof. rewrite app_length. cbn. lia. Qed.

(** a fresh subquery reads the table so far *)
Lemma fresh_reads dst cur : inv dst cur ->
  exists d l, evalS dst = Some (d, l) /\ eval_source ev d (sq_source (chain_subquery dst 0 src)) = Some cur.
Proof.
  intros [cur' H | dst0 s d0 l0 cur' H0 H1].
  - exists db0, None. split; [reflexivity|]. cbn. exact H.
  - exists ((sq_name s, cur') :: d0), (Some cur'). split.
    + rewrite eval_subqs_app, H0. cbn [eval_subqs]. rewrite H1. reflexivity.
    + unfold chain_subquery. rewrite length_snoc, last_opt_snoc. cbn [Nat.ltb Nat.leb sq_source eval_source].
      apply lookup_head.
Qed.

(** appending a fresh subquery that carries operator [o] (and possibly a sort and a limit) *)
Lemma inv_push dst cur name o srt tk :
  inv dst cur ->
  inv (dst ++ [mkSubq name (sq_source (chain_subquery dst 0 src)) o srt tk])
      (finish_subq F ev (mkSubq name (sq_source (chain_subquery dst 0 src)) o srt tk)
                   (match o with Some op => apply op cur | None => cur end)).
Proof.
  intros H. destruct (fresh_reads dst cur H) as (d & l & Hd & Hs).
  eapply inv_snoc; [exact Hd|]. unfold eval_subq. cbn [sq_source sq_op]. rewrite Hs. reflexivity.
Qed.

(** ** the step lemma, one case per kind of operator *)
Lemma step_plain dst cur o :
  inv dst cur -> is_join o = false ->
  (match o with OSort _ _ _ | OTake _ _ _ | OTop _ _ _ _ _ => false | _ => true end) = true ->
  forall dst', split_op sc 0 src dst o = Ok dst' -> inv dst' (apply o cur).
Proof.
  intros Hinv Hj Hk dst' Hs.
  destruct o; try discriminate; cbn [split_op] in Hs; injection Hs as <-.
  all: match goal with
       | |- inv (_ ++ [mkSubq ?n ?s ?o None None]) ?t =>
         pose proof (inv_push dst cur n o None None Hinv) as Hp; cbn [finish_subq sq_sort sq_take] in Hp; exact Hp
       end.
Qed.

Lemma state_of_snoc dst0 s :
  state_of (dst0 ++ [s]) 0 =
  {| ss_nil := false;
     ss_can_attach := match sq_op s with Some o => can_attach_sort (op_nkind o) | None => can_attach_sort_default end;
     ss_has_sort := match sq_sort s with Some _ => true | None => false end;
     ss_has_take := match sq_take s with Some _ => true | None => false end |}.
Proof.
  unfold state_of. rewrite length_snoc, last_opt_snoc. reflexivity.
Qed.

Lemma state_of_nil : ss_nil (state_of [] 0) = true.
Proof. reflexivity. Qed.

Lemma eval1_finish d s t0 :
  eval_source ev d (sq_source s) = Some t0 ->
  eval1 d s = Some (finish_subq F ev s (match sq_op s with Some o => apply o t0 | None => t0 end)).
Proof. intros H. unfold eval_subq. rewrite H. reflexivity. Qed.

Lemma eval1_inv d s cur : eval1 d s = Some cur ->
  exists t0, eval_source ev d (sq_source s) = Some t0 /\
             cur = finish_subq F ev s (match sq_op s with Some o => apply o t0 | None => t0 end).
Proof. unfold eval_subq. destruct (eval_source ev d (sq_source s)) as [t0|]; [|discriminate]. intros [= <-]. eauto. Qed.

Lemma step_sort dst cur p k terms :
  inv dst cur -> forall dst', split_op sc 0 src dst (OSort p k terms) = Ok dst' ->
  inv dst' (apply (OSort p k terms) cur).
Proof.
  intros Hinv dst' Hs. cbn [split_op] in Hs. injection Hs as <-.
  destruct (split_cond_sort (state_of dst 0)) eqn:Ec.
  - (* a new subquery carrying the sort *)
    rewrite set_last_snoc. cbn [sq_name sq_source sq_op sq_take].
    pose proof (inv_push dst cur (sq_name (chain_subquery dst 0 src)) None (Some terms) None Hinv) as Hp.
    cbn [finish_subq sq_sort sq_take] in Hp. exact Hp.
  - (* attached to the last subquery, which has neither sort nor limit *)
    apply sort_attach_spec in Ec as (Hnil & Hca & Hso & Hta).
    destruct Hinv as [cur' H | dst0 s d0 l0 cur' H0 H1]; [rewrite state_of_nil in Hnil; discriminate|].
    rewrite state_of_snoc in Hso, Hta. cbn [ss_has_sort ss_has_take] in Hso, Hta.
    rewrite set_last_snoc. eapply inv_snoc; [exact H0|].
    apply eval1_inv in H1 as (t0 & Hsrc & ->).
    rewrite (eval1_finish d0 _ t0) by exact Hsrc. cbn [sq_op]. f_equal.
    unfold finish_subq. cbn [sq_sort sq_take].
    destruct (sq_sort s); [discriminate|]. destruct (sq_take s); [discriminate|]. reflexivity.
Qed.

Lemma step_take dst cur p k n :
  inv dst cur -> forall dst', split_op sc 0 src dst (OTake p k n) = Ok dst' ->
  inv dst' (apply (OTake p k n) cur).
Proof.
  intros Hinv dst' Hs. cbn [split_op] in Hs. injection Hs as <-.
  destruct (split_cond_take (state_of dst 0)) eqn:Ec.
  - rewrite set_last_snoc. cbn [sq_name sq_source sq_op sq_sort].
    pose proof (inv_push dst cur (sq_name (chain_subquery dst 0 src)) None None (Some n) Hinv) as Hp.
    cbn [finish_subq sq_sort sq_take] in Hp. exact Hp.
  - (* attached: the last subquery may carry a sort, but no limit: ORDER BY then LIMIT *)
    apply take_attach_spec in Ec as (Hnil & Hca & Hta).
    destruct Hinv as [cur' H | dst0 s d0 l0 cur' H0 H1]; [rewrite state_of_nil in Hnil; discriminate|].
    rewrite state_of_snoc in Hta. cbn [ss_has_take] in Hta.
    rewrite set_last_snoc. eapply inv_snoc; [exact H0|].
    apply eval1_inv in H1 as (t0 & Hsrc & ->).
    rewrite (eval1_finish d0 _ t0) by exact Hsrc. cbn [sq_op]. f_equal.
    unfold finish_subq. cbn [sq_sort sq_take].
    destruct (sq_take s); [discriminate|]. reflexivity.
Qed.

Lemma step_top dst cur p k n b c :
  inv dst cur -> forall dst', split_op sc 0 src dst (OTop p k n b c) = Ok dst' ->
  inv dst' (apply (OTop p k n b c) cur).
Proof.
  intros Hinv dst' Hs. cbn [split_op] in Hs. injection Hs as <-.
  destruct (split_cond_top (state_of dst 0)) eqn:Ec.
  - rewrite set_last_snoc. cbn [sq_name sq_source sq_op].
    pose proof (inv_push dst cur (sq_name (chain_subquery dst 0 src)) None (Some [c]) (Some n) Hinv) as Hp.
    cbn [finish_subq sq_sort sq_take] in Hp. exact Hp.
  - apply top_attach_spec in Ec as (Hnil & Hca & Hso & Hta).
    destruct Hinv as [cur' H | dst0 s d0 l0 cur' H0 H1]; [rewrite state_of_nil in Hnil; discriminate|].
    rewrite state_of_snoc in Hso, Hta. cbn [ss_has_sort ss_has_take] in Hso, Hta.
    rewrite set_last_snoc. eapply inv_snoc; [exact H0|].
    apply eval1_inv in H1 as (t0 & Hsrc & ->).
    rewrite (eval1_finish d0 _ t0) by exact Hsrc. cbn [sq_op]. f_equal.
    unfold finish_subq. cbn [sq_sort sq_take].
    destruct (sq_sort s); [discriminate|]. destruct (sq_take s); [discriminate|]. reflexivity.
Qed.

Lemma step dst cur o : inv dst cur -> is_join o = false ->
  forall dst', split_op sc 0 src dst o = Ok dst' -> inv dst' (apply o cur).
Proof.
  intros Hinv Hj dst' Hs. destruct o; try discriminate;
    try (eapply step_plain; [exact Hinv|reflexivity|reflexivity|exact Hs]).
  - eapply step_sort; eassumption.
  - eapply step_take; eassumption.
  - eapply step_top; eassumption.
Qed.

(** ** the loop *)
Fixpoint apply_all (ops : list operator) (cur : table) : table :=
  match ops with [] => cur | o :: r => apply_all r (apply o cur) end.

Lemma steps ops : forall dst cur, inv dst cur -> forallb (fun o => negb (is_join o)) ops = true ->
  forall dst', fold_res (split_op sc 0 src) ops dst = Ok dst' -> inv dst' (apply_all ops cur).
Proof.
  induction ops as [|o r IH]; intros dst cur Hinv Hnj dst' Hf; cbn [fold_res apply_all] in *.
  - injection Hf as <-. exact Hinv.
  - apply andb_prop in Hnj as [Ho Hr]. apply Bool.negb_true_iff in Ho.
    destruct (split_op sc 0 src dst o) as [dst1|p] eqn:E; cbn [bind] in Hf; [|discriminate].
    eapply IH; [eapply step; eassumption|exact Hr|exact Hf].
Qed.

(** without joins the pipeline interpreter is the fold of [apply_op] (an [as] only names the table) *)
Lemma run_ops_no_join ops : forall db cur, forallb (fun o => negb (is_join o)) ops = true ->
  option_map snd (run_ops F ev source sc db cur ops) = Some (apply_all ops cur).
Proof.
  induction ops as [|o r IH]; intros db cur Hnj; cbn [run_ops apply_all]; [reflexivity|].
  cbn [forallb] in Hnj. apply andb_prop in Hnj as [Ho Hr].
  destruct o; try discriminate; cbn [run_op]; apply IH; exact Hr.
Qed.

Lemma inv_eval dst cur : inv dst cur -> dst <> [] -> eval_statement F ev source db0 dst = Some cur.
Proof.
  intros [cur' H | dst0 s d0 l0 cur' H0 H1] Hne; [congruence|].
  unfold eval_statement. rewrite eval_subqs_app, H0. cbn [eval_subqs]. rewrite H1. reflexivity.
Qed.

Theorem split_queries_denotes_pipeline t subqs :
  forallb (fun o => negb (is_join o)) (tops t) = true -> tsrc t = src ->
  split_queries sc [] t = Ok subqs ->
  forall r, run_pipeline F ev source sc db0 t = Some r -> eval_statement F ev source db0 subqs = Some r.
Proof.
  intros Hnj Hsrc Hs r Hr. unfold split_queries in Hs. rewrite Hsrc in *. cbn [length] in Hs.
  unfold run_pipeline in Hr. rewrite Hsrc in Hr.
  destruct (lookup db0 (iname src)) as [base|] eqn:Eb; [|discriminate].
  rewrite (run_ops_no_join (tops t) db0 base Hnj) in Hr. injection Hr as <-.
  destruct (fold_res (split_op sc 0 src) (tops t) []) as [dst1|p] eqn:Ef; cbn [bind] in Hs; [|discriminate].
  injection Hs as <-.
  pose proof (steps (tops t) [] base (inv_nil base Eb) Hnj dst1 Ef) as Hinv.
  destruct (Nat.eqb (length dst1) 0) eqn:El.
  - (* no operator at all: one subquery reading the table *)
    destruct dst1; [|discriminate]. cbn [app].
    pose proof (inv_push [] (apply_all (tops t) base) (sq_name (chain_subquery [] 0 src)) None None None Hinv) as Hp.
    cbn [app finish_subq sq_sort sq_take] in Hp.
    apply (inv_eval _ _ Hp). discriminate.
  - apply (inv_eval _ _ Hinv). destruct dst1; [discriminate|discriminate].
Qed.

End Pipeline.
