(** * SqlGlueProg: every program compiled without parameters prints bytes that lex into the
    tokens of its pieces (the [glue_ok] side condition of Proofs/SqlGlue.v always holds). *)
From PQL Require Import Spec.SqlRead Model.Trans Proofs.ExprInd Proofs.TableFacts Proofs.PipelineFacts Proofs.JoinFacts
  Proofs.ReadBack Proofs.ReadBackStmt Proofs.SubqWf Proofs.SqlGlue Proofs.SqlGlueToks Proofs.SqlGlueWriter.
From Coq Require Import Lia String.
Local Open Scope list_scope.
Local Open Scope nat_scope.
Local Notation length := List.length (only parsing).

(** number spellings and function names of the shape the lexer produces, everywhere in an operator *)
Fixpoint oper_lex (o : operator) : Prop :=
  match o with
  | OCount _ _ | OAs _ _ _ | ORender _ _ _ _ _ _ _ => True
  | OWhere _ _ p => lexok p
  | OSort _ _ terms => Forall (fun t => lexok (st_x t)) terms
  | OTake _ _ n => lexok n
  | OTop _ _ n _ col => lexok n /\ lexok (st_x col)
  | OProject _ _ cols => Forall (fun col => match pc_x col with Some x => lexok x | None => True end) cols
  | OExtend _ _ cols => Forall (fun col => lexok (ec_x col)) cols
  | OSummarize _ _ cols _ groupby => Forall (fun col => lexok (ec_x col)) cols /\ Forall (fun col => lexok (ec_x col)) groupby
  | OJoin _ _ _ _ _ _ _ rops _ _ conds =>
    Forall lexok conds /\ (fix all (l : list operator) : Prop := match l with [] => True | a :: r => oper_lex a /\ all r end) rops
  end.

Lemma oper_lex_all l : (fix all (l : list operator) : Prop := match l with [] => True | a :: r => oper_lex a /\ all r end) l <-> Forall oper_lex l.
Proof. induction l as [|a r IH]; [split; [constructor|auto]|]. split; [intros [H1 H2]; constructor; [exact H1|apply IH; exact H2]|intros H; inversion H; subst; split; [assumption|apply IH; assumption]]. Qed.

Definition op_lex (o : option operator) : Prop :=
  match o with
  | None | Some (OAs _ _ _) | Some (OCount _ _) | Some (ORender _ _ _ _ _ _ _) => True
  | Some (OProject _ _ cols) => Forall (fun col => match pc_x col with Some x => lexok x | None => True end) cols
  | Some (OExtend _ _ cols) => Forall (fun col => lexok (ec_x col)) cols
  | Some (OSummarize _ _ cols _ groupby) => Forall (fun col => lexok (ec_x col)) cols /\ Forall (fun col => lexok (ec_x col)) groupby
  | Some (OWhere _ _ p) => lexok p
  | Some _ => True
  end.

Definition src_lex (s : ssource) : Prop := match s with SrcName _ => True | SrcJoin _ _ _ _ cond _ => lexok cond end.

Definition subq_lex (s : subq) : Prop :=
  op_lex (sq_op s) /\ src_lex (sq_source s) /\
  match sq_sort s with Some terms => Forall (fun t => lexok (st_x t)) terms | None => True end /\
  match sq_take s with Some n => lexok n | None => True end.

Section Lex.
Variable sc : scope.

Lemma lexok_rewrite_simple e : lexok e -> lexok (rewrite_simple_cond sc e).
Proof. intros H. unfold rewrite_simple_cond. destruct (bare_name sc e) as [p|]; [|exact H]. cbn [lexok]. split; exact I. Qed.

Lemma lexok_join_cond conds : Forall lexok conds -> lexok (build_join_cond sc conds).
Proof.
  intros H. unfold build_join_cond. destruct conds as [|c0 r]; [exact I|].
  inversion H as [|c1 r1 Hc Hr]; subst.
  assert (Hgen : forall acc, lexok acc -> lexok (fold_left (fun x y => EBin x None KAnd (rewrite_simple_cond sc y)) r acc)).
  { clear Hc H. induction Hr as [|y r Hy Hr IH]; intros acc Hacc; [exact Hacc|]. cbn [fold_left]. apply IH.
    cbn [lexok]. split; [exact Hacc|apply lexok_rewrite_simple; exact Hy]. }
  apply Hgen. apply lexok_rewrite_simple. exact Hc.
Qed.

Lemma fresh_lex dst ds src : subq_lex (chain_subquery dst ds src).
Proof.
  unfold chain_subquery, subq_lex. cbn [sq_op sq_source sq_sort sq_take op_lex].
  repeat split; destruct (Nat.ltb ds (length dst)); [destruct (last_opt dst)|]; exact I.
Qed.

Lemma set_last_lex dst (f : subq -> subq) : Forall subq_lex dst -> (forall s, subq_lex s -> subq_lex (f s)) -> Forall subq_lex (set_last dst f).
Proof.
  intros H Hf. unfold set_last. destruct (rev dst) as [|s r] eqn:Er; [constructor|].
  assert (Hall : Forall subq_lex (s :: r)) by (rewrite <- Er; apply Forall_rev; exact H).
  inversion Hall; subst. apply Forall_rev. constructor; [apply Hf; assumption|assumption].
Qed.

Lemma snoc_lex dst s : Forall subq_lex dst -> subq_lex s -> Forall subq_lex (dst ++ [s]).
Proof. intros H Hs. apply Forall_app. split; [exact H|constructor; [exact Hs|constructor]]. Qed.

Theorem split_op_lex : forall o, oper_lex o -> forall ds src dst dst',
  Forall subq_lex dst -> split_op sc ds src dst o = Ok dst' -> Forall subq_lex dst'.
Proof.
  induction o using operator_ind'; intros Hwf ds src dst dst' Hdst Hs.
  - pose proof (fresh_lex dst ds src) as Hfresh.
    destruct o; try discriminate H; cbn [split_op oper_lex] in *.
    + injection Hs as <-. apply snoc_lex; [exact Hdst|]. repeat split; try apply Hfresh; exact I.
    + injection Hs as <-. apply snoc_lex; [exact Hdst|]. split; [exact Hwf|]. split; [apply Hfresh|split; exact I].
    + injection Hs as <-. apply set_last_lex.
      * destruct (split_cond_sort _); [apply snoc_lex; assumption|exact Hdst].
      * intros s (H1 & H2 & _ & H4). repeat split; try assumption.
    + injection Hs as <-. apply set_last_lex.
      * destruct (split_cond_take _); [apply snoc_lex; assumption|exact Hdst].
      * intros s (H1 & H2 & H3 & _). repeat split; try assumption.
    + injection Hs as <-. destruct Hwf as [Hn Hc]. apply set_last_lex.
      * destruct (split_cond_top _); [apply snoc_lex; assumption|exact Hdst].
      * intros s (H1 & H2 & _ & _). split; [exact H1|]. split; [exact H2|]. split; [constructor; [exact Hc|constructor]|exact Hn].
    + injection Hs as <-. apply snoc_lex; [exact Hdst|]. split; [exact Hwf|]. split; [apply Hfresh|split; exact I].
    + injection Hs as <-. apply snoc_lex; [exact Hdst|]. split; [exact Hwf|]. split; [apply Hfresh|split; exact I].
    + injection Hs as <-. apply snoc_lex; [exact Hdst|]. split; [exact Hwf|]. split; [apply Hfresh|split; exact I].
    + injection Hs as <-. apply snoc_lex; [exact Hdst|]. split; [exact I|]. split; [apply Hfresh|split; exact I].
    + injection Hs as <-. apply snoc_lex; [exact Hdst|]. split; [exact I|]. split; [apply Hfresh|split; exact I].
  - cbn [oper_lex] in Hwf. destruct Hwf as [Hconds Hrops]. apply oper_lex_all in Hrops.
    rewrite split_join_unfold in Hs. cbv zeta in Hs.
    destruct (fold_res (split_op sc (length dst) rsrc) rops dst) as [dst1|] eqn:Ef; cbn [bind] in Hs; [|discriminate].
    assert (H1 : Forall subq_lex dst1).
    { eapply (fold_res_wf (Forall subq_lex)); [|exact Hdst|exact Ef].
      apply Forall_forall. intros o Ho d d' Hd Hsd. rewrite Forall_forall in H, Hrops. eapply (H o Ho (Hrops o Ho)); eassumption. }
    set (dst1' := if Nat.eqb (length dst1) (length dst) then dst1 ++ [chain_subquery dst1 (length dst) rsrc] else dst1) in *.
    assert (H1' : Forall subq_lex dst1').
    { unfold dst1'. destruct (Nat.eqb _ _); [apply snoc_lex; [exact H1|apply fresh_lex]|exact H1]. }
    match type of Hs with bind ?r _ = _ => destruct r as [outer|] eqn:Eo end; cbn [bind] in Hs; [|discriminate].
    destruct (wexpr (mkCtx sc ModeJoin) (build_join_cond sc conds)) as [cond|] eqn:Ec; cbn [bind] in Hs; [|discriminate].
    injection Hs as <-. apply snoc_lex; [exact H1'|].
    split; [exact I|]. split; [|split; exact I]. cbn [sq_source src_lex]. apply lexok_join_cond. exact Hconds.
Qed.

Theorem split_queries_lex t subs : Forall oper_lex (tops t) -> split_queries sc [] t = Ok subs -> Forall subq_lex subs.
Proof.
  intros Hw H. unfold split_queries in H. cbn [length] in H.
  destruct (fold_res (split_op sc 0 (tsrc t)) (tops t) []) as [dst1|] eqn:Ef; cbn [bind] in H; [|discriminate].
  injection H as <-.
  assert (H1 : Forall subq_lex dst1).
  { eapply (fold_res_wf (Forall subq_lex)); [|constructor|exact Ef].
    apply Forall_forall. intros o Ho d d' Hd Hsd. rewrite Forall_forall in Hw. eapply split_op_lex; [apply Hw; exact Ho|exact Hd|exact Hsd]. }
  destruct (Nat.eqb (length dst1) 0); [apply snoc_lex; [exact H1|apply fresh_lex]|exact H1].
Qed.

Lemma subq_glue_of s : subq_wf sc s -> subq_lex s -> subq_glue sc s.
Proof.
  intros (Ho & Hs & Hsort & Htake) (Lo & Ls & Lsort & Ltake). unfold subq_glue, wl. split; [|split; [|split]].
  - destruct (sq_op s) as [o|]; [|exact I]. destruct o; cbn [op_wf op_lex op_glue] in *; try exact I; try contradiction.
    + split; assumption.
    + destruct Ho as [Hne Hall]. split; [exact Hne|]. rewrite Forall_forall in *. intros col Hin. specialize (Hall col Hin). specialize (Lo col Hin).
      destruct (pc_x col); [split; assumption|exact I].
    + rewrite Forall_forall in *. intros col Hin. split; [apply Ho|apply Lo]; exact Hin.
    + destruct Ho as (Hne & Hc & Hg). destruct Lo as [Lc Lg]. split; [exact Hne|]. rewrite Forall_forall in *.
      split; [intros col Hin; split; [apply Hc|apply Lc]; exact Hin|apply Forall_forall; intros col Hin; split; [apply Hg|apply Lg]; exact Hin].
  - destruct (sq_source s) as [n|u l o r cond ps]; cbn [src_wf src_lex src_glue] in *; [exact I|]. destruct Hs as [Hw Hx]. split; [split; assumption|exact Hx].
  - destruct (sq_sort s) as [terms|]; [|exact I]. destruct Hsort as [Hne Hall]. split; [exact Hne|]. rewrite Forall_forall in *. intros t Hin. split; [apply Hall|apply Lsort]; exact Hin.
  - destruct (sq_take s); [split; assumption|exact I].
Qed.
End Lex.

Definition scope_glued (sc : scope) : Prop := forall n v, scope_get sc n = Some v -> Seg is_start_op is_end v.

Definition stmts_lex (ss : list stmt) : Prop :=
  Forall (fun s => match s with SLet _ _ _ x => lexok x | STab t => Forall oper_lex (tops t) end) ss.

Lemma stmt_loop_glued : forall ss sc q sc' q', stmts_wf ss -> stmts_lex ss -> scope_glued sc ->
  stmt_loop sc q ss = Ok (sc', q') -> scope_glued sc'.
Proof.
  induction ss as [|s r IH]; intros sc q sc' q' Hwf Hlx Hsc H; cbn [stmt_loop] in H.
  - injection H as <- _. exact Hsc.
  - inversion Hwf as [|? ? Hw Hwr]; subst. inversion Hlx as [|? ? Hl Hlr]; subst.
    destruct s as [kw name asp x|t0].
    + destruct q as [t1|]; [eapply IH; eassumption|].
      apply bind_ok in H as (v & Hv & H). eapply IH; [exact Hwr|exact Hlr| |exact H].
      intros n v0. cbn [scope_get]. destruct (str_eqb (iname name) n); [|apply Hsc].
      intros [= <-]. apply (wx_glue (mkCtx sc ModeLet) Hsc x Hw Hl WOperand v Hv).
    + destruct q as [t1|]; [discriminate|]. eapply IH; eassumption.
Qed.

(** What Compile prints for a program without parameters, as bytes, lexes (dialect lexer of
    Spec/SqlLex.v, ClickHouse mode) into exactly the token list [ptoks] that the token-level
    theorems read back as the program's subqueries. *)
Theorem compile_stmts_glue source ss ps : stmts_wf ss -> stmts_lex ss -> compile_stmts source [] ss = Ok ps -> glue_ok ps = true.
Proof.
  intros Hwf Hlx H. unfold compile_stmts in H. cbn [map] in H.
  destruct (stmt_loop [] None ss) as [[sc [t|]]|] eqn:El; cbn [bind fst snd] in H; try discriminate.
  destruct (split_queries sc [] t) as [subs|] eqn:Es; cbn [bind] in H; [|discriminate].
  destruct (rev subs) as [|q rctes] eqn:Er; [discriminate|].
  apply bind_ok in H as (w & Hw & H). apply bind_ok in H as (body & Hbody & [= <-]).
  assert (Hsc : scope_glued sc) by (eapply (stmt_loop_glued ss [] None); [exact Hwf|exact Hlx|intros n v E; discriminate E|exact El]).
  assert (Hin : In (STab t) ss) by (destruct (stmt_loop_query _ _ _ _ _ El) as [Hq|Hin]; [discriminate|exact Hin]).
  assert (Hops : Forall oper_wf (tops t)) by (unfold stmts_wf in Hwf; rewrite Forall_forall in Hwf; exact (Hwf _ Hin)).
  assert (Hopl : Forall oper_lex (tops t)) by (unfold stmts_lex in Hlx; rewrite Forall_forall in Hlx; exact (Hlx _ Hin)).
  pose proof (split_queries_wf sc t subs Hops Es) as Hsubs. pose proof (split_queries_lex sc t subs Hopl Es) as Hsubl.
  assert (Hall : Forall (subq_glue sc) (q :: rctes)).
  { rewrite <- Er. apply Forall_rev. rewrite Forall_forall in *. intros s Hs. apply subq_glue_of; [apply Hsubs|apply Hsubl]; exact Hs. }
  inversion Hall as [|q0 r0 Hq Hr]; subst.
  apply (statement_glue source sc Hsc (rev rctes) q w body); [apply Forall_rev; exact Hr|exact Hq|exact Hw|exact Hbody].
Qed.

Theorem compile_bytes_lex source ss ps : stmts_wf ss -> stmts_lex ss -> compile_stmts source [] ss = Ok ps ->
  exists ts, ptoks ps = Some ts /\ sql_lex ClickHouse (render ps) = Some ts.
Proof. intros Hwf Hlx H. apply glue_bytes_are_ptoks. eapply compile_stmts_glue; eassumption. Qed.
