(** * C10: positions of parse errors lie inside the source.
    Every position the parser model attaches to an error is the start of one of the tokens it was
    given or the end of the source ([srclen]); since tokens lie inside the source, so does every
    error position - for every production, every fuel, every token list. *)
From PQL Require Import Model.Parser Proofs.LexerFacts Proofs.ParserFacts Proofs.ParserSound Proofs.ParserSoundStmt Proofs.ParserFuel.
From Coq Require Import Lia.
Local Open Scope list_scope.
Local Open Scope nat_scope.
Local Notation length := List.length (only parsing).

Section Pos.
Variable n : nat.   (* the length of the source *)

Definition TB (ts : list token) : Prop := Forall (fun t => tstart t <= n) ts.
Definition EB (e : errs) : Prop := Forall (fun x => match epos x with Some p => p <= n | None => True end) e.

Lemma EB_nil : EB []. Proof. constructor. Qed.
Lemma EB_app a b : EB a /\ EB b -> EB (a ++ b). Proof. intros [H1 H2]. apply Forall_app. split; assumption. Qed.
Lemma EB_opaque e : EB e -> EB (opaque e).
Proof. intros H. unfold opaque. induction H; cbn [map]; constructor; assumption. Qed.
Lemma EB_at p : p <= n -> EB (err_at p). Proof. intros H. repeat constructor. exact H. Qed.
Lemma EB_nf p : p <= n -> EB (nf_at p). Proof. intros H. repeat constructor. exact H. Qed.
Lemma EB_nopos : EB err_nopos. Proof. repeat constructor. Qed.
Lemma EB_fuel : EB fuel_err. Proof. repeat constructor. Qed.
Lemma EB_end_split ts : TB ts -> EB (end_split ts).
Proof. intros H. destruct ts as [|t r]; [constructor|]. inversion H; subst. apply EB_at. assumption. Qed.

Lemma TB_app a b : TB (a ++ b) -> TB a /\ TB b. Proof. apply Forall_app. Qed.
Lemma TB_split k ts : TB ts -> TB (fst (split k ts)) /\ TB (snd (split k ts)).
Proof. intros H. apply TB_app. rewrite split_partition. exact H. Qed.
Lemma TB_split_semi ts : TB ts -> TB (fst (split_semi ts)) /\ TB (snd (split_semi ts)).
Proof. intros H. apply TB_app. rewrite split_semi_app. exact H. Qed.

Ltac tbi := unfold TB in *; repeat match goal with H : Forall _ (_ :: _) |- _ => apply Forall_cons_iff in H; destruct H end.
Ltac tb := tbi; repeat match goal with
  | |- Forall _ [] => constructor
  | |- Forall _ (_ :: _) => constructor
  | |- Forall _ _ => assumption
  | |- _ <= _ => assumption || lia
  end.
Ltac eb := repeat match goal with
  | |- EB (_ ++ _) => apply EB_app; split
  | |- EB (opaque _) => apply EB_opaque
  | |- EB [] => apply EB_nil
  | |- EB (err_at _) => apply EB_at; tbi; (assumption || lia)
  | |- EB (nf_at _) => apply EB_nf; tbi; (assumption || lia)
  | |- EB err_nopos => apply EB_nopos
  | |- EB fuel_err => apply EB_fuel
  | |- EB (end_split _) => apply EB_end_split; tb
  | |- EB (if ?b then _ else _) => destruct b
  | |- EB (match ?l with [] => _ | _ :: _ => _ end) => destruct l
  | |- EB (_ :: _) => apply Forall_cons; [cbn [epos]; try exact I; tbi; (assumption || lia)|]
  | |- Forall _ [] => constructor
  | |- Forall (fun x : perr => _) ?e => change (EB e)
  | |- EB _ => assumption
  end.
Ltac done3 := intros [= <- <- <-]; split; [solve [tb] | solve [eb]].
Ltac done4 := intros [= <- <- <- <-]; split; [solve [tb] | solve [eb]].
Ltac done5 := intros [= <- <- <- <- <-]; split; [solve [tb] | solve [eb]].

Definition PosOK {A} (p : list token -> option A * list token * errs) : Prop :=
  forall ts x rest e, TB ts -> p ts = (x, rest, e) -> TB rest /\ EB e.

Lemma p_ident_pos : PosOK (p_ident n).
Proof.
  intros ts x rest e HT. unfold p_ident. destruct ts as [|t r]; [done3|]. destruct (_ || _); done3.
Qed.

Lemma p_qual_tail_pos : forall k ts ps rest e, length ts <= k -> TB ts -> p_qual_tail n ts = (ps, rest, e) -> TB rest /\ EB e.
Proof.
  induction k as [|k IH]; intros ts ps rest e Hk HT.
  - destruct ts; [|cbn in Hk; lia]. cbn. done3.
  - destruct ts as [|d r]; cbn [p_qual_tail]; [done3|].
    destruct (is_kind KDot d); [|done3].
    destruct r as [|t r']; [done3|].
    destruct (_ || _); [|done3].
    destruct (p_qual_tail n r') as [[a b] c] eqn:E.
    destruct (IH r' _ _ _ ltac:(cbn in Hk; lia) ltac:(tb) E) as [? ?]. done3.
Qed.

Lemma p_qualified_pos : PosOK (p_qualified n).
Proof.
  intros ts x rest e HT. unfold p_qualified. destruct (p_ident n ts) as [[[i|] r] ei] eqn:Ei;
    destruct (p_ident_pos _ _ _ _ HT Ei) as [? ?].
  - destruct (p_qual_tail n r) as [[ps rest'] e'] eqn:Et.
    destruct (p_qual_tail_pos (length r) r _ _ _ (le_n _) ltac:(tb) Et) as [? ?]. done3.
  - done3.
Qed.

Definition Pos8 (f : nat) : Prop :=
  PosOK (p_expr n f) /\ PosOK (p_unary n f) /\ PosOK (p_primary n f) /\ PosOK (p_inner n f)
  /\ PosOK (p_expr_list n f) /\ PosOK (p_expr_list_tail n f)
  /\ (forall x minp, PosOK (p_trail n f x minp)) /\ (forall y prec1, PosOK (p_higher n f y prec1)).

Ltac sub H E := let A := fresh "TBi" in let A' := fresh "TBr" in let B := fresh "EBe" in
  match type of E with ?p ?l = _ => assert (TB l) as A by tb; destruct (H _ _ _ _ A E) as [A' B] end.
Ltac sub2 H E := let A := fresh "TBi" in let A' := fresh "TBr" in let B := fresh "EBe" in
  match type of E with ?p ?l = _ => assert (TB l) as A by tb; destruct (H _ _ _ _ _ _ A E) as [A' B] end.
Ltac subn H E := let A := fresh "TBi" in let A' := fresh "TBr" in let B := fresh "EBe" in
  match type of E with ?p ?l = _ => assert (TB l) as A by tb;
    first [destruct (H _ _ _ _ A E) as [A' B] | destruct (H _ _ _ _ _ A E) as [A' B] | destruct (H _ _ _ _ _ _ A E) as [A' B]
          | destruct (H _ _ _ _ _ _ _ A E) as [A' B] | destruct (H _ _ _ _ _ _ _ _ A E) as [A' B]] end.
Ltac splt k l := let A := fresh "TBs" in let B := fresh "TBt" in
  destruct (TB_split k l ltac:(tb)) as [A B]; destruct (split k l) as [? ?]; cbn [fst snd] in *.

Lemma pos8_all f : Pos8 f.
Proof.
  induction f as [|f (He & Hu & Hp & Hi & Hl & Ht & Htr & Hh)].
  { unfold Pos8. repeat apply conj; unfold PosOK; cbn [p_expr p_unary p_primary p_inner p_expr_list p_expr_list_tail p_trail p_higher];
      intros; match goal with H : (_, _, _) = (_, _, _) |- _ => injection H as <- <- <- end; (split; [solve [tb] | solve [eb]]). }
  unfold Pos8. repeat apply conj.
  - (* p_expr *)
    intros ts x rest e HT. rewrite p_expr_S. destruct (p_unary n f ts) as [[x0 r1] e1] eqn:Eu. sub Hu Eu.
    destruct (is_nf e1); [done3|]. destruct (p_trail n f x0 0%Z r1) as [[x' r2] e2] eqn:Et. sub2 Htr Et. done3.
  - (* p_unary *)
    intros ts x rest e HT. rewrite p_unary_S. destruct ts as [|t r]; [done3|].
    destruct (_ || _); [|apply Hp; exact HT]. destruct (p_primary n f r) as [[x0 r1] e0] eqn:Ep. sub Hp Ep. done3.
  - (* p_primary *)
    intros ts x rest e HT. rewrite p_primary_S. destruct (p_inner n f ts) as [[x0 r1] e0] eqn:Ei. sub Hi Ei.
    destruct (negb (no_err e0)); [done3|]. destruct r1 as [|t r2]; [done3|].
    destruct (is_kind KLBracket t); [|done3].
    splt KRBracket r2.
    destruct (p_expr n f l) as [[i subrest] ei] eqn:Ee. sub He Ee. destruct l0 as [|c rest']; [done3|].
    destruct (is_kind KRBracket c); done3.
  - (* p_inner *)
    intros ts x rest e HT. rewrite p_inner_S. destruct ts as [|t r]; [done3|].
    destruct (_ || _); [done3|].
    assert (Hq : forall (ps : option (list ident)) r1 (e0 : errs), TB r1 -> EB e0 -> (option_map EQual ps, r1, e0) = (x, rest, e) -> TB rest /\ EB e).
    { intros ps r1 e0 H1 H2 [= <- <- <-]. split; assumption. }
    destruct (is_kind KIdentifier t).
    { destruct (p_qualified n (t :: r)) as [[ps r1] e0] eqn:Epq. destruct (p_qualified_pos _ _ _ _ HT Epq) as [? ?].
      destruct ps as [[|i [|j l]]|]; try (apply Hq; assumption).
      destruct r1 as [|lp r2]; [done3|]. destruct (is_kind KLParen lp); [|done3].
      splt KRParen r2.
      destruct (p_expr_list n f l) as [[args subrest] ea] eqn:El. sub Hl El.
      destruct (is_nf ea); [destruct l0 as [|c rest']; [done3|destruct (is_kind KRParen c); done3]|].
      destruct (no_err ea); [|destruct l0 as [|c rest']; [done3|destruct (is_kind KRParen c); done3]].
      destruct subrest as [|c0 sr]; [destruct l0 as [|c rest']; [done3|destruct (is_kind KRParen c); done3]|].
      destruct (is_kind KComma c0); destruct l0 as [|c rest']; try done3; destruct (is_kind KRParen c); done3. }
    destruct (is_kind KQuotedIdentifier t).
    { destruct (p_qualified n (t :: r)) as [[ps r1] e0] eqn:Epq. destruct (p_qualified_pos _ _ _ _ HT Epq) as [? ?]. apply Hq; assumption. }
    destruct (is_kind KLParen t); [|done3].
    splt KRParen r.
    destruct (p_expr n f l) as [[x0 subrest] ex] eqn:Ee. sub He Ee. destruct l0 as [|c rest']; [done3|].
    destruct (is_kind KRParen c); done3.
  - (* p_expr_list *)
    intros ts x rest e HT. rewrite p_expr_list_S. destruct (p_expr n f ts) as [[x0 r1] e1] eqn:Ee. sub He Ee.
    destruct (negb (no_err e1)); [done3|]. destruct (p_expr_list_tail n f r1) as [[xs r2] e2] eqn:Et. sub Ht Et. done3.
  - (* p_expr_list_tail *)
    intros ts x rest e HT. rewrite p_expr_list_tail_S. destruct ts as [|c r]; [done3|].
    destruct (is_kind KComma c); [|done3]. destruct (p_expr n f r) as [[x0 r1] e1] eqn:Ee. sub He Ee.
    destruct (is_nf e1); [done3|]. destruct (negb (no_err e1)); [done3|].
    destruct (p_expr_list_tail n f r1) as [[xs r2] e2] eqn:Et. sub Ht Et. done3.
  - (* p_trail *)
    intros x0 minp ts x rest e HT. rewrite p_trail_S. cbv zeta. destruct ts as [|op1 r]; [done3|].
    destruct (_ || _); [done3|]. destruct (is_kind KIn op1).
    + destruct r as [|lp r1]; [done3|]. destruct (is_kind KLParen lp); [|done3].
      splt KRParen r1.
      destruct (p_expr_list n f l) as [[vals subrest] ev] eqn:El. sub Hl El. destruct l0 as [|c rest']; [done3|].
      destruct (is_kind KRParen c); [|done3].
      destruct (p_trail n f _ minp rest') as [[x'' r2] e2] eqn:Et. sub2 Htr Et. done3.
    + destruct (p_unary n f r) as [[y r1] ey] eqn:Eu. sub Hu Eu.
      destruct (p_higher n f y (op_prec (tkind op1)) r1) as [[y' r2] e2] eqn:Eh. sub2 Hh Eh.
      destruct (p_trail n f _ minp r2) as [[x'' r3] e3] eqn:Et. sub2 Htr Et. done3.
  - (* p_higher *)
    intros y0 prec1 ts x rest e HT. rewrite p_higher_S. cbv zeta. destruct ts as [|op2 r]; [done3|].
    destruct (_ || _); [done3|].
    destruct (p_trail n f y0 (prec1 + 1)%Z (op2 :: r)) as [[y' r1] e1] eqn:Et. sub2 Htr Et.
    destruct (p_higher n f y' prec1 r1) as [[y'' r2] e2] eqn:Eh. sub2 Hh Eh. done3.
Qed.

(** ** operators *)
Lemma p_expr_pos f : PosOK (p_expr n f). Proof. destruct (pos8_all f) as (H & _). exact H. Qed.
Lemma p_expr_list_pos f : PosOK (p_expr_list n f). Proof. destruct (pos8_all f) as (_ & _ & _ & _ & H & _). exact H. Qed.

Lemma p_sort_term_pos f : PosOK (p_sort_term n f).
Proof.
  intros ts x rest e HT. unfold p_sort_term. destruct (p_expr n f ts) as [[x0 r1] e1] eqn:Ee. sub (p_expr_pos f) Ee.
  destruct (negb (no_err e1)); [done3|]. cbv zeta beta.
  assert (Hn : forall asc aspan nf0 (r : list token), TB r ->
    match r with
    | t :: r' =>
      if is_word w_nulls t then
        match r' with
        | t2 :: r'' =>
          if is_word w_first t2 then (option_map (fun x => mkSortTerm x asc aspan true (Some (tstart t, tend t2))) x0, r'', [])
          else if is_word w_last t2 then (option_map (fun x => mkSortTerm x asc aspan false (Some (tstart t, tend t2))) x0, r'', [])
          else (None, r', err_at (tstart t2))
        | [] => (None, [], err_at n)
        end
      else (option_map (fun x => mkSortTerm x asc aspan nf0 None) x0, r, [])
    | [] => (option_map (fun x => mkSortTerm x asc aspan nf0 None) x0, [], [])
    end = (x, rest, e) -> TB rest /\ EB e).
  { intros asc aspan nf0 r Hr. destruct r as [|t1 r']; [done3|].
    destruct (is_word w_nulls t1); [|done3].
    destruct r' as [|t2 r'']; [done3|].
    destruct (is_word w_first t2); [done3|].
    destruct (is_word w_last t2); done3. }
  destruct r1 as [|t1 r]; [done3|].
  destruct (is_word w_asc t1); [apply Hn; tb|].
  destruct (is_word w_desc t1); [apply Hn; tb|].
  destruct (is_word w_nulls t1) eqn:En.
  { intros H'. pose proof (Hn false None false (t1 :: r) ltac:(tb)) as Hs. cbv beta iota in Hs. rewrite En in Hs. exact (Hs H'). }
  done3.
Qed.

Lemma p_row_count_pos f : PosOK (p_row_count n f).
Proof.
  intros ts x rest e HT. unfold p_row_count. destruct (p_expr n f ts) as [[x0 r1] e1] eqn:Ee. sub (p_expr_pos f) Ee.
  destruct (negb (no_err e1)); [done3|]. destruct x0 as [[]|]; try done3. destruct (lit_is_integer k v); done3.
Qed.

Lemma p_ext_col_pos f : PosOK (p_ext_col n f).
Proof.
  intros ts c rest e HT. unfold p_ext_col.
  assert (Hplain : (let '(x, r1, e) := p_expr n f ts in (when_ok e (option_map (mkExtCol None None) x), r1, e)) = (c, rest, e) -> TB rest /\ EB e).
  { destruct (p_expr n f ts) as [[x r1] e1] eqn:Ee. sub (p_expr_pos f) Ee. done3. }
  destruct (p_ident n ts) as [[[i|] ri] ei] eqn:Ei; [|exact Hplain]. sub p_ident_pos Ei.
  destruct ri as [|a r]; [exact Hplain|]. destruct (is_kind KAssign a); [|exact Hplain].
  destruct (p_expr n f r) as [[x r1] e1] eqn:Ee. sub (p_expr_pos f) Ee. done3.
Qed.

Lemma p_sort_terms_pos f : forall k ts l rest e, TB ts -> p_sort_terms n k f ts = (l, rest, e) -> TB rest /\ EB e.
Proof.
  induction k as [|k IH]; intros ts l rest e HT; cbn [p_sort_terms]; [done3|].
  destruct (p_sort_term n f ts) as [[t r1] e1] eqn:Et. sub (p_sort_term_pos f) Et.
  destruct (negb (no_err e1)); [done3|].
  destruct r1 as [|c r2]; [done3|].
  destruct (is_kind KComma c); [|done3].
  destruct (p_sort_terms n k f r2) as [[tl r3] e3] eqn:Er. subn IH Er. done3.
Qed.

Lemma p_project_cols_pos f : forall k ts l rest e, TB ts -> p_project_cols n k f ts = (l, rest, e) -> TB rest /\ EB e.
Proof.
  induction k as [|k IH]; intros ts l rest e HT; cbn [p_project_cols]; [done3|].
  destruct (p_ident n ts) as [[[name|] r] e0] eqn:Ei.
  2:{ sub p_ident_pos Ei. done3. }
  apply p_ident_sound in Ei as (ti & -> & _ & _). cbv zeta beta.
  assert (Hmore : forall r' col, TB r' ->
     (let '(tl, r3, e3) := p_project_cols n k f r' in (when_ok e3 (opt_map2 cons col tl), r3, e3)) = (l, rest, e) -> TB rest /\ EB e).
  { intros r' col Hr. destruct (p_project_cols n k f r') as [[tl r3] e3] eqn:Er. destruct (IH _ _ _ _ Hr Er) as [? ?]. done3. }
  destruct r as [|sep r1]; [done3|].
  destruct (is_kind KComma sep); [apply Hmore; tb|].
  destruct (is_kind KAssign sep); [|done3].
  destruct (p_expr n f r1) as [[x r2] e2] eqn:Ee. sub (p_expr_pos f) Ee.
  destruct (negb (no_err e2)); [done3|].
  destruct r2 as [|sep2 r3]; [done3|].
  destruct (is_kind KComma sep2); [apply Hmore; tb|done3].
Qed.

Lemma p_extend_cols_pos f : forall k ts l rest e, TB ts -> p_extend_cols n k f ts = (l, rest, e) -> TB rest /\ EB e.
Proof.
  induction k as [|k IH]; intros ts l rest e HT; cbn [p_extend_cols]; [done3|].
  destruct (p_ext_col n f ts) as [[c r1] e1] eqn:Ec. sub (p_ext_col_pos f) Ec.
  destruct (negb (no_err e1)); [done3|].
  destruct r1 as [|sep r2]; [done3|].
  destruct (is_kind KComma sep); [|done3].
  destruct (p_extend_cols n k f r2) as [[tl r3] e3] eqn:Er. subn IH Er. done3.
Qed.

Lemma p_group_cols_pos f : forall k ts l rest e, TB ts -> p_group_cols n k f ts = (l, rest, e) -> TB rest /\ EB e.
Proof.
  induction k as [|k IH]; intros ts l rest e HT; cbn [p_group_cols]; [done3|].
  destruct (p_ext_col n f ts) as [[c r1] e1] eqn:Ec. sub (p_ext_col_pos f) Ec.
  destruct (negb (no_err e1)); [done3|].
  destruct r1 as [|sep r2]; [done3|].
  destruct (is_kind KComma sep); [|done3].
  destruct (p_group_cols n k f r2) as [[tl r3] e3] eqn:Er. subn IH Er. done3.
Qed.

Lemma p_summarize_cols_pos f : forall k ac ts l rest e fin tc, TB ts ->
  p_summarize_cols n k f ac ts = (l, rest, e, fin, tc) -> TB rest /\ EB e.
Proof.
  induction k as [|k IH]; intros ac ts l rest e fin tc HT; cbn [p_summarize_cols]; [done5|].
  destruct (p_ext_col n f ts) as [[c r1] e1] eqn:Ec. sub (p_ext_col_pos f) Ec.
  destruct (is_nf e1); [done5|].
  destruct (negb (no_err e1)); [done5|].
  destruct r1 as [|sep r2]; [done5|].
  destruct (is_kind KComma sep); [|done5].
  destruct (p_summarize_cols n k f true r2) as [[[[tl r3] e3] fin'] tc'] eqn:Er.
  subn IH Er. done5.
Qed.

Lemma p_render_prop_pos f : PosOK (p_render_prop n f).
Proof.
  intros ts p rest e HT. unfold p_render_prop. destruct (p_ident n ts) as [[[name|] r] e0] eqn:Ei; sub p_ident_pos Ei; [|done3].
  destruct r as [|a r1]; [done3|].
  destruct (is_kind KAssign a); [|done3].
  destruct (p_expr n f r1) as [[v r2] e2] eqn:Ee. sub (p_expr_pos f) Ee.
  destruct (negb (no_err e2)); done3.
Qed.

Lemma p_render_props_pos f : forall k ts l rest e, TB ts -> p_render_props n k f ts = (l, rest, e) -> TB rest /\ EB e.
Proof.
  induction k as [|k IH]; intros ts l rest e HT; cbn [p_render_props]; [done3|].
  destruct (p_render_prop n f ts) as [[p r1] e1] eqn:Ep. sub (p_render_prop_pos f) Ep.
  destruct (negb (no_err e1)); [done3|].
  destruct r1 as [|t r2]; [done3|].
  destruct (is_kind KRParen t); [done3|].
  destruct (is_kind KComma t); [|done3].
  destruct (p_render_props n k f r2) as [[tl r3] e3] eqn:Er. subn IH Er. done3.
Qed.

Definition P_tab (f : nat) : Prop := PosOK (p_tabular n f).
Definition P_ops (f : nat) : Prop := PosOK (p_operators n f).
Definition P_op (f : nat) : Prop := forall pipe name ts op rest e known, tstart name <= n -> TB ts ->
  p_operator n f pipe name ts = (op, rest, e, known) -> TB rest /\ EB e.

Lemma after_kind_pos f pipe kw ksp kasp flavor r2 e0 op rest e known : P_tab f -> EB e0 -> TB r2 ->
  after_kind n f pipe kw ksp kasp flavor r2 e0 = (op, rest, e, known) -> TB rest /\ EB e.
Proof.
  intros Htab He0 HT. unfold after_kind.
  destruct r2 as [|lp r3]; [done4|]. destruct (is_kind KLParen lp); [|done4].
  splt KRParen r3.
  destruct (p_tabular n f l) as [[rtab subrest] er] eqn:Et. cbv zeta. sub Htab Et.
  destruct l0 as [|rp r4]; [done4|]. destruct (is_kind KRParen rp); [|done4].
  destruct r4 as [|on r5]; [done4|]. destruct (is_word w_on on); [|done4].
  destruct (p_expr_list n f r5) as [[conds r6] ec] eqn:El. sub (p_expr_list_pos f) El. done4.
Qed.

Lemma step_op_pos f : P_tab f -> P_op (S f).
Proof.
  intros Htab pipe name ts op rest e known Hname HT. rewrite p_operator_S. cbv zeta.
  destruct (str_eqb (tvalue name) w_count); [done4|].
  destruct (_ || _). { destruct (p_expr n f ts) as [[x r] e0] eqn:Ee. sub (p_expr_pos f) Ee. done4. }
  destruct (_ || _).
  { destruct ts as [|b r]; [done4|]. destruct (is_kind KBy b); [|done4].
    destruct (p_sort_terms n _ f r) as [[terms r1] e0] eqn:Es.
    subn (p_sort_terms_pos f) Es. done4. }
  destruct (_ || _). { destruct (p_row_count n f ts) as [[x r] e0] eqn:Ee. sub (p_row_count_pos f) Ee. done4. }
  destruct (str_eqb (tvalue name) w_top).
  { destruct (p_row_count n f ts) as [[x r] e0] eqn:Ee. sub (p_row_count_pos f) Ee.
    destruct (negb (no_err e0)); [done4|]. destruct r as [|b r1]; [done4|]. destruct (is_kind KBy b); [|done4].
    destruct (p_sort_term n f r1) as [[col r2] e2] eqn:Es. sub (p_sort_term_pos f) Es. done4. }
  destruct (str_eqb (tvalue name) w_project).
  { destruct (p_project_cols n _ f ts) as [[cols r] e0] eqn:Ec.
    subn (p_project_cols_pos f) Ec. done4. }
  destruct (str_eqb (tvalue name) w_extend).
  { destruct (p_extend_cols n _ f ts) as [[cols r] e0] eqn:Ec.
    subn (p_extend_cols_pos f) Ec. done4. }
  destruct (str_eqb (tvalue name) w_summarize).
  { destruct (p_summarize_cols n _ f false ts) as [[[[cols r] e0] fin] tc] eqn:Ec.
    subn (p_summarize_cols_pos f) Ec.
    destruct fin; [done4|].
    destruct r as [|b r1]. { destruct (_ || _); done4. }
    destruct (is_kind KBy b).
    { destruct (p_group_cols n _ f r1) as [[gs r2] e2] eqn:Eg.
      subn (p_group_cols_pos f) Eg. done4. }
    destruct (_ || _); done4. }
  destruct (str_eqb (tvalue name) w_join).
  { destruct ts as [|t0 r0]; [done4|].
    destruct (is_word w_kind t0).
    - destruct r0 as [|a r1]; [done4|]. destruct (is_kind KAssign a); [|done4].
      destruct r1 as [|fl r2]; [done4|]. destruct (is_kind KIdentifier fl); [|done4].
      intros H. apply (after_kind_pos f pipe (tok_span name) (tok_span t0) (tok_span a) (Some (mk_ident fl)) r2
                         (if is_join_type (tvalue fl) then [] else err_at (tstart fl)) op rest e known Htab); [| |exact H].
      + eb.
      + tb.
    - intros H. apply (after_kind_pos f pipe (tok_span name) None None None (t0 :: r0) [] op rest e known Htab); [eb|tb|exact H]. }
  destruct (str_eqb (tvalue name) w_as). { destruct (p_ident n ts) as [[i r] e0] eqn:Ei. sub p_ident_pos Ei. done4. }
  destruct (str_eqb (tvalue name) w_render); [|done4].
  destruct (p_ident n ts) as [[[chart|] r] e0] eqn:Ei; sub p_ident_pos Ei; [|done4].
  destruct r as [|wt r1]; [done4|]. destruct (is_word w_with wt); [|done4].
  destruct r1 as [|lp r2]; [done4|]. destruct (is_kind KLParen lp); [|done4].
  destruct (p_render_props n _ f r2) as [[ps r3] e1] eqn:Ep.
  subn (p_render_props_pos f) Ep. done4.
Qed.

Lemma step_ops_pos f : P_op f -> P_ops f -> P_ops (S f).
Proof.
  intros Hop Hops ts l rest e HT. rewrite p_operators_S.
  destruct ts as [|pipe r]; [done3|]. destruct (is_kind KPipe pipe); [|done3].
  splt KPipe r.
  destruct (p_operators n f l1) as [[ops rest'] e2] eqn:Er. sub Hops Er.
  destruct l0 as [|name sr]; [done3|].
  destruct (negb (is_kind KIdentifier name)); [done3|].
  destruct (p_operator n f (tok_span pipe) name sr) as [[[op subrest] eo] known] eqn:Eo.
  assert (Hn1 : tstart name <= n) by tb. assert (Hn2 : TB sr) by tb.
  destruct (Hop _ _ _ _ _ _ _ Hn1 Hn2 Eo) as [? ?].
  destruct known; done3.
Qed.

Lemma step_tab_pos f : P_ops f -> P_tab (S f).
Proof.
  intros Hops ts t rest e HT. rewrite p_tabular_S.
  destruct (p_ident n ts) as [[[name|] r] e0] eqn:Ei; sub p_ident_pos Ei; [|done3].
  destruct (p_operators n f r) as [[ops rest0] e1] eqn:Eo. sub Hops Eo. done3.
Qed.

Theorem P_all f : P_tab f /\ P_ops f /\ P_op f.
Proof.
  induction f as [|f (Ht & Hl & Ho)].
  { unfold P_tab, P_ops, P_op, PosOK. cbn [p_tabular p_operators p_operator].
    repeat apply conj; intros; match goal with H : _ = _ |- _ => injection H as <- <- <- end; (split; [solve [tb]|solve [eb]]). }
  split; [apply step_tab_pos; exact Hl|split; [apply step_ops_pos; assumption|apply step_op_pos; exact Ht]].
Qed.

(** ** statements *)
Lemma p_let_pos f : PosOK (p_let n f).
Proof.
  intros ts s rest e HT. unfold p_let. destruct ts as [|kw r]; [done3|]. destruct (is_word w_let kw); [|done3].
  destruct (p_ident n r) as [[[name|] r1] e0] eqn:Ei; sub p_ident_pos Ei; [|done3].
  destruct r1 as [|a r2]; [done3|]. destruct (is_kind KAssign a); [|done3].
  destruct (p_expr n f r2) as [[x r3] e1] eqn:Ee. sub (p_expr_pos f) Ee. done3.
Qed.

Lemma p_statement_pos f : PosOK (p_statement n f).
Proof.
  intros ts s rest e HT. unfold p_statement. destruct (p_let n f ts) as [[s0 r] e0] eqn:El. sub (p_let_pos f) El.
  destruct (negb (is_nf e0)); [done3|].
  destruct (p_tabular n f ts) as [[t r0] e1] eqn:Et.
  destruct (P_all f) as (Htab & _). sub Htab Et. done3.
Qed.

Lemma p_statements_pos f : forall k ts acc l e, TB ts -> EB acc -> p_statements n k f ts acc = (l, e) -> EB e.
Proof.
  induction k as [|k IH]; intros ts acc l e HT Hacc; cbn [p_statements]; [intros [= <- <-]; eb|].
  destruct (TB_split_semi ts HT) as [Hs Hr]. destruct (split_semi ts) as [sub rest]. cbn [fst snd] in *.
  destruct (p_statement n f sub) as [[s subrest] es] eqn:Es. sub (p_statement_pos f) Es.
  match goal with |- (let '(here, acc') := ?X in _) = _ -> _ => assert (Hacc' : EB (snd X)) end.
  { destruct (is_nf es); [destruct subrest; cbn [snd]; eb|cbn [snd]; eb]. }
  match goal with |- (let '(here, acc') := ?X in _) = _ -> _ => destruct X as [here acc'] end. cbn [snd] in Hacc'.
  destruct rest as [|semi rest']; [intros [= <- <-]; exact Hacc'|].
  destruct (p_statements n k f rest' acc') as [tl acc''] eqn:Er. intros [= <- <-].
  eapply IH; [|exact Hacc'|exact Er]. tb.
Qed.
End Pos.

(** every position of a parse error lies inside the source (offsets 0 .. length, the end included) *)
Theorem parse_tokens_error_positions srclen ts e : Forall (fun t => tstart t <= srclen) ts ->
  parse_tokens srclen ts = ParseErr e -> Forall (fun x => match epos x with Some p => p <= srclen | None => True end) e.
Proof.
  intros HT. unfold parse_tokens. destruct (p_statements srclen _ _ ts []) as [l e0] eqn:Ep.
  pose proof (p_statements_pos srclen _ _ _ _ _ _ HT (EB_nil srclen) Ep) as HE.
  destruct (existsb efuel e0); [discriminate|]. destruct (no_err e0); [destruct l; discriminate|]. intros [= <-]. exact HE.
Qed.

Theorem parse_error_positions s e : parse s = ParseErr e ->
  Forall (fun x => match epos x with Some p => p <= length s | None => True end) e.
Proof.
  apply parse_tokens_error_positions. pose proof (scan_within s) as H.
  assert (G : forall lo hi ts, toks_within lo hi ts -> Forall (fun t => tstart t <= hi) ts).
  { intros lo hi ts Hw. induction Hw as [|lo hi t ts H1 H2 H3 H4 IH]; constructor; [lia|exact IH]. }
  eapply G. exact H.
Qed.
