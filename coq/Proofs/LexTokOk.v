(** * LexTokOk: the values of the scanner's identifier and number tokens are SQL words and SQL
    number spellings, so every parsed program satisfies the lexical side conditions ([stmts_lex])
    of the byte-level theorem (Proofs/SqlGlueProg.v). *)
From PQL Require Import Spec.SqlLex Spec.FlattenStmt Spec.SqlRead Model.Trans Model.Compile Proofs.ReadBackStmt Proofs.LexerFacts Proofs.SplitFacts Proofs.LexCut Proofs.ScanCut Proofs.LexSpec
  Proofs.ParserSound Proofs.ParserSoundStmt Proofs.ParserReject Proofs.ReadBack Proofs.SubqWf Proofs.SqlGlue Proofs.SqlGlueWriter Proofs.SqlGlueProg Proofs.ParsedWf.
From Coq Require Import Lia ZifyBool ZifyNat ZifyN String.
Local Open Scope list_scope.
Local Open Scope nat_scope.
Local Notation length := List.length (only parsing).

Definition tok_ok (t : token) : Prop :=
  (tkind t = KNumber -> is_num_text (tvalue t) = true) /\ (tkind t = KIdentifier -> is_word_text (tvalue t) = true).
Definition all_tok_ok (ts : list token) : Prop := Forall tok_ok ts.

(** ** from tokens to trees *)
Lemma qual_tokok ps ts : toks_qual ps ts -> all_tok_ok ts -> True.
Proof. trivial. Qed.

Ltac inv_tokok :=
  repeat match goal with
  | H : all_tok_ok (_ ++ _) |- _ => apply Forall_app in H as [? ?]
  | H : all_tok_ok (_ :: _) |- _ => let H1 := fresh "Hk" in let H2 := fresh "Hr" in pose proof (Forall_inv H) as H1; pose proof (Forall_inv_tail H) as H2; clear H
  | H : Forall tok_ok (_ ++ _) |- _ => apply Forall_app in H as [? ?]
  | H : Forall tok_ok (_ :: _) |- _ => let H1 := fresh "Hk" in let H2 := fresh "Hr" in pose proof (Forall_inv H) as H1; pose proof (Forall_inv_tail H) as H2; clear H
  end.

Lemma expr_tokok : (forall e ts, toks_expr e ts -> all_tok_ok ts -> lexok e) /\
  (forall l ts, toks_list l ts -> all_tok_ok ts -> Forall lexok l) /\
  (forall l ts, toks_args l ts -> all_tok_ok ts -> Forall lexok l).
Proof.
  apply toks_expr_mutind; intros; unfold all_tok_ok in *; inv_tokok; cbn [lexok]; auto.
  - (* literal *) intros ->. match goal with Hk : tok_ok ?t, Hkind : tkind ?t = KNumber, Hv : tvalue ?t = _ |- _ => destruct Hk as [Hn _]; rewrite <- Hv; apply Hn; exact Hkind end.
  - (* in *) split; [auto|]. apply lexok_all. auto.
  - (* call *) split; [|apply lexok_all; auto].
    intros _. match goal with Hi : ident_tok ?f ?t, Hq : iquoted ?f = false, Hk : tok_ok ?t |- _ =>
      destruct Hi as (Hkd & Hv & _); rewrite Hq in Hkd; destruct Hk as [_ Hw]; rewrite <- Hv; apply Hw; exact Hkd end.
Qed.

Lemma sep_tokok {A} (P : A -> list token -> Prop) (Q : A -> Prop) : (forall a ts, P a ts -> all_tok_ok ts -> Q a) ->
  forall l ts, toks_sep P l ts -> all_tok_ok ts -> Forall Q l.
Proof.
  intros HP l ts H. induction H as [a ta Ha|a ta c r tr Ha _ _ IH]; intros Hok; unfold all_tok_ok in *; inv_tokok.
  - constructor; [eapply HP; eassumption|constructor].
  - constructor; [eapply HP; eassumption|apply IH; assumption].
Qed.

Lemma sort_term_tokok t ts : toks_sort_term t ts -> all_tok_ok ts -> lexok (st_x t).
Proof. intros H Hok. destruct H. unfold all_tok_ok in *. inv_tokok. cbn [st_x]. eapply (proj1 expr_tokok); eassumption. Qed.
Lemma ext_col_tokok c ts : toks_ext_col c ts -> all_tok_ok ts -> lexok (ec_x c).
Proof. intros H Hok. destruct H; unfold all_tok_ok in *; inv_tokok; cbn [ec_x]; eapply (proj1 expr_tokok); eassumption. Qed.
Lemma proj_col_tokok c ts : toks_proj_col c ts -> all_tok_ok ts -> match pc_x c with Some x => lexok x | None => True end.
Proof. intros H Hok. destruct H; unfold all_tok_ok in *; inv_tokok; cbn [pc_x]; [exact I|]. eapply (proj1 expr_tokok); eassumption. Qed.

Lemma op_tokok : (forall o ts, toks_op o ts -> all_tok_ok ts -> oper_lex o) /\ (forall l ts, toks_ops l ts -> all_tok_ok ts -> Forall oper_lex l).
Proof.
  apply toks_op_mutind; intros; unfold all_tok_ok in *; inv_tokok; cbn [oper_lex]; auto.
  - eapply (proj1 expr_tokok); eassumption.
  - eapply (sep_tokok _ (fun t => lexok (st_x t)) sort_term_tokok); eassumption.
  - eapply (proj1 expr_tokok); eassumption.
  - split; [eapply (proj1 expr_tokok); eassumption|eapply sort_term_tokok; eassumption].
  - eapply (sep_tokok _ _ proj_col_tokok); eassumption.
  - eapply (sep_tokok _ (fun c => lexok (ec_x c)) ext_col_tokok); eassumption.
  - (* summarize *)
    match goal with H : toks_summ _ _ _ _ |- _ => destruct H end; unfold all_tok_ok in *; inv_tokok;
      repeat match goal with |- _ /\ _ => split end;
      try (eapply (sep_tokok _ (fun c => lexok (ec_x c)) ext_col_tokok); eassumption); constructor.
  - (* join *) split; [eapply (proj1 (proj2 expr_tokok)); eassumption|]. apply oper_lex_all. auto.
Qed.

Lemma stmt_tokok s ts : toks_stmt s ts -> all_tok_ok ts -> match s with SLet _ _ _ x => lexok x | STab t => Forall oper_lex (tops t) end.
Proof.
  intros H Hok. destruct H as [ksp i asp x tk ti ta tx Hk Hi Ha Hx|t ts (tsrc0 & tro & -> & Hs & Ho)]; unfold all_tok_ok in *; inv_tokok.
  - eapply (proj1 expr_tokok); eassumption.
  - eapply (proj2 op_tokok); eassumption.
Qed.

Lemma prog_tokok ss ts : toks_prog ss ts -> all_tok_ok ts -> stmts_lex ss.
Proof.
  induction 1; intros Hok; unfold all_tok_ok, stmts_lex in *; inv_tokok.
  - constructor.
  - auto.
  - constructor; [eapply stmt_tokok; eassumption|constructor].
  - constructor; [eapply stmt_tokok; eassumption|auto].
Qed.

(** ** the scanner's identifier and number tokens *)
Lemma lex1_ident_or_number l k v n : l <> [] -> lex1 l = Tok k v n ->
  (k = KIdentifier -> exists b r, l = b :: r /\ is_ident_start b = true /\ lex_ident l = Tok k v n) /\
  (k = KNumber -> exists b r, l = b :: r /\ (is_digit b || (b =? 46)%N) = true /\ lex_number l = Tok k v n).
Proof.
  intros Hne. destruct l as [|b r]; [congruence|]. unfold lex1.
  destruct (decode (b :: r)) as [c w] eqn:Ed.
  destruct (is_space c) eqn:Es; [discriminate|].
  destruct (is_ident_start c) eqn:Eis.
  { destruct (decode_small b r c w Ed (ident_start_ascii c Eis)) as [-> ->]. intros H. split.
    - intros _. exists c, r. repeat split; assumption.
    - intros ->. unfold lex_ident in H. destruct (keyword_kind _) eqn:Ek; injection H as Hk _ _; [|discriminate].
      exfalso. revert Ek Hk. unfold keyword_kind. clear. intros Ek ->.
      assert (Hno : forallb (fun kv => negb (kind_eqb (snd kv) KNumber)) keywords = true) by (vm_compute; reflexivity).
      revert Ek. generalize (c :: take_while is_ident_char r). intros s. unfold keyword_kind. induction keywords as [|[kw kk] tl IH]; cbn [assoc_str forallb snd] in *; [discriminate|].
      apply andb_prop in Hno as [H1 H2]. destruct (str_eqb kw s); [intros [= ->]; vm_compute in H1; discriminate|apply IH; exact H2]. }
  destruct (is_digit c || (c =? 46)%N) eqn:En.
  { assert (Hc : (c < 128)%N) by (unfold is_digit, in_range in En; lia).
    destruct (decode_small b r c w Ed Hc) as [-> ->]. intros H. split.
    - intros ->. exfalso. unfold lex_number in H.
      repeat match type of H with
      | (if ?x then _ else _) = _ => destruct x
      | match ?x with _ => _ end = _ => destruct x
      | (let _ := _ in _) = _ => cbv zeta in H
      end; try discriminate H.
    - intros _. exists c, r. repeat split; assumption. }
  intros H. split; intros ->; exfalso; revert H;
    repeat match goal with
    | |- (if ?x then _ else _) = _ -> _ => destruct x
    | |- match ?x with _ => _ end = _ -> _ => destruct x
    end; try discriminate; unfold lex_string, lex_quoted;
    repeat match goal with
    | |- match ?x with _ => _ end = _ -> _ => destruct x
    end; discriminate.
Qed.

Lemma ident_char_word c : is_ident_char c = true -> is_word_char c = true.
Proof. unfold is_ident_char, is_word_char. intros H. apply Bool.orb_true_iff. left. exact H. Qed.

Lemma keyword_not_ident s k : keyword_kind s = Some k -> k <> KIdentifier.
Proof.
  assert (Hno : forallb (fun kv => negb (kind_eqb (snd kv) KIdentifier)) keywords = true) by (vm_compute; reflexivity).
  unfold keyword_kind. induction keywords as [|[kw kk] tl IH]; cbn [assoc_str forallb snd] in *; [discriminate|].
  apply andb_prop in Hno as [H1 H2]. destruct (str_eqb kw s); [intros [= ->] ->; vm_compute in H1; discriminate|apply IH; exact H2].
Qed.

Lemma ident_value_word b r v n : is_ident_start b = true -> lex_ident (b :: r) = Tok KIdentifier v n -> is_word_text v = true.
Proof.
  intros Hb. unfold lex_ident. destruct (keyword_kind _) eqn:Ekw.
  - intros [= Hk _ _]. exfalso. eapply keyword_not_ident; eassumption.
  - intros [= <- _]. unfold is_word_text. change (is_word_start b) with (is_ident_start b). rewrite Hb. cbn [andb].
    clear. induction r as [|x r IH]; cbn [take_while forallb]; [reflexivity|]. destruct (is_ident_char x) eqn:E; cbn [forallb]; [|reflexivity].
    rewrite (ident_char_word x E). exact IH.
Qed.

(** ** numbers: the dialect's [number_len] and the scanner's [digits_len] read the same spellings *)
Lemma exp_len_eq l : exp_len l = exponent_len l.
Proof.
  unfold exp_len, exponent_len. destruct l as [|e r]; [reflexivity|]. destruct ((e =? 101)%N || (e =? 69)%N); [|reflexivity].
  destruct r as [|s r']; [reflexivity|]. destruct ((s =? 43)%N || (s =? 45)%N).
  - destruct r' as [|d r'']; [reflexivity|]. cbn [take_while]. destruct (is_digit d); reflexivity.
  - cbn [take_while]. destruct (is_digit s); reflexivity.
Qed.

Lemma digits_true_run l : digits_len true l = length (take_while is_digit l) + exponent_len (skipn (length (take_while is_digit l)) l).
Proof.
  induction l as [|c r IH]; [reflexivity|]. cbn [digits_len take_while]. cbn [negb andb]. rewrite Bool.andb_false_r.
  destruct (is_digit c) eqn:E; cbn [length skipn]; [rewrite IH; reflexivity|reflexivity].
Qed.

Lemma digits_false_stages l : (match l with c :: _ => is_digit c = true | [] => False end) ->
  digits_len false l = number_len l.
Proof.
  intros Hd. rewrite number_len_stages. cbv zeta.
  assert (Hgen : forall l, digits_len false l =
            length (take_while is_digit l) +
            match skipn (length (take_while is_digit l)) l with
            | c :: r => if (c =? 46)%N then S (digits_len true r) else exponent_len (c :: r)
            | [] => 0
            end).
  { clear. induction l as [|c r IH]; [reflexivity|]. cbn [digits_len take_while]. cbn [negb]. rewrite Bool.andb_true_r.
    destruct (c =? 46)%N eqn:E46.
    - assert (Hnd : is_digit c = false) by (unfold is_digit, in_range; lia). rewrite Hnd. cbn [length skipn]. rewrite E46. reflexivity.
    - destruct (is_digit c) eqn:Ed; cbn [length skipn]; [rewrite IH; reflexivity|rewrite E46; reflexivity]. }
  rewrite Hgen.
  set (T := take_while is_digit l). set (R1 := skipn (length T) l).
  assert (HT : 1 <= length T) by (unfold T; destruct l as [|c r]; [contradiction|cbn [take_while]; rewrite Hd; cbn [length]; lia]).
  assert (E0 : Nat.eqb (length T) 0 = false) by (apply Nat.eqb_neq; lia). rewrite E0. cbn [andb].
  unfold frac_len. destruct R1 as [|c r]; [cbn [skipn]; unfold exp_len; lia|].
  destruct (c =? 46)%N eqn:E46.
  - rewrite E0. cbn [andb]. cbn [skipn]. rewrite digits_true_run, exp_len_eq. lia.
  - cbn [skipn]. rewrite exp_len_eq. lia.
Qed.

Lemma digits_len_digits d ds : forallb is_digit ds = true -> digits_len d ds = length ds.
Proof.
  revert d. induction ds as [|c r IH]; intros d H; [reflexivity|]. cbn [forallb] in H. apply andb_prop in H as [Hc Hr].
  cbn [digits_len]. assert (E : (c =? 46)%N = false) by (unfold is_digit, in_range in Hc; lia). rewrite E, Hc. cbn [andb length]. rewrite IH by exact Hr. reflexivity.
Qed.

Lemma dec_digits_digits f : forall n acc, forallb is_digit acc = true -> forallb is_digit (dec_digits f n acc) = true.
Proof.
  induction f as [|f IH]; intros n acc Hacc; cbn [dec_digits]; [exact Hacc|].
  assert (Hd : is_digit (48 + n mod 10) = true).
  { unfold is_digit, in_range. pose proof (N.mod_upper_bound n 10 ltac:(lia)). lia. }
  destruct (n / 10 =? 0)%N; [cbn [forallb]; rewrite Hd; exact Hacc|]. apply IH. cbn [forallb]. rewrite Hd. exact Hacc.
Qed.

Lemma dec_digits_nonempty f : forall n acc, 0 < f -> dec_digits f n acc <> [].
Proof.
  induction f as [|f IH]; intros n acc Hf; [lia|]. cbn [dec_digits]. destruct (n / 10 =? 0)%N; [discriminate|].
  destruct f as [|f']; [cbn [dec_digits]; discriminate|]. apply IH. lia.
Qed.

Lemma last_digit_of (ds : str) : forallb is_digit ds = true -> ds <> [] -> exists x, last_char ds = Some x /\ is_digit x = true.
Proof.
  intros Hd Hne. destruct (last_char ds) as [x|] eqn:E.
  - exists x. split; [reflexivity|]. apply (last_char_in is_digit ds x Hd E).
  - unfold last_char in E. destruct (rev ds) eqn:Er; [|discriminate]. apply (f_equal (@rev N)) in Er. rewrite rev_involutive in Er. contradiction.
Qed.

Lemma digits_num_text ds : forallb is_digit ds = true -> ds <> [] -> is_num_text ds = true.
Proof.
  intros Hd Hne. unfold is_num_text. destruct ds as [|c r]; [congruence|].
  pose proof Hd as Hd'. cbn [forallb] in Hd'. apply andb_prop in Hd' as [Hc _].
  rewrite <- digits_false_stages by exact Hc. rewrite digits_len_digits by exact Hd. rewrite Nat.eqb_refl, Hc. cbn [andb].
  destruct (last_digit_of (c :: r) Hd Hne) as (x & -> & Hx). rewrite Hx. reflexivity.
Qed.

(** a text the scanner's digit loop consumes entirely ends with a digit or a point *)
Lemma take_all_last (l : str) : length (take_while is_digit l) = length l -> l <> [] -> exists x, last_char l = Some x /\ is_digit x = true.
Proof.
  intros Hl Hne. apply last_digit_of; [|exact Hne].
  rewrite (take_while_split is_digit l). rewrite Hl, skipn_all, app_nil_r. apply take_while_forall.
Qed.

Lemma exponent_all_last l : exponent_len l = length l -> l <> [] -> exists x, last_char l = Some x /\ is_digit x = true.
Proof.
  unfold exponent_len. destruct l as [|e r]; [congruence|]. intros H _. destruct ((e =? 101)%N || (e =? 69)%N); [|cbn [length] in H; lia].
  destruct r as [|s r']; [cbn [length] in H; lia|]. destruct ((s =? 43)%N || (s =? 45)%N).
  - destruct r' as [|d r'']; [cbn [length] in H; lia|]. destruct (is_digit d) eqn:Ed; [|cbn [length] in H; lia].
    cbn [length] in H. destruct (take_all_last (d :: r'') ltac:(cbn [length]; lia) ltac:(discriminate)) as (x & Hx & Hdx).
    exists x. split; [|exact Hdx]. rewrite !last_char_cons by discriminate. exact Hx.
  - destruct (is_digit s) eqn:Ed; [|cbn [length] in H; lia]. cbn [length] in H.
    destruct (take_all_last (s :: r') ltac:(cbn [length]; lia) ltac:(discriminate)) as (x & Hx & Hdx).
    exists x. split; [|exact Hdx]. rewrite last_char_cons by discriminate. exact Hx.
Qed.

Lemma digits_all_last : forall t d, digits_len d t = length t -> t <> [] ->
  exists x, last_char t = Some x /\ (is_digit x || (x =? 46)%N) = true.
Proof.
  induction t as [|c r IH]; intros d H Hne; [congruence|]. cbn [digits_len length] in H.
  destruct ((c =? 46)%N && negb d) eqn:E1.
  - destruct r as [|c2 r2]; [exists c; split; [reflexivity|]; apply andb_prop in E1 as [E _]; rewrite E; apply Bool.orb_true_r|].
    destruct (IH true ltac:(lia) ltac:(discriminate)) as (x & Hx & Hdx). exists x. split; [rewrite last_char_cons by discriminate; exact Hx|exact Hdx].
  - destruct (is_digit c) eqn:E2.
    + destruct r as [|c2 r2]; [exists c; split; [reflexivity|rewrite E2; reflexivity]|].
      destruct (IH d ltac:(lia) ltac:(discriminate)) as (x & Hx & Hdx). exists x. split; [rewrite last_char_cons by discriminate; exact Hx|exact Hdx].
    + destruct (exponent_all_last (c :: r) H ltac:(discriminate)) as (x & Hx & Hdx). exists x. split; [exact Hx|rewrite Hdx; reflexivity].
Qed.

Lemma digits_zeros k rest : digits_len false (repeat 48%N k ++ rest) = k + digits_len false rest.
Proof. induction k as [|k IH]; cbn [repeat app]; [reflexivity|]. cbn [digits_len]. replace ((48 =? 46)%N && negb false) with false by reflexivity. replace (is_digit 48) with true by reflexivity. rewrite IH. reflexivity. Qed.

Lemma digits_head c r : 1 <= digits_len false (c :: r) -> (c =? 46)%N = true \/ is_digit c = true \/ ((c =? 101)%N || (c =? 69)%N) = true.
Proof.
  cbn [digits_len]. cbn [negb]. rewrite Bool.andb_true_r. destruct (c =? 46)%N; [left; reflexivity|]. destruct (is_digit c); [right; left; reflexivity|].
  unfold exponent_len. destruct ((c =? 101)%N || (c =? 69)%N); [right; right; reflexivity|lia].
Qed.

(** the normalised value of a text the digit loop consumes entirely is a number spelling of the dialect *)
Lemma normalized_num_text t : digits_len false t = length t -> t <> [] -> is_num_text (normalize_number t) = true.
Proof.
  intros Hall Hne. destruct (normalize_spec t) as (k & rest & E & Hh & ->).
  assert (Hrest : digits_len false rest = length rest).
  { rewrite E, digits_zeros, app_length, repeat_length in Hall. lia. }
  destruct rest as [|c r].
  - reflexivity.
  - assert (Hlast : exists x, last_char (c :: r) = Some x /\ (is_digit x || (x =? 46)%N) = true) by (apply (digits_all_last (c :: r) false Hrest); discriminate).
    destruct Hlast as (x & Hx & Hdx).
    destruct ((c =? 46)%N || (c =? 101)%N || (c =? 69)%N) eqn:Ec.
    + unfold is_num_text. rewrite <- digits_false_stages by reflexivity.
      change (48%N :: c :: r) with (repeat 48%N 1 ++ c :: r). rewrite digits_zeros, Hrest. cbn [repeat app length].
      rewrite Nat.eqb_refl. replace (is_digit 48) with true by reflexivity. cbn [andb].
      rewrite last_char_cons by discriminate. rewrite Hx, Hdx. reflexivity.
    + assert (Hd : is_digit c = true).
      { destruct (digits_head c r ltac:(rewrite Hrest; cbn [length]; lia)) as [H|[H|H]]; [rewrite H in Ec; discriminate|exact H|].
        apply Bool.orb_true_iff in H as [H|H]; rewrite H in Ec; rewrite ?Bool.orb_true_r in Ec; discriminate. }
      unfold is_num_text. rewrite <- digits_false_stages by exact Hd. rewrite Hrest, Nat.eqb_refl, Hd. cbn [andb]. rewrite Hx, Hdx. reflexivity.
Qed.

Lemma consumed_text l : l <> [] -> 1 <= digits_len false l ->
  let t := firstn (digits_len false l) l in t <> [] /\ digits_len false t = length t.
Proof.
  intros Hne H1 t. subst t. split.
  - destruct l as [|c r]; [congruence|]. destruct (digits_len false (c :: r)); [lia|]. discriminate.
  - rewrite digits_len_firstn by lia. rewrite firstn_length. pose proof (digits_len_le l false). lia.
Qed.

Lemma lex_number_value b r v n : (is_digit b || (b =? 46)%N) = true -> lex_number (b :: r) = Tok KNumber v n -> is_num_text v = true.
Proof.
  intros Hb H.
  assert (Hgen : forall m, m = digits_len false (b :: r) -> 1 <= m -> is_num_text (normalize_number (firstn m (b :: r))) = true).
  { intros m -> Hm. destruct (consumed_text (b :: r) ltac:(discriminate) Hm) as [Hne Hall]. apply normalized_num_text; assumption. }
  unfold lex_number in H. destruct (b =? 48)%N eqn:E0.
  - apply N.eqb_eq in E0. subst b. destruct r as [|c1 r1]; [injection H as <- _; reflexivity|].
    destruct (c1 =? 46)%N eqn:E1.
    { cbv zeta in H. injection H as <- _. apply (Hgen (2 + digits_len true r1)); [|lia]. apply N.eqb_eq in E1. subst c1. reflexivity. }
    destruct ((c1 =? 101)%N || (c1 =? 69)%N) eqn:E2.
    { cbv zeta in H. injection H as <- _. apply (Hgen (1 + exponent_len (c1 :: r1))); [|lia].
      cbn [digits_len]. replace ((48 =? 46)%N && negb false) with false by reflexivity. replace (is_digit 48) with true by reflexivity.
      rewrite E1. cbn [andb]. assert (Hd : is_digit c1 = false) by (unfold is_digit, in_range; lia). rewrite Hd. reflexivity. }
    destruct ((c1 =? 120)%N || (c1 =? 88)%N) eqn:E3.
    { cbv zeta in H. destruct (take_while is_hex_digit r1) eqn:Et; [discriminate|].
      destruct (hex_value _ <? two64)%N; [|discriminate]. injection H as <- _.
      unfold N_to_dec. apply digits_num_text; [apply dec_digits_digits; reflexivity|apply dec_digits_nonempty; lia]. }
    destruct (is_digit c1) eqn:E4.
    { cbv zeta in H. injection H as <- _. apply (Hgen (2 + digits_len false r1)); [|lia].
      cbn [digits_len]. replace ((48 =? 46)%N && negb false) with false by reflexivity. replace (is_digit 48) with true by reflexivity.
      rewrite E1, E4. reflexivity. }
    cbv zeta in H. injection H as <- _. apply (Hgen (1 + digits_len false (c1 :: r1))); [|lia]. reflexivity.
  - destruct (b =? 46)%N eqn:E1.
    + apply N.eqb_eq in E1. subst b. destruct r as [|d r1]; [discriminate|]. destruct (is_digit d) eqn:Ed; [|discriminate].
      cbv zeta in H. injection H as <- _. apply (Hgen (2 + digits_len true r1)); [|lia].
      cbn [digits_len]. cbn [N.eqb Pos.eqb negb andb]. assert (E : (d =? 46)%N = false) by (unfold is_digit, in_range in Ed; lia). rewrite E, Ed. reflexivity.
    + cbv zeta in H. injection H as <- _. rewrite Bool.orb_false_r in Hb. apply (Hgen (1 + digits_len false r)); [|lia].
      cbn [digits_len]. rewrite E1, Hb. reflexivity.
Qed.

(** ** every token of the scan is well spelled *)
Lemma covers_tok_ok off l ts : covers off l ts -> all_tok_ok ts.
Proof.
  induction 1 as [off|off l k v n ts Hne Hlex _ IH|off l n ts _ _ _ _ IH]; [constructor| |exact IH].
  constructor; [|exact IH]. destruct (lex1_ident_or_number l k v n Hne Hlex) as [Hid Hnum]. split; cbn [tkind tvalue]; intros ->.
  - destruct (Hnum eq_refl) as (b & r & -> & Hb & Hl). eapply lex_number_value; eassumption.
  - destruct (Hid eq_refl) as (b & r & -> & Hb & Hl). eapply ident_value_word; eassumption.
Qed.

Theorem scan_tok_ok s : all_tok_ok (scan s).
Proof. eapply covers_tok_ok. apply scan_covers. Qed.

Theorem parsed_stmts_lex s ss : parse s = ParseOk ss -> stmts_lex ss.
Proof. intros Hp. eapply prog_tokok; [apply parse_sound; exact Hp|apply scan_tok_ok]. Qed.

(** ** end to end: the bytes [Compile] returns lex, under the dialect's lexer, into the
    token list the pieces denote.  Premises: the call has no parameters (a parameter value
    is spliced as raw text) and no name of the program is an SQL keyword in a position where
    it is written unquoted (finding F1). *)
Theorem compile_lexes s ss ps : parse s = ParseOk ss -> Forall names_ok_stmt ss ->
  compile [] s = COk ps -> exists ts, ptoks ps = Some ts /\ sql_lex ClickHouse (render ps) = Some ts.
Proof.
  intros Hp Hn H. unfold compile in H. rewrite Hp in H.
  destruct (compile_stmts s [] ss) as [ps'|] eqn:Hc; [|discriminate]. injection H as ->.
  eapply compile_bytes_lex; [|eapply parsed_stmts_lex; exact Hp|exact Hc].
  eapply parsed_stmts_wf; [apply parse_sound; exact Hp|exact Hn].
Qed.

(** the two ends joined: the bytes returned lex into tokens that read back as the statement whose
    denotation is that of the PQL program *)
Theorem compile_bytes_reread s ss ps : parse s = ParseOk ss -> Forall names_ok_stmt ss -> compile [] s = COk ps ->
  exists sc t subs q rctes,
    stmt_loop [] None ss = Ok (sc, Some t) /\ split_queries sc [] t = Ok subs /\ rev subs = q :: rctes /\
    let '(names, vals) := let_vals [] (fun _ => XWord []) false ss in
    exists ts, sql_lex ClickHouse (render ps) = Some ts /\
      Conv (fun fx => read_stmt fx ts)
           (map (fun sq => (sq_name sq, den_select s sc vals sq)) (rev rctes), den_select s sc vals q).
Proof.
  intros Hp Hn Hc. destruct (compile_lexes s ss ps Hp Hn Hc) as (ts & Hts & Hlex).
  destruct (compile_rereads s ss ps Hp Hn Hc) as (sc & t & subs & q & rctes & H1 & H2 & H3 & H4).
  exists sc, t, subs, q, rctes. repeat split; try assumption.
  destruct (let_vals [] (fun _ => XWord []) false ss) as [names vals]. destruct H4 as (ts' & Hts' & Hconv).
  exists ts. split; [exact Hlex|]. rewrite Hts in Hts'. injection Hts' as <-. exact Hconv.
Qed.
