(** * Cutting the input at a semicolon token or after a newline does not change the tokens on
    either side: the scanner's look-ahead never reaches across such a boundary. *)
From PQL Require Import Model.Lexer Proofs.LexerFacts Proofs.SplitFacts.
From Coq Require Import Lia ZifyBool ZifyNat ZifyN.
Local Open Scope list_scope.
Local Open Scope nat_scope.

(** a byte at which every unquoted lexeme ends and which is not a continuation byte: the
    semicolon and the ASCII white space (newline, space, tab, carriage return) *)
Definition neutral (x : N) : Prop := x = 59%N \/ x = 10%N \/ x = 32%N \/ x = 9%N \/ x = 13%N.

Ltac neutral_cases Hx := destruct Hx as [-> | [-> | [-> | [-> | ->]]]].

Lemma take_while_cut p x r b : p x = false -> take_while p (r ++ x :: b) = take_while p r.
Proof. intros Hp. induction r as [|c r IH]; cbn [app take_while]; [rewrite Hp; reflexivity|]. destruct (p c); [f_equal; exact IH|reflexivity]. Qed.

Lemma neutral_not_digit x : neutral x -> is_digit x = false.
Proof. intros H; neutral_cases H; reflexivity. Qed.
Lemma neutral_not_hex x : neutral x -> is_hex_digit x = false.
Proof. intros H; neutral_cases H; reflexivity. Qed.
Lemma neutral_not_ident x : neutral x -> is_ident_char x = false.
Proof. intros H; neutral_cases H; reflexivity. Qed.

Lemma exponent_len_cut x r b : neutral x -> exponent_len (r ++ x :: b) = exponent_len r.
Proof.
  intros Hx. unfold exponent_len.
  destruct r as [|e r]; cbn [app].
  - neutral_cases Hx; reflexivity.
  - destruct ((e =? 101)%N || (e =? 69)%N); [|reflexivity].
    destruct r as [|sg r]; cbn [app].
    + neutral_cases Hx; reflexivity.
    + destruct ((sg =? 43)%N || (sg =? 45)%N).
      * destruct r as [|d r]; cbn [app].
        -- neutral_cases Hx; reflexivity.
        -- destruct (is_digit d); [|reflexivity].
           rewrite (app_comm_cons r (x :: b) d). rewrite take_while_cut by (apply neutral_not_digit; exact Hx). reflexivity.
      * destruct (is_digit sg); [|reflexivity].
        rewrite (app_comm_cons r (x :: b) sg). rewrite take_while_cut by (apply neutral_not_digit; exact Hx). reflexivity.
Qed.

Lemma digits_len_cut x b : neutral x -> forall r d, digits_len d (r ++ x :: b) = digits_len d r.
Proof.
  intros Hx. induction r as [|c r IH]; intros d; cbn [app].
  - cbn [digits_len]. neutral_cases Hx; destruct d; reflexivity.
  - cbn [digits_len]. destruct ((c =? 46)%N && negb d); [f_equal; apply IH|].
    destruct (is_digit c); [f_equal; apply IH|].
    apply (exponent_len_cut x (c :: r) b Hx).
Qed.

Lemma firstn_app_le {A} n (a b : list A) : n <= length a -> firstn n (a ++ b) = firstn n a.
Proof. intros H. rewrite firstn_app. replace (n - length a) with 0 by lia. cbn. apply app_nil_r. Qed.

Lemma skipn_app_le {A} n (a b : list A) : n <= length a -> skipn n (a ++ b) = skipn n a ++ b.
Proof. intros H. rewrite skipn_app. replace (n - length a) with 0 by lia. reflexivity. Qed.

(** ** numbers and identifiers end at a neutral byte *)
Lemma lex_ident_cut x a b : neutral x -> a <> [] -> lex_ident (a ++ x :: b) = lex_ident a.
Proof.
  intros Hx Ha. destruct a as [|c r]; [congruence|]. cbn [app lex_ident].
  rewrite take_while_cut by (apply neutral_not_ident; exact Hx). reflexivity.
Qed.

Lemma lex_number_cut x a b : neutral x -> a <> [] -> lex_number (a ++ x :: b) = lex_number a.
Proof.
  intros Hx Ha. destruct a as [|c r]; [congruence|].
  pose proof (lex_number_len (c :: r) Ha) as Hlen.
  revert Hlen. cbn [app]. unfold lex_number.
  destruct (c =? 48)%N eqn:Ec.
  - destruct r as [|c1 r1]; cbn [app].
    + intros _. apply N.eqb_eq in Ec. subst c. neutral_cases Hx; reflexivity.
    + destruct (c1 =? 46)%N.
      { rewrite digits_len_cut by exact Hx. cbn [item_len]. intros Hl.
        rewrite (app_comm_cons _ _ c1), (app_comm_cons _ _ c). rewrite firstn_app_le by (cbn [length] in *; lia). reflexivity. }
      destruct ((c1 =? 101)%N || (c1 =? 69)%N).
      { rewrite (app_comm_cons r1 (x :: b) c1). rewrite exponent_len_cut by exact Hx. cbn [item_len]. intros Hl.
        rewrite (app_comm_cons _ _ c). rewrite firstn_app_le by (cbn [length] in *; lia). reflexivity. }
      destruct ((c1 =? 120)%N || (c1 =? 88)%N).
      { intros _. rewrite take_while_cut by (apply neutral_not_hex; exact Hx). reflexivity. }
      destruct (is_digit c1).
      { rewrite digits_len_cut by exact Hx. cbn [item_len]. intros Hl.
        rewrite (app_comm_cons _ _ c1), (app_comm_cons _ _ c). rewrite firstn_app_le by (cbn [length] in *; lia). reflexivity. }
      rewrite (app_comm_cons r1 (x :: b) c1). rewrite digits_len_cut by exact Hx. cbn [item_len]. intros Hl.
      rewrite (app_comm_cons _ _ c). rewrite firstn_app_le by (cbn [length] in *; lia). reflexivity.
  - destruct (c =? 46)%N eqn:Ed.
    + destruct r as [|d r1]; cbn [app].
      * intros _. apply N.eqb_eq in Ed. subst c. neutral_cases Hx; reflexivity.
      * destruct (is_digit d); [|intros _; reflexivity].
        rewrite digits_len_cut by exact Hx. cbn [item_len]. intros Hl.
        rewrite (app_comm_cons _ _ d), (app_comm_cons _ _ c). rewrite firstn_app_le by (cbn [length] in *; lia). reflexivity.
    + rewrite digits_len_cut by exact Hx. cbn [item_len]. intros Hl.
      rewrite (app_comm_cons _ _ c). rewrite firstn_app_le by (cbn [length] in *; lia). reflexivity.
Qed.

(** ** decoding the first rune does not look past a neutral byte *)
Lemma neutral_not_cont x : neutral x -> is_cont x = false.
Proof. intros H; neutral_cases H; reflexivity. Qed.

Lemma decode_cut x a b : neutral x -> a <> [] -> decode (a ++ x :: b) = decode a.
Proof.
  intros Hx Ha. pose proof (neutral_not_cont x Hx) as Hc.
  destruct a as [|b0 r]; [congruence|]. cbn [app]. unfold decode.
  destruct (b0 <? 128)%N; [reflexivity|].
  destruct (in_range 194 223 b0).
  { destruct r as [|b1 r]; cbn [app]; [rewrite Hc; reflexivity|reflexivity]. }
  destruct (in_range 224 239 b0).
  { destruct r as [|b1 [|b2 r]]; cbn [app]; try reflexivity.
    - (* b1 = x *) assert (in_range (if (b0 =? 224)%N then 160 else 128) (if (b0 =? 237)%N then 159 else 191) x = false) as ->.
      { neutral_cases Hx; destruct (b0 =? 224)%N, (b0 =? 237)%N; reflexivity. }
      destruct b; reflexivity.
    - rewrite Hc, Bool.andb_false_r. reflexivity. }
  destruct (in_range 240 244 b0).
  { destruct r as [|b1 [|b2 [|b3 r]]]; cbn [app]; try reflexivity.
    - assert (in_range (if (b0 =? 240)%N then 144 else 128) (if (b0 =? 244)%N then 143 else 191) x = false) as ->.
      { neutral_cases Hx; destruct (b0 =? 240)%N, (b0 =? 244)%N; reflexivity. }
      destruct b as [|? [|? ?]]; reflexivity.
    - rewrite Hc, Bool.andb_false_r. destruct b; reflexivity.
    - rewrite Hc, Bool.andb_false_r. reflexivity. }
  reflexivity.
Qed.

(** ** fuel of the string and quoted-identifier scanners is irrelevant once above the length *)
Lemma string_body_fuel q : forall f1 f2 esc l, length l < f1 -> length l < f2 ->
  string_body f1 q esc l = string_body f2 q esc l.
Proof.
  induction f1 as [|f1 IH]; intros f2 esc l H1 H2; [lia|]. destruct f2 as [|f2]; [lia|].
  destruct l as [|c0 r0]; [reflexivity|]. cbn [string_body]. set (l := c0 :: r0) in *.
  assert (Hne : l <> []) by (subst l; congruence).
  pose proof (decode_width l Hne) as Hw. destruct (decode l) as [c w]. cbn [snd] in Hw.
  destruct (c =? q)%N; [reflexivity|]. destruct (c =? 10)%N; [reflexivity|].
  destruct (c =? 92)%N.
  - destruct (skipn w l) as [|c1 r1] eqn:Es; [reflexivity|]. set (l1 := c1 :: r1) in *.
    assert (Hl1 : length l1 = length l - w) by (subst l1; rewrite <- Es, skipn_length; reflexivity).
    assert (Hne1 : l1 <> []) by (subst l1; congruence).
    pose proof (decode_width l1 Hne1) as Hw1. destruct (decode l1) as [c2 w2]. cbn [snd] in Hw1.
    destruct (c2 =? 10)%N; [reflexivity|].
    rewrite (IH f2 true (skipn w2 l1)) by (rewrite skipn_length; lia). reflexivity.
  - rewrite (IH f2 esc (skipn w l)) by (rewrite skipn_length; lia). reflexivity.
Qed.

Lemma quoted_body_fuel : forall f1 f2 l, length l < f1 -> length l < f2 -> quoted_body f1 l = quoted_body f2 l.
Proof.
  induction f1 as [|f1 IH]; intros f2 l H1 H2; [lia|]. destruct f2 as [|f2]; [lia|].
  destruct l as [|c r]; [reflexivity|]. cbn [quoted_body]. cbn [length] in *.
  destruct (c =? 96)%N.
  - destruct r as [|c2 r2]; [reflexivity|]. destruct (c2 =? 96)%N; [|reflexivity].
    rewrite (IH f2 r2) by (cbn [length] in *; lia). reflexivity.
  - destruct (c =? 10)%N; [reflexivity|]. rewrite (IH f2 r) by lia. reflexivity.
Qed.

(** ** a newline ends every string, quoted identifier and comment *)
Lemma string_body_step f q esc l : l <> [] ->
  string_body (S f) q esc l =
  (let '(c, w) := decode l in
   if (c =? q)%N then (Some [], w)
   else if (c =? 10)%N then (None, 0)
   else if (c =? 92)%N then
     let l1 := skipn w l in
     match l1 with
     | [] => (None, w)
     | _ =>
       let '(c2, w2) := decode l1 in
       if (c2 =? 10)%N then (None, w)
       else
         let out := if (c2 =? 110)%N then [10%N] else if (c2 =? 116)%N then [9%N] else firstn w2 l1 in
         let '(o, n) := string_body f q true (skipn w2 l1) in
         (option_map (app out) o, w + w2 + n)
     end
   else
     let out := firstn w l in
     let '(o, n) := string_body f q esc (skipn w l) in
     (option_map (app out) o, w + n)).
Proof. destruct l; [congruence|reflexivity]. Qed.

Lemma app_cons_not_nil {A} (r : list A) x b : r ++ x :: b <> [].
Proof. destruct r; discriminate. Qed.

Lemma string_body_nl q b : forall f esc r, length (r ++ 10%N :: b) < f ->
  string_body f q esc (r ++ 10%N :: b) = string_body f q esc (r ++ [10%N]).
Proof.
  assert (Hn : neutral 10) by (right; left; reflexivity).
  induction f as [|f IH]; intros esc r Hf; [lia|].
  rewrite !string_body_step by apply app_cons_not_nil.
  destruct r as [|c0 r0].
  - cbn [app]. change (decode (10%N :: b)) with (10%N, 1). change (decode [10%N]) with (10%N, 1). reflexivity.
  - set (r := c0 :: r0) in *. assert (Hr : r <> []) by (subst r; congruence).
    rewrite (decode_cut 10 r b Hn Hr), (decode_cut 10 r [] Hn Hr).
    pose proof (decode_width r Hr) as Hw. destruct (decode r) as [c w]. cbn [snd] in Hw.
    destruct (c =? q)%N; [reflexivity|]. destruct (c =? 10)%N; [reflexivity|].
    rewrite !skipn_app_le, !firstn_app_le by lia. cbv zeta.
    destruct (c =? 92)%N.
    + destruct (skipn w r) as [|c1 r1] eqn:Es.
      * cbn [app]. change (decode (10%N :: b)) with (10%N, 1). change (decode [10%N]) with (10%N, 1). reflexivity.
      * assert (Hlen : length (c1 :: r1) = length r - w) by (rewrite <- Es, skipn_length; reflexivity).
        assert (Hr1 : c1 :: r1 <> []) by congruence.
        destruct ((c1 :: r1) ++ 10%N :: b) as [|y ys] eqn:Ey; [destruct (app_cons_not_nil _ _ _ Ey)|]. rewrite <- Ey. clear Ey y ys.
        destruct ((c1 :: r1) ++ [10%N]) as [|y ys] eqn:Ey; [destruct (app_cons_not_nil _ _ _ Ey)|]. rewrite <- Ey. clear Ey y ys.
        rewrite (decode_cut 10 (c1 :: r1) b Hn Hr1), (decode_cut 10 (c1 :: r1) [] Hn Hr1).
        pose proof (decode_width (c1 :: r1) Hr1) as Hw1. destruct (decode (c1 :: r1)) as [c2 w2]. cbn [snd] in Hw1.
        destruct (c2 =? 10)%N; [reflexivity|].
        rewrite !skipn_app_le, !firstn_app_le by lia.
        rewrite IH; [reflexivity|].
        rewrite app_length, skipn_length. rewrite app_length in Hf. cbn [length] in *. lia.
    + rewrite IH; [reflexivity|].
      rewrite app_length, skipn_length. rewrite app_length in Hf. cbn [length] in *. lia.
Qed.

Lemma quoted_body_nl b : forall f r, length (r ++ 10%N :: b) < f ->
  quoted_body f (r ++ 10%N :: b) = quoted_body f (r ++ [10%N]).
Proof.
  induction f as [|f IH]; intros r Hf; [lia|].
  destruct r as [|c r]; [reflexivity|]. cbn [app quoted_body]. cbn [app length] in Hf.
  destruct (c =? 96)%N.
  - destruct r as [|c2 r2]; cbn [app]; [reflexivity|].
    destruct (c2 =? 96)%N; [|reflexivity]. rewrite IH; [reflexivity|]. cbn [app length] in *. lia.
  - destruct (c =? 10)%N; [reflexivity|]. rewrite IH; [reflexivity|]. lia.
Qed.

Lemma comment_len_nl b r : comment_len (r ++ 10%N :: b) = comment_len (r ++ [10%N]).
Proof. induction r as [|c r IH]; cbn [app comment_len]; [reflexivity|]. destruct (c =? 10)%N; [reflexivity|]. f_equal. exact IH. Qed.

(** ** the item at the head of the input does not depend on what follows the next newline *)
Lemma lex_string_nl a b : a <> [] -> lex_string (a ++ 10%N :: b) = lex_string (a ++ [10%N]).
Proof.
  intros Ha. destruct a as [|q r]; [congruence|]. cbn [app lex_string].
  rewrite (string_body_nl q b (S (length (r ++ 10%N :: b))) false r) by lia.
  rewrite (string_body_fuel q (S (length (r ++ 10%N :: b))) (S (length (r ++ [10%N]))) false (r ++ [10%N])); [reflexivity| |lia].
  rewrite !app_length. cbn [length]. lia.
Qed.

Lemma lex_quoted_nl a b : a <> [] -> lex_quoted (a ++ 10%N :: b) = lex_quoted (a ++ [10%N]).
Proof.
  intros Ha. destruct a as [|q r]; [congruence|]. cbn [app lex_quoted].
  rewrite (quoted_body_nl b (length (q :: r ++ 10%N :: b)) r) by (cbn [length]; lia).
  rewrite (quoted_body_fuel (length (q :: r ++ 10%N :: b)) (length (q :: r ++ [10%N])) (r ++ [10%N])); [reflexivity| |cbn [length]; lia].
  cbn [length]. rewrite !app_length. cbn [length]. lia.
Qed.

Theorem lex1_nl a b : lex1 (a ++ 10%N :: b) = lex1 (a ++ [10%N]).
Proof.
  assert (Hn : neutral 10) by (right; left; reflexivity).
  destruct a as [|c0 r0]; [reflexivity|].
  assert (Ha : c0 :: r0 <> []) by congruence.
  pose proof (lex_ident_cut 10 (c0 :: r0) b Hn Ha) as Hi1. pose proof (lex_ident_cut 10 (c0 :: r0) [] Hn Ha) as Hi2.
  pose proof (lex_number_cut 10 (c0 :: r0) b Hn Ha) as Hn1. pose proof (lex_number_cut 10 (c0 :: r0) [] Hn Ha) as Hn2.
  pose proof (lex_string_nl (c0 :: r0) b Ha) as Hs. pose proof (lex_quoted_nl (c0 :: r0) b Ha) as Hq.
  pose proof (decode_cut 10 (c0 :: r0) b Hn Ha) as Hd1. pose proof (decode_cut 10 (c0 :: r0) [] Hn Ha) as Hd2.
  cbn [app] in *. unfold lex1. rewrite Hd1, Hd2, Hi1, Hi2, Hn1, Hn2, Hs, Hq.
  destruct (decode (c0 :: r0)) as [c w].
  repeat match goal with |- (if ?x then _ else _) = (if ?x then _ else _) => destruct x; [reflexivity|] end.
  all: try reflexivity.
  all: destruct r0 as [|c2 r']; cbn [app]; try reflexivity.
  all: try (destruct (c2 =? 47)%N; [|reflexivity]; rewrite comment_len_nl; reflexivity).
Qed.

(** ** the same at a semicolon, for items that end before it *)
Lemma string_body_semi q b : q <> 59%N -> forall f esc r, length (r ++ 59%N :: b) < f ->
  snd (string_body f q esc (r ++ 59%N :: b)) <= length r ->
  string_body f q esc (r ++ 59%N :: b) = string_body f q esc r.
Proof.
  intros Hq. assert (Hn : neutral 59) by (left; reflexivity).
  assert (Hq' : (59 =? q)%N = false) by (apply N.eqb_neq; congruence).
  induction f as [|f IH]; intros esc r Hf Hs; [lia|].
  destruct r as [|c0 r0].
  - (* the scan would have to consume the ';' itself *)
    exfalso. revert Hs. cbn [app]. rewrite string_body_step by discriminate.
    change (decode (59%N :: b)) with (59%N, 1). cbv beta iota zeta. rewrite Hq'. cbn [N.eqb Pos.eqb].
    destruct (string_body f q esc (skipn 1 (59%N :: b))) as [o n]. cbn [snd length]. lia.
  - set (r := c0 :: r0) in *. assert (Hr : r <> []) by (subst r; congruence).
    revert Hs. rewrite (string_body_step f q esc (r ++ 59%N :: b)) by apply app_cons_not_nil.
    rewrite (string_body_step f q esc r) by exact Hr.
    rewrite (decode_cut 59 r b Hn Hr).
    pose proof (decode_width r Hr) as Hw. destruct (decode r) as [c w]. cbn [snd] in Hw.
    destruct (c =? q)%N; [reflexivity|]. destruct (c =? 10)%N; [reflexivity|].
    rewrite !skipn_app_le, !firstn_app_le by lia. cbv zeta.
    destruct (c =? 92)%N.
    + destruct (skipn w r) as [|c1 r1] eqn:Es.
      * (* the escaped character would be the ';' *)
        cbn [app]. change (decode (59%N :: b)) with (59%N, 1). cbv beta iota zeta. cbn [N.eqb Pos.eqb].
        destruct (string_body f q true (skipn 1 (59%N :: b))) as [o n]. cbn [snd]. intros Hs. exfalso.
        assert (length r = w) by (pose proof (skipn_length w r) as X; rewrite Es in X; cbn [length] in X; lia). lia.
      * assert (Hlen : length (c1 :: r1) = length r - w) by (rewrite <- Es, skipn_length; reflexivity).
        assert (Hr1 : c1 :: r1 <> []) by congruence.
        destruct ((c1 :: r1) ++ 59%N :: b) as [|y ys] eqn:Ey; [destruct (app_cons_not_nil _ _ _ Ey)|]. rewrite <- Ey. clear Ey y ys.
        rewrite (decode_cut 59 (c1 :: r1) b Hn Hr1).
        pose proof (decode_width (c1 :: r1) Hr1) as Hw1. destruct (decode (c1 :: r1)) as [c2 w2]. cbn [snd] in Hw1.
        destruct (c2 =? 10)%N; [reflexivity|].
        rewrite !skipn_app_le, !firstn_app_le by lia.
        destruct (string_body f q true (skipn w2 (c1 :: r1) ++ 59%N :: b)) as [o n] eqn:Eb. cbn [snd]. intros Hs.
        rewrite IH in Eb.
        -- rewrite Eb. reflexivity.
        -- rewrite app_length, skipn_length. rewrite app_length in Hf. cbn [length] in *. lia.
        -- rewrite Eb. cbn [snd]. rewrite skipn_length. lia.
    + destruct (string_body f q esc (skipn w r ++ 59%N :: b)) as [o n] eqn:Eb. cbn [snd]. intros Hs.
      rewrite IH in Eb.
      * rewrite Eb. reflexivity.
      * rewrite app_length, skipn_length. rewrite app_length in Hf. cbn [length] in *. lia.
      * rewrite Eb. cbn [snd]. rewrite skipn_length. lia.
Qed.

Lemma quoted_body_semi b : forall f r, length (r ++ 59%N :: b) < f ->
  snd (quoted_body f (r ++ 59%N :: b)) <= length r ->
  quoted_body f (r ++ 59%N :: b) = quoted_body f r.
Proof.
  induction f as [|f IH]; intros r Hf Hs; [lia|].
  destruct r as [|c r].
  - exfalso. revert Hs. cbn [app quoted_body]. cbn [N.eqb Pos.eqb].
    destruct (quoted_body f b) as [o n]. cbn [snd length]. lia.
  - revert Hs. cbn [app quoted_body]. cbn [app length] in Hf.
    destruct (c =? 96)%N.
    + destruct r as [|c2 r2]; cbn [app].
      * cbn [N.eqb Pos.eqb]. reflexivity.
      * destruct (c2 =? 96)%N; [|reflexivity].
        destruct (quoted_body f (r2 ++ 59%N :: b)) as [o n] eqn:Eb. cbn [snd length]. intros Hs.
        rewrite IH in Eb; [rewrite Eb; reflexivity| |rewrite Eb; cbn [snd]; lia]. cbn [app length] in *. lia.
    + destruct (c =? 10)%N; [reflexivity|].
      destruct (quoted_body f (r ++ 59%N :: b)) as [o n] eqn:Eb. cbn [snd length]. intros Hs.
      rewrite IH in Eb; [rewrite Eb; reflexivity|lia|rewrite Eb; cbn [snd]; lia].
Qed.

Lemma comment_len_semi b r : comment_len (r ++ 59%N :: b) <= length r -> comment_len (r ++ 59%N :: b) = comment_len r.
Proof.
  induction r as [|c r IH]; cbn [app comment_len length].
  - cbn [N.eqb Pos.eqb]. lia.
  - destruct (c =? 10)%N; [reflexivity|]. intros H. f_equal. apply IH. lia.
Qed.

Lemma lex_string_semi a b : a <> [] -> (match a with q :: _ => q <> 59%N | [] => True end) ->
  item_len (lex_string (a ++ 59%N :: b)) <= length a -> lex_string (a ++ 59%N :: b) = lex_string a.
Proof.
  intros Ha Hq. destruct a as [|q r]; [congruence|]. cbn [app lex_string length].
  destruct (string_body (S (length (r ++ 59%N :: b))) q false (r ++ 59%N :: b)) as [o n] eqn:Eb.
  intros Hs. assert (Hn : n <= length r) by (destruct o; cbn [item_len] in Hs; lia).
  rewrite (string_body_semi q b Hq) in Eb; [|lia|rewrite Eb; exact Hn].
  rewrite (string_body_fuel q (S (length (r ++ 59%N :: b))) (S (length r)) false r) in Eb; [rewrite Eb; reflexivity| |lia].
  rewrite app_length. lia.
Qed.

Lemma lex_quoted_semi a b : a <> [] ->
  item_len (lex_quoted (a ++ 59%N :: b)) <= length a -> lex_quoted (a ++ 59%N :: b) = lex_quoted a.
Proof.
  intros Ha. destruct a as [|q r]; [congruence|]. cbn [app lex_quoted].
  destruct (quoted_body (length (q :: r ++ 59%N :: b)) (r ++ 59%N :: b)) as [o n] eqn:Eb.
  intros Hs. assert (Hn : n <= length r) by (destruct o; cbn [item_len length] in Hs; lia).
  rewrite quoted_body_semi in Eb; [|cbn [length]; lia|rewrite Eb; exact Hn].
  rewrite (quoted_body_fuel (length (q :: r ++ 59%N :: b)) (length (q :: r)) r) in Eb; [rewrite Eb; reflexivity| |cbn [length]; lia].
  cbn [length]. rewrite app_length. lia.
Qed.

Theorem lex1_semi_cut a b : a <> [] -> item_len (lex1 (a ++ 59%N :: b)) <= length a ->
  lex1 (a ++ 59%N :: b) = lex1 a.
Proof.
  assert (Hn : neutral 59) by (left; reflexivity).
  intros Ha. destruct a as [|c0 r0]; [congruence|].
  pose proof (lex_ident_cut 59 (c0 :: r0) b Hn Ha) as Hi1.
  pose proof (lex_number_cut 59 (c0 :: r0) b Hn Ha) as Hn1.
  pose proof (lex_string_semi (c0 :: r0) b Ha) as Hs. pose proof (lex_quoted_semi (c0 :: r0) b Ha) as Hq.
  pose proof (decode_cut 59 (c0 :: r0) b Hn Ha) as Hd1.
  cbn [app] in *. unfold lex1. rewrite Hd1, Hi1, Hn1.
  destruct (decode (c0 :: r0)) as [c w] eqn:Edec.
  destruct (is_space c); [reflexivity|].
  destruct (is_ident_start c); [reflexivity|].
  destruct (is_digit c || (c =? 46)%N); [reflexivity|].
  destruct (c =? 44)%N; [reflexivity|].
  destruct ((c =? 34)%N || (c =? 39)%N) eqn:Equote.
  { intros Hl. apply Hs; [|exact Hl].
    (* the first byte is the quote character, not ';' *)
    intros ->. unfold decode in Edec. cbn in Edec. injection Edec as <- _. discriminate Equote. }
  destruct (c =? 96)%N; [intros Hl; apply Hq; exact Hl|].
  destruct (c =? 124)%N; [reflexivity|]. destruct (c =? 40)%N; [reflexivity|]. destruct (c =? 41)%N; [reflexivity|].
  destruct (c =? 91)%N; [reflexivity|]. destruct (c =? 93)%N; [reflexivity|].
  destruct (c =? 61)%N; [destruct r0; reflexivity|].
  destruct (c =? 33)%N; [destruct r0; reflexivity|].
  destruct (c =? 43)%N; [reflexivity|]. destruct (c =? 45)%N; [reflexivity|]. destruct (c =? 42)%N; [reflexivity|].
  destruct (c =? 47)%N.
  { destruct r0 as [|c2 r']; cbn [app]; [reflexivity|].
    destruct (c2 =? 47)%N; [|reflexivity]. cbn [item_len length]. intros Hl.
    rewrite comment_len_semi by lia. reflexivity. }
  destruct (c =? 37)%N; [reflexivity|].
  destruct (c =? 60)%N; [destruct r0; reflexivity|].
  destruct (c =? 62)%N; [destruct r0; reflexivity|].
  reflexivity.
Qed.
