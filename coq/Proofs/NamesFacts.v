(** * C05: what the subqueries read.  For every pipeline, at any join depth: every table a
    subquery reads (FROM, or either side of a JOIN) is a table named in the PQL source or an earlier
    subquery of the same list; a subquery that is not the target of an `as` is called
    __subquery<its index> (so generated names are pairwise different); and every subquery but the
    last is read by a later one. *)
From PQL Require Import Model.Compile Proofs.ExprInd Proofs.PipelineFacts Proofs.JoinFacts Proofs.WriterFacts.
From Coq Require Import Lia.
Local Open Scope list_scope.
Local Open Scope nat_scope.
Local Notation length := List.length (only parsing).

Definition reads (s : subq) : list str :=
  match sq_source s with SrcName n => [n] | SrcJoin _ l _ r _ _ => [l; r] end.

(** the view of a subquery that matters here: its name, what it reads, whether `as` named it *)
Definition view := (str * list str * bool)%type.
Definition nm (v : view) : str := fst (fst v).
Definition rds (v : view) : list str := snd (fst v).
Definition isas (v : view) : bool := snd v.
Definition view_of (s : subq) : view := (sq_name s, reads s, is_as s).
Definition views (dst : list subq) : list view := map view_of dst.

Record Inv (T : list str) (ds : nat) (pend : list nat) (vs : list view) : Prop := mkInv
  { inv_resolved : forall i v, nth_error vs i = Some v -> incl (rds v) (T ++ map nm (firstn i vs));
    inv_gen : forall i v, nth_error vs i = Some v -> isas v = false -> nm v = subquery_name i;
    inv_used : forall j v, nth_error vs j = Some v -> j + 1 < length vs -> ~ In j pend ->
               In (nm v) (flat_map rds (skipn (S j) vs));
    inv_start : ds <= length vs;
    inv_pend : 0 < ds -> In (ds - 1) pend }.

Lemma nth_error_snoc {A} (l : list A) x i v : nth_error (l ++ [x]) i = Some v ->
  (i < length l /\ nth_error l i = Some v) \/ (i = length l /\ v = x).
Proof.
  intros H. destruct (Nat.lt_ge_cases i (length l)) as [Hlt|Hge].
  - left. split; [exact Hlt|]. rewrite nth_error_app1 in H by exact Hlt. exact H.
  - right. rewrite nth_error_app2 in H by exact Hge. destruct (i - length l) as [|k] eqn:E.
    + cbn in H. injection H as <-. split; [lia|reflexivity].
    + cbn in H. destruct k; discriminate.
Qed.

Lemma firstn_snoc_le {A} (l : list A) x i : i <= length l -> firstn i (l ++ [x]) = firstn i l.
Proof. intros H. rewrite firstn_app. replace (i - length l) with 0 by lia. cbn [firstn]. apply app_nil_r. Qed.

Lemma skipn_snoc_le {A} (l : list A) x i : i <= length l -> skipn i (l ++ [x]) = skipn i l ++ [x].
Proof. intros H. rewrite skipn_app. replace (i - length l) with 0 by lia. reflexivity. Qed.

(** appending one subquery, possibly while leaving a nested pipeline (from [ds'], [pend'] back to
    [ds], [pend]) *)
Lemma inv_snoc T ds ds' pend pend' vs v :
  Inv T ds' pend' vs -> ds <= length vs -> (0 < ds -> In (ds - 1) pend) ->
  incl (rds v) (T ++ map nm vs) ->
  (isas v = false -> nm v = subquery_name (length vs)) ->
  (forall j u, nth_error vs j = Some u -> ~ In j pend -> (In j pend' \/ j + 1 = length vs) -> In (nm u) (rds v)) ->
  Inv T ds pend (vs ++ [v]).
Proof.
  intros [Hr Hg Hu Hs Hp] Hds Hpe Hin Hgen Hnew. constructor.
  - intros i w Hi. apply nth_error_snoc in Hi as [[Hlt Hi]|[-> ->]].
    + rewrite firstn_snoc_le by lia. apply Hr. exact Hi.
    + rewrite firstn_app, firstn_all. replace (length vs - length vs) with 0 by lia. cbn [firstn]. rewrite app_nil_r. exact Hin.
  - intros i w Hi Ha. apply nth_error_snoc in Hi as [[Hlt Hi]|[-> ->]]; [apply Hg; assumption|apply Hgen; exact Ha].
  - intros j w Hj Hlen Hnp. rewrite app_length in Hlen. cbn [length] in Hlen.
    apply nth_error_snoc in Hj as [[Hlt Hj]|[-> ->]]; [|lia].
    rewrite skipn_snoc_le by lia. rewrite flat_map_app. apply in_or_app.
    destruct (Nat.eq_dec (j + 1) (length vs)) as [El|Nl].
    + right. cbn [flat_map]. rewrite app_nil_r. apply (Hnew j w Hj Hnp). right. exact El.
    + destruct (in_dec Nat.eq_dec j pend') as [Ip|Np].
      * right. cbn [flat_map]. rewrite app_nil_r. apply (Hnew j w Hj Hnp). left. exact Ip.
      * left. apply Hu; [exact Hj|lia|exact Np].
  - rewrite app_length. cbn [length]. lia.
  - exact Hpe.
Qed.

(** entering the parenthesised pipeline of a join: it starts where the list ends, and the last
    subquery so far waits for the join *)
Lemma inv_enter T ds pend vs : Inv T ds pend vs ->
  Inv T (length vs) (if Nat.eqb (length vs) 0 then pend else (length vs - 1) :: pend) vs.
Proof.
  intros [Hr Hg Hu Hs Hp]. constructor; try assumption.
  - intros j v Hj Hlen Hnp. apply Hu; [exact Hj|exact Hlen|]. intros Hin. apply Hnp.
    destruct (Nat.eqb (length vs) 0); [exact Hin|right; exact Hin].
  - lia.
  - intros H0. destruct (Nat.eqb (length vs) 0) eqn:E; [apply Nat.eqb_eq in E; lia|left; reflexivity].
Qed.

Definition ext_of (vs vs' : list view) : Prop := exists e, vs' = vs ++ e.
Lemma ext_refl vs : ext_of vs vs.
Proof. exists []. symmetry. apply app_nil_r. Qed.
Lemma ext_trans a b c : ext_of a b -> ext_of b c -> ext_of a c.
Proof. intros [e ->] [f ->]. exists (e ++ f). symmetry. apply app_assoc. Qed.
Lemma ext_snoc vs v : ext_of vs (vs ++ [v]).
Proof. exists [v]. reflexivity. Qed.
Lemma ext_len a b : ext_of a b -> length a <= length b.
Proof. intros [e ->]. rewrite app_length. lia. Qed.
Lemma ext_nth a b i v : ext_of a b -> nth_error a i = Some v -> nth_error b i = Some v.
Proof. intros [e ->] H. rewrite nth_error_app1; [exact H|]. apply nth_error_Some. congruence. Qed.

Lemma views_snoc dst s : views (dst ++ [s]) = views dst ++ [view_of s].
Proof. unfold views. rewrite map_app. reflexivity. Qed.

Lemma views_set_last dst f : (forall s, view_of (f s) = view_of s) -> views (set_last dst f) = views dst.
Proof.
  intros Hf. unfold set_last, views. destruct (rev dst) as [|s r] eqn:E.
  - assert (dst = []) by (rewrite <- (rev_involutive dst), E; reflexivity). subst. reflexivity.
  - rewrite <- (rev_involutive dst), E. cbn [rev]. rewrite !map_app. cbn [map]. rewrite Hf. reflexivity.
Qed.

Lemma last_opt_snoc {A} (l : list A) x : last_opt (l ++ [x]) = Some x.
Proof. unfold last_opt. rewrite rev_app_distr. reflexivity. Qed.

Lemma last_opt_nth {A} (l : list A) x : last_opt l = Some x -> nth_error l (length l - 1) = Some x /\ 0 < length l.
Proof.
  unfold last_opt. intros H. destruct (rev l) as [|y r] eqn:E; [discriminate|]. injection H as ->.
  assert (El : l = rev r ++ [x]) by (rewrite <- (rev_involutive l), E; reflexivity). subst l.
  rewrite app_length. cbn [length]. split; [|lia]. rewrite nth_error_app2 by lia.
  replace (length (rev r) + 1 - 1 - length (rev r)) with 0 by lia. reflexivity.
Qed.

Lemma last_opt_none {A} (l : list A) : last_opt l = None -> l = [].
Proof. unfold last_opt. intros H. destruct (rev l) eqn:E; [|discriminate]. rewrite <- (rev_involutive l), E. reflexivity. Qed.

Lemma views_nth dst i s : nth_error dst i = Some s -> nth_error (views dst) i = Some (view_of s).
Proof. intros H. unfold views. rewrite nth_error_map, H. reflexivity. Qed.

Lemma views_length dst : length (views dst) = length dst.
Proof. apply map_length. Qed.

Lemma in_names_of_nth vs j u : nth_error vs j = Some u -> In (nm u) (map nm vs).
Proof. intros H. apply in_map. eapply nth_error_In. exact H. Qed.

Section Split.
Variable sc : scope.

(** the subquery [chainSubquery] makes *)
Lemma chain_view dst ds src :
  view_of (chain_subquery dst ds src) =
  (subquery_name (length dst),
   [if Nat.ltb ds (length dst) then match last_opt dst with Some s => sq_name s | None => [] end else iname src], false).
Proof. unfold chain_subquery, view_of, reads, is_as. cbn [sq_name sq_source sq_op]. destruct (Nat.ltb ds (length dst)); [destruct (last_opt dst)|]; reflexivity. Qed.

(** appending a subquery that reads like the fresh one (the plain operators and the fallback) *)
Lemma inv_chain T ds pend dst src (a : bool) n :
  Inv T ds pend (views dst) -> In (iname src) T -> (a = false -> n = subquery_name (length dst)) ->
  Inv T ds pend (views dst ++ [(n, rds (view_of (chain_subquery dst ds src)), a)]).
Proof.
  intros HI Hsrc Hn. pose proof (inv_start _ _ _ _ HI) as Hs. rewrite views_length in Hs.
  apply (inv_snoc T ds ds pend pend); try assumption.
  - rewrite views_length. exact Hs.
  - apply (inv_pend _ _ _ _ HI).
  - rewrite chain_view. cbn [rds fst snd]. intros x [<-|[]]. apply in_or_app.
    destruct (Nat.ltb ds (length dst)) eqn:E; [|left; exact Hsrc]. right.
    destruct (last_opt dst) as [s|] eqn:El.
    + apply last_opt_nth in El as [El _]. apply (in_names_of_nth _ _ _ (views_nth _ _ _ El)).
    + apply last_opt_none in El. subst. cbn [length] in E. apply Nat.ltb_lt in E. lia.
  - cbn [isas nm fst snd]. rewrite views_length. exact Hn.
  - intros j u Hj Hnp [Hp|Hlast]; [contradiction|]. rewrite views_length in Hlast.
    rewrite chain_view. cbn [rds fst snd]. left.
    destruct (Nat.ltb ds (length dst)) eqn:E.
    + destruct (last_opt dst) as [s|] eqn:El.
      * apply last_opt_nth in El as [El _]. replace (length dst - 1) with j in El by lia.
        rewrite (views_nth _ _ _ El) in Hj. injection Hj as <-. reflexivity.
      * apply last_opt_none in El. subst. cbn [length] in Hlast. lia.
    + apply Nat.ltb_ge in E. exfalso. apply Hnp. replace j with (ds - 1) by lia. apply (inv_pend _ _ _ _ HI). lia.
Qed.

Definition stepN (o : operator) : Prop := forall T ds pend src dst dst',
  Inv T ds pend (views dst) -> In (iname src) T -> incl (table_names o) T ->
  split_op sc ds src dst o = Ok dst' ->
  Inv T ds pend (views dst') /\ ext_of (views dst) (views dst').

Lemma fold_stepN ops : Forall stepN ops -> forall T ds pend src dst dst',
  Inv T ds pend (views dst) -> In (iname src) T -> incl (flat_map table_names ops) T ->
  fold_res (split_op sc ds src) ops dst = Ok dst' ->
  Inv T ds pend (views dst') /\ ext_of (views dst) (views dst').
Proof.
  induction 1 as [|o r Ho Hr IH]; intros T ds pend src dst dst' HI Hsrc Hinc Hf; cbn [fold_res] in Hf.
  - injection Hf as <-. split; [exact HI|apply ext_refl].
  - destruct (split_op sc ds src dst o) as [d1|] eqn:E; cbn [bind] in Hf; [|discriminate].
    cbn [flat_map] in Hinc. destruct (Ho T ds pend src dst d1 HI Hsrc (fun x Hx => Hinc x (in_or_app _ _ _ (or_introl Hx))) E) as [H1 E1].
    destruct (IH T ds pend src d1 dst' H1 Hsrc (fun x Hx => Hinc x (in_or_app _ _ _ (or_intror Hx))) Hf) as [H2 E2].
    split; [exact H2|eapply ext_trans; eassumption].
Qed.

Lemma stepN_plain o : is_join o = false -> stepN o.
Proof.
  intros Hj T ds pend src dst dst' HI Hsrc _ Hs.
  assert (Happ : forall op, (match op with Some (OAs _ _ _) => False | _ => True end) ->
            Inv T ds pend (views (dst ++ [mkSubq (sq_name (chain_subquery dst ds src)) (sq_source (chain_subquery dst ds src)) op None None]))
            /\ ext_of (views dst) (views (dst ++ [mkSubq (sq_name (chain_subquery dst ds src)) (sq_source (chain_subquery dst ds src)) op None None]))).
  { intros op Hop. rewrite views_snoc. split; [|apply ext_snoc].
    replace (view_of _) with (subquery_name (length dst), rds (view_of (chain_subquery dst ds src)), false).
    - apply inv_chain; [exact HI|exact Hsrc|reflexivity].
    - unfold view_of, is_as. cbn [sq_name sq_op sq_source]. unfold reads. cbn [sq_source rds fst snd]. f_equal.
      destruct op as [[]|]; try reflexivity. contradiction. }
  assert (Hfresh : Inv T ds pend (views (dst ++ [chain_subquery dst ds src])) /\ ext_of (views dst) (views (dst ++ [chain_subquery dst ds src]))).
  { rewrite views_snoc. split; [|apply ext_snoc]. rewrite chain_view at 1.
    replace [if Nat.ltb ds (length dst) then match last_opt dst with Some s => sq_name s | None => [] end else iname src]
      with (rds (view_of (chain_subquery dst ds src))) by (rewrite chain_view; reflexivity).
    apply inv_chain; [exact HI|exact Hsrc|reflexivity]. }
  assert (Hattach : forall (b : bool) f, (forall s, view_of (f s) = view_of s) ->
            Inv T ds pend (views (set_last (if b then dst ++ [chain_subquery dst ds src] else dst) f))
            /\ ext_of (views dst) (views (set_last (if b then dst ++ [chain_subquery dst ds src] else dst) f))).
  { intros b f Hf. rewrite views_set_last by exact Hf. destruct b; [exact Hfresh|split; [exact HI|apply ext_refl]]. }
  destruct o; try discriminate Hj; cbn [split_op] in Hs; injection Hs as <-;
    try (apply Happ; exact I); try (apply Hattach; intros s; reflexivity).
  (* as *)
  rewrite views_snoc. split; [|apply ext_snoc].
  replace (view_of _) with (iname name, rds (view_of (chain_subquery dst ds src)), true) by reflexivity.
  apply inv_chain; [exact HI|exact Hsrc|discriminate].
Qed.

Lemma stepN_join p k ks ka fl lp rsrc rops rp on conds : Forall stepN rops -> stepN (OJoin p k ks ka fl lp rsrc rops rp on conds).
Proof.
  intros Hrops T ds pend src dst dst' HI Hsrc Hinc Hs.
  rewrite split_join_unfold in Hs. cbv zeta in Hs.
  destruct (fold_res (split_op sc (length dst) rsrc) rops dst) as [d1|] eqn:Ef; cbn [bind] in Hs; [|discriminate].
  cbn [table_names] in Hinc.
  assert (Hrs : In (iname rsrc) T) by (apply Hinc; left; reflexivity).
  set (pend' := if Nat.eqb (length (views dst)) 0 then pend else (length (views dst) - 1) :: pend).
  pose proof (inv_enter T ds pend (views dst) HI) as HE. fold pend' in HE. rewrite views_length in HE.
  destruct (fold_stepN rops Hrops T (length dst) pend' rsrc dst d1 HE Hrs (fun x Hx => Hinc x (or_intror Hx)) Ef) as [H1 E1].
  set (e1 := if Nat.eqb (length d1) (length dst) then d1 ++ [chain_subquery d1 (length dst) rsrc] else d1) in *.
  assert (H1' : Inv T (length dst) pend' (views e1) /\ ext_of (views dst) (views e1) /\ length dst < length e1).
  { unfold e1. destruct (Nat.eqb (length d1) (length dst)) eqn:El.
    - apply Nat.eqb_eq in El. rewrite views_snoc. split; [|split].
      + rewrite chain_view at 1.
        replace [if Nat.ltb (length dst) (length d1) then match last_opt d1 with Some s => sq_name s | None => [] end else iname rsrc]
          with (rds (view_of (chain_subquery d1 (length dst) rsrc))) by (rewrite chain_view; reflexivity).
        apply inv_chain; [exact H1|exact Hrs|reflexivity].
      + eapply ext_trans; [exact E1|apply ext_snoc].
      + rewrite app_length. cbn [length]. lia.
    - apply Nat.eqb_neq in El. split; [exact H1|split; [exact E1|]]. apply ext_len in E1. rewrite !views_length in E1. lia. }
  destruct H1' as (He1 & Ee1 & Hlen).
  match type of Hs with bind ?r _ = _ => destruct r as [outer|] eqn:Eo end; cbn [bind] in Hs; [|discriminate].
  destruct (wexpr (mkCtx sc ModeJoin) (build_join_cond sc conds)) as [cond|] eqn:Ec; cbn [bind] in Hs; [|discriminate].
  injection Hs as <-. rewrite views_snoc. split; [|eapply ext_trans; [exact Ee1|apply ext_snoc]].
  set (left_src := if Nat.ltb ds (length dst) then match last_opt dst with Some s => sq_name s | None => [] end else iname src).
  set (right_name := match last_opt e1 with Some s => sq_name s | None => [] end).
  replace (view_of _) with (subquery_name (length e1), [left_src; right_name], false) by reflexivity.
  pose proof (inv_start _ _ _ _ HI) as Hds. rewrite views_length in Hds.
  destruct (last_opt e1) as [sr|] eqn:Elr; [|apply last_opt_none in Elr; rewrite Elr in Hlen; cbn [length] in Hlen; lia].
  apply last_opt_nth in Elr as [Elr _]. pose proof (views_nth _ _ _ Elr) as Vr.
  assert (Hleft : Nat.ltb ds (length dst) = true -> exists sl, nth_error (views e1) (length dst - 1) = Some (view_of sl) /\ left_src = sq_name sl).
  { intros E. unfold left_src. rewrite E. destruct (last_opt dst) as [sl|] eqn:Ell.
    - apply last_opt_nth in Ell as [Ell _]. exists sl. split; [|reflexivity]. eapply ext_nth; [exact Ee1|apply views_nth; exact Ell].
    - apply last_opt_none in Ell. subst dst. apply Nat.ltb_lt in E. cbn [length] in E. lia. }
  apply (inv_snoc T ds (length dst) pend pend'); try assumption.
  - rewrite views_length. lia.
  - apply (inv_pend _ _ _ _ HI).
  - cbn [rds fst snd]. intros x [<-|[<-|[]]]; apply in_or_app.
    + destruct (Nat.ltb ds (length dst)) eqn:E.
      * destruct (Hleft eq_refl) as (sl & Hn & ->). right. apply (in_names_of_nth _ _ _ Hn).
      * left. unfold left_src. rewrite ?E. exact Hsrc.
    + right. apply (in_names_of_nth _ _ _ Vr).
  - cbn [isas nm fst snd]. rewrite views_length. reflexivity.
  - intros j u Hj Hnp Hor. cbn [rds fst snd]. rewrite views_length in Hor.
    destruct Hor as [Hp|Hlast].
    + (* the subquery the left side ended with *)
      unfold pend' in Hp. rewrite views_length in Hp.
      destruct (Nat.eqb (length dst) 0) eqn:E0; [contradiction|]. destruct Hp as [<-|Hp]; [|contradiction].
      destruct (Nat.ltb ds (length dst)) eqn:E.
      * destruct (Hleft eq_refl) as (sl & Hn & ->). rewrite Hn in Hj. injection Hj as <-. left. reflexivity.
      * apply Nat.ltb_ge in E. apply Nat.eqb_neq in E0. exfalso. apply Hnp.
        replace (length dst - 1) with (ds - 1) by lia. apply (inv_pend _ _ _ _ HI). lia.
    + right. left. replace (length e1 - 1) with j in Vr by lia. rewrite Vr in Hj. injection Hj as <-. reflexivity.
Qed.

Theorem stepN_all o : stepN o.
Proof. induction o using operator_ind'; [apply stepN_plain; assumption|apply stepN_join; assumption]. Qed.

Definition tab_tables (t : tabular) : list str := iname (tsrc t) :: flat_map table_names (tops t).

Lemma inv_nil T : Inv T 0 [] [].
Proof.
  constructor.
  - intros i v H. destruct i; discriminate.
  - intros i v H. destruct i; discriminate.
  - intros j v H. destruct j; discriminate.
  - cbn. lia.
  - lia.
Qed.

Theorem split_queries_names t subs : split_queries sc [] t = Ok subs -> Inv (tab_tables t) 0 [] (views subs).
Proof.
  unfold split_queries. cbn [length]. intros H.
  destruct (fold_res (split_op sc 0 (tsrc t)) (tops t) []) as [d1|] eqn:Ef; cbn [bind] in H; [|discriminate].
  injection H as <-.
  assert (Hsrc : In (iname (tsrc t)) (tab_tables t)) by (left; reflexivity).
  destruct (fold_stepN (tops t) (proj2 (Forall_forall _ _) (fun o _ => stepN_all o)) (tab_tables t) 0 [] (tsrc t) [] d1
              (inv_nil _) Hsrc (fun x Hx => or_intror Hx) Ef) as [H1 _].
  destruct (Nat.eqb (length d1) 0); [|exact H1].
  rewrite views_snoc, chain_view.
  replace [if Nat.ltb 0 (length d1) then match last_opt d1 with Some s => sq_name s | None => [] end else iname (tsrc t)]
    with (rds (view_of (chain_subquery d1 0 (tsrc t)))) by (rewrite chain_view; reflexivity).
  apply inv_chain; [exact H1|exact Hsrc|reflexivity].
Qed.
End Split.

Lemma nth_error_firstn_lt {A} (l : list A) : forall i j, j < i -> nth_error (firstn i l) j = nth_error l j.
Proof. induction l as [|x r IH]; intros [|i] [|j] H; cbn [firstn nth_error]; try reflexivity; try lia. apply IH. lia. Qed.

Lemma nth_error_skipn_add {A} (l : list A) : forall i k, nth_error (skipn i l) k = nth_error l (i + k).
Proof. induction l as [|x r IH]; intros [|i] k; cbn [skipn nth_error Nat.add]; try reflexivity; [destruct k; reflexivity|apply IH]. Qed.

(** ** the three clauses, as a reader wants them *)
Theorem tables_resolved sc t subs i s : split_queries sc [] t = Ok subs -> nth_error subs i = Some s ->
  forall n, In n (reads s) -> In n (tab_tables t) \/ exists j s', j < i /\ nth_error subs j = Some s' /\ sq_name s' = n.
Proof.
  intros H Hi n Hn. pose proof (split_queries_names sc t subs H) as HI.
  pose proof (inv_resolved _ _ _ _ HI i (view_of s) (views_nth _ _ _ Hi) n Hn) as Hin.
  apply in_app_or in Hin as [Ht|Hb]; [left; exact Ht|right].
  apply in_map_iff in Hb as (v & Hv & Hvin). apply In_nth_error in Hvin as (j & Hj).
  assert (Hjlt : j < i).
  { assert (j < length (firstn i (views subs))) by (apply nth_error_Some; congruence). rewrite firstn_length in H0. lia. }
  rewrite nth_error_firstn_lt in Hj by exact Hjlt. unfold views in Hj. rewrite nth_error_map in Hj.
  destruct (nth_error subs j) as [s'|] eqn:Es; [|discriminate]. injection Hj as <-.
  exists j, s'. split; [exact Hjlt|split; [exact Es|exact Hv]].
Qed.

Theorem generated_names sc t subs i s : split_queries sc [] t = Ok subs -> nth_error subs i = Some s ->
  is_as s = false -> sq_name s = subquery_name i.
Proof. intros H Hi Ha. apply (inv_gen _ _ _ _ (split_queries_names sc t subs H) i (view_of s) (views_nth _ _ _ Hi) Ha). Qed.

Theorem every_cte_is_read sc t subs j s : split_queries sc [] t = Ok subs -> nth_error subs j = Some s -> j + 1 < length subs ->
  exists i s', j < i /\ nth_error subs i = Some s' /\ In (sq_name s) (reads s').
Proof.
  intros H Hj Hlen. pose proof (split_queries_names sc t subs H) as HI.
  pose proof (inv_used _ _ _ _ HI j (view_of s) (views_nth _ _ _ Hj) ltac:(rewrite views_length; exact Hlen) (fun x => x)) as Hin.
  apply in_flat_map in Hin as (v & Hvin & Hr). apply In_nth_error in Hvin as (k & Hk).
  rewrite nth_error_skipn_add in Hk. unfold views in Hk. rewrite nth_error_map in Hk.
  destruct (nth_error subs (S j + k)) as [s'|] eqn:Es; [|discriminate]. injection Hk as <-.
  exists (S j + k), s'. split; [lia|split; [exact Es|exact Hr]].
Qed.
