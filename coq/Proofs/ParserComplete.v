(** * ParserComplete: the expression parser builds the tree the grammar prescribes (C07).

    For every expression tree [e] that the grammar of [Spec/Grammar.v] prescribes ([gexpr e]) and
    every token sequence that stands for it ([toks_expr e used], Spec/Flatten.v), the parser model
    run on those tokens -- followed by anything that cannot continue an expression -- returns
    exactly [e], consumes exactly [used] and reports no error.  Together with soundness
    (Proofs/ParserSound.v) this pins the parser's result: it is the one tree with that token
    sequence which groups by precedence, associates to the left, treats `in` as a complete test
    and applies signs to primaries. *)
From PQL Require Import Spec.Grammar Proofs.ParserSound Proofs.ParserSoundStmt Proofs.ParserReject Proofs.SplitSkip Proofs.ExprInd Proofs.TableFacts.
From Coq Require Import Lia ZArith.
Local Open Scope list_scope.
Local Open Scope nat_scope.
Local Notation length := List.length (only parsing).

(** ** table facts *)
Lemma op_prec_lt_above k : (op_prec k < above_all)%Z.
Proof. destruct k; vm_compute; reflexivity. Qed.

Lemma op_prec_ge_m1 k : (-1 <= op_prec k)%Z.
Proof. destruct k; vm_compute; discriminate. Qed.

Definition not_cont (t : token) : Prop := tkind t <> KDot /\ tkind t <> KLParen /\ tkind t <> KLBracket.

Lemma prec_not_cont t : (0 <= op_prec (tkind t))%Z -> not_cont t.
Proof. unfold not_cont. destruct (tkind t); vm_compute; intros H; try (exfalso; apply H; reflexivity); repeat split; discriminate. Qed.

Lemma prec_in : op_prec KIn = 2%Z. Proof. reflexivity. Qed.

(** what may follow an expression whose top operator has level [h]: nothing, or a token that
    neither continues a primary ( . ( [ ) nor is a binary operator tighter than [h] *)
Definition follows (h : Z) (more : list token) : Prop :=
  match more with [] => True | t :: _ => not_cont t /\ (op_prec (tkind t) <= h)%Z end.

Definition not_cont_hd (more : list token) : Prop :=
  match more with [] => True | t :: _ => not_cont t end.

Lemma follows_weaken h h' more : (h <= h')%Z -> follows h more -> follows h' more.
Proof. destruct more as [|t r]; [trivial|]. intros Hh [H1 H2]. split; [exact H1|lia]. Qed.

Lemma follows_hd h more : follows h more -> not_cont_hd more.
Proof. destruct more; [trivial|]. intros [H _]. exact H. Qed.

Lemma lo_le_above e : (lo e <= above_all)%Z.
Proof. induction e; cbn [lo]; unfold above_all in *; try lia. Qed.

Lemma lo_le_hi e : (lo e <= hi e)%Z.
Proof. pose proof (lo_le_above e) as H. destruct e; cbn [lo hi] in *; lia. Qed.

Lemma mk_ident_eq i t : ident_tok i t -> mk_ident t = i.
Proof.
  destruct i as [n sp q]. unfold ident_tok, mk_ident, is_kind. cbn [iname ispan iquoted].
  intros (Hk & Hv & Hs). rewrite Hk, Hv, Hs. destruct q; reflexivity.
Qed.

Lemma is_kind_true k t : tkind t = k -> is_kind k t = true.
Proof. intros <-. unfold is_kind. apply kind_eqb_refl. Qed.
Lemma is_kind_false k t : tkind t <> k -> is_kind k t = false.
Proof. intros H. unfold is_kind. apply kind_eqb_neq. exact H. Qed.

Lemma ident_tok_kind i t : ident_tok i t -> (is_kind KIdentifier t || is_kind KQuotedIdentifier t) = true.
Proof. intros (Hk & _). unfold is_kind. rewrite Hk. destruct (iquoted i); reflexivity. Qed.

Section Complete.
Variable srclen : nat.

Notation pexpr := (p_expr srclen).
Notation punary := (p_unary srclen).
Notation pprimary := (p_primary srclen).
Notation pinner := (p_inner srclen).
Notation plist := (p_expr_list srclen).
Notation ptail := (p_expr_list_tail srclen).
Notation ptrail := (p_trail srclen).
Notation phigher := (p_higher srclen).

(** ** names *)
Lemma p_ident_complete i t r : ident_tok i t -> p_ident srclen (t :: r) = (Some i, r, []).
Proof. intros H. unfold p_ident. rewrite (ident_tok_kind _ _ H), (mk_ident_eq _ _ H). reflexivity. Qed.

Definition no_dot_hd (more : list token) : Prop := match more with [] => True | t :: _ => tkind t <> KDot end.

Lemma p_qual_tail_stop more : no_dot_hd more -> p_qual_tail srclen more = ([], more, []).
Proof. destruct more as [|d r]; [reflexivity|]. cbn [no_dot_hd p_qual_tail]. intros H. rewrite (is_kind_false _ _ H). reflexivity. Qed.

Lemma qual_tail_complete ps ts : toks_qual ps ts -> forall more, no_dot_hd more ->
  exists i ps' t tr, ps = i :: ps' /\ ts = t :: tr /\ ident_tok i t /\ p_qual_tail srclen (tr ++ more) = (ps', more, []).
Proof.
  induction 1 as [i t Hi|i t d r tr Hi Hd _ IH]; intros more Hm.
  - exists i, [], t, []. split; [reflexivity|]. split; [reflexivity|]. split; [exact Hi|]. cbn [app]. apply p_qual_tail_stop. exact Hm.
  - destruct (IH more Hm) as (i' & ps' & t' & tr' & -> & -> & Hi' & Ht).
    exists i, (i' :: ps'), t, (d :: t' :: tr'). split; [reflexivity|]. split; [reflexivity|]. split; [exact Hi|].
    cbn [app p_qual_tail]. rewrite (is_kind_true _ _ Hd), (ident_tok_kind _ _ Hi'), Ht, (mk_ident_eq _ _ Hi'). reflexivity.
Qed.

Lemma p_qualified_complete ps ts more : toks_qual ps ts -> no_dot_hd more ->
  p_qualified srclen (ts ++ more) = (Some ps, more, []).
Proof.
  intros H Hm. destruct (qual_tail_complete _ _ H more Hm) as (i & ps' & t & tr & -> & -> & Hi & Ht).
  unfold p_qualified. cbn [app]. rewrite (p_ident_complete _ _ _ Hi), Ht. reflexivity.
Qed.

(** ** the statements proved by induction on the tree *)
Definition okres (R : option expr * list token * errs) : Prop := exists v rest, R = (Some v, rest, []).

(** after a name, literal, call or parenthesised expression: no `.` and no `(` *)
Definition inner_follow (more : list token) : Prop :=
  match more with [] => True | t :: _ => tkind t <> KDot /\ tkind t <> KLParen end.

Lemma not_cont_inner more : not_cont_hd more -> inner_follow more.
Proof. destruct more; [trivial|]. intros (H1 & H2 & _). split; assumption. Qed.

Definition Full (e : expr) : Prop := forall used rest f, toks_expr e used -> gexpr e = true -> follows (-1) rest ->
  4 * length used + 4 <= f -> pexpr f (used ++ rest) = (Some e, rest, []).

Definition Inner (e : expr) : Prop := forall used more f, is_inner e = true -> toks_expr e used -> gexpr e = true ->
  inner_follow more -> 4 * length used + 1 <= f -> pinner f (used ++ more) = (Some e, more, []).

Definition Primary (e : expr) : Prop := forall used more f, is_primary e = true -> toks_expr e used -> gexpr e = true ->
  not_cont_hd more -> 4 * length used + 2 <= f -> pprimary f (used ++ more) = (Some e, more, []).

Definition Operand (e : expr) : Prop := forall used more f, is_operand e = true -> toks_expr e used -> gexpr e = true ->
  not_cont_hd more -> 4 * length used + 3 <= f -> punary f (used ++ more) = (Some e, more, []).

(** the chain of left operands: [e] is its leftmost operand [x0] followed by the operators (and
    `in` tests) applied to it in turn; the trail loop, started on [x0], works through them *)
Definition Chain (e : expr) : Prop := forall used, toks_expr e used -> gexpr e = true ->
  exists x0 u0 ui, used = u0 ++ ui /\
    (forall more f, not_cont_hd (ui ++ more) -> 4 * length u0 + 3 <= f -> punary f (u0 ++ ui ++ more) = (Some x0, ui ++ more, [])) /\
    (forall m more R F f, (m <= lo e)%Z -> follows (hi e) more -> 1 <= F ->
       (forall f', F <= f' -> ptrail f' (Some e) m more = R) -> okres R ->
       F + 4 * length ui <= f -> ptrail f (Some x0) m (ui ++ more) = R) /\
    ((ui = [] /\ x0 = e /\ is_operand e = true) \/
     (exists t ui', ui = t :: ui' /\ (lo e <= op_prec (tkind t))%Z /\ (0 <= op_prec (tkind t))%Z)).

(** ** lists of expressions *)
Definition list_rest (rest : list token) : Prop := rest = [] \/ exists c, rest = [c] /\ tkind c = KComma.

Lemma pexpr_nil f : 2 <= f -> pexpr f [] = (None, [], nf_at srclen).
Proof. destruct f as [|[|f]]; [lia|lia|]. intros _. rewrite p_expr_S, p_unary_S. reflexivity. Qed.

Lemma ptail_stop rest f : list_rest rest -> 4 <= f -> ptail f rest = (Some [], rest, []).
Proof.
  intros [->|(c & -> & Hc)] Hf; (destruct f as [|f]; [lia|]); rewrite p_expr_list_tail_S.
  - reflexivity.
  - rewrite (is_kind_true _ _ Hc), pexpr_nil by lia. reflexivity.
Qed.

Lemma comma_follows c r : tkind c = KComma -> follows (-1) (c :: r).
Proof. intros H. cbn [follows]. unfold not_cont. rewrite H. repeat split; discriminate. Qed.

Lemma list_complete vs tvs : toks_list vs tvs -> Forall Full vs -> forallb gexpr vs = true ->
  forall rest f, list_rest rest -> 4 * length tvs + 5 <= f ->
  plist f (tvs ++ rest) = (Some vs, rest, []) /\
  (forall c, tkind c = KComma -> ptail f (c :: tvs ++ rest) = (Some vs, rest, [])).
Proof.
  induction 1 as [e te He|e te c r tr He Hc Hr IH Hne]; intros HF Hg rest f Hrest Hf.
  - apply Forall_inv in HF. cbn [forallb] in Hg. apply andb_prop in Hg as [Hg _].
    assert (Hx : forall f', 4 * length te + 4 <= f' -> pexpr f' (te ++ rest) = (Some e, rest, [])).
    { intros f' Hf'. apply HF; try assumption. destruct Hrest as [->|(c & -> & Hc)]; [exact I|apply comma_follows; exact Hc]. }
    split.
    + destruct f as [|f]; [lia|]. rewrite p_expr_list_S, Hx by lia. cbn [no_err negb]. rewrite ptail_stop by (assumption || lia). reflexivity.
    + intros c Hc. destruct f as [|f]; [lia|]. rewrite p_expr_list_tail_S, (is_kind_true _ _ Hc), Hx by lia.
      cbn [is_nf existsb no_err negb]. rewrite ptail_stop by (assumption || lia). reflexivity.
  - pose proof (Forall_inv HF) as HFe. apply Forall_inv_tail in HF. cbn [forallb] in Hg. apply andb_prop in Hg as [Hge Hgr].
    rewrite app_length in Hf. cbn [length] in Hf.
    destruct (IH HF Hgr rest (pred f) Hrest ltac:(lia)) as [_ IHt]. specialize (IHt c Hc).
    assert (Hx : forall f', 4 * length te + 4 <= f' -> pexpr f' (te ++ c :: tr ++ rest) = (Some e, c :: tr ++ rest, [])).
    { intros f' Hf'. apply HFe; try assumption. apply comma_follows; exact Hc. }
    split.
    + destruct f as [|f]; [lia|]. rewrite <- app_assoc. cbn [app]. rewrite p_expr_list_S, Hx by lia. cbn [no_err negb pred] in *.
      rewrite IHt. reflexivity.
    + intros c0 Hc0. destruct f as [|f]; [lia|]. rewrite <- app_assoc. cbn [app].
      rewrite p_expr_list_tail_S, (is_kind_true _ _ Hc0), Hx by lia.
      cbn [is_nf existsb no_err negb pred] in *. rewrite IHt. reflexivity.
Qed.

(** ** rewriting [is_kind k t] when the kind of [t] is known *)
Ltac kind_of t Hk :=
  repeat match goal with
  | |- context [is_kind ?k t] =>
    first [ rewrite (is_kind_true k t) by (rewrite Hk; reflexivity)
          | rewrite (is_kind_false k t) by (rewrite Hk; discriminate) ]
  end.

Lemma toks_expr_nonempty e used : toks_expr e used -> used <> [].
Proof.
  intros H. destruct H; try discriminate.
  - match goal with H : toks_qual _ _ |- _ => destruct H; discriminate end.
  - intros E. apply app_eq_nil in E as [_ E]. discriminate.
  - intros E. apply app_eq_nil in E as [_ E]. discriminate.
  - intros E. apply app_eq_nil in E as [_ E]. discriminate.
Qed.

Lemma lo_nonneg e : forall used, toks_expr e used -> (0 <= lo e)%Z.
Proof.
  induction e; intros used H; inversion H; subst; cbn [lo]; try (unfold above_all; lia).
  - match goal with Hx : toks_expr e1 _ |- _ => apply IHe1 in Hx end. lia.
  - match goal with Hx : toks_expr e _ |- _ => apply IHe in Hx end. rewrite prec_in. lia.
Qed.

(** ** names, literals, calls, parentheses *)
Lemma inner_qual ps : Inner (EQual ps).
Proof.
  intros used more f _ Ht _ Hm Hf. inversion Ht as [ps0 ts Hq| | | | | | |]; subst.
  assert (Hnd : no_dot_hd more) by (destruct more; [exact I|apply Hm]).
  pose proof (p_qualified_complete _ _ more Hq Hnd) as HQ.
  destruct (qual_tail_complete _ _ Hq more Hnd) as (i & ps' & t & tr & -> & -> & Hi & _).
  destruct f as [|f]; [lia|]. rewrite p_inner_S. cbn [app] in *.
  destruct Hi as (Hk & Hv & Hs). destruct (iquoted i) eqn:Eq.
  - kind_of t Hk. cbn [orb]. rewrite HQ. reflexivity.
  - kind_of t Hk. cbn [orb]. rewrite HQ. destruct ps' as [|j ps'']; [|reflexivity].
    destruct more as [|lp r2]; [reflexivity|]. destruct Hm as [_ Hlp]. rewrite (is_kind_false _ _ Hlp). reflexivity.
Qed.

Lemma inner_lit sp k v : Inner (ELit sp k v).
Proof.
  intros used more f _ Ht _ _ Hf. inversion Ht as [|sp0 k0 v0 t Hor Hk Hv Hs| | | | | |]; subst.
  destruct f as [|f]; [lia|]. rewrite p_inner_S. cbn [app].
  assert (E : (is_kind KNumber t || is_kind KString t) = true).
  { destruct Hor as [E|E]; unfold is_kind; rewrite E; reflexivity. }
  rewrite E. reflexivity.
Qed.

Lemma inner_paren l x r : Full x -> Inner (EParen l x r).
Proof.
  intros HF used more f _ Ht Hg _ Hf. inversion Ht as [| | | | |lsp x0 rsp tl tx tr Hl Hx Hr| |]; subst.
  cbn [gexpr] in Hg. cbn [length] in Hf. rewrite app_length in Hf. cbn [length] in Hf.
  destruct f as [|f]; [lia|]. rewrite p_inner_S. cbn [app]. destruct Hl as [Hlk Hls]. destruct Hr as [Hrk Hrs].
  kind_of tl Hlk. cbn [orb]. rewrite <- app_assoc. cbn [app].
  rewrite (split_at_closer KRParen tx tr more (or_introl eq_refl) (expr_skips0 _ _ Hx) Hrk).
  pose proof (HF tx [] f Hx Hg I ltac:(lia)) as HX. rewrite app_nil_r in HX. rewrite HX.
  cbn [opaque map end_split app]. rewrite (is_kind_true _ _ Hrk). cbn [when_ok no_err option_map]. subst. reflexivity.
Qed.

Lemma plist_nil f : 3 <= f -> plist f [] = (None, [], nf_at srclen).
Proof. destruct f as [|f]; [lia|]. intros H. rewrite p_expr_list_S, pexpr_nil by lia. reflexivity. Qed.

Lemma inner_call fn l args r : Forall Full args -> Inner (ECall fn l args r).
Proof.
  intros HF used more f _ Ht Hg _ Hf. inversion Ht as [| | | | | |f0 lsp a0 rsp tf tl targs tr Hfn Hq Hl Ha Hr|]; subst.
  cbn [gexpr] in Hg. cbn [length] in Hf. rewrite app_length in Hf. cbn [length] in Hf.
  destruct f as [|f]; [lia|]. rewrite p_inner_S. cbn [app]. destruct Hl as [Hlk Hls]. destruct Hr as [Hrk Hrs].
  pose proof Hfn as (Hk & Hv & Hs). rewrite Hq in Hk. kind_of tf Hk. cbn [orb].
  assert (HQ : p_qualified srclen (tf :: tl :: (targs ++ [tr]) ++ more) = (Some [fn], tl :: (targs ++ [tr]) ++ more, [])).
  { apply (p_qualified_complete [fn] [tf] (tl :: (targs ++ [tr]) ++ more)); [constructor; exact Hfn|]. cbn [no_dot_hd]. rewrite Hlk. discriminate. }
  rewrite HQ. rewrite (is_kind_true _ _ Hlk). rewrite <- app_assoc. cbn [app].
  rewrite (split_at_closer KRParen targs tr more (or_introl eq_refl) (args_skips0 _ _ Ha) Hrk).
  inversion Ha as [|a1 ts Hlst Hne|a1 ts c Hlst Hne Hc]; subst.
  - rewrite plist_nil by lia. cbn [is_nf existsb nf_at enf orb end_split app]. rewrite (is_kind_true _ _ Hrk).
    cbn [when_ok no_err option_map]. subst. reflexivity.
  - destruct (list_complete _ _ Hlst HF Hg [] f (or_introl eq_refl) ltac:(lia)) as [HL _]. rewrite app_nil_r in HL. rewrite HL.
    cbn [is_nf existsb no_err end_split app]. rewrite (is_kind_true _ _ Hrk).
    cbn [when_ok no_err option_map]. subst. reflexivity.
  - rewrite app_length in Hf. cbn [length] in Hf.
    destruct (list_complete _ _ Hlst HF Hg [c] f (or_intror (ex_intro _ c (conj eq_refl Hc))) ltac:(lia)) as [HL _]. rewrite HL.
    cbn [is_nf existsb no_err]. rewrite (is_kind_true _ _ Hc). cbn [end_split app]. rewrite (is_kind_true _ _ Hrk).
    cbn [when_ok no_err option_map]. subst. reflexivity.
Qed.

(** ** primaries (one optional index) and signed operands *)
Lemma primary_inner e : is_inner e = true -> Inner e -> Primary e.
Proof.
  intros Hi HI used more f _ Ht Hg Hm Hf. destruct f as [|f]; [lia|]. rewrite p_primary_S.
  rewrite (HI used more f Hi Ht Hg (not_cont_inner _ Hm) ltac:(lia)). cbn [no_err negb].
  destruct more as [|t r2]; [reflexivity|]. destruct Hm as (_ & _ & Hb). rewrite (is_kind_false _ _ Hb). reflexivity.
Qed.

Lemma primary_index x l i r : Inner x -> Full i -> Primary (EIndex x l i r).
Proof.
  intros HI HF used more f Hp Ht Hg _ Hf. inversion Ht as [| | | | | | |x0 lsp i0 rsp tx tl ti tr Hx Hl Hi Hr]; subst.
  cbn [is_primary] in Hp. cbn [gexpr] in Hg. apply andb_prop in Hg as [Hg Hgi]. apply andb_prop in Hg as [_ Hgx].
  rewrite !app_length in Hf. cbn [length] in Hf. rewrite app_length in Hf. cbn [length] in Hf.
  destruct Hl as [Hlk Hls]. destruct Hr as [Hrk Hrs].
  destruct f as [|f]; [lia|]. rewrite p_primary_S. rewrite <- !app_assoc. cbn [app]. rewrite <- app_assoc. cbn [app].
  rewrite (HI tx (tl :: ti ++ tr :: more) f Hp Hx Hgx) by (cbn [inner_follow]; try rewrite Hlk; try (split; discriminate); lia).
  cbn [no_err negb]. rewrite (is_kind_true _ _ Hlk).
  rewrite (split_at_closer KRBracket ti tr more (or_intror eq_refl) (expr_skips0 _ _ Hi) Hrk).
  pose proof (HF ti [] f Hi Hgi I ltac:(lia)) as HX. rewrite app_nil_r in HX. rewrite HX.
  cbn [opaque map end_split app]. rewrite (is_kind_true _ _ Hrk). cbn [when_ok no_err opt_map2]. subst. reflexivity.
Qed.

(** the first token of a primary is not a sign *)
Lemma inner_first e used : is_inner e = true -> toks_expr e used ->
  exists t r, used = t :: r /\ tkind t <> KPlus /\ tkind t <> KMinus.
Proof.
  intros Hi Ht. destruct Ht; try discriminate.
  - match goal with H : toks_qual _ _ |- _ => destruct H as [i t H|i t d r tr H] end;
      eexists _, _; (split; [reflexivity|]); destruct H as (Hk & _); rewrite Hk; destruct (iquoted i); split; discriminate.
  - eexists _, _. split; [reflexivity|]. match goal with H : tkind _ = _ , Hor : _ \/ _ |- _ => rewrite H; destruct Hor; subst; split; discriminate end.
  - eexists _, _. split; [reflexivity|]. match goal with H : is_tok KLParen _ _ |- _ => destruct H as [H _]; rewrite H end. split; discriminate.
  - eexists _, _. split; [reflexivity|]. match goal with H : ident_tok ?f _, Hq : iquoted ?f = false |- _ => destruct H as (H & _); rewrite Hq in H; rewrite H end. split; discriminate.
Qed.

Lemma primary_first e used : is_primary e = true -> toks_expr e used ->
  exists t r, used = t :: r /\ tkind t <> KPlus /\ tkind t <> KMinus.
Proof.
  intros Hp Ht. destruct e as [ps|a b c d|a b c|a b c d g|a b c|a b c|a b c d|x0 lb i0 rb]; cbn [is_primary] in Hp; try discriminate; try (eapply inner_first; [exact Hp|exact Ht]).
  inversion Ht; subst.
  match goal with Hx : toks_expr ?xx _, Hq : is_inner ?xx = true |- _ => destruct (inner_first _ _ Hq Hx) as (t & r & -> & H) end.
  eexists _, _. split; [reflexivity|exact H].
Qed.

Lemma operand_primary e : is_primary e = true -> Primary e -> Operand e.
Proof.
  intros Hp HP used more f _ Ht Hg Hm Hf. destruct f as [|f]; [lia|]. rewrite p_unary_S.
  destruct (primary_first _ _ Hp Ht) as (t & r & E & Hplus & Hminus).
  assert (Hp' := HP used more f Hp Ht Hg Hm ltac:(lia)). subst used. cbn [app] in *.
  rewrite (is_kind_false _ _ Hplus), (is_kind_false _ _ Hminus). cbn [orb]. exact Hp'.
Qed.

Lemma operand_unary sp op x : Primary x -> Operand (EUnary sp op x).
Proof.
  intros HP used more f Ho Ht Hg Hm Hf. inversion Ht as [| |sp0 op0 x0 t tx Hor Htk Hx| | | | |]; subst.
  cbn [is_operand] in Ho. cbn [gexpr] in Hg. apply andb_prop in Hg as [_ Hg]. cbn [length] in Hf.
  destruct f as [|f]; [lia|]. rewrite p_unary_S. cbn [app]. destruct Htk as [Hk Hs].
  assert (E : (is_kind KPlus t || is_kind KMinus t) = true).
  { destruct Hor as [E|E]; unfold is_kind; rewrite Hk, E; reflexivity. }
  rewrite E. rewrite (HP tx more f Ho Hx Hg Hm ltac:(lia)). cbn [when_ok no_err option_map opaque map]. subst. reflexivity.
Qed.

(** ** chains *)
Lemma chain_operand e : is_operand e = true -> Operand e -> Chain e.
Proof.
  intros Ho HO used Ht Hg. exists e, used, []. split; [rewrite app_nil_r; reflexivity|]. split; [|split].
  - intros more f Hm Hf. cbn [app] in *. apply HO; assumption.
  - intros m more R F f _ _ _ HR _ Hf. cbn [app]. apply HR. cbn [length] in Hf. lia.
  - left. repeat split. exact Ho.
Qed.

(** [p_trail] at a token that does not continue the expression at this level *)
Lemma ptrail_stop x m more f : follows (m - 1) more -> 1 <= f -> ptrail f (Some x) m more = (Some x, more, []).
Proof.
  intros Hm Hf. destruct f as [|f]; [lia|]. rewrite p_trail_S. destruct more as [|t r]; [reflexivity|].
  destruct Hm as [_ Hm]. cbn zeta.
  destruct (op_prec (tkind t) <? 0)%Z eqn:E1; [reflexivity|]. cbn [orb].
  destruct (op_prec (tkind t) <? m)%Z eqn:E2; [reflexivity|]. apply Z.ltb_ge in E2. lia.
Qed.

Lemma phigher_stop y p more f : follows p more -> 1 <= f -> phigher f (Some y) p more = (Some y, more, []).
Proof.
  intros Hm Hf. destruct f as [|f]; [lia|]. rewrite p_higher_S. destruct more as [|t r]; [reflexivity|].
  destruct Hm as [_ Hm]. cbn zeta.
  destruct (op_prec (tkind t) <? 0)%Z eqn:E1; [reflexivity|]. cbn [orb].
  destruct (op_prec (tkind t) <=? p)%Z eqn:E2; [reflexivity|]. apply Z.leb_gt in E2. lia.
Qed.

(** the right operand of an operator of level [p]: [p_unary] reads its leftmost operand and the
    "resolve higher precedence first" loop builds the rest *)
Lemma higher_of_chain y : Chain y -> forall uy p more f, toks_expr y uy -> gexpr y = true ->
  (p < lo y)%Z -> (0 <= p)%Z -> follows p more -> 4 * length uy + 4 <= f ->
  exists y0 r1, punary f (uy ++ more) = (Some y0, r1, []) /\ phigher f (Some y0) p r1 = (Some y, more, []).
Proof.
  intros HC uy p more f Ht Hg Hp Hp0 Hm Hf.
  destruct (HC uy Ht Hg) as (y0 & u0 & ui & -> & Ha & Hb & Hc).
  rewrite app_length in Hf. exists y0, (ui ++ more). rewrite <- app_assoc. split.
  - apply Ha; [|lia]. destruct Hc as [(-> & _ & _)|(t & ui' & -> & _ & Hge)]; [cbn [app]; eapply follows_hd; exact Hm|].
    cbn [app not_cont_hd]. apply prec_not_cont. exact Hge.
  - destruct Hc as [(-> & -> & _)|(t & ui' & -> & Hlo & Hge)].
    + cbn [app]. apply phigher_stop; [exact Hm|lia].
    + destruct f as [|f]; [lia|]. rewrite p_higher_S. cbn [app]. cbn zeta.
      assert (E1 : (op_prec (tkind t) <? 0)%Z = false) by (apply Z.ltb_ge; lia).
      assert (E2 : (op_prec (tkind t) <=? p)%Z = false) by (apply Z.leb_gt; lia).
      rewrite E1, E2. cbn [orb].
      change (t :: ui' ++ more) with ((t :: ui') ++ more).
      rewrite (Hb (p + 1)%Z more (Some y, more, []) 1 f).
      * rewrite phigher_stop by (assumption || (cbn [length] in Hf; lia)). reflexivity.
      * lia.
      * eapply follows_weaken; [|exact Hm]. pose proof (lo_le_hi y). lia.
      * lia.
      * intros f' Hf'. apply ptrail_stop; [|lia]. replace (p + 1 - 1)%Z with p by lia. exact Hm.
      * eexists _, _. reflexivity.
      * cbn [length] in *. lia.
Qed.

Lemma chain_bin x sp op y : Chain x -> Chain y -> Chain (EBin x sp op y).
Proof.
  intros HCx HCy used Ht Hg. inversion Ht as [| | |x0 sp0 op0 y0 tx t ty Hprec Hnin Hx Htk Hy| | | |]; subst.
  cbn [gexpr] in Hg. apply andb_prop in Hg as [Hg Hlo]. apply andb_prop in Hg as [Hg Hhi]. apply andb_prop in Hg as [Hgx Hgy].
  apply Z.leb_le in Hhi. apply Z.ltb_lt in Hlo. destruct Htk as [Hk Hs].
  destruct (HCx tx Hx Hgx) as (x0 & u0 & uxi & -> & Ha & Hb & Hc).
  exists x0, u0, (uxi ++ t :: ty). split; [rewrite <- app_assoc; reflexivity|]. split; [|split].
  - intros more f Hm Hf. rewrite <- app_assoc. cbn [app]. apply Ha; [|exact Hf].
    destruct Hc as [(-> & _ & _)|(t' & ui' & -> & _ & Hge)]; cbn [app not_cont_hd]; apply prec_not_cont; [rewrite Hk; exact Hprec|exact Hge].
  - intros m more R F f Hm Hfol HF1 HR Hok Hf. cbn [lo hi] in *. rewrite <- app_assoc. cbn [app].
    rewrite app_length in Hf. cbn [length] in Hf.
    apply (Hb m (t :: ty ++ more) R (F + 4 * length ty + 4)); try assumption; try lia.
    + cbn [follows]. split; [apply prec_not_cont; rewrite Hk; exact Hprec|rewrite Hk; exact Hhi].
    + intros f' Hf'. destruct f' as [|f']; [lia|]. rewrite p_trail_S. cbn zeta. rewrite Hk.
      assert (E1 : (op_prec op <? 0)%Z = false) by (apply Z.ltb_ge; lia).
      assert (E2 : (op_prec op <? m)%Z = false) by (apply Z.ltb_ge; lia).
      rewrite E1, E2. cbn [orb]. rewrite (is_kind_false KIn t) by (rewrite Hk; exact Hnin).
      destruct (higher_of_chain y HCy ty (op_prec op) more f' Hy Hgy Hlo Hprec Hfol ltac:(lia)) as (y0 & r1 & Hu & Hh).
      rewrite Hu, Hh. cbn [opaque map app when_ok no_err opt_map2]. rewrite Hs.
      rewrite (HR f') by lia. destruct Hok as (v & rest & ->). reflexivity.
  - right. destruct Hc as [(-> & _ & _)|(t' & ui' & -> & Hlo' & Hge)]; cbn [app lo].
    + exists t, ty. split; [reflexivity|]. rewrite Hk. split; lia.
    + exists t', (ui' ++ t :: ty). split; [reflexivity|]. split; lia.
Qed.

Lemma chain_in x isp lsp vs rsp : Chain x -> Forall Full vs -> Chain (EIn x isp lsp vs rsp).
Proof.
  intros HCx HFv used Ht Hg. inversion Ht as [| | | |x0 i0 l0 v0 r0 tx ti tl tvs tr Hx Hi Hl Hvs Hne Hr| | |]; subst.
  cbn [gexpr] in Hg. apply andb_prop in Hg as [Hg Hhi]. apply andb_prop in Hg as [Hgx Hgv]. apply Z.leb_le in Hhi.
  destruct Hi as [Hik His]. destruct Hl as [Hlk Hls]. destruct Hr as [Hrk Hrs].
  destruct (HCx tx Hx Hgx) as (x0 & u0 & uxi & -> & Ha & Hb & Hc).
  exists x0, u0, (uxi ++ ti :: tl :: tvs ++ [tr]). split; [rewrite <- app_assoc; reflexivity|]. split; [|split].
  - intros more f Hm Hf. rewrite <- app_assoc. cbn [app]. apply Ha; [|exact Hf].
    destruct Hc as [(-> & _ & _)|(t' & ui' & -> & _ & Hge)]; cbn [app not_cont_hd]; apply prec_not_cont; [rewrite Hik; vm_compute; discriminate|exact Hge].
  - intros m more R F f Hm Hfol HF1 HR Hok Hf. cbn [lo hi] in *. rewrite <- app_assoc. cbn [app]. rewrite <- app_assoc. cbn [app].
    rewrite !app_length in Hf. cbn [length] in Hf. rewrite app_length in Hf. cbn [length] in Hf.
    apply (Hb m (ti :: tl :: tvs ++ tr :: more) R (F + 4 * length tvs + 6)); try assumption; try lia.
    + cbn [follows]. split; [apply prec_not_cont; rewrite Hik; vm_compute; discriminate|rewrite Hik; exact Hhi].
    + intros f' Hf'. destruct f' as [|f']; [lia|]. rewrite p_trail_S. cbn zeta. rewrite Hik.
      assert (E2 : (op_prec KIn <? m)%Z = false) by (apply Z.ltb_ge; lia).
      rewrite E2. replace (op_prec KIn <? 0)%Z with false by reflexivity. cbn [orb].
      rewrite (is_kind_true KIn ti Hik), (is_kind_true _ _ Hlk).
      rewrite (split_at_closer KRParen tvs tr more (or_introl eq_refl) (list_skips0 _ _ Hvs) Hrk).
      destruct (list_complete _ _ Hvs HFv Hgv [] f' (or_introl eq_refl) ltac:(lia)) as [HL _]. rewrite app_nil_r in HL. rewrite HL.
      cbn [opaque map end_split app]. rewrite (is_kind_true _ _ Hrk). cbn [when_ok no_err opt_map2]. rewrite His, Hls, Hrs.
      rewrite (HR f') by lia. destruct Hok as (v & rest & ->). reflexivity.
  - right. destruct Hc as [(-> & _ & _)|(t' & ui' & -> & Hlo' & Hge)]; cbn [app lo].
    + exists ti, (tl :: tvs ++ [tr]). split; [reflexivity|]. rewrite Hik. split; [lia|vm_compute; discriminate].
    + exists t', (ui' ++ ti :: tl :: tvs ++ [tr]). split; [reflexivity|]. split; lia.
Qed.

Lemma full_chain e : Chain e -> Full e.
Proof.
  intros HC used rest f Ht Hg Hrest Hf.
  destruct (HC used Ht Hg) as (x0 & u0 & ui & -> & Ha & Hb & Hc).
  rewrite app_length in Hf. destruct f as [|f]; [lia|]. rewrite p_expr_S. rewrite <- app_assoc.
  rewrite Ha.
  - cbn [is_nf existsb]. rewrite (Hb 0%Z rest (Some e, rest, []) 1 f).
    + reflexivity.
    + eapply lo_nonneg. exact Ht.
    + eapply follows_weaken; [|exact Hrest]. pose proof (lo_le_hi e). pose proof (lo_nonneg e _ Ht). lia.
    + lia.
    + intros f' Hf'. apply ptrail_stop; [exact Hrest|lia].
    + eexists _, _. reflexivity.
    + lia.
  - destruct Hc as [(-> & _ & _)|(t & ui' & -> & _ & Hge)]; [cbn [app]; eapply follows_hd; exact Hrest|].
    cbn [app not_cont_hd]. apply prec_not_cont. exact Hge.
  - lia.
Qed.

(** ** every tree *)
Theorem expr_complete_all e : Inner e /\ Primary e /\ Operand e /\ Chain e /\ Full e.
Proof.
  induction e as [ps|x sp op y IHx IHy|sp op x IHx|x isp lsp vs rsp IHx IHvs|l x r IHx|sp k v|fn l args r IHargs|x l i r IHx IHi] using expr_ind'.
  - pose proof (inner_qual ps) as HI. pose proof (primary_inner (EQual ps) eq_refl HI) as HP. pose proof (operand_primary (EQual ps) eq_refl HP) as HO.
    pose proof (chain_operand (EQual ps) eq_refl HO) as HC. repeat split; try assumption. apply full_chain; exact HC.
  - destruct IHx as (_ & _ & _ & HCx & _). destruct IHy as (_ & _ & _ & HCy & _).
    pose proof (chain_bin x sp op y HCx HCy) as HC.
    repeat split; try (intros ? ? ? E; discriminate E); try assumption. apply full_chain; exact HC.
  - destruct IHx as (_ & HPx & _).
    pose proof (operand_unary sp op x HPx) as HO.
    assert (HC : Chain (EUnary sp op x)).
    { intros used Ht Hg. assert (Ho : is_operand (EUnary sp op x) = true) by (cbn [gexpr] in Hg; apply andb_prop in Hg as [Hg _]; exact Hg).
      exact (chain_operand _ Ho HO used Ht Hg). }
    repeat split; try (intros ? ? ? E; discriminate E); try assumption. apply full_chain; exact HC.
  - destruct IHx as (_ & _ & _ & HCx & _).
    assert (HFv : Forall Full vs) by (eapply Forall_impl; [|exact IHvs]; intros a Ha; apply Ha).
    pose proof (chain_in x isp lsp vs rsp HCx HFv) as HC.
    repeat split; try (intros ? ? ? E; discriminate E); try assumption. apply full_chain; exact HC.
  - destruct IHx as (_ & _ & _ & _ & HFx).
    pose proof (inner_paren l x r HFx) as HI. pose proof (primary_inner (EParen l x r) eq_refl HI) as HP. pose proof (operand_primary (EParen l x r) eq_refl HP) as HO.
    pose proof (chain_operand (EParen l x r) eq_refl HO) as HC. repeat split; try assumption. apply full_chain; exact HC.
  - pose proof (inner_lit sp k v) as HI. pose proof (primary_inner (ELit sp k v) eq_refl HI) as HP. pose proof (operand_primary (ELit sp k v) eq_refl HP) as HO.
    pose proof (chain_operand (ELit sp k v) eq_refl HO) as HC. repeat split; try assumption. apply full_chain; exact HC.
  - assert (HFa : Forall Full args) by (eapply Forall_impl; [|exact IHargs]; intros a Ha; apply Ha).
    pose proof (inner_call fn l args r HFa) as HI. pose proof (primary_inner (ECall fn l args r) eq_refl HI) as HP. pose proof (operand_primary (ECall fn l args r) eq_refl HP) as HO.
    pose proof (chain_operand (ECall fn l args r) eq_refl HO) as HC. repeat split; try assumption. apply full_chain; exact HC.
  - destruct IHx as (HIx & _). destruct IHi as (_ & _ & _ & _ & HFi).
    pose proof (primary_index x l i r HIx HFi) as HP.
    assert (HO : Operand (EIndex x l i r)).
    { intros used more f Ho. apply operand_primary; [exact Ho|exact HP|exact Ho]. }
    assert (HC : Chain (EIndex x l i r)).
    { intros used Ht Hg. assert (Ho : is_operand (EIndex x l i r) = true) by (cbn [gexpr] in Hg; apply andb_prop in Hg as [Hg _]; apply andb_prop in Hg as [Hg _]; exact Hg).
      exact (chain_operand _ Ho HO used Ht Hg). }
    repeat split; try (intros ? ? ? E; discriminate E); try assumption. apply full_chain; exact HC.
Qed.

Theorem p_expr_complete e used rest f : toks_expr e used -> gexpr e = true -> follows (-1) rest ->
  4 * length used + 4 <= f -> pexpr f (used ++ rest) = (Some e, rest, []).
Proof. intros. apply (proj2 (proj2 (proj2 (proj2 (expr_complete_all e))))); assumption. Qed.

Theorem p_expr_list_complete vs tvs rest f : toks_list vs tvs -> forallb gexpr vs = true -> list_rest rest ->
  4 * length tvs + 5 <= f -> plist f (tvs ++ rest) = (Some vs, rest, []).
Proof.
  intros Hl Hg Hr Hf. apply list_complete; try assumption.
  apply Forall_forall. intros a _. apply (proj2 (proj2 (proj2 (proj2 (expr_complete_all a))))).
Qed.

End Complete.
