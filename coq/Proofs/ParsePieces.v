(** * ParsePieces (C15): Parse reports the statements in the order and number of the non-empty
    pieces of SplitStatements, each statement standing for exactly the tokens its piece has when
    scanned alone (moved to the piece's offset). *)
From PQL Require Import Spec.FlattenStmt Proofs.ParserSound Proofs.ParserSoundStmt Proofs.ParserReject Proofs.NoSemi
  Proofs.LexerFacts Proofs.SplitFacts Proofs.LexCut Proofs.ScanCut Proofs.Locality.
From Coq Require Import Lia.
Local Open Scope list_scope.
Local Open Scope nat_scope.
Local Notation length := List.length (only parsing).

(** the pieces scanned one by one, each moved to its offset in the source *)
Fixpoint scans_of (off : nat) (ps : list str) : list (list token) :=
  match ps with
  | [] => []
  | p :: r => map (shift_tok off) (scan p) :: scans_of (S (off + length p)) r
  end.

Definition is_nil {A} (l : list A) : bool := match l with [] => true | _ => false end.
Definition nonempty {A} (ls : list (list A)) : list (list A) := filter (fun l => negb (is_nil l)) ls.

Lemma all_nosemi_of_bool ts : no_semi ts = true -> all_nosemi ts.
Proof.
  induction ts as [|t r IH]; intros H; [constructor|]. cbn [no_semi] in H. apply andb_prop in H as [Ht Hr].
  constructor; [|apply IH; exact Hr]. unfold nosemi_tok. intros E. rewrite E in Ht. discriminate.
Qed.

Lemma all_nosemi_shift k ts : all_nosemi ts -> all_nosemi (map (shift_tok k) ts).
Proof. induction 1; cbn [map]; constructor; assumption. Qed.

Lemma stmt_nonempty s ts : toks_stmt s ts -> ts <> [].
Proof. intros H. destruct H as [? ? ? ? ? ? ? ? ? ? ? ?|t ts (a & b & -> & _)]; discriminate. Qed.

Lemma first_semi_unique (a b : list token) sa sb ra rb : all_nosemi a -> all_nosemi b -> tkind sa = KSemi -> tkind sb = KSemi ->
  a ++ sa :: ra = b ++ sb :: rb -> a = b /\ sa = sb /\ ra = rb.
Proof.
  intros Ha. revert b. induction Ha as [|x a' Hx _ IH]; intros b Hb Hsa Hsb E.
  - destruct b as [|y b']; cbn [app] in E.
    + injection E as <- <-. repeat split.
    + injection E as -> _. apply Forall_inv in Hb. contradiction.
  - destruct b as [|y b']; cbn [app] in E.
    + injection E as -> _. contradiction.
    + injection E as <- E. apply Forall_inv_tail in Hb. destruct (IH b' Hb Hsa Hsb E) as (-> & -> & ->). repeat split.
Qed.

Lemma prog_nosemi ss ts : toks_prog ss ts -> all_nosemi ts -> (ts = [] /\ ss = []) \/ (exists s, ss = [s] /\ toks_stmt s ts).
Proof.
  intros H Hn. destruct H as [|semi ss rest Hs _|s ts Hs|s ts semi ss rest Hs Hsemi _].
  - left. split; reflexivity.
  - apply Forall_inv in Hn. contradiction.
  - right. exists s. split; [reflexivity|exact Hs].
  - exfalso. unfold all_nosemi in Hn. apply Forall_app in Hn as [_ Hn]. apply Forall_inv in Hn. contradiction.
Qed.

Lemma prog_split ss a semi r : toks_prog ss (a ++ semi :: r) -> all_nosemi a -> tkind semi = KSemi ->
  (a = [] /\ toks_prog ss r) \/ (exists s ss', ss = s :: ss' /\ toks_stmt s a /\ toks_prog ss' r).
Proof.
  intros H Ha Hsemi. remember (a ++ semi :: r) as ts eqn:E. destruct H as [|semi' ss rest' Hs' Hp|s ts Hs|s ts semi' ss rest' Hs Hs' Hp].
  - destruct a; discriminate.
  - destruct a as [|x a']; cbn [app] in E.
    + injection E as -> ->. left. split; [reflexivity|exact Hp].
    + injection E as -> _. apply Forall_inv in Ha. contradiction.
  - exfalso. apply stmt_nosemi in Hs. subst ts. unfold all_nosemi in Hs. apply Forall_app in Hs as [_ Hs]. apply Forall_inv in Hs. contradiction.
  - destruct (first_semi_unique ts a semi' semi rest' r (stmt_nosemi _ _ Hs) Ha Hs' Hsemi E) as (-> & -> & ->).
    right. exists s, ss. repeat split; assumption.
Qed.

Lemma join_scans_cons off p q r :
  join_scans off (p :: q :: r) = map (shift_tok off) (scan p) ++ semi_tok (off + length p) :: join_scans (S (off + length p)) (q :: r).
Proof. reflexivity. Qed.

Lemma pieces_statements : forall ps off ss, ps <> [] -> (forall p, In p ps -> no_semi (scan p) = true) ->
  toks_prog ss (join_scans off ps) -> Forall2 toks_stmt ss (nonempty (scans_of off ps)).
Proof.
  induction ps as [|p r IH]; intros off ss Hne Hall Hp; [contradiction|].
  assert (Hp_ns : all_nosemi (map (shift_tok off) (scan p))).
  { apply all_nosemi_shift, all_nosemi_of_bool, Hall. left. reflexivity. }
  destruct r as [|q r'].
  - cbn [join_scans] in Hp. cbn [scans_of nonempty filter].
    destruct (prog_nosemi _ _ Hp Hp_ns) as [(E & ->)|(s & -> & Hs)].
    + rewrite E. cbn [is_nil negb]. constructor.
    + pose proof (stmt_nonempty _ _ Hs) as Hn. destruct (map (shift_tok off) (scan p)) eqn:E; [contradiction|].
      cbn [is_nil negb]. constructor; [exact Hs|constructor].
  - rewrite join_scans_cons in Hp. cbn [scans_of nonempty filter].
    assert (Hrest : forall ss', toks_prog ss' (join_scans (S (off + length p)) (q :: r')) ->
              Forall2 toks_stmt ss' (nonempty (scans_of (S (off + length p)) (q :: r')))).
    { intros ss' H'. apply IH; [discriminate| |exact H']. intros p0 Hin. apply Hall. right. exact Hin. }
    destruct (prog_split _ _ _ _ Hp Hp_ns eq_refl) as [(E & Hp')|(s & ss' & -> & Hs & Hp')].
    + rewrite E. cbn [is_nil negb]. apply Hrest. exact Hp'.
    + pose proof (stmt_nonempty _ _ Hs) as Hn. destruct (map (shift_tok off) (scan p)) eqn:E; [contradiction|].
      cbn [is_nil negb]. constructor; [exact Hs|]. apply Hrest. exact Hp'.
Qed.

Lemma split_statements_nonempty s : split_statements s <> [].
Proof. intros E. pose proof (split_count s) as H. rewrite E in H. cbn [length] in H. lia. Qed.

(** Parse succeeds: its statements are, in order, the non-empty pieces *)
Theorem parse_pieces s ss : parse s = ParseOk ss ->
  Forall2 toks_stmt ss (nonempty (scans_of 0 (split_statements s))).
Proof.
  intros H. apply parse_sound in H. rewrite (scan_locality s) in H.
  apply pieces_statements; [apply split_statements_nonempty| |exact H].
  intros p Hin. apply pieces_have_no_semi with (s := s). exact Hin.
Qed.

Corollary parse_count s ss : parse s = ParseOk ss ->
  length ss = length (nonempty (scans_of 0 (split_statements s))).
Proof. intros H. apply parse_pieces in H. induction H; cbn [length]; congruence. Qed.
