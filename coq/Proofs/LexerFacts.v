(** * Facts about the lexer model: progress, bounds, partition, fuel. *)
From PQL Require Import Model.Lexer.
From Coq Require Import Lia ZifyBool ZifyNat ZifyN.

Local Open Scope nat_scope.

Lemma take_while_length p l : length (take_while p l) <= length l.
Proof. induction l as [|c r IH]; simpl; [lia|]. destruct (p c); simpl; lia. Qed.

(** ** every sub-scanner stays inside its input *)
Lemma decode_width l : l <> [] -> 1 <= snd (decode l) <= length l.
Proof.
  destruct l as [|b0 r]; [congruence|]; intros _. unfold decode.
  destruct (b0 <? 128)%N; [simpl; lia|].
  destruct (in_range 194 223 b0).
  { destruct r as [|b1 r]; [simpl; lia|]. destruct (is_cont b1); simpl; lia. }
  destruct (in_range 224 239 b0).
  { destruct r as [|b1 [|b2 r]]; try (simpl; lia).
    destruct (in_range _ _ b1 && is_cont b2); simpl; lia. }
  destruct (in_range 240 244 b0).
  { destruct r as [|b1 [|b2 [|b3 r]]]; try (simpl; lia).
    destruct (in_range _ _ b1 && is_cont b2 && is_cont b3); simpl; lia. }
  simpl; lia.
Qed.

Lemma exponent_len_le l : exponent_len l <= length l.
Proof.
  unfold exponent_len. destruct l as [|e r]; [lia|].
  destruct ((e =? 101)%N || (e =? 69)%N); [|lia].
  destruct r as [|sg r']; [lia|].
  destruct ((sg =? 43)%N || (sg =? 45)%N).
  - destruct r' as [|d r'']; [lia|]. destruct (is_digit d); [|lia].
    pose proof (take_while_length is_digit (d :: r'')). simpl in *. lia.
  - destruct (is_digit sg); [|lia].
    pose proof (take_while_length is_digit (sg :: r')). simpl in *. lia.
Qed.

Lemma digits_len_le l : forall d, digits_len d l <= length l.
Proof.
  induction l as [|c r IH]; intros d; [simpl; lia|].
  cbn [digits_len]. destruct ((c =? 46)%N && negb d).
  - specialize (IH true). simpl. lia.
  - destruct (is_digit c).
    + specialize (IH d). simpl. lia.
    + apply exponent_len_le.
Qed.

Lemma comment_len_le l : comment_len l <= length l.
Proof. induction l as [|c r IH]; simpl; [lia|]. destruct (c =? 10)%N; lia. Qed.

Lemma quoted_body_le f : forall l, snd (quoted_body f l) <= length l.
Proof.
  induction f as [|f IH]; intros l; [simpl; lia|].
  destruct l as [|c r]; [simpl; lia|]. cbn [quoted_body].
  destruct (c =? 96)%N.
  - destruct r as [|c2 r2]; [simpl; lia|]. destruct (c2 =? 96)%N; [|simpl; lia].
    specialize (IH r2). destruct (quoted_body f r2) as [o n]. simpl in *. lia.
  - destruct (c =? 10)%N; [simpl; lia|].
    specialize (IH r). destruct (quoted_body f r) as [o n]. simpl in *. lia.
Qed.

Lemma skipn_length_le {A} n (l : list A) : length (skipn n l) <= length l.
Proof. rewrite skipn_length. lia. Qed.

Lemma string_body_le f q : forall esc l, snd (string_body f q esc l) <= length l.
Proof.
  induction f as [|f IH]; intros esc l; [simpl; lia|].
  destruct l as [|c0 r0]; [simpl; lia|]. cbn [string_body].
  set (l := c0 :: r0).
  assert (Hne : l <> []) by (subst l; congruence).
  pose proof (decode_width l Hne) as Hw.
  destruct (decode l) as [c w]. cbn [snd] in Hw.
  destruct (c =? q)%N; [cbn [snd]; lia|].
  destruct (c =? 10)%N; [cbn [snd]; lia|].
  destruct (c =? 92)%N.
  - destruct (skipn w l) as [|c1 r1] eqn:Hs; [cbn [snd]; lia|].
    set (l1 := c1 :: r1) in *.
    assert (Hne1 : l1 <> []) by (subst l1; congruence).
    pose proof (decode_width l1 Hne1) as Hw1.
    destruct (decode l1) as [c2 w2]. cbn [snd] in Hw1.
    destruct (c2 =? 10)%N; [cbn [snd]; lia|].
    specialize (IH true (skipn w2 l1)).
    destruct (string_body f q true (skipn w2 l1)) as [o n]. cbn [snd] in *.
    rewrite skipn_length in IH.
    assert (length l1 = length l - w) by (subst l1; rewrite <- Hs, skipn_length; reflexivity).
    lia.
  - specialize (IH esc (skipn w l)).
    destruct (string_body f q esc (skipn w l)) as [o n]. cbn [snd] in *.
    rewrite skipn_length in IH. lia.
Qed.

(** ** the length of the item at the head of a non-empty input *)
Lemma lex_ident_len l : l <> [] -> 1 <= item_len (lex_ident l) <= length l.
Proof.
  destruct l as [|c r]; [congruence|]; intros _. unfold lex_ident.
  pose proof (take_while_length is_ident_char r).
  destruct (keyword_kind _); simpl; lia.
Qed.

Lemma lex_number_len l : l <> [] -> 1 <= item_len (lex_number l) <= length l.
Proof.
  destruct l as [|c r]; [congruence|]; intros _. unfold lex_number.
  destruct (c =? 48)%N.
  - destruct r as [|c1 r1]; [simpl; lia|].
    destruct (c1 =? 46)%N.
    { pose proof (digits_len_le r1 true). cbn [item_len]. simpl length. lia. }
    destruct ((c1 =? 101)%N || (c1 =? 69)%N).
    { pose proof (exponent_len_le (c1 :: r1)). cbn [item_len]. simpl length in *. lia. }
    destruct ((c1 =? 120)%N || (c1 =? 88)%N).
    { pose proof (take_while_length is_hex_digit r1).
      destruct (take_while is_hex_digit r1) as [|h hs] eqn:E; [simpl; lia|].
      destruct (hex_value _ <? two64)%N; cbn [item_len]; simpl length in *; lia. }
    destruct (is_digit c1).
    { pose proof (digits_len_le r1 false). cbn [item_len]. simpl length. lia. }
    pose proof (digits_len_le (c1 :: r1) false). cbn [item_len]. simpl length in *. lia.
  - destruct (c =? 46)%N.
    + destruct r as [|d r1]; [simpl; lia|]. destruct (is_digit d); [|simpl; lia].
      pose proof (digits_len_le r1 true). cbn [item_len]. simpl length. lia.
    + pose proof (digits_len_le r false). cbn [item_len]. simpl length. lia.
Qed.

Lemma lex_string_len l : l <> [] -> 1 <= item_len (lex_string l) <= length l.
Proof.
  destruct l as [|q r]; [congruence|]; intros _. unfold lex_string.
  generalize (string_body_le (S (length r)) q false r).
  destruct (string_body (S (length r)) q false r) as [[v|] n]; cbn [item_len snd]; simpl length; lia.
Qed.

Lemma lex_quoted_len l : l <> [] -> 1 <= item_len (lex_quoted l) <= length l.
Proof.
  destruct l as [|q r]; [congruence|]; intros _. unfold lex_quoted.
  generalize (quoted_body_le (length (q :: r)) r).
  destruct (quoted_body (length (q :: r)) r) as [[v|] n]; cbn [item_len snd]; simpl length; lia.
Qed.

Ltac two_or_one r :=
  destruct r as [|?c2 ?r2]; [simpl; lia|];
  repeat match goal with |- context [if ?b then _ else _] => destruct b end; simpl; lia.

Theorem lex1_progress l : l <> [] -> 1 <= item_len (lex1 l) <= length l.
Proof.
  intros Hne. pose proof (decode_width l Hne) as Hw.
  destruct l as [|b r]; [congruence|]. unfold lex1.
  revert Hw. destruct (decode (b :: r)) as [c w]. cbn [snd]. simpl length. intros Hw.
  destruct (is_space c); [simpl; lia|].
  destruct (is_ident_start c); [apply lex_ident_len; congruence|].
  destruct (is_digit c || (c =? 46)%N); [apply lex_number_len; congruence|].
  destruct (c =? 44)%N; [simpl; lia|].
  destruct ((c =? 34)%N || (c =? 39)%N); [apply lex_string_len; congruence|].
  destruct (c =? 96)%N; [apply lex_quoted_len; congruence|].
  destruct (c =? 124)%N; [simpl; lia|].
  destruct (c =? 40)%N; [simpl; lia|].
  destruct (c =? 41)%N; [simpl; lia|].
  destruct (c =? 91)%N; [simpl; lia|].
  destruct (c =? 93)%N; [simpl; lia|].
  destruct (c =? 61)%N; [two_or_one r|].
  destruct (c =? 33)%N; [two_or_one r|].
  destruct (c =? 43)%N; [simpl; lia|].
  destruct (c =? 45)%N; [simpl; lia|].
  destruct (c =? 42)%N; [simpl; lia|].
  destruct (c =? 47)%N.
  { destruct r as [|c2 r']; [simpl; lia|]. destruct (c2 =? 47)%N; [|simpl; lia].
    pose proof (comment_len_le r'). simpl. lia. }
  destruct (c =? 37)%N; [simpl; lia|].
  destruct (c =? 60)%N; [two_or_one r|].
  destruct (c =? 62)%N; [two_or_one r|].
  destruct (c =? 59)%N; [simpl; lia|].
  simpl; lia.
Qed.

(** ** the scan loop *)
(** tokens are in order, non-empty, and inside [lo, hi] *)
Inductive toks_within : nat -> nat -> list token -> Prop :=
| tw_nil lo hi : lo <= hi -> toks_within lo hi []
| tw_cons lo hi t ts : lo <= tstart t -> tstart t < tend t -> tend t <= hi ->
    toks_within (tend t) hi ts -> toks_within lo hi (t :: ts).

Lemma toks_within_weaken lo lo' hi ts : lo' <= lo -> toks_within lo hi ts -> toks_within lo' hi ts.
Proof. intros H W. destruct W; constructor; try lia; assumption. Qed.

Lemma toks_within_le lo hi ts : toks_within lo hi ts -> lo <= hi.
Proof. induction 1; lia. Qed.

Theorem scan_from_within fuel : forall off l, toks_within off (off + length l) (scan_from fuel off l).
Proof.
  induction fuel as [|f IH]; intros off l; cbn [scan_from]; [constructor; lia|].
  destruct l as [|b r] eqn:El; [constructor; lia|]. rewrite <- El.
  assert (Hne : l <> []) by (subst l; congruence).
  pose proof (lex1_progress l Hne) as Hp.
  specialize (IH (item_len (lex1 l) + off) (skipn (item_len (lex1 l)) l)).
  rewrite skipn_length in IH.
  destruct (lex1 l) as [k v n|n]; cbn [item_len] in *.
  - constructor; cbn [tstart tend]; try lia.
    replace (off + length l) with (n + off + (length l - n)) by lia. exact IH.
  - apply toks_within_weaken with (lo := n + off); [lia|].
    replace (off + length l) with (n + off + (length l - n)) by lia. exact IH.
Qed.

(** with more fuel than bytes the loop never runs out: the result does not depend on the fuel *)
Theorem scan_from_fuel f1 : forall f2 off l, length l < f1 -> length l < f2 ->
  scan_from f1 off l = scan_from f2 off l.
Proof.
  induction f1 as [|f1 IH]; intros f2 off l H1 H2; [lia|].
  destruct f2 as [|f2]; [lia|]. cbn [scan_from].
  destruct l as [|b r]; [reflexivity|]. set (l := b :: r) in *.
  assert (Hne : l <> []) by (subst l; congruence).
  pose proof (lex1_progress l Hne) as Hp.
  assert (Hs : length (skipn (item_len (lex1 l)) l) < f1) by (rewrite skipn_length; lia).
  assert (Hs2 : length (skipn (item_len (lex1 l)) l) < f2) by (rewrite skipn_length; lia).
  destruct (lex1 l) as [k v n|n]; cbn [item_len] in *.
  - f_equal. apply IH; assumption.
  - apply IH; assumption.
Qed.

Theorem scan_within s : toks_within 0 (length s) (scan s).
Proof. apply (scan_from_within (S (length s)) 0 s). Qed.
