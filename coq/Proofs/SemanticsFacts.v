(** * The emitted subqueries, evaluated with the SQL reading of their expressions, give the
    pipeline evaluated with PQL's own reading. *)
From PQL Require Import Model.Trans Spec.PqlSem Spec.PipeSem Proofs.MeaningFacts Proofs.PipelineFacts.
From Coq Require Import FunctionalExtensionality String.
Local Open Scope list_scope.

Definition bound_in (sc : scope) (n : str) : bool := match scope_get sc n with Some _ => true | None => false end.

(** the SQL side reads an expression as the translated tree under SQL semantics *)
Definition ev_sql (F : fenv) (sc : scope) : bool -> env -> expr -> value :=
  fun jm e x => seval F e (trans (bound_in sc) jm x).
(** the PQL side reads it directly *)
Definition ev_pql (F : fenv) (sc : scope) : bool -> env -> expr -> value :=
  fun jm e x => peval F (bound_in sc) jm e x.

(** what is assumed of the interpretation of pass-through names: the handful of names whose
    meaning the semantics fixes are not aggregates, and count is one *)
Definition fenv_ok (F : fenv) : Prop :=
  is_agg F w_coalesce = false /\
  (is_agg F w_lower = false /\ is_agg F w_LOWER = false /\ is_agg F w_UPPER = false) /\
  is_agg F w_count = true /\
  forallb (fun n => negb (is_agg F n)) [p_not; p_isnull; p_isnotnull; p_iff; p_iif; p_strcat; p_tolower; p_toupper; p_nowf; p_countif] = true.

Lemma ev_sql_pql F sc : fenv_ok F -> ev_sql F sc = ev_pql F sc.
Proof.
  intros (H1 & H2 & H3 & H4). unfold ev_sql, ev_pql.
  extensionality jm. extensionality e. extensionality x.
  apply trans_meaning; assumption.
Qed.

Theorem pipeline_semantics F sc source db t subqs :
  fenv_ok F ->
  forallb (fun o => negb (is_join o)) (tops t) = true ->
  split_queries sc [] t = Ok subqs ->
  forall r, run_pipeline F (ev_pql F sc) source sc db t = Some r ->
            eval_statement F (ev_sql F sc) source db subqs = Some r.
Proof.
  intros HF Hnj Hs r Hr. rewrite (ev_sql_pql F sc HF).
  eapply split_queries_denotes_pipeline; [exact Hnj|reflexivity|exact Hs|exact Hr].
Qed.

From PQL Require Import Proofs.JoinFacts.

Theorem pipeline_semantics_joins F sc source db t subqs :
  fenv_ok F ->
  ok (tsrc t) [] (flat_map as_names (tops t)) (flat_map table_names (tops t)) ->
  split_queries sc [] t = Ok subqs ->
  forall r, run_pipeline F (ev_pql F sc) source sc db t = Some r ->
            eval_statement F (ev_sql F sc) source db subqs = Some r.
Proof.
  intros HF Hok Hs r Hr. rewrite (ev_sql_pql F sc HF).
  eapply split_queries_denotes_pipeline_joins; eassumption.
Qed.
