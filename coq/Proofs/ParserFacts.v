(** * Facts about the parser model. *)
From PQL Require Import Model.Parser.
From Coq Require Import Lia.
Local Open Scope list_scope.

(** ** sub-parsers: a split never loses or reorders tokens *)
Lemma split_toks_app search : forall ts stack, fst (split_toks search stack ts) ++ snd (split_toks search stack ts) = ts.
Proof.
  induction ts as [|t r IH]; intros stack; [reflexivity|].
  cbn [split_toks].
  repeat match goal with
         | |- context [if ?b then _ else _] => destruct b
         | |- context [match ?s with [] => _ | _ :: _ => _ end] => destruct s
         | |- context [let '(a, b) := split_toks ?x ?y ?z in _] =>
             let H := fresh in pose proof (IH y) as H; destruct (split_toks x y z); cbn [fst snd] in *
         end; cbn [fst snd app]; try reflexivity; try (f_equal; assumption).
Qed.

Theorem split_partition search ts : fst (split search ts) ++ snd (split search ts) = ts.
Proof. apply split_toks_app. Qed.

Lemma split_semi_app ts : fst (split_semi ts) ++ snd (split_semi ts) = ts.
Proof.
  induction ts as [|t r IH]; [reflexivity|]. cbn [split_semi].
  destruct (is_kind KSemi t); [reflexivity|].
  destruct (split_semi r). cbn [fst snd app] in *. f_equal. exact IH.
Qed.

(** the range handed to a statement's sub-parser contains no semicolon, and what is left
    starts with one *)
Lemma split_semi_no_semi ts : forall t, In t (fst (split_semi ts)) -> is_kind KSemi t = false.
Proof.
  induction ts as [|x r IH]; cbn [split_semi]; [intros t []|].
  destruct (is_kind KSemi x) eqn:E; [intros t []|].
  destruct (split_semi r). cbn [fst] in *. intros t [<-|H]; [exact E|apply IH; exact H].
Qed.

Lemma split_semi_rest ts : match snd (split_semi ts) with [] => True | t :: _ => is_kind KSemi t = true end.
Proof.
  induction ts as [|x r IH]; cbn [split_semi]; [exact I|].
  destruct (is_kind KSemi x) eqn:E; [exact E|].
  destruct (split_semi r). cbn [snd] in *. exact IH.
Qed.

(** ** an unconsumed token in a sub-parser's range is an error *)
Theorem end_split_reports ts : ts <> [] -> end_split ts <> [].
Proof. destruct ts; [congruence|discriminate]. Qed.

Lemma app_nonempty_r {A} (a b : list A) : b <> [] -> a ++ b <> [].
Proof. destruct a; cbn; [auto|discriminate]. Qed.
Lemma app_nonempty_l {A} (a b : list A) : a <> [] -> a ++ b <> [].
Proof. destruct a; cbn; [congruence|discriminate]. Qed.

(** errors only accumulate in the statement loop *)
Lemma p_statements_acc srclen n : forall fuel ts acc, acc <> [] -> snd (p_statements srclen n fuel ts acc) <> [].
Proof.
  induction n as [|n IH]; intros fuel ts acc Hacc; cbn [p_statements]; [discriminate|].
  destruct (split_semi ts) as [sub rest].
  destruct (p_statement srclen fuel sub) as [[s subrest] e].
  assert (Hacc' : snd (if is_nf e then match subrest with [] => (Some (@nil stmt), acc) | t :: _ => (Some [], e ++ err_at (tstart t)) end
                       else (option_map (fun s => [s]) s, acc ++ opaque e ++ end_split subrest)) <> []).
  { destruct (is_nf e); [destruct subrest; cbn [snd]; [exact Hacc|apply app_nonempty_r; discriminate]|].
    cbn [snd]. apply app_nonempty_l. exact Hacc. }
  destruct (if is_nf e then _ else _) as [here acc'] eqn:E. cbn [snd] in Hacc'.
  destruct rest as [|semi rest']; [exact Hacc'|].
  specialize (IH fuel rest' acc' Hacc'). destruct (p_statements srclen n fuel rest' acc'). exact IH.
Qed.

(** if the sub-parser of some statement stops before the end of its range, Parse fails *)
Theorem leftover_tokens_rejected srclen n fuel ts acc :
  let sub := fst (split_semi ts) in
  let '(s, subrest, e) := p_statement srclen fuel sub in
  subrest <> [] -> snd (p_statements srclen (S n) fuel ts acc) <> [].
Proof.
  cbn zeta. cbn [p_statements]. destruct (split_semi ts) as [sub rest]. cbn [fst].
  destruct (p_statement srclen fuel sub) as [[s subrest] e]. intros Hne.
  assert (Hacc' : snd (if is_nf e then match subrest with [] => (Some (@nil stmt), acc) | t :: _ => (Some [], e ++ err_at (tstart t)) end
                       else (option_map (fun s => [s]) s, acc ++ opaque e ++ end_split subrest)) <> []).
  { destruct (is_nf e).
    - destruct subrest; [congruence|]. cbn [snd]. apply app_nonempty_r. discriminate.
    - cbn [snd]. apply app_nonempty_r, app_nonempty_r, end_split_reports. exact Hne. }
  destruct (if is_nf e then _ else _) as [here acc']. cbn [snd] in Hacc'.
  destruct rest as [|semi rest']; [exact Hacc'|].
  pose proof (p_statements_acc srclen n fuel rest' acc' Hacc') as H.
  destruct (p_statements srclen n fuel rest' acc'). exact H.
Qed.
