(** * ParserGramStmt (C07, converse, continued): operators, statements and programs the parser
    returns are operators, statements and programs of the grammar. *)
From PQL Require Import Spec.Grammar Proofs.ParserSound Proofs.ParserSoundStmt Proofs.ParserReject Proofs.ParserComplete
  Proofs.ParserCompleteStmt Proofs.ParserGram Proofs.ParserFacts.
From Coq Require Import Lia ZArith.
Local Open Scope list_scope.
Local Open Scope nat_scope.
Local Notation length := List.length (only parsing).

Section GramStmt.
Variable srclen : nat.

Notation pexpr := (p_expr srclen).

Lemma sort_term_gram f ts t rest : p_sort_term srclen f ts = (Some t, rest, []) -> gsort_term t = true.
Proof.
  unfold p_sort_term. destruct (pexpr f ts) as [[x r1] e1] eqn:Ee.
  destruct (negb (no_err e1)) eqn:Ene; [discriminate|].
  apply Bool.negb_false_iff in Ene. apply no_err_true in Ene. subst e1. cbv zeta beta.
  assert (Hx : forall x0, x = Some x0 -> gexpr x0 = true) by (intros x0 ->; eapply p_expr_gram; exact Ee).
  assert (Hfin : forall asc asp dflt r,
     (exists x0 tn nf nsp, x = Some x0 /\ r = tn ++ rest /\ toks_nulls dflt nf nsp tn /\ t = mkSortTerm x0 asc asp nf nsp) -> gsort_term t = true).
  { intros asc asp dflt r (x0 & tn & nf & nsp & E & _ & _ & ->). unfold gsort_term. cbn [st_x]. apply Hx. exact E. }
  destruct r1 as [|t1 r].
  { intros [= H <-]. apply option_map_some in H as (x0 & E & ->). unfold gsort_term. cbn [st_x]. apply Hx. exact E. }
  destruct (is_word w_asc t1).
  { intros H. apply nulls_sound in H. eapply Hfin; exact H. }
  destruct (is_word w_desc t1).
  { intros H. apply nulls_sound in H. eapply Hfin; exact H. }
  destruct (is_word w_nulls t1) eqn:En.
  { intros H. pose proof (nulls_sound srclen x false None false (t1 :: r) t rest) as Hs. cbv beta iota in Hs. rewrite En in Hs.
    apply Hs in H. eapply Hfin; exact H. }
  intros [= H <-]. apply option_map_some in H as (x0 & E & ->). unfold gsort_term. cbn [st_x]. apply Hx. exact E.
Qed.

Lemma row_count_gram f ts x rest : p_row_count srclen f ts = (Some x, rest, []) -> grow_count x = true.
Proof.
  unfold p_row_count. destruct (pexpr f ts) as [[x0 r1] e1] eqn:Ee.
  destruct (negb (no_err e1)) eqn:Ene.
  { intros [= -> <- ->]. discriminate. }
  apply Bool.negb_false_iff in Ene. apply no_err_true in Ene. subst e1.
  intros H. unfold grow_count.
  destruct x0 as [x1|]; [|discriminate].
  pose proof (p_expr_gram srclen _ _ _ _ Ee) as Hg.
  destruct x1; try (injection H as <- <-; rewrite Hg; reflexivity).
  destruct (lit_is_integer k v) eqn:Ei; [injection H as <- <-; rewrite Hg, Ei; reflexivity|discriminate].
Qed.

Lemma ext_col_gram f ts c rest : p_ext_col srclen f ts = (Some c, rest, []) -> gext_col c = true.
Proof.
  unfold p_ext_col.
  destruct (match p_ident srclen ts with
            | (Some i, a :: r, _) => if is_kind KAssign a then Some (i, tok_span a, r) else None
            | _ => None end) as [[[i asp] r]|].
  - destruct (pexpr f r) as [[x r1] e] eqn:Ee. intros [= H <- He]. apply opaque_nil in He. subst e.
    apply when_ok_some in H as (_ & H). apply option_map_some in H as (x0 & -> & ->).
    unfold gext_col. cbn [ec_x]. eapply p_expr_gram; exact Ee.
  - destruct (pexpr f ts) as [[x r1] e] eqn:Ee. intros [= H <- ->].
    apply when_ok_some in H as (_ & H). apply option_map_some in H as (x0 & -> & ->).
    unfold gext_col. cbn [ec_x]. eapply p_expr_gram; exact Ee.
Qed.

Lemma sort_terms_gram f : forall n ts l rest, p_sort_terms srclen n f ts = (Some l, rest, []) -> forallb gsort_term l = true.
Proof.
  induction n as [|n IH]; intros ts l rest; cbn [p_sort_terms]; [discriminate|].
  destruct (p_sort_term srclen f ts) as [[t r1] e1] eqn:Et.
  destruct (negb (no_err e1)) eqn:Ene; [intros [= _ _ He]; apply opaque_nil in He; subst e1; discriminate|].
  apply Bool.negb_false_iff in Ene. apply no_err_true in Ene. subst e1.
  assert (Hone : forall r, (option_map (fun t => [t]) t, r, @nil perr) = (Some l, rest, []) -> forallb gsort_term l = true).
  { intros r [= H _]. apply option_map_some in H as (t0 & -> & ->). cbn [forallb]. rewrite (sort_term_gram _ _ _ _ Et). reflexivity. }
  destruct r1 as [|c r2]; [apply Hone|].
  destruct (is_kind KComma c); [|apply Hone].
  destruct (p_sort_terms srclen n f r2) as [[tl r3] e3] eqn:Er. intros [= H <- ->].
  apply when_ok_some in H as (_ & H). apply opt_map2_some in H as (t0 & tl0 & -> & -> & ->).
  cbn [forallb]. rewrite (sort_term_gram _ _ _ _ Et), (IH _ _ _ Er). reflexivity.
Qed.

Lemma extend_cols_gram f : forall n ts l rest, p_extend_cols srclen n f ts = (Some l, rest, []) -> forallb gext_col l = true.
Proof.
  induction n as [|n IH]; intros ts l rest; cbn [p_extend_cols]; [discriminate|].
  destruct (p_ext_col srclen f ts) as [[t r1] e1] eqn:Et.
  destruct (negb (no_err e1)) eqn:Ene; [intros [= _ _ He]; apply opaque_nil in He; subst e1; discriminate|].
  apply Bool.negb_false_iff in Ene. apply no_err_true in Ene. subst e1.
  assert (Hone : forall r, (option_map (fun t => [t]) t, r, @nil perr) = (Some l, rest, []) -> forallb gext_col l = true).
  { intros r [= H _]. apply option_map_some in H as (t0 & -> & ->). cbn [forallb]. rewrite (ext_col_gram _ _ _ _ Et). reflexivity. }
  destruct r1 as [|c r2]; [apply Hone|].
  destruct (is_kind KComma c); [|apply Hone].
  destruct (p_extend_cols srclen n f r2) as [[tl r3] e3] eqn:Er. intros [= H <- ->].
  apply when_ok_some in H as (_ & H). apply opt_map2_some in H as (t0 & tl0 & -> & -> & ->).
  cbn [forallb]. rewrite (ext_col_gram _ _ _ _ Et), (IH _ _ _ Er). reflexivity.
Qed.

Lemma group_cols_gram f : forall n ts l rest, p_group_cols srclen n f ts = (Some l, rest, []) -> forallb gext_col l = true.
Proof.
  induction n as [|n IH]; intros ts l rest; cbn [p_group_cols]; [discriminate|].
  destruct (p_ext_col srclen f ts) as [[t r1] e1] eqn:Et.
  destruct (negb (no_err e1)) eqn:Ene; [intros [= _ _ He]; apply opaque_nil in He; subst e1; discriminate|].
  apply Bool.negb_false_iff in Ene. apply no_err_true in Ene. subst e1.
  assert (Hone : forall r, (option_map (fun t => [t]) t, r, @nil perr) = (Some l, rest, []) -> forallb gext_col l = true).
  { intros r [= H _]. apply option_map_some in H as (t0 & -> & ->). cbn [forallb]. rewrite (ext_col_gram _ _ _ _ Et). reflexivity. }
  destruct r1 as [|c r2]; [apply Hone|].
  destruct (is_kind KComma c); [|apply Hone].
  destruct (p_group_cols srclen n f r2) as [[tl r3] e3] eqn:Er. intros [= H <- ->].
  apply when_ok_some in H as (_ & H). apply opt_map2_some in H as (t0 & tl0 & -> & -> & ->).
  cbn [forallb]. rewrite (ext_col_gram _ _ _ _ Et), (IH _ _ _ Er). reflexivity.
Qed.

Lemma summarize_cols_gram f : forall n ac ts l rest fin tc, p_summarize_cols srclen n f ac ts = (Some l, rest, [], fin, tc) -> forallb gext_col l = true.
Proof.
  induction n as [|n IH]; intros ac ts l rest fin tc; cbn [p_summarize_cols]; [discriminate|].
  destruct (p_ext_col srclen f ts) as [[t r1] e1] eqn:Et.
  destruct (is_nf e1); [intros [= <- _ _ _]; reflexivity|].
  destruct (negb (no_err e1)) eqn:Ene; [intros [= _ _ He _ _]; apply opaque_nil in He; subst e1; discriminate|].
  apply Bool.negb_false_iff in Ene. apply no_err_true in Ene. subst e1.
  assert (Hone : forall (r : list token) (b1 b2 : bool), (option_map (fun t => [t]) t, r, @nil perr, b1, b2) = (Some l, rest, [], fin, tc) -> forallb gext_col l = true).
  { intros r b1 b2 [= H _ _ _]. apply option_map_some in H as (t0 & -> & ->). cbn [forallb]. rewrite (ext_col_gram _ _ _ _ Et). reflexivity. }
  destruct r1 as [|c r2]; [apply Hone|].
  destruct (is_kind KComma c); [|apply Hone].
  destruct (p_summarize_cols srclen n f true r2) as [[[[tl r3] e3] fin3] tc3] eqn:Er. intros [= H <- -> <- <-].
  apply when_ok_some in H as (_ & H). apply opt_map2_some in H as (t0 & tl0 & -> & -> & ->).
  cbn [forallb]. rewrite (ext_col_gram _ _ _ _ Et), (IH _ _ _ _ _ _ Er). reflexivity.
Qed.

Definition gproj_col_opt (c : option proj_col) : bool := match c with Some c => gproj_col c | None => true end.

Lemma project_cols_gram f : forall n ts l rest, p_project_cols srclen n f ts = (Some l, rest, []) -> forallb gproj_col l = true.
Proof.
  induction n as [|n IH]; intros ts l rest; cbn [p_project_cols]; [discriminate|].
  destruct (p_ident srclen ts) as [[[name|] r] e0]; [|discriminate].
  assert (Hmore : forall r' col, gproj_col_opt col = true ->
            (let '(tl, r3, e3) := p_project_cols srclen n f r' in (when_ok e3 (opt_map2 cons col tl), r3, e3)) = (Some l, rest, []) ->
            forallb gproj_col l = true).
  { intros r' col Hc. destruct (p_project_cols srclen n f r') as [[tl r3] e3] eqn:Er. intros [= H <- ->].
    apply when_ok_some in H as (_ & H). apply opt_map2_some in H as (c0 & tl0 & -> & -> & ->).
    cbn [forallb]. cbn [gproj_col_opt] in Hc. rewrite Hc, (IH _ _ _ Er). reflexivity. }
  destruct r as [|sep r1]; [intros [= <- _]; reflexivity|].
  destruct (is_kind KComma sep); [apply Hmore; reflexivity|].
  destruct (is_kind KAssign sep); [|intros [= <- _]; reflexivity].
  destruct (pexpr f r1) as [[x r2] e2] eqn:Ee.
  destruct (negb (no_err e2)) eqn:Ene; [intros [= _ _ He]; apply opaque_nil in He; subst e2; discriminate|].
  apply Bool.negb_false_iff in Ene. apply no_err_true in Ene. subst e2.
  assert (Hcol : gproj_col_opt (option_map (fun x => mkProjCol name (tok_span sep) (Some x)) x) = true).
  { destruct x as [x0|]; [|reflexivity]. cbn [option_map gproj_col_opt]. unfold gproj_col. cbn [pc_x]. eapply p_expr_gram; exact Ee. }
  destruct r2 as [|sep2 r3].
  { intros [= H _]. apply option_map_some in H as (c0 & E & ->). rewrite E in Hcol. cbn [gproj_col_opt forallb] in *. rewrite Hcol. reflexivity. }
  destruct (is_kind KComma sep2); [apply Hmore; exact Hcol|discriminate].
Qed.

Lemma render_prop_gram f ts p rest : p_render_prop srclen f ts = (Some p, rest, []) -> grender_prop p = true.
Proof.
  unfold p_render_prop. destruct (p_ident srclen ts) as [[[name|] r] e0]; [|discriminate].
  destruct r as [|a r1]; [discriminate|]. destruct (is_kind KAssign a); [|discriminate].
  destruct (pexpr f r1) as [[v r2] e2] eqn:Ee.
  destruct (negb (no_err e2)) eqn:Ene; [intros [= _ _ ->]; discriminate|].
  apply Bool.negb_false_iff in Ene. apply no_err_true in Ene. subst e2.
  intros [= H _]. apply option_map_some in H as (v0 & -> & ->). unfold grender_prop. cbn [rp_value]. eapply p_expr_gram; exact Ee.
Qed.

Lemma render_props_gram f : forall n ts ps rest, p_render_props srclen n f ts = (Some ps, rest, []) -> forallb grender_prop (fst ps) = true.
Proof.
  induction n as [|n IH]; intros ts ps rest; cbn [p_render_props]; [discriminate|].
  destruct (p_render_prop srclen f ts) as [[p r1] e1] eqn:Ep.
  destruct (negb (no_err e1)) eqn:Ene; [intros [= _ _ He]; apply opaque_nil in He; subst e1; discriminate|].
  apply Bool.negb_false_iff in Ene. apply no_err_true in Ene. subst e1.
  destruct r1 as [|t r2]; [discriminate|].
  destruct (is_kind KRParen t).
  { intros [= H _]. apply option_map_some in H as (p0 & -> & ->). cbn [fst forallb]. rewrite (render_prop_gram _ _ _ _ Ep). reflexivity. }
  destruct (is_kind KComma t); [|discriminate].
  destruct (p_render_props srclen n f r2) as [[tl r3] e3] eqn:Er. intros [= H <- ->].
  apply when_ok_some in H as (_ & H). apply opt_map2_some in H as (p0 & tl0 & -> & -> & ->).
  cbn [fst forallb]. rewrite (render_prop_gram _ _ _ _ Ep), (IH _ _ _ Er). reflexivity.
Qed.

(** ** operators and tabular expressions *)
Definition GO_tab (f : nat) : Prop := forall ts t rest, p_tabular srclen f ts = (Some t, rest, []) -> forallb gop (tops t) = true.
Definition GO_ops (f : nat) : Prop := forall ts l rest, p_operators srclen f ts = (Some l, rest, []) -> forallb gop l = true.
Definition GO_op (f : nat) : Prop := forall pipe name ts op rest known,
  p_operator srclen f pipe name ts = (Some op, rest, [], known) -> gop op = true.

Lemma after_kind_gram f pipe kw ksp kasp flavor r2 e0 op rest known : GO_tab f ->
  after_kind srclen f pipe kw ksp kasp flavor r2 e0 = (Some op, rest, [], known) -> gop op = true.
Proof.
  intros HT. unfold after_kind. destruct r2 as [|lp r3]; [discriminate|].
  destruct (is_kind KLParen lp); [|discriminate].
  destruct (split KRParen r3) as [sub rest0].
  destruct (p_tabular srclen f sub) as [[rtab subrest] er] eqn:Etab.
  destruct rest0 as [|rp r4]; [discriminate|]. destruct (is_kind KRParen rp); [|discriminate].
  destruct r4 as [|on r5]; [discriminate|]. destruct (is_word w_on on); [|discriminate].
  destruct (p_expr_list srclen f r5) as [[conds r6] ec] eqn:Ec.
  intros [= H <- He _]. apply app_nil_inv in He as [He1 Hec]. apply opaque_nil in Hec. subst ec.
  apply app_nil_inv in He1 as [-> He1]. apply app_nil_inv in He1 as [Her _]. apply opaque_nil in Her. subst er.
  apply when_ok_some in H as (_ & H). apply opt_map2_some in H as (rt & cs & -> & -> & ->).
  cbn [gop]. rewrite (HT _ _ _ Etab), (p_expr_list_gram srclen _ _ _ _ Ec). reflexivity.
Qed.

Lemma g_op f : GO_tab f -> GO_op (S f).
Proof.
  intros HT pipe name ts op rest known. rewrite p_operator_S. cbv zeta.
  destruct (str_eqb (tvalue name) w_count); [intros [= <- _ _]; reflexivity|].
  destruct (str_eqb (tvalue name) w_where || str_eqb (tvalue name) w_filter).
  { destruct (p_expr srclen f ts) as [[x r] e] eqn:Ee. intros [= H _ He _]. apply opaque_nil in He. subst e.
    apply when_ok_some in H as (_ & H). apply option_map_some in H as (x0 & -> & ->). cbn [gop]. eapply p_expr_gram; exact Ee. }
  destruct (str_eqb (tvalue name) w_sort || str_eqb (tvalue name) w_order).
  { destruct ts as [|b r]; [discriminate|]. destruct (is_kind KBy b); [|discriminate].
    destruct (p_sort_terms srclen (S (length (b :: r))) f r) as [[terms r1] e] eqn:Et. intros [= H _ -> _].
    apply when_ok_some in H as (_ & H). apply option_map_some in H as (l & -> & ->). cbn [gop]. eapply sort_terms_gram; exact Et. }
  destruct (str_eqb (tvalue name) w_take || str_eqb (tvalue name) w_limit).
  { destruct (p_row_count srclen f ts) as [[x r] e] eqn:Ee. intros [= H _ He _]. apply opaque_nil in He. subst e.
    apply when_ok_some in H as (_ & H). apply option_map_some in H as (x0 & -> & ->). cbn [gop]. eapply row_count_gram; exact Ee. }
  destruct (str_eqb (tvalue name) w_top).
  { destruct (p_row_count srclen f ts) as [[x r] e] eqn:Ee.
    destruct (negb (no_err e)) eqn:Ene; [discriminate|].
    apply Bool.negb_false_iff in Ene. apply no_err_true in Ene. subst e.
    destruct r as [|b r1]; [discriminate|]. destruct (is_kind KBy b); [|discriminate].
    destruct (p_sort_term srclen f r1) as [[col r2] e2] eqn:Ec. intros [= H _ He _]. apply opaque_nil in He. subst e2.
    apply when_ok_some in H as (_ & H). apply opt_map2_some in H as (x0 & c0 & -> & -> & ->).
    cbn [gop]. rewrite (row_count_gram _ _ _ _ Ee), (sort_term_gram _ _ _ _ Ec). reflexivity. }
  destruct (str_eqb (tvalue name) w_project).
  { destruct (p_project_cols srclen (S (length ts)) f ts) as [[cols r] e] eqn:Ec. intros [= H _ -> _].
    apply when_ok_some in H as (_ & H). apply option_map_some in H as (l & -> & ->). cbn [gop]. eapply project_cols_gram; exact Ec. }
  destruct (str_eqb (tvalue name) w_extend).
  { destruct (p_extend_cols srclen (S (length ts)) f ts) as [[cols r] e] eqn:Ec. intros [= H _ -> _].
    apply when_ok_some in H as (_ & H). apply option_map_some in H as (l & -> & ->). cbn [gop]. eapply extend_cols_gram; exact Ec. }
  destruct (str_eqb (tvalue name) w_summarize).
  { destruct (p_summarize_cols srclen (S (length ts)) f false ts) as [[[[cols r] e] fin] tc] eqn:Ec.
    assert (Hcols : forall c, cols = Some c -> e = [] -> forallb gext_col c = true).
    { intros c -> ->. eapply summarize_cols_gram; exact Ec. }
    destruct fin.
    { intros [= H _ -> _]. apply when_ok_some in H as (_ & H). apply option_map_some in H as (c & -> & ->).
      cbn [gop forallb]. rewrite (Hcols c eq_refl eq_refl). reflexivity. }
    assert (He : e = []) by (eapply p_summarize_cols_notfin; exact Ec). subst e.
    assert (Hplain : forall r', (option_map (fun c => OSummarize pipe (tok_span name) c None []) cols, r', @nil perr, true) = (Some op, rest, [], known) -> gop op = true).
    { intros r' [= H _ _]. apply option_map_some in H as (c & -> & ->). cbn [gop forallb]. rewrite (Hcols c eq_refl eq_refl). reflexivity. }
    destruct r as [|b r1].
    { destruct (_ || _); [discriminate|apply Hplain]. }
    destruct (is_kind KBy b).
    { destruct (p_group_cols srclen (S (length ts)) f r1) as [[gs r2] e2] eqn:Eg. intros [= H _ -> _].
      apply when_ok_some in H as (_ & H). apply opt_map2_some in H as (c & g & -> & -> & ->).
      cbn [gop]. rewrite (Hcols c eq_refl eq_refl), (group_cols_gram _ _ _ _ _ Eg). reflexivity. }
    destruct (_ || _); [discriminate|apply Hplain]. }
  destruct (str_eqb (tvalue name) w_join).
  { destruct ts as [|t0 r0]; [discriminate|].
    change ((
              if is_word w_kind t0 then
                match r0 with
                | a :: r1 =>
                  if is_kind KAssign a then
                    match r1 with
                    | fl :: r2 =>
                      if is_kind KIdentifier fl then
                        after_kind srclen f pipe (tok_span name) (tok_span t0) (tok_span a) (Some (mk_ident fl)) r2
                                   (if is_join_type (tvalue fl) then [] else err_at (tstart fl))
                      else (None, r2, err_at (tstart fl), true)
                    | [] => (None, [], err_at srclen, true)
                    end
                  else (None, r1, err_at (tstart a), true)
                | [] => (None, [], err_at srclen, true)
                end
              else after_kind srclen f pipe (tok_span name) None None None (t0 :: r0) [])
            = (Some op, rest, [], known) -> gop op = true).
    destruct (is_word w_kind t0).
    - destruct r0 as [|a r1]; [intros H; cbv iota in H; discriminate H|]. destruct (is_kind KAssign a); [|intros H; cbv iota in H; discriminate H].
      destruct r1 as [|fl r2]; [intros H; cbv iota in H; discriminate H|]. destruct (is_kind KIdentifier fl); [|intros H; cbv iota in H; discriminate H].
      apply after_kind_gram. exact HT.
    - apply after_kind_gram. exact HT. }
  destruct (str_eqb (tvalue name) w_as).
  { destruct (p_ident srclen ts) as [[i r] e]. intros [= H _ _ _]. apply option_map_some in H as (i0 & -> & ->). reflexivity. }
  destruct (str_eqb (tvalue name) w_render); [|discriminate].
  destruct (p_ident srclen ts) as [[[chart|] r] e0]; [|discriminate].
  destruct r as [|wt r1]; [intros [= <- _ _]; reflexivity|].
  destruct (is_word w_with wt); [|intros [= <- _ _]; reflexivity].
  destruct r1 as [|lp r2]; [discriminate|]. destruct (is_kind KLParen lp); [|discriminate].
  destruct (p_render_props srclen _ f r2) as [[ps r3] e] eqn:Ep. intros [= H _ -> _].
  apply when_ok_some in H as (_ & H). apply option_map_some in H as (ps0 & -> & ->).
  cbn [gop]. eapply render_props_gram; exact Ep.
Qed.

Lemma g_ops f : GO_op f -> GO_ops f -> GO_ops (S f).
Proof.
  intros HO HS ts l rest. rewrite p_operators_S.
  destruct ts as [|pipe r]; [intros [= <- _]; reflexivity|].
  destruct (is_kind KPipe pipe); [|intros [= <- _]; reflexivity].
  destruct (split KPipe r) as [sub rest0].
  destruct sub as [|name sr].
  { destruct (p_operators srclen f rest0) as [[ops rest'] e2]. intros [= _ _ He]. }
  destruct (negb (is_kind KIdentifier name)).
  { destruct (p_operators srclen f rest0) as [[ops rest'] e2]. intros [= _ _ He]. }
  destruct (p_operator srclen f (tok_span pipe) name sr) as [[[op subrest] eo] known] eqn:Eo.
  destruct (p_operators srclen f rest0) as [[ops rest'] e2] eqn:Es.
  destruct known.
  - intros [= H _ He]. apply app_nil_inv in He as [He1 ->]. apply app_nil_inv in He1 as [-> He1]. apply end_split_nil in He1. subst subrest.
    cbn [app when_ok no_err] in H. apply opt_map2_some in H as (o0 & os & -> & -> & ->).
    cbn [forallb]. rewrite (HO _ _ _ _ _ _ Eo), (HS _ _ _ Es). reflexivity.
  - intros [= H _ He]. apply app_nil_inv in He as [-> ->]. cbn [app when_ok no_err opt_map2] in H. discriminate.
Qed.

Lemma g_tab f : GO_ops f -> GO_tab (S f).
Proof.
  intros HS ts t rest. rewrite p_tabular_S. destruct (p_ident srclen ts) as [[[name|] r] e0]; [|discriminate].
  destruct (p_operators srclen f r) as [[ops rest'] e] eqn:Es. intros [= H _ ->].
  apply when_ok_some in H as (_ & H). apply option_map_some in H as (l & -> & ->). cbn [tops]. eapply HS; exact Es.
Qed.

Theorem go_all f : GO_tab f /\ GO_ops f /\ GO_op f.
Proof.
  induction f as [|f (HT & HS & HO)].
  - unfold GO_tab, GO_ops, GO_op. cbn [p_tabular p_operators p_operator]. repeat split; intros; discriminate.
  - split; [apply g_tab; exact HS|]. split; [apply g_ops; assumption|apply g_op; exact HT].
Qed.

(** ** statements and programs *)
Lemma p_let_gram f ts s rest : p_let srclen f ts = (Some s, rest, []) -> gstmt s = true.
Proof.
  unfold p_let. destruct ts as [|kw r]; [discriminate|]. destruct (is_word w_let kw); [|discriminate].
  destruct (p_ident srclen r) as [[[name|] r1] e0]; [|discriminate].
  destruct r1 as [|a r2]; [discriminate|]. destruct (is_kind KAssign a); [|discriminate].
  destruct (p_expr srclen f r2) as [[x r3] e] eqn:Ee. intros [= H _ He]. apply opaque_nil in He. subst e.
  apply when_ok_some in H as (_ & H). apply option_map_some in H as (x0 & -> & ->). cbn [gstmt]. eapply p_expr_gram; exact Ee.
Qed.

Lemma p_let_nf_word f ts s rest e : p_let srclen f ts = (s, rest, e) -> is_nf e = true ->
  match ts with t :: _ => is_word w_let t = false | [] => True end.
Proof.
  unfold p_let. destruct ts as [|kw r]; [trivial|]. destruct (is_word w_let kw); [|reflexivity].
  destruct (p_ident srclen r) as [[[name|] r1] e0]; [|intros [= _ _ <-]; rewrite is_nf_opaque; discriminate].
  destruct r1 as [|a r2]; [intros [= _ _ <-]; discriminate|]. destruct (is_kind KAssign a); [|intros [= _ _ <-]; discriminate].
  destruct (p_expr srclen f r2) as [[x r3] e1]. intros [= _ _ <-]. rewrite is_nf_opaque. discriminate.
Qed.

Lemma p_statement_gram f ts s rest : p_statement srclen f ts = (Some s, rest, []) -> gstmt s = true.
Proof.
  unfold p_statement. destruct (p_let srclen f ts) as [[s0 r0] e0] eqn:El.
  destruct (negb (is_nf e0)) eqn:Enf.
  { intros [= -> <- ->]. eapply p_let_gram; exact El. }
  apply Bool.negb_false_iff in Enf. pose proof (p_let_nf_word _ _ _ _ _ El Enf) as Hw.
  destruct (p_tabular srclen f ts) as [[t r] e] eqn:Et. intros [= H <- ->]. apply option_map_some in H as (t0 & -> & ->).
  cbn [gstmt]. rewrite (proj1 (go_all f) _ _ _ Et). rewrite Bool.andb_true_r.
  (* the source name is the first token, which is not the word let *)
  destruct (proj1 (T_all srclen f)) as [Hts _]. destruct (Hts _ _ _ Et) as (used & -> & (tsrc0 & tro & -> & Hs & _)).
  cbn [app] in Hw. unfold is_let_word. destruct Hs as (Hk & Hv & _). unfold is_word, is_kind in Hw. rewrite Hk, Hv in Hw.
  destruct (iquoted (tsrc t0)); [reflexivity|]. replace (kind_eqb KIdentifier KIdentifier) with true in Hw by reflexivity.
  cbn [andb negb] in *. rewrite Hw. reflexivity.
Qed.

Lemma p_statements_gram f : forall n ts ss, p_statements srclen n f ts [] = (Some ss, []) -> gprog ss = true.
Proof.
  induction n as [|n IH]; intros ts ss; cbn [p_statements]; [discriminate|].
  destruct (split_semi ts) as [sub rest].
  destruct (p_statement srclen f sub) as [[s subrest] e] eqn:Es.
  destruct (is_nf e) eqn:Enf.
  - destruct subrest as [|t r].
    + destruct rest as [|semi rest']; [intros [= <-]; reflexivity|].
      destruct (p_statements srclen n f rest' []) as [tl acc''] eqn:Er. intros [= H ->]. cbn [opt_map2] in H.
      destruct tl as [tl0|]; [|discriminate]. injection H as <-. cbn [app]. eapply IH; exact Er.
    + destruct rest as [|semi rest'].
      * intros [= _ He]. destruct e; discriminate.
      * destruct (p_statements srclen n f rest' (e ++ err_at (tstart t))) as [tl acc''] eqn:Er. intros [= _ ->].
        exfalso. eapply (p_statements_acc srclen n f rest' (e ++ err_at (tstart t))); [apply app_nonempty_r; discriminate|]. rewrite Er. reflexivity.
  - cbn [app]. destruct rest as [|semi rest'].
    + intros [= H He]. apply app_nil_inv in He as [He1 He2]. apply opaque_nil in He1. subst e.
      apply option_map_some in H as (s0 & -> & ->). apply end_split_nil in He2. subst subrest.
      unfold gprog. cbn [forallb]. rewrite (p_statement_gram _ _ _ _ Es). reflexivity.
    + destruct (p_statements srclen n f rest' (opaque e ++ end_split subrest)) as [tl acc''] eqn:Er. intros [= H ->].
      destruct (opaque e ++ end_split subrest) as [|x l] eqn:Eacc.
      * apply app_nil_inv in Eacc as [He1 He2]. apply opaque_nil in He1. subst e. apply end_split_nil in He2. subst subrest.
        apply opt_map2_some in H as (a & tl0 & Ha & -> & ->). apply option_map_some in Ha as (s0 & -> & ->).
        unfold gprog. cbn [app forallb]. rewrite (p_statement_gram _ _ _ _ Es). apply (IH _ _ Er).
      * exfalso. eapply (p_statements_acc srclen n f rest' (x :: l)); [discriminate|]. rewrite Er. reflexivity.
Qed.

End GramStmt.

Theorem parse_tokens_gram srclen ts ss : parse_tokens srclen ts = ParseOk ss -> gprog ss = true.
Proof.
  unfold parse_tokens. destruct (p_statements srclen (S (length ts)) (parse_fuel (length ts)) ts []) as [ss0 e] eqn:E.
  destruct (existsb efuel e); [discriminate|]. destruct (no_err e) eqn:En; [|discriminate].
  apply no_err_true in En. subst e. destruct ss0 as [l|]; [|discriminate]. intros [= <-].
  eapply p_statements_gram; exact E.
Qed.

Theorem parse_gram s ss : parse s = ParseOk ss -> gprog ss = true.
Proof. apply parse_tokens_gram. Qed.

(** Parse accepts exactly the programs of the grammar, and returns the program the source stands for *)
Theorem parse_characterised s ss : parse s = ParseOk ss <-> (toks_prog ss (scan s) /\ gprog ss = true).
Proof.
  split.
  - intros H. split; [apply parse_sound; exact H|eapply parse_gram; exact H].
  - intros [Ht Hg]. apply parse_complete; assumption.
Qed.
